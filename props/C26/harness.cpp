// C26 harness: builds structured zones through the real C++ API and prints Host::route_to link NAMES.
// stdin: one zone description per line; stdout: one line per (zone, src host):
//     `<zone description> <src> => <route to dst 0> | <route to dst 1> | ... |`
// (every route is a list of link names; each route is terminated by `|`).
// Zones are built one after the other in this process (fork costs 0.1 s per zone here); every name the harness chooses
// (zone, hosts, loopback/limiter/star links) gets a per-zone prefix `<k>~` that is stripped when printing.  The fat-tree
// and dragonfly code keep function-local `static` counters (leaf positions, link unique ids) that go on counting from
// zone to zone: the harness keeps count of the fat-tree leaves / cables and dragonfly cables IT has created so far and
// appends them to the description (`F ... <posOff> <uidOff>`, `D ... <uidOff>`).  With `--fork` every zone is built in a
// forked child instead (crash isolation: a child that dies prints `<zone> - => CRASH <sig>`).
// A zone whose construction throws invalid_argument prints `<zone description> - => REJECTED`.
//
//   T <d1,d2,..> <lb> <lim> <sp>                       torus; lb/lim in {0,1}; sp in {S (SPLITDUPLEX), H (SHARED)}
//   F <levels> <down,..> <up,..> <count,..> <lb> <lim> <sp> <pre>   fat tree; pre = number of leaves of a fat tree built
//                                                       before in the same process (0 = none)
//   D <g,gl> <c,cl> <r,rl> <n> <lb> <lim> <sp>          dragonfly
//   S <n> <spec_0> .. <spec_{n-1}>                      star zone with n hosts; spec_i = up:down:loop:sym where each of
//                                                       up/down/loop is `-` (not set) or a `,`-list of link ids
//                                                       (`e` = empty list), sym in {0,1} (add_route(..., symmetrical))
//                                                       link ids: a..z shared links, A..Z split-duplex links (UP), A! = DOWN
#include <simgrid/kernel/routing/NetPoint.hpp>
#include <simgrid/s4u/Engine.hpp>
#include <simgrid/s4u/Host.hpp>
#include <simgrid/s4u/Link.hpp>
#include <simgrid/s4u/NetZone.hpp>
#include <xbt/log.h>

#include <climits>
#include <cstdio>
#include <iostream>
#include <map>
#include <sstream>
#include <string>
#include <sys/wait.h>
#include <unistd.h>
#include <vector>

namespace sg = simgrid::s4u;

static std::vector<unsigned long> parse_list(const std::string& s)
{
  std::vector<unsigned long> res;
  std::stringstream ss(s);
  std::string tok;
  while (std::getline(ss, tok, ','))
    res.push_back(std::stoul(tok));
  return res;
}

static std::string coord_str(const std::vector<unsigned long>& coord)
{
  std::string s;
  for (size_t i = 0; i < coord.size(); i++)
    s += (i ? "." : "") + (coord[i] == UINT_MAX ? std::string("R") : std::to_string(coord[i]));
  return s;
}

static std::vector<sg::Host*> hosts;
static std::string prefix;          // `<k>~`
static unsigned long zone_idx  = 0;
static unsigned long ft_leaves = 0; // fat-tree leaves created so far in this process (= the static `position`)
static unsigned long ft_cables = 0; // fat-tree cables created so far (= the static `uniqueId` of add_internal_link)
static unsigned long df_cables = 0; // dragonfly cables created so far (= the static `uniqueId` of generate_links)

static std::string strip(const std::string& name)
{
  auto p = name.find('~');
  if (p != std::string::npos && p < 8 && name.find_first_not_of("0123456789") == p)
    return name.substr(p + 1);
  return name;
}
static unsigned long count_cables(sg::NetZone* z, const std::vector<std::string>& starts, bool split)
{
  unsigned long n = 0;
  for (auto* l : z->get_impl()->get_all_links())
    for (auto const& st : starts)
      if (strip(l->get_name()).rfind(st, 0) == 0)
        n++;
  return split ? n / 2 : n;
}

static sg::Host* host_cb(sg::NetZone* zone, const std::vector<unsigned long>& coord, unsigned long id)
{
  auto* h = zone->add_host(prefix + "h" + std::to_string(id) + "@" + coord_str(coord), 1e9);
  hosts.push_back(h);
  return h;
}
static sg::Link* loopback_cb(sg::NetZone* zone, const std::vector<unsigned long>& coord, unsigned long id)
{
  return zone->add_link(prefix + "lb" + std::to_string(id) + "@" + coord_str(coord), 1e9)
      ->set_sharing_policy(sg::Link::SharingPolicy::FATPIPE)
      ->seal();
}
static sg::Link* limiter_cb(sg::NetZone* zone, const std::vector<unsigned long>& coord, unsigned long id)
{
  return zone->add_link(prefix + "lim" + std::to_string(id) + "@" + coord_str(coord), 1e9)->seal();
}

static void print_routes(const std::string& desc)
{
  for (size_t s = 0; s < hosts.size(); s++) {
    std::ostringstream out;
    out << desc << " " << s << " =>";
    for (size_t d = 0; d < hosts.size(); d++) {
      std::vector<sg::Link*> links;
      double lat = 0;
      hosts[s]->route_to(hosts[d], links, &lat);
      for (auto* l : links)
        out << " " << strip(l->get_name());
      out << " |";
    }
    out << "\n";
    std::cout << out.str();
  }
  std::cout.flush();
}

static void set_cbs(sg::NetZone* z, bool lb, bool lim)
{
  z->set_host_cb(host_cb);
  if (lb)
    z->set_loopback_cb(loopback_cb);
  if (lim)
    z->set_limiter_cb(limiter_cb);
}

static sg::Link::SharingPolicy policy(const std::string& sp)
{
  return sp == "S" ? sg::Link::SharingPolicy::SPLITDUPLEX : sg::Link::SharingPolicy::SHARED;
}

static void do_zone(const std::string& line)
{
  std::istringstream in(line);
  std::string kind;
  in >> kind;
  hosts.clear();
  prefix = std::to_string(zone_idx++) + "~";
  std::string desc = line;
  auto* root = sg::Engine::get_instance()->get_netzone_root();
  if (kind == "T") {
    std::string dims, sp;
    int lb, lim;
    in >> dims >> lb >> lim >> sp;
    auto* z = root->add_netzone_torus(prefix + "z", parse_list(dims), 1e9, 1e-6, policy(sp));
    set_cbs(z, lb, lim);
    z->seal();
  } else if (kind == "F") {
    unsigned levels;
    std::string down, up, count, sp;
    int lb, lim;
    unsigned long pre;
    in >> levels >> down >> up >> count >> lb >> lim >> sp >> pre;
    auto tou = [](const std::vector<unsigned long>& v) { return std::vector<unsigned int>(v.begin(), v.end()); };
    if (pre > 0) {
      // a first fat tree with `pre` leaves (1 level): moves the static counters of FatTreeZone
      auto* z0 = root->add_netzone_fatTree(prefix + "z0", 1, {(unsigned)pre}, {1}, {1}, 1e9, 1e-6, policy(sp));
      z0->set_host_cb([](sg::NetZone* zone, const std::vector<unsigned long>&, unsigned long id) {
        return zone->add_host(prefix + "pre" + std::to_string(id), 1e9);
      });
      z0->seal();
      ft_leaves += pre;
      ft_cables += count_cables(z0, {"link_from_"}, sp == "S");
    }
    desc += " " + std::to_string(ft_leaves) + " " + std::to_string(ft_cables);
    auto* z = root->add_netzone_fatTree(prefix + "z", levels, tou(parse_list(down)), tou(parse_list(up)),
                                        tou(parse_list(count)), 1e9, 1e-6, policy(sp));
    set_cbs(z, lb, lim);
    z->seal();
    ft_leaves += hosts.size();
    ft_cables += count_cables(z, {"link_from_"}, sp == "S");
  } else if (kind == "D") {
    std::string g, c, r, sp;
    unsigned n;
    int lb, lim;
    in >> g >> c >> r >> n >> lb >> lim >> sp;
    auto pg = parse_list(g), pc = parse_list(c), pr = parse_list(r);
    desc += " " + std::to_string(df_cables);
    auto* z = root->add_netzone_dragonfly(prefix + "z", {pg.at(0), pg.at(1)}, {pc.at(0), pc.at(1)}, {pr.at(0), pr.at(1)}, n, 1e9,
                                          1e-6, policy(sp));
    set_cbs(z, lb, lim);
    z->seal();
    df_cables += count_cables(z, {"local_link_", "green_link_", "black_link_", "blue_link_"}, sp == "S");
  } else if (kind == "S") {
    unsigned n;
    in >> n;
    auto* z = root->add_netzone_star(prefix + "z");
    std::map<char, sg::Link*> shared;
    std::map<char, sg::SplitDuplexLink*> split;
    auto mk = [&](const std::string& s) {
      std::vector<sg::LinkInRoute> res;
      if (s == "e")
        return res;
      std::stringstream ss(s);
      std::string tok;
      while (std::getline(ss, tok, ',')) {
        char c = tok.at(0);
        if (c >= 'a' && c <= 'z') {
          if (not shared.count(c))
            shared[c] = z->add_link(prefix + std::string(1, c), 1e9)->seal();
          res.emplace_back(shared[c]);
        } else {
          if (not split.count(c)) {
            auto* sd = z->add_split_duplex_link(prefix + std::string(1, c), 1e9);
            sd->seal();
            split[c] = sd;
          }
          // `A` = direction UP, `A!` = direction DOWN
          auto dir = sg::LinkInRoute::Direction::UP;
          if (tok.size() > 1 && tok.back() == '!')
            dir = sg::LinkInRoute::Direction::DOWN;
          res.emplace_back(split[c], dir);
        }
      }
      return res;
    };
    std::vector<std::string> specs(n);
    for (auto& s : specs)
      in >> s;
    for (unsigned i = 0; i < n; i++)
      hosts.push_back(z->add_host(prefix + "h" + std::to_string(i), 1e9));
    for (unsigned i = 0; i < n; i++) {
      std::stringstream ss(specs[i]);
      std::string up, down, loop, sym;
      std::getline(ss, up, ':');
      std::getline(ss, down, ':');
      std::getline(ss, loop, ':');
      std::getline(ss, sym, ':');
      const sg::Host* np = hosts[i];
      const sg::Host* none = nullptr;
      if (up != "-")
        z->add_route(np, none, mk(up), sym == "1");
      if (down != "-")
        z->add_route(none, np, mk(down), false);
      if (loop != "-")
        z->add_route(np, np, mk(loop), false);
    }
    z->seal();
  } else {
    throw std::invalid_argument("unknown zone kind " + kind);
  }
  print_routes(desc);
}

static void run_zone(const std::string& line)
{
  try {
    do_zone(line);
  } catch (const std::invalid_argument& ex) {
    std::cout << line << " - => REJECTED\n";
  } catch (const std::exception& ex) {
    std::cout << line << " - => EXCEPTION " << ex.what() << "\n";
  }
  std::cout.flush();
}

int main(int argc, char** argv)
{
  bool use_fork = false;
  for (int i = 1; i < argc; i++)
    if (std::string(argv[i]) == "--fork")
      use_fork = true;
  sg::Engine e(&argc, argv);
  xbt_log_control_set("root.thres:critical");
  std::string line;
  while (std::getline(std::cin, line)) {
    if (line.empty())
      continue;
    if (not use_fork) {
      run_zone(line);
      continue;
    }
    std::cout.flush();
    pid_t pid = fork();
    if (pid == 0) {
      run_zone(line);
      _exit(0);
    }
    int status = 0;
    waitpid(pid, &status, 0);
    if (WIFSIGNALED(status))
      std::cout << line << " - => CRASH " << WTERMSIG(status) << "\n";
    else if (WEXITSTATUS(status) != 0)
      std::cout << line << " - => EXIT " << WEXITSTATUS(status) << "\n";
  }
  return 0;
}
