"""C06 — condition variable semantics: notify_one / notify_all, re-acquisition of the mutex, wait_for timeouts.
Theorems: lean/SgVerif/C06/Props.lean over lean/SgVerif/Sync/Model.lean (ConditionVariableImpl + MutexImpl).
Tie: trace acceptance of real runs (props/_shared/sync/sync_interp.cpp) with exact timing (dyadic lane), Mutex::get_owner
right after every wait, in normal mode and for every interleaving explored by simgrid-mc (3-simcall split path)."""
import os
import sys

sys.path.insert(0, os.path.join(os.path.dirname(os.path.abspath(__file__)), "..", "_shared", "sync"))
import synclib  # noqa: E402

T = synclib.TICK


def uniq_tau(rng, used):
    """timeouts with distinct low-order parts, so that two timed waits on one mutex do not expire at the same date"""
    while True:
        t = rng.choice([0, T // 4, T // 2, T, 2 * T]) + rng.range(0, 63) * (T // 1024)
        if t not in used:
            used.add(t)
            return t


def gen_normal(rng, pid):
    nc = 1 if rng.chance(3, 4) else 2
    na = rng.range(2, 5)
    p = {"id": pid, "conds": list(range(nc)), "mutexes": [(k, rng.chance(1, 4)) for k in range(nc)], "actors": []}
    used = set()
    cls = rng.below(8)
    if cls == 0:
        # signal with no waiter (lost), then waits; a zero timeout; a late signal
        p["actors"] = [[("sig", 0), ("sleep", 2 * T), ("sig", 0), ("sleep", T), ("bcast", 0)],
                       [("sleep", T // 2), ("lock", 0), ("wait", 0, 0), ("unlock", 0)],
                       [("sleep", T), ("lock", 0), ("waitfor", 0, 0, rng.choice([0, T // 2, 3 * T])), ("unlock", 0)]]
        return p
    if cls == 1:
        # broadcast with several waiters whose mutex is held by a third actor
        nw = rng.range(2, 4)
        p["actors"] = []
        for i in range(nw):
            op = ("wait", 0, 0) if rng.chance(1, 2) else ("waitfor", 0, 0, uniq_tau(rng, used) + 4 * T)
            p["actors"].append([("sleep", (i + 1) * T // 8), ("lock", 0), op, ("owner", 0), ("unlock", 0)])
        p["actors"].append([("sleep", T), ("lock", 0), ("sleep", T), ("unlock", 0)])          # the third actor
        p["actors"].append([("sleep", 3 * T // 2), rng.choice([("bcast", 0), ("sig", 0)]), ("sleep", T), ("bcast", 0)])
        return p
    nwait = 0
    for a in range(na):
        ops = []
        role = rng.below(3)
        for _ in range(rng.range(1, 4)):
            c = rng.below(nc)
            if role == 0 or (role == 2 and rng.chance(1, 2)):
                if rng.chance(1, 3):
                    ops.append(("sleep", rng.range(0, 8) * T // 4 + T // 16))
                w = ("wait", c, c) if rng.chance(1, 2) else ("waitfor", c, c, uniq_tau(rng, used))
                ops += [("lock", c), w, ("unlock", c)]
                nwait += 1
            else:
                ops.append(("sleep", rng.range(1, 12) * T // 4))
                if rng.chance(1, 2):
                    ops += [("lock", c), rng.choice([("sig", c), ("bcast", c)]), ("unlock", c)]
                else:
                    ops.append(rng.choice([("sig", c), ("bcast", c)]))
        p["actors"].append(ops)
    if rng.chance(1, 30):
        p["actors"].append([("wait", 0, 0)])        # malformed: wait without owning the mutex (assertion)
    return p


def gen_mc(rng, pid):
    k = rng.below(3)
    p = {"id": pid, "conds": [0], "mutexes": [(0, False)], "actors": []}
    if k == 0:
        p["actors"] = [[("lock", 0), ("wait", 0, 0), ("unlock", 0)], [("sig", 0), ("sig", 0)]]
    elif k == 1:
        p["actors"] = [[("lock", 0), ("wait", 0, 0), ("unlock", 0)], [("lock", 0), ("bcast", 0), ("unlock", 0), ("bcast", 0)]]
    else:
        p["actors"] = [[("lock", 0), ("wait", 0, 0), ("unlock", 0)], [("bcast", 0)], [("sig", 0)]]
    return p


def nontrivial(it):
    ls = it["lines"]
    return any(l.startswith("r ") and (" wait " in l or " waitfor " in l) for l in ls)


def run(ctx):
    ctx.cov["rule"] = ("programs of 2-6 actors with one mutex per condition variable (1-2 condvars): waiters (lock; wait or "
                       "wait_for with dyadic timeouts incl. 0; unlock) and notifiers (notify_one / notify_all, with or without "
                       "the mutex), sleeps vary the order; classes: lost signal then wait, broadcast while a third actor holds "
                       "the mutex, random, wait without owning the mutex; MC: waiter x notifiers, all interleavings (may end in "
                       "the deadlock of a lost signal). non-trivial = accepted trace in which a wait returned (MC: complete)")
    synclib.standard_run(ctx, gen_normal, gen_mc, nontrivial, quick=(100, 3), thorough=(1500, 12))
