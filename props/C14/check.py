"""C14 — real runs conform to the reference interleaving semantics.

Theorems: lean/SgVerif/C14/Props.lean (the one-simcall machine of normal runs is simulated by the split-transition
reference LTS `McRef`; a stuck one-simcall world is a deadlock state of the LTS).
Tie: generated synchronisation programs (mini-language of props/_shared/mcref) are run NORMALLY (no simgrid-mc) by
props/C14/harness.cpp under every available context factory; the final observation vector / the deadlock report
(Engine::on_deadlock + who is blocked on what, kernel view) are judged by the compiled Lean driver against the
exhaustive exploration of the reference LTS (`exploreStates`), the observed history is replayed on the one-simcall
machine of the theorems (`orun`), and the call/ret log goes through the Sync trace-acceptance driver (C04–C07)."""
import json
import os
import sys

HERE = os.path.dirname(os.path.abspath(__file__))
sys.path.insert(0, os.path.join(HERE, "..", "_shared", "mcref"))
sys.path.insert(0, os.path.join(HERE, "..", "_shared", "sync"))
import mclib  # noqa: E402
import synclib  # noqa: E402
from vlib import core  # noqa: E402

FACTORIES = ["raw", "boost", "thread", "ucontext"]
COVERED = set("LTUARBWNY")
CALL_TOK = {"lock": "L%s", "try": "T%s", "unlock": "U%s", "acq": "A%s", "rel": "R%s", "bar": "B%s", "wait": "W%s.%s",
            "sig": "N%s", "bcast": "Y%s", "put": "S%s", "get": "G%s", "puta": "s%s", "geta": "g%s", "cwait": "w%s",
            "ctest": "t%s", "create": "C%s", "join": "J%s", "joinc": "K%s"}
NARGS = {"wait": 2}

# ----------------------------------------------------------------------------------------------- generator


def gen_big(rng):
    """Programs of the full quantifier domain (<= 5 actors x <= 12 operations) built from synchronisation patterns over
    several objects.  Patterns are individually well-formed; their random composition produces lock-order inversions,
    missing releases, lost signals, incomplete barrier groups and unmatched communications (deadlocks)."""
    nact = rng.choice([2, 3, 3, 4, 4, 5])
    nm, ns, nb, nc, nx = rng.choice([1, 2, 2, 3]), rng.choice([1, 2]), rng.choice([1, 2]), rng.choice([1, 1, 2]), rng.choice([1, 2])
    hdr = {"m": nm, "s": [rng.choice([0, 1, 1, 2, 3]) for _ in range(ns)],
           "b": [rng.choice([2, 2, nact, max(1, nact - 1), 1, 3]) for _ in range(nb)], "c": nc, "x": nx}
    budget = rng.choice([4, 6, 8, 10, 12, 12])
    flavour = rng.below(6)       # 0 all kinds, 1 mutex+cv, 2 sem+barrier, 3 mutex+sem+barrier, 4 mailbox+sem, 5 everything short
    statics = []
    v = 0
    for a in range(nact):
        ops = []
        while len(ops) < budget:
            k = rng.below(14)
            m, s, b, c, x = rng.below(nm), rng.below(ns), rng.below(nb), rng.below(nc), rng.below(nx)
            if flavour == 1 and k not in (0, 1, 2, 3, 7, 8, 9):
                continue
            if flavour == 2 and k not in (4, 5, 6, 10):
                continue
            if flavour == 3 and k not in (0, 1, 2, 3, 4, 5, 6, 10):
                continue
            if flavour == 4 and k not in (4, 5, 11, 12, 13):
                continue
            if k == 0:
                new = ["L%d" % m, "U%d" % m]
            elif k == 1:
                m2 = rng.below(nm)
                new = ["L%d" % m, "L%d" % m2, "U%d" % m2, "U%d" % m] if m2 != m else ["L%d" % m, "U%d" % m]
            elif k == 2:
                new = ["T%d" % m, "U%d" % m]
            elif k == 3:
                new = rng.choice([["T%d" % m], ["L%d" % m], ["U%d" % m], ["T%d" % m, "L%d" % m, "U%d" % m]])
            elif k == 4:
                new = ["A%d" % s, "R%d" % s]
            elif k == 5:
                new = rng.choice([["A%d" % s], ["R%d" % s], ["R%d" % s, "A%d" % s]])
            elif k == 6:
                new = ["B%d" % b]
            elif k == 7:
                new = ["L%d" % m, "W%d.%d" % (c, m), "U%d" % m]
            elif k == 8:
                new = rng.choice([["L%d" % m, "N%d" % c, "U%d" % m], ["N%d" % c], ["L%d" % m, "Y%d" % c, "U%d" % m], ["Y%d" % c]])
            elif k == 9:
                new = ["L%d" % m, "N%d" % c, "W%d.%d" % (c, m), "U%d" % m]
            elif k == 10:
                new = ["A%d" % s, "B%d" % b, "R%d" % s]
            elif k == 11:
                v += 1
                new = ["S%d.%d" % (x, v)]
            elif k == 12:
                new = ["G%d" % x]
            else:
                v += 1
                sl = rng.below(2)
                new = rng.choice([["s%d.%d.%d" % (x, v, sl), "w%d" % sl], ["g%d.%d" % (x, sl), "w%d" % sl]])
            ops += new
        ops = ops[:budget]
        # an asynchronous comm must be waited for before its actor terminates: the kernel cancels the comms of a dying
        # actor (the peer gets NetworkFailureException), which the reference LTS does not model (outside the domain)
        keep = []
        for n, o in enumerate(ops):
            if o[0] in "sg" and ("w" + o.split(".")[-1]) not in ops[n + 1:]:
                continue
            keep.append(o)
        statics.append(keep)
    if rng.chance(1, 5) and nact < 5:
        statics.append(["J%d" % (i + 1) for i in range(len(statics))])
    return mclib._fmt(hdr, statics, [])


def gen_case(rng, i):
    """(program, class name).  Two thirds: the McRef generator (9 classes, <= 4 actors x 8 ops); one third: gen_big."""
    if i % 3 == 2:
        return gen_big(rng), "big"
    while True:
        prog, klass = mclib.gen_program(rng, big=True)
        if "t" not in mclib.features(prog)["ops"]:       # Comm::test polls a *timed* activity: outside C14 (see NOTES)
            return prog, "k%d" % klass


# ----------------------------------------------------------------------------------------------- running


def parse_header(prog):
    h = {"m": 0, "s": [], "b": [], "c": 0, "x": 0}
    for t in prog.split(" ; ")[0].split()[1:]:
        k, _, val = t.partition("=")
        if k in ("m", "c", "x"):
            h[k] = int(val)
        elif k in ("s", "b"):
            h[k] = [int(x) for x in val.split(",") if x not in ("", "-")]
    return h


def run_harness(ctx, h, cases):
    """cases: list of (id, factory, prog) -> {(id, factory): {events, dead, out, status}}"""
    from concurrent.futures import ThreadPoolExecutor
    nw = 4 if len(cases) >= 16 else 1
    chunks = [cases[i::nw] for i in range(nw)]

    def one(chunk):
        return ctx.run_lines([h, "--log=root.thres:critical", "--cfg=debug/stacktrace:none"],
                             ["%s %s %s" % c for c in chunk], timeout=3600)
    with ThreadPoolExecutor(nw) as ex:
        outs = list(ex.map(one, chunks))
    res = {}
    for rc, out, err in outs:
        if rc != 0:
            ctx.broken.append({"kind": "harness-run", "rc": rc, "stderr": err[-1500:]})
        cur = None
        for l in out:
            t = l.split(" ")
            if t[0] == "P":
                cur = {"events": [], "dead": None, "out": None, "status": None}
                res[(t[1], t[2])] = cur
            elif cur is None:
                continue
            elif t[0] == "E":
                cur["events"].append(t[2:])
            elif t[0] == "D":
                cur["dead"] = dict(x.split("=", 1) for x in t[1:])
            elif t[0] == "O":
                cur["out"] = t[1] if len(t) > 1 else ""
            elif t[0] == "X":
                cur["status"] = t[1]
    return res


def calls_of(run):
    cs = []
    for e in run["events"]:
        if e[2] == "call":
            op, args = e[3], e[4:]
            cs.append("%s:%s" % (e[1], CALL_TOK[op] % tuple(args[:NARGS.get(op, 1)])))
    return cs


APP_KER = {"L": "M", "A": "S", "B": "B", "S": "Xs", "G": "Xr", "J": "J", "K": "J"}


def views_consistent(dead):
    """the S4U call each blocked actor is in (application view) against the kernel's waiting_synchros_ (kernel view)"""
    for a, k in zip(dead["app"].split("|"), dead["ker"].split("|")):
        if a in (".", "_"):
            ok = k == a
        elif a[0] == "W":
            ok = k == "V" + a[1:] or k == "M" + a[1:].split(".")[1]
        elif a[0] == "w":
            ok = k.startswith("X")
        elif a[0] in APP_KER:
            ok = k == APP_KER[a[0]] + (a[1:] if a[0] not in "JK" else "")
        else:
            ok = False
        if not ok:
            return False
    return True


def sync_lines(prog, run):
    """call/ret log -> lines of the Sync trace-acceptance protocol (prefix `sy`)"""
    h = parse_header(prog)
    nact = len([s for s in prog.split(" ; ")[1:] if s.split()[:1] == ["A"]])
    p = {"actors": [[]] * nact, "mutexes": [(k, False) for k in range(h["m"])], "sems": list(enumerate(h["s"])),
         "conds": list(range(h["c"])), "bars": list(enumerate(h["b"]))}
    c = synclib.Canon()
    for e in run["events"]:
        c.feed(e)
    if c.err:
        return None
    how = "deadlock" if run["dead"] is not None else "finish"
    return ["sy " + l for l in synclib.header(p, "n") + c.lines + ["end %s" % how]]


def probe_factories(ctx, h):
    res = run_harness(ctx, h, [("probe", f, "H m=1 ; A L0 U0 ; A T0") for f in FACTORIES])
    ctx.broken[:] = [b for b in ctx.broken if b.get("kind") != "harness-run"]
    ok = [f for f in FACTORIES if res.get(("probe", f), {}).get("status") == "ok" and res[("probe", f)]["out"] is not None]
    return ok


def load_corpus(path):
    out = []
    for l in open(path):
        l = l.strip()
        if l and not l.startswith("#"):
            out.append(l)
    return out


def run(ctx):
    ctx.ensure_simgrid(["simgrid"])
    ctx.lean_prove()
    drv = ctx.lean_exe()
    h = ctx.build_harness("harness.cpp")
    if not (drv and h):
        return
    ctx.assumptions += [
        "single worker thread (contexts/nthreads=1): the order of the `call` lines of the harness log is the order in "
        "which maestro handles the simcalls (EngineImpl::run iterates actors_that_ran_ in run order)",
        "the blocked configuration is read in the Engine::on_deadlock callback from ActorImpl::waiting_synchros_[0] "
        "(dynamic type + object) and cross-checked with the S4U call each unfinished actor is in",
        "programs whose reference LTS has more than `cap` states are skipped (counted in cov['skipped_state_bound'])",
        "Comm::test is excluded from the generated programs: it polls a timed activity, and the reference LTS "
        "(model-checker semantics) completes a comm as soon as it is matched",
    ]
    facts = probe_factories(ctx, h)
    ctx.cov["factories"] = facts
    if len(facts) < 2:
        ctx.broken.append({"kind": "factories", "available": facts})
        return
    cap = 20000 if ctx.tier == "quick" else 60000
    n = 120 if ctx.tier == "quick" else 900
    if ctx.broken:
        n *= 4
    if ctx.replay:
        case = json.load(open(ctx.replay))["case"]
        progs = [(case["program"], "replay")]
        cap = case.get("cap", cap)
    else:
        rng = core.SplitMix(ctx.seed)
        progs = [(p, "corpus") for p in load_corpus(os.path.join(ctx.pdir, "corpus.txt"))]
        progs += [gen_case(rng.fork(i), i) for i in range(n)]
    # ---- reference exploration (also tells which programs exceed the state bound)
    rc, refs, err = ctx.run_lines([drv], ["ref %d %s" % (cap, p) for p, _ in progs], timeout=7200)
    if rc != 0 or len(refs) != len(progs) + 1:
        ctx.broken.append({"kind": "driver-run", "rc": rc, "stderr": err[-1500:], "got": len(refs)})
        return
    refd = []
    for l in refs[:-1]:
        d = {"o": [], "d": []}
        for t in l.split()[1:]:
            k, _, val = t.partition("=")
            if k in ("o", "d"):
                d[k].append(val)
            else:
                d[k] = int(val)
        refd.append(d)
    keep = [i for i, d in enumerate(refd) if not d.get("capped")]
    ctx.cov["programs"] = len(progs)
    ctx.cov["skipped_state_bound"] = len(progs) - len(keep)
    ctx.cov["state_bound"] = cap
    # ---- real runs
    cases = [("p%d" % i, f, progs[i][0]) for i in keep for f in facts]
    res = run_harness(ctx, h, cases)
    feed, owner = [], []
    klasses, ends, opsd = {}, {}, {}
    crashes = []
    for i in keep:
        prog, klass = progs[i]
        runs = {f: res.get(("p%d" % i, f)) for f in facts}
        if any(r is None or r["status"] is None for r in runs.values()):
            ctx.broken.append({"kind": "harness-missing", "prog": prog})
            continue
        ans = []
        bad = False
        for f in facts:
            r = runs[f]
            case = {"program": prog, "cap": cap, "factory": f, "log": [" ".join(e) for e in r["events"]][-60:],
                    "dead": r["dead"], "out": r["out"], "status": r["status"]}
            if r["dead"] is not None:
                if not views_consistent(r["dead"]):
                    ctx.violation("deadlock report: kernel view %s and application view %s of the blocked actors differ"
                                  % (r["dead"]["ker"], r["dead"]["app"]), case)
                    bad = True
                ans += ["run", "f=" + f, "end=deadlock", "out=" + r["dead"]["obs"], "ker=" + r["dead"]["ker"],
                        "calls=" + (",".join(calls_of(r)) or "-")]
                if r["status"] != "ok":
                    crashes.append((prog, f, r, case))
            elif r["status"] == "ok" and r["out"] is not None:
                ans += ["run", "f=" + f, "end=finish", "out=" + r["out"], "calls=" + (",".join(calls_of(r)) or "-")]
            else:
                ctx.violation("the run neither finished nor reported a deadlock: child status %s" % r["status"], case,
                              key=None)
                bad = True
        if bad:
            continue
        feed.append("chk %d %s => %s" % (cap, prog, " ".join(ans)))
        owner.append((i, "chk"))
        ops = mclib.features(prog)["ops"]
        if ops <= COVERED and " ; C" not in prog:
            sl = sync_lines(prog, runs[facts[0]])
            if sl:
                for l in sl:
                    feed.append(l)
                    owner.append((i, "sy"))
        klasses[klass] = klasses.get(klass, 0) + 1
        e = "deadlock" if runs[facts[0]]["dead"] is not None else "finish"
        ends[e] = ends.get(e, 0) + 1
        for o in ops:
            opsd[o] = opsd.get(o, 0) + 1
    for prog, f, r, case in crashes:
        key = "barrier-waiter-killed-segv" if (r["status"] == "sig11" and "B" in r["dead"]["ker"]) else None
        ctx.violation("the engine reported the deadlock (blocked: %s) and then the process died with %s while killing "
                      "the blocked actors" % (r["dead"]["ker"], r["status"]), case, key=key)
    rc, verdicts, err = ctx.run_lines([drv], feed, timeout=7200)
    if rc != 0 or not verdicts or verdicts[-1] != "END %d" % len(feed):
        ctx.broken.append({"kind": "driver-run", "rc": rc, "stderr": err[-1500:]})
        return
    first = {}
    for (i, kind), v in zip(owner, verdicts):
        if v != "ok" and (i, kind) not in first:
            first[(i, kind)] = v
    nontrivial = 0
    replayed = 0
    sync_ok = 0
    seen = set()
    for (i, kind) in dict.fromkeys(owner):
        prog, klass = progs[i]
        ctx.cov["evaluations"] += 1
        v = first.get((i, kind), "ok")
        runs = {f: res.get(("p%d" % i, f)) for f in facts}
        r0 = runs[facts[0]]
        case = {"program": prog, "cap": cap, "route": kind, "verdict": v[:1500],
                "log": [" ".join(e) for e in r0["events"]][-80:], "dead": r0["dead"], "out": r0["out"]}
        if v == "ok":
            ctx.cov["traces_validated_against_impl"] += 1
            if kind == "sy":
                sync_ok += 1
                continue
            if mclib.features(prog)["ops"] <= COVERED and " ; C" not in prog:
                replayed += 1
            d = refd[i]
            # rule: the reference LTS has >= 2 distinct terminal results (outcomes + deadlock configurations) or a
            # reachable deadlock, and the program text is new
            if (len(d["o"]) + len(d["d"]) >= 2 or d["d"]) and prog not in seen:
                nontrivial += 1
            seen.add(prog)
        elif v.startswith("MONFAIL"):
            ctx.violation(v[:600], case, key=None)
        elif v.startswith("DISAGREE"):
            if kind == "sy":
                ctx.violation("the call/ret log of the real run is not accepted by the Sync trace-acceptance model: " + v[:500],
                              case, key=None)
            else:
                # (until the repair of mutex-relock-by-owner-returns, props/C14/fix_series/01, a run that re-locked a
                # mutex it owned and went on was reported here under that key; the re-lock now blocks, in the library
                # and in the model, and the two witnesses are regression cases of corpus.txt)
                ctx.broken.append({"kind": "one-simcall-machine-disagrees", "prog": prog, "verdict": v[:800]})
        else:
            ctx.broken.append({"kind": "driver-badline", "verdict": v[:300], "prog": prog})
    ctx.cov["distinct_nontrivial"] += nontrivial
    ctx.cov["rule"] = ("program text not seen before whose reference LTS has a reachable deadlock or >= 2 distinct terminal "
                       "results, judged ok under every factory")
    ctx.cov["runs"] = len(cases)
    ctx.cov["history_replayed_on_one_simcall_machine"] = replayed
    ctx.cov["sync_trace_acceptance_ok"] = sync_ok
    ctx.cov["classes"] = klasses
    ctx.cov["ends"] = ends
    ctx.cov["op_distribution"] = opsd
    ctx.cov["ref_states_max"] = max([refd[i].get("n", 0) for i in keep] or [0])
    ctx.cov["ref_with_reachable_deadlock"] = len([i for i in keep if refd[i]["d"]])
    ctx.cov["ref_deadlock_and_outcome_both_reachable"] = len([i for i in keep if refd[i]["d"] and refd[i]["o"]])
    ctx.cov["samples"] = [progs[i][0] for i in keep[-3:]]
