/* C14 harness: NORMAL runs (no simgrid-mc) of the McRef mini-language (same syntax as props/_shared/mcref/interp.cpp,
 * whose parser and op semantics are kept verbatim) with what C14 observes added:
 *   - a call/ret log in the vocabulary of the Sync trace-acceptance driver (lean/SgVerif/Sync/DriverLib.lean),
 *   - the Engine::on_deadlock signal: observation vectors so far + who is blocked on what, seen from the application
 *     (the S4U call each unfinished actor is in) and from the kernel (type and object of waiting_synchros_[0]),
 *   - the final outcome vector,
 *   - how the process ended (a crash AFTER the deadlock report is visible as `X sig11`).
 *
 * stdin: one case per line   `<id> <factory> <program...>`      (program syntax: see interp.cpp)
 * stdout, per case:
 *   P <id> <factory>
 *   E <ospid> <clock %a> <actor> start <aid> | call <op> <args..> | ret <op> <res..> | exit
 *   D obs=<outcome> app=<tok|tok..> ker=<tok|tok..>         Engine::on_deadlock fired
 *   O <outcome>                                             Engine::run returned
 *   X ok | sig<n> | rc<n>                                   status of the forked child
 * blocked tokens: `.` terminated, `_` never created, `M<m>` mutex acquisition, `S<k>` semaphore, `B<b>` barrier,
 *   `V<c>.<m>` condvar acquisition (with its mutex), `Xs<x>`/`Xr<x>` comm on mailbox x, `J` a join (infinite sleep),
 *   `?...` anything else.  The app view names the S4U call: L<m> A<k> B<b> W<c>.<m> S<x> G<x> w<slot> J<pid> K<k>.
 */
#include "src/kernel/EngineImpl.hpp"
#include "src/kernel/activity/BarrierImpl.hpp"
#include "src/kernel/activity/CommImpl.hpp"
#include "src/kernel/activity/ConditionVariableImpl.hpp"
#include "src/kernel/activity/MailboxImpl.hpp"
#include "src/kernel/activity/MutexImpl.hpp"
#include "src/kernel/activity/SemaphoreImpl.hpp"
#include "src/kernel/activity/SleepImpl.hpp"
#include "src/kernel/actor/ActorImpl.hpp"
#include <simgrid/modelchecker.h>
#include <simgrid/s4u.hpp>

#include <cstdio>
#include <cstdlib>
#include <cstring>
#include <fcntl.h>
#include <iostream>
#include <map>
#include <sstream>
#include <string>
#include <sys/resource.h>
#include <sys/wait.h>
#include <unistd.h>
#include <vector>

namespace sg4 = simgrid::s4u;
namespace ka  = simgrid::kernel::activity;

static void emit(const std::string& s)
{
  std::string l = s + "\n";
  ssize_t r     = write(1, l.data(), l.size());
  (void)r;
}

struct Op {
  char k;
  int a = 0, b = 0, c = 0;
};
struct Body {
  bool child;
  std::vector<Op> ops;
};

static std::vector<Body> bodies;
static std::vector<int> static_idx, child_idx;
static std::vector<sg4::MutexPtr> mutexes;
static std::vector<sg4::SemaphorePtr> sems;
static std::vector<sg4::BarrierPtr> bars;
static std::vector<sg4::ConditionVariablePtr> cvs;
static std::vector<sg4::Mailbox*> mboxes;
static std::vector<std::vector<int>> obs;
static std::vector<sg4::ActorPtr> child_actor, static_actor;
static std::vector<std::string> app_state; // per position: "_" not started, "." finished, else the S4U call it is in
static std::map<long, int> pos_of_pid;
static sg4::Host* host = nullptr;

static std::string outcome()
{
  std::ostringstream o;
  for (size_t i = 0; i < obs.size(); i++) {
    if (i)
      o << '|';
    for (size_t j = 0; j < obs[i].size(); j++) {
      if (j)
        o << ',';
      o << obs[i][j];
    }
  }
  return o.str();
}

static std::string hexd(double d)
{
  char b[64];
  snprintf(b, sizeof b, "%a", d);
  return b;
}

static void log_ev(int a, const std::string& what)
{
  emit("E " + std::to_string(getpid()) + " " + hexd(sg4::Engine::get_clock()) + " " + std::to_string(a) + " " + what);
}

static int owner_index(sg4::Mutex* m)
{
  sg4::Actor* o = m->get_owner();
  if (o == nullptr)
    return -1;
  auto it = pos_of_pid.find(o->get_pid());
  return it == pos_of_pid.end() ? -2 : it->second;
}

struct Slot {
  sg4::CommPtr comm;
  bool recv   = false;
  int* buf    = nullptr;
  bool active = false;
};

#define S(x) std::to_string(x)

static void run_body(int pos, int bidx)
{
  const Body& body = bodies[bidx];
  std::vector<bool> held(mutexes.size(), false);
  std::vector<Slot> slots(8);
  auto& my                               = obs[pos];
  pos_of_pid[sg4::this_actor::get_pid()] = pos;
  log_ev(pos, "start " + S(sg4::this_actor::get_pid()));
  auto call = [pos](const std::string& app, const std::string& what) {
    app_state[pos] = app;
    log_ev(pos, "call " + what);
  };
  auto ret = [pos](const std::string& what) {
    app_state[pos] = "r";
    log_ev(pos, "ret " + what);
  };
  for (const Op& op : body.ops) {
    switch (op.k) {
      case 'L':
        call("L" + S(op.a), "lock " + S(op.a));
        mutexes[op.a]->lock();
        held[op.a] = true;
        ret("lock");
        break;
      case 'T': {
        call("T" + S(op.a), "try " + S(op.a));
        bool r = mutexes[op.a]->try_lock();
        if (r)
          held[op.a] = true;
        my.push_back(r ? 1 : 0);
        ret(std::string("try ") + (r ? "1" : "0"));
        break;
      }
      case 'U':
        if (held[op.a]) {
          call("U" + S(op.a), "unlock " + S(op.a));
          mutexes[op.a]->unlock();
          held[op.a] = false;
          ret("unlock");
        }
        break;
      case 'A':
        call("A" + S(op.a), "acq " + S(op.a));
        sems[op.a]->acquire();
        ret("acq");
        break;
      case 'R':
        call("R" + S(op.a), "rel " + S(op.a));
        sems[op.a]->release();
        ret("rel");
        break;
      case 'B': {
        call("B" + S(op.a), "bar " + S(op.a));
        int last = bars[op.a]->wait();
        ret(std::string("bar ") + (last ? "1" : "0"));
        break;
      }
      case 'W':
        if (held[op.b]) {
          call("W" + S(op.a) + "." + S(op.b), "wait " + S(op.a) + " " + S(op.b));
          cvs[op.a]->wait(mutexes[op.b]);
          ret("wait ok " + S(owner_index(mutexes[op.b].get())));
        }
        break;
      case 'N':
        call("N" + S(op.a), "sig " + S(op.a));
        cvs[op.a]->notify_one();
        ret("sig");
        break;
      case 'Y':
        call("Y" + S(op.a), "bcast " + S(op.a));
        cvs[op.a]->notify_all();
        ret("bcast");
        break;
      case 'S':
        call("S" + S(op.a), "put " + S(op.a) + " " + S(op.b));
        mboxes[op.a]->put(new int(op.b), 1);
        ret("put");
        break;
      case 'G': {
        call("G" + S(op.a), "get " + S(op.a));
        int* p = mboxes[op.a]->get<int>();
        my.push_back(*p);
        ret("get " + S(*p));
        break;
      }
      case 's': {
        Slot& s = slots[op.c];
        if (s.active)
          break;
        call("s" + S(op.a), "puta " + S(op.a) + " " + S(op.b) + " " + S(op.c));
        s.comm   = mboxes[op.a]->put_async(new int(op.b), 1);
        s.recv   = false;
        s.active = true;
        ret("puta");
        break;
      }
      case 'g': {
        Slot& s = slots[op.b];
        if (s.active)
          break;
        call("g" + S(op.a), "geta " + S(op.a) + " " + S(op.b));
        s.buf    = nullptr;
        s.comm   = mboxes[op.a]->get_async<int>(&s.buf);
        s.recv   = true;
        s.active = true;
        ret("geta");
        break;
      }
      case 'w': {
        Slot& s = slots[op.a];
        if (not s.active)
          break;
        call("w" + S(op.a), "cwait " + S(op.a));
        s.comm->wait();
        if (s.recv)
          my.push_back(*s.buf);
        s.active = false;
        s.comm   = nullptr;
        ret("cwait");
        break;
      }
      case 't': {
        Slot& s = slots[op.a];
        if (not s.active)
          break;
        call("t" + S(op.a), "ctest " + S(op.a));
        bool r = s.comm->test();
        my.push_back(r ? 1 : 0);
        if (r) {
          if (s.recv)
            my.push_back(*s.buf);
          s.active = false;
          s.comm   = nullptr;
        }
        ret(std::string("ctest ") + (r ? "1" : "0"));
        break;
      }
      case 'C': {
        int k    = op.a;
        int cpos = (int)static_idx.size() + k;
        int cb   = child_idx[k];
        if (child_actor[k]) // body started twice: outside the mini-language
          break;
        call("C" + S(k), "create " + S(k));
        child_actor[k] = host->add_actor("c" + std::to_string(k), [cpos, cb]() { run_body(cpos, cb); });
        pos_of_pid[child_actor[k]->get_pid()] = cpos;
        ret("create " + S(child_actor[k]->get_pid()));
        break;
      }
      case 'J': {
        if (op.a >= 1 && op.a <= (int)static_actor.size()) {
          call("J" + S(op.a), "join " + S(op.a));
          static_actor[op.a - 1]->join();
          ret("join");
        }
        break;
      }
      case 'K':
        if (child_actor[op.a]) {
          call("K" + S(op.a), "joinc " + S(op.a));
          child_actor[op.a]->join();
          ret("joinc");
        }
        break;
      case 'X': {
        int v = MC_random(op.a, op.b); // not a simcall outside the checker
        my.push_back(v);
        break;
      }
      default:
        fprintf(stderr, "bad op %c\n", op.k);
        abort();
    }
  }
  app_state[pos] = ".";
  log_ev(pos, "exit");
}

static std::vector<int> nums(const std::string& s)
{
  std::vector<int> r;
  std::string cur;
  for (char ch : s + ".") {
    if (ch == '.' || ch == ',') {
      if (not cur.empty() && cur != "-")
        r.push_back(atoi(cur.c_str()));
      cur.clear();
    } else
      cur += ch;
  }
  return r;
}

/* Mailbox::get_impl() is protected: reach it through a pointer to member named in a derived class */
struct MboxAccess : sg4::Mailbox {
  static ka::MailboxImpl* impl(const sg4::Mailbox* m) { return (m->*(&MboxAccess::get_impl))(); }
};

template <class V, class P> static int index_of(const V& v, P* p)
{
  for (size_t i = 0; i < v.size(); i++)
    if ((void*)v[i].get() == (void*)p)
      return (int)i;
  return -1;
}

/* what the kernel says an actor is blocked on */
static std::string kernel_token(simgrid::kernel::actor::ActorImpl* actor)
{
  if (actor->waiting_synchros_.empty())
    return "?nosynchro";
  if (actor->waiting_synchros_.size() > 1)
    return "?many";
  ka::ActivityImpl* sy = actor->waiting_synchros_[0].get();
  if (auto* m = dynamic_cast<ka::MutexAcquisitionImpl*>(sy))
    return "M" + S(index_of(mutexes, &m->get_mutex()->get_iface()));
  if (auto* s = dynamic_cast<ka::SemAcquisitionImpl*>(sy))
    return "S" + S(index_of(sems, &s->get_semaphore()->sem()));
  if (auto* b = dynamic_cast<ka::BarrierAcquisitionImpl*>(sy))
    return "B" + S(index_of(bars, &b->get_barrier()->get_iface()));
  if (auto* c = dynamic_cast<ka::ConditionVariableAcquisitionImpl*>(sy))
    return "V" + S(index_of(cvs, c->get_cond()->get_iface())) + "." + S(index_of(mutexes, &c->get_mutex()->get_iface()));
  if (auto* c = dynamic_cast<ka::CommImpl*>(sy)) {
    int x = -1;
    for (size_t i = 0; i < mboxes.size(); i++)
      if (MboxAccess::impl(mboxes[i])->get_id() == c->get_mailbox_id())
        x = (int)i;
    bool is_src = c->src_actor_.get() == actor;
    return std::string("X") + (is_src ? "s" : "r") + S(x);
  }
  if (dynamic_cast<ka::SleepImpl*>(sy))
    return "J";
  return "?other";
}

static void on_deadlock()
{
  std::vector<std::string> ker(app_state.size());
  for (size_t i = 0; i < app_state.size(); i++)
    ker[i] = (app_state[i] == "." || app_state[i] == "_") ? app_state[i] : "?gone";
  for (auto const& [pid, actor] : simgrid::kernel::EngineImpl::get_instance()->get_actor_list()) {
    auto it = pos_of_pid.find(pid);
    if (it == pos_of_pid.end())
      continue;
    ker[it->second] = kernel_token(actor);
  }
  std::string a, k;
  for (size_t i = 0; i < app_state.size(); i++) {
    a += (i ? "|" : "") + app_state[i];
    k += (i ? "|" : "") + ker[i];
  }
  emit("D obs=" + outcome() + " app=" + a + " ker=" + k);
  // return to the engine: it now kills the blocked actors (a crash there shows up as the child's exit status)
}

static int run_program(const std::string& text, int argc, char** argv)
{
  sg4::Engine e(&argc, argv);
  auto* zone = e.get_netzone_root();
  host       = zone->add_host("h0", 1e9);
  zone->seal();

  std::istringstream in(text);
  std::string tok;
  char mode = 0;
  while (in >> tok) {
    if (tok == ";")
      continue;
    if (tok == "H" || tok == "A" || tok == "C") {
      mode = tok[0];
      if (mode != 'H') {
        bodies.push_back(Body{mode == 'C', {}});
        (mode == 'A' ? static_idx : child_idx).push_back((int)bodies.size() - 1);
      }
      continue;
    }
    if (mode == 'H') {
      auto eq         = tok.find('=');
      std::string key = tok.substr(0, eq), val = tok.substr(eq + 1);
      if (key == "m")
        for (int i = 0; i < atoi(val.c_str()); i++)
          mutexes.push_back(sg4::Mutex::create());
      else if (key == "s")
        for (int c : nums(val))
          sems.push_back(sg4::Semaphore::create(c));
      else if (key == "b")
        for (int c : nums(val))
          bars.push_back(sg4::Barrier::create(c));
      else if (key == "c")
        for (int i = 0; i < atoi(val.c_str()); i++)
          cvs.push_back(sg4::ConditionVariable::create());
      else if (key == "x")
        for (int i = 0; i < atoi(val.c_str()); i++)
          mboxes.push_back(sg4::Mailbox::by_name("mb" + std::to_string(i)));
    } else {
      Op op;
      op.k   = tok[0];
      auto v = nums(tok.substr(1));
      if (v.size() > 0)
        op.a = v[0];
      if (v.size() > 1)
        op.b = v[1];
      if (v.size() > 2)
        op.c = v[2];
      bodies.back().ops.push_back(op);
    }
  }
  obs.resize(bodies.size());
  app_state.assign(bodies.size(), "_");
  child_actor.resize(child_idx.size());
  sg4::Engine::on_deadlock_cb(on_deadlock);
  for (size_t i = 0; i < static_idx.size(); i++) {
    int pos = (int)i, bi = static_idx[i];
    static_actor.push_back(host->add_actor("a" + std::to_string(i + 1), [pos, bi]() { run_body(pos, bi); }));
    pos_of_pid[static_actor.back()->get_pid()] = pos;
  }
  e.run();
  emit("O " + outcome());
  return 0;
}

int main(int argc, char** argv)
{
  std::string line;
  while (std::getline(std::cin, line)) {
    std::istringstream ls(line);
    std::string id, factory;
    if (not(ls >> id >> factory))
      continue;
    std::string text;
    std::getline(ls, text);
    emit("P " + id + " " + factory);
    fflush(nullptr);
    pid_t c = fork();
    if (c == 0) {
      int devnull = open("/dev/null", O_WRONLY);
      dup2(devnull, 2); // the textual deadlock report is not part of the observation (the signal is)
      struct rlimit rl = {0, 0};
      setrlimit(RLIMIT_CORE, &rl);
      alarm(120);
      std::string f = "--cfg=contexts/factory:" + factory;
      std::vector<char*> av;
      for (int i = 0; i < argc; i++)
        av.push_back(argv[i]);
      av.push_back(const_cast<char*>(f.c_str()));
      int ac = (int)av.size();
      av.push_back(nullptr);
      run_program(text, ac, av.data());
      fflush(nullptr);
      _exit(0);
    }
    int st = 0;
    waitpid(c, &st, 0);
    if (WIFSIGNALED(st))
      emit("X sig" + std::to_string(WTERMSIG(st)));
    else if (WEXITSTATUS(st) != 0)
      emit("X rc" + std::to_string(WEXITSTATUS(st)));
    else
      emit("X ok");
  }
  return 0;
}
