/* C30 harness: builds derived datatypes with the REAL SMPI constructors and observes layout and transfers (smpirun, 2 ranks).
 * argv[1] = case file (both ranks read it); rank 0 prints `<query> => <answer>`.
 *   lay <tree>                  => <size> <lb> <extent> <true_lb> <true_extent> | err
 *   xfer <mode> <count> <tree>  => <rc> <answer>     mode: pack unpack sendrecv send bcast
 *      pack:   answer = hex of the packed bytes (`-` if none); source = typed buffer filled with patTyped
 *      unpack: answer = segments of the typed destination; source = contiguous stream filled with patStream
 *      other:  answer = segments of the typed destination (rank 1's for send / bcast); source = typed patTyped
 *   segments: maximal runs `offset:hex` of destination bytes that were written (offset relative to the buffer pointer);
 *   the destination is pre-filled with 253..255, the sources only contain values < 251.
 * tree syntax: see lean/SgVerif/C30/Driver.lean */
#include <mpi.h>
#include <cstdio>
#include <cstdlib>
#include <cstring>
#include <string>
#include <vector>

static const int MARGIN = 4096;
static const int BUF    = 1 << 16;

struct Parser {
  std::vector<std::string> t;
  size_t i = 0;
  std::vector<MPI_Datatype> made;
  bool bad = false; // malformed query
  bool err = false; // a constructor returned an error
  long num()
  {
    if (i >= t.size()) { bad = true; return 0; }
    return atol(t[i++].c_str());
  }
  MPI_Datatype keep(int rc, MPI_Datatype d)
  {
    if (rc != MPI_SUCCESS || d == MPI_DATATYPE_NULL) { err = true; return MPI_DATATYPE_NULL; }
    made.push_back(d);
    return d;
  }
  MPI_Datatype tree()
  {
    if (i >= t.size()) { bad = true; return MPI_DATATYPE_NULL; }
    std::string k = t[i++];
    MPI_Datatype n = MPI_DATATYPE_NULL;
    if (k == "b1") return MPI_CHAR;
    if (k == "b2") return MPI_SHORT;
    if (k == "b4") return MPI_INT;
    if (k == "b8") return MPI_DOUBLE;
    if (k == "c") {
      int c = (int)num(); MPI_Datatype o = tree();
      if (err || bad) return MPI_DATATYPE_NULL;
      { int rc = MPI_Type_contiguous(c, o, &n); return keep(rc, n); }
    }
    if (k == "v" || k == "hv") {
      int c = (int)num(); int bl = (int)num(); long st = num(); MPI_Datatype o = tree();
      if (err || bad) return MPI_DATATYPE_NULL;
      int rc = k == "v" ? MPI_Type_vector(c, bl, (int)st, o, &n) : MPI_Type_create_hvector(c, bl, (MPI_Aint)st, o, &n);
      return keep(rc, n);
    }
    if (k == "i" || k == "hi") {
      int c = (int)num();
      std::vector<int> bl(c + 1), di(c + 1); std::vector<MPI_Aint> da(c + 1);
      for (int j = 0; j < c; j++) { bl[j] = (int)num(); long d = num(); di[j] = (int)d; da[j] = d; }
      MPI_Datatype o = tree();
      if (err || bad) return MPI_DATATYPE_NULL;
      int rc = k == "i" ? MPI_Type_indexed(c, bl.data(), di.data(), o, &n) : MPI_Type_create_hindexed(c, bl.data(), da.data(), o, &n);
      return keep(rc, n);
    }
    if (k == "ib" || k == "hib") {
      int c = (int)num(); int bl = (int)num();
      std::vector<int> di(c + 1); std::vector<MPI_Aint> da(c + 1);
      for (int j = 0; j < c; j++) { long d = num(); di[j] = (int)d; da[j] = d; }
      MPI_Datatype o = tree();
      if (err || bad) return MPI_DATATYPE_NULL;
      int rc = k == "ib" ? MPI_Type_create_indexed_block(c, bl, di.data(), o, &n)
                         : MPI_Type_create_hindexed_block(c, bl, da.data(), o, &n);
      return keep(rc, n);
    }
    if (k == "s") {
      int c = (int)num();
      std::vector<int> bl(c + 1); std::vector<MPI_Aint> da(c + 1); std::vector<MPI_Datatype> ty(c + 1);
      for (int j = 0; j < c; j++) { bl[j] = (int)num(); da[j] = num(); ty[j] = tree(); }
      if (err || bad) return MPI_DATATYPE_NULL;
      { int rc = MPI_Type_create_struct(c, bl.data(), da.data(), ty.data(), &n); return keep(rc, n); }
    }
    if (k == "r") {
      long lb = num(); long ext = num(); MPI_Datatype o = tree();
      if (err || bad) return MPI_DATATYPE_NULL;
      { int rc = MPI_Type_create_resized(o, lb, ext, &n); return keep(rc, n); }
    }
    if (k == "sa") {
      int c = (int)num();
      if (i >= t.size()) { bad = true; return MPI_DATATYPE_NULL; }
      int order = t[i++] == "C" ? MPI_ORDER_C : MPI_ORDER_FORTRAN;
      std::vector<int> sz(c + 1), sub(c + 1), st(c + 1);
      for (int j = 0; j < c; j++) { sz[j] = (int)num(); sub[j] = (int)num(); st[j] = (int)num(); }
      MPI_Datatype o = tree();
      if (err || bad) return MPI_DATATYPE_NULL;
      { int rc = MPI_Type_create_subarray(c, sz.data(), sub.data(), st.data(), order, o, &n); return keep(rc, n); }
    }
    if (k == "d") {
      MPI_Datatype o = tree();
      if (err || bad) return MPI_DATATYPE_NULL;
      { int rc = MPI_Type_dup(o, &n); return keep(rc, n); }
    }
    bad = true;
    return MPI_DATATYPE_NULL;
  }
  void cleanup()
  {
    for (size_t j = made.size(); j-- > 0;) MPI_Type_free(&made[j]);
    made.clear();
  }
};

static unsigned char pat_typed(long o) { return (unsigned char)(((o + 4096) * 37 + 11) % 251); }
static unsigned char pat_stream(long k) { return (unsigned char)((k * 41 + 5) % 251); }

static void print_segments(const unsigned char* whole)
{
  long i = 0;
  while (i < BUF) {
    if (whole[i] >= 253) { i++; continue; }
    printf(" %ld:", i - MARGIN);
    while (i < BUF && whole[i] < 253) { printf("%02x", whole[i]); i++; }
  }
}

int main(int argc, char** argv)
{
  MPI_Init(&argc, &argv);
  int rank, wsize;
  MPI_Comm_rank(MPI_COMM_WORLD, &rank);
  MPI_Comm_size(MPI_COMM_WORLD, &wsize);
  MPI_Comm_set_errhandler(MPI_COMM_WORLD, MPI_ERRORS_RETURN);
  MPI_Comm_set_errhandler(MPI_COMM_SELF, MPI_ERRORS_RETURN);
  FILE* f = fopen(argv[1], "r");
  if (!f) { fprintf(stderr, "cannot open %s\n", argv[1]); MPI_Abort(MPI_COMM_WORLD, 2); }
  static char line[1 << 16];
  unsigned char* srcw = (unsigned char*)malloc(BUF);
  unsigned char* dstw = (unsigned char*)malloc(BUF);
  unsigned char* back = (unsigned char*)malloc(BUF);
  while (fgets(line, sizeof line, f)) {
    size_t L = strlen(line);
    while (L > 0 && (line[L - 1] == '\n' || line[L - 1] == '\r')) line[--L] = 0;
    if (L == 0) continue;
    Parser p;
    { char* copy = strdup(line); for (char* q = strtok(copy, " "); q; q = strtok(NULL, " ")) p.t.push_back(q); free(copy); }
    if (rank == 0) { printf("%s =>", line); fflush(stdout); }
    for (long k = 0; k < BUF; k++) { srcw[k] = pat_typed(k - MARGIN); dstw[k] = (unsigned char)(253 + k % 3); }
    unsigned char* src = srcw + MARGIN;
    unsigned char* dst = dstw + MARGIN;
    if (p.t[0] == "lay") {
      p.i = 1;
      MPI_Datatype d = p.tree();
      if (rank == 0) {
        if (p.bad || p.i != p.t.size()) printf(" bad-query");
        else if (p.err) printf(" err");
        else {
          int size = -1; MPI_Aint lb = -1, ext = -1, tlb = -1, text = -1;
          MPI_Type_size(d, &size);
          MPI_Type_get_extent(d, &lb, &ext);
          MPI_Type_get_true_extent(d, &tlb, &text);
          printf(" %d %ld %ld %ld %ld", size, (long)lb, (long)ext, (long)tlb, (long)text);
        }
      }
      p.cleanup();
    } else if (p.t[0] == "xfer" && p.t.size() > 3) {
      std::string mode = p.t[1];
      int count = atoi(p.t[2].c_str());
      p.i = 3;
      MPI_Datatype d = p.tree();
      if (p.bad || p.i != p.t.size()) { if (rank == 0) printf(" bad-query"); }
      else if (p.err) { if (rank == 0) printf(" err"); }
      else {
        MPI_Type_commit(&d);
        int size = 0;
        MPI_Type_size(d, &size);
        if (mode == "pack") {
          if (rank == 0) {
            int n = size * count, pos = 0;
            std::vector<unsigned char> out(n + 64, 0xEE);
            int rc = MPI_Pack(src, count, d, out.data(), n, &pos, MPI_COMM_WORLD);
            printf(" %d ", rc);
            if (n == 0) printf("-");
            for (int k = 0; k < n; k++) printf("%02x", out[k]);
            for (int k = n; k < n + 64; k++) if (out[k] != 0xEE) { printf(" overflow"); break; }
          }
        } else if (mode == "unpack") {
          if (rank == 0) {
            int n = size * count, pos = 0;
            std::vector<unsigned char> in(n + 1);
            for (int k = 0; k < n; k++) in[k] = pat_stream(k);
            int rc = MPI_Unpack(in.data(), n, &pos, dst, count, d, MPI_COMM_WORLD);
            printf(" %d", rc);
            print_segments(dstw);
          }
        } else if (mode == "sendrecv") {
          if (rank == 0) {
            int rc = MPI_Sendrecv(src, count, d, 0, 7, dst, count, d, 0, 7, MPI_COMM_SELF, MPI_STATUS_IGNORE);
            printf(" %d", rc);
            print_segments(dstw);
          }
        } else if (mode == "send" && wsize >= 2) {
          int rc = 0;
          if (rank == 0) rc = MPI_Send(src, count, d, 1, 9, MPI_COMM_WORLD);
          else if (rank == 1) rc = MPI_Recv(dst, count, d, 0, 9, MPI_COMM_WORLD, MPI_STATUS_IGNORE);
          if (rank == 1) { MPI_Send(&rc, 1, MPI_INT, 0, 10, MPI_COMM_WORLD); MPI_Send(dstw, BUF, MPI_BYTE, 0, 11, MPI_COMM_WORLD); }
          if (rank == 0) {
            int rc1 = 0;
            MPI_Recv(&rc1, 1, MPI_INT, 1, 10, MPI_COMM_WORLD, MPI_STATUS_IGNORE);
            MPI_Recv(back, BUF, MPI_BYTE, 1, 11, MPI_COMM_WORLD, MPI_STATUS_IGNORE);
            printf(" %d", rc != 0 ? rc : rc1);
            print_segments(back);
          }
        } else if (mode == "bcast" && wsize >= 2) {
          int rc = MPI_Bcast(rank == 0 ? src : dst, count, d, 0, MPI_COMM_WORLD);
          if (rank == 1) { MPI_Send(&rc, 1, MPI_INT, 0, 10, MPI_COMM_WORLD); MPI_Send(dstw, BUF, MPI_BYTE, 0, 11, MPI_COMM_WORLD); }
          if (rank == 0) {
            int rc1 = 0;
            MPI_Recv(&rc1, 1, MPI_INT, 1, 10, MPI_COMM_WORLD, MPI_STATUS_IGNORE);
            MPI_Recv(back, BUF, MPI_BYTE, 1, 11, MPI_COMM_WORLD, MPI_STATUS_IGNORE);
            printf(" %d", rc != 0 ? rc : rc1);
            print_segments(back);
          }
        } else if (rank == 0) printf(" bad-query");
      }
      p.cleanup();
    } else if (rank == 0) printf(" bad-query");
    if (rank == 0) { printf("\n"); fflush(stdout); }
  }
  fclose(f);
  MPI_Finalize();
  return 0;
}
