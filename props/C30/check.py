"""C30 — derived datatypes have MPI layout and transfer exactly their bytes.
Theorems: lean/SgVerif/C30/Props.lean.  Tie: random constructor trees (<= 3 levels, non-negative displacements) built
with the real MPI_Type_* of SMPI under smpirun (2 ranks): MPI_Type_size / get_extent / get_true_extent, and Pack, Unpack,
Sendrecv, Send/Recv, Bcast on pattern-filled buffers; the Lean driver computes what the code's formulas give (model) and
what the MPI typemap gives (monitor)."""
import json
import os
import re

from vlib import core
from vlib.core import SplitMix

PLAT = """<?xml version='1.0'?>
<!DOCTYPE platform SYSTEM "https://simgrid.org/simgrid.dtd">
<platform version="4.1">
  <zone id="z" routing="Full">
    <cluster id="c" prefix="h" suffix="" radical="0-3" speed="1Gf" bw="1GBps" lat="1us"/>
  </zone>
</platform>
"""
BASICS = ["b1", "b2", "b4", "b8"]
CTORS = ["c", "v", "hv", "i", "hi", "ib", "hib", "s", "r", "sa", "d"]


def gen_tree(rng, depth, xfer, stats, top=True):
    """random constructor tree as a token list; returns (tokens, upper bound of the extent in bytes).
    xfer=True: only trees that are safe and meaningful to transfer (no zero-size inner types, bounded offsets,
    monotone non-overlapping blocks most of the time)."""
    if depth == 0:
        b = rng.choice(BASICS)
        return [b], int(b[1:])
    k = rng.choice(CTORS)
    if k == "d" and xfer and depth > 1:
        k = "v"
    sub, ext = gen_tree(rng, depth - 1, xfer, stats, False)
    if k == "d" and sub[0] == "d":
        k = "c"
    stats[k] = stats.get(k, 0) + 1
    zero_ok = top and not xfer          # zero counts / block lengths only at the top of layout trees
    lo = 0 if (zero_ok and rng.chance(1, 6)) else 1
    if k == "c":
        n = rng.range(lo, 3)
        return ["c", str(n)] + sub, max(1, n) * ext
    if k in ("v", "hv"):
        n, bl = rng.range(lo, 3), rng.range(lo, 3)
        if k == "v":
            st = rng.choice([bl, bl + 1, bl + 2, rng.range(0 if not xfer else bl, 4)])
            return ["v", str(n), str(bl), str(st)] + sub, (max(n, 1) * max(st, bl, 1) + bl) * ext
        st = rng.choice([bl * ext, bl * ext + rng.range(1, 8), (bl + 1) * ext, rng.range(0 if not xfer else bl * ext, 3 * ext)])
        return ["hv", str(n), str(bl), str(st)] + sub, max(n, 1) * max(st, bl * ext, 1) + bl * ext
    if k in ("i", "hi", "ib", "hib"):
        cnt = rng.range(lo, 3)
        unit = ext if k in ("hi", "hib") else 1
        order = rng.below(4)            # 0,1: increasing disjoint blocks; 2: shuffled; 3: free (may overlap) in layout mode
        bls = [rng.range(lo, 3) for _ in range(cnt)]
        if k in ("ib", "hib"):
            bls = [bls[0] if bls else 1] * cnt
        disps, cur = [], rng.range(0, 2)
        for b in bls:
            disps.append(cur * unit + (rng.range(0, 3) if k in ("hi", "hib") and rng.chance(1, 4) else 0))
            cur += b + rng.range(0, 2)
        if order == 2 or (order == 3 and xfer):
            rng.shuffle(disps)
        elif order == 3:
            disps = [rng.range(0, 5) * unit for _ in bls]
        bound = (cur + 3) * ext + 8
        if k in ("i", "hi"):
            toks = [k, str(cnt)]
            for b, d in zip(bls, disps):
                toks += [str(b), str(d)]
        else:
            toks = [k, str(cnt), str(bls[0] if bls else 1)] + [str(d) for d in disps]
        return toks + sub, bound
    if k == "s":
        cnt = rng.range(lo, 3)
        toks, cur = ["s", str(cnt)], rng.choice([0, 0, 4, 8])
        members = []
        for j in range(cnt):
            if j == 0:
                msub, mext = sub, ext
            else:
                msub, mext = gen_tree(rng, rng.range(0, depth - 1), xfer, stats, False)
            bl = rng.range(lo, 2)
            members.append((bl, cur, msub))
            cur += max(bl, 1) * mext + rng.choice([0, 0, 4, 8])
        if rng.chance(1, 4):
            rng.shuffle(members)
        for bl, d, ms in members:
            toks += [str(bl), str(d)] + ms
        return toks, cur + 8
    if k == "r":
        lb = rng.choice([0, 0, 0, 4, 8]) if not xfer else 0
        e = rng.choice([ext, ext + 4, ext + 8, 2 * ext, max(1, ext - rng.range(0, 4))]) if not xfer else rng.choice([ext, ext + 4, ext + 8, 2 * ext])
        return ["r", str(lb), str(e)] + sub, lb + e
    if k == "sa":
        nd = rng.choice([1, 2, 2, 2, 3])
        toks, tot = ["sa", str(nd), rng.choice(["C", "F"])], 1
        for _ in range(nd):
            sz = rng.range(1, 4)
            sb = rng.range(lo, sz)
            st = rng.range(0, sz - sb)
            toks += [str(sz), str(sb), str(st)]
            tot *= sz
        return toks + sub, tot * ext
    return ["d"] + sub, ext


def malformed(rng):
    """argument errors: the constructors must reject them (model and library must agree on `err`)"""
    k = rng.below(6)
    if k == 0:
        return "lay v 2 -1 3 b4"
    if k == 1:
        return "lay c -1 b4"
    if k == 2:
        return "lay i 2 1 0 -2 3 b4"
    if k == 3:
        return "lay sa 2 C 4 5 0 3 1 0 b4"
    if k == 4:
        return "lay sa 2 F 4 2 3 3 1 0 b8"
    return "lay s 2 1 0 b4 -1 8 b4"


def run_smpi(ctx, h, lines, tag):
    smpirun = os.path.join(core.SGBUILD, "smpi_script", "bin", "smpirun")
    out, todo, rounds = [], list(lines), 0
    while todo:
        rounds += 1
        if rounds > 60:
            ctx.broken.append({"kind": "harness-run", "error": "too many restarts"})
            return None
        cf = os.path.join(ctx.work, "cases-%s.txt" % tag)
        open(cf, "w").write("".join(l + "\n" for l in todo))
        p = core.sh([smpirun, "-np", "2", "-platform", os.path.join(ctx.work, "plat.xml"), "-hostfile",
                     os.path.join(ctx.work, "hosts"), "--log=root.thres:critical", h, cf],
                    cwd=ctx.work, env=ctx.sg_env(), timeout=1500)
        got = [l for l in p.stdout.split("\n") if " =>" in l]
        done, died = 0, False
        for l in got:
            if done >= len(todo):
                break
            if l.startswith(todo[done] + " =>"):
                rest = l[len(todo[done]) + 3:]
                if not re.match(r" (-?\d+|err|bad-query)( |$)", rest):
                    out.append(todo[done] + " => crash")      # the process died inside this case
                    done += 1
                    died = True
                    break
                out.append(todo[done] + " =>" + rest)
                done += 1
        if done == 0 and not died:
            ctx.broken.append({"kind": "harness-run", "stdout": p.stdout[-1500:], "stderr": p.stderr[-1500:]})
            return None
        todo = todo[done:]
        if not died and todo:
            ctx.broken.append({"kind": "harness-run", "error": "run stopped early", "stderr": p.stderr[-1500:]})
            return None
    return out


def run(ctx):
    ctx.cov["rule"] = ("constructor trees drawn from splitmix64(VERIF_SEED): 11 constructors over MPI_CHAR/SHORT/INT/DOUBLE, depth 1..3, "
                       "counts/blocklengths 0..3, increasing / shuffled / overlapping displacements, structs of mixed members, "
                       "resized, 1-3 dimensional subarrays in both orders, dup; `lay` = size/lb/extent/true extent, `xfer` = "
                       "Pack, Unpack, Sendrecv, Send/Recv, Bcast with counts 0..5; non-trivial = distinct query on a tree of "
                       "depth >= 1 that the library accepted")
    ctx.assumptions += [
        "alignment padding epsilon of MPI's extent definition taken as 0 (SMPI never pads)",
        "serialize and unserialize share one model of the pointer walk (`walk`); both directions are exercised against it (Pack and Unpack, Send and Recv)",
        "int / MPI_Aint overflow not modelled (values are small)",
        "receive typemaps with overlapping entries (erroneous in MPI) are only compared with the model, not with the spec",
    ]
    ctx.ensure_simgrid(["simgrid", "smpimain"])
    ctx.lean_prove()
    drv = ctx.lean_exe()
    h = ctx.build_harness("harness.cpp", smpi=True, lang="c++")
    if not (drv and h):
        return
    open(os.path.join(ctx.work, "plat.xml"), "w").write(PLAT)
    open(os.path.join(ctx.work, "hosts"), "w").write("".join("h%d\n" % i for i in range(4)))
    corpus = [l.strip() for l in open(ctx.pdir + "/corpus.txt") if l.strip() and not l.startswith("#")]
    quick = ctx.tier == "quick"
    mult = 10 if ctx.broken else 1
    rng = SplitMix(ctx.seed)
    stats = {}
    if ctx.replay:
        queries = [json.load(open(ctx.replay))["case"]["query"]]
    else:
        queries = list(corpus)
        nlay = (700 if quick else 12000) * mult
        nx = (500 if quick else 8000) * mult
        for i in range(nlay):
            if i % 25 == 24:
                queries.append(malformed(rng))
                continue
            t, _ = gen_tree(rng, rng.choice([1, 1, 2, 2, 3]), False, stats)
            queries.append("lay " + " ".join(t))
        for i in range(nx):
            t, bound = gen_tree(rng, rng.choice([1, 1, 2, 2, 3]), True, stats)
            cnt = rng.range(0, 5)
            if bound * max(cnt, 1) > 40000:
                cnt = 1
            mode = ["pack", "unpack", "sendrecv", "send", "bcast"][i % 5]
            queries.append("xfer %s %d %s" % (mode, cnt, " ".join(t)))
    out = run_smpi(ctx, h, queries, "all")
    if out is None:
        return
    crashed = [l for l in out if l.endswith("=> crash")]
    fed = [l for l in out if not l.endswith("=> crash")]
    rc, verdicts, err = ctx.run_lines([drv], fed)
    if rc != 0 or not verdicts or verdicts[-1] != "END %d" % len(fed):
        ctx.broken.append({"kind": "driver-run", "rc": rc, "stderr": err[-2000:], "last": verdicts[-3:]})
        return
    kinds, keys, seen, reported = {}, {}, set(), set()
    for l in crashed:
        q = l.split(" =>")[0]
        ctx.cov["evaluations"] += 1
        if "xfer-crash" not in reported:
            reported.add("xfer-crash")
            ctx.violation("the library crashed during " + q, {"query": q, "impl": l}, key="xfer-crash")
    for l, v in zip(fed, verdicts):
        q = l.split(" =>")[0]
        t = q.split()
        ctx.cov["evaluations"] += 1
        kk = t[0] if t[0] == "lay" else t[0] + "-" + t[1]
        kinds[kk] = kinds.get(kk, 0) + 1
        if q not in seen and not l.endswith("=> err") and not (t[0] == "lay" and len(t) == 2):
            seen.add(q)
            ctx.cov["distinct_nontrivial"] += 1
        if v == "ok":
            ctx.cov["traces_validated_against_impl"] += 1
        elif v.startswith("MONFAIL"):
            m = re.search(r"key=(\S+)", v)
            key = m.group(1) if m else None
            keys[key] = keys.get(key, 0) + 1
            if key is None or key not in reported:
                reported.add(key)
                ctx.violation(v[:600], {"query": q, "impl": l[:2000], "verdict": v[:2000]}, key=key)
        else:
            ctx.broken.append({"kind": "correspondence", "line": l[:600], "verdict": v[:600]})
    ctx.cov["samples"] = fed[len(corpus):len(corpus) + 3] + [l[:300] for l in fed if l.startswith("xfer")][:3]
    ctx.cov["distribution"] = kinds
    ctx.cov["constructors_generated"] = stats
    ctx.cov["monitor_failures_by_key"] = keys
