// C42 harness: runs the REAL simgrid::mc::odpor::Execution in-process (no engine) on executions made of real
// transitions.  stdin: one execution per line, `exec <tok> <tok> ...` (token syntax: props/_shared/mc/mktrans.hpp)
// stdout, one line per execution:
//   exec <tok>... => n=<n> d<bits>*n h<bits>*n r<list>*n p<bits>*n
//     d row i : t_i->dispatch_depends(t_j) for every j (the dependency relation AS THE C++ COMPUTES IT, given to the model as data)
//     h row i : Execution::happens_before(i, j) for every j
//     r i     : Execution::get_racing_events_of(i), in the order of the returned list, comma separated ("-" when empty)
//     p row i : Execution::happens_before_process(i, aid, size()) for aid = 0..maxaid
#include "../_shared/mc/mktrans.hpp"
#include "src/mc/explo/odpor/Execution.hpp"
#include <xbt/log.h>
#include <iostream>

int main()
{
  xbt_log_control_set("root.thres:critical");
  std::string line;
  while (std::getline(std::cin, line)) {
    std::istringstream in(line);
    std::string kind;
    in >> kind;
    std::ostringstream out;
    out << line << " =>";
    try {
      if (kind != "exec")
        throw std::runtime_error("bad query");
      std::vector<simgrid::mc::TransitionPtr> ts;
      std::string tok;
      int maxaid = 0;
      while (in >> tok) {
        ts.emplace_back(verif::make_transition(tok));
        maxaid = std::max(maxaid, (int)ts.back()->aid_.value());
      }
      simgrid::mc::odpor::Execution ex;
      for (auto& t : ts)
        ex.push_transition(t);
      size_t n = ts.size();
      out << " n=" << n;
      for (size_t i = 0; i < n; i++) {
        out << " d";
        for (size_t j = 0; j < n; j++)
          out << (ts[i]->dispatch_depends(ts[j].get()) ? '1' : '0');
      }
      for (size_t i = 0; i < n; i++) {
        out << " h";
        for (size_t j = 0; j < n; j++)
          out << (ex.happens_before(i, j) ? '1' : '0');
      }
      for (size_t i = 0; i < n; i++) {
        out << " r";
        auto l = ex.get_racing_events_of(i);
        if (l.empty())
          out << "-";
        bool first = true;
        for (auto e : l) {
          out << (first ? "" : ",") << e;
          first = false;
        }
      }
      for (size_t i = 0; i < n; i++) {
        out << " p";
        for (int a = 0; a <= maxaid; a++)
          out << (ex.happens_before_process(i, simgrid::mc::Aid{a}, n) ? '1' : '0');
      }
    } catch (std::exception& e) {
      out << " error " << typeid(e).name();
    }
    std::cout << out.str() << "\n";
  }
  return 0;
}
