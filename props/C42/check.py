"""C42 — happens-before equals transitive dependency; racing events are the race definition.
Theorems: lean/SgVerif/C42/Props.lean (for every execution, every dependency relation with same-actor => dependent).
Tie: the real odpor::Execution is run in-process on random executions of REAL transitions; the harness prints the
dependency matrix as the C++ computes it (data for the model), happens_before for all pairs, get_racing_events_of and
happens_before_process for all events; the Lean driver replays on the model and evaluates the chain definition
(transitive closure computed without clock vectors) on the implementation's answers."""
import json
from vlib.core import SplitMix

import importlib.util, os
_spec = importlib.util.spec_from_file_location("mcgen", os.path.join(os.path.dirname(os.path.abspath(__file__)), "..", "_shared", "mc", "gen.py"))
_g = importlib.util.module_from_spec(_spec); _spec.loader.exec_module(_g)
FAMILIES, ACTOR, gen_transition = _g.FAMILIES, _g.ACTOR, _g.gen_transition


def gen_exec(rng, maxlen=40):
    fam = rng.choice(sorted(FAMILIES))
    kinds = FAMILIES[fam]
    nact = rng.range(1, 6)
    cls = rng.below(10)
    if cls == 0:
        # aids at the top of the admissible range (Aid < max_threads - 1 = 31): last iteration of the candidates loop
        aids = sorted(set([30, 29] + [rng.range(0, 30) for _ in range(nact)]))[-nact:] if nact > 1 else [30]
    elif cls == 1:
        aids = sorted(set(rng.range(0, 30) for _ in range(nact)))    # sparse aids: skip_list_ resize by more than one
    else:
        aids = list(range(rng.below(2), rng.below(2) + nact))         # 0.. or 1..
        aids = aids or [0]
    nres = rng.choice([1, 1, 2, 2, 3, 6])
    n = rng.choice([0, 1, 2, 3, 5, 8, 12, 20, 30, 40, rng.range(1, maxlen), rng.range(1, maxlen)])
    n = min(n, maxlen)
    toks = []
    # a "burst" schedule (an actor runs several steps in a row) or a uniform one
    burst = rng.chance(1, 3)
    cur = rng.choice(aids)
    for _ in range(n):
        if not burst or rng.chance(1, 3):
            cur = rng.choice(aids)
        kind = rng.choice(kinds)
        if fam != "actor" and rng.chance(1, 12):
            kind = rng.choice(ACTOR)           # sprinkle independent / actor-directed steps
        toks.append(gen_transition(rng, cur, kind, aids, nres))
    return "exec " + " ".join(toks), fam


def analyse(out_line):
    """(n, number of cross-actor hb pairs, number of racing events, nb of transitive-only hb pairs) from a harness answer line"""
    q, a = out_line.split(" => ", 1)
    t = a.split()
    if not t or not t[0].startswith("n="):
        return None
    n = int(t[0][2:])
    aids = [int(x.split(",")[0]) for x in q.split()[1:]]
    d = [x[1:] for x in t[1:1 + n]]
    h = [x[1:] for x in t[1 + n:1 + 2 * n]]
    r = t[1 + 2 * n:1 + 3 * n]
    cross = sum(1 for i in range(n) for j in range(n) if h[i][j] == "1" and aids[i] != aids[j])
    trans = sum(1 for i in range(n) for j in range(n) if h[i][j] == "1" and d[i][j] == "0")
    races = sum(0 if x == "r-" else len(x.split(",")) for x in r)
    return n, cross, races, trans


def run(ctx):
    ctx.cov["rule"] = ("executions drawn from splitmix64(VERIF_SEED): 7 transition families x aid layouts (dense, sparse, "
                       "top of the Aid range) x resource-pool sizes x lengths 0..40; non-trivial = distinct execution with "
                       ">= 1 cross-actor happens-before pair that is NOT a direct dependency (needs the chain) and >= 1 racing event")
    ctx.assumptions += ["the dependency relation is taken as data from Transition::dispatch_depends (its correctness is C39)",
                        "memory-access epochs / data-race detection of push_transition are not modelled (transitions carry no memory trace)",
                        "get_reversible_races_of is not exercised (reversible_race xbt_dies on executions that ignore enabledness)"]
    ctx.ensure_simgrid(["simgrid"])
    ctx.lean_prove()
    drv = ctx.lean_exe()
    h = ctx.build_harness("harness.cpp")
    if not (drv and h):
        return
    n = 400 if ctx.tier == "quick" else 8000
    if ctx.broken:
        n *= 10
    corpus = [l.strip() for l in open(ctx.pdir + "/corpus.txt") if l.strip() and not l.startswith("#")]
    fams = {}
    if ctx.replay:
        queries = [json.load(open(ctx.replay))["case"]["query"]]
    else:
        rng = SplitMix(ctx.seed)
        queries = list(corpus)
        for i in range(n):
            q, fam = gen_exec(rng.fork(i))
            fams[fam] = fams.get(fam, 0) + 1
            queries.append(q)
    rc, out, err = ctx.run_lines([h], queries)
    if rc != 0 or len(out) != len(queries):
        ctx.broken.append({"kind": "harness-run", "rc": rc, "stderr": err[-2000:], "lines": len(out)})
        return
    rc, verdicts, err = ctx.run_lines([drv], out, timeout=1500)
    if rc != 0 or not verdicts or verdicts[-1] != "END %d" % len(out):
        ctx.broken.append({"kind": "driver-run", "rc": rc, "stderr": err[-2000:]})
        return
    seen = set()
    lens = {}
    tot = {"cross_hb_pairs": 0, "racing_events": 0, "transitive_only_pairs": 0, "aid30": 0}
    for q, l, v in zip(queries, out, verdicts):
        ctx.cov["evaluations"] += 1
        st = analyse(l)
        if st:
            lens[min(st[0] // 10 * 10, 40)] = lens.get(min(st[0] // 10 * 10, 40), 0) + 1
            tot["cross_hb_pairs"] += st[1]; tot["racing_events"] += st[2]; tot["transitive_only_pairs"] += st[3]
            if " 30," in q:
                tot["aid30"] += 1
            if q not in seen and st[3] > 0 and st[2] > 0:
                ctx.cov["distinct_nontrivial"] += 1
            seen.add(q)
        if v == "ok":
            ctx.cov["traces_validated_against_impl"] += 1
        elif v.startswith("MONFAIL"):
            key = None
            ctx.violation(v[:600], {"query": q, "impl": l, "verdict": v}, key=key)
        else:
            # model and implementation differ although the implementation satisfies the chain definition on this
            # input: the correspondence is broken (the proofs no longer speak about this code)
            ctx.broken.append({"kind": "correspondence", "query": q, "impl": l, "verdict": v[:600]})
    ctx.cov["samples"] = out[:2] + out[len(corpus):len(corpus) + 2]
    ctx.cov["families"] = fams
    ctx.cov["length_histogram"] = lens
    ctx.cov.update(tot)
