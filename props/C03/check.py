"""C03 — simulated time is monotone and events happen exactly at their date.
Theorems: lean/SgVerif/C03/Props.lean over the shared model lean/SgVerif/TimeCore/Model.lean.
Tie: generated programs (sleeps, timers, kill times, execs/comms/ios in isolation, timed waits, message queues) run
through the public S4U API by props/_shared/timecore/harness.cpp; the Lean driver checks the monitor `timeOk` on
the implementation's log and replays the model, resolving equal-date choices from the log (trace acceptance)."""
import os
import sys

sys.path.insert(0, os.path.join(os.path.dirname(os.path.abspath(__file__)), "..", "_shared", "timecore"))
import tc  # noqa: E402


def run(ctx):
    ctx.cov["rule"] = ("programs of 1-4 actors drawn from splitmix64(VERIF_SEED) (style c03: 60% sleeps incl. 0, negative, "
                       "sub-precision; kill times; timed activities and message exchanges for the rest); non-trivial = "
                       "distinct program accepted by the driver whose log exercises at least one class of classes_hit")
    ctx.assumptions += [
        "floating-point rounding is not modelled: the harness platform makes every date a multiple of 2^-32 (exact lane) "
        "and runs with --cfg=precision/timing:2^-30",
        "activities in isolation (private host/link/disk per slot): sharing is the business of C15..C21",
        "calibration (first step of the check) verifies that an isolated exec/comm/io lasts exactly the duration asked for",
    ]
    tc.run_property(ctx, "c03", 200, 3000)
