"""C02 — the outcome does not depend on the context factory or on the number of worker threads.

Theorems: lean/SgVerif/C02/Props.lean (round model lean/SgVerif/Sched/Model.lean, shared with C01).
Tie to the code (implementation vs implementation — the monitor IS the property): every program (corpus, then generated
by props/_shared/sched/gen.py) runs under contexts/factory ∈ {thread, raw, boost} × contexts/nthreads ∈ {1,2,4} ×
contexts/synchro ∈ {futex, posix, busy_wait}; compared:
  * per-actor logs, maestro's log and the (clock, actor)-sorted merge: equal under ALL configurations;
  * the global order of log lines: equal under all configurations with nthreads = 1 (with worker threads the order of
    the actors' lines inside one sub-round is a legitimate race and is not compared).
A differing pair of configurations is the replay.
"""
import json
import os
import subprocess
import sys
import zlib

from vlib.core import SplitMix

SHARED = os.path.join(os.path.dirname(os.path.abspath(__file__)), "..", "_shared", "sched")
sys.path.insert(0, os.path.abspath(SHARED))
import common  # noqa: E402
import gen  # noqa: E402

FACTORIES = ["thread", "raw", "boost"]
NTHREADS = [1, 2, 4]
SYNCHROS = ["futex", "posix", "busy_wait"]


def cfg_args(f, n, s):
    return ("--cfg=contexts/factory:%s" % f, "--cfg=contexts/nthreads:%d" % n, "--cfg=contexts/synchro:%s" % s)


def probe(ctx, interp):
    """which factories / synchros exist in this build: run a one-actor program under each"""
    pf = common.write_prog(ctx, "probe", "host 1048576\nactor 0 0 m sleep.1\n")
    ok_f, ok_s, why = [], [], {}
    for f in FACTORIES:
        o, out = common.run_retry(ctx, interp, pf, args=cfg_args(f, 1, "posix"))
        if o == "ok" and "END" in out:
            ok_f.append(f)
        else:
            why["factory:" + f] = o
    for s in SYNCHROS:
        o, out = common.run_retry(ctx, interp, pf, args=cfg_args(ok_f[0] if ok_f else "thread", 2, s))
        if o == "ok" and "END" in out:
            ok_s.append(s)
        else:
            why["synchro:" + s] = o
    return ok_f, ok_s, why


def canon(out, serial):
    acts, merge = common.per_actor(out)
    key_all = (tuple(sorted((i, tuple(v)) for i, v in acts.items())), tuple(merge),
               tuple(l for l in out.split("\n") if l.startswith("END")))
    key_serial = common.glines(out) if serial else None
    return key_all, key_serial


def run(ctx):
    ctx.cov["rule"] = ("programs drawn from splitmix64(VERIF_SEED) out of 11 motifs (props/_shared/sched/gen.py) + corpus; each runs "
                       "under every available (factory, nthreads, synchro); non-trivial = program whose log shows >= 3 actors and "
                       ">= 2 dates at which two or more actors log an event (only then can a scheduling order matter)")
    ctx.assumptions += [
        "programs share no unsynchronised memory (by construction of the interpreter: per-actor logs, read-only tables)",
        "the context-switch assembly (raw/boost), thread parking and the Parmap protocol (C49) are below the slice abstraction of "
        "the Lean model: they are exercised by the runs, not proved",
        "a race needs the right interleaving to show: the worker-thread runs are evidence, not proof, of the absence of races",
    ]
    ctx.ensure_simgrid(["simgrid"])
    ctx.lean_prove()
    interp = common.build_interp(ctx)
    if not interp:
        return
    facs, syns, why = probe(ctx, interp)
    ctx.cov["factories"] = facs
    ctx.cov["synchros"] = syns
    if why:
        ctx.cov["skipped_configurations"] = why
        ctx.notes.append("configurations skipped (absent in this build): %r" % why)
    if len(facs) < 2:
        ctx.broken.append({"kind": "no-factories", "why": why})
        return
    configs = [(f, n, s) for f in facs for n in NTHREADS for s in syns]
    rng = SplitMix(ctx.seed)
    n = 12 if ctx.tier == "quick" else 200
    if ctx.broken:
        n *= 4
    cases = []
    if ctx.replay:
        c = json.load(open(ctx.replay))["case"]
        cases.append((c["name"], c["program"], [tuple(x) for x in c["configs"]]))
    else:
        for name, text in common.load_corpus(ctx.pdir):
            cases.append(("corpus:" + name, text, configs))
        names = [m[0] for m in gen.MOTIFS]
        for i in range(n):
            r = rng.fork(5000 + i)
            p = gen.generate(r, names[i % len(names)] if i < len(names) else None)
            cases.append(("gen:%d:%d" % (ctx.seed, i), gen.text(p), configs))

    def one(case):
        name, text, cfgs = case
        pf = common.write_prog(ctx, name.replace(":", "_"), text)
        outs = []
        for (f, nt, s) in cfgs:
            o, out = common.run_retry(ctx, interp, pf, args=cfg_args(f, nt, s), timeout=180)
            outs.append(((f, nt, s), o, out))
        return case, outs

    stats = {"programs": 0, "runs": 0, "crash": 0, "hang": 0, "deadlock": 0, "motifs": {}}
    nontrivial = 0
    for (name, text, cfgs), outs in common.pmap(one, cases, workers=6):
        stats["programs"] += 1
        stats["runs"] += len(outs)
        ctx.cov["evaluations"] += len(outs)
        for mo in (text.split("\n")[0][10:].split() if text.startswith("# motifs:") else [name]):
            stats["motifs"][mo] = stats["motifs"].get(mo, 0) + 1
        ref_cfg, ref_o, ref_out = outs[0]
        if ref_o == "HANG":
            stats["hang"] += 1
        elif ref_o != "ok":
            stats["crash"] += 1
            stats.setdefault("crash_cases", []).append([name, ref_o])
        if "sig deadlock" in ref_out:
            stats["deadlock"] += 1
        sim, nact = common.simultaneity(ref_out)
        if nact >= 3 and sim >= 2:
            nontrivial += 1
        ref_all, _ = canon(ref_out, False)
        serial_ref = None
        bad = False
        for cfg, o, out in outs:
            k_all, k_serial = canon(out, cfg[1] == 1)
            what = None
            if o != ref_o:
                what = "outcome %s vs %s" % (ref_o, o)
            elif k_all != ref_all:
                d = common.first_diff(common.strip(ref_out, drop=("R", "G")), common.strip(out, drop=("R", "G")))
                what = "per-actor logs differ: %r vs %r" % (d[1], d[2]) if d else "merged logs differ"
            elif cfg[1] == 1:
                if serial_ref is None:
                    serial_ref = (cfg, k_serial)
                elif k_serial != serial_ref[1]:
                    d = common.first_diff(serial_ref[1], k_serial)
                    what = "global order differs between two serial configurations %s and %s: %r vs %r" % (serial_ref[0], cfg, d[1], d[2])
            if what:
                bad = True
                ctx.violation("observable results differ between configurations %s and %s: %s" % (ref_cfg, cfg, what),
                              {"name": name, "program": text, "configs": [list(ref_cfg), list(cfg)], "what": what},
                              key=common.classify(ref_out, out, text) if (o == "ok" and ref_o == "ok")
                              else common.classify_outcomes(ref_o, o, text))
                break
        if not bad:
            ctx.cov["traces_validated_against_impl"] += len(outs)
        if len(ctx.cov["samples"]) < 4 and ref_out:
            ctx.cov["samples"].append({"name": name, "log_head": ref_out.split("\n")[:6]})
    ctx.cov["distinct_nontrivial"] = nontrivial
    ctx.cov["distribution"] = stats
    ctx.cov["configurations_per_program"] = len(configs)
