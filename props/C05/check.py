"""C05 — semaphore semantics: token conservation, reported capacity, FIFO grants, timeouts.
Theorems: lean/SgVerif/C05/Props.lean over lean/SgVerif/Sync/Model.lean (SemaphoreImpl transliteration).
Tie: trace acceptance of real runs (props/_shared/sync/sync_interp.cpp) incl. exact timing of timeouts (dyadic lane),
in normal mode, and for every interleaving explored by simgrid-mc (no timeouts there)."""
import os
import sys

sys.path.insert(0, os.path.join(os.path.dirname(os.path.abspath(__file__)), "..", "_shared", "sync"))
import synclib  # noqa: E402

T = synclib.TICK
BIG = [False]      # thorough tier: 3-actor programs under the model checker more often
TAUS = [0, 0, T // 1024, T // 4, T // 2, T, 3 * T // 2, 2 * T]


def gen_normal(rng, pid):
    ns = rng.range(1, 3)
    caps = [rng.choice([0, 0, 1, 1, 2, 3]) for _ in range(ns)]
    na = rng.range(2, 5)
    p = {"id": pid, "sems": [(k, caps[k]) for k in range(ns)], "actors": []}
    cls = rng.below(8)
    if cls == 0:
        # a timeout that coincides exactly with a release (and just before / just after it)
        tau = rng.choice([T // 4, T, 3 * T // 2])
        d = rng.choice([0, 0, 1, -1]) * (T // 1024)
        p["sems"] = [(0, 0)]
        p["actors"] = [[("acqt", 0, tau), ("cap", 0)],
                       [("sleep", tau + d), ("rel", 0), ("cap", 0)],
                       [("sleep", T // 8), ("acqt", 0, tau - T // 8 + rng.choice([0, T // 1024])), ("cap", 0)]]
        return p
    if cls == 1:
        # FIFO: waiters queue in a chosen order, releases come one by one; some waiters time out in the middle
        p["sems"] = [(0, 0)]
        order = list(range(1, na)); rng.shuffle(order)
        p["actors"].append([("sleep", T)] + [("rel", 0), ("sleep", T // 4)] * (na - 1) + [("cap", 0)])
        for i, a in enumerate(range(1, na)):
            op = ("acq", 0) if rng.chance(2, 3) else ("acqt", 0, rng.choice([T // 2, T, 2 * T, 4 * T]))
            p["actors"].append([("sleep", (order[i]) * T // 16), op, ("cap", 0)])
        return p
    for a in range(na):
        ops = []
        for _ in range(rng.range(2, 10)):
            s = rng.below(ns)
            k = rng.below(100)
            if k < 25:
                ops.append(("acq", s))
            elif k < 50:
                ops.append(("acqt", s, rng.choice(TAUS)))
            elif k < 78:
                ops.append(("rel", s))
            elif k < 88:
                ops.append(("cap", s))
            else:
                ops.append(("sleep", rng.range(1, 8) * T // 4))
        p["actors"].append(ops)
    return p


def gen_mc(rng, pid):
    na = 3 if rng.chance(1, 3 if BIG[0] else 10) else 2
    cap = rng.below(2)
    p = {"id": pid, "sems": [(0, cap)], "actors": []}
    for a in range(na):
        k = rng.below(3)
        if na == 3:
            ops = [("acq", 0), ("rel", 0)] if a < 2 or cap else [("rel", 0)]
        elif k == 0:
            ops = [("acq", 0), ("rel", 0)]
        elif k == 1:
            ops = [("rel", 0), ("acq", 0), ("cap", 0)]
        else:
            ops = [("rel", 0), ("cap", 0), ("acq", 0), ("rel", 0)]
        p["actors"].append(ops)
    if cap == 0 and all(o[0][0] == "acq" for o in p["actors"]):
        p["actors"][0] = [("rel", 0)] + p["actors"][0]
    return p


def nontrivial(it):
    ls = it["lines"]
    return any(l.startswith("c ") and " acq" in l for l in ls) and any(l.startswith("c ") and " rel " in l for l in ls)


def run(ctx):
    BIG[0] = ctx.tier == "thorough"
    ctx.cov["rule"] = ("programs of 2-5 actors x 2-10 ops on 1-3 semaphores (capacity 0-3): acquire, acquire_timeout with dyadic "
                       "timeouts incl. 0, release, get_capacity, sleeps; classes: timeout coinciding exactly with a release (and "
                       "one tick before/after), FIFO queues with timeouts in the middle, random; MC: 2-3 actors without timeouts. "
                       "non-trivial = accepted trace with at least one acquire and one release (MC: complete trace)")
    synclib.standard_run(ctx, gen_normal, gen_mc, nontrivial, quick=(100, 3), thorough=(1500, 12))
