"""C46 — File system accounting is consistent.
Theorems: lean/SgVerif/C46/Props.lean (invariant over all histories).  Tie: generated operation sequences run through the
real plugin (harness.cpp, one simulated host + disks per case) and replayed line by line on the Lean model (drv_C46), which
also evaluates the property's predicates on the implementation's own observations (monitor)."""
import json
from vlib.core import SplitMix

SIZES = [0, 1, 2, 3, 5, 8, 10, 16, 32, 50, 64, 100]
CAPS = [50, 100, 200, 1000]
MOUNTS = [["/d0", "/d1"], ["/d0"], ["/"], ["/", "/scratch"], ["/a", "/a/b"], ["/d0", "/d1", "/d2"]]
KEYS = ("truncating-write", "stale-path-after-move", "move-onto-existing-file")


class Mirror:
    """Generation guidance only (what exists, sizes, positions): verdicts come from the Lean driver, never from here."""

    def __init__(self, disks, flags):
        self.flags = flags                    # (fixTrunc, fixMovePath, fixMoveOver)
        self.disks = []
        for mount, cap, files in disks:
            content = {}
            used = 0
            for n, s in files:
                used += s
                content.setdefault(n, s)
            self.disks.append({"mount": mount, "cap": cap, "used": used, "content": content})
        self.h = {}                           # slot -> dict(disk, path, size, pos, st)

    def find(self, full):
        best, bl, path = None, 0, None
        for i, d in enumerate(self.disks):
            m = d["mount"]
            if full.startswith(m) and len(m) > bl:
                best, bl = i, len(m)
                path = full if m == "/" else full[len(m):]
        return best, path

    def live_paths(self, di, but=None):
        return {f["path"] for s, f in self.h.items() if f["disk"] == di and f["st"] == "live" and s != but}

    def updpos(self, f, p):
        d = self.disks[f["disk"]]
        f["pos"] = p
        if p > f["size"]:
            d["used"] += p - f["size"]
            f["size"] = p
            d["content"].pop(f["path"], None)
            d["content"].setdefault(f["path"], p)

    def apply(self, op):
        k = op[0]
        if k == "o":
            di, path = self.find(op[2])
            c = self.disks[di]["content"]
            if path not in c:
                c[path] = 0
            self.h[op[1]] = {"disk": di, "path": path, "size": c[path], "pos": 0, "st": "live"}
            return
        f = self.h[op[1]]
        d = self.disks[f["disk"]]
        if k == "c":
            del self.h[op[1]]
        elif k == "r":
            if f["size"]:
                f["pos"] += min(op[2], f["size"] - f["pos"])
        elif k == "w":
            n, inside = op[2], op[3]
            if n == 0 or d["used"] % 2**64 >= d["cap"]:
                return
            if not inside:
                d["used"] -= f["size"] - f["pos"]
                if self.flags[0]:
                    f["size"] = f["pos"]
            self.updpos(f, f["pos"] + n)
        elif k == "s":
            base = [0, f["pos"], f["size"]][op[3]]
            self.updpos(f, base + op[2])
        elif k == "m":
            m = d["mount"]
            if not op[2].startswith(m):
                return
            p2 = op[2][len(m):]
            c = d["content"]
            if f["path"] in c:
                sz = c.pop(f["path"])
                if self.flags[2] and p2 in c:
                    d["used"] -= c.pop(p2)
                c.setdefault(p2, sz)
                if self.flags[1]:
                    f["path"] = p2
                elif p2 != f["path"] and f["st"] == "live":
                    f["st"] = "stale"
        elif k == "u":
            if f["path"] in d["content"]:
                d["used"] -= f["size"]
                del d["content"][f["path"]]
                f["st"] = "unlinked"


def fullpath(mount, name):
    return (mount if mount != "/" else "") + "/" + name


def gen_case(rng, cid, profile, flags, maxops=40):
    """profile: 'safe' (legal, outside the unfixed defect classes), 'notrunc' (legal, no truncating write), 'legal' (any legal
    history), 'malformed' (also aliasing opens and use after unlink)."""
    mounts = rng.choice(MOUNTS)
    disks = []
    names = ["f%d" % i for i in range(6)]
    for m in mounts:
        nf = rng.below(4)
        nm = names[:]
        rng.shuffle(nm)
        disks.append((m, rng.choice(CAPS), [("/" + n if True else n, rng.choice(SIZES)) for n in nm[:nf]]))
    # keys in content files are the `path_` the plugin computes: "/name" under every mount (for mount "/" path_ = full path)
    mir = Mirror(disks, flags)
    ops = []
    nops = rng.range(3, maxops)
    avoid_trunc = profile in ("safe", "notrunc") and not flags[0]
    avoid_stale = profile == "safe" and not flags[1]
    avoid_over = profile == "safe" and not flags[2]
    legal = profile != "malformed"
    for _ in range(nops):
        free = [s for s in range(5) if s not in mir.h]
        usable = [s for s, f in mir.h.items() if (f["st"] != "unlinked" or not legal)]
        if avoid_stale:
            usable = [s for s in usable if mir.h[s]["st"] != "stale"]
        k = rng.below(100)
        op = None
        if (k < 18 or not mir.h) and free:
            di = rng.below(len(disks))
            name = rng.choice(names)
            full = fullpath(mounts[di], name)
            rdi, path = mir.find(full)
            if legal and path in mir.live_paths(rdi):
                continue
            op = ["o", rng.choice(free), full]
        elif k < 25 and mir.h:
            op = ["c", rng.choice(sorted(mir.h))]
        elif not usable:
            continue
        elif k < 38:
            s = rng.choice(sorted(usable))
            f = mir.h[s]
            rem = f["size"] - f["pos"]
            op = ["r", s, rng.choice([0, 1, rem, rem + 1, max(rem - 1, 0), rng.choice(SIZES), 1000])]
        elif k < 68:
            s = rng.choice(sorted(usable))
            f = mir.h[s]
            d = mir.disks[f["disk"]]
            room = max(d["cap"] - d["used"], 0)
            n = rng.choice([0, 1, 2, rng.choice(SIZES), room, room + 1, max(room - 1, 0), max(f["size"] - f["pos"], 0), 300])
            inside = rng.chance(1, 3)
            if avoid_trunc and not inside and f["pos"] != f["size"]:
                inside = True
            op = ["w", s, n, 1 if inside else 0]
        elif k < 85:
            s = rng.choice(sorted(usable))
            f = mir.h[s]
            tgt = rng.choice([0, f["pos"], f["size"], f["size"] + rng.choice([1, 5, 40]), rng.below(f["size"] + 1),
                              max(f["size"] - 1, 0), rng.below(f["pos"] + 1)])
            o = rng.below(3)
            base = [0, f["pos"], f["size"]][o]
            op = ["s", s, tgt - base, o]
        elif k < 93:
            s = rng.choice(sorted(usable))
            f = mir.h[s]
            di = f["disk"] if rng.chance(5, 6) else rng.below(len(disks))
            name = rng.choice(names + ["g0", "g1"])
            full = fullpath(mounts[di], name)
            m = mir.disks[f["disk"]]["mount"]
            if full.startswith(m):
                p2 = full[len(m):]
                if legal and p2 in mir.live_paths(f["disk"], but=s):
                    continue
                if avoid_over and p2 != f["path"] and p2 in mir.disks[f["disk"]]["content"]:
                    continue
            op = ["m", s, full]
        else:
            s = rng.choice(sorted(usable))
            op = ["u", s]
        mir.apply(op)
        ops.append(op)
    toks = ["case", str(cid), "legal" if legal else "malformed", "disks", str(len(disks))]
    for m, cap, files in disks:
        toks += [m, str(cap), str(len(files))]
        for n, s in files:
            toks += [n, str(s)]
    toks += ["ops", str(len(ops))]
    for op in ops:
        toks += [str(t) for t in op]
    return " ".join(toks), profile


def renumber(line, cid):
    t = line.split()
    t[1] = str(cid)
    return " ".join(t)


def run_cases(ctx, h, drv, lines, flags):
    """-> list of (case line, [(query line, verdict)]) or None"""
    rc, out, err = ctx.run_lines([h, "--log=root.thres:critical"], lines, timeout=1200)
    if rc != 0:
        return None, {"kind": "harness-run", "rc": rc, "stderr": err[-1500:]}
    rc2, verdicts, err2 = ctx.run_lines([drv] + ["1" if f else "0" for f in flags], out, timeout=1200)
    if rc2 != 0 or not verdicts or verdicts[-1] != "END %d" % len(out):
        return None, {"kind": "driver-run", "rc": rc2, "stderr": err2[-1500:]}
    per = {}
    for l, v in zip(out, verdicts):
        cid = l.split()[1]
        per.setdefault(cid, []).append((l, v))
    res = []
    for line in lines:
        cid = line.split()[1]
        res.append((line, per.get(cid, [])))
    return res, None


def probe_variant(ctx, h, drv, corpus):
    """Which variant of each of the three repairable defects does the code in /repo implement?  The theorems hold for every
    variant (`inv_of_reach` is generic in `Cfg`), so the model follows the code: for each class run its minimal witness and
    keep the flag under which model == implementation."""
    flags = [False, False, False]
    wit = {}
    for l in corpus:
        for i, k in enumerate(KEYS):
            if ("#" + k) in l:
                wit[i] = l.split("#")[0].strip()
    for i, k in enumerate(KEYS):
        if i not in wit:
            continue
        ok = None
        for val in (False, True):
            fl = list(flags)
            fl[i] = val
            res, errd = run_cases(ctx, h, drv, [renumber(wit[i], 0)], fl)
            if res and all(not v.startswith("DISAGREE") and not v.startswith("BADLINE") for _, v in res[0][1]):
                ok = val
                break
        if ok is None:
            ctx.broken.append({"kind": "variant-probe", "class": k,
                               "what": "implementation matches neither the current nor the repaired model on the witness"})
        else:
            flags[i] = ok
    return flags


def run(ctx):
    ctx.cov["rule"] = ("cases = (disks with initial content, <=40 ops over <=5 File objects) drawn from splitmix64(VERIF_SEED) in 4 "
                       "profiles (safe / no-truncating-write / any legal / malformed); non-trivial = distinct case with >= 5 ops "
                       "whose every line was compared with the model")
    ctx.assumptions += ["I/O durations are not modelled (Disk::read/write return the requested size)",
                        "one simulated host per case; remote hosts / remote_copy / remote_move are not exercised",
                        "64-bit unsigned arithmetic is modelled in Z and observed modulo 2^64",
                        "legal use = one File object per file at a time, nothing but close() after unlink(), no seek before 0"]
    ctx.ensure_simgrid(["simgrid"])
    ctx.lean_prove()
    drv = ctx.lean_exe()
    h = ctx.build_harness("harness.cpp")
    if not (drv and h):
        return
    corpus_raw = [l.strip() for l in open(ctx.pdir + "/corpus.txt") if l.strip() and not l.startswith("#")]
    flags = probe_variant(ctx, h, drv, corpus_raw)
    ctx.cov["code_variant"] = dict(zip(("fixTrunc", "fixMovePath", "fixMoveOver"), flags))
    corpus = [l.split("#")[0].strip() for l in corpus_raw]
    if ctx.replay:
        rp = json.load(open(ctx.replay))["case"]
        cases = [(rp["line"], "replay")]
    else:
        n = 300 if ctx.tier == "quick" else 6000
        if ctx.broken:
            n *= 10
        rng = SplitMix(ctx.seed)
        cases = [(l, "corpus") for l in corpus]
        for i in range(n):
            r = rng.fork(i)
            prof = ["safe", "safe", "safe", "notrunc", "legal", "legal", "malformed"][r.below(7)]
            cases.append(gen_case(r, 0, prof, flags))
    lines = [renumber(l, i) for i, (l, _) in enumerate(cases)]
    res = None
    for chunk in range(0, len(lines), 1000):
        part, errd = run_cases(ctx, h, drv, lines[chunk:chunk + 1000], flags)
        if part is None:
            # find the case that kills the harness, if any
            bad = None
            if errd["kind"] == "harness-run":
                for l in lines[chunk:chunk + 1000]:
                    r1, e1 = run_cases(ctx, h, drv, [l], flags)
                    if r1 is None:
                        bad = l
                        break
            errd["case"] = bad
            ctx.broken.append(errd)
            return
        res = (res or []) + part
    opk, prof_n, seen, firstkey = {}, {}, set(), {}
    for (line, qv), (_, prof) in zip(res, cases):
        prof_n[prof] = prof_n.get(prof, 0) + 1
        nops = int(line.split()[line.split().index("ops") + 1])
        if len(qv) != nops + 1:
            ctx.broken.append({"kind": "missing-lines", "case": line, "got": len(qv)})
            continue
        allok = True
        for q, v in qv:
            ctx.cov["evaluations"] += 1
            t = q.split()
            if t[0] == "op":
                opk[t[3]] = opk.get(t[3], 0) + 1
            if v == "ok":
                ctx.cov["traces_validated_against_impl"] += 1
            elif v.startswith("MONFAIL"):
                key = v.split("key=")[1].split()[0]
                key = key if key in KEYS else None
                if key is None or key not in firstkey:
                    firstkey[key] = True
                    ctx.violation(v, {"line": line, "first_failing_line": q, "verdict": v, "profile": prof}, key=key)
                if prof == "safe":
                    # the `_partial` theorem's domain: any monitor failure here contradicts the tie
                    ctx.violation("monitor fails inside the domain of used_eq_sum_sizes_partial: " + v,
                                  {"line": line, "first_failing_line": q, "verdict": v, "profile": prof}, key=None)
            else:
                allok = False
                ctx.broken.append({"kind": "disagree", "case": line, "line": q, "verdict": v[:500]})
                break
        key = line.split(" ", 2)[2]
        if allok and nops >= 5 and key not in seen:
            seen.add(key)
            ctx.cov["distinct_nontrivial"] += 1
    ctx.cov["op_kinds"] = opk
    ctx.cov["profiles"] = prof_n
    ctx.cov["samples"] = [q + " | " + v for q, v in (res[0][1][:2] + res[-1][1][:3])]
    ctx.broken[:] = ctx.broken[:20]
