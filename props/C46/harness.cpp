// C46 harness: drives the REAL file-system plugin (src/plugins/file_system/s4u_FileSystem.cpp) inside a simulation.
// stdin : one case per line
//   case <id> <legal|malformed> disks <nd> { <mount> <capacity> <nfiles> { <name> <size> }* }*  ops <nops> <op>*
//   ops:  o <slot> <fullpath> | c <slot> | r <slot> <n> | w <slot> <n> <inside:0|1> | s <slot> <offset> <origin:0|1|2>
//         | m <slot> <fullpath> | u <slot>
// stdout: per case, one `init` line and one line per op (query => observation):
//   init <id> <legal|malformed> disks ... => D <used> <free> <n> {<name> <size>}* D ...
//   op <id> <step> <op tokens> => ret <r> H {<slot> <size> <tell>}* D <used> <free> <n> {<name> <size>}* D ...
// Each case runs on its own host (own disks, own actor) of one platform built with the C++ API; the disks get their
// capacity / mount point / initial content through the "size", "mount", "content" properties exactly like an XML platform.
#include <simgrid/plugins/file_system.h>
#include <simgrid/s4u.hpp>
#include <cstdio>
#include <fstream>
#include <iostream>
#include <map>
#include <sstream>
#include <string>
#include <unistd.h>
#include <vector>
namespace sg4 = simgrid::s4u;

struct DiskSpec {
  std::string mount;
  unsigned long long cap;
  std::vector<std::pair<std::string, unsigned long long>> files;
};
struct Case {
  std::string id;
  std::vector<DiskSpec> disks;
  std::vector<std::vector<std::string>> ops;
  std::string header; // the tokens between "case <id>" and "ops"
  std::string out;
  std::vector<sg4::Disk*> d;
};

static std::string obs_disks(const Case& c)
{
  std::ostringstream o;
  for (auto* d : c.d) {
    o << " D " << sg_disk_get_size_used(d) << " " << sg_disk_get_size_free(d);
    auto* content = d->extension<sg4::FileSystemDiskExt>()->get_content();
    o << " " << content->size();
    for (auto const& [k, v] : *content)
      o << " " << k << " " << v;
  }
  return o.str();
}

static void run_case(Case* c)
{
  std::map<int, sg4::File*> h;
  int step = 0;
  for (auto const& op : c->ops) {
    std::ostringstream o;
    o << "op " << c->id << " " << step++;
    for (auto const& t : op)
      o << " " << t;
    o << " => ret ";
    int slot = std::stoi(op[1]);
    const std::string& k = op[0];
    if (k == "o") {
      h[slot] = sg4::File::open(op[2], nullptr);
      o << 0;
    } else if (k == "c") {
      h[slot]->close();
      h.erase(slot);
      o << 0;
    } else if (k == "r") {
      o << h[slot]->read(std::stoull(op[2]));
    } else if (k == "w") {
      o << h[slot]->write(std::stoull(op[2]), op[3] == "1");
    } else if (k == "s") {
      int origin = op[3] == "0" ? SEEK_SET : op[3] == "1" ? SEEK_CUR : SEEK_END;
      h[slot]->seek(std::stoll(op[2]), origin);
      o << 0;
    } else if (k == "m") {
      h[slot]->move(op[2]);
      o << 0;
    } else if (k == "u") {
      o << h[slot]->unlink();
    } else {
      o << "badop";
    }
    o << " H";
    for (auto const& [s, f] : h)
      o << " " << s << " " << f->size() << " " << f->tell();
    o << obs_disks(*c) << "\n";
    c->out += o.str();
  }
  for (auto const& [s, f] : h)
    f->close();
}

int main(int argc, char** argv)
{
  sg4::Engine e(&argc, argv);
  sg_storage_file_system_init();
  char tmpl[] = "/tmp/c46XXXXXX";
  std::string dir = mkdtemp(tmpl);
  // content files are given by *relative* name: xbt::path_ifsopen() re-opens an absolute name a second time through the
  // search path and fails (incidental, unrelated to C46)
  if (chdir(dir.c_str()) != 0)
    return 3;
  std::vector<Case*> cases;
  std::string line;
  auto* zone = e.get_netzone_root();
  std::vector<std::string> tmpfiles;
  while (std::getline(std::cin, line)) {
    std::istringstream is(line);
    std::string tok;
    is >> tok;
    if (tok != "case")
      continue;
    auto* c = new Case;
    std::string tag;
    is >> c->id >> tag;
    size_t nd;
    is >> tok >> nd;
    std::ostringstream hd;
    hd << tag << " disks " << nd;
    for (size_t i = 0; i < nd; i++) {
      DiskSpec d;
      size_t nf;
      is >> d.mount >> d.cap >> nf;
      hd << " " << d.mount << " " << d.cap << " " << nf;
      for (size_t j = 0; j < nf; j++) {
        std::string n;
        unsigned long long s;
        is >> n >> s;
        d.files.emplace_back(n, s);
        hd << " " << n << " " << s;
      }
      c->disks.push_back(d);
    }
    c->header = hd.str();
    size_t nops;
    is >> tok >> nops;
    for (size_t i = 0; i < nops; i++) {
      std::vector<std::string> op;
      is >> tok;
      op.push_back(tok);
      size_t n = (tok == "o" || tok == "r" || tok == "m") ? 2 : (tok == "w" || tok == "s") ? 3 : 1;
      for (size_t j = 0; j < n; j++) {
        is >> tok;
        op.push_back(tok);
      }
      c->ops.push_back(op);
    }
    auto* host = zone->add_host("h" + c->id, 1e9);
    for (size_t i = 0; i < nd; i++) {
      std::string fn = c->id + "_" + std::to_string(i) + ".content";
      {
        std::ofstream f(fn);
        for (auto const& [n, s] : c->disks[i].files)
          f << n << " " << s << "\n";
      }
      tmpfiles.push_back(fn);
      auto* disk = host->add_disk("h" + c->id + "_d" + std::to_string(i), 1e8, 1e8);
      disk->set_property("size", std::to_string(c->disks[i].cap) + "B");
      disk->set_property("mount", c->disks[i].mount);
      disk->set_property("content", fn);
      disk->seal(); // fires Disk::on_creation -> FileSystemDiskExt(disk) reads the three properties
      c->d.push_back(disk);
    }
    host->seal();
    cases.push_back(c);
  }
  zone->seal();
  for (auto* c : cases) {
    c->out = "init " + c->id + " " + c->header + " =>" + obs_disks(*c) + "\n";
    e.host_by_name("h" + c->id)->add_actor("a" + c->id, [c] { run_case(c); });
  }
  e.run();
  for (auto* c : cases)
    fputs(c->out.c_str(), stdout);
  for (auto const& f : tmpfiles)
    unlink(f.c_str());
  rmdir(dir.c_str());
  return 0;
}
