// C47 harness: an S4U program interpreting a generated script, run with tracing options given on the command line
// (--cfg=tracing:yes --cfg=tracing/filename:F --cfg=tracing/{categorized,uncategorized,platform,actor}:yes ...).
// argv[1] = script file:   one actor per line:   <host index> <autostart 0|1> <op>*
//   ops: e<flops>[:cat]  exec (optionally in a tracing category)      s<seconds>   sleep
//        S<mbox>:<bytes>[:cat] detached send                            R<mbox>      receive if a message is pending
//        c<actor line index>   create that (non-autostart) actor now   k<actor line index> kill it (if alive)
//        P<mbox>:<bytes>:<timeout>  blocking put as Mailbox::put(payload, bytes, timeout) does it (start + wait_for_or_cancel)
//        G<mbox>:<timeout>          blocking get with a timeout (get_init + start + wait_for_or_cancel)
//        X<mbox>:<bytes>:<delay>    put_async, sleep <delay>, cancel the communication
//        F<delay>                   turn every link of the platform off, sleep <delay>, turn them on again
//   first line: categories: cat <name>*
// The produced trace file is the observation.  stdout: "done <clock>" and, for the classification of what the trace shows,
// one line per communication operation of an actor, in the actor's program order:
//     C <actor container name = name-pid> <send|recv> <outcome> <matched 0|1>
// outcome: done | detached | timeout | netfail | cancel (exception received) | canceled-by-me;   matched: the
// communication had both a sender and a receiver when the operation ended;  and "K <container name>" when an actor is killed.
#include <simgrid/instr.h>
#include <simgrid/s4u.hpp>
#include <cstdio>
#include <fstream>
#include <map>
#include <sstream>
#include <string>
#include <vector>
namespace sg4 = simgrid::s4u;

struct ActorSpec {
  int host;
  bool autostart;
  std::vector<std::string> ops;
};
static std::vector<ActorSpec> specs;
static std::map<int, sg4::ActorPtr> live;

static void run_actor(int idx);
static std::string me()
{
  return sg4::this_actor::get_name() + "-" + std::to_string(sg4::this_actor::get_pid());
}
static void logc(const char* dir, const char* outcome, const sg4::CommPtr& c)
{
  printf("C %s %s %s %d\n", me().c_str(), dir, outcome, (c->get_sender() != nullptr && c->get_receiver() != nullptr) ? 1 : 0);
  fflush(stdout);
}
// wait for `c` as Mailbox::put / get with a timeout do; report how it ended
static void wait_and_log(const char* dir, const sg4::CommPtr& c, double timeout)
{
  try {
    c->wait_for_or_cancel(timeout);
    logc(dir, "done", c);
  } catch (const simgrid::TimeoutException&) {
    logc(dir, "timeout", c);
  } catch (const simgrid::NetworkFailureException&) {
    logc(dir, "netfail", c);
  } catch (const simgrid::CancelException&) {
    logc(dir, "cancel", c);
  }
}
static void start(int idx)
{
  auto hosts = sg4::Engine::get_instance()->get_all_hosts();
  live[idx]  = hosts[specs[idx].host % hosts.size()]->add_actor("a" + std::to_string(idx), [idx] { run_actor(idx); });
}

static void run_actor(int idx)
{
  for (auto const& op : specs[idx].ops) {
    std::string a = op.substr(1);
    std::string cat;
    std::vector<std::string> parts;
    std::stringstream ss(a);
    std::string p;
    while (std::getline(ss, p, ':'))
      parts.push_back(p);
    switch (op[0]) {
      case 'e': {
        auto ex = sg4::this_actor::exec_init(std::stod(parts[0]));
        if (parts.size() > 1)
          ex->set_tracing_category(parts[1]);
        ex->wait();
        break;
      }
      case 's':
        sg4::this_actor::sleep_for(std::stod(parts[0]));
        break;
      case 'S': {
        static int payload = 0;
        auto c             = sg4::Mailbox::by_name("m" + parts[0])->put_init(&payload, std::stoull(parts[1]));
        if (parts.size() > 2)
          c->set_tracing_category(parts[2]);
        printf("C %s send detached 0\n", me().c_str());
        c->detach(); // fire and forget: an unmatched send never blocks the end of the simulation
        break;
      }
      case 'P': {
        static int payload = 0;
        auto c = sg4::Mailbox::by_name("m" + parts[0])->put_init(&payload, static_cast<uint64_t>(std::stod(parts[1])));
        c->start();
        wait_and_log("send", c, std::stod(parts[2]));
        break;
      }
      case 'G': {
        int* data = nullptr;
        auto c    = sg4::Mailbox::by_name("m" + parts[0])->get_init()->set_dst_data(reinterpret_cast<void**>(&data), sizeof(void*));
        c->start();
        wait_and_log("recv", c, std::stod(parts[1]));
        break;
      }
      case 'X': {
        static int payload = 0;
        auto c = sg4::Mailbox::by_name("m" + parts[0])->put_async(&payload, static_cast<uint64_t>(std::stod(parts[1])));
        sg4::this_actor::sleep_for(std::stod(parts[2]));
        bool matched = c->get_receiver() != nullptr;
        c->cancel();
        printf("C %s send canceled-by-me %d\n", me().c_str(), matched ? 1 : 0);
        fflush(stdout);
        break;
      }
      case 'F': {
        auto links = sg4::Engine::get_instance()->get_all_links();
        for (auto* l : links)
          l->turn_off();
        sg4::this_actor::sleep_for(std::stod(parts[0]));
        for (auto* l : links)
          l->turn_on();
        break;
      }
      case 'R': {
        // receive only what is already there (no blocking receive: killed senders must not deadlock the script)
        auto* mb = sg4::Mailbox::by_name("m" + parts[0]);
        if (mb->listen()) {
          mb->get<int>();
          printf("C %s recv done 1\n", me().c_str());
        } else
          sg4::this_actor::sleep_for(0.1);
        break;
      }
      case 'c': {
        int t = std::stoi(parts[0]);
        if (live.find(t) == live.end())
          start(t);
        break;
      }
      case 'k': {
        int t = std::stoi(parts[0]);
        if (live.find(t) != live.end() && t != idx) {
          if (sg4::Actor::by_pid(live[t]->get_pid()) != nullptr) { // still running: the kill will interrupt something
            printf("K %s-%ld\n", live[t]->get_cname(), static_cast<long>(live[t]->get_pid()));
            fflush(stdout);
          }
          live[t]->kill();
        }
        break;
      }
      default:
        break;
    }
  }
}

int main(int argc, char** argv)
{
  sg4::Engine e(&argc, argv);
  e.load_platform("/repo/examples/platforms/small_platform.xml");
  std::ifstream f(argv[1]);
  std::string line;
  while (std::getline(f, line)) {
    std::istringstream is(line);
    std::string tok;
    is >> tok;
    if (tok == "cat") {
      while (is >> tok)
        simgrid::instr::declare_tracing_category(tok);
      continue;
    }
    ActorSpec s;
    s.host = std::stoi(tok);
    int au;
    is >> au;
    s.autostart = au != 0;
    while (is >> tok)
      s.ops.push_back(tok);
    specs.push_back(s);
  }
  for (size_t i = 0; i < specs.size(); i++)
    if (specs[i].autostart)
      start(static_cast<int>(i));
  e.run();
  printf("done %f\n", sg4::Engine::get_clock());
  return 0;
}
