"""C47 — Paje traces are well formed.
Theorems: lean/SgVerif/C47/Props.lean (buffer sortedness / dump prefix / emitted order under the no-late-insert hypothesis;
automaton soundness).  Correspondence: generated S4U programs x tracing options -> the produced trace file is judged line
by line by the compiled Lean automaton (drv_C47); a rejected line is a violation with (program, options) as replay."""
import json
import os
import subprocess
from vlib.core import SplitMix

OPTS = [["categorized"], ["uncategorized"], ["platform"], ["actor"], ["actor", "uncategorized"],
        ["actor", "categorized", "uncategorized"], ["platform", "uncategorized"], ["actor", "platform"]]
EVENTDEFS = ["PajeDefineContainerType", "PajeDefineVariableType", "PajeDefineStateType", "PajeDefineEventType",
             "PajeDefineLinkType", "PajeDefineEntityValue", "PajeCreateContainer", "PajeDestroyContainer", "PajeSetVariable",
             "PajeAddVariable", "PajeSubVariable", "PajeSetState", "PajePushState", "PajePopState", "PajeResetState",
             "PajeStartLink", "PajeEndLink", "PajeNewEvent"]


def gen_prog(rng, profile):
    """profile 'static': every actor starts at t=0 and none is killed; 'dynamic': actors created / killed at t>0"""
    cats = ["compute", "data", "io"][:rng.range(1, 3)]
    n = rng.range(1, 5)
    lines = ["cat " + " ".join(cats)]
    for i in range(n):
        ops = []
        for _ in range(rng.range(1, 7)):
            k = rng.below(10)
            if k < 3:
                ops.append("e%se%d%s" % (rng.choice(["1", "2", "5"]), rng.range(6, 9), (":" + rng.choice(cats)) if rng.chance(2, 3) else ""))
            elif k < 5:
                ops.append("s%s" % rng.choice(["0", "0.1", "0.5", "1", "2.5"]))
            elif k < 7:
                ops.append("S%d:%s%s" % (rng.below(2), rng.choice(["1", "1e3", "1e6", "5e6"]), (":" + rng.choice(cats)) if rng.chance(1, 2) else ""))
            elif k < 8:
                ops.append("R%d" % rng.below(2))
            elif profile == "dynamic" and k < 9:
                ops.append("c%d" % rng.below(n))
            elif profile == "dynamic":
                ops.append("k%d" % rng.below(n))
            else:
                ops.append("s0.2")
        auto = 1 if (profile == "static" or i == 0 or rng.chance(1, 2)) else 0
        lines.append("%d %d %s" % (rng.below(7), auto, " ".join(ops)))
    return lines


def convert(path, cid, problems):
    out = ["begin %d =>" % cid]
    for l in open(path, errors="replace"):
        l = l.strip()
        if not l or l[0] == "#":
            continue
        if l.startswith("%EventDef"):
            t = l.split()
            if int(t[2]) >= len(EVENTDEFS) or EVENTDEFS[int(t[2])] != t[1]:
                problems.append("header: %s" % l)
            continue
        if l[0] == "%":
            continue
        t = l.replace('"', " ").split()
        if int(t[0]) >= 6:
            a, b = (t[1].split(".") + ["0"])[:2]
            t[1] = str(int(a) * 10**6 + int((b + "000000")[:6]))
        out.append("L " + " ".join(t) + " =>")
    return out


def run(ctx):
    ctx.cov["rule"] = ("(program, tracing options) pairs: generated S4U scripts (1-5 actors, execs/sleeps/comms with categories, "
                       "actor creation and kills at t>0 in the 'dynamic' profile) x 8 option sets; non-trivial = distinct pair whose "
                       "trace has >= 20 event lines")
    ctx.assumptions += ["timestamps are compared at the printed precision (6 digits)",
                        "MPI programs under smpirun -trace are not exercised (S4U only)",
                        "the converse of the automaton theorems (spec => accepted) is not proved"]
    ctx.ensure_simgrid(["simgrid"])
    ctx.lean_prove()
    drv = ctx.lean_exe()
    h = ctx.build_harness("harness.cpp")
    if not (drv and h):
        return
    rng = SplitMix(ctx.seed)
    if ctx.replay:
        rp = json.load(open(ctx.replay))["case"]
        cases = [(rp["program"], rp["options"], "replay")]
    else:
        corpus = json.load(open(ctx.pdir + "/corpus.json"))
        cases = [(c["program"], c["options"], "corpus") for c in corpus]
        n = 40 if ctx.tier == "quick" else 400
        if ctx.broken:
            n *= 10
        for i in range(n):
            r = rng.fork(i)
            prof = "static" if r.chance(1, 2) else "dynamic"
            prog = gen_prog(r, prof)
            for o in ([r.choice(OPTS), r.choice(OPTS)] if ctx.tier == "quick" else OPTS):
                cases.append((prog, o, prof))
    lines, spans, problems = [], [], []
    for cid, (prog, opts, prof) in enumerate(cases):
        sp = os.path.join(ctx.work, "prog.txt")
        tp = os.path.join(ctx.work, "t.trace")
        open(sp, "w").write("\n".join(prog) + "\n")
        if os.path.exists(tp):
            os.remove(tp)
        cmd = [h, sp, "--log=root.thres:critical", "--cfg=tracing:yes", "--cfg=tracing/filename:" + tp] + \
              ["--cfg=tracing/%s:yes" % o for o in opts]
        p = subprocess.run(cmd, capture_output=True, text=True, timeout=120, env={**os.environ, **ctx.sg_env()})
        if p.returncode != 0 and "TracingError" in p.stderr and "not found in parent type" in p.stderr:
            # the library itself refuses to go on: it was about to use a variable type that was never declared
            what = [l for l in p.stderr.split("\n") if "TracingError" in l][0][-160:]
            ncrash = getattr(ctx, "_c47_crash", 0)
            ctx._c47_crash = ncrash + 1
            if ncrash == 0:
              ctx.violation("tracing aborts the simulation, declared-before-use broken inside the library: " + what,
                            {"program": prog, "options": opts, "profile": prof}, key="categorized-host-utilization-undeclared-type")
            spans.append((len(lines), len(lines)))
            continue
        if p.returncode != 0 or not os.path.exists(tp):
            ctx.broken.append({"kind": "harness-run", "rc": p.returncode, "stderr": p.stderr[-800:], "program": prog, "options": opts})
            spans.append((len(lines), len(lines)))
            continue
        conv = convert(tp, cid, problems)
        spans.append((len(lines), len(lines) + len(conv)))
        lines += conv
    for pr in problems[:3]:
        ctx.broken.append({"kind": "header", "what": pr})
    rc, verdicts, err = ctx.run_lines([drv], lines, timeout=1200)
    if rc != 0 or not verdicts or verdicts[-1] != "END %d" % len(lines):
        ctx.broken.append({"kind": "driver-run", "rc": rc, "stderr": err[-2000:]})
        return
    seen, keys, profs = set(), {}, {}
    for (prog, opts, prof), (a, b) in zip(cases, spans):
        profs[prof] = profs.get(prof, 0) + 1
        nev = 0
        for l, v in zip(lines[a:b], verdicts[a:b]):
            ctx.cov["evaluations"] += 1
            if l.startswith("L ") and int(l.split()[1]) >= 6:
                nev += 1
            if v == "ok":
                ctx.cov["traces_validated_against_impl"] += 1
            elif v.startswith("MONFAIL"):
                key = v.split("key=")[1].split()[0]
                keys[key] = keys.get(key, 0) + 1
                if keys[key] == 1:
                    ctx.violation(v, {"program": prog, "options": opts, "line": l, "verdict": v, "profile": prof}, key=key)
            else:
                ctx.broken.append({"kind": "badline", "line": l[:200], "verdict": v[:200]})
        k = json.dumps([prog, opts])
        if nev >= 20 and k not in seen:
            seen.add(k)
            ctx.cov["distinct_nontrivial"] += 1
    ctx.cov["rejections_by_key"] = keys
    ctx.cov["profiles"] = profs
    ctx.cov["samples"] = [" | ".join(c[0]) + " @ " + ",".join(c[1]) for c in cases[:4]]
    ctx.broken[:] = ctx.broken[:10]
