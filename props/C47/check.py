"""C47 — Paje traces are well formed.
Theorems: lean/SgVerif/C47/Props.lean (buffer sortedness / dump prefix / emitted order under the no-late-insert hypothesis;
automaton soundness; destroy_balanced_spec: push / pop balance when a container is destroyed).  Correspondence: generated S4U programs x tracing options -> the produced trace file is judged line
by line by the compiled Lean automaton (drv_C47); a rejected line is a violation with (program, options) as replay."""
import json
import os
import subprocess
from vlib.core import SplitMix

OPTS = [["categorized"], ["uncategorized"], ["platform"], ["actor"], ["actor", "uncategorized"],
        ["actor", "categorized", "uncategorized"], ["platform", "uncategorized"], ["actor", "platform"]]
EVENTDEFS = ["PajeDefineContainerType", "PajeDefineVariableType", "PajeDefineStateType", "PajeDefineEventType",
             "PajeDefineLinkType", "PajeDefineEntityValue", "PajeCreateContainer", "PajeDestroyContainer", "PajeSetVariable",
             "PajeAddVariable", "PajeSubVariable", "PajeSetState", "PajePushState", "PajePopState", "PajeResetState",
             "PajeStartLink", "PajeEndLink", "PajeNewEvent"]


def gen_prog(rng, profile):
    """profile 'static': every actor starts at t=0 and none is killed; 'dynamic': actors created / killed at t>0"""
    cats = ["compute", "data", "io"][:rng.range(1, 3)]
    n = rng.range(1, 5)
    lines = ["cat " + " ".join(cats)]
    for i in range(n):
        ops = []
        for _ in range(rng.range(1, 7)):
            k = rng.below(10)
            if k < 3:
                ops.append("e%se%d%s" % (rng.choice(["1", "2", "5"]), rng.range(6, 9), (":" + rng.choice(cats)) if rng.chance(2, 3) else ""))
            elif k < 5:
                ops.append("s%s" % rng.choice(["0", "0.1", "0.5", "1", "2.5"]))
            elif k < 7:
                ops.append("S%d:%s%s" % (rng.below(2), rng.choice(["1", "1e3", "1e6", "5e6"]), (":" + rng.choice(cats)) if rng.chance(1, 2) else ""))
            elif k < 8:
                ops.append("R%d" % rng.below(2))
            elif profile == "dynamic" and k < 9:
                ops.append("c%d" % rng.below(n))
            elif profile == "dynamic":
                ops.append("k%d" % rng.below(n))
            else:
                ops.append("s0.2")
        auto = 1 if (profile == "static" or i == 0 or rng.chance(1, 2)) else 0
        lines.append("%d %d %s" % (rng.below(7), auto, " ".join(ops)))
    return lines


ACTOR_OPTS = [["actor"], ["actor", "uncategorized"], ["actor", "platform"], ["actor", "categorized", "uncategorized"]]
SCENARIOS = ["ok", "matched-timeout-sender", "matched-timeout-receiver", "matched-cancel", "matched-linkfail",
             "unmatched-send-timeout", "unmatched-recv-timeout", "unmatched-cancel", "kill-sleeping", "kill-in-matched-comm"]


def gen_fault_prog(rng):
    """profile 'commfault': pairs of actors on their own mailbox; the communication of a pair is MATCHED (both sides
    present) and then times out on the sender's or the receiver's side, is cancelled by the sender, or fails because the links
    are turned off mid-transfer; or it is unmatched and times out / is cancelled; or an actor is killed while it sleeps or
    while it is in a matched communication.  Every wait has a finite timeout (no deadlock).  Around it: sleeps and execs, so
    that the containers live on after the failure and are destroyed later."""
    cats = ["compute", "data"]
    lines = ["cat " + " ".join(cats)]
    actors = []                                     # [host, ops]

    def noise(lo, hi):
        return [rng.choice(["s0.1", "s0.5", "e1e7", "e2e6:compute", "s0"]) for _ in range(rng.range(lo, hi))]

    for pair in range(rng.range(1, 3)):
        sc = rng.choice(SCENARIOS) if not rng.chance(1, 25) else "kill-in-unmatched-send"
        mb = 10 + pair
        hs = rng.below(7)
        hr = (hs + 1 + rng.below(6)) % 7             # another host: the transfer of 1e9 bytes lasts tens of seconds
        tmo = rng.choice(["0.2", "1", "3.5"])
        snd, rcv, third = None, None, None
        if sc == "ok":
            snd, rcv = ["P%d:1e6:50" % mb], ["G%d:50" % mb]
        elif sc == "matched-timeout-sender":
            snd, rcv = ["P%d:1e9:%s" % (mb, tmo)], ["G%d:50" % mb]
        elif sc == "matched-timeout-receiver":
            snd, rcv = ["P%d:1e9:50" % mb], ["G%d:%s" % (mb, tmo)]
        elif sc == "matched-cancel":
            snd, rcv = ["X%d:1e9:%s" % (mb, tmo)], ["G%d:50" % mb]
        elif sc == "matched-linkfail":
            snd, rcv, third = ["P%d:1e9:50" % mb], ["G%d:50" % mb], ["s" + tmo, "F0.1"]
        elif sc == "unmatched-send-timeout":
            snd = ["P%d:1e6:%s" % (mb, tmo)]
        elif sc == "unmatched-recv-timeout":
            rcv = ["G%d:%s" % (mb, tmo)]
        elif sc == "unmatched-cancel":
            snd = ["X%d:1e6:%s" % (mb, tmo)]
        elif sc == "kill-sleeping":
            rcv, third = ["s5"], ["s" + tmo, "k%d" % len(actors)]
        elif sc == "kill-in-matched-comm":
            snd, rcv = ["P%d:1e9:50" % mb], ["G%d:50" % mb]
            third = ["s" + tmo, "k%d" % (len(actors) + rng.below(2))]
        else:                                        # kill-in-unmatched-send
            snd, third = ["P%d:1e9:50" % mb], ["s" + tmo, "k%d" % len(actors)]
        for host, role in ((hs, snd), (hr, rcv), (rng.below(7), third)):
            if role is not None:
                # the role of a pair starts at t = 0 on both sides (matched at once), the noise comes after it
                actors.append([host, role + noise(1, 3)])
    for host, ops in actors:
        lines.append("%d 1 %s" % (host, " ".join(ops)))
    return lines


def parse_log(stdout):
    """harness stdout -> ({actor container name: [(dir, outcome, matched)]}, set of killed actors)"""
    comms, killed = {}, set()
    for l in stdout.split("\n"):
        t = l.split()
        if len(t) == 5 and t[0] == "C":
            comms.setdefault(t[1], []).append((t[2], t[3], int(t[4])))
        elif len(t) == 2 and t[0] == "K":
            killed.add(t[1])
    return comms, killed


def cause_of_leftover(name, pushed, comms, killed):
    """name the class of 'container destroyed with <pushed> states still pushed' after what its actor did.
    Classes seen on the unchanged library: a killed actor; a communication that never had a peer and timed out / was
    cancelled; a detached send still in flight when its sender ends.  A MATCHED communication that does not end in DONE
    (timeout, cancel, link failure) is popped on both sides by the Comm::on_completion callback: leftovers that the unmatched /
    detached operations of the actor cannot account for are then their own class."""
    if name in killed:
        return "killed-actor"
    ops = comms.get(name, [])
    unmatched = [o for o in ops if o[1] == "detached" or (o[2] == 0 and o[1] != "done")]
    matched_bad = [o for o in ops if o[2] == 1 and o[1] != "done"]
    if matched_bad and pushed > len(unmatched):
        return "matched-comm-not-done"
    if any(o[1] == "timeout" for o in unmatched):
        return "unmatched-timeout"
    if any(o[1] == "canceled-by-me" for o in unmatched):
        return "unmatched-cancel"
    if any(o[1] == "detached" for o in unmatched):
        return "detached-send-unfinished"
    return "unexplained"


def convert(path, cid, problems, names=None):
    out = ["begin %d =>" % cid]
    for l in open(path, errors="replace"):
        l = l.strip()
        if not l or l[0] == "#":
            continue
        if l.startswith("%EventDef"):
            t = l.split()
            if int(t[2]) >= len(EVENTDEFS) or EVENTDEFS[int(t[2])] != t[1]:
                problems.append("header: %s" % l)
            continue
        if l[0] == "%":
            continue
        if names is not None and l.startswith("6 ") and l.count('"') >= 2:
            names[l.split()[2]] = l.split('"')[1]
        t = l.replace('"', " ").split()
        if int(t[0]) >= 6:
            a, b = (t[1].split(".") + ["0"])[:2]
            t[1] = str(int(a) * 10**6 + int((b + "000000")[:6]))
        out.append("L " + " ".join(t) + " =>")
    out.append("end %d =>" % cid)
    return out


def run(ctx):
    ctx.cov["rule"] = ("(program, tracing options) pairs: generated S4U scripts (1-5 actors, execs/sleeps/comms with categories, "
                       "actor creation and kills at t>0 in the 'dynamic' profile; 'commfault' profile with tracing/actor: matched communications "
                       "that time out / are cancelled / fail on a link failure, unmatched ones, killed actors) x 8 option sets; non-trivial = distinct pair whose "
                       "trace has >= 20 event lines")
    ctx.assumptions += ["timestamps are compared at the printed precision (6 digits)",
                        "MPI programs under smpirun -trace are not exercised (S4U only)",
                        "the converse of the automaton theorems (spec => accepted) is not proved"]
    ctx.ensure_simgrid(["simgrid"])
    ctx.lean_prove()
    drv = ctx.lean_exe()
    h = ctx.build_harness("harness.cpp")
    if not (drv and h):
        return
    rng = SplitMix(ctx.seed)
    if ctx.replay:
        rp = json.load(open(ctx.replay))["case"]
        cases = [(rp["program"], rp["options"], "replay")]
    else:
        corpus = json.load(open(ctx.pdir + "/corpus.json"))
        cases = [(c["program"], c["options"], "corpus") for c in corpus]
        n = 40 if ctx.tier == "quick" else 400
        if ctx.broken:
            n *= 10
        for i in range(n):
            r = rng.fork(i)
            prof = "static" if r.chance(1, 2) else "dynamic"
            prog = gen_prog(r, prof)
            for o in ([r.choice(OPTS), r.choice(OPTS)] if ctx.tier == "quick" else OPTS):
                cases.append((prog, o, prof))
        nf = 24 if ctx.tier == "quick" else 300
        if ctx.broken:
            nf *= 10
        for i in range(nf):
            r = rng.fork(100000 + i)
            cases.append((gen_fault_prog(r), r.choice(ACTOR_OPTS), "commfault"))
    lines, spans, problems, logs = [], [], [], []
    matched_not_done = 0
    for cid, (prog, opts, prof) in enumerate(cases):
        sp = os.path.join(ctx.work, "prog.txt")
        tp = os.path.join(ctx.work, "t.trace")
        open(sp, "w").write("\n".join(prog) + "\n")
        if os.path.exists(tp):
            os.remove(tp)
        cmd = [h, sp, "--log=root.thres:critical", "--cfg=tracing:yes", "--cfg=tracing/filename:" + tp] + \
              ["--cfg=tracing/%s:yes" % o for o in opts]
        p = subprocess.run(cmd, capture_output=True, text=True, timeout=120, env={**os.environ, **ctx.sg_env()})
        logs.append((parse_log(p.stdout), {}))
        if p.returncode != 0 and "TracingError" in p.stderr and "not found in parent type" in p.stderr:
            # the library itself refuses to go on: it was about to use a variable type that was never declared
            what = [l for l in p.stderr.split("\n") if "TracingError" in l][0][-160:]
            ncrash = getattr(ctx, "_c47_crash", 0)
            ctx._c47_crash = ncrash + 1
            if ncrash == 0:
              ctx.violation("tracing aborts the simulation, declared-before-use broken inside the library: " + what,
                            {"program": prog, "options": opts, "profile": prof}, key="categorized-host-utilization-undeclared-type")
            spans.append((len(lines), len(lines)))
            continue
        if p.returncode in (-11, 139) and "actor" in opts:
            # the simulation dies inside the tracing callbacks: does the same program run without tracing?
            p0 = subprocess.run([h, sp, "--log=root.thres:critical"], capture_output=True, text=True, timeout=120,
                                env={**os.environ, **ctx.sg_env()})
            if p0.returncode == 0:
                ncrash = getattr(ctx, "_c47_segv", 0)
                ctx._c47_segv = ncrash + 1
                if ncrash == 0:
                    ctx.violation("with tracing/actor the simulation dies with SIGSEGV (it runs to the end without tracing): no "
                                  "complete trace is produced; killed actors before the crash: %s" % sorted(logs[-1][0][1]),
                                  {"program": prog, "options": opts, "profile": prof},
                                  key="actor-tracing-crash/%s" % ("killed-actor" if logs[-1][0][1] else "other"))
                spans.append((len(lines), len(lines)))
                continue
        if p.returncode != 0 or not os.path.exists(tp):
            ctx.broken.append({"kind": "harness-run", "rc": p.returncode, "stderr": p.stderr[-800:], "program": prog, "options": opts})
            spans.append((len(lines), len(lines)))
            continue
        matched_not_done += sum(1 for ops in logs[-1][0][0].values() for o in ops if o[2] == 1 and o[1] != "done")
        conv = convert(tp, cid, problems, logs[-1][1])
        spans.append((len(lines), len(lines) + len(conv)))
        lines += conv
    for pr in problems[:3]:
        ctx.broken.append({"kind": "header", "what": pr})
    rc, verdicts, err = ctx.run_lines([drv], lines, timeout=1200)
    if rc != 0 or not verdicts or verdicts[-1] != "END %d" % len(lines):
        ctx.broken.append({"kind": "driver-run", "rc": rc, "stderr": err[-2000:]})
        return
    if not ctx.replay and matched_not_done == 0:
        ctx.broken.append({"kind": "sanity", "what": "no matched communication that times out / fails / is cancelled was run"})
    seen, keys, profs = set(), {}, {}
    for (prog, opts, prof), (a, b), ((comms, killed), names) in zip(cases, spans, logs):
        profs[prof] = profs.get(prof, 0) + 1
        nev = 0
        for l, v in zip(lines[a:b], verdicts[a:b]):
            ctx.cov["evaluations"] += 1
            if l.startswith("L ") and int(l.split()[1]) >= 6:
                nev += 1
            if v == "ok":
                ctx.cov["traces_validated_against_impl"] += 1
            elif v.startswith("MONFAIL"):
                key = v.split("key=")[1].split()[0]
                if key == "state-left-pushed":
                    # which container, how many states; name the class after what that actor did (harness log)
                    f = dict(x.split("=") for x in v.split() if "=" in x)
                    name = names.get(f.get("container", ""), "?")
                    key += "/" + cause_of_leftover(name, int(f.get("pushed", "1")), comms, killed)
                    v += " container-name=%s its-communications=%s killed=%s" % (name, comms.get(name, []), name in killed)
                keys[key] = keys.get(key, 0) + 1
                if keys[key] == 1:
                    ctx.violation(v, {"program": prog, "options": opts, "line": l, "verdict": v, "profile": prof}, key=key)
            else:
                ctx.broken.append({"kind": "badline", "line": l[:200], "verdict": v[:200]})
        k = json.dumps([prog, opts])
        if nev >= 20 and k not in seen:
            seen.add(k)
            ctx.cov["distinct_nontrivial"] += 1
    ctx.cov["matched_comms_not_done"] = matched_not_done
    ctx.cov["rejections_by_key"] = keys
    ctx.cov["profiles"] = profs
    ctx.cov["samples"] = [" | ".join(c[0]) + " @ " + ",".join(c[1]) for c in cases[:4]]
    ctx.broken[:] = ctx.broken[:10]
