"""C01 — simulations are reproducible, regardless of the address-space layout.

Theorems: lean/SgVerif/C01/Props.lean (round model shared with C02: lean/SgVerif/Sched/Model.lean).
Ties to the code:
  (1) translator props/C01/inventory.py: inventory of address/hash-ordered containers of /repo/src/{kernel,s4u,plugins}
      and of their iteration sites -> lean/SgVerif/C01/Gen.lean, compared with lean/SgVerif/C01/accepted/Gen.lean;
  (2) implementation vs implementation: every program (corpus, then generated) runs under 7 layouts — ASLR on twice,
      `setarch -R`, heapshim.so with 4 seeds — and all observation logs must be byte-identical.  The monitor IS the
      property: a difference between two layouts is a violation; the replay is the program + the two layouts.
"""
import importlib.util
import json
import os
import subprocess
import sys
import zlib

from vlib.core import SplitMix

SHARED = os.path.join(os.path.dirname(os.path.abspath(__file__)), "..", "_shared", "sched")
sys.path.insert(0, os.path.abspath(SHARED))
import common  # noqa: E402
import gen  # noqa: E402


def _load(path, name):
    spec = importlib.util.spec_from_file_location(name, path)
    mod = importlib.util.module_from_spec(spec)
    spec.loader.exec_module(mod)
    return mod


def layouts(rng):
    seeds = []
    while len(seeds) < 4:
        s = rng.range(1, 10**6)
        if s not in seeds:
            seeds.append(s)
    return [("aslr", 1), ("aslr", 2), ("noaslr", 0)] + [("shim", s) for s in seeds]


def layout_cmd(lay, shim, have_setarch):
    kind, s = lay
    if kind == "shim":
        return (), {"LD_PRELOAD": shim, "HEAPSHIM_SEED": str(s)}
    if kind == "noaslr":
        return (tuple(have_setarch), {})
    return (), {}


def probe_setarch(ctx):
    """`setarch -R` when it works here, else the personality() wrapper built from noaslr.c"""
    for cmd in (["setarch", "-R"], ["setarch", os.uname().machine, "-R"]):
        try:
            if subprocess.run(cmd + ["true"], capture_output=True, timeout=20).returncode == 0:
                return cmd
        except (OSError, subprocess.TimeoutExpired):
            pass
    src = os.path.join(ctx.pdir, "noaslr.c")
    out = os.path.join(ctx.work, "noaslr")
    if common.cc_cached(ctx, src, out, ["gcc", "-O1", "-o", out, src]):
        return [out]
    return None


def run(ctx):
    ctx.cov["rule"] = ("programs drawn from splitmix64(VERIF_SEED) out of 11 motifs (props/_shared/sched/gen.py) + corpus; each "
                       "runs under 7 layouts; non-trivial = program whose log shows >= 3 actors and >= 2 dates at which "
                       "two or more actors log an event (simultaneous events are what an address-dependent order can permute)")
    ctx.assumptions += [
        "the heap shim permutes the order of the addresses of same-size allocations (checked on every run with toy.cpp and with the "
        "address ranks of the daemons of the corpus witness); layouts it cannot produce are not explored",
        "slice abstraction of the Lean model: between two simcalls an actor touches only its own state (the interpreter's programs "
        "share no unsynchronised memory by construction)",
        "the context-switch assembly, thread parking and the LMM solver are not modelled; reproducibility across compilers/libms is excluded",
    ]
    ctx.ensure_simgrid(["simgrid"])
    # ---- (1) translator + proofs
    inv = _load(os.path.join(ctx.pdir, "inventory.py"), "c01_inventory")
    inv_changed = inv.regenerate_and_compare(ctx)          # list of differing entries ([] = inventory as accepted)
    ctx.lean_prove()
    # ---- tools
    interp = common.build_interp(ctx)
    shim = common.cc_cached(ctx, os.path.join(ctx.pdir, "heapshim.c"), os.path.join(ctx.work, "heapshim.so"),
                            ["gcc", "-O2", "-fno-builtin", "-fPIC", "-shared", "-o", os.path.join(ctx.work, "heapshim.so"),
                             os.path.join(ctx.pdir, "heapshim.c")])
    toy = common.cc_cached(ctx, os.path.join(ctx.pdir, "toy.cpp"), os.path.join(ctx.work, "toy"),
                           ["g++", "-O1", "-o", os.path.join(ctx.work, "toy"), os.path.join(ctx.pdir, "toy.cpp")])
    noaslr = probe_setarch(ctx)
    if not (interp and shim and toy):
        return
    if noaslr is None:
        ctx.notes.append("setarch -R and personality(ADDR_NO_RANDOMIZE) both unavailable: the ASLR-off layout is skipped")
    ctx.cov["aslr_off_via"] = " ".join(noaslr) if noaslr else "unavailable"
    # ---- sanity of the shim: an address-ordered toy MUST change its order across seeds
    perms = set()
    for s in range(1, 9):
        p = subprocess.run([toy], capture_output=True, text=True, env=dict(os.environ, LD_PRELOAD=shim, HEAPSHIM_SEED=str(s)))
        perms.add(p.stdout.split("|")[0])
    ctx.cov["toy_distinct_orders_of_8_seeds"] = len(perms)
    if len(perms) < 3:
        ctx.broken.append({"kind": "shim-ineffective", "distinct_orders": len(perms)})

    rng = SplitMix(ctx.seed)
    n = 34 if ctx.tier == "quick" else 1000
    factories = [()]
    if ctx.tier == "thorough":
        factories = [("--cfg=contexts/factory:" + f,) for f in ("raw", "boost", "thread")]
    if ctx.broken or inv_changed:
        n *= 4          # search mode (proof / inventory / tool broke): bigger layout-perturbation budget
    cases = []
    if ctx.replay:
        c = json.load(open(ctx.replay))["case"]
        cases.append((c["name"], c["program"], [tuple(l) for l in c["layouts"]], tuple(c.get("args", ()))))
    else:
        for name, text in common.load_corpus(ctx.pdir):
            cases.append(("corpus:" + name, text, layouts(rng.fork(zlib.crc32(name.encode()) & 0xffff)), factories[0]))
        names = [m[0] for m in gen.MOTIFS]
        for i in range(n):
            r = rng.fork(1000 + i)
            force = names[i % len(names)] if i < 2 * len(names) else None     # every motif at least twice
            p = gen.generate(r, force)
            cases.append(("gen:%d:%d" % (ctx.seed, i), gen.text(p), layouts(r), factories[i % len(factories)]))

    stats = {"programs": 0, "runs": 0, "crash": 0, "hang": 0, "deadlock": 0, "motifs": {}, "factories": {}}
    nontrivial = 0

    def one(case):
        name, text, lays, args = case
        pf = common.write_prog(ctx, name.replace(":", "_").replace("/", "_"), text)
        outs = []
        for lay in lays:
            if lay[0] == "noaslr" and noaslr is None:
                continue
            prefix, env = layout_cmd(lay, shim, noaslr)
            extra = ("--addr-rank",) if name == "corpus:daemon-order-witness" else ()
            o, out = common.run_retry(ctx, interp, pf, prefix=prefix, env=env, args=tuple(args) + extra)
            outs.append((lay, o, out))
        return case, outs

    results = common.pmap(one, cases, workers=6)
    for (name, text, lays, args), outs in results:
        stats["programs"] += 1
        stats["runs"] += len(outs)
        ctx.cov["evaluations"] += len(outs)
        for mo in (text.split("\n")[0][10:].split() if text.startswith("# motifs:") else [name]):
            stats["motifs"][mo] = stats["motifs"].get(mo, 0) + 1
        stats["factories"][" ".join(args) or "default"] = stats["factories"].get(" ".join(args) or "default", 0) + 1
        ref_lay, ref_o, ref_out = outs[0]
        if ref_o == "HANG":
            stats["hang"] += 1
        elif ref_o != "ok":
            stats["crash"] += 1
            stats.setdefault("crash_cases", []).append([name, ref_o])
        if "sig deadlock" in ref_out:
            stats["deadlock"] += 1
        sim, nact = common.simultaneity(ref_out)
        if nact >= 3 and sim >= 2:
            nontrivial += 1
        ref = ref_o + "\n" + common.strip(ref_out)
        same = True
        for lay, o, out in outs[1:]:
            cur = o + "\n" + common.strip(out)
            if cur != ref:
                same = False
                d = common.first_diff(common.glines(ref_out), common.glines(out)) or common.first_diff(ref, cur)
                key = common.classify(ref_out, out, text) if (ref_o == "ok" and o == "ok") else common.classify_outcomes(ref_o, o, text)
                ctx.violation("observation logs differ between two address-space layouts %s and %s: %r vs %r" % (ref_lay, lay, d[1], d[2]),
                              {"name": name, "program": text, "layouts": [list(ref_lay), list(lay)], "args": list(args),
                               "first_difference": {"line": d[0], "a": d[1], "b": d[2]}, "outcomes": [ref_o, o]}, key=key)
                break
        if same:
            ctx.cov["traces_validated_against_impl"] += len(outs)
        if name == "corpus:daemon-order-witness":
            ranks = set(l for _, _, out in outs for l in out.split("\n") if l.startswith("R "))
            ctx.cov["daemon_witness_distinct_address_orders"] = len(ranks)
            if len(ranks) < 2:
                # the layouts no longer permute the daemons' addresses: the witness of the fixed defect would not be caught
                ctx.broken.append({"kind": "daemon-witness-not-perturbed", "ranks": sorted(ranks)})
        if len(ctx.cov["samples"]) < 4 and ref_out:
            ctx.cov["samples"].append({"name": name, "log_head": ref_out.split("\n")[:6]})
    ctx.cov["distinct_nontrivial"] = nontrivial
    ctx.cov["distribution"] = stats
    ctx.cov["layouts_per_program"] = 7 if noaslr else 6
