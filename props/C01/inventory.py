"""Translator for C01: inventory of the containers of /repo whose ITERATION ORDER can depend on addresses or hashes.

Scanned: src/kernel, src/s4u, src/plugins, include/simgrid/{s4u,kernel} (raw sources, regex).
An entry = one declared variable (member, static or local) whose type is
    std::set / std::map / std::multiset / std::multimap   with a POINTER-like key (T*, ...Ptr, pair of pointers)  -> order = addr
    std::unordered_set / unordered_map / boost::unordered_*                                                     -> order = hash-ptr | hash-str | hash-int
(a std::set/map with an explicit comparator is listed too, order = cmp:<comparator>).
For every entry: the sites where it is iterated (range-for over the variable or over an accessor returning it,
`x.begin()` / `x->begin()`, std::transform/copy over begin(x)), as `file:function-or-line`, with a normalised copy of the
loop header so that a CHANGED iteration site shows up as a changed entry.

Output: lean/SgVerif/C01/Gen.lean (data: `inventory : List Entry`).  `regenerate_and_compare(ctx)` rewrites it and
compares it with lean/SgVerif/C01/accepted/Gen.lean (the inventory the justifications in accepted/JUSTIFICATIONS.md and the
hypotheses of Props.lean were written against).  A difference is reported as a broken tie (ctx.broken) and makes check.py
run its layout-perturbation search with a bigger budget.
"""
import os
import re
import sys

sys.path.insert(0, os.path.dirname(os.path.dirname(os.path.dirname(os.path.abspath(__file__)))))
from vlib import core  # noqa: E402

DIRS = ["src/kernel", "src/s4u", "src/plugins", "include/simgrid/s4u", "include/simgrid/kernel"]
CONT = r"(?:std::(?:unordered_)?(?:multi)?(?:set|map)|boost::unordered_(?:multi)?(?:set|map))"
DECL_RE = re.compile(r"(?P<type>" + CONT + r"<)")


def balanced(s, i):
    """s[i-1] == '<': index just after the matching '>'"""
    depth = 1
    while i < len(s) and depth:
        c = s[i]
        if c == "<":
            depth += 1
        elif c == ">":
            depth -= 1
        elif c in ";{}" and depth:
            return -1
        i += 1
    return i if depth == 0 else -1


def split_args(a):
    out, depth, cur = [], 0, ""
    for c in a:
        if c in "<(":
            depth += 1
        elif c in ">)":
            depth -= 1
        if c == "," and depth == 0:
            out.append(cur.strip())
            cur = ""
        else:
            cur += c
    out.append(cur.strip())
    return out


def key_class(kind, args):
    key = args[0]
    unordered = "unordered" in kind
    ptr = key.endswith("*") or re.search(r"Ptr\b$", key) or ("pair<" in key and "*" in key)
    ncmp = 3 if "map" in kind else 2
    if not unordered:
        if not ptr:
            return None                         # value-ordered std::set/map: iteration order is a function of the values
        if len(args) >= ncmp:
            return "cmp:" + args[ncmp - 1]      # pointer keys under an explicit comparator (e.g. daemons_, by pid)
        return "addr"
    if ptr:
        return "hash-ptr"
    if "string" in key:
        return "hash-str"
    return "hash-int"


def strip_comments(src):
    src = re.sub(r"/\*.*?\*/", lambda m: re.sub(r"[^\n]", " ", m.group(0)), src, flags=re.S)
    return re.sub(r"//[^\n]*", "", src)


def scan(repo):
    files = []
    for d in DIRS:
        for root, _, names in os.walk(os.path.join(repo, d)):
            for n in sorted(names):
                if n.endswith((".cpp", ".hpp", ".h")) and not n.endswith("_test.cpp"):
                    files.append(os.path.join(root, n))
    files.sort()
    srcs = {f: strip_comments(open(f, errors="replace").read()) for f in files}
    entries = {}
    for f, src in srcs.items():
        rel = os.path.relpath(f, repo)
        for m in DECL_RE.finditer(src):
            end = balanced(src, m.end())
            if end < 0:
                continue
            args = split_args(src[m.end():end - 1])
            kind = m.group("type")[:-1]
            after = src[end:end + 160]
            # a declaration: `> name;` `> name =` `> name{` `> name(`-less; skip parameters, return types, using, casts
            dm = re.match(r"\s*(?:\*\s*)?([A-Za-z_]\w*)\s*(;|=|\{)", after)
            if not dm:
                continue
            name = dm.group(1)
            if name in ("const", "operator"):
                continue
            before = src[max(0, m.start() - 60):m.start()]
            if re.search(r"(using\s+\w+\s*=\s*|typedef\s+)(const\s+)?$", before):
                continue
            order = key_class(kind, args)
            if order is None:
                continue
            ptr_decl = bool(re.match(r"\s*\*", after))
            entries[(rel, name)] = {"file": rel, "var": name, "kind": kind + ("*" if ptr_decl else ""),
                                    "key": re.sub(r"\s+", " ", args[0]), "order": order, "sites": []}
    # accessors returning a listed member:  `... get_x() const { return var_; }`
    accessors = {}
    for f, src in srcs.items():
        for m in re.finditer(r"(\w+)\s*\(\s*\)\s*(?:const)?\s*\{\s*return\s+\*?\s*&?(\w+)\s*;\s*\}", src):
            for (rel, name) in entries:
                if name == m.group(2):
                    accessors.setdefault(m.group(1), set()).add((rel, name))
    # iteration sites
    for f, src in srcs.items():
        rel = os.path.relpath(f, repo)
        lines = src.split("\n")
        for ln, line in enumerate(lines, 1):
            hits = []
            fm = re.search(r"\bfor\s*\((.*):\s*(.+?)\)\s*(\{|$|[A-Za-z])", line)
            if fm:
                rng = fm.group(2)
                for (erel, name), e in entries.items():
                    if re.search(r"(?<![\w])" + re.escape(name) + r"$", rng.strip().lstrip("*")) and same_scope(erel, rel, name, src):
                        hits.append((erel, name))
                am = re.search(r"(\w+)\s*\(\s*\)$", rng.strip())
                if am and am.group(1) in accessors:
                    hits += list(accessors[am.group(1)])
            for bm in re.finditer(r"(?:std::)?begin\(\s*\*?(\w+)\s*\)|(\w+)\s*(?:\.|->)\s*c?r?begin\s*\(", line):
                nm = bm.group(1) or bm.group(2)
                for (erel, name), e in entries.items():
                    if name == nm and same_scope(erel, rel, name, src):
                        hits.append((erel, name))
            for h in set(hits):
                entries[h]["sites"].append("%s:%s: %s" % (rel, enclosing(lines, ln), re.sub(r"\s+", " ", line.strip())[:110]))
    return [entries[k] for k in sorted(entries)]


def same_scope(decl_file, use_file, name, use_src):
    """a use belongs to a declaration of the same file, of the header/source pair, or (members ending in `_`, statics)
    of a file that names the declaring header's class; cheap and conservative: same basename stem or the variable is
    declared nowhere else"""
    ds = os.path.splitext(os.path.basename(decl_file))[0].replace("s4u_", "")
    us = os.path.splitext(os.path.basename(use_file))[0].replace("s4u_", "")
    if ds == us:
        return True
    if decl_file.endswith((".hpp", ".h")) and name.endswith("_"):
        return True        # a member: may be used from any file through a friend / public field
    return False


def enclosing(lines, ln):
    for k in range(ln - 1, max(ln - 200, -1), -1):
        m = re.match(r"^[\w:<>\*&,\s~]*?([\w:~]+)\s*\([^;]*$", lines[k])
        if m and not lines[k].startswith((" ", "\t", "}")) and not re.match(r"\s*(if|for|while|switch|return)\b", lines[k]):
            return m.group(1)
    return "line"


def lean_str(s):
    return '"' + s.replace("\\", "\\\\").replace('"', '\\"') + '"'


def render(entries):
    out = ["/- GENERATED by props/C01/inventory.py from /repo — do not edit.",
           "   Inventory of containers whose iteration order can depend on addresses or hashes, with their iteration sites. -/",
           "namespace SgVerif.C01.Gen", "",
           "structure Entry where", "  file : String", "  var : String", "  kind : String", "  key : String",
           "  order : String   -- addr | hash-ptr | hash-str | hash-int | cmp:<comparator>",
           "  sites : List String   -- where it is iterated (file:function: loop header)",
           "  deriving Repr, DecidableEq", "",
           "def inventory : List Entry := ["]
    rows = []
    for e in entries:
        rows.append("  { file := %s, var := %s, kind := %s, key := %s, order := %s,\n    sites := [%s] }" % (
            lean_str(e["file"]), lean_str(e["var"]), lean_str(e["kind"]), lean_str(e["key"]), lean_str(e["order"]),
            ",\n      ".join(lean_str(s) for s in e["sites"])))
    out.append(",\n".join(rows))
    out += ["]", "",
            "/-- entries whose order depends on ADDRESSES and that are iterated somewhere: each needs an order-insensitivity",
            "    justification (accepted/JUSTIFICATIONS.md) matching a hypothesis of `run_addr_indep` -/",
            "def addrIterated : List Entry :=",
            "  inventory.filter fun e => (e.order == \"addr\" || e.order == \"hash-ptr\") && !e.sites.isEmpty", "",
            "end SgVerif.C01.Gen", ""]
    return "\n".join(out)


def parse_entries(text):
    """(file,var) -> (order, kind, key, tuple(sites)) from a rendered Gen.lean"""
    res = {}
    for m in re.finditer(r'\{ file := "((?:[^"\\]|\\.)*)", var := "((?:[^"\\]|\\.)*)", kind := "((?:[^"\\]|\\.)*)", key := "((?:[^"\\]|\\.)*)", '
                         r'order := "((?:[^"\\]|\\.)*)",\s*sites := \[(.*?)\] \}', text, re.S):
        sites = tuple(re.findall(r'"((?:[^"\\]|\\.)*)"', m.group(6)))
        res[(m.group(1), m.group(2))] = (m.group(5), m.group(3), m.group(4), sites)
    return res


def regenerate_and_compare(ctx):
    entries = scan(core.REPO)
    text = render(entries)
    gen_path = os.path.join(core.LEAN, "SgVerif", "C01", "Gen.lean")
    acc_path = os.path.join(core.LEAN, "SgVerif", "C01", "accepted", "Gen.lean")
    old = open(gen_path).read() if os.path.exists(gen_path) else None
    if old != text:
        with open(gen_path, "w") as fh:
            fh.write(text)
    ctx.cov["inventory_entries"] = len(entries)
    ctx.cov["inventory_addr_iterated"] = sorted("%s:%s" % (e["file"], e["var"]) for e in entries
                                                if e["order"] in ("addr", "hash-ptr") and e["sites"])
    if not os.path.exists(acc_path):
        ctx.broken.append({"kind": "inventory", "error": "no accepted inventory at " + acc_path})
        return ["<no accepted inventory>"]
    cur, acc = parse_entries(text), parse_entries(open(acc_path).read())
    diffs = []
    for k in sorted(set(cur) | set(acc)):
        if k not in acc:
            diffs.append({"entry": "%s:%s" % k, "change": "NEW container", "order": cur[k][0], "iterated_at": list(cur[k][3])})
        elif k not in cur:
            diffs.append({"entry": "%s:%s" % k, "change": "removed"})
        elif cur[k] != acc[k]:
            diffs.append({"entry": "%s:%s" % k, "change": "changed", "was": list(acc[k]), "now": list(cur[k])})
    # only differences that can matter break the tie: an address/hash-of-pointer ordered container that is iterated, or any
    # change of an iteration site of such a container; string/int-hashed containers and never-iterated ones are recorded only
    def matters(d):
        k = tuple(d["entry"].split(":", 1))
        now = cur.get(k)
        # serious = as the code is NOW, the container is address / pointer-hash ordered and iterated, and that is not what
        # was accepted.  An entry that disappeared or moved under a comparator (e.g. after proposed_fix.diff) is recorded only.
        return bool(now and now[0] in ("addr", "hash-ptr") and now[3] and acc.get(k) != now)
    serious = [d for d in diffs if matters(d)]
    if diffs:
        ctx.cov["inventory_differences"] = diffs[:20]
    if serious:
        ctx.broken.append({"kind": "inventory", "error": "the inventory of address/hash-ordered containers differs from the accepted one",
                           "entries": serious[:20]})
    return serious


if __name__ == "__main__":
    import sys
    es = scan(sys.argv[1] if len(sys.argv) > 1 else "/repo")
    print(render(es))
