/* heapshim.so — LD_PRELOAD allocator shim that perturbs the heap LAYOUT (C01).
 *
 *   HEAPSHIM_SEED=<n>  (0 or unset: pass-through)
 *
 * For every seed the relative position AND THE ORDER of the addresses handed to the program change:
 *   - every small request (<= 2048 bytes) is served from a per-size-class pool of spare blocks: the pool is first topped
 *     up to a random level with fresh blocks from the real allocator, then a RANDOM pool entry is returned.  Two
 *     consecutive `new T` therefore get addresses in random relative order (what an address-ordered std::set or a
 *     pointer hash iterates by);
 *   - every block gets 0..3 x 16 bytes of random tail padding (changes distances and which bin glibc uses);
 *   - free() puts a small block back into the pool with probability 1/2 (randomised reuse order) or gives it back to
 *     glibc; when the pool is full a random victim is evicted to glibc;
 *   - large requests get random tail padding only.
 * A 16-byte header before each block we hand out stores (magic ^ address, size class); blocks that do not carry it
 * (aligned allocations, blocks allocated before the shim was active) go straight to the real functions.
 * The real allocator is reached through glibc's __libc_* entry points: no dlsym, no bootstrap allocation problem.
 * A global spin lock makes the shim usable from worker threads / thread contexts.
 */
#define _GNU_SOURCE
#include <errno.h>
#include <stdatomic.h>
#include <stddef.h>
#include <stdint.h>
#include <stdlib.h>
#include <string.h>

extern void* __libc_malloc(size_t);
extern void __libc_free(void*);
extern void* __libc_calloc(size_t, size_t);
extern void* __libc_realloc(void*, size_t);
extern void* __libc_memalign(size_t, size_t);
extern size_t malloc_usable_size(void*);

#define HDR 16
#define MAGIC 0x9E3779B97F4A7C15ull
#define NCLASS 128 /* classes of 16 bytes: 16 .. 2048 */
#define POOL 12
#define BIG 0xffffu

struct hdr {
  uint64_t magic; /* MAGIC ^ user address */
  uint32_t cls;   /* size class, BIG for large blocks */
  uint32_t size;  /* usable size promised to the user (small blocks: the class size) */
};

static int g_state = 0; /* 0 not initialised, 1 active, 2 pass-through */
static uint64_t g_rng;
static atomic_flag g_lock = ATOMIC_FLAG_INIT;
static void* g_pool[NCLASS][POOL];
static unsigned char g_fill[NCLASS];

static void lock(void)
{
  while (atomic_flag_test_and_set_explicit(&g_lock, memory_order_acquire))
    ;
}
static void unlock(void)
{
  atomic_flag_clear_explicit(&g_lock, memory_order_release);
}

static uint64_t rnd(void)
{ /* splitmix64 */
  uint64_t z = (g_rng += 0x9E3779B97F4A7C15ull);
  z          = (z ^ (z >> 30)) * 0xBF58476D1CE4E5B9ull;
  z          = (z ^ (z >> 27)) * 0x94D049BB133111EBull;
  return z ^ (z >> 31);
}

static void init(void)
{
  const char* s = getenv("HEAPSHIM_SEED");
  uint64_t seed = s ? strtoull(s, NULL, 10) : 0;
  if (seed == 0) {
    g_state = 2;
    return;
  }
  g_rng   = seed * 0x2545F4914F6CDD1Dull + 1;
  g_state = 1;
}

static inline struct hdr* hdr_of(void* p)
{
  return (struct hdr*)((char*)p - HDR);
}
static inline int ours(void* p)
{
  return ((uintptr_t)p & 15) == 0 && hdr_of(p)->magic == (MAGIC ^ (uint64_t)(uintptr_t)p);
}

/* a fresh block of class c (user size (c+1)*16), header filled */
static void* fresh_small(unsigned c)
{
  size_t usz = (size_t)(c + 1) * 16;
  size_t pad = (rnd() & 3) * 16;
  char* raw  = __libc_malloc(HDR + usz + pad);
  if (!raw)
    return NULL;
  void* p          = raw + HDR;
  hdr_of(p)->magic = MAGIC ^ (uint64_t)(uintptr_t)p;
  hdr_of(p)->cls   = c;
  hdr_of(p)->size  = (uint32_t)usz;
  return p;
}

static void* shim_malloc(size_t n)
{
  if (n == 0)
    n = 1;
  if (n > NCLASS * 16) {
    size_t pad = (rnd() & 7) * 16;
    if (n > (size_t)0xfffffff0u) /* size does not fit the header: leave it alone */
      return __libc_malloc(n);
    char* raw = __libc_malloc(HDR + n + pad);
    if (!raw)
      return NULL;
    void* p          = raw + HDR;
    hdr_of(p)->magic = MAGIC ^ (uint64_t)(uintptr_t)p;
    hdr_of(p)->cls   = BIG;
    hdr_of(p)->size  = (uint32_t)n;
    return p;
  }
  unsigned c = (unsigned)((n - 1) / 16);
  /* top the pool up to a random level (at least one entry), then hand out a random entry */
  unsigned want = 1 + (unsigned)(rnd() % (POOL / 2));
  while (g_fill[c] < want) {
    void* f = fresh_small(c);
    if (!f)
      break;
    g_pool[c][g_fill[c]++] = f;
  }
  if (g_fill[c] == 0)
    return NULL;
  unsigned k    = (unsigned)(rnd() % g_fill[c]);
  void* p       = g_pool[c][k];
  g_pool[c][k]  = g_pool[c][--g_fill[c]];
  return p;
}

static void shim_free(void* p)
{
  struct hdr* h = hdr_of(p);
  if (h->cls == BIG) {
    h->magic = 0;
    __libc_free(h);
    return;
  }
  unsigned c = h->cls;
  if (rnd() & 1) { /* keep it for a later (random) reuse */
    if (g_fill[c] == POOL) {
      unsigned k   = (unsigned)(rnd() % POOL);
      void* victim = g_pool[c][k];
      g_pool[c][k] = p;
      hdr_of(victim)->magic = 0;
      __libc_free(hdr_of(victim));
    } else
      g_pool[c][g_fill[c]++] = p;
    return;
  }
  h->magic = 0;
  __libc_free(h);
}

/* NB: calloc/realloc below call do_malloc, never `malloc`: gcc rewrites malloc+memset into a calloc call, which would
 * recurse for ever inside our own calloc (build with -fno-builtin as well). */
static void* do_malloc(size_t n)
{
  if (g_state == 0) {
    lock();
    if (g_state == 0)
      init();
    unlock();
  }
  if (g_state == 2)
    return __libc_malloc(n);
  lock();
  void* p = shim_malloc(n);
  unlock();
  if (!p)
    errno = ENOMEM;
  return p;
}
void* malloc(size_t n)
{
  return do_malloc(n);
}

void free(void* p)
{
  if (!p)
    return;
  if (g_state != 1 || !ours(p)) {
    __libc_free(p);
    return;
  }
  lock();
  shim_free(p);
  unlock();
}

void* calloc(size_t a, size_t b)
{
  if (g_state == 0) {
    lock();
    if (g_state == 0)
      init();
    unlock();
  }
  if (g_state == 2)
    return __libc_calloc(a, b);
  size_t n;
  if (__builtin_mul_overflow(a, b, &n)) {
    errno = ENOMEM;
    return NULL;
  }
  void* p = do_malloc(n);
  if (p)
    memset(p, 0, n); /* pool blocks may be recycled: always clear */
  return p;
}

void* realloc(void* p, size_t n)
{
  if (!p)
    return do_malloc(n);
  if (g_state != 1 || !ours(p))
    return __libc_realloc(p, n);
  if (n == 0) {
    free(p);
    return NULL;
  }
  size_t old = hdr_of(p)->size;
  if (n <= old && hdr_of(p)->cls != BIG)
    return p; /* still fits its class */
  void* q = do_malloc(n);
  if (!q)
    return NULL;
  memcpy(q, p, old < n ? old : n);
  free(p);
  return q;
}

/* aligned allocations: no header (it would break the alignment); random tail padding only.  free() recognises them
 * by the missing magic (the 16 bytes before them are glibc's chunk header, which never equals MAGIC ^ address). */
static size_t tailpad(void)
{
  if (g_state != 1)
    return 0;
  lock();
  size_t pad = (rnd() & 7) * 16;
  unlock();
  return pad;
}
void* memalign(size_t al, size_t n)
{
  if (g_state == 0)
    free(do_malloc(1));
  return __libc_memalign(al, n + tailpad());
}
void* aligned_alloc(size_t al, size_t n)
{
  return memalign(al, n);
}
int posix_memalign(void** out, size_t al, size_t n)
{
  if (al < sizeof(void*) || (al & (al - 1)))
    return EINVAL;
  void* p = memalign(al, n);
  if (!p)
    return ENOMEM;
  *out = p;
  return 0;
}
void* valloc(size_t n)
{
  return memalign(4096, n);
}
void* pvalloc(size_t n)
{
  return memalign(4096, (n + 4095) & ~(size_t)4095);
}

size_t malloc_usable_size(void* p)
{
  if (!p)
    return 0;
  if (g_state == 1 && ours(p))
    return hdr_of(p)->size;
  /* glibc's implementation reads the chunk header at p-16: reproduce it (chunk size minus header, flags masked) */
  size_t sz = ((size_t*)p)[-1];
  if (sz & 2) /* mmapped chunk */
    return (sz & ~(size_t)7) - 2 * sizeof(size_t);
  return (sz & ~(size_t)7) - sizeof(size_t);
}
