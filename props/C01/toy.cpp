// Sanity check of heapshim.so: a deliberately address-ordered toy.  Eight objects are allocated one by one and put in a
// std::set<int*> (ordered by address); the program prints the creation indices in iteration order.  Under a working
// shim the printed permutation changes with HEAPSHIM_SEED; check.py requires at least 3 distinct permutations over its
// seeds, otherwise the layout perturbation is reported as ineffective (machinery broken, not "property holds").
#include <cstdio>
#include <set>
#include <unordered_set>
#include <vector>
struct Obj {
  int id;
  char pad[200];
};
int main()
{
  std::set<Obj*> s;
  std::vector<Obj*> junk;
  for (int i = 0; i < 8; i++) {
    s.insert(new Obj{i, {}});
    if (i % 3 == 0) {
      junk.push_back(new Obj{100 + i, {}}); // some churn of the same size class in between
      delete junk.back();
      junk.pop_back();
    }
  }
  printf("set");
  for (auto* o : s)
    printf(" %d", o->id);
  std::unordered_set<Obj*> u(s.begin(), s.end());
  printf(" | hash");
  for (auto* o : u)
    printf(" %d", o->id);
  printf("\n");
  for (auto* o : s)
    delete o;
  return 0;
}
