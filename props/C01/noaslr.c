/* fallback for `setarch -R`: run a command with address-space randomisation disabled */
#include <stdio.h>
#include <sys/personality.h>
#include <unistd.h>
int main(int argc, char** argv)
{
  if (argc < 2)
    return 2;
  int old = personality(0xffffffff);
  if (old == -1 || personality(old | ADDR_NO_RANDOMIZE) == -1) {
    perror("personality");
    return 126;
  }
  execvp(argv[1], argv + 1);
  perror("execvp");
  return 127;
}
