"""C08 — mailbox communications are exactly-once, FIFO among accepted, and intact.
Theorems: lean/SgVerif/C08/Props.lean (all histories of isend/irecv/set_receiver/cancel/finish/clear on a MailboxImpl
model).  Tie: trace acceptance — generated actor programs run on the real library through Mailbox/Comm
(props/_shared/msg/harness.cpp; match functions through the kernel calls SMPI uses); the Lean driver replays the
observed kernel calls on the model, accepts only payloads/sizes the model matched, compares the final queues, and
evaluates the monitors (exactly-once, intact, FIFO among accepted) on the log alone."""
import json
import os
import sys

sys.path.insert(0, os.path.join(os.path.dirname(os.path.abspath(__file__)), "..", "_shared", "msg"))
import common  # noqa: E402
from vlib.core import SplitMix  # noqa: E402

KEY_D7 = "permanent-receiver-skips-comm-queue"
KEY_PROBE = "iprobe-resets-mbox-of-queued-comm"
SIZES = [0, 1, 100, 1000, 65536, 1000000, 31415926]
RATES = ["-1", "-1", "-1", "1e5", "1e3", "5e6"]


def gen_filter(rng, style, nact):
    if style in (2, 5) and rng.chance(2, 3) or rng.chance(1, 8):
        k = rng.below(6)
        if k == 0:
            return "a"
        if k == 1:
            return "s%d" % rng.below(nact)
        if k == 2:
            return "p%d" % rng.below(2)
        if k == 3:
            return "t%d" % rng.range(1, 3)
        if k == 4:
            return "i%d" % (rng.below(nact) * 1000 + rng.range(0, 3))
        return "a"
    return "n"


def gen_program(rng, idx):
    dur = common.Durations()
    nact = rng.choice([2, 3, 3, 4, 4, 5, 6])
    nmb = rng.choice([1, 1, 2, 3])
    style = rng.below(6)   # 0 blocking, 1 async, 2 selective match functions, 3 permanent receiver, 4 cancel/detach, 5 all
    hid = [0]
    hosts = [rng.below(nact) if rng.chance(1, 4) else a for a in range(nact)]
    hosts = [sorted(set(hosts)).index(h) for h in hosts]
    actors = []
    for a in range(nact):
        ops = []
        mine = []
        n = rng.range(1, 7)
        if style in (3, 5) and rng.chance(1, 3):
            if rng.chance(1, 2):
                ops.append("sleep %s" % dur.make(rng.below(3)))
            ops.append("setrecv %d s" % rng.below(nmb))
            if rng.chance(2, 3):
                ops.append("sleep %s" % dur.make(rng.range(1, 4)))
        for _ in range(n):
            m = rng.below(nmb)
            w = {"put": 3, "get": 3, "puta": 3, "geta": 3, "putd": 1, "wait": 3, "test": 2, "cancel": 1, "sleep": 3,
                 "setrecv": 0, "probe": 0, "clear": 0}
            if style == 0:
                w.update(put=8, get=8)
            elif style == 1:
                w.update(puta=8, geta=8, wait=6, test=4)
            elif style == 2:
                w.update(puta=6, get=6, geta=4, probe=2)
            elif style == 3:
                w.update(setrecv=2, puta=5, putd=3, get=6, sleep=5)
            elif style == 4:
                w.update(cancel=6, putd=5, puta=5, geta=5, clear=1)
            else:
                w.update(setrecv=1, probe=1, clear=1)
            if not mine:
                for k in ("wait", "test", "cancel"):
                    w[k] = 0
            k = rng.choice([k for k, v in w.items() for _ in range(v)])
            f = gen_filter(rng, style, nact)
            tag = rng.below(4)
            if k == "sleep":
                ops.append("sleep %s" % dur.make(rng.below(3)))
            elif k in ("put", "puta", "putd"):
                hid[0] += 1
                ops.append("%s %d %d %d %s %s %d" % (k, m, hid[0], rng.choice(SIZES), rng.choice(RATES), f, tag))
                if k == "puta":
                    mine.append(hid[0])
            elif k in ("get", "geta"):
                hid[0] += 1
                ops.append("%s %d %d %s %s %d" % (k, m, hid[0], rng.choice(RATES), f, tag))
                if k == "geta":
                    mine.append(hid[0])
            elif k == "setrecv":
                ops.append("setrecv %d %s" % (m, "s" if rng.chance(3, 4) else "n"))
            elif k == "probe":
                ops.append("probe %d %s %d" % (m, f if f != "n" else "a", tag))
            elif k == "clear":
                ops.append("clear %d" % m)
            else:
                h = rng.choice(mine)
                ops.append("%s %d" % (k, h))
                if k in ("wait", "cancel"):
                    mine.remove(h)
        if rng.chance(1, 2):
            for h in mine:
                ops.append("wait %d" % h)
        actors.append((hosts[a], ops))
    if rng.chance(3, 4):
        for m in range(nmb):
            toks = [op.split() for _, ops in actors for op in ops]
            nput = sum(1 for t in toks if t[0] in ("put", "puta", "putd") and int(t[1]) == m)
            nget = sum(1 for t in toks if t[0] in ("get", "geta") and int(t[1]) == m)
            who = rng.below(len(actors))
            for _ in range(nget - nput):
                hid[0] += 1
                actors[who][1].append("putd %d %d %d -1 n 0" % (m, hid[0], rng.choice(SIZES)))
            for _ in range(nput - nget):
                hid[0] += 1
                actors[who][1].append("get %d %d -1 n 0" % (m, hid[0]))
    bw = rng.choice(["1e6", "1e8", "125e6"])
    lat = rng.choice(["1e-3", "1e-5", "0"])
    return common.program_line(idx, actors, bw, lat)


def classify(res, verdict):
    fifo = ("older send accepted by both" in verdict or "left unmatched" in verdict or "older receive accepted" in verdict)
    if fifo and " setrecv " in res["program"]:
        return KEY_D7
    if "whose mbox_ was reset by an iprobe" in verdict:
        return KEY_PROBE
    return None


def run(ctx):
    ctx.cov["rule"] = ("programs of 2..6 actors on generated platforms (hosts shared or not, 3 bandwidths x 3 latencies) over 1..3 "
                       "mailboxes (put/put_async/put_init+detach/get/get_async/wait/test/cancel/set_receiver/iprobe/clear, match "
                       "functions from a 6-form grammar, sizes 0..3e7, rates) drawn from splitmix64(VERIF_SEED) in 6 styles; "
                       "non-trivial = distinct program in which at least one payload was delivered")
    ctx.assumptions += [
        "with one worker thread the order of the harness's `c` lines in a scheduling round is the order in which maestro "
        "handles the simcalls (mailboxes are resolved from maestro; actors cancel what they leave open through cancel())",
        "mailboxes are independent objects: the model is one MailboxImpl, the driver keeps one model per mailbox",
        "dates are not compared: completion of a matched comm is read off the log; a comm cancelled in flight may have "
        "completed or failed (both accepted)",
        "match functions range over a closed grammar on the other side's match data (as SMPI's do)",
    ]
    ctx.ensure_simgrid(["simgrid"])
    ctx.lean_prove()
    drv = ctx.lean_exe()
    h = common.build(ctx)
    if not (drv and h):
        return
    n = 160 if ctx.tier == "quick" else 1500
    if ctx.broken:
        n *= 10
    corpus = [l.strip() for l in open(ctx.pdir + "/corpus.txt") if l.strip() and not l.startswith("#")]
    if ctx.replay:
        programs = [json.load(open(ctx.replay))["case"]["program"]]
    else:
        rng = SplitMix(ctx.seed)
        programs = corpus + [gen_program(rng.fork(i), i + 1) for i in range(n)]
    res = common.execute(ctx, h, drv, programs)
    if res is None:
        return
    seen = set()
    stats = {}

    def bump(k, v=1):
        stats[k] = stats.get(k, 0) + v
    for r in res:
        ctx.cov["evaluations"] += 1
        log = r["log"]
        delivered = sum(1 for l in log if (l.startswith("r ") and ("=> ok " in l or "=> true " in l) and "none" not in l) or
                        (l.startswith("late ") and not l.endswith("none")))
        bump("delivered", delivered)
        bump("deadlock" if log[-1].startswith("end => deadlock") else "completed")
        for l in log:
            if l.startswith("c "):
                t = l.split()
                bump("op_" + t[2])
                if t[2] in ("put", "puta", "putd") and t[7] != "n" or t[2] in ("get", "geta") and t[6] != "n":
                    bump("ops_with_match_function")
            elif l.startswith("r "):
                if " test " in l:
                    bump("test_true" if "=> true" in l else "test_false")
                if "=> exc" in l:
                    bump("exceptions")
            elif l.startswith("dump mb") and "| d S" in l:
                bump("final_done_queue_nonempty")
        if delivered and r["program"].split("|", 1)[1] not in seen:
            seen.add(r["program"].split("|", 1)[1])
            ctx.cov["distinct_nontrivial"] += 1
        if not r["bad"]:
            ctx.cov["traces_validated_against_impl"] += 1
            continue
        mon = [(l, v) for l, v in r["bad"] if v.startswith("MONFAIL")]
        case = {"program": r["program"], "log": log, "verdicts": [v for _, v in r["bad"]]}
        if mon:
            key = classify(r, mon[0][1])
            if key:
                bump("witnesses_" + key)
            ctx.violation(mon[0][1], case, key=key)
        else:
            ctx.broken.append({"kind": "correspondence", "program": r["program"], "first": r["bad"][0]})
    ctx.cov["samples"] = [r["program"] for r in res[:2] + res[len(corpus):len(corpus) + 3]]
    ctx.cov["distribution"] = stats
