/* C35 end-to-end harness (smpicxx, run under smpirun -np 2): messages between partially shared buffers in the three send
 * modes, after HISTORIES of shared allocations and frees on each side (the layout of a buffer is found by smpi_is_shared in
 * the table allocs_metadata, which is filled / emptied by SMPI_PARTIAL_SHARED_MALLOC / SMPI_SHARED_FREE).
 * script line:  <mode e|b|r> <nopsS> <op>* <nopsR> <op>* <slotS> <offS> <slotR> <offR> <nSend> <nRecv> <nsamp> <x>*
 *   op = M <slot> <size> <nsh> (<b> <e>)*    allocate into <slot>: SMPI_PARTIAL_SHARED_MALLOC(size, shared blocks) — nsh = 0: plain malloc
 *      | F <slot>                            SMPI_SHARED_FREE (plain: free)
 *   e = MPI_Send (eager when nSend < smpi/send-is-detached-thresh), b = MPI_Bsend (detached), r = MPI_Ssend (rendezvous)
 * rank 0 runs its operations (no MPI call in between: the other rank does not run), then rank 1 runs its own; both fill the
 * slot used for the message; the message is bytes [offS, offS + nSend) of rank 0's slot <slotS>, received into
 * [offR, offR + nRecv) of rank 1's slot <slotR>; then every live slot is freed.
 * output, in execution order (both ranks live in one process), prefixed with the case number:
 *   AM <case> <rank> <addr> <size> <nsh> (<b> <e>)*     a shared allocation returned <addr> (an INPUT of the model: the kernel chooses)
 *   AF <case> <rank> <addr>                            SMPI_SHARED_FREE(addr) of a shared allocation
 *   AP <case> <rank> <ptr> <answer>                    smpi_is_shared(ptr): -1 | offset b e b e …  (probes around every range this rank used)
 *   S <case> <ptr> <answer>   V <case> <src byte at each sample>       the send buffer
 *   D <case> <ptr> <answer>   B <case> <dst bytes before>   A <case> <dst bytes after>                                   */
#include <mpi.h>
#include <smpi/smpi.h>
#include <cstdint>
#include <cstdio>
#include <cstdlib>
#include <cstring>
#include <sstream>
#include <string>
#include <utility>
#include <vector>

int smpi_is_shared(const void* ptr, std::vector<std::pair<size_t, size_t>>& private_blocks, size_t* offset);

static void answer(const void* p)
{
  std::vector<std::pair<size_t, size_t>> pb;
  size_t off = 0;
  if (smpi_is_shared(p, pb, &off)) {
    printf(" %zu", off);
    for (auto const& [b, e] : pb)
      printf(" %zu %zu", b, e);
  } else
    printf(" -1");
  printf("\n");
}

struct Op {
  char kind;
  int slot;
  size_t size;
  std::vector<size_t> sh;
};
struct Slot {
  unsigned char* p = nullptr;
  size_t size      = 0;
  bool shared      = false;
  bool live        = false;
};

static std::vector<Op> read_ops(std::istringstream& in)
{
  int n;
  in >> n;
  std::vector<Op> ops(n);
  for (auto& o : ops) {
    in >> o.kind >> o.slot;
    if (o.kind == 'M') {
      int nsh;
      in >> o.size >> nsh;
      o.sh.resize(2 * nsh);
      for (auto& v : o.sh)
        in >> v;
    }
  }
  return ops;
}

int main(int argc, char** argv)
{
  MPI_Init(&argc, &argv);
  int rank;
  MPI_Comm_rank(MPI_COMM_WORLD, &rank);
  FILE* f = argc > 1 ? fopen(argv[1], "r") : nullptr;
  if (!f)
    return 3;
  static char bsendbuf[1 << 21];
  MPI_Buffer_attach(bsendbuf, sizeof bsendbuf);
  char* line = (char*)malloc(1 << 16);
  int c      = 0;
  while (fgets(line, 1 << 16, f)) {
    std::istringstream in(line);
    std::string mode;
    if (!(in >> mode))
      continue;
    std::vector<Op> ops[2];
    ops[0] = read_ops(in);
    ops[1] = read_ops(in);
    int slotS, slotR, nsamp;
    size_t offS, offR, nSend, nRecv;
    in >> slotS >> offS >> slotR >> offR >> nSend >> nRecv >> nsamp;
    std::vector<size_t> xs(nsamp);
    for (auto& v : xs)
      in >> v;
    std::vector<Slot> slots(8);
    std::vector<std::pair<uintptr_t, size_t>> ranges; // every shared range this rank obtained in this case (live or freed)
    auto probes = [&]() {
      for (auto const& [base, size] : ranges)
        for (uintptr_t p : {base - 1, base, base + 1, base + size / 2, base + size - 1, base + size}) {
          printf("AP %d %d %zu", c, rank, (size_t)p);
          answer((const void*)p);
        }
    };
    auto release = [&](Slot& s) {
      if (s.shared) {
        printf("AF %d %d %zu\n", c, rank, (size_t)(uintptr_t)s.p);
        SMPI_SHARED_FREE(s.p);
      } else
        free(s.p);
      s.live = false;
    };
    for (int turn = 0; turn < 2; turn++) {
      MPI_Barrier(MPI_COMM_WORLD);
      if (turn != rank)
        continue;
      for (auto& o : ops[rank]) {
        Slot& s = slots[o.slot];
        if (o.kind == 'M') {
          s.size   = o.size;
          s.shared = not o.sh.empty();
          s.live   = true;
          if (s.shared) {
            s.p = (unsigned char*)SMPI_PARTIAL_SHARED_MALLOC(o.size, o.sh.data(), (int)(o.sh.size() / 2));
            printf("AM %d %d %zu %zu %zu", c, rank, (size_t)(uintptr_t)s.p, o.size, o.sh.size() / 2);
            for (size_t v : o.sh)
              printf(" %zu", v);
            printf("\n");
            ranges.emplace_back((uintptr_t)s.p, o.size);
          } else
            s.p = (unsigned char*)malloc(o.size);
        } else if (s.live)
          release(s);
        probes();
      }
      fflush(stdout);
    }
    unsigned char* buf = slots[rank == 0 ? slotS : slotR].p;
    size_t bsize       = slots[rank == 0 ? slotS : slotR].size;
    for (size_t i = 0; i < bsize; i++)
      buf[i] = rank == 0 ? (unsigned char)(i * 7 + 13 + c) : (unsigned char)(i * 5 + 101 + c);
    MPI_Barrier(MPI_COMM_WORLD);
    if (rank == 0) {
      printf("S %d %zu", c, (size_t)(uintptr_t)(buf + offS));
      answer(buf + offS);
      printf("V %d", c);
      for (size_t x : xs)
        printf(" %d", x < nSend ? buf[offS + x] : 0);
      printf("\n");
    } else {
      printf("D %d %zu", c, (size_t)(uintptr_t)(buf + offR));
      answer(buf + offR);
      printf("B %d", c);
      for (size_t x : xs)
        printf(" %d", buf[offR + x]);
      printf("\n");
    }
    fflush(stdout);
    MPI_Barrier(MPI_COMM_WORLD);
    if (rank == 0) {
      if (mode == "e")
        MPI_Send(buf + offS, (int)nSend, MPI_BYTE, 1, c, MPI_COMM_WORLD);
      else if (mode == "b")
        MPI_Bsend(buf + offS, (int)nSend, MPI_BYTE, 1, c, MPI_COMM_WORLD);
      else
        MPI_Ssend(buf + offS, (int)nSend, MPI_BYTE, 1, c, MPI_COMM_WORLD);
    } else {
      MPI_Recv(buf + offR, (int)nRecv, MPI_BYTE, 0, c, MPI_COMM_WORLD, MPI_STATUS_IGNORE);
      printf("A %d", c);
      for (size_t x : xs)
        printf(" %d", buf[offR + x]);
      printf("\n");
      fflush(stdout);
    }
    for (int turn = 0; turn < 2; turn++) {
      MPI_Barrier(MPI_COMM_WORLD);
      if (turn != rank)
        continue;
      for (auto& s : slots)
        if (s.live)
          release(s);
      probes();
      fflush(stdout);
    }
    MPI_Barrier(MPI_COMM_WORLD);
    c++;
  }
  fclose(f);
  int sz;
  void* bb;
  MPI_Buffer_detach(&bb, &sz);
  MPI_Finalize();
  return 0;
}
