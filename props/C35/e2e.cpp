/* C35 end-to-end harness (smpicxx, run under smpirun -np 2): messages between partially shared buffers in the three send modes.
 * script line:  <mode e|b|r> <sizeS> <nshS> (<b> <e>)* <offS> <sizeR> <nshR> (<b> <e>)* <offR> <nSend> <nRecv> <nsamp> <x>*
 *   e = MPI_Send (eager when nSend < smpi/send-is-detached-thresh), b = MPI_Bsend (detached), r = MPI_Ssend (rendezvous)
 * rank 0 allocates the send buffer with SMPI_PARTIAL_SHARED_MALLOC(sizeS, shared blocks), rank 1 the receive buffer; both fill
 * them (an allocation without shared block is plain malloc: ordinary memory); the message is bytes [offS, offS + nSend) of the first, received into [offR, offR + nRecv) of the second.
 * output (one line per item, prefixed with the case number):
 *   S <case> <what smpi_is_shared says about the send buffer: -1 | offset b e b e …>   V <case> <src byte at each sample>
 *   D <case> <same for the receive buffer>   B <case> <dst bytes before>   A <case> <dst bytes after>                      */
#include <mpi.h>
#include <smpi/smpi.h>
#include <cstdio>
#include <cstdlib>
#include <cstring>
#include <sstream>
#include <string>
#include <utility>
#include <vector>

int smpi_is_shared(const void* ptr, std::vector<std::pair<size_t, size_t>>& private_blocks, size_t* offset);

static void describe(const char* tag, int c, const void* p)
{
  std::vector<std::pair<size_t, size_t>> pb;
  size_t off = 0;
  if (smpi_is_shared(p, pb, &off)) {
    printf("%s %d %zu", tag, c, off);
    for (auto const& [b, e] : pb)
      printf(" %zu %zu", b, e);
    printf("\n");
  } else
    printf("%s %d -1\n", tag, c);
}

int main(int argc, char** argv)
{
  MPI_Init(&argc, &argv);
  int rank;
  MPI_Comm_rank(MPI_COMM_WORLD, &rank);
  FILE* f = argc > 1 ? fopen(argv[1], "r") : nullptr;
  if (!f)
    return 3;
  static char bsendbuf[1 << 21];
  MPI_Buffer_attach(bsendbuf, sizeof bsendbuf);
  char* line    = (char*)malloc(1 << 16);
  int c         = 0;
  while (fgets(line, 1 << 16, f)) {
    std::istringstream in(line);
    std::string mode;
    size_t sizeS, sizeR, offS, offR, nSend, nRecv;
    int nshS, nshR, nsamp;
    std::vector<size_t> shS, shR, xs;
    if (!(in >> mode >> sizeS >> nshS))
      continue;
    shS.resize(2 * nshS);
    for (auto& v : shS) in >> v;
    in >> offS >> sizeR >> nshR;
    shR.resize(2 * nshR);
    for (auto& v : shR) in >> v;
    in >> offR >> nSend >> nRecv >> nsamp;
    xs.resize(nsamp);
    for (auto& v : xs) in >> v;
    unsigned char* buf = nullptr;
    if (rank == 0) {
      buf = nshS ? (unsigned char*)SMPI_PARTIAL_SHARED_MALLOC(sizeS, shS.data(), nshS) : (unsigned char*)malloc(sizeS);
      for (size_t i = 0; i < sizeS; i++) buf[i] = (unsigned char)(i * 7 + 13 + c);
    } else {
      buf = nshR ? (unsigned char*)SMPI_PARTIAL_SHARED_MALLOC(sizeR, shR.data(), nshR) : (unsigned char*)malloc(sizeR);
      for (size_t i = 0; i < sizeR; i++) buf[i] = (unsigned char)(i * 5 + 101 + c);
    }
    MPI_Barrier(MPI_COMM_WORLD);
    if (rank == 0) {
      describe("S", c, buf + offS);
      printf("V %d", c);
      for (size_t x : xs) printf(" %d", x < nSend ? buf[offS + x] : 0);
      printf("\n");
    } else {
      describe("D", c, buf + offR);
      printf("B %d", c);
      for (size_t x : xs) printf(" %d", buf[offR + x]);
      printf("\n");
    }
    fflush(stdout);
    MPI_Barrier(MPI_COMM_WORLD);
    if (rank == 0) {
      if (mode == "e") MPI_Send(buf + offS, (int)nSend, MPI_BYTE, 1, c, MPI_COMM_WORLD);
      else if (mode == "b") MPI_Bsend(buf + offS, (int)nSend, MPI_BYTE, 1, c, MPI_COMM_WORLD);
      else MPI_Ssend(buf + offS, (int)nSend, MPI_BYTE, 1, c, MPI_COMM_WORLD);
    } else {
      MPI_Recv(buf + offR, (int)nRecv, MPI_BYTE, 0, c, MPI_COMM_WORLD, MPI_STATUS_IGNORE);
      printf("A %d", c);
      for (size_t x : xs) printf(" %d", buf[offR + x]);
      printf("\n");
      fflush(stdout);
    }
    MPI_Barrier(MPI_COMM_WORLD);
    if (rank == 0 ? nshS : nshR)
      SMPI_SHARED_FREE(buf);
    else
      free(buf); // no shared block: ordinary memory (smpi_shared_malloc_partial reads shared_block_offsets[-1] for 0 blocks)
    c++;
  }
  fclose(f);
  int sz;
  void* bb;
  MPI_Buffer_detach(&bb, &sz);
  MPI_Finalize();
  return 0;
}
