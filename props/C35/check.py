"""C35 — private parts of partially shared buffers are transferred exactly.
Theorems: lean/SgVerif/C35/Props.lean.  Tie: the model (Model.lean) of shift_and_frame_private_blocks / merge_private_blocks /
the block computation of smpi_comm_copy_buffer_callback is compared with the REAL exported functions of libsimgrid, called
in-process on random layouts, offsets (inside, before, across private blocks, at block boundaries) and sizes."""
import json
import os

from vlib import core
from vlib.core import SplitMix

# proposed_fix.diff applied to /repo?  (the model must follow the code): flip when the fix: commit lands
FIXED = True
KEY = "private-block-straddles-message-start"


def J(xs):
    return " ".join(map(str, xs))


def layout(rng, big=False):
    """sorted disjoint non-empty private blocks of an allocation (adjacent blocks allowed); returns (blocks, size)"""
    unit = rng.choice([1, 1, 4, 8, 4096]) if not big else 2 ** rng.range(20, 58)
    pos, bl = 0, []
    for _ in range(rng.range(0, 5)):
        pos += rng.choice([0, 0, 1, 2, 3, rng.range(0, 9)]) * unit       # 0 = adjacent to the previous block
        ln = rng.range(1, 8) * unit
        bl.append((pos, pos + ln))
        pos += ln
    size = pos + rng.range(0, 4) * unit
    return bl, max(size, 1)


def pick_offset(rng, bl, size):
    """offset of the message in the allocation: 0, inside a block, at a block begin/end, in a gap, before everything"""
    c = [0, rng.range(0, size - 1)]
    for b, e in bl:
        c += [b, e, (b + e) // 2, max(b - 1, 0), min(e + 1, size - 1), b + 1, max(e - 1, 0)]
    return min(rng.choice(c), size - 1)


def flat(bl):
    return J([x for b in bl for x in b])


PAGE = 4096
PLAT = """<?xml version='1.0'?>
<!DOCTYPE platform SYSTEM "https://simgrid.org/simgrid.dtd">
<platform version="4.1">
  <zone id="AS0" routing="Full">
    <cluster id="c" prefix="h" suffix="" radical="0-1" speed="1Gf" bw="125MBps" lat="50us"/>
  </zone>
</platform>
"""


def e2e_alloc(rng):
    """a partially shared allocation: size, shared blocks (byte offsets; the library shares the page-aligned inside)"""
    size = rng.choice([10, 20, 40]) * PAGE
    sh, pos = [], 0
    for _ in range(rng.range(0, 3)):
        b = pos + rng.range(0, 4) * PAGE + rng.choice([0, 0, 1, 17, 2048])
        e = b + rng.range(1, 5) * PAGE + rng.choice([0, 0, 1, 100])
        if e >= size:
            break
        sh.append((b, e))
        pos = e + 1
    return size, sh


def e2e_bounds(sh):
    out = []
    for b, e in sh:
        out += [(b + PAGE - 1) // PAGE * PAGE, e // PAGE * PAGE]
    return out


def gen_e2e(rng, n):
    """end-to-end cases for e2e.cpp: mode, two allocations, offsets, sizes, sample positions"""
    cases = []
    for _ in range(n):
        mode = rng.choice(["e", "b", "r"])
        sS, shS = e2e_alloc(rng)
        sR, shR = e2e_alloc(rng)
        bS, bR = e2e_bounds(shS), e2e_bounds(shR)
        offS = rng.choice([0, 100, rng.range(0, sS // 2)] + [max(x - rng.choice([0, 1, 50]), 0) for x in bS])
        offR = rng.choice([0, 50, rng.range(0, sR // 2)] + [max(x - rng.choice([0, 1, 50]), 0) for x in bR])
        room = min(sS - offS, sR - offR)
        nS = rng.range(1, room)
        if mode == "e":
            nS = min(nS, 60000)                       # below smpi/send-is-detached-thresh (65536): eager
        nR = min(nS + rng.choice([0, 0, 64]), sR - offR)
        xs = {0, 1, nS - 1, max(nS - 2, 0), nR - 1}
        for x in bS:
            xs |= {x - offS - 1, x - offS, x - offS + 1}
        for x in bR:
            xs |= {x - offR - 1, x - offR, x - offR + 1}
        for _ in range(30):
            xs.add(rng.range(0, nR - 1))
        xs = sorted(x for x in xs if 0 <= x < nR)
        cases.append({"mode": mode, "sS": sS, "shS": shS, "offS": offS, "sR": sR, "shR": shR, "offR": offR, "nS": nS, "nR": nR,
                      "xs": xs})
    return cases


def e2e_line(c):
    return " ".join(map(str, [c["mode"], c["sS"], len(c["shS"])] + [v for b in c["shS"] for v in b] + [c["offS"], c["sR"], len(c["shR"])] +
                        [v for b in c["shR"] for v in b] + [c["offR"], c["nS"], c["nR"], len(c["xs"])] + c["xs"]))


def run_e2e(ctx, drv, fixed, cases):
    """run e2e.cpp under smpirun -np 2 and judge every case with the Lean model of the send modes (Modes.lean)"""
    h = ctx.build_harness("e2e.cpp", smpi=True, lang="c++")
    if not h:
        return
    plat, hosts, script = (os.path.join(ctx.work, x) for x in ("plat.xml", "hosts", "e2e.txt"))
    open(plat, "w").write(PLAT)
    open(hosts, "w").write("h0\nh1\n")
    open(script, "w").write("\n".join(e2e_line(c) for c in cases) + "\n")
    cmd = [os.path.join(core.SGBUILD, "smpi_script", "bin", "smpirun"), "-np", "2", "-platform", plat, "-hostfile", hosts,
           "--log=root.thres:critical", "--cfg=smpi/shared-malloc-blocksize:%d" % PAGE, h, script]
    try:
        p = core.sh(cmd, timeout=600, env=ctx.sg_env(), cwd=ctx.work)
    except Exception as e:
        ctx.broken.append({"kind": "e2e-run", "error": str(e)[:500]})
        return
    if p.returncode != 0:
        ctx.broken.append({"kind": "e2e-run", "rc": p.returncode, "stderr": p.stderr[-1500:]})
        return
    rec = {}
    for l in p.stdout.split("\n"):
        t = l.split()
        if len(t) >= 2 and t[0] in "SVDBA" and t[1].isdigit():
            rec.setdefault(int(t[1]), {})[t[0]] = t[2:]
    qs, owners = [], []
    for i, c in enumerate(cases):
        r = rec.get(i, {})
        if not all(k in r for k in "SVDBA") or not (len(r["V"]) == len(r["B"]) == len(r["A"]) == len(c["xs"])):
            ctx.broken.append({"kind": "e2e-output", "case": c, "got": {k: v[:10] for k, v in r.items()}})
            continue
        trip = " ".join("%d %s %s" % (x, sv, dv) for x, sv, dv in zip(c["xs"], r["V"], r["B"]))
        qs.append("E2 %s %d %d | %s | %s | %s => %s" % (c["mode"], c["nS"], c["nR"], " ".join(r["S"]), " ".join(r["D"]), trip,
                                                      " ".join(r["A"])))
        owners.append(c)
    rc, verdicts, err = ctx.run_lines([drv] + (["fixed"] if fixed else []), qs)
    if rc != 0 or not verdicts or verdicts[-1] != "END %d" % len(qs):
        ctx.broken.append({"kind": "driver-run-e2e", "rc": rc, "stderr": err[-2000:]})
        return
    modes = {}
    for q, v, c in zip(qs, verdicts, owners):
        ctx.cov["evaluations"] += 1
        modes[c["mode"]] = modes.get(c["mode"], 0) + 1
        if v == "ok":
            ctx.cov["traces_validated_against_impl"] += 1
            if c["shS"] or c["shR"]:
                ctx.cov["distinct_nontrivial"] += 1
        elif v.startswith("MONFAIL"):
            ctx.violation(v[:400], {"e2e": c, "query": q[:1500]}, key=None)
        elif len(ctx.broken) < 40:
            ctx.broken.append({"kind": "correspondence-e2e", "case": c, "verdict": v[:600]})
    ctx.cov["e2e_cases_by_mode"] = modes


def gen(rng, n):
    qs = []
    for i in range(n):
        k = rng.below(10)
        big = rng.below(12) == 0
        if k < 4:
            bl, size = layout(rng, big)
            o = pick_offset(rng, bl, size)
            m = rng.choice([0, 1, size - o, rng.range(0, size - o), rng.range(0, size - o)])
            qs.append("SF %d %d | %s" % (o, m, flat(bl)))
        elif k < 7:
            a, sa = layout(rng)
            b, sb = layout(rng)
            if rng.below(4) == 0:
                b = list(a)                                                # identical lists
            qs.append("MG | %s | %s" % (flat(a), flat(b)))
        else:
            a, sa = layout(rng, big)
            b, sb = layout(rng, big)
            oa, ob = pick_offset(rng, a, sa), pick_offset(rng, b, sb)
            m = rng.range(0, max(min(sa - oa, sb - ob), 0))
            if big:
                m = min(m, 4096)
            sk = "-1" if rng.below(4) == 0 else "%d %s" % (oa, flat(a))
            dk = "-1" if rng.below(4) == 0 else "%d %s" % (ob, flat(b))
            qs.append("CP %d | %s | %s" % (m, sk.strip(), dk.strip()))
    return [q.strip() for q in qs]


def run(ctx):
    ctx.cov["rule"] = ("non-trivial = distinct query with at least one private block whose implementation answer is a non-empty block list "
                       "(SF/MG/CP) or the `IGN` decision for a message without private bytes")
    ctx.assumptions += ["the copy itself (memcpy_private, the temporary buffer of the privatization path, the early returns) is modelled and "
                        "proved but tied to the code by reading only: the harness composes the two real exported block functions as the "
                        "callback does; the end-to-end MPI transfer (eager / detached / rendezvous) is not exercised",
                        "smpi_is_shared's metadata lookup (which allocation, which offset) is not modelled"]
    ctx.ensure_simgrid(["simgrid"])
    ctx.lean_prove()
    drv = ctx.lean_exe()
    h = ctx.build_harness("harness.cpp")
    if not (drv and h):
        return
    fixed = FIXED or os.environ.get("VERIF_C35_FIXED") == "1"
    n = 3000 if ctx.tier == "quick" else 150000
    if ctx.broken:
        n *= 10
    corpus = [l.strip() for l in open(ctx.pdir + "/corpus.txt") if l.strip() and not l.startswith("#")]
    if ctx.replay:
        queries = [json.load(open(ctx.replay))["case"]["query"]]
    else:
        queries = list(dict.fromkeys(corpus + gen(SplitMix(ctx.seed), n)))
    pre = os.environ.get("VERIF_C35_PRELOAD")           # e.g. a patched smpi_shared.cpp built as a shared object (mutation testing)
    rc, out, err = ctx.run_lines([h], queries, env={"LD_PRELOAD": pre} if pre else None)
    if rc != 0 or len(out) != len(queries):
        ctx.broken.append({"kind": "harness-run", "rc": rc, "stderr": err[-2000:], "lines": len(out)})
        return
    rc, verdicts, err = ctx.run_lines([drv] + (["fixed"] if fixed else []), out)
    if rc != 0 or not verdicts or verdicts[-1] != "END %d" % len(out):
        ctx.broken.append({"kind": "driver-run", "rc": rc, "stderr": err[-2000:]})
        return
    kinds = {}
    for q, l, v in zip(queries, out, verdicts):
        ctx.cov["evaluations"] += 1
        k = q.split()[0]
        kinds[k] = kinds.get(k, 0) + 1
        if v == "ok":
            ctx.cov["traces_validated_against_impl"] += 1
            ans = l.split("=>", 1)[1].split()
            if ans and any(t.isdigit() for t in q.split("|", 1)[1].split()):
                ctx.cov["distinct_nontrivial"] += 1
            continue
        case = {"query": q, "impl": l[:1500], "verdict": v[:800]}
        if v.startswith("MONFAIL"):
            ctx.violation(v[:400], case, key=KEY if "key=" + KEY in v else None)
        elif len(ctx.broken) < 40:
            ctx.broken.append({"kind": "correspondence", "case": case})
    ctx.cov["distribution"] = kinds
    if not ctx.replay:
        # end to end: real MPI transfers between partially shared buffers in the three send modes, judged with Modes.lean
        ne = 40 if ctx.tier == "quick" else 400
        e2e_corpus = [{"mode": m, "sS": 40960, "shS": [(8192, 16384)], "offS": 100, "sR": 40960, "shR": [(20480, 28672)], "offR": 50,
                       "nS": 20000, "nR": 20000, "xs": [0, 1, 8091, 8092, 8093, 16283, 16284, 19999]} for m in ("e", "r", "b")]
        run_e2e(ctx, drv, fixed, e2e_corpus + gen_e2e(SplitMix(ctx.seed).fork(77), ne))
    ctx.cov["samples"] = out[:2] + out[len(corpus):len(corpus) + 4]
