"""C35 — private parts of partially shared buffers are transferred exactly.
Theorems: lean/SgVerif/C35/Props.lean.  Tie: the model (Model.lean) of shift_and_frame_private_blocks / merge_private_blocks /
the block computation of smpi_comm_copy_buffer_callback is compared with the REAL exported functions of libsimgrid, called
in-process on random layouts, offsets (inside, before, across private blocks, at block boundaries) and sizes."""
import json
import os

from vlib.core import SplitMix

# proposed_fix.diff applied to /repo?  (the model must follow the code): flip when the fix: commit lands
FIXED = True
KEY = "private-block-straddles-message-start"


def J(xs):
    return " ".join(map(str, xs))


def layout(rng, big=False):
    """sorted disjoint non-empty private blocks of an allocation (adjacent blocks allowed); returns (blocks, size)"""
    unit = rng.choice([1, 1, 4, 8, 4096]) if not big else 2 ** rng.range(20, 58)
    pos, bl = 0, []
    for _ in range(rng.range(0, 5)):
        pos += rng.choice([0, 0, 1, 2, 3, rng.range(0, 9)]) * unit       # 0 = adjacent to the previous block
        ln = rng.range(1, 8) * unit
        bl.append((pos, pos + ln))
        pos += ln
    size = pos + rng.range(0, 4) * unit
    return bl, max(size, 1)


def pick_offset(rng, bl, size):
    """offset of the message in the allocation: 0, inside a block, at a block begin/end, in a gap, before everything"""
    c = [0, rng.range(0, size - 1)]
    for b, e in bl:
        c += [b, e, (b + e) // 2, max(b - 1, 0), min(e + 1, size - 1), b + 1, max(e - 1, 0)]
    return min(rng.choice(c), size - 1)


def flat(bl):
    return J([x for b in bl for x in b])


def gen(rng, n):
    qs = []
    for i in range(n):
        k = rng.below(10)
        big = rng.below(12) == 0
        if k < 4:
            bl, size = layout(rng, big)
            o = pick_offset(rng, bl, size)
            m = rng.choice([0, 1, size - o, rng.range(0, size - o), rng.range(0, size - o)])
            qs.append("SF %d %d | %s" % (o, m, flat(bl)))
        elif k < 7:
            a, sa = layout(rng)
            b, sb = layout(rng)
            if rng.below(4) == 0:
                b = list(a)                                                # identical lists
            qs.append("MG | %s | %s" % (flat(a), flat(b)))
        else:
            a, sa = layout(rng, big)
            b, sb = layout(rng, big)
            oa, ob = pick_offset(rng, a, sa), pick_offset(rng, b, sb)
            m = rng.range(0, max(min(sa - oa, sb - ob), 0))
            if big:
                m = min(m, 4096)
            sk = "-1" if rng.below(4) == 0 else "%d %s" % (oa, flat(a))
            dk = "-1" if rng.below(4) == 0 else "%d %s" % (ob, flat(b))
            qs.append("CP %d | %s | %s" % (m, sk.strip(), dk.strip()))
    return [q.strip() for q in qs]


def run(ctx):
    ctx.cov["rule"] = ("non-trivial = distinct query with at least one private block whose implementation answer is a non-empty block list "
                       "(SF/MG/CP) or the `IGN` decision for a message without private bytes")
    ctx.assumptions += ["the copy itself (memcpy_private, the temporary buffer of the privatization path, the early returns) is modelled and "
                        "proved but tied to the code by reading only: the harness composes the two real exported block functions as the "
                        "callback does; the end-to-end MPI transfer (eager / detached / rendezvous) is not exercised",
                        "smpi_is_shared's metadata lookup (which allocation, which offset) is not modelled"]
    ctx.ensure_simgrid(["simgrid"])
    ctx.lean_prove()
    drv = ctx.lean_exe()
    h = ctx.build_harness("harness.cpp")
    if not (drv and h):
        return
    fixed = FIXED or os.environ.get("VERIF_C35_FIXED") == "1"
    n = 3000 if ctx.tier == "quick" else 150000
    if ctx.broken:
        n *= 10
    corpus = [l.strip() for l in open(ctx.pdir + "/corpus.txt") if l.strip() and not l.startswith("#")]
    if ctx.replay:
        queries = [json.load(open(ctx.replay))["case"]["query"]]
    else:
        queries = list(dict.fromkeys(corpus + gen(SplitMix(ctx.seed), n)))
    pre = os.environ.get("VERIF_C35_PRELOAD")           # e.g. a patched smpi_shared.cpp built as a shared object (mutation testing)
    rc, out, err = ctx.run_lines([h], queries, env={"LD_PRELOAD": pre} if pre else None)
    if rc != 0 or len(out) != len(queries):
        ctx.broken.append({"kind": "harness-run", "rc": rc, "stderr": err[-2000:], "lines": len(out)})
        return
    rc, verdicts, err = ctx.run_lines([drv] + (["fixed"] if fixed else []), out)
    if rc != 0 or not verdicts or verdicts[-1] != "END %d" % len(out):
        ctx.broken.append({"kind": "driver-run", "rc": rc, "stderr": err[-2000:]})
        return
    kinds = {}
    for q, l, v in zip(queries, out, verdicts):
        ctx.cov["evaluations"] += 1
        k = q.split()[0]
        kinds[k] = kinds.get(k, 0) + 1
        if v == "ok":
            ctx.cov["traces_validated_against_impl"] += 1
            ans = l.split("=>", 1)[1].split()
            if ans and any(t.isdigit() for t in q.split("|", 1)[1].split()):
                ctx.cov["distinct_nontrivial"] += 1
            continue
        case = {"query": q, "impl": l[:1500], "verdict": v[:800]}
        if v.startswith("MONFAIL"):
            ctx.violation(v[:400], case, key=KEY if "key=" + KEY in v else None)
        elif len(ctx.broken) < 40:
            ctx.broken.append({"kind": "correspondence", "case": case})
    ctx.cov["distribution"] = kinds
    ctx.cov["samples"] = out[:2] + out[len(corpus):len(corpus) + 4]
