"""C35 — private parts of partially shared buffers are transferred exactly.
Theorems: lean/SgVerif/C35/Props.lean.  Tie: the model (Model.lean) of shift_and_frame_private_blocks / merge_private_blocks /
the block computation of smpi_comm_copy_buffer_callback is compared with the REAL exported functions of libsimgrid, called
in-process on random layouts, offsets (inside, before, across private blocks, at block boundaries) and sizes."""
import json
import os

from vlib import core
from vlib.core import SplitMix

# proposed_fix.diff applied to /repo?  (the model must follow the code): flip when the fix: commit lands
FIXED = True
KEY = "private-block-straddles-message-start"


def J(xs):
    return " ".join(map(str, xs))


def layout(rng, big=False):
    """sorted disjoint non-empty private blocks of an allocation (adjacent blocks allowed); returns (blocks, size)"""
    unit = rng.choice([1, 1, 4, 8, 4096]) if not big else 2 ** rng.range(20, 58)
    pos, bl = 0, []
    for _ in range(rng.range(0, 5)):
        pos += rng.choice([0, 0, 1, 2, 3, rng.range(0, 9)]) * unit       # 0 = adjacent to the previous block
        ln = rng.range(1, 8) * unit
        bl.append((pos, pos + ln))
        pos += ln
    size = pos + rng.range(0, 4) * unit
    return bl, max(size, 1)


def pick_offset(rng, bl, size):
    """offset of the message in the allocation: 0, inside a block, at a block begin/end, in a gap, before everything"""
    c = [0, rng.range(0, size - 1)]
    for b, e in bl:
        c += [b, e, (b + e) // 2, max(b - 1, 0), min(e + 1, size - 1), b + 1, max(e - 1, 0)]
    return min(rng.choice(c), size - 1)


def flat(bl):
    return J([x for b in bl for x in b])


PAGE = 4096
PLAT = """<?xml version='1.0'?>
<!DOCTYPE platform SYSTEM "https://simgrid.org/simgrid.dtd">
<platform version="4.1">
  <zone id="AS0" routing="Full">
    <cluster id="c" prefix="h" suffix="" radical="0-1" speed="1Gf" bw="125MBps" lat="50us"/>
  </zone>
</platform>
"""


def e2e_alloc(rng):
    """a partially shared allocation: size, shared blocks (byte offsets; the library shares the page-aligned inside)"""
    size = rng.choice([10, 20, 40]) * PAGE
    sh, pos = [], 0
    for _ in range(rng.range(0, 3)):
        b = pos + rng.range(0, 4) * PAGE + rng.choice([0, 0, 1, 17, 2048])
        e = b + rng.range(1, 5) * PAGE + rng.choice([0, 0, 1, 100])
        if e >= size:
            break
        sh.append((b, e))
        pos = e + 1
    return size, sh


def e2e_bounds(sh):
    out = []
    for b, e in sh:
        out += [(b + PAGE - 1) // PAGE * PAGE, e // PAGE * PAGE]
    return out


def gen_e2e(rng, n):
    """end-to-end cases for e2e.cpp: mode, two allocations, offsets, sizes, sample positions"""
    cases = []
    for _ in range(n):
        mode = rng.choice(["e", "b", "r"])
        sS, shS = e2e_alloc(rng)
        sR, shR = e2e_alloc(rng)
        bS, bR = e2e_bounds(shS), e2e_bounds(shR)
        offS = rng.choice([0, 100, rng.range(0, sS // 2)] + [max(x - rng.choice([0, 1, 50]), 0) for x in bS])
        offR = rng.choice([0, 50, rng.range(0, sR // 2)] + [max(x - rng.choice([0, 1, 50]), 0) for x in bR])
        room = min(sS - offS, sR - offR)
        nS = rng.range(1, room)
        if mode == "e":
            nS = min(nS, 60000)                       # below smpi/send-is-detached-thresh (65536): eager
        nR = min(nS + rng.choice([0, 0, 64]), sR - offR)
        xs = {0, 1, nS - 1, max(nS - 2, 0), nR - 1}
        for x in bS:
            xs |= {x - offS - 1, x - offS, x - offS + 1}
        for x in bR:
            xs |= {x - offR - 1, x - offR, x - offR + 1}
        for _ in range(30):
            xs.add(rng.range(0, nR - 1))
        xs = sorted(x for x in xs if 0 <= x < nR)
        cases.append({"mode": mode, "sS": sS, "shS": shS, "offS": offS, "sR": sR, "shR": shR, "offR": offR, "nS": nS, "nR": nR,
                      "xs": xs})
    return cases


def ops_of(c, side):
    """operations of one side of a case; a case without history has one allocation in slot 0"""
    if "ops" + side in c:
        return c["ops" + side]
    return [("M", 0, c["s" + side], c["sh" + side])]


def ops_txt(ops):
    out = [len(ops)]
    for o in ops:
        if o[0] == "M":
            out += ["M", o[1], o[2], len(o[3])] + [v for b in o[3] for v in b]
        else:
            out += ["F", o[1]]
    return out


def e2e_line(c):
    return " ".join(map(str, [c["mode"]] + ops_txt(ops_of(c, "S")) + ops_txt(ops_of(c, "R")) +
                        [c.get("slotS", 0), c["offS"], c.get("slotR", 0), c["offR"], c["nS"], c["nR"], len(c["xs"])] + c["xs"]))


def hist_layout(rng, size, other=None):
    """shared blocks (byte offsets) of an allocation of `size` bytes: the whole of it (SMPI_SHARED_MALLOC), a head or a tail,
    the complement of another layout's first block, or random blocks with page-aligned or odd bounds"""
    k = rng.below(6)
    if k == 0:
        return [(0, size)]
    if k == 1:
        return [(0, min(rng.range(1, 3) * PAGE, size))]             # head shared, rest private
    if k == 2:
        return [(min(rng.range(1, 3) * PAGE, size - PAGE), size)]   # head private, rest shared
    if k == 3 and other and other[0][0] > 0:
        return [(0, min(other[0][0], size - PAGE))]                 # shared exactly where the other layout starts private
    sh, pos = [], 0
    for _ in range(rng.range(1, 3)):
        b = pos + rng.range(0, 4) * PAGE + rng.choice([0, 0, 1, 17, 2048])
        e = b + rng.range(1, 5) * PAGE + rng.choice([0, 0, 1, 100])
        if e >= size:
            break
        sh.append((b, e))
        pos = e + 1
    return sh or [(PAGE, 2 * PAGE)]


def gen_history(rng):
    """operations of one side: allocations and frees over up to 4 slots, ending with at least one live shared slot.
    Returns (ops, slot used for the message, its size, its shared blocks, candidate offsets).  Shapes: free then a LARGER /
    SMALLER / EQUAL allocation with another layout (the kernel reuses the freed range: top-down mmap puts a larger mapping
    over it, starting below the old address), a hole between two live allocations refilled, random sequences."""
    shape = rng.below(6)
    pages = lambda lo, hi: rng.range(lo, hi) * PAGE
    ops, live, cands = [], {}, []
    def M(slot, size, other=None):
        sh = hist_layout(rng, size, other)
        ops.append(("M", slot, size, sh))
        live[slot] = (size, sh)
        return sh
    def F(slot):
        ops.append(("F", slot))
        return live.pop(slot)
    if shape in (0, 1):                                   # regrow: the new, larger allocation covers the freed one
        s1 = pages(8, 64)
        l1 = M(0, s1)
        F(0)
        s2 = s1 + pages(1, 64)
        M(1, s2, l1)
        use = 1
        cands = [s2 - s1 + d for d in (0, 1, PAGE, 2 * PAGE, 2 * PAGE + 100, rng.range(0, s1 - 1))]      # above the old start address
        cands += [rng.range(0, s2 - s1)]                  # below it
    elif shape == 2:                                      # shrink / same size
        s1 = pages(8, 64)
        l1 = M(0, s1)
        F(0)
        s2 = rng.choice([s1, s1, max(s1 - pages(1, 6), 2 * PAGE)])
        M(1, s2, l1)
        use = 1
    elif shape == 3:                                      # a hole between live allocations is refilled
        for k in range(3):
            M(k, pages(4, 32))
        s1, l1 = F(1)
        s2 = rng.choice([s1, s1 + pages(1, 8), max(s1 - pages(1, 3), 2 * PAGE)])
        M(3, s2, l1)
        if rng.chance(1, 2):
            s0, l0 = F(0)
            M(0, s0 + pages(1, 16), l0)
            use = rng.choice([0, 3])
        else:
            use = rng.choice([0, 2, 3])
    elif shape == 4:                                      # several generations at growing sizes
        s, l = pages(4, 16), None
        for g in range(rng.range(2, 4)):
            l = M(g % 2, s, l)
            F(g % 2)
            s += pages(1, 16)
        M(2, s, l)
        use = 2
    else:                                                 # random sequence
        for _ in range(rng.range(3, 7)):
            free_slots = [k for k in range(4) if k not in live]
            if live and (not free_slots or rng.chance(2, 5)):
                F(rng.choice(sorted(live)))
            else:
                M(rng.choice(free_slots), pages(2, 48))
        if not live:
            M(0, pages(8, 48))
        use = rng.choice(sorted(live))
    size, sh = live[use]
    return ops, use, size, sh, cands


def gen_hist_cases(rng, n):
    """end-to-end cases with allocation histories on the sender's side, the receiver's side, or both"""
    cases = []
    for _ in range(n):
        mode = rng.choice(["e", "b", "r", "r"])
        who = rng.choice(["S", "R", "R", "SR"])
        side = {}
        for x in "SR":
            if x in who:
                ops, use, size, sh, cands = gen_history(rng)
            else:
                size, sh = e2e_alloc(rng)
                ops, use, cands = [("M", 0, size, sh)], 0, []
            side[x] = (ops, use, size, sh, cands)
        off = {}
        for x in "SR":
            ops, use, size, sh, cands = side[x]
            c = [0, rng.range(0, size // 2)] + [max(v - rng.choice([0, 1, 50]), 0) for v in e2e_bounds(sh)] + cands * 3
            off[x] = min(rng.choice(c), size - 64)
        room = min(side["S"][2] - off["S"], side["R"][2] - off["R"])
        nS = rng.range(1, room)
        if mode == "e":
            nS = min(nS, 60000)
        nR = min(nS + rng.choice([0, 0, 64]), side["R"][2] - off["R"])
        xs = {0, 1, nS - 1, max(nS - 2, 0), nR - 1}
        for x in "SR":
            for ops_ in side[x][0]:                       # bounds of every layout of the history, the stale ones included
                if ops_[0] == "M":
                    for v in e2e_bounds(ops_[3]) + [b for blk in ops_[3] for b in blk]:
                        for w in (v, v + side[x][2] - ops_[2]):
                            xs |= {w - off[x] - 1, w - off[x], w - off[x] + 1}
        for _ in range(40):
            xs.add(rng.range(0, nR - 1))
        xs = sorted(x for x in xs if 0 <= x < nR)[:160]
        cases.append({"mode": mode, "opsS": side["S"][0], "slotS": side["S"][1], "offS": off["S"], "opsR": side["R"][0],
                      "slotR": side["R"][1], "offR": off["R"], "nS": nS, "nR": nR, "xs": xs, "hist": who,
                      "shS": side["S"][3], "shR": side["R"][3]})
    return cases


def run_e2e(ctx, drv, fixed, cases):
    """run e2e.cpp under smpirun -np 2; the log (allocations with the addresses the kernel chose, frees, smpi_is_shared
    probes, transfers) is replayed in order through the Lean state machine of the allocation table (Alloc.lean) and every
    transfer is judged with the model of the send modes (Modes.lean)"""
    h = ctx.build_harness("e2e.cpp", smpi=True, lang="c++")
    if not h:
        return
    plat, hosts, script = (os.path.join(ctx.work, x) for x in ("plat.xml", "hosts", "e2e.txt"))
    open(plat, "w").write(PLAT)
    open(hosts, "w").write("h0\nh1\n")
    open(script, "w").write("\n".join(e2e_line(c) for c in cases) + "\n")
    cmd = [os.path.join(core.SGBUILD, "smpi_script", "bin", "smpirun"), "-np", "2", "-platform", plat, "-hostfile", hosts,
           "--log=root.thres:critical", "--cfg=smpi/shared-malloc-blocksize:%d" % PAGE, h, script]
    try:
        p = core.sh(cmd, timeout=900, env=ctx.sg_env(), cwd=ctx.work)
    except Exception as e:
        ctx.broken.append({"kind": "e2e-run", "error": str(e)[:500]})
        return
    if p.returncode != 0:
        ctx.broken.append({"kind": "e2e-run", "rc": p.returncode, "stderr": p.stderr[-1500:]})
        return
    qs, owners, rec = [], [], {}
    freed, reuse = [], {"covers-freed-base-from-below": 0, "same-base": 0, "inside-freed-range": 0, "elsewhere": 0}
    for l in p.stdout.split("\n"):
        t = l.split()
        if len(t) < 2 or not t[1].isdigit():
            continue
        i = int(t[1])
        if t[0] == "AM" and len(t) >= 6:
            addr, size = int(t[3]), int(t[4])
            qs.append("AM %d %d | %s => ." % (addr, size, " ".join(t[6:])))
            owners.append(i)
            kinds = set()
            for fa, fs in freed:
                if addr < fa < addr + size:
                    kinds.add("covers-freed-base-from-below")
                elif addr == fa:
                    kinds.add("same-base")
                elif fa < addr < fa + fs:
                    kinds.add("inside-freed-range")
            for k in kinds or {"elsewhere"}:
                reuse[k] += 1
            freed = [(fa, fs) for fa, fs in freed if fa + fs <= addr or addr + size <= fa]
        elif t[0] == "AF" and len(t) == 4:
            qs.append("AF %s => ." % t[3])
            owners.append(i)
            freed.append((int(t[3]), rec.get(("size", t[3]), 0)))
        elif t[0] == "AP" and len(t) >= 5:
            qs.append("AP %s => %s" % (t[3], " ".join(t[4:])))
            owners.append(i)
        elif t[0] in "SVDBA" and len(t[0]) == 1:
            rec.setdefault(i, {})[t[0]] = t[2:]
            if t[0] == "A" and i < len(cases):
                c, r = cases[i], rec[i]
                if not all(k in r for k in "SVDBA") or not (len(r["V"]) == len(r["B"]) == len(r["A"]) == len(c["xs"])):
                    ctx.broken.append({"kind": "e2e-output", "case": c, "got": {k: v[:10] for k, v in r.items()}})
                    continue
                trip = " ".join("%d %s %s" % (x, sv, dv) for x, sv, dv in zip(c["xs"], r["V"], r["B"]))
                qs.append("E3 %s %d %d %s %s | %s | %s | %s => %s" % (c["mode"], c["nS"], c["nR"], r["S"][0], r["D"][0],
                                                                     " ".join(r["S"][1:]), " ".join(r["D"][1:]), trip, " ".join(r["A"])))
                owners.append(i)
        if t[0] == "AM" and len(t) >= 6:
            rec[("size", t[3])] = int(t[4])
    done = set(i for q, i in zip(qs, owners) if q.startswith("E3"))
    for i, c in enumerate(cases):
        if i not in done:
            ctx.broken.append({"kind": "e2e-output", "case": c, "got": "no transfer in the log"})
    rc, verdicts, err = ctx.run_lines([drv] + (["fixed"] if fixed else []), qs)
    if rc != 0 or not verdicts or verdicts[-1] != "END %d" % len(qs):
        ctx.broken.append({"kind": "driver-run-e2e", "rc": rc, "stderr": err[-2000:]})
        return
    modes, hist, probes = {}, {}, 0
    reported = set()
    for q, v, i in zip(qs, verdicts, owners):
        c = cases[i]
        ctx.cov["evaluations"] += 1
        kind = q.split()[0]
        if kind == "AP":
            probes += 1
        if v == "ok":
            ctx.cov["traces_validated_against_impl"] += 1
            if kind == "E3":
                modes[c["mode"]] = modes.get(c["mode"], 0) + 1
                hist[c.get("hist", "-")] = hist.get(c.get("hist", "-"), 0) + 1
                if c["shS"] or c["shR"]:
                    ctx.cov["distinct_nontrivial"] += 1
        elif v.startswith("MONFAIL"):
            # the stored case re-runs the whole prefix: the table of allocations is a state shared by the cases of a run
            if i not in reported:
                ctx.violation(v[:700], {"e2e": c, "e2e_cases": cases[:i + 1], "query": q[:1500]}, key=None)
                reported.add(i)
        elif len(ctx.broken) < 40:
            ctx.broken.append({"kind": "correspondence-e2e", "case": c, "line": q[:300], "verdict": v[:600]})
    ctx.cov["e2e_cases_by_mode"] = modes
    ctx.cov["e2e_cases_by_history_side"] = hist
    ctx.cov["e2e_lookup_probes"] = probes
    ctx.cov["e2e_placement_of_new_allocations_wrt_freed_ranges"] = reuse


def gen(rng, n):
    qs = []
    for i in range(n):
        k = rng.below(10)
        big = rng.below(12) == 0
        if k < 4:
            bl, size = layout(rng, big)
            o = pick_offset(rng, bl, size)
            m = rng.choice([0, 1, size - o, rng.range(0, size - o), rng.range(0, size - o)])
            qs.append("SF %d %d | %s" % (o, m, flat(bl)))
        elif k < 7:
            a, sa = layout(rng)
            b, sb = layout(rng)
            if rng.below(4) == 0:
                b = list(a)                                                # identical lists
            qs.append("MG | %s | %s" % (flat(a), flat(b)))
        else:
            a, sa = layout(rng, big)
            b, sb = layout(rng, big)
            oa, ob = pick_offset(rng, a, sa), pick_offset(rng, b, sb)
            m = rng.range(0, max(min(sa - oa, sb - ob), 0))
            if big:
                m = min(m, 4096)
            sk = "-1" if rng.below(4) == 0 else "%d %s" % (oa, flat(a))
            dk = "-1" if rng.below(4) == 0 else "%d %s" % (ob, flat(b))
            qs.append("CP %d | %s | %s" % (m, sk.strip(), dk.strip()))
    return [q.strip() for q in qs]


def run(ctx):
    ctx.cov["rule"] = ("non-trivial = distinct query with at least one private block whose implementation answer is a non-empty block list "
                       "(SF/MG/CP) or the `IGN` decision for a message without private bytes")
    ctx.assumptions += ["the copy itself (memcpy_private, the temporary buffer of the privatization path, the early returns) is modelled and "
                        "proved but tied to the code by reading only: the harness composes the two real exported block functions as the "
                        "callback does; the end-to-end MPI program samples byte positions (bounds of every layout of the history +- 1, message ends, random)",
                        "the addresses returned by mmap are inputs of the allocation-table model; its theorems assume that a new "
                        "mapping does not overlap a live one (checked on every logged allocation); global shared-malloc mode only"]
    ctx.ensure_simgrid(["simgrid"])
    ctx.lean_prove()
    drv = ctx.lean_exe()
    h = ctx.build_harness("harness.cpp")
    if not (drv and h):
        return
    fixed = FIXED or os.environ.get("VERIF_C35_FIXED") == "1"
    n = 3000 if ctx.tier == "quick" else 150000
    if ctx.broken:
        n *= 10
    corpus = [l.strip() for l in open(ctx.pdir + "/corpus.txt") if l.strip() and not l.startswith("#")]
    if ctx.replay:
        rcase = json.load(open(ctx.replay))["case"]
        if "e2e_cases" in rcase:                         # an end-to-end violation: re-run the stored cases (the whole prefix)
            run_e2e(ctx, drv, fixed, [dict(c, xs=list(c["xs"])) for c in rcase["e2e_cases"]])
            return
        queries = [rcase["query"]]
    else:
        queries = list(dict.fromkeys(corpus + gen(SplitMix(ctx.seed), n)))
    pre = os.environ.get("VERIF_C35_PRELOAD")           # e.g. a patched smpi_shared.cpp built as a shared object (mutation testing)
    rc, out, err = ctx.run_lines([h], queries, env={"LD_PRELOAD": pre} if pre else None)
    if rc != 0 or len(out) != len(queries):
        ctx.broken.append({"kind": "harness-run", "rc": rc, "stderr": err[-2000:], "lines": len(out)})
        return
    rc, verdicts, err = ctx.run_lines([drv] + (["fixed"] if fixed else []), out)
    if rc != 0 or not verdicts or verdicts[-1] != "END %d" % len(out):
        ctx.broken.append({"kind": "driver-run", "rc": rc, "stderr": err[-2000:]})
        return
    kinds = {}
    for q, l, v in zip(queries, out, verdicts):
        ctx.cov["evaluations"] += 1
        k = q.split()[0]
        kinds[k] = kinds.get(k, 0) + 1
        if v == "ok":
            ctx.cov["traces_validated_against_impl"] += 1
            ans = l.split("=>", 1)[1].split()
            if ans and any(t.isdigit() for t in q.split("|", 1)[1].split()):
                ctx.cov["distinct_nontrivial"] += 1
            continue
        case = {"query": q, "impl": l[:1500], "verdict": v[:800]}
        if v.startswith("MONFAIL"):
            ctx.violation(v[:400], case, key=KEY if "key=" + KEY in v else None)
        elif len(ctx.broken) < 40:
            ctx.broken.append({"kind": "correspondence", "case": case})
    ctx.cov["distribution"] = kinds
    if not ctx.replay:
        # end to end: real MPI transfers between partially shared buffers in the three send modes, after histories of
        # allocations and frees on either side; judged with Alloc.lean (table) + Modes.lean (modes)
        ne = 40 if ctx.tier == "quick" else 400
        nh = 60 if ctx.tier == "quick" else 600
        if ctx.broken:
            nh *= 4
        e2e_corpus = [{"mode": m, "sS": 40960, "shS": [(8192, 16384)], "offS": 100, "sR": 40960, "shR": [(20480, 28672)], "offR": 50,
                       "nS": 20000, "nR": 20000, "xs": [0, 1, 8091, 8092, 8093, 16283, 16284, 19999]} for m in ("e", "r", "b")]
        # a freed allocation (first page private) followed by a larger one with the complementary layout, message above the
        # old start address, on the receiver's and on the sender's side
        big = [("M", 0, 64 * PAGE, [(PAGE, 64 * PAGE)]), ("F", 0), ("M", 1, 128 * PAGE, [(0, PAGE)])]
        one = [("M", 0, 40 * PAGE, [(8192, 16384)])]
        for m in ("e", "r", "b"):
            for who in ("R", "S"):
                e2e_corpus.append({"mode": m, "opsS": big if who == "S" else one, "slotS": 1 if who == "S" else 0,
                                   "offS": 66 * PAGE if who == "S" else 100, "opsR": big if who == "R" else one,
                                   "slotR": 1 if who == "R" else 0, "offR": 66 * PAGE + 7 if who == "R" else 50, "nS": 30000, "nR": 30000,
                                   "xs": [0, 1, 2, 100, 4095, 4096, 8091, 8092, 16283, 16284, 20000, 29998, 29999], "hist": who,
                                   "shS": [(0, PAGE)], "shR": [(0, PAGE)]})
        run_e2e(ctx, drv, fixed, e2e_corpus + gen_e2e(SplitMix(ctx.seed).fork(77), ne) + gen_hist_cases(SplitMix(ctx.seed).fork(78), nh))
    ctx.cov["samples"] = out[:2] + out[len(corpus):len(corpus) + 4]
