// C35 harness: calls the REAL exported functions shift_and_frame_private_blocks / merge_private_blocks of libsimgrid
// in-process.  stdin: one query per line; stdout: `<query> => <answer>`.  Lists are separated by `|`, blocks are `b e` pairs.
//   SF offset n | b e b e …                 shift_and_frame_private_blocks(vec, offset, n)        => b e b e …
//   MG | sb se … | db de …                  merge_private_blocks(src, dst)                        => b e …
//   CP n | offS sb se … | offD db de …      the block computation of smpi_comm_copy_buffer_callback done with the real
//                                           functions (offX = -1: buffer not in a shared allocation → {(0,n)};
//                                           an empty framed list → the message is ignored)        => IGN | b e …
#include <smpi/smpi.h>
#include <cstdio>
#include <cstdlib>
#include <iostream>
#include <sstream>
#include <string>
#include <vector>

using Blocks = std::vector<std::pair<size_t, size_t>>;

static std::vector<std::vector<std::string>> split_bar(const std::string& s)
{
  std::vector<std::vector<std::string>> res(1);
  std::istringstream in(s);
  std::string t;
  while (in >> t) {
    if (t == "|")
      res.emplace_back();
    else
      res.back().push_back(t);
  }
  return res;
}
static Blocks blocks_of(const std::vector<std::string>& v, size_t from)
{
  Blocks b;
  for (size_t i = from; i + 1 < v.size(); i += 2)
    b.emplace_back(strtoull(v[i].c_str(), nullptr, 10), strtoull(v[i + 1].c_str(), nullptr, 10));
  return b;
}
static void print(std::ostream& o, const Blocks& b)
{
  for (auto const& [x, y] : b)
    o << " " << x << " " << y;
}

int main()
{
  std::string line;
  while (std::getline(std::cin, line)) {
    if (line.empty())
      continue;
    auto parts = split_bar(line);
    std::ostringstream out;
    const std::string kind = parts[0].empty() ? "" : parts[0][0];
    if (kind == "SF" && parts.size() == 2) {
      size_t offset = strtoull(parts[0][1].c_str(), nullptr, 10);
      size_t n      = strtoull(parts[0][2].c_str(), nullptr, 10);
      print(out, shift_and_frame_private_blocks(blocks_of(parts[1], 0), offset, n));
    } else if (kind == "MG" && parts.size() == 3) {
      print(out, merge_private_blocks(blocks_of(parts[1], 0), blocks_of(parts[2], 0)));
    } else if (kind == "CP" && parts.size() == 3) {
      size_t n = strtoull(parts[0][1].c_str(), nullptr, 10);
      Blocks fr[2];
      bool ignore = false;
      for (int k = 0; k < 2 && not ignore; k++) {
        const auto& p = parts[k + 1];
        if (p[0] == "-1") {
          fr[k].emplace_back(0, n);
        } else {
          fr[k] = shift_and_frame_private_blocks(blocks_of(p, 1), strtoull(p[0].c_str(), nullptr, 10), n);
          if (fr[k].empty())
            ignore = true;
        }
      }
      if (ignore)
        out << " IGN";
      else
        print(out, merge_private_blocks(fr[0], fr[1]));
    } else {
      out << " BADQUERY";
    }
    std::cout << line << " =>" << out.str() << "\n";
  }
  return 0;
}
