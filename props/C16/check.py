"""C16 — max-min and BMF allocations are fair.  Theorems: lean/SgVerif/C16/Props.lean (model: lean/SgVerif/Lmm/Model.lean).
Tie: the real lmm::System (maxmin, fairbottleneck, bmf) is driven in-process on generated systems + histories; every
solve is compared with the model (maxmin, fairbottleneck) and checked by the `bottleneck` (maxmin) and `bmfFair` (bmf) monitors, plus the exact reference Spec.alloc on SHARED-only systems."""
import importlib.util
import os


def run(ctx):
    p = os.path.join(os.path.dirname(ctx.pdir), "_shared", "lmm", "lmmcheck.py")
    spec = importlib.util.spec_from_file_location("lmmcheck", p)
    mod = importlib.util.module_from_spec(spec)
    spec.loader.exec_module(mod)
    mod.run(ctx, "C16")
