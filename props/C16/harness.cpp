// C16 harness = the shared LMM harness (props/_shared/lmm/lmm_harness.cpp): real System::build/expand/.../solve in-process.
#include "../_shared/lmm/lmm_harness.cpp"
