"""C18 — concurrency limits are enforced without starvation.
Theorems: lean/SgVerif/C18/Props.lean (over lean/SgVerif/LmmBook/Model.lean).  Tie: every generated history is applied
to the real lmm::System (props/_shared/lmmbook/harness.cpp) and to the model (drv_C18); the complete bookkeeping
state is compared after EVERY operation, and the three invariants are evaluated on the implementation's state."""
import os
import sys

sys.path.insert(0, os.path.join(os.path.dirname(os.path.abspath(__file__)), "..", "_shared", "lmmbook"))
import common  # noqa: E402
from vlib.core import SplitMix  # noqa: E402


def run(ctx):
    ctx.cov["rule"] = ("histories of public System operations drawn from splitmix64(VERIF_SEED) in 5 profiles (tight limits, "
                       "chains, mixed, force_creation, unlimited); non-trivial = history in which at least one variable was "
                       "staged and later enabled by on_disabled_var (observed on the implementation)")
    ctx.assumptions += ["weights/penalties are multiples of 1/4 (exact in double); the model holds them as integers",
                        "Constraint::set_concurrency_limit is only used at creation (as the models do)",
                        "private members are read through `#define private public` in the harness TU"]
    ctx.ensure_simgrid(["simgrid"])
    ctx.lean_prove()
    drv = ctx.lean_exe()
    h = ctx.build_harness(os.path.join(common.HERE, "harness.cpp"), name="lmmbook")
    if not (drv and h):
        return
    quick = ctx.tier == "quick"
    ncases, maxops = (250, 60) if quick else (2500, 400)
    if ctx.broken:
        ncases *= 10
    if ctx.replay:
        cases = common.load_replay(ctx.replay)
    else:
        rng = SplitMix(ctx.seed)
        cases = common.read_corpus(os.path.join(ctx.pdir, "corpus.txt"))
        for i in range(ncases):
            m = maxops if (quick or i % 5 == 0) else 60
            cases.append(common.gen_case(rng.fork(i), i, m, c17=False))
    res = common.run_cases(ctx, h, drv, cases, c17=False)
    if res is None:
        return
    stats = {}
    prof = {}
    for case, staged, unstaged, _, out in common.judge_results(ctx, h, drv, res, False, stats):
        prof[case["profile"]] = prof.get(case["profile"], 0) + 1
        if staged and unstaged:
            ctx.cov["distinct_nontrivial"] += 1
            if len(ctx.cov["samples"]) < 4:
                ctx.cov["samples"].append(" ; ".join(case["lines"][:14]) + " ...")
    ctx.cov["cases"] = len(cases)
    ctx.cov["profiles"] = prof
    ctx.cov["model_cfg_bits"] = common.CFG_BITS
    ctx.cov.update(stats)
