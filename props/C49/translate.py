"""C49 translator: src/xbt/parmap.hpp  ->  lean/SgVerif/C49/Gen.lean

Statement-by-statement pattern translation of the bodies of Parmap::apply / work / next / worker_main and of the
master_signal / master_wait / worker_signal / worker_wait methods of PosixSynchro, FutexSynchro, BusyWaitSynchro into the
micro-op language of SgVerif/C49/Model.lean.  A statement that matches no pattern raises TranslationError (broken tie).
The translation is syntactic on purpose: any edit of these bodies either maps to the same micro-ops (harmless), to different
micro-ops (Props.lean no longer builds: `gen_*_core` theorems), or to nothing (failure)."""
import re


class TranslationError(Exception):
    pass


def strip_comments(src):
    src = re.sub(r"/\*.*?\*/", " ", src, flags=re.S)
    src = re.sub(r"//[^\n]*", " ", src)
    return src


def match_close(s, i, o, c):
    """s[i] == o; index of the matching c"""
    d = 0
    for j in range(i, len(s)):
        if s[j] == o:
            d += 1
        elif s[j] == c:
            d -= 1
            if d == 0:
                return j
    raise TranslationError("unbalanced " + o)


def function_body(src, qualname):
    """body text (without the outer braces) of the out-of-class definition `... Parmap<T>::<qualname>(...) {`"""
    m = re.search(r"Parmap<T>::" + re.escape(qualname) + r"\s*\(", src)
    if not m:
        raise TranslationError("function not found: " + qualname)
    p = match_close(src, m.end() - 1, "(", ")")
    b = src.index("{", p)
    e = match_close(src, b, "{", "}")
    return src[b + 1:e]


def norm(t):
    return re.sub(r"\s+", " ", t).strip()


def split_statements(body):
    """-> list of ('simple', text) | ('while', cond, [stmts]) | ('if', cond, [stmts], [stmts] or None)"""
    res = []
    i, n = 0, len(body)
    while i < n:
        if body[i].isspace():
            i += 1
            continue
        m = re.match(r"(while|if)\s*\(", body[i:])
        if m:
            kind = m.group(1)
            p0 = i + m.end() - 1
            p1 = match_close(body, p0, "(", ")")
            cond = norm(body[p0 + 1:p1])
            sub, j = one_statement(body, p1 + 1)
            if kind == "while":
                res.append(("while", cond, sub))
            else:
                els = None
                m2 = re.match(r"\s*else\b", body[j:])
                if m2:
                    els, j = one_statement(body, j + m2.end())
                res.append(("if", cond, sub, els))
            i = j
            continue
        if body[i] == "{":
            e = match_close(body, i, "{", "}")
            res += split_statements(body[i + 1:e])
            i = e + 1
            continue
        # simple statement: up to the ';' at depth 0
        d = 0
        j = i
        while j < n:
            ch = body[j]
            if ch in "({[":
                d += 1
            elif ch in ")}]":
                d -= 1
            elif ch == ";" and d == 0:
                break
            j += 1
        if j >= n:
            raise TranslationError("unterminated statement: " + norm(body[i:i + 80]))
        res.append(("simple", norm(body[i:j + 1])))
        i = j + 1
    return res


def one_statement(body, i):
    while body[i].isspace():
        i += 1
    if body[i] == "{":
        e = match_close(body, i, "{", "}")
        return split_statements(body[i + 1:e]), e + 1
    m = re.match(r"(while|if)\s*\(", body[i:])
    if m:
        raise TranslationError("nested control statement without braces")
    d = 0
    j = i
    while True:
        ch = body[j]
        if ch in "({[":
            d += 1
        elif ch in ")}]":
            d -= 1
        elif ch == ";" and d == 0:
            break
        j += 1
    return [("simple", norm(body[i:j + 1]))], j + 1


P = r"(?:this->parmap\.|parmap\.)?"
SIMPLE = [
    (r"worker_fun = std::move\(fun\);", ".setFun"),
    (r"common_data = &data;", ".setData"),
    (r"common_index = (\d+);", lambda m: ".storeIndex %s" % m.group(1)),
    (r"synchro->master_signal\(\);", ".callMasterSignal"),
    (r"synchro->master_wait\(\);", ".callMasterWait"),
    (P + r"work\(\);", ".callWork"),
    (P + r"synchro->worker_wait\(round\);", ".callWorkerWait"),
    (P + r"synchro->worker_signal\(\);", ".callWorkerSignal"),
    (r"XBT_C?(DEBUG|VERB)\(.*\);", '.nop "log"'),
    (r"unsigned length = static_cast<unsigned>\(common_data->size\(\)\);", ".loadLength"),
    (r"(unsigned )?index = common_index\.fetch_add\(1, std::memory_order_relaxed\);", ".fetchIndex"),
    (r"worker_fun\(\(\*common_data\)\[index\]\);", ".callFun"),
    (r"return \(\*common_data\)\[index\];", ".returnElem"),
    (r"return boost::none;", ".returnNone"),
    (r"const auto\* engine = simgrid::kernel::EngineImpl::get_instance\(\);", '.nop "engine"'),
    (r"Parmap<T>& parmap = data->parmap;", '.nop "alias"'),
    (r"unsigned round = (\d+);", lambda m: ".initRound %s" % m.group(1)),
    (r"kernel::context::Context\* context = engine->get_context_factory\(\)->create_context\(std::function<void\(\)>\(\), nullptr\);",
     '.nop "context"'),
    (r"kernel::context::Context::set_current\(context\);", '.nop "context"'),
    (r"round\+\+;", ".incLocalRound"),
    (r"delete (context|data);", '.nop "delete"'),
    (r"(const )?std::(scoped_lock|unique_lock) lock\((ready|done)_mutex\);", lambda m: '.nop "lock %s"' % m.group(3)),
    (P + r"thread_counter = (\d+);", lambda m: ".storeTC %s" % m.group(1)),
    (P + r"thread_counter\.store\((\d+)\);", lambda m: ".storeTC %s" % m.group(1)),
    (P + r"work_round\+\+;", ".incRound"),
    (P + r"work_round\.fetch_add\(1\);", ".incRound"),
    (P + r"thread_counter\+\+;", ".incTC"),
    (P + r"thread_counter\.fetch_add\(1\);", ".incTC"),
    (r"unsigned count = " + P + r"thread_counter\.fetch_add\(1\) \+ 1;", ".incTC"),
    (r"(ready|done)_cond\.notify_(all|one)\(\);", '.nop "notify"'),
    (r"futex_wake\(&" + P + r"(work_round|thread_counter), std::numeric_limits<int>::max\(\)\);", '.nop "wake"'),
    (r"done_cond\.wait\(lock, \[this\]\(\) \{ return " + P + r"thread_counter >= " + P + r"num_workers; \}\);", ".waitTCgeN"),
    (r"ready_cond\.wait\(lock, \[this, expected_round\]\(\) \{ return " + P + r"work_round == expected_round; \}\);",
     ".waitRoundEq"),
    (r"unsigned count = " + P + r"thread_counter\.load\(\);", "LOAD_TC"),
    (r"unsigned round = " + P + r"work_round\.load\(\);", "LOAD_WR"),
    (r"std::this_thread::yield\(\);", '.nop "yield"'),
    (r"VERIF_PARMAP_YIELD\(\);", '.nop "yield-hook"'),
]


def tr_simple(t):
    for pat, out in SIMPLE:
        m = re.fullmatch(pat, t)
        if m:
            return out(m) if callable(out) else out
    raise TranslationError("unknown statement: " + t)


def texts(stmts):
    return [s[1] if s[0] == "simple" else None for s in stmts]


def tr(stmts):
    out = []
    for s in stmts:
        if s[0] == "simple":
            out.append(tr_simple(s[1]))
        elif s[0] == "while":
            cond, body = s[1], s[2]
            bt = texts(body)
            if cond == "index < length":
                out += [".whileIndexLtLength"] + tr(body) + [".endWhile"]
            elif cond == "true":
                out += [".loopForever"] + tr(body) + [".endLoop"]
            elif re.fullmatch(r"count < " + P + r"num_workers", cond) and len(bt) == 2 and bt[0] and bt[1] and \
                    re.fullmatch(r"futex_wait\(&" + P + r"thread_counter, count\);", bt[0]) and \
                    re.fullmatch(r"count = " + P + r"thread_counter\.load\(\);", bt[1]):
                out.append("WAIT_TC_LOOP")
            elif cond == "round != expected_round" and len(bt) == 2 and bt[0] and bt[1] and \
                    re.fullmatch(r"futex_wait\(&" + P + r"work_round, round\);", bt[0]) and \
                    re.fullmatch(r"round = " + P + r"work_round\.load\(\);", bt[1]):
                out.append("WAIT_WR_LOOP")
            elif re.fullmatch(P + r"thread_counter\.load\(\) < " + P + r"num_workers", cond) and \
                    all(x.startswith(".nop") for x in tr(body)):
                out.append(".waitTCgeN")
            elif re.fullmatch(P + r"work_round\.load\(\) != round", cond) and all(x.startswith(".nop") for x in tr(body)):
                out.append(".waitRoundEq")
            else:
                raise TranslationError("unknown loop: while (%s)" % cond)
        else:
            cond, thn, els = s[1], s[2], s[3]
            if cond == "index < common_data->size()" and els is not None:
                out += [".ifIndexLtSize"] + tr(thn) + [".else_"] + tr(els) + [".endIf"]
            elif re.fullmatch(P + r"destroying", cond) and texts(thn) == ["break;"] and els is None:
                out.append(".breakIfDestroying")
            elif (re.fullmatch(P + r"thread_counter == " + P + r"num_workers", cond) or
                  re.fullmatch(r"count == " + P + r"num_workers", cond)) and els is None and \
                    all(x.startswith(".nop") for x in tr(thn)):
                out.append('.nop "wake-if-last"')      # a read + stuttering ops
            else:
                raise TranslationError("unknown conditional: if (%s)" % cond)
    # peephole: `x = v.load(); while (x <cond>) { futex_wait(&v, x); x = v.load(); }`
    res = []
    i = 0
    while i < len(out):
        if out[i] == "LOAD_TC" and i + 1 < len(out) and out[i + 1] == "WAIT_TC_LOOP":
            res.append(".waitTCgeN")
            i += 2
        elif out[i] == "LOAD_WR" and i + 1 < len(out) and out[i + 1] == "WAIT_WR_LOOP":
            res.append(".waitRoundEq")
            i += 2
        elif out[i] in ("LOAD_TC", "LOAD_WR", "WAIT_TC_LOOP", "WAIT_WR_LOOP"):
            raise TranslationError("futex wait loop not in the expected load/loop shape")
        else:
            res.append(out[i])
            i += 1
    return res


FUNCS = [("apply", "apply"), ("work", "work"), ("next", "next"), ("workerMain", "worker_main")]
MODES = [("posix", "PosixSynchro"), ("futex", "FutexSynchro"), ("busy", "BusyWaitSynchro")]
METHODS = [("masterSignal", "master_signal"), ("masterWait", "master_wait"), ("workerSignal", "worker_signal"),
           ("workerWait", "worker_wait")]


def translate(path):
    src = strip_comments(open(path).read())
    progs = {}
    for lean, cpp in FUNCS:
        progs[lean] = tr(split_statements(function_body(src, cpp)))
    for mlean, mcpp in MODES:
        for lean, cpp in METHODS:
            progs[mlean + "." + lean] = tr(split_statements(function_body(src, mcpp + "::" + cpp)))
    return progs


def render(progs):
    o = ["import SgVerif.C49.Model",
         "/- GENERATED by props/C49/translate.py from src/xbt/parmap.hpp — do not edit.  One micro-op per C++ statement. -/",
         "namespace SgVerif.C49.Gen", "open SgVerif.C49", ""]
    for lean, _ in FUNCS:
        o.append("def %s : List MicroOp := [%s]" % (lean, ", ".join(progs[lean])))
    for mlean, _ in MODES:
        o.append("def %s : Synchro :=" % mlean)
        o.append("  { " + ",\n    ".join("%s := [%s]" % (lean, ", ".join(progs[mlean + "." + lean])) for lean, _ in METHODS) + " }")
    o += ["", "end SgVerif.C49.Gen", ""]
    return "\n".join(o)


if __name__ == "__main__":
    import sys
    print(render(translate(sys.argv[1] if len(sys.argv) > 1 else "/repo/src/xbt/parmap.hpp")))
