"""C49 — Parallel map processes each element exactly once.
Tie 1 (translator): translate.py maps every statement of Parmap::apply/work/next/worker_main and of the three Synchro variants
to micro-ops -> lean/SgVerif/C49/Gen.lean; Props.lean proves the generated programs are the modelled protocol.
Tie 2 (correspondence): the real simgrid::xbt::Parmap<int*> with per-element counters, vectors x threads x modes x repeated
applies; the driver runs the model under a pseudo-random schedule and evaluates "every element exactly once"."""
import difflib
import importlib.util
import json
import os
import subprocess
from vlib.core import SplitMix, REPO, LEAN

MODES = ["posix", "futex", "busy"]


def gen(rng, n):
    lines = []
    for _ in range(n):
        mode = rng.choice(MODES)
        nw = rng.choice([1, 1, 2, 2, 3, 4, 5, 7, 8, 12, 15, 16, rng.range(1, 16)])
        k = rng.range(1, 6)
        lens = []
        for _ in range(k):
            c = rng.below(8)
            lens.append(0 if c == 0 else 1 if c == 1 else nw if c == 2 else max(nw - 1, 0) if c == 3 else 500 if c == 4
                        else rng.range(0, 500))
        y = rng.choice([0, 0, 16, 128, 512])
        if mode == "busy" and nw > 8:
            lens = lens[:3]
        lines.append("%s %d %d %s" % (mode, nw, y, " ".join(map(str, lens))))
    return lines


def grid():
    """the full quantifier domain: vectors 0..500 x 1..16 threads x 3 modes, each with 3 applies (len, 500-len, len)"""
    lines = []
    for mode in MODES:
        for nw in range(1, 17):
            for ln in range(0, 501):
                lines.append("%s %d %d %d %d %d" % (mode, nw, 16 if ln % 5 == 0 else 0, ln, 500 - ln, ln))
    return lines


def run(ctx):
    ctx.cov["rule"] = ("configurations (mode, num_workers, yield rate, lengths of the successive applies on one parmap) from "
                       "splitmix64(VERIF_SEED), boundary lengths 0, 1, num_workers-1, num_workers, 500 planted; thorough adds the "
                       "full grid 0..500 x 1..16 x 3 modes; non-trivial = distinct configuration with >= 1 apply of length >= 1")
    ctx.assumptions += ["atomics are sequentially consistent in the model (memory_order_relaxed on common_index not modelled)",
                        "blocking waits are over-approximated by re-reading (safety only; termination is observed, not proved)",
                        "the OS scheduler + sched_yield injection choose the interleavings of the real runs",
                        "semantics of each micro-op in the generic interpreter (Interp.lean); the hand-written transition system is proved to be its abstraction"]
    ctx.ensure_simgrid(["simgrid"])
    # ---- tie 1: translator
    spec = importlib.util.spec_from_file_location("c49_translate", os.path.join(ctx.pdir, "translate.py"))
    tr = importlib.util.module_from_spec(spec)
    spec.loader.exec_module(tr)
    genp = os.path.join(LEAN, "SgVerif", "C49", "Gen.lean")
    accepted = open(os.path.join(ctx.pdir, "Gen.accepted.lean")).read()
    try:
        text = tr.render(tr.translate(os.path.join(REPO, "src/xbt/parmap.hpp")))
        if (open(genp).read() if os.path.exists(genp) else None) != text:
            open(genp, "w").write(text)
        if text != accepted:
            d = list(difflib.unified_diff(accepted.split("\n"), text.split("\n"), "accepted", "generated", lineterm=""))
            ctx.notes.append({"gen_differs_from_accepted": d[:40]})
            ctx.cov["gen_diff"] = d[:40]
    except tr.TranslationError as ex:
        ctx.broken.append({"kind": "translator", "error": str(ex)})
        if not os.path.exists(genp):
            open(genp, "w").write(accepted)
    ctx.lean_prove()
    drv = ctx.lean_exe()
    h = ctx.build_harness("harness.cpp", flags=("-pthread",))
    if not (drv and h):
        return
    corpus = [l.strip() for l in open(ctx.pdir + "/corpus.txt") if l.strip() and not l.startswith("#")]
    if ctx.replay:
        queries = [json.load(open(ctx.replay))["case"]["query"]]
    else:
        n = 300 if ctx.tier == "quick" else 3000
        if ctx.broken:
            n *= 10      # the tie is broken (translation failed / proof no longer builds): search for a failing input
        queries = corpus + gen(SplitMix(ctx.seed), n)
        if ctx.tier == "thorough":
            g = grid()
            SplitMix(ctx.seed ^ 0x49).shuffle(g)     # any prefix of the grid is a uniform sample of it
            queries += g
    out = []
    import time
    t0 = time.time()
    budget = 480          # seconds of real Parmap runs in the thorough tier (the machine may be shared)
    for c in range(0, len(queries), 500):
        if c > 0 and ctx.tier == "thorough" and time.time() - t0 > budget:
            ctx.cov["grid_not_run"] = len(queries) - c
            ctx.notes.append("time budget reached: %d of %d configurations run" % (c, len(queries)))
            queries = queries[:c]
            break
        chunk = queries[c:c + 500]
        try:
            rc, o, err = ctx.run_lines([h, "--log=root.thres:critical"], chunk, timeout=600)
        except subprocess.TimeoutExpired:
            ctx.violation("Parmap::apply did not return within the time limit (hang / lost wake-up)",
                          {"query": chunk[0], "chunk": chunk}, key=None)
            return
        if rc != 0 or len(o) != len(chunk):
            bad = chunk[len(o)] if len(o) < len(chunk) else None
            ctx.violation("parmap harness crashed (rc=%d) on a configuration" % rc, {"query": bad, "stderr": err[-1000:]}, key=None)
            return
        out += o
    rc, verdicts, err = ctx.run_lines([drv], out, timeout=1200)
    if rc != 0 or not verdicts or verdicts[-1] != "END %d" % len(out):
        ctx.broken.append({"kind": "driver-run", "rc": rc, "stderr": err[-2000:]})
        return
    seen = set()
    dist = {}
    for q, l, v in zip(queries, out, verdicts):
        ctx.cov["evaluations"] += 1
        t = q.split()
        dist[t[0]] = dist.get(t[0], 0) + 1
        if q not in seen and any(int(x) >= 1 for x in t[3:]):
            seen.add(q)
            ctx.cov["distinct_nontrivial"] += 1
        if v == "ok":
            ctx.cov["traces_validated_against_impl"] += 1
        elif v.startswith("MONFAIL"):
            ctx.violation(v, {"query": q, "impl": l, "verdict": v}, key=None)
        else:
            ctx.broken.append({"kind": "disagree", "line": l, "verdict": v[:400]})
    ctx.cov["modes"] = dist
    ctx.cov["samples"] = out[:3] + out[len(corpus):len(corpus) + 3]
