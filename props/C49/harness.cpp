// C49 harness: the REAL simgrid::xbt::Parmap<int*> (src/xbt/parmap.hpp) in-process, per-element atomic counters.
// stdin : <mode: posix|futex|busy> <num_workers> <yield_per_1024> <len_1> ... <len_k>     (k applies on ONE parmap)
// stdout: <query> => { <len>:<#elements applied exactly once>:<#never>:<#more than once> }*k
// `yield_per_1024`: inside the applied function, sched_yield() with that probability (per-thread xorshift), to vary the
// interleavings of the common_index.fetch_add's (no hook in parmap.hpp needed for that).
#include "src/internal_config.h" // HAVE_FUTEX_H
#include "src/xbt/parmap.hpp"
#include <simgrid/s4u/Engine.hpp>
#include <cstdio>
#include <iostream>
#include <sched.h>
#include <sstream>
#include <string>
#include <vector>

static thread_local unsigned long long rng_state = 0;
static unsigned yield_p = 0;

int main(int argc, char** argv)
{
  simgrid::s4u::Engine e(&argc, argv);
  std::string line;
  while (std::getline(std::cin, line)) {
    std::istringstream is(line);
    std::string mode;
    unsigned nw;
    if (!(is >> mode >> nw >> yield_p))
      continue;
    std::vector<unsigned> lens;
    unsigned l;
    while (is >> l)
      lens.push_back(l);
    e_xbt_parmap_mode_t m = mode == "posix" ? XBT_PARMAP_POSIX : mode == "futex" ? XBT_PARMAP_FUTEX : XBT_PARMAP_BUSY_WAIT;
    std::ostringstream out;
    {
      simgrid::xbt::Parmap<int*> parmap(nw, m);
      for (unsigned len : lens) {
        std::vector<int> cnt(len, 0);
        std::vector<int*> data(len);
        for (unsigned i = 0; i < len; i++)
          data[i] = &cnt[i];
        parmap.apply(
            [](int* p) {
              if (yield_p) {
                if (rng_state == 0)
                  rng_state = 0x9E3779B97F4A7C15ULL ^ (unsigned long long)(uintptr_t)&rng_state;
                rng_state ^= rng_state << 13;
                rng_state ^= rng_state >> 7;
                rng_state ^= rng_state << 17;
                if ((rng_state & 1023) < yield_p)
                  sched_yield();
              }
              __atomic_fetch_add(p, 1, __ATOMIC_RELAXED);
            },
            data);
        unsigned once = 0, never = 0, more = 0;
        for (unsigned i = 0; i < len; i++) {
          int c = __atomic_load_n(&cnt[i], __ATOMIC_SEQ_CST);
          if (c == 1)
            once++;
          else if (c == 0)
            never++;
          else
            more++;
        }
        out << " " << len << ":" << once << ":" << never << ":" << more;
      }
    }
    printf("%s =>%s\n", line.c_str(), out.str().c_str());
    fflush(stdout);
  }
  return 0;
}
