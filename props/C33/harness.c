/* C33 harness: an MPI program run under smpirun; drives the REAL MPI_Cart_* / MPI_Dims_create of SMPI.
 * argv[1] = case file (every rank reads it).  World rank 0 prints one line `<query> => <answer>` per case.
 *
 *   T k d1..dk p1..pk        per world rank: `N` (not in the grid: MPI_COMM_NULL) or a 64-bit FNV-1a hash of the
 *                            rank's value sequence (see values_T)
 *   V k d1..dk p1..pk me     the value sequence of rank `me` itself (drill-down of a T line)
 *   S k d1..dk p1..pk m1..mk Cart_create then Cart_sub(remain = m): per world rank `| n v1..vn` (see values_S)
 *   R k d1..dk p1..pk c1..ck MPI_Cart_rank on arbitrary coordinates (rank 0): `code rank`
 *   D nnodes k d1..dk        MPI_Dims_create (rank 0): `code d1..dk`
 * codes: 0 = MPI_SUCCESS, 1 = MPI_ERR_ARG, 2 = MPI_ERR_DIMS, 99 = anything else.
 */
#include <mpi.h>
#include <stdio.h>
#include <stdlib.h>
#include <string.h>

#define MAXV 4096
static int vals[MAXV];
static int nvals;
static void put(int v)
{
  if (nvals < MAXV)
    vals[nvals] = v;
  nvals++;
}
static int code(int e)
{
  return e == MPI_SUCCESS ? 0 : e == MPI_ERR_ARG ? 1 : e == MPI_ERR_DIMS ? 2 : 99;
}
static unsigned long long fnv(const int* v, int n)
{
  unsigned long long h = 14695981039346656037ULL;
  for (int i = 0; i < n; i++) {
    h ^= (unsigned long long)(unsigned int)v[i];
    h *= 1099511628211ULL;
  }
  return h;
}

/* value sequence of the calling rank in the grid `cart`:
 *   code(Cart_coords(me)) c1..ck ; code(Cart_rank(c)) rank ;
 *   for dir, for disp in [-2d, 2d]: code(Cart_shift) src dst ; code(Cart_rank(c with c[dir]+disp)) rank      */
static void values_T(MPI_Comm cart, int k, const int* dims)
{
  int me;
  MPI_Comm_rank(cart, &me);
  int c[8] = {-7, -7, -7, -7, -7, -7, -7, -7};
  put(code(MPI_Cart_coords(cart, me, k, c)));
  for (int i = 0; i < k; i++)
    put(c[i]);
  int r = -777;
  put(code(MPI_Cart_rank(cart, c, &r)));
  put(r);
  for (int dir = 0; dir < k; dir++)
    for (int disp = -2 * dims[dir]; disp <= 2 * dims[dir]; disp++) {
      int src = -777, dst = -777;
      put(code(MPI_Cart_shift(cart, dir, disp, &src, &dst)));
      put(src);
      put(dst);
      int c2[8];
      memcpy(c2, c, sizeof c2);
      c2[dir] += disp;
      r = -777;
      put(code(MPI_Cart_rank(cart, c2, &r)));
      put(r);
    }
}

/* value sequence of the calling rank for Cart_sub:
 *   code(Cart_sub) isnull ; if not null: subrank subsize nd  dims[nd] periods[nd] coords[nd] (Cart_get)
 *   members (sub ranks 0..size-1 as ranks of the parent grid) ;
 *   if every dim > 0:  1 code(Cart_coords(subrank)) c[nd]  then for dir: code(Cart_shift(dir,1)) src dst ; else 0 */
static void values_S(MPI_Comm cart, int k, const int* remain)
{
  MPI_Comm sub = MPI_COMM_NULL;
  put(code(MPI_Cart_sub(cart, remain, &sub)));
  put(sub == MPI_COMM_NULL);
  if (sub == MPI_COMM_NULL)
    return;
  int sr, ss, nd = -1;
  MPI_Comm_rank(sub, &sr);
  MPI_Comm_size(sub, &ss);
  MPI_Cartdim_get(sub, &nd);
  put(sr);
  put(ss);
  put(nd);
  int d[8] = {-7, -7, -7, -7, -7, -7, -7, -7}, p[8] = {-7, -7, -7, -7, -7, -7, -7, -7},
      c[8] = {-7, -7, -7, -7, -7, -7, -7, -7};
  if (nd > 0)
    MPI_Cart_get(sub, nd, d, p, c);
  for (int i = 0; i < nd; i++)
    put(d[i]);
  for (int i = 0; i < nd; i++)
    put(p[i]);
  for (int i = 0; i < nd; i++)
    put(c[i]);
  MPI_Group gs, gc;
  MPI_Comm_group(sub, &gs);
  MPI_Comm_group(cart, &gc);
  int in[64], out[64];
  for (int i = 0; i < ss && i < 64; i++)
    in[i] = i;
  MPI_Group_translate_ranks(gs, ss, in, gc, out);
  for (int i = 0; i < ss; i++)
    put(out[i]);
  MPI_Group_free(&gs);
  MPI_Group_free(&gc);
  int allpos = 1;
  for (int i = 0; i < nd; i++)
    if (d[i] <= 0)
      allpos = 0; /* the library would divide by zero (SIGFPE) in coords(): do not call it */
  put(allpos);
  if (allpos) {
    int cc[8] = {-7, -7, -7, -7, -7, -7, -7, -7};
    if (nd > 0) {
      put(code(MPI_Cart_coords(sub, sr, nd, cc)));
      for (int i = 0; i < nd; i++)
        put(cc[i]);
    }
    for (int dir = 0; dir < nd; dir++) {
      int src = -777, dst = -777;
      put(code(MPI_Cart_shift(sub, dir, 1, &src, &dst)));
      put(src);
      put(dst);
    }
  }
  MPI_Comm_free(&sub);
}

int main(int argc, char** argv)
{
  MPI_Init(&argc, &argv);
  int wr, np;
  MPI_Comm_rank(MPI_COMM_WORLD, &wr);
  MPI_Comm_size(MPI_COMM_WORLD, &np);
  FILE* f = fopen(argv[1], "r");
  if (!f) {
    if (wr == 0)
      fprintf(stderr, "cannot open %s\n", argv[1]);
    MPI_Finalize();
    return 2;
  }
  static char line[4096];
  unsigned long long* hs = malloc(sizeof(unsigned long long) * np);
  int* all                = malloc(sizeof(int) * 160 * np);
  while (fgets(line, sizeof line, f)) {
    size_t L = strlen(line);
    while (L > 0 && (line[L - 1] == '\n' || line[L - 1] == ' '))
      line[--L] = 0;
    if (L == 0)
      continue;
    char kind = line[0];
    int a[64], na = 0;
    char* s = line + 1;
    char* e;
    for (;;) {
      long v = strtol(s, &e, 10);
      if (e == s)
        break;
      a[na++] = (int)v;
      s       = e;
    }
    nvals = 0;
    if (kind == 'T' || kind == 'V' || kind == 'S') {
      int k      = a[0];
      int* dims  = a + 1;
      int* pers  = a + 1 + k;
      MPI_Comm cart = MPI_COMM_NULL;
      MPI_Cart_create(MPI_COMM_WORLD, k, dims, pers, 0, &cart);
      if (kind == 'T') {
        unsigned long long h = 0;
        int member           = cart != MPI_COMM_NULL;
        if (member) {
          values_T(cart, k, dims);
          if (nvals > MAXV) {
            fprintf(stderr, "value buffer too small\n");
            abort();
          }
          h = fnv(vals, nvals);
        }
        unsigned long long mine[2] = {(unsigned long long)member, h};
        unsigned long long* buf    = wr == 0 ? malloc(sizeof(unsigned long long) * 2 * np) : NULL;
        MPI_Gather(mine, 2, MPI_UNSIGNED_LONG_LONG, buf, 2, MPI_UNSIGNED_LONG_LONG, 0, MPI_COMM_WORLD);
        if (wr == 0) {
          printf("%s =>", line);
          for (int i = 0; i < np; i++)
            if (buf[2 * i])
              printf(" %llu", buf[2 * i + 1]);
            else
              printf(" N");
          printf("\n");
          free(buf);
        }
      } else if (kind == 'V') {
        int who = a[1 + 2 * k];
        if (wr == who) {
          printf("%s =>", line);
          if (cart == MPI_COMM_NULL)
            printf(" N");
          else {
            values_T(cart, k, dims);
            for (int i = 0; i < nvals && i < MAXV; i++)
              printf(" %d", vals[i]);
          }
          printf("\n");
        }
      } else {
        int* remain = a + 1 + 2 * k;
        int mine[160];
        if (cart != MPI_COMM_NULL)
          values_S(cart, k, remain);
        if (nvals > 159) {
          fprintf(stderr, "S buffer too small\n");
          abort();
        }
        mine[0] = cart == MPI_COMM_NULL ? -1 : nvals;
        memcpy(mine + 1, vals, sizeof(int) * (nvals < 159 ? nvals : 159));
        MPI_Gather(mine, 160, MPI_INT, all, 160, MPI_INT, 0, MPI_COMM_WORLD);
        if (wr == 0) {
          printf("%s =>", line);
          for (int i = 0; i < np; i++) {
            int n = all[160 * i];
            printf(" | %d", n);
            for (int j = 0; j < n; j++)
              printf(" %d", all[160 * i + 1 + j]);
          }
          printf("\n");
        }
      }
      if (cart != MPI_COMM_NULL)
        MPI_Comm_free(&cart);
    } else if (kind == 'R') {
      int k      = a[0];
      int* dims  = a + 1;
      int* pers  = a + 1 + k;
      int* cs    = a + 1 + 2 * k;
      MPI_Comm cart = MPI_COMM_NULL;
      MPI_Cart_create(MPI_COMM_WORLD, k, dims, pers, 0, &cart);
      if (wr == 0) {
        int r = -777;
        int e2 = MPI_Cart_rank(cart, cs, &r);
        printf("%s => %d %d\n", line, code(e2), r);
      }
      if (cart != MPI_COMM_NULL)
        MPI_Comm_free(&cart);
    } else if (kind == 'D') {
      if (wr == 0) {
        int nn = a[0], k = a[1];
        int d[16];
        for (int i = 0; i < k; i++)
          d[i] = a[2 + i];
        int e2 = MPI_Dims_create(nn, k, d);
        printf("%s => %d", line, code(e2));
        for (int i = 0; i < k; i++)
          printf(" %d", d[i]);
        printf("\n");
      }
    }
  }
  fflush(stdout);
  fclose(f);
  free(hs);
  free(all);
  MPI_Finalize();
  return 0;
}
