"""C33 — Cartesian topologies follow MPI rules.
Theorems: lean/SgVerif/C33/Props.lean.  Tie: the model (lean/SgVerif/C33/Model.lean, smpi_topo.cpp line by line) is
compared with the real MPI_Cart_* / MPI_Dims_create, called from an MPI program under smpirun, on the COMPLETE stated
domain in the thorough tier (every dims vector with <= 4 dims and <= 64 nodes, every periodicity pattern, every rank,
direction and displacement in [-2d, 2d]; every Cart_sub selection; Dims_create for nnodes 1..64 x ndims 1..4 x
given-entry patterns) and on all grids of <= 16 nodes + a seeded subset in the quick tier."""
import itertools
import json
import os
from concurrent.futures import ThreadPoolExecutor

from vlib import core
from vlib.core import SplitMix

# which parts of proposed_fix.diff are applied to /repo (the model must follow the code): flip when the fix: commit lands
FIXED = {"sub": True, "dims": True}
KEYS = {"cart-sub-built-from-parent-rank", "dims-create-given-product-not-dividing"}


def shapes(k, limit):
    if k == 0:
        yield ()
        return
    for d in range(1, limit + 1):
        for rest in shapes(k - 1, limit // d):
            yield (d,) + rest


def prod(s):
    n = 1
    for d in s:
        n *= d
    return n


def J(xs):
    return " ".join(map(str, xs))


def divs(n):
    return [d for d in range(1, n + 1) if n % d == 0]


def dims_entries(nn):
    nd = next(d for d in range(2, nn + 3) if nn % d != 0)
    return [0] + divs(nn) + [nd, -1]


def gen(ctx, rng, full):
    """-> {np: [query lines]}"""
    b = {16: [], 64: [], 1: []}
    allshapes = [s for k in range(1, 5) for s in shapes(k, 64)]
    small = [s for s in allshapes if prod(s) <= 16]
    big = [s for s in allshapes if prod(s) > 16]
    if full:
        tsel = big
        ssel = big
    else:
        planted = [(64,), (63,), (8, 8), (4, 4, 4), (2, 2, 4, 4), (1, 1, 1, 64), (2, 2, 2, 8), (3, 7, 3), (1, 17), (5, 1, 12), (2, 32)]
        tsel = planted + [rng.choice(big) for _ in range(40)]
        ssel = planted + [rng.choice(big) for _ in range(50)]
    for s in small:
        k = len(s)
        for p in itertools.product([0, 1], repeat=k):
            b[16].append("T %d %s %s" % (k, J(s), J(p)))
        for m in itertools.product([0, 1], repeat=k):
            p = [rng.below(2) for _ in range(k)]
            b[16].append("S %d %s %s %s" % (k, J(s), J(p), J(m)))
    for s in tsel:
        k = len(s)
        pats = list(itertools.product([0, 1], repeat=k))
        if not full:
            pats = [rng.choice(pats), tuple([1] * k), tuple([0] * k)] if s in tsel[:11] else [rng.choice(pats)]
        for p in pats:
            b[64].append("T %d %s %s" % (k, J(s), J(p)))
    for s in ssel:
        k = len(s)
        pats = list(itertools.product([0, 1], repeat=k))
        if not full:
            pats = [rng.choice(pats), rng.choice(pats)]
        for m in pats:
            p = [rng.below(2) for _ in range(k)]
            b[64].append("S %d %s %s %s" % (k, J(s), J(p), J(m)))
    # Cart_rank on arbitrary coordinate vectors (several coordinates out of range at once, far out of range)
    for i in range(3000 if full else 400):
        s = rng.choice(small if rng.below(3) else big)
        k = len(s)
        p = [rng.below(2) for _ in range(k)]
        far = rng.below(8) == 0
        cs = [rng.range(-3 * d - (1000 if far else 0), 3 * d + (1000 if far else 0)) if rng.below(2) else rng.range(0, d - 1) for d in s]
        b[16 if prod(s) <= 16 else 64].append("R %d %s %s %s" % (k, J(s), J(p), J(cs)))
    # Dims_create
    if full:
        for nn in range(1, 65):
            e = dims_entries(nn)
            for k in range(1, 5):
                for t in itertools.product(e, repeat=k):
                    b[1].append("D %d %d %s" % (nn, k, J(t)))
    else:
        for nn in range(1, 65):
            for k in range(1, 5):
                b[1].append("D %d %d %s" % (nn, k, J([0] * k)))        # all free
        for i in range(3000):
            nn = rng.range(1, 64)
            k = rng.range(1, 4)
            e = dims_entries(nn)
            t = [0 if rng.below(3) == 0 else rng.choice(e) for _ in range(k)]
            b[1].append("D %d %d %s" % (nn, k, J(t)))
    # malformed stream for Dims_create
    for nn, t in [(0, [0]), (-4, [0, 0]), (5, []), (7, [7, 7]), (6, [-2, 0]), (12, [5, 0]), (1, [0, 0, 0, 0]), (64, [128, 0]),
                  (36, [6, 6, 0]), (36, [6, 0, 6]), (8, [4, 4, 0]), (2, [2, 2, 0, 0]), (49, [0, 0]), (25, [0, 0, 0]), (9, [0, 0])]:
        b[1].append("D %d %d %s" % (nn, len(t), J(t)))
    for k in b:
        b[k] = list(dict.fromkeys(q.strip() for q in b[k]))
    return b


class Runner:
    def __init__(self, ctx, h, drv):
        self.ctx, self.h, self.drv = ctx, h, drv
        w = ctx.work
        self.plat = os.path.join(w, "plat.xml")
        with open(self.plat, "w") as f:
            f.write("<?xml version='1.0'?>\n<!DOCTYPE platform SYSTEM \"https://simgrid.org/simgrid.dtd\">\n<platform version=\"4.1\">\n"
                    "  <cluster id=\"c\" prefix=\"n\" suffix=\"\" radical=\"0-63\" speed=\"1Gf\" bw=\"1GBps\" lat=\"10us\"/>\n</platform>\n")
        self.hosts = os.path.join(w, "hosts")
        with open(self.hosts, "w") as f:
            f.write("".join("n%d\n" % i for i in range(64)))
        fx = set(os.environ.get("VERIF_C33_FIXED", "").split(",")) | {k for k, v in FIXED.items() if v}
        self.drvargs = ["fix" + k for k in ("sub", "dims") if k in fx]
        # e.g. VERIF_C33_WRAPPER="env LD_PRELOAD=/tmp/x/libpatched_topo.so" runs the harness on a patched smpi_topo.cpp (mutation testing)
        self.wrapper = os.environ.get("VERIF_C33_WRAPPER")

    def run(self, np_, queries, tag):
        """-> list of (query, impl_line or None, verdict or None)"""
        ctx = self.ctx
        cf = os.path.join(ctx.work, "cases-%s.txt" % tag)
        with open(cf, "w") as f:
            f.write("\n".join(queries) + "\n")
        cmd = [os.path.join(core.SGBUILD, "smpi_script", "bin", "smpirun")] + (["-wrapper", self.wrapper] if self.wrapper else []) + [
               "-np", str(max(np_, 1)), "-platform", self.plat,
               "-hostfile", self.hosts, "--log=root.thres:critical", "--cfg=smpi/errors-are-fatal:no", self.h, cf]
        rc, out, err = ctx.run_lines(cmd, [], timeout=3000)
        byq = {}
        for l in out:
            if " =>" in l:
                byq[l.split(" =>", 1)[0]] = l
        if rc != 0 or any(q not in byq for q in queries):
            ctx.broken.append({"kind": "harness-run", "rc": rc, "stderr": err[-1500:], "missing": [q for q in queries if q not in byq][:3]})
            return [(q, byq.get(q), None) for q in queries]
        lines = [byq[q] for q in queries]
        rc, verdicts, err = ctx.run_lines([self.drv] + self.drvargs, lines, timeout=3000)
        if rc != 0 or not verdicts or verdicts[-1] != "END %d" % len(lines):
            ctx.broken.append({"kind": "driver-run", "rc": rc, "stderr": err[-1500:]})
            return [(q, l, None) for q, l in zip(queries, lines)]
        return list(zip(queries, lines, verdicts))


def run(ctx):
    ctx.cov["rule"] = ("non-trivial = distinct query that is (a) a grid (shape x periodicity) with >= 2 nodes on which every rank's "
                       "complete value vector (coords, rank o coords, all shifts and Cart_rank for every direction and displacement in "
                       "[-2d,2d]) was compared, (b) a Cart_sub selection keeping some but not all dimensions of a grid with >= 2 nodes, "
                       "(c) a Dims_create query with >= 1 free entry and nnodes >= 2, (d) a Cart_rank query with an out-of-range coordinate")
    ctx.assumptions += ["32-bit int overflow of rank/multiplier arithmetic is not modelled (|disp| <= 2*dim, nnodes <= 64 in the runs)",
                        "T lines compare a 64-bit FNV-1a hash of each rank's complete value vector (model, MPI spec and implementation); "
                        "a differing hash is drilled down with the explicit vector (V lines)",
                        "Topo_Cart::shift accepts direction == ndims (`ndims_ < direction`): outside the quantifier, not checked",
                        "Cart_sub keeping no dimension returns MPI_COMM_NULL on ranks != 0 (MPI: a 0-dim communicator each): modelled as "
                        "written, compared, not monitored (the property speaks of the selected dimensions)"]
    ctx.ensure_simgrid(["simgrid", "smpimain"])
    ctx.lean_prove()
    drv = ctx.lean_exe()
    h = ctx.build_harness("harness.c", smpi=True, lang="c")
    if not (drv and h):
        return
    R = Runner(ctx, h, drv)
    if ctx.replay:
        case = json.load(open(ctx.replay))["case"]
        res = R.run(case["np"], [case["query"]], "replay")
        handle(ctx, R, res, case["np"])
        return
    full = ctx.tier == "thorough" or bool(ctx.broken)      # search mode: a broken proof/build => the complete enumeration
    rng = SplitMix(ctx.seed)
    corpus = []
    for l in open(ctx.pdir + "/corpus.txt"):
        l = l.strip()
        if l and not l.startswith("#"):
            np_, q = l.split(" ", 1)
            corpus.append((int(np_), q))
    b = gen(ctx, rng, full)
    jobs = []
    for np_ in sorted(set(n for n, _ in corpus)):
        jobs.append((np_, [q for n, q in corpus if n == np_], "corpus%d" % np_))
    nchunk = {16: 2, 64: 12 if full else 3, 1: 2 if full else 1}
    for np_, qs in b.items():
        k = nchunk[np_]
        # interleave so that chunks have similar cost
        for i in range(k):
            part = qs[i::k]
            if part:
                jobs.append((np_, part, "%d-%d" % (np_, i)))
    ctx.cov["exhaustive"] = bool(full)
    ctx.cov["distribution"] = {"np%d" % n: len(q) for n, q in b.items()}
    with ThreadPoolExecutor(max_workers=6) as ex:
        results = list(ex.map(lambda j: (j[0], R.run(*j)), jobs))
    for np_, res in results:
        handle(ctx, R, res, np_)
    ctx.cov["samples"] = [r[1][:200] for _, res in results[:3] for r in res[:2] if r[1]]


def nontrivial(q):
    t = q.split()
    kind = t[0]
    if kind == "D":
        return int(t[1]) >= 2 and "0" in t[3:]
    k = int(t[1])
    dims = list(map(int, t[2:2 + k]))
    if prod(dims) < 2:
        return False
    if kind == "T":
        return True
    if kind == "S":
        m = t[2 + 2 * k:2 + 3 * k]
        return "1" in m and "0" in m
    if kind == "R":
        cs = list(map(int, t[2 + 2 * k:2 + 3 * k]))
        return any(c < 0 or c >= d for c, d in zip(cs, dims))
    return False


def drill(ctx, R, q, np_):
    """a T line whose hash differs: run every rank of that grid verbosely; -> (what, case) of the first failing rank"""
    t = q.split()
    k = int(t[1])
    n = prod(map(int, t[2:2 + k]))
    vq = ["V " + " ".join(t[1:]) + " %d" % r for r in range(min(n + 1, np_))]
    res = R.run(np_, vq, "drill")
    for vq_, l, v in res:
        if v and v != "ok":
            return v, {"np": np_, "query": vq_, "impl": (l or "")[:2000], "verdict": v}
    return None, None


def handle(ctx, R, res, np_):
    drilled = 0
    for q, l, v in res:
        ctx.cov["evaluations"] += 1
        if v is None:
            continue
        if v == "ok":
            ctx.cov["traces_validated_against_impl"] += 1
            if nontrivial(q):
                ctx.cov["distinct_nontrivial"] += 1
            continue
        case = {"np": np_, "query": q, "impl": (l or "")[:2000], "verdict": v[:600]}
        if q.startswith("T ") and drilled < 3:
            drilled += 1
            what, c2 = drill(ctx, R, q, np_)
            if what is None:
                ctx.broken.append({"kind": "hash-differs-but-values-agree", "case": case})
                continue
            v, case = what, c2
        if v.startswith("MONFAIL"):
            key = None
            for kk in KEYS:
                if "key=" + kk in v:
                    key = kk
            ctx.violation(v[:400], case, key=key)
            if "model=differ" in v and len(ctx.broken) < 40:
                ctx.broken.append({"kind": "correspondence", "case": case})
        elif v.startswith("DISAGREE"):
            # the MPI-level monitor held on the implementation's answer but the model of the code predicts something else
            if len(ctx.broken) < 40:
                ctx.broken.append({"kind": "correspondence", "case": case})
        else:
            ctx.broken.append({"kind": "driver-verdict", "case": case})
