"""C40 — ODPOR explores each equivalence class once.
Theorems: lean/SgVerif/C40/Props.lean (trace equivalence, the checker's are_equivalent decides it, canonical form).
Tie: generated programs without reachable failure (no soft-locked state) run under simgrid-mc with reduction odpor and
none; the complete executions ("Execution came to an end at <path>", mc_dfs at verbose) are replayed in the reference LTS
to obtain their transitions, classes are computed with the Lean canonical form under the transliterated
Transition::depends: odpor's executions must be pairwise inequivalent and as many as the classes of the unreduced run.
The checker's own model-check/debug-optimality verdict is recorded as a second opinion."""
import json
import os
import sys

sys.path.insert(0, os.path.join(os.path.dirname(os.path.abspath(__file__)), "..", "_shared", "mcref"))
import mclib  # noqa: E402
from vlib.core import SplitMix, InfraError  # noqa: E402

VERB = ["--log=mc_dfs.thres:verbose"]


def rearmed_barrier(prog):
    """some barrier is waited on more often than it expects participants: a second round exists (the registered
    barrier finding is about the ASYNC_LOCK of a next round racing with an already granted WAIT)"""
    secs = prog.split(" ; ")
    exp = []
    for t in secs[0].split():
        if t.startswith("b=") and t[2:] != "-":
            exp = [int(x) for x in t[2:].split(",")]
    cnt = {}
    for sec in secs[1:]:
        for t in sec.split()[1:]:
            if t[0] == "B":
                cnt[int(t[1:])] = cnt.get(int(t[1:]), 0) + 1
    return any(k < len(exp) and n > exp[k] for k, n in cnt.items())


def classify(prog, symptom, rc=None):
    """symptom: 'rc' (non-zero exit), 'dup' (two equivalent executions), 'count' (fewer/more executions than classes).
    A key is returned only for the witness class of a registered finding; everything else (e.g. a program made of
    semaphores and mutexes only with fewer executions than classes) is a plain violation."""
    f = mclib.features(prog)
    if symptom == "rc":
        if "X" in f["ops"] and f["nchild"] > 0:
            return "odpor-random-with-created-actor-spurious-crash"
        if "X" in f["ops"] and rc == 4:
            return "odpor-random-spurious-crash"            # proposed (thorough tier): odpor executes a disabled transition
        if "X" in f["ops"] and rc == 139:
            return "odpor-random-unbounded-exploration"     # proposed (thorough tier): odpor never ends, stack overflow
        return None
    if "X" in f["ops"]:
        return "odpor-random-redundant-executions"
    if "B" in f["ops"] and symptom == "count" and rearmed_barrier(prog):
        return "odpor-barrier-fewer-executions-than-classes"
    if "t" in f["ops"]:
        return "odpor-commtest-classes-mismatch"
    if f["nchild"] >= 2 and symptom == "count":
        return "odpor-concurrent-actor-create-fewer-executions-than-classes"
    return None


# ------------------------------------------------------------------------------------------------ targeted generator
# ODPOR keeps, per state, a wakeup tree of planned-but-unexplored branches next to the explored ones (the sleep set); a
# race found deeper is reversed by inserting a sequence into the tree of the state before it, unless one of its
# initials sleeps.  The two sets only differ in states with >= 2 pending siblings and a later race towards one of them:
# that needs >= 3 actors and two different races rooted at the same state.  The programs of the shared generator are
# mostly 2-actor ones; these classes build the >= 3-actor shapes on purpose (all drawn from SplitMix).

def _w(rng, pairs):
    """weighted choice among (weight, value)"""
    tot = sum(w for w, _ in pairs)
    k = rng.below(tot)
    for w, v in pairs:
        if k < w:
            return v
        k -= w
    return pairs[-1][1]


def gen_odpor_program(rng, klass=None):
    """-> (program, class name).  3 (sometimes 4) actors, <= ~12 transitions in all so that the unreduced exploration
    stays small.  Programs with a reachable deadlock are filtered afterwards by the reference explorer."""
    klass = klass if klass is not None else rng.below(6)
    nact = _w(rng, [(4, 3), (1, 4)])
    hdr, statics = {}, []
    if klass == 0:
        # one semaphore: releasers, single/double acquirers, acquire-release pairs (the hand-counted 8-class shape
        # `R | A A | R` with capacity 1 is one point of this class)
        name = "sem-multi"
        ns = _w(rng, [(3, 1), (1, 2)])
        multi = [["A%d", "A%d"], ["A%d", "A%d"], ["A%d", "A%d"], ["A%d", "R%d", "A%d"], ["A%d", "A%d", "A%d"]]
        giving = [["R%d"], ["R%d"], ["R%d"], ["R%d", "R%d"], ["A%d", "R%d"], ["R%d", "A%d"]]
        other = giving + [["A%d"], ["A%d", "R%d"]] + multi[:2]
        if rng.chance(3, 4):        # a multiple acquirer meets >= 2 actors that release (the >= 2 races of one state)
            picks = [rng.choice(giving) for _ in range(nact)]
            picks[rng.below(nact)] = rng.choice(multi)
            if nact == 4 and rng.chance(1, 2):
                free = [i for i in range(nact) if picks[i] not in multi]
                picks[rng.choice(free)] = rng.choice(other)
        else:
            picks = [rng.choice(other) for _ in range(nact)]
        budget = 11 if nact == 3 else 10
        for pk in picks:
            s = rng.below(ns)
            statics.append([t % s for t in pk])
        hdr["s"] = []
        for k in range(ns):
            need = sum(t == "A%d" % k for a in statics for t in a) - sum(t == "R%d" % k for a in statics for t in a)
            hdr["s"].append(max(0, need) + _w(rng, [(3, 0), (1, 1)]))
        _shrink(statics, budget)
    elif klass == 1:
        # mutex + semaphore: a race on the mutex and a race on the semaphore rooted at the same state
        name = "mutex-sem"
        hdr["m"] = 1
        hdr["s"] = [_w(rng, [(2, 1), (1, 0), (1, 2)])]
        bodies = [["L0", "R0", "U0"], ["A0", "A0"], ["L0", "U0", "R0"], ["R0"], ["A0", "L0", "U0"], ["T0", "R0"],
                  ["L0", "U0"], ["A0", "R0"], ["R0", "L0", "U0"]]
        for _ in range(nact):
            statics.append(list(rng.choice(bodies)))
        _shrink(statics, 11 if nact == 3 else 10)
    elif klass == 2:
        # one-round barrier (every actor arrives once) with mutex / semaphore traffic around it
        name = "barrier-one-round"
        hdr["b"] = [nact]
        hdr["m"] = 1
        hdr["s"] = [1]
        pre = [[], [], ["R0"], ["L0", "U0"], ["T0"], ["A0"]]
        post = [[], [], ["R0"], ["A0"], ["L0", "U0"], ["U0"]]
        for _ in range(nact):
            statics.append(list(rng.choice(pre)) + ["B0"] + list(rng.choice(post)))
        _shrink(statics, 12 if nact == 3 else 11, keep="B")
    elif klass == 3:
        # two mutexes, three actors: critical sections on different / nested mutexes
        name = "mutex-multi"
        hdr["m"] = 2
        bodies = [["L0", "U0"], ["L1", "U1"], ["L0", "U0", "L1", "U1"], ["L0", "L1", "U1", "U0"], ["T0", "U0"], ["T1"],
                  ["L1", "U1", "L0", "U0"]]
        for _ in range(nact):
            statics.append(list(rng.choice(bodies)))
        _shrink(statics, 11 if nact == 3 else 10)
    elif klass == 4:
        # mailbox analogue of class 0: several senders, a receiver that receives twice
        name = "mbox-multi"
        nx = _w(rng, [(3, 1), (1, 2)])
        hdr["x"] = nx
        v = 0
        nrecv = 0
        for i in range(nact):
            k = _w(rng, [(3, "S"), (2, "GG"), (1, "G"), (1, "SS")])
            ops = []
            for ch in k:
                x = rng.below(nx)
                if ch == "S":
                    v += 1
                    ops.append("S%d.%d" % (x, v))
                else:
                    nrecv += 1
                    ops.append("G%d" % x)
            statics.append(ops)
        _shrink(statics, 10)
    else:
        # semaphore + mailbox + mutex soup over three actors, no MC_random, no test
        name = "mixed"
        hdr["m"] = 1
        hdr["s"] = [_w(rng, [(2, 1), (1, 0), (1, 2)])]
        hdr["x"] = 1
        v = 0
        for i in range(nact):
            ops = []
            for _ in range(rng.range(1, 2)):
                k = rng.below(6)
                if k == 0:
                    ops += ["L0", "U0"]
                elif k == 1:
                    ops += ["A0"]
                elif k == 2:
                    ops += ["R0"]
                elif k == 3:
                    v += 1
                    ops += ["S0.%d" % v]
                elif k == 4:
                    ops += ["G0"]
                else:
                    ops += ["A0", "R0"]
            statics.append(ops)
        _shrink(statics, 11 if nact == 3 else 10)
    statics = [a for a in statics if a]
    return mclib._fmt(hdr, statics, []), name


COST = {"L": 2, "A": 2, "B": 2, "S": 2, "G": 2, "W": 3}


def _cost(statics):
    return sum(COST.get(t[0], 1) for a in statics for t in a)


def _shrink(statics, budget, keep=""):
    """drop trailing ops of the longest actor until the number of transitions fits the budget"""
    while _cost(statics) > budget:
        cands = [a for a in statics if a and a[-1][0] not in keep]
        if not cands:
            break
        max(cands, key=lambda a: sum(COST.get(t[0], 1) for t in a)).pop()


def run(ctx):
    ctx.cov["rule"] = ("programs without reachable deadlock/assertion failure and with paths shorter than 100 characters, from "
                       "(a) the corpus, (b) the C38 generator, (c) the targeted generator of this check (>= 3 actors: several "
                       "releasers + multiple acquirers of a semaphore, mutex+semaphore, one-round barrier with mutex/semaphore "
                       "traffic, two mutexes, several senders + a double receiver, mixed); a case = one program (odpor run, "
                       "+ unreduced run when the program has few interleavings, else the classes of the reference explorer); "
                       "non-trivial = distinct program with >= 2 classes")
    ctx.assumptions += [
        "ODPOR's optimality (wakeup trees, sleep sets) is checked per program, not proved",
        "lean/SgVerif/McRef/Dep.lean is a hand transliteration of Transition::dispatch_depends for the kinds of the "
        "mini-language (C39 owns the generated table); the transitions of an execution are obtained by replaying the "
        "printed path in the reference LTS",
        "for programs with many interleavings the classes are those of the reference explorer alone (it is compared with "
        "the unreduced run of the real checker on the smaller programs, and in C38)",
        "MazurkiewiczTraces::are_equivalent is not called in-process (only its debug-optimality verdict is recorded)"]
    ctx.ensure_simgrid(["simgrid", "simgrid-mc"])
    ctx.lean_prove()
    drv = ctx.lean_exe()
    interp = ctx.build_harness(mclib.INTERP_SRC, name="interp")
    if not (drv and interp):
        return
    quick = ctx.tier == "quick"
    cap = 300 if quick else 2000           # interleavings of a program of the corpus / the shared generator
    tcap = 800 if quick else 3000          # ... of the targeted generator (reference classes only above none_max)
    none_max = 130 if quick else 400       # unreduced run of the real checker only below that many interleavings
    n_generic, n_target = (8, 44) if quick else (100, 200)
    n_dbg = 12 if quick else 10 ** 6       # second opinion (debug-optimality) on that many programs
    corpus = [l.strip() for l in open(os.path.join(ctx.pdir, "corpus.txt")) if l.strip() and not l.startswith("#")]
    klass_of = {}
    if ctx.replay:
        progs = [json.load(open(ctx.replay))["case"]["program"]]
        targeted = []
    else:
        rng = SplitMix(ctx.seed)
        hard = 4 if ctx.broken else 1
        n = (60 if quick else 400) * hard
        progs = corpus + [mclib.gen_program(rng.fork(i), big=not quick)[0] for i in range(n)]
        trng = rng.fork(1 << 20)
        targeted = [gen_odpor_program(trng.fork(i)) for i in range(n_target * 5 * hard)]
        n_target *= hard
    allp = progs + [p for p, _ in targeted]
    refs = mclib.oracle(ctx, drv, allp, max(cap, tcap))
    if refs is None:
        return
    ref_of = {}
    for p, r in zip(allp, refs):
        ref_of.setdefault(p, r)

    def fine(p, c):
        r = ref_of.get(p)
        return r and not (r["capped"] or r["exh"] or r["crash"] or r["dl"] or r["af"]) and r["nexec"] <= c

    if ctx.replay:
        sel = [p for p in progs if fine(p, max(cap, tcap))]
    else:
        sel = [p for p in corpus if fine(p, cap)]
        gen_ok = [p for p in dict.fromkeys(progs[len(corpus):]) if fine(p, cap) and p not in sel]
        sel += gen_ok[:n_generic]
        # targeted programs: round-robin over the classes so that every class is present whatever the filter keeps
        byk = {}
        for p, k in targeted:
            if fine(p, tcap) and ref_of[p]["nexec"] >= 3 and p not in sel and p not in klass_of:
                klass_of[p] = k
                byk.setdefault(k, []).append(p)
        order = sorted(byk)
        pick = []
        while len(pick) < n_target and any(byk.values()):
            for k in order:
                if byk[k] and len(pick) < n_target:
                    pick.append(byk[k].pop(0))
        sel += pick
    with_none = {p for p in sel if ref_of[p]["nexec"] <= none_max or p in corpus}
    jobs = []
    for i, p in enumerate(sel):
        jobs.append(((i, "odpor"), p, mclib.mc_flags("odpor", extra=VERB)))
        if p in with_none:
            jobs.append(((i, "none"), p, mclib.mc_flags("none", extra=VERB)))
        if i < n_dbg:
            jobs.append(((i, "dbg"), p, mclib.mc_flags("odpor", extra=["--cfg=model-check/debug-optimality:yes"])))
    results = mclib.run_many(ctx, interp, jobs, timeout=40 if quick else 120)
    lines, meta = [], []
    second = {"agree_ok": 0, "checker_complains": 0, "not_asked": 0}
    skipped = 0
    dist = {}
    for i, p in enumerate(sel):
        ro, rn, rd = results[(i, "odpor")], results.get((i, "none")), results.get((i, "dbg"))
        for r in (ro, rn):
            # the dynamic loader could not even start the checker (libsimgrid.so being relinked by a concurrent build of
            # the shared cache): says nothing about the property
            if r and r["rc"] == 127 and "error while loading shared libraries" in r["text"]:
                raise InfraError("simgrid-mc could not be loaded (twice): " + r["text"].strip()[-200:])
        if ro["timeout"] or (rn and rn["timeout"]):
            skipped += 1
            continue
        case = {"program": p, "rc_odpor": ro["rc"], "rc_none": rn["rc"] if rn else None,
                "class": klass_of.get(p, "corpus" if p in corpus else "shared-generator"),
                "interleavings": ref_of[p]["nexec"]}
        if ro["rc"] != 0:
            ctx.cov["evaluations"] += 1
            case["tail"] = ro["text"][-800:]
            ctx.violation("odpor exits with %d on a program without reachable failure" % ro["rc"], case, key=classify(p, "rc", ro["rc"]))
            continue
        po = mclib.END_RE.findall(ro["text"])
        pn = mclib.END_RE.findall(rn["text"]) if rn else []
        if (rn and (rn["rc"] != 0 or not pn)) or any(len(x) >= 100 for x in po + pn):
            skipped += 1
            continue
        complains = None
        if rd is not None and not rd["timeout"]:
            complains = "equivalent with an already explored one" in rd["text"] or rd["rc"] not in (0,)
        case.update({"odpor_paths": po, "none_traces": len(pn) if rn else None, "debug_optimality_complains": complains})
        lines.append("cls %d %s => odpor=%s none=%s" % (max(cap, tcap), p, ",".join(po) or "-",
                                                        (",".join(pn) or "-") if rn else "*"))
        meta.append(case)
    rc, verdicts, err = ctx.run_lines([drv], lines, timeout=1800)
    if rc != 0 or not verdicts or verdicts[-1] != "END %d" % len(lines):
        ctx.broken.append({"kind": "driver-run", "rc": rc, "stderr": err[-2000:]})
        return
    for case, l, v in zip(meta, lines, verdicts):
        ctx.cov["evaluations"] += 1
        case["verdict"] = v[:400]
        d = dist.setdefault(case["class"], {"programs": 0, "nontrivial": 0, "with_unreduced_run": 0, "max_classes": 0})
        d["programs"] += 1
        d["with_unreduced_run"] += case["none_traces"] is not None
        d["max_classes"] = max(d["max_classes"], len(case["odpor_paths"]))
        if len(case["odpor_paths"]) >= 2:
            ctx.cov["distinct_nontrivial"] += 1
            d["nontrivial"] += 1
        if v == "ok":
            ctx.cov["traces_validated_against_impl"] += 1
            second["not_asked" if case["debug_optimality_complains"] is None else
                   "checker_complains" if case["debug_optimality_complains"] else "agree_ok"] += 1
        elif v.startswith("MONFAIL"):
            ctx.violation("odpor is not optimal / not exact on this program: " + v[-160:], case, key=classify(case["program"], "dup" if "two are equivalent" in v else "count"))
        else:
            ctx.broken.append({"kind": "classes-differ-from-reference", "case": case})
    ctx.cov["samples"] = [l[:300] for l in lines[:3]] + [l[:300] for l in lines[len(corpus) + n_generic:][:3]]
    ctx.cov["programs_selected"] = len(sel)
    ctx.cov["distribution"] = dist
    ctx.cov["skipped"] = skipped
    ctx.cov["debug_optimality_second_opinion"] = second
