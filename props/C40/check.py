"""C40 — ODPOR explores each equivalence class once.
Theorems: lean/SgVerif/C40/Props.lean (trace equivalence, the checker's are_equivalent decides it, canonical form).
Tie: generated programs without reachable failure (no soft-locked state) run under simgrid-mc with reduction odpor and
none; the complete executions ("Execution came to an end at <path>", mc_dfs at verbose) are replayed in the reference LTS
to obtain their transitions, classes are computed with the Lean canonical form under the transliterated
Transition::depends: odpor's executions must be pairwise inequivalent and as many as the classes of the unreduced run.
The checker's own model-check/debug-optimality verdict is recorded as a second opinion."""
import json
import os
import sys

sys.path.insert(0, os.path.join(os.path.dirname(os.path.abspath(__file__)), "..", "_shared", "mcref"))
import mclib  # noqa: E402
from vlib.core import SplitMix  # noqa: E402

VERB = ["--log=mc_dfs.thres:verbose"]


def classify(prog, symptom):
    """symptom: 'rc' (non-zero exit), 'dup' (two equivalent executions), 'count' (fewer/more executions than classes)"""
    f = mclib.features(prog)
    if symptom == "rc":
        return "odpor-random-with-created-actor-spurious-crash" if ("X" in f["ops"] and f["nchild"] > 0) else None
    if "X" in f["ops"]:
        return "odpor-random-redundant-executions"
    if "B" in f["ops"] and symptom == "count":
        return "odpor-barrier-fewer-executions-than-classes"
    if "t" in f["ops"]:
        return "odpor-commtest-classes-mismatch"
    if f["nchild"] >= 2 and symptom == "count":
        return "odpor-concurrent-actor-create-fewer-executions-than-classes"
    return None


def run(ctx):
    ctx.cov["rule"] = ("programs of the C38 generator without reachable deadlock/assertion failure and with paths shorter "
                       "than 100 characters; a case = one program (odpor run + unreduced run); non-trivial = distinct "
                       "program with >= 2 classes")
    ctx.assumptions += [
        "ODPOR's optimality (wakeup trees, sleep sets) is checked per program, not proved",
        "lean/SgVerif/McRef/Dep.lean is a hand transliteration of Transition::dispatch_depends for the kinds of the "
        "mini-language (C39 owns the generated table); the transitions of an execution are obtained by replaying the "
        "printed path in the reference LTS",
        "MazurkiewiczTraces::are_equivalent is not called in-process (only its debug-optimality verdict is recorded)"]
    ctx.ensure_simgrid(["simgrid", "simgrid-mc"])
    ctx.lean_prove()
    drv = ctx.lean_exe()
    interp = ctx.build_harness(mclib.INTERP_SRC, name="interp")
    if not (drv and interp):
        return
    quick = ctx.tier == "quick"
    cap = 300 if quick else 2000
    corpus = [l.strip() for l in open(os.path.join(ctx.pdir, "corpus.txt")) if l.strip() and not l.startswith("#")]
    if ctx.replay:
        progs = [json.load(open(ctx.replay))["case"]["program"]]
    else:
        rng = SplitMix(ctx.seed)
        n = (60 if quick else 400) * (4 if ctx.broken else 1)
        progs = corpus + [mclib.gen_program(rng.fork(i), big=not quick)[0] for i in range(n)]
    refs = mclib.oracle(ctx, drv, progs, cap)
    if refs is None:
        return
    sel = [p for p, r in zip(progs, refs)
           if r and not (r["capped"] or r["exh"] or r["crash"] or r["dl"] or r["af"]) and r["nexec"] <= cap]
    sel = list(dict.fromkeys(sel))[:(14 if quick else 160)]
    jobs = []
    for i, p in enumerate(sel):
        jobs.append(((i, "odpor"), p, mclib.mc_flags("odpor", extra=VERB)))
        jobs.append(((i, "none"), p, mclib.mc_flags("none", extra=VERB)))
        jobs.append(((i, "dbg"), p, mclib.mc_flags("odpor", extra=["--cfg=model-check/debug-optimality:yes"])))
    results = mclib.run_many(ctx, interp, jobs, timeout=40 if quick else 120)
    lines, meta = [], []
    second = {"agree_ok": 0, "checker_complains": 0}
    skipped = 0
    for i, p in enumerate(sel):
        ro, rn, rd = results[(i, "odpor")], results[(i, "none")], results[(i, "dbg")]
        if ro["timeout"] or rn["timeout"]:
            skipped += 1
            continue
        case = {"program": p, "rc_odpor": ro["rc"], "rc_none": rn["rc"]}
        if ro["rc"] != 0:
            ctx.cov["evaluations"] += 1
            case["tail"] = ro["text"][-800:]
            ctx.violation("odpor exits with %d on a program without reachable failure" % ro["rc"], case, key=classify(p, "rc"))
            continue
        po = mclib.END_RE.findall(ro["text"])
        pn = mclib.END_RE.findall(rn["text"])
        if rn["rc"] != 0 or any(len(x) >= 100 for x in po + pn) or not pn:
            skipped += 1
            continue
        complains = (not rd["timeout"]) and ("equivalent with an already explored one" in rd["text"] or rd["rc"] not in (0,))
        case.update({"odpor_paths": po, "none_traces": len(pn), "debug_optimality_complains": complains})
        lines.append("cls %d %s => odpor=%s none=%s" % (cap, p, ",".join(po) or "-", ",".join(pn) or "-"))
        meta.append(case)
    rc, verdicts, err = ctx.run_lines([drv], lines, timeout=1800)
    if rc != 0 or not verdicts or verdicts[-1] != "END %d" % len(lines):
        ctx.broken.append({"kind": "driver-run", "rc": rc, "stderr": err[-2000:]})
        return
    for case, l, v in zip(meta, lines, verdicts):
        ctx.cov["evaluations"] += 1
        case["verdict"] = v[:400]
        if len(case["odpor_paths"]) >= 2:
            ctx.cov["distinct_nontrivial"] += 1
        if v == "ok":
            ctx.cov["traces_validated_against_impl"] += 1
            second["checker_complains" if case["debug_optimality_complains"] else "agree_ok"] += 1
        elif v.startswith("MONFAIL"):
            ctx.violation("odpor is not optimal / not exact on this program: " + v[-160:], case, key=classify(case["program"], "dup" if "two are equivalent" in v else "count"))
        else:
            ctx.broken.append({"kind": "classes-differ-from-reference", "case": case})
    ctx.cov["samples"] = [l[:300] for l in lines[:3]]
    ctx.cov["programs_selected"] = len(sel)
    ctx.cov["skipped"] = skipped
    ctx.cov["debug_optimality_second_opinion"] = second
