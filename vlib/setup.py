"""MANIFEST.setup_cmd: build everything the checks need, offline, from files on disk."""
import os
import sys

ROOT = os.path.dirname(os.path.dirname(os.path.abspath(__file__)))
sys.path.insert(0, ROOT)
from vlib import core, genlake  # noqa: E402


def main():
    exes = genlake.generate(core.LEAN)
    ctx = core.Ctx("_setup", "quick", 1)
    ctx.ensure_simgrid()
    p = ctx.lake(["build", "SgVerif"] + ["drv_" + e for e in exes], timeout=7200)
    print(p.stdout[-3000:], p.stderr[-3000:])
    # a proof that does not build is reported by the property's own check, not by setup
    sys.exit(0)


if __name__ == "__main__":
    main()
