"""Run checks against the seeded changes kept under seeded/<id>/ (patch.diff + meta.json).

usage: python3 vlib/seeded.py [<seeded-id> ...]        (default: all)
For each: git -C /repo apply patch.diff; run the quick check of every property listed in meta.json["checks"]
(default: meta["property"]); git -C /repo checkout -- . ; record exit codes in seeded/RESULTS.json.
Never leaves /repo modified (also on Ctrl-C)."""
import json
import os
import subprocess
import sys
import time

ROOT = os.path.dirname(os.path.dirname(os.path.abspath(__file__)))
REPO = "/repo"


def clean():
    subprocess.run(["git", "-C", REPO, "checkout", "--", "."], check=True)


def main():
    ids = sys.argv[1:] or sorted(d for d in os.listdir(os.path.join(ROOT, "seeded"))
                                 if os.path.exists(os.path.join(ROOT, "seeded", d, "patch.diff")))
    st = subprocess.run(["git", "-C", REPO, "status", "--porcelain", "--untracked-files=no"], capture_output=True, text=True)
    if st.stdout.strip():
        sys.exit("refusing: /repo has uncommitted tracked changes:\n" + st.stdout)
    rp = os.path.join(ROOT, "seeded", "RESULTS.json")
    results = json.load(open(rp)) if os.path.exists(rp) else {}
    for sid in ids:
        d = os.path.join(ROOT, "seeded", sid)
        meta = json.load(open(os.path.join(d, "meta.json")))
        checks = meta.get("checks") or [meta["property"]]
        try:
            subprocess.run(["git", "-C", REPO, "apply", os.path.join(d, "patch.diff")], check=True)
            res = {}
            for pid in checks:
                t = time.time()
                p = subprocess.run(["./check", pid, "--tier", meta.get("tier", "quick")], cwd=ROOT, capture_output=True, text=True)
                lines = [l for l in p.stdout.split("\n") if l.startswith("VIOLATION") or l.startswith("KNOWN-FINDING")]
                res[pid] = {"exit": p.returncode, "lines": lines[:3], "wall_s": round(time.time() - t, 1)}
                print(sid, pid, "exit", p.returncode, lines[:1])
            results[sid] = {"property": meta["property"], "caught": any(r["exit"] == 1 for r in res.values()), "checks": res}
        finally:
            clean()
    # make sure the cache is rebuilt from the clean tree
    json.dump(results, open(rp, "w"), indent=1)


if __name__ == "__main__":
    main()
