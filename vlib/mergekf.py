"""3-way line-set merge of known_findings.txt while a `git merge <branch>` is in conflict: ours - (base - theirs) + (theirs - base)."""
import subprocess, sys
br = sys.argv[1]
def show(rev):
    return subprocess.run(["git", "show", rev + ":known_findings.txt"], capture_output=True, text=True).stdout.split("\n")
base = subprocess.run(["git", "merge-base", "HEAD", br], capture_output=True, text=True).stdout.strip()
b, t, o = show(base), show(br), show("HEAD")
removed = [l for l in b if l not in t]
added = [l for l in t if l not in b]
out = [l for l in o if l not in removed]
out = [l for l in out if l.strip() != ""] if False else out
for l in added:
    if l not in out:
        out.append(l)
txt = "\n".join(l for l in out if l is not None)
txt = txt.rstrip("\n") + "\n"
open("known_findings.txt", "w").write(txt)
print("removed", len(removed), "added", len(added))
