"""Confirm a BATCH of candidate seeded changes (patches touching disjoint parts of the tree) and run the checks of
their properties against the mutated tree — in the scratch worktree /var/tmp/mutcheck (Java-enabled build in
/var/tmp/mutcheck/_b for the demonstrations and the pinned tests; verification build /var/tmp/mutcache for the checks).
/repo itself is never touched.

usage: batch_seed.py <batch name> <candidate dir>...

1. scratch tree := /repo HEAD, clean build; every demo must PASS (exit 0)
2. apply all patches (refuse the batch if two patches touch the same file), rebuild; every demo must FAIL
3. run the pinned tests that the changed files can affect (once for the batch)
4. run `./check <property>` (quick) for the property of every candidate with VERIF_REPO/VERIF_CACHE on the mutated tree
5. revert; for every confirmed candidate write seeded/<id>/{patch.diff, demo, run_demo.sh, meta.json}
A check result is attributed to the candidate of its property; the batch members are recorded in meta.json."""
import json
import os
import re
import shutil
import subprocess
import sys
import time

ROOT = os.path.dirname(os.path.dirname(os.path.abspath(__file__)))
W = "/var/tmp/mutcheck"
B = W + "/_b"
MC = "/var/tmp/mutcache"
LOG = "/var/tmp/batch_seed.log"


def sh(cmd, **kw):
    return subprocess.run(cmd, capture_output=True, text=True, **kw)


def log(*a):
    with open(LOG, "a") as fh:
        fh.write(" ".join(str(x) for x in a) + "\n")


def build_java():
    p = sh(["nice", "ninja", "-C", B, "-j10"], timeout=14400)
    return p.returncode == 0, (p.stdout + p.stderr)[-1500:]


def build_verif():
    p = sh(["nice", "ninja", "-C", MC + "/sgbuild", "simgrid", "simgrid-mc", "sthread", "smpimain", "smpireplaymain"], timeout=14400)
    return p.returncode == 0, (p.stdout + p.stderr)[-1500:]


def demo(cand):
    env = dict(os.environ)
    env["LD_LIBRARY_PATH"] = B + "/lib"
    try:
        p = sh(["bash", os.path.join(cand, "run_demo.sh"), B, W], cwd=cand, timeout=2400, env=env)
        return p.returncode, (p.stdout + p.stderr)[-600:]
    except subprocess.TimeoutExpired:
        return 124, "timeout"


def stable_subset(files):
    stable = [s.split("::")[0] for s in json.load(open("/root/.vp/BASELINE.json"))["stable_pass"]]
    kernel = any(re.match(r"(src/(kernel|s4u|plugins|xbt|simgrid|instr|dag|bindings)|include)/", f) for f in files)
    smpi = any(f.startswith("src/smpi") or f.startswith("include/smpi") for f in files)
    sel = []
    for t in stable:
        if t.startswith("tesh-self"):
            continue      # tests of the tesh tool itself, independent of the library
        if t.startswith("java-") or t.startswith("s4u-") or t == "graphicator":
            if kernel:
                sel.append(t)
        elif "smpi" in t:
            if smpi or kernel:
                sel.append(t)
    return sel


def main():
    name, cands = sys.argv[1], sys.argv[2:]
    metas = {c: json.load(open(os.path.join(c, "meta.json"))) for c in cands}
    head = sh(["git", "-C", "/repo", "rev-parse", "HEAD"]).stdout.strip()
    sh(["git", "-C", W, "reset", "-q", "--hard"])
    sh(["git", "-C", W, "checkout", "-q", "--detach", head])
    log("=== batch", name, cands)
    ok, out = build_java()
    if not ok:
        sys.exit("clean java build failed: " + out)
    rec = {c: {"candidate": c, "batch": name, "batch_members": [os.path.basename(x) for x in cands]} for c in cands}
    for c in cands:
        rc, o = demo(c)
        rec[c]["demo_clean_rc"] = rc
        log("clean demo", c, rc)
    # apply
    touched = {}
    applied = []
    for c in cands:
        files = sorted(set(re.findall(r"^(?:diff --git a/|--- a/)(\S+)", open(os.path.join(c, "patch.diff")).read(), re.M)))
        clash = [f for f in files if f in touched]
        if clash:
            rec[c]["error"] = "not applied in this batch: shares %s with %s" % (clash, touched[clash[0]])
            continue
        p = sh(["git", "-C", W, "apply", "--3way", os.path.join(c, "patch.diff")])
        if p.returncode != 0:
            rec[c]["error"] = "patch does not apply on /repo HEAD: " + p.stderr[-300:]
            continue
        for f in files:
            touched[f] = os.path.basename(c)
        rec[c]["files_changed"] = files
        applied.append(c)
    sh(["git", "-C", W, "reset", "-q"])          # unstage what --3way staged; keep the working tree changes
    try:
        ok, out = build_java()
        log("mutated java build", ok)
        if not ok:
            for c in applied:
                rec[c]["error"] = "batch does not compile: " + out[-400:]
            return finish(rec, metas)
        for c in applied:
            rc, o = demo(c)
            rec[c]["demo_mutated_rc"] = rc
            rec[c]["demo_mutated_tail"] = o[-300:]
            log("mutated demo", c, rc)
        sel = stable_subset(list(touched))
        failed = []
        if sel:
            t = sh(["ctest", "--test-dir", B, "-R", "^(" + "|".join(sel) + ")$", "-j8", "--timeout", "900"], timeout=14400)
            failed = re.findall(r"\d+ - (\S+) \(", t.stdout)
            if failed:   # load-sensitive tests: re-run the failed ones alone
                t2 = sh(["ctest", "--test-dir", B, "-R", "^(" + "|".join(failed) + ")$", "-j2", "--timeout", "1800"], timeout=14400)
                failed = re.findall(r"\d+ - (\S+) \(", t2.stdout)
        log("pinned tests", len(sel), "failed", failed)
        for c in applied:
            rec[c]["pinned_tests_run"] = len(sel)
            rec[c]["pinned_tests_failed"] = failed
            rec[c]["pinned_tests_note"] = ("run once on the batch build; tesh-self-* (tests of the tesh tool) not re-run; "
                                           "Java/s4u tests only when kernel-side files change, smpi tests when smpi or kernel files change")
        ok, out = build_verif()
        log("mutated verification build", ok)
        if not ok:
            for c in applied:
                rec[c]["error"] = "verification build failed: " + out[-400:]
            return finish(rec, metas)
        env = dict(os.environ)
        env.update({"VERIF_REPO": W, "VERIF_CACHE": MC, "VERIF_EVIDENCE_DIR": "/var/tmp/mut-evidence"})
        done = {}
        for c in applied:
            pid = metas[c]["property"]
            if pid not in done:
                t0 = time.time()
                try:
                    p = sh(["./check", pid, "--tier", "quick"], cwd=ROOT, env=env, timeout=7200)
                    lines = [l for l in p.stdout.split("\n") if l.startswith(("VIOLATION", "KNOWN-FINDING", "INFRA"))]
                    what = [l.strip()[:300] for l in p.stdout.split("\n") if l.strip().startswith("what:")][:2]
                    done[pid] = {"exit": p.returncode, "lines": [l[:300] for l in lines[:4]], "what": what, "wall_s": round(time.time() - t0)}
                except subprocess.TimeoutExpired:
                    done[pid] = {"exit": 2, "lines": ["timeout"], "wall_s": 7200}
                log("check", pid, done[pid]["exit"], done[pid]["lines"][:1])
            rec[c]["checks"] = {pid: done[pid]}
            rec[c]["caught"] = done[pid]["exit"] == 1
            if done[pid]["exit"] not in (0, 1):
                rec[c]["error"] = "the check could not run (infrastructure)"
    finally:
        sh(["git", "-C", W, "reset", "-q", "--hard"])
    return finish(rec, metas)


def finish(rec, metas):
    for c, r in rec.items():
        r["confirmed"] = bool(r.get("demo_clean_rc") == 0 and r.get("demo_mutated_rc", 0) != 0 and "demo_mutated_rc" in r
                              and not r.get("pinned_tests_failed") and "error" not in r)
        sid = os.path.basename(c)
        if r["confirmed"]:
            d = os.path.join(ROOT, "seeded", sid)
            os.makedirs(d, exist_ok=True)
            for f in os.listdir(c):
                if os.path.isfile(os.path.join(c, f)) and f != "meta.json" and os.path.getsize(os.path.join(c, f)) < 300000:
                    shutil.copy(os.path.join(c, f), d)
            json.dump({**metas[c], "verification": r}, open(os.path.join(d, "meta.json"), "w"), indent=1)
        log("RESULT", sid, "confirmed", r["confirmed"], "caught", r.get("caught"), r.get("error", ""))
    json.dump(rec, open("/var/tmp/batch_%s.json" % sys.argv[1], "w"), indent=1)


if __name__ == "__main__":
    main()
