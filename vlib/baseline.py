"""Compare a ctest log of /repo/_build with the stable_pass list of /root/.vp/BASELINE.json.
usage: python3 vlib/baseline.py <ctest-log>     exit 0 iff every stable test passed"""
import json
import re
import sys

stable = [s.split("::")[0] for s in json.load(open("/root/.vp/BASELINE.json"))["stable_pass"]]
log = open(sys.argv[1]).read()
res = {}
for m in re.finditer(r"Test\s+#\d+:\s+(\S+)\s+\.+\s*(\*\*\*\w+|Passed|\w+)", log):
    res[m.group(1)] = m.group(2)
bad = [(t, res.get(t, "not-run")) for t in stable if res.get(t) != "Passed"]
print("stable tests: %d, passed: %d" % (len(stable), len(stable) - len(bad)))
for t, r in bad:
    print("  NOT PASSED:", t, r)
sys.exit(1 if bad else 0)
