"""Confirm a candidate seeded change and run the checks against it, in the scratch worktree /var/tmp/mutcheck
(java-enabled build in /var/tmp/mutcheck/_b for the demonstration + the pinned tests; verification build in
/var/tmp/mutcache for the checks).  /repo itself is never touched.

usage: confirm_seed.py <candidate dir> <seeded id> [check ids...]
Steps: sync scratch to /repo HEAD; demo on the clean build must pass; apply patch; rebuild; demo must fail; run the
pinned tests that can be affected; run the checks with VERIF_REPO/VERIF_CACHE; revert; write seeded/<id>/ ."""
import json
import os
import re
import shutil
import subprocess
import sys
import time

ROOT = os.path.dirname(os.path.dirname(os.path.abspath(__file__)))
W = "/var/tmp/mutcheck"
B = W + "/_b"
MC = "/var/tmp/mutcache"


def sh(cmd, **kw):
    return subprocess.run(cmd, capture_output=True, text=True, **kw)


def build():
    p = sh(["nice", "ninja", "-C", B, "-j10"], timeout=7200)
    return p.returncode == 0, (p.stdout + p.stderr)[-2000:]


def demo(cand):
    env = dict(os.environ)
    env["LD_LIBRARY_PATH"] = B + "/lib"
    p = sh(["bash", os.path.join(cand, "run_demo.sh"), B, W], cwd=cand, timeout=1800, env=env)
    return p.returncode, (p.stdout + p.stderr)[-1500:]


def stable_subset(files):
    stable = [s.split("::")[0] for s in json.load(open("/root/.vp/BASELINE.json"))["stable_pass"]]
    kernel = any(re.match(r"(src/(kernel|s4u|plugins|xbt|simgrid|instr|dag|bindings)|include)/", f) for f in files)
    smpi = any(f.startswith("src/smpi") or f.startswith("include/smpi") for f in files)
    sel = []
    for t in stable:
        if t.startswith("tesh-self"):
            continue      # tests of the tesh tool itself, independent of the library
        if t.startswith("java-") or t.startswith("s4u-") or t == "graphicator":
            if kernel:
                sel.append(t)
        elif "smpi" in t:
            if smpi or kernel:
                sel.append(t)
    return sel


def main():
    cand, sid, checks = sys.argv[1], sys.argv[2], sys.argv[3:]
    meta = json.load(open(os.path.join(cand, "meta.json")))
    rec = {"candidate": cand, "property": meta.get("property"), "summary": meta.get("summary"),
           "needs_to_manifest": meta.get("needs_to_manifest")}
    head = sh(["git", "-C", "/repo", "rev-parse", "HEAD"]).stdout.strip()
    sh(["git", "-C", W, "checkout", "-q", "--", "."])
    sh(["git", "-C", W, "checkout", "-q", "--detach", head])
    ok, out = build()
    if not ok:
        sys.exit("clean build failed: " + out)
    rc0, o0 = demo(cand)
    rec["demo_clean_rc"] = rc0
    p = sh(["git", "-C", W, "apply", "--3way", os.path.join(cand, "patch.diff")])
    if p.returncode != 0:
        rec["error"] = "patch does not apply: " + p.stderr[-500:]
        print(json.dumps(rec, indent=1))
        sh(["git", "-C", W, "checkout", "-q", "--", "."])
        return
    files = sh(["git", "-C", W, "diff", "--name-only", "HEAD"]).stdout.split()
    rec["files_changed"] = files
    try:
        ok, out = build()
        rec["compiles"] = ok
        if ok:
            rc1, o1 = demo(cand)
            rec["demo_mutated_rc"] = rc1
            rec["demo_mutated_tail"] = o1[-400:]
            sel = stable_subset(files)
            rec["pinned_tests_run"] = len(sel)
            if sel:
                t = sh(["ctest", "--test-dir", B, "-R", "^(" + "|".join(sel) + ")$", "-j8", "--timeout", "900"], timeout=7200)
                failed = re.findall(r"\d+ - (\S+) \(", t.stdout)
                rec["pinned_tests_failed"] = failed
            else:
                rec["pinned_tests_failed"] = []
            rec["pinned_tests_note"] = ("tesh-self-* (tests of the tesh tool) not re-run; Java/s4u tests only when kernel-side "
                                        "files change, smpi tests when smpi or kernel files change")
            res = {}
            env = dict(os.environ)
            env.update({"VERIF_REPO": W, "VERIF_CACHE": MC, "VERIF_EVIDENCE_DIR": "/var/tmp/mut-evidence"})
            for pid in checks:
                t0 = time.time()
                c = sh(["./check", pid, "--tier", "quick"], cwd=ROOT, env=env, timeout=7200)
                lines = [l for l in c.stdout.split("\n") if l.startswith(("VIOLATION", "KNOWN-FINDING", "INFRA"))]
                res[pid] = {"exit": c.returncode, "lines": [l[:300] for l in lines[:3]], "wall_s": round(time.time() - t0)}
            rec["checks"] = res
            rec["caught"] = any(r["exit"] == 1 for r in res.values())
    finally:
        sh(["git", "-C", W, "checkout", "-q", "--", "."])
    rec["confirmed"] = bool(rec.get("compiles") and rec.get("demo_clean_rc") == 0 and rec.get("demo_mutated_rc", 0) != 0
                            and not rec.get("pinned_tests_failed"))
    d = os.path.join(ROOT, "seeded", sid)
    if rec["confirmed"]:
        os.makedirs(d, exist_ok=True)
        for f in os.listdir(cand):
            if os.path.isfile(os.path.join(cand, f)) and f != "meta.json":
                shutil.copy(os.path.join(cand, f), d)
        json.dump({**meta, "verification": rec}, open(os.path.join(d, "meta.json"), "w"), indent=1)
    print(json.dumps(rec, indent=1))


if __name__ == "__main__":
    main()
