from .core import *
