"""Generate lean/lakefile.toml: one library + one lean_exe per SgVerif/<Dir>/Driver.lean."""
import os

def generate(lean_dir):
    exes = []
    base = os.path.join(lean_dir, "SgVerif")
    for d in sorted(os.listdir(base)):
        if os.path.exists(os.path.join(base, d, "Driver.lean")):
            exes.append(d)
    txt = 'name = "SgVerif"\nversion = "0.1.0"\ndefaultTargets = ["SgVerif"]\n\n[[lean_lib]]\nname = "SgVerif"\n'
    for d in exes:
        txt += '\n[[lean_exe]]\nname = "drv_%s"\nroot = "SgVerif.%s.Driver"\n' % (d, d)
    path = os.path.join(lean_dir, "lakefile.toml")
    old = open(path).read() if os.path.exists(path) else None
    if old != txt:
        with open(path, "w") as fh:
            fh.write(txt)
    # root module importing every Props module (so `lake build` checks everything)
    mods = []
    for d in sorted(os.listdir(base)):
        for f in ("Props.lean",):
            if os.path.exists(os.path.join(base, d, f)):
                mods.append("SgVerif.%s.%s" % (d, f[:-5]))
    root = "".join("import %s\n" % m for m in mods)
    rp = os.path.join(lean_dir, "SgVerif.lean")
    if not os.path.exists(rp) or open(rp).read() != root:
        with open(rp, "w") as fh:
            fh.write(root)
    return exes

if __name__ == "__main__":
    import sys
    here = os.path.dirname(os.path.dirname(os.path.abspath(__file__)))
    print(generate(os.path.join(here, "lean")))
