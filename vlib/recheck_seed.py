"""Re-run the check(s) of a kept seeded change after the check was strengthened.
usage: recheck_seed.py <seeded id> [check id ...]   (default: the change's property)
Applies seeded/<id>/patch.diff in the scratch worktree /var/tmp/mutcheck (at /repo HEAD), rebuilds the verification
build /var/tmp/mutcache, runs ./check with VERIF_REPO/VERIF_CACHE, reverts, and records the result in meta.json."""
import json, os, subprocess, sys, time
ROOT = os.path.dirname(os.path.dirname(os.path.abspath(__file__)))
W, MC = "/var/tmp/mutcheck", "/var/tmp/mutcache"
def sh(cmd, **kw):
    return subprocess.run(cmd, capture_output=True, text=True, **kw)
sid = sys.argv[1]
d = os.path.join(ROOT, "seeded", sid)
meta = json.load(open(os.path.join(d, "meta.json")))
checks = sys.argv[2:] or [meta["property"]]
head = sh(["git", "-C", "/repo", "rev-parse", "HEAD"]).stdout.strip()
sh(["git", "-C", W, "reset", "-q", "--hard"]); sh(["git", "-C", W, "checkout", "-q", "--detach", head])
p = sh(["git", "-C", W, "apply", "--3way", os.path.join(d, "patch.diff")])
if p.returncode:
    sys.exit("patch does not apply: " + p.stderr[-300:])
sh(["git", "-C", W, "reset", "-q"])
try:
    b = sh(["nice", "ninja", "-C", MC + "/sgbuild", "simgrid", "simgrid-mc", "sthread", "smpimain", "smpireplaymain"], timeout=7200)
    if b.returncode:
        sys.exit("build failed")
    env = dict(os.environ); env.update({"VERIF_REPO": W, "VERIF_CACHE": MC, "VERIF_EVIDENCE_DIR": "/var/tmp/mut-evidence"})
    for pid in checks:
        t0 = time.time()
        c = sh(["./check", pid, "--tier", "quick"], cwd=ROOT, env=env, timeout=7200)
        lines = [l[:300] for l in c.stdout.split("\n") if l.startswith(("VIOLATION", "KNOWN-FINDING", "INFRA"))][:4]
        what = [l.strip()[:300] for l in c.stdout.split("\n") if l.strip().startswith("what:")][:2]
        r = {"exit": c.returncode, "lines": lines, "what": what, "wall_s": round(time.time() - t0), "at_verif_commit": sh(["git", "-C", ROOT, "rev-parse", "--short", "HEAD"]).stdout.strip()}
        meta["verification"].setdefault("rechecks", {})[pid] = r
        if c.returncode == 1:
            meta["verification"]["caught"] = True
            meta["verification"].setdefault("caught_by", [])
            if pid not in meta["verification"]["caught_by"]:
                meta["verification"]["caught_by"].append(pid)
        print(sid, pid, "exit", c.returncode, lines[:1], what[:1])
finally:
    sh(["git", "-C", W, "reset", "-q", "--hard"])
json.dump(meta, open(os.path.join(d, "meta.json"), "w"), indent=1)
