"""usage: amfix.py <patch>... : `git am` fix patches into /repo under the build lock (drops hunks touching tests:
teshsuite/, examples/*.tesh — the existing suite stays unedited).  Prints the new commit hashes."""
import fcntl, re, subprocess, sys
lock = open("/verif/.cache/sgbuild.lock", "w")
fcntl.flock(lock, fcntl.LOCK_EX)
for p in sys.argv[1:]:
    txt = open(p).read()
    head, *files = re.split(r"(?m)^(?=diff --git )", txt)
    kept = [f for f in files if not re.match(r"diff --git a/(teshsuite/|[^\n ]*\.tesh|[^\n ]*_test\.cpp|[^\n ]*/unit-tests)", f)]
    dropped = len(files) - len(kept)
    # keep the mail trailer of the last file if it was dropped
    new = head + "".join(kept)
    if not new.rstrip().endswith("--") and "\n-- \n" not in new:
        new += "\n-- \n2.39\n"
    r = subprocess.run(["git", "-C", "/repo", "am", "--keep-non-patch", "-"], input=new, text=True, capture_output=True)
    if r.returncode:
        subprocess.run(["git", "-C", "/repo", "am", "--abort"])
        sys.exit("git am failed for %s: %s" % (p, r.stderr[-800:] + r.stdout[-400:]))
    h = subprocess.run(["git", "-C", "/repo", "log", "--format=%h %s", "-1"], capture_output=True, text=True).stdout.strip()
    print(p.split("/")[-1], "->", h, "(dropped %d test hunk(s))" % dropped if dropped else "")
