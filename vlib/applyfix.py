"""usage: applyfix.py <diff> <hunk-index|all> <commit message file>
Apply one hunk (0-based, counted over the whole diff) or all of a proposed fix to /repo as one commit, holding the
simgrid build lock so that no concurrent ninja compiles a half-written tree (stale-object race)."""
import fcntl, re, subprocess, sys
diff, which, msgf = sys.argv[1:4]
txt = open(diff).read()
files = re.split(r"(?m)^(?=diff --git )", txt)
pieces = []
for f in files:
    if not f.strip():
        continue
    parts = re.split(r"(?m)^(?=@@ )", f)
    head, hunks = parts[0], parts[1:]
    for h in hunks:
        pieces.append(head + h)
sel = pieces if which == "all" else [pieces[int(which)]]
lock = open("/verif/.cache/sgbuild.lock", "w")
fcntl.flock(lock, fcntl.LOCK_EX)
for p in sel:
    r = subprocess.run(["git", "-C", "/repo", "apply", "--recount", "-"], input=p, text=True)
    if r.returncode:
        sys.exit("apply failed")
subprocess.run(["git", "-C", "/repo", "commit", "-qa", "-F", __import__("os").path.abspath(msgf)], check=True)
print(subprocess.run(["git", "-C", "/repo", "log", "--oneline", "-1"], capture_output=True, text=True).stdout)
