"""Shared machinery of the /verif checks.

Everything a per-property check (props/Cxx/check.py) needs:
  * Ctx.ensure_simgrid()     build libsimgrid & co from /repo's *current working tree* (hooks on)
  * Ctx.build_harness()      compile a C++ (or smpicc) harness against that build, dependency-tracked
  * Ctx.lean_prove()         lake build of the property's theorem module + axiom / sorry audit
  * Ctx.lean_exe()           build a compiled Lean driver (line protocol, core-only imports)
  * Ctx.run_lines()          run a command feeding it lines, collecting lines
  * Ctx.violation()/finish() decision protocol of DESIGN.md section 5 (known findings, replay files,
                             no-failing-input-found) and the evidence file
"""
import fcntl
import hashlib
import json
import os
import re
import shutil
import subprocess
import sys
import time

ROOT = os.path.dirname(os.path.dirname(os.path.abspath(__file__)))
REPO = os.environ.get("VERIF_REPO", "/repo")
# the simgrid build cache is shared by every clone/worktree of /verif (it is a cache, not a source)
CACHE = os.environ.get("VERIF_CACHE", "/verif/.cache")
SGBUILD = os.path.join(CACHE, "sgbuild")
LEAN = os.path.join(ROOT, "lean")
WORK = os.path.join(ROOT, ".work")           # per-clone scratch (git-ignored)
GUARD = "SIMGRID_VERIF"

ALLOWED_AXIOMS = {"propext", "Classical.choice", "Quot.sound"}
FORBIDDEN_RE = re.compile(
    r"\bsorry\b|\badmit\b|^\s*axiom\s|native_decide|bv_decide|implemented_by|\bunsafe\s|maxHeartbeats\s+0\b|"
    r"\bextern\s*\"|set_option\s+debug\.skipKernelTC")

CMAKE_ARGS = [
    "-G", "Ninja", "-DCMAKE_BUILD_TYPE=Release", "-Denable_lto=OFF", "-Denable_java=OFF",
    "-Denable_fortran=OFF", "-Denable_python=OFF", "-Denable_documentation=OFF", "-Denable_debug=ON",
    "-Denable_smpi=ON", "-Denable_model-checking=ON", "-Denable_sthread=ON",
    "-DCMAKE_CXX_FLAGS=-D" + GUARD, "-DCMAKE_C_FLAGS=-D" + GUARD,
]
SG_TARGETS = ["simgrid", "simgrid-mc", "sthread", "smpimain", "smpireplaymain"]


class InfraError(Exception):
    """The machinery itself could not run (not a statement about the property)."""


def sh(cmd, cwd=None, input=None, timeout=None, env=None, check=False):
    e = dict(os.environ)
    if env:
        e.update(env)
    p = subprocess.run(cmd, cwd=cwd, input=input, capture_output=True, text=True, timeout=timeout, env=e)
    if check and p.returncode != 0:
        raise InfraError("command failed (%d): %s\n%s\n%s" % (p.returncode, " ".join(cmd), p.stdout[-3000:], p.stderr[-3000:]))
    return p


class _Lock:
    def __init__(self, name):
        os.makedirs(CACHE, exist_ok=True)
        self.path = os.path.join(CACHE, name + ".lock")

    def __enter__(self):
        self.f = open(self.path, "w")
        fcntl.flock(self.f, fcntl.LOCK_EX)
        return self

    def __exit__(self, *a):
        fcntl.flock(self.f, fcntl.LOCK_UN)
        self.f.close()


def strip_lean_comments(src):
    """Remove -- line comments, /- -/ block comments (nested) and string literals' content is kept."""
    out = []
    i, n, depth = 0, len(src), 0
    while i < n:
        if src.startswith("/-", i):
            depth += 1
            i += 2
            continue
        if depth > 0:
            if src.startswith("-/", i):
                depth -= 1
                i += 2
            else:
                if src[i] == "\n":
                    out.append("\n")
                i += 1
            continue
        if src.startswith("--", i):
            while i < n and src[i] != "\n":
                i += 1
            continue
        out.append(src[i])
        i += 1
    return "".join(out)


class Ctx:
    def __init__(self, pid, tier, seed, replay=None):
        self.pid = pid
        self.tier = tier
        self.seed = seed
        self.replay = replay
        self.t0 = time.time()
        self.pdir = os.path.join(ROOT, "props", pid)
        self.work = os.path.join(WORK, pid)
        os.makedirs(self.work, exist_ok=True)
        self.outdir = os.path.join(ROOT, "out", pid)           # replay files of this run (git-ignored)
        os.makedirs(self.outdir, exist_ok=True)
        self.cov = {"obligations": 0, "discharged": 0, "checker_cmd": "", "trusted_base": [],
                    "evaluations": 0, "distinct_nontrivial": 0, "rule": "", "samples": [],
                    "traces_validated_against_impl": 0}
        self.assumptions = []
        self.violations = []        # dicts: {replay, nofail, what, key}
        self.known_hits = []
        self.broken = []            # broken proof obligations / correspondences without (yet) a failing input
        self.notes = []
        self.theorems = []
        self.timings = {}

    # ------------------------------------------------------------------ simgrid build
    def ensure_simgrid(self, targets=None):
        """(Re)build the verification build of simgrid from /repo's current working tree."""
        t = time.time()
        targets = targets or SG_TARGETS
        with _Lock("sgbuild"):
            if not os.path.exists(os.path.join(SGBUILD, "build.ninja")):
                os.makedirs(SGBUILD, exist_ok=True)
                sh(["cmake", "-S", REPO, "-B", SGBUILD] + CMAKE_ARGS, check=True, timeout=600)
            p = sh(["ninja", "-C", SGBUILD] + targets, timeout=3600)
            if p.returncode != 0:
                # a tree that does not compile is outside what a check can decide
                raise InfraError("simgrid does not build from the working tree:\n" + p.stdout[-4000:])
        self.timings["simgrid_build_s"] = round(time.time() - t, 2)
        return SGBUILD

    @property
    def libdir(self):
        return os.path.join(SGBUILD, "lib")

    def sg_env(self):
        return {"LD_LIBRARY_PATH": self.libdir + ":" + os.environ.get("LD_LIBRARY_PATH", "")}

    def build_harness(self, src, name=None, flags=(), smpi=False, lang="c++"):
        """Compile props/<id>/<src> against the verification build. Rebuilt when the source, any
        header it included, or libsimgrid.so changed."""
        t = time.time()
        srcp = src if os.path.isabs(src) else os.path.join(self.pdir, src)
        name = name or os.path.splitext(os.path.basename(srcp))[0]
        hdir = os.path.join(CACHE, "harness", self.pid)
        os.makedirs(hdir, exist_ok=True)
        out = os.path.join(hdir, name)
        dep = out + ".d"
        lib = os.path.join(self.libdir, "libsimgrid.so")
        stamp = out + ".stamp"
        key = hashlib.sha1((open(srcp).read() + repr(flags) + ROOT).encode()).hexdigest()
        need = True
        if os.path.exists(out) and os.path.exists(dep) and os.path.exists(stamp) and open(stamp).read() == key:
            mt = os.path.getmtime(out)
            deps = re.sub(r"\\\n", " ", open(dep).read()).split(":", 1)[-1].split()
            need = any((not os.path.exists(d)) or os.path.getmtime(d) > mt for d in deps + [lib])
        if need:
            # the sgbuild lock keeps a concurrent ninja from relinking libsimgrid.so under the linker's feet
            with _Lock("sgbuild"), _Lock("harness-" + self.pid + "-" + name):
                if smpi:
                    cc = os.path.join(SGBUILD, "smpi_script", "bin", "smpicxx" if lang == "c++" else "smpicc")
                    cmd = [cc, "-O1", "-g", "-MMD", "-MF", dep, srcp, "-o", out] + list(flags)
                else:
                    cmd = ["g++", "-std=gnu++20", "-O1", "-g", "-D" + GUARD, "-MMD", "-MF", dep,
                           "-I" + os.path.join(REPO, "include"), "-I" + os.path.join(SGBUILD, "include"),
                           "-I" + REPO, "-I" + SGBUILD, srcp, "-o", out,
                           "-L" + self.libdir, "-lsimgrid", "-Wl,-rpath," + self.libdir] + list(flags)
                p = sh(cmd, timeout=900)
                if p.returncode != 0:
                    self.broken.append({"kind": "harness-build", "name": name, "error": p.stderr[-3000:]})
                    return None
                open(stamp, "w").write(key)
        self.timings["harness_%s_s" % name] = round(time.time() - t, 2)
        return out

    # ------------------------------------------------------------------ lean
    def lake(self, args, timeout=3000):
        with _Lock("lake-" + hashlib.sha1(LEAN.encode()).hexdigest()[:8]):
            return sh(["lake"] + args, cwd=LEAN, timeout=timeout)

    def lean_closure(self, module):
        """Files of this project that `module` imports, transitively."""
        seen, todo = [], [module]
        while todo:
            m = todo.pop()
            if m in seen:
                continue
            f = os.path.join(LEAN, *m.split(".")) + ".lean"
            if not os.path.exists(f):
                continue
            seen.append(m)
            for mm in re.findall(r"^\s*(?:public\s+)?import\s+(SgVerif[\w.]*)", strip_lean_comments(open(f).read()), re.M):
                todo.append(mm)
        return seen

    def lean_prove(self, module=None, extra_modules=()):
        """Build the property's theorem module and audit it.  Returns True when every obligation
        (theorem or non-vacuity example in the Props file) was accepted by Lean and passes the audit."""
        t = time.time()
        module = module or "SgVerif.%s.Props" % self.pid
        f = os.path.join(LEAN, *module.split(".")) + ".lean"
        src = strip_lean_comments(open(f).read())
        thms = re.findall(r"^\s*(?:@\[[^\]]*\]\s*)?(?:private\s+|protected\s+)?theorem\s+([^\s:({\[]+)", src, re.M)
        ns = re.findall(r"^namespace\s+(\S+)", src, re.M)
        examples = len(re.findall(r"^\s*example\b", src, re.M))
        self.cov["obligations"] += len(thms) + examples
        self.cov["checker_cmd"] = "cd lean && lake build %s && lake env lean <#print axioms of every theorem>" % module
        self.cov["trusted_base"] = [
            "Lean 4 kernel (lean %s)" % sh(["lean", "--version"]).stdout.strip()[:60],
            "axioms allowed: propext, Classical.choice, Quot.sound (audited by #print axioms on every run)",
            "correspondence harness + generators in props/%s (tie between model and /repo)" % self.pid,
        ]
        p = self.lake(["build", module] + list(extra_modules))
        ok = p.returncode == 0
        if not ok:
            err = (p.stdout + p.stderr)
            self.broken.append({"kind": "proof", "module": module, "error": err[-4000:],
                                "theorems_near_errors": self._theorems_near_errors(err, f)})
        # forbidden constructs anywhere in the import closure
        for m in self.lean_closure(module):
            mf = os.path.join(LEAN, *m.split(".")) + ".lean"
            for i, line in enumerate(strip_lean_comments(open(mf).read()).split("\n"), 1):
                if FORBIDDEN_RE.search(line):
                    ok = False
                    self.broken.append({"kind": "audit", "file": mf, "line": i, "text": line.strip()})
        names = []
        if ok:
            # fully qualified names: try each namespace prefix; #print axioms fails on unknown names
            prefix = (ns[0] + ".") if ns else ""
            names = [n if "." in n and not ns else prefix + n for n in thms]
            aud = os.path.join(self.work, "Audit.lean")
            with open(aud, "w") as fh:
                fh.write("import %s\n" % module)
                for n in names:
                    fh.write("#print axioms %s\n" % n)
            q = self.lake(["env", "lean", aud])
            out = q.stdout + q.stderr
            if q.returncode != 0:
                ok = False
                self.broken.append({"kind": "audit", "error": out[-3000:]})
            else:
                found = {}
                for m in re.finditer(r"'([^']+)' (does not depend on any axioms|depends on axioms: \[([^\]]*)\])", out, re.S):
                    axs = set(a.strip() for a in (m.group(3) or "").replace("\n", " ").split(",") if a.strip())
                    found[m.group(1)] = axs
                bad = {n: sorted(a - ALLOWED_AXIOMS) for n, a in found.items() if a - ALLOWED_AXIOMS}
                missing = [n for n in names if n not in found]
                if bad or missing:
                    ok = False
                    self.broken.append({"kind": "audit", "bad_axioms": bad, "not_reported": missing})
                else:
                    self.cov["discharged"] += len(thms) + examples
                    self.cov["axioms_used"] = sorted(set().union(*found.values())) if found else []
        self.theorems = names or thms
        self.cov["theorems"] = self.theorems
        if self.tier == "thorough" and ok:
            for m in self.lean_closure(module):
                q = self.lake(["env", "leanchecker", m], timeout=1800)
                if q.returncode != 0:
                    ok = False
                    self.broken.append({"kind": "leanchecker", "module": m, "error": (q.stdout + q.stderr)[-2000:]})
            self.cov["leanchecker_modules"] = self.lean_closure(module)
        self.timings["lean_prove_s"] = round(time.time() - t, 2)
        self.proof_ok = ok
        return ok

    @staticmethod
    def _theorems_near_errors(err, f):
        try:
            lines = open(f).read().split("\n")
        except OSError:
            return []
        res = []
        for m in re.finditer(re.escape(os.path.basename(f)) + r":(\d+):\d+: error", err):
            ln = int(m.group(1))
            for k in range(min(ln, len(lines)) - 1, -1, -1):
                mm = re.match(r"\s*(?:theorem|example|lemma)\s*([^\s:({\[]*)", lines[k])
                if mm:
                    res.append(mm.group(1) or "example@%d" % (k + 1))
                    break
        return sorted(set(res))

    def lean_exe(self, name=None):
        """Build and return the path of the compiled driver drv_<id> (root SgVerif.<id>.Driver)."""
        t = time.time()
        name = name or "drv_" + self.pid
        p = self.lake(["build", name])
        if p.returncode != 0:
            self.broken.append({"kind": "driver-build", "name": name, "error": (p.stdout + p.stderr)[-4000:]})
            return None
        self.timings["lean_exe_s"] = round(time.time() - t, 2)
        return os.path.join(LEAN, ".lake", "build", "bin", name)

    # ------------------------------------------------------------------ running
    def run_lines(self, cmd, lines, timeout=600, env=None, cwd=None):
        e = self.sg_env()
        if env:
            e.update(env)
        data = "".join(l if l.endswith("\n") else l + "\n" for l in lines)
        p = sh(cmd, input=data, timeout=timeout, env=e, cwd=cwd or self.work)
        return p.returncode, p.stdout.split("\n")[:-1] if p.stdout.endswith("\n") else p.stdout.split("\n"), p.stderr

    # ------------------------------------------------------------------ decisions
    def write_replay(self, tag, obj):
        path = os.path.join(self.outdir, "%s-%s.json" % (tag, self.seed))
        obj = dict(obj)
        obj.setdefault("property", self.pid)
        obj.setdefault("seed", self.seed)
        obj.setdefault("tier", self.tier)
        obj.setdefault("replay_cmd", "cd %s && ./check %s --replay %s" % (ROOT, self.pid, path))
        with open(path, "w") as fh:
            json.dump(obj, fh, indent=1, default=str)
        return path

    def violation(self, what, case, key=None, tag="violation"):
        """The implementation fails the property's monitor on a concrete input (`case`).  `key` is the
        classification (minimal witness class) matched against known_findings.txt."""
        kf = known_findings().get(self.pid, {})
        if key is not None and key in kf:
            if key not in [k["key"] for k in self.known_hits]:
                self.known_hits.append({"key": key, "what": kf[key], "case": case})
            return
        if len(self.violations) < 5:
            path = self.write_replay("%s%d" % (tag, len(self.violations)), {"what": what, "case": case, "key": key})
            self.violations.append({"replay": path, "what": what, "key": key, "nofail": False})

    def finish(self):
        """Decide, print VIOLATION / KNOWN-FINDING lines, write the evidence, return the exit code."""
        for k in self.known_hits:
            print("KNOWN-FINDING: property=%s %s [%s]" % (self.pid, k["what"], k["key"]))
        if self.broken and not self.violations:
            # proof obligation or correspondence no longer checks and the search found no failing input
            path = self.write_replay("broken", {"what": "proof obligation or correspondence no longer checks; "
                                                "no failing input found by the search",
                                                "broken": self.broken})
            self.violations.append({"replay": path, "what": "broken", "nofail": True})
        for v in self.violations:
            print("VIOLATION property=%s replay=%s%s" % (self.pid, v["replay"], " no-failing-input-found" if v["nofail"] else ""))
            if not v["nofail"]:
                print("  what: " + str(v["what"])[:300])
        self.write_evidence()
        return 1 if self.violations else 0

    def write_evidence(self):
        cov = dict(self.cov)
        cov["samples"] = cov["samples"][:8]
        cov["timings"] = self.timings
        cov["broken"] = [{k: (str(v)[:400]) for k, v in b.items()} for b in self.broken][:10]
        cov["known_findings_hit"] = [k["key"] for k in self.known_hits]
        if self.notes:
            cov["notes"] = self.notes
        ev = {"property_id": self.pid, "tier": self.tier, "seed": self.seed, "level": "proof",
              "coverage": cov, "assumptions": self.assumptions,
              "wall_s": round(time.time() - self.t0, 2), "violations": len(self.violations)}
        evdir = os.environ.get("VERIF_EVIDENCE_DIR") or os.path.join(ROOT, "evidence")   # redirected for seeded-change runs
        os.makedirs(evdir, exist_ok=True)
        with open(os.path.join(evdir, self.pid + ".json"), "w") as fh:
            json.dump(ev, fh, indent=1, default=str)


def known_findings():
    """known_findings.txt -> {property: {key: what}} for `finding:` lines (`fixed:` lines suppress nothing)."""
    res = {}
    path = os.path.join(ROOT, "known_findings.txt")
    if not os.path.exists(path):
        return res
    for line in open(path):
        m = re.match(r"finding:\s+property=(\S+)\s+key=(\S+)\s+(.*)", line.strip())
        if m:
            res.setdefault(m.group(1), {})[m.group(2)] = m.group(3)
    return res


class SplitMix:
    """splitmix64: the one PRNG every generator derives its choices from (also implementable in C++/Lean)."""
    M = (1 << 64) - 1

    def __init__(self, seed):
        self.s = seed & self.M

    def next(self):
        self.s = (self.s + 0x9E3779B97F4A7C15) & self.M
        z = self.s
        z = ((z ^ (z >> 30)) * 0xBF58476D1CE4E5B9) & self.M
        z = ((z ^ (z >> 27)) * 0x94D049BB133111EB) & self.M
        return z ^ (z >> 31)

    def below(self, n):
        return self.next() % n if n > 0 else 0

    def range(self, lo, hi):
        return lo + self.below(hi - lo + 1)

    def choice(self, xs):
        return xs[self.below(len(xs))]

    def chance(self, num, den):
        return self.below(den) < num

    def shuffle(self, xs):
        for i in range(len(xs) - 1, 0, -1):
            j = self.below(i + 1)
            xs[i], xs[j] = xs[j], xs[i]

    def fork(self, k):
        return SplitMix((self.s * 0x2545F4914F6CDD1D + k) & self.M)
