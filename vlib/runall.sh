#!/bin/bash
# usage: vlib/runall.sh "<ids>" "<seeds>" [tier]   -> one line per run in .work/runall.log
cd "$(dirname "$0")/.."
mkdir -p .work
for id in $1; do for s in $2; do
  t0=$(date +%s)
  out=$(VERIF_SEED=$s ./check $id --tier ${3:-quick} 2>&1); rc=$?
  echo "$id seed=$s rc=$rc $(( $(date +%s)-t0 ))s | $(echo "$out" | grep -E '^(VIOLATION|KNOWN-FINDING|INFRA)' | head -3 | tr '\n' ';' | cut -c1-300)" >> .work/runall.log
done; done
echo "DONE $1" >> .work/runall.log
