import SgVerif.C10.Hold
/-
C10 helper lemmas, part 15: tracking a running communication `k` held by an actor `b` of the failing host, and an
answerable issuer `a` registered on it, until `b`'s `exit()` cancels it.
-/
set_option linter.unusedSimpArgs false
set_option linter.unusedVariables false
namespace SgVerif.C10

/-- `k` is a running communication with a live action, in `b`'s `activities_`; `a` is answerable and registered on it -/
structure HoldS (t : St) (b a k : Nat) : Prop where
  ans : Answerable t a
  reg : a ∈ (t.acts k).simcalls
  kind : (t.acts k).kind = .comm
  act : (t.acts k).action = some .started
  run : (t.acts k).state = .running
  held : k ∈ (t.actors b).activities

/-- outcome: the tracked issuer is answered / the situation is pending in the failed set (`Res`), or `k` is still held -/
def Res2 (t t' : St) (b a k : Nat) : Prop := Res t t' a k (.exc .net) ∨ HoldS t' b a k

theorem res2_trans {t t1 t2 : St} {b a k : Nat} (e1 : Ext t t1) (e2 : Ext t1 t2) (h1 : Res2 t t1 b a k)
    (hp : PendS t1 a k (.exc .net) → Res t1 t2 a k (.exc .net)) (hh : HoldS t1 b a k → Res2 t1 t2 b a k) :
    Res2 t t2 b a k := by
  rcases h1 with h | h
  · exact Or.inl (res_trans e1 e2 h hp)
  · rcases hh h with h' | h'
    · exact Or.inl (res_rebase e1 h')
    · exact Or.inr h'

/-! ### cancel -/
theorem cancel_acts_ne (t : St) (k0 j : Nat) (hj : j ≠ k0) : (cancel t k0).acts j = t.acts j := by
  unfold cancel
  simp only []
  (repeat' split) <;>
    simp_all [St.setActor, St.setAct, St.crash, upd, eraseActivity, mboxRemove, failAction] <;>
    (repeat' split) <;> simp_all [St.setActor, St.setAct, St.crash, upd, eraseActivity, mboxRemove, failAction]

theorem eraseActivity_keep (t : St) (o : Option Nat) (k0 b j : Nat) (hj : j ≠ k0) (h : j ∈ (t.actors b).activities) :
    j ∈ ((eraseActivity t o k0).actors b).activities := by
  cases o with
  | none => exact h
  | some c =>
    by_cases hc : b = c
    · subst hc; simp [eraseActivity, St.setActor]; exact (List.mem_erase_of_ne hj).mpr h
    · simpa [eraseActivity, St.setActor, upd, hc] using h

theorem cancel_actors_pre (t : St) (k0 : Nat) :
    ∃ u : St, u.actors = t.actors ∧
      ((cancel t k0 = eraseActivity (eraseActivity u (t.acts k0).src k0) (t.acts k0).dst k0) ∨
       (cancel t k0 = eraseActivity u (t.acts k0).owner k0)) := by
  unfold cancel
  simp only []
  split
  · refine ⟨_, ?_, Or.inl rfl⟩
    (repeat' split) <;> simp [St.setAct, St.crash, mboxRemove, failAction] <;> (repeat' split) <;> simp [St.setAct]
  · refine ⟨_, ?_, Or.inr rfl⟩
    (repeat' split) <;> simp [St.setAct, St.crash, failAction] <;> (repeat' split) <;> simp [St.setAct]

theorem cancel_activities_keep (t : St) (k0 b j : Nat) (hj : j ≠ k0) (h : j ∈ (t.actors b).activities) :
    j ∈ ((cancel t k0).actors b).activities := by
  obtain ⟨u, hu, e | e⟩ := cancel_actors_pre t k0
  · rw [e]; exact eraseActivity_keep _ _ k0 b j hj (eraseActivity_keep u _ k0 b j hj (by rw [hu]; exact h))
  · rw [e]; exact eraseActivity_keep u _ k0 b j hj (by rw [hu]; exact h)

/-- cancelling a running communication with a live action fails the action and queues it -/
theorem cancel_dooms (t : St) (k : Nat) (hk : (t.acts k).kind = .comm) (ha : (t.acts k).action = some .started)
    (hr : (t.acts k).state = .running) :
    ((cancel t k).acts k).kind = .comm ∧ ((cancel t k).acts k).action = some .failed ∧ k ∈ (cancel t k).failedQ := by
  unfold cancel
  simp [hk, ha, hr, failAction, St.setAct, eraseActivity]
  (repeat' split) <;> simp [St.setActor, St.setAct, upd, ha, hk]

theorem pend_of_doomed {t : St} {a k : Nat} (ha : Answerable t a) (hm : a ∈ (t.acts k).simcalls)
    (hk : (t.acts k).kind = .comm) (hf : (t.acts k).action = some .failed) (hq : k ∈ t.failedQ) :
    PendS t a k (.exc .net) :=
  ⟨ha, hm, Or.inl ⟨hk, Or.inr (Or.inr hf)⟩, hq, by rw [hk]; rfl⟩

theorem hold_of_simp_ne {t t' : St} {b a k : Nat} (hs : Simp a t t') (hacts : t'.acts k = t.acts k)
    (hkeep : k ∈ (t.actors b).activities → k ∈ (t'.actors b).activities) (p : HoldS t b a k) : HoldS t' b a k :=
  ⟨by rw [answerable_iff_core, hs.core, ← answerable_iff_core]; exact p.ans, by rw [hacts]; exact p.reg,
   by rw [hacts]; exact p.kind, by rw [hacts]; exact p.act, by rw [hacts]; exact p.run, hkeep p.held⟩

theorem hold_cancel {b a k : Nat} (t : St) (k0 : Nat) (p : HoldS t b a k) : Res2 t (cancel t k0) b a k := by
  have hs := simp_cancel a t k0
  by_cases hk : k0 = k
  · subst hk
    obtain ⟨d1, d2, d3⟩ := cancel_dooms t k0 p.kind p.act p.run
    left
    exact Or.inr (Or.inr (Or.inr (pend_of_doomed
      (by rw [answerable_iff_core, hs.core, ← answerable_iff_core]; exact p.ans) (by rw [hs.simc]; exact p.reg) d1 d2 d3)))
  · right
    exact hold_of_simp_ne hs (cancel_acts_ne t k0 k (Ne.symm hk)) (cancel_activities_keep t k0 b k (Ne.symm hk)) p

theorem hold_cancelFold {b a k : Nat} (L : List Nat) : ∀ t, HoldS t b a k →
    Res2 t (L.foldl cancel t) b a k ∧ (k ∈ L → Res t (L.foldl cancel t) a k (.exc .net)) := by
  induction L with
  | nil => intro t p; exact ⟨Or.inr p, fun h => by cases h⟩
  | cons x xs ih =>
    intro t p
    simp only [List.foldl_cons]
    have e1 := ext_cancel t x
    have sf : ∀ u, Simp a u (xs.foldl cancel u) := fun u => simp_foldl a cancel (simp_cancel a) xs u
    rcases hold_cancel t x p with h | h
    · have r : Res t (xs.foldl cancel (cancel t x)) a k (.exc .net) := res_then_simp e1 h (sf _)
      exact ⟨Or.inl r, fun _ => r⟩
    · obtain ⟨i1, i2⟩ := ih _ h
      refine ⟨?_, fun hm => ?_⟩
      · rcases i1 with i | i
        · exact Or.inl (res_rebase e1 i)
        · exact Or.inr i
      · rcases List.mem_cons.mp hm with e | e
        · -- x = k: `hold_cancel` would have doomed it
          subst e
          exfalso
          obtain ⟨_, d2, _⟩ := cancel_dooms t k p.kind p.act p.run
          rw [h.act] at d2; cases d2
        · exact res_rebase e1 (i2 e)

/-! ### finish, exitWaiting, exitLoop -/
theorem hold_finish {b a k : Nat} (t : St) (k0 : Nat) (hk : k0 ≠ k) (p : HoldS t b a k) : Res2 t (finish t k0) b a k := by
  have f := finish_ok t k0
  by_cases hm : a ∈ (t.acts k0).simcalls
  · left
    rcases f.hit a p.ans hm with h | ⟨r', h⟩
    · exact Or.inl h
    · exact Or.inr (Or.inr (Or.inl ⟨k0, r', hk, h⟩))
  · right
    obtain ⟨m1, m2⟩ := f.miss a hm
    have hst := f.stat k (Ne.symm hk)
    simp only [statOf, Prod.mk.injEq] at hst
    obtain ⟨k1, k2⟩ := keepsK_finish k b k0 (Ne.symm hk) t
    exact ⟨by rw [answerable_iff_core, m1, ← answerable_iff_core]; exact p.ans, m2 k (Ne.symm hk) p.reg,
      by rw [hst.1]; exact p.kind, by rw [hst.2.2.2.2]; exact p.act, by rw [k1]; exact p.run, k2 p.held⟩

theorem hold_exitWaiting {b a k : Nat} (c : Nat) (t : St) (k0 : Nat) (p : HoldS t b a k) :
    Res2 t (exitWaiting c t k0) b a k := by
  unfold exitWaiting
  simp only []
  have s1 : Simp a t ((cancel t k0).setAct k0 (fun x => { x with state := .failed })) :=
    (simp_cancel a t k0).trans (simp_setAct_state a _ k0 _)
  have s3 : ∀ u : St, Simp a u (u.setActor c (fun x => { x with activities := x.activities.erase k0 })) :=
    fun u => simp_setActor_frame a u c _ (fun x => ⟨rfl, rfl, rfl⟩)
  by_cases hk : k0 = k
  · subst hk
    left
    -- cancelled: FAILED and queued; then finished right away
    obtain ⟨d1, d2, d3⟩ := cancel_dooms t k0 p.kind p.act p.run
    have p1 : PendS (cancel t k0) a k0 (.exc .net) :=
      pend_of_doomed (by rw [answerable_iff_core, (simp_cancel a t k0).core, ← answerable_iff_core]; exact p.ans)
        (by rw [(simp_cancel a t k0).simc]; exact p.reg) d1 d2 d3
    have p2 := pend_of_simp (simp_setAct_state a (cancel t k0) k0 .failed) p1
    have r := res_finish _ k0 p2
    exact res_then_simp (s1.ext.trans (ext_finish _ _)) (res_rebase s1.ext r) (s3 _)
  · -- another activity
    have hkk : k ≠ k0 := Ne.symm hk
    have h1 : HoldS ((cancel t k0).setAct k0 (fun x => { x with state := .failed })) b a k := by
      have hc := hold_of_simp_ne (simp_cancel a t k0) (cancel_acts_ne t k0 k hkk) (cancel_activities_keep t k0 b k hkk) p
      exact hold_of_simp_ne (simp_setAct_state a _ k0 _) (by simp [St.setAct, upd, hkk]) id hc
    rcases hold_finish _ k0 hk h1 with h | h
    · left
      exact res_then_simp (s1.ext.trans (ext_finish _ _)) (res_rebase s1.ext h) (s3 _)
    · right
      refine hold_of_simp_ne (s3 _) rfl (fun hm => ?_) h
      exact (keepsK_setActor_erase k b _ c k0 hkk).2 hm

theorem hold_exitLoop {b a k : Nat} (c : Nat) (n : Nat) : ∀ t, HoldS t b a k → Res2 t (exitLoop c n t) b a k := by
  induction n with
  | zero => intro t p; exact Or.inr p
  | succ n ih =>
    intro t p
    unfold exitLoop
    split
    · exact Or.inr p
    · rename_i k0 _
      have s1 : Simp a t (t.setActor c (fun x => { x with waiting := x.waiting.dropLast })) :=
        simp_setActor_frame a t c _ (fun x => ⟨rfl, rfl, rfl⟩)
      have p1 : HoldS (t.setActor c (fun x => { x with waiting := x.waiting.dropLast })) b a k := by
        refine hold_of_simp_ne s1 rfl (fun hm => ?_) p
        by_cases hc : b = c
        · subst hc; simpa [St.setActor] using hm
        · simpa [St.setActor, upd, hc] using hm
      have e1 := s1.ext
      have e2 := ext_exitWaiting c (t.setActor c (fun x => { x with waiting := x.waiting.dropLast })) k0
      have r2 : Res2 t (exitWaiting c (t.setActor c (fun x => { x with waiting := x.waiting.dropLast })) k0) b a k := by
        rcases hold_exitWaiting c _ k0 p1 with h | h
        · exact Or.inl (res_rebase e1 h)
        · exact Or.inr h
      exact res2_trans (e1.trans e2) (ext_exitLoop c n _) r2 (res_exitLoop c n _) (ih _)

end SgVerif.C10
