import SgVerif.C10.Model
import SgVerif.Common.Proto
/-
C10 driver: trace acceptance of one implementation run by the model + the monitor `failureOk`.

query  = the case (`run H.. L.. r:.. a:.. f:..`, see props/C10/harness.cpp)
answer = the implementation's log lines joined by " | " (possibly ending with `CRASH <sig> <msg>`)

The log is replayed on the model: `issue`/`mid`/`ctl issue` lines are queued and handled in order when the next
`phase` line says the scheduling round is over (that is the order in which the kernel handles the simcalls);
`sig` lines without a queued controller request are state-profile events; `done` lines on an activity the model
still believes running are completion events.  Everything else is an observation that the model must have
predicted: `ret` (answer kinds), `exit` (failed flag), `done` (final state), `deadlock` (who is blocked), CRASH.
DISAGREE = model and implementation differ; MONFAIL = the property's monitor fails on the implementation's log.
-/
open SgVerif.Proto
namespace SgVerif.C10

def dropS (s : String) (n : Nat) : String := String.ofList (s.toList.drop n)

structure Op where
  name : String
  args : List Nat
  raw : List String := []          -- the arguments as written (`pexec`: the first one is the host list `h-h-h`)
  deriving Inhabited

inductive QEv where
  | op (a k : Nat) (stage : Nat)
  | ctl (on : Bool) (isHost : Bool) (idx : Nat) (date : String)
  deriving Inhabited

structure Must where
  actor : Nat
  kind : String
  date : String

structure D where
  s : St
  progs : List (List Op)
  ptask : Bool := false                    -- `M:ptask`: host model ptask_L07 (every execution is an L07Action: `pexecStart`)
  slots : List ((Nat × Nat) × Nat) := []
  opAct : List ((Nat × Nat) × Nat) := []
  q : List QEv := []
  obsSeen : Nat := 0
  pend : List (Nat × Ans × Nat) := []      -- answers predicted by the model, not yet seen in the log
  imm : List (Nat × String) := []          -- results of non-blocking simcalls, not yet seen in the log
  must : List Must := []                   -- monitor: (actor, kind) that the spec table wants reported at this date
  hostOff : List (Nat × String) := []      -- monitor: hosts turned off (with the date)
  exited : List Nat := []
  returned : List (Nat × Nat) := []        -- (actor, op) already returned
  curOp : List (Nat × Nat) := []           -- (actor, op) issued and not returned
  deadlocked : Bool := false
  lastDate : String := "0x0p+0"
  err : Option Verdict := none

def lookup {α : Type} [BEq α] (l : List (α × Nat)) (k : α) : Option Nat := (l.find? (fun p => p.1 == k)).map (·.2)

def parseOp (t : String) : Option Op :=
  match t.splitOn "." with
  | [] => none
  | n :: args =>
    let as := args.map (fun x => (x.toNat?).getD 0)
    some { name := n, args := as, raw := args }

/-- host list of a `pexec`/`ipexec` op: `<h>[-<h>]*` -/
def opHosts (op : Op) : List Nat :=
  match op.raw with
  | h :: _ => (h.splitOn "-").filterMap String.toNat?
  | [] => []

/-- parse the case: hosts of actors, programs, routes -/
def parseCase (q : List String) : Option (List Nat × List (List Op) × List ((Nat × Nat) × List Nat)) :=
  match q with
  | "run" :: rest =>
    let step := fun (acc : Option (List Nat × List (List Op) × List ((Nat × Nat) × List Nat))) (tok : String) =>
      match acc with
      | none => none
      | some (hs, ps, rs) =>
        match tok.splitOn ":" with
        | ["a", h, ops] =>
          match h.toNat? with
          | none => none
          | some h =>
            let ol := if ops = "" then [] else (ops.splitOn ",").filterMap parseOp
            some (hs ++ [h], ps ++ [ol], rs)
        | ["r", i, j, ls] =>
          match i.toNat?, j.toNat? with
          | some i, some j => some (hs, ps, rs ++ [((i, j), (ls.splitOn ".").filterMap String.toNat?)])
          | _, _ => none
        | _ => some (hs, ps, rs)
    rest.foldl step (some ([], [], []))
  | _ => none

def mkRoute (rs : List ((Nat × Nat) × List Nat)) : Nat → Nat → List Nat := fun i j =>
  match rs.find? (fun r => r.1 == (i, j)) with
  | some r => r.2
  | none => match rs.find? (fun r => r.1 == (j, i)) with
    | some r => r.2.reverse
    | none => []

def stateName : AState → String
  | .waiting => "WAITING" | .ready => "READY" | .running => "RUNNING" | .done => "DONE" | .failed => "FAILED"
  | .srcHostFailure => "SRC_HOST_FAILURE" | .dstHostFailure => "DST_HOST_FAILURE"
  | .linkFailure => "LINK_FAILURE" | .canceled => "CANCELED"

def ansName : Ans → String
  | .ok => "ok" | .exc .net => "net" | .exc .host => "host" | .exc .cancel => "cancel"

def fail (d : D) (v : Verdict) : D := if d.err.isSome then d else { d with err := some v }

/-- move the model's new observations into the pending lists -/
def absorb (d : D) : D :=
  let new := d.s.obs.drop d.obsSeen
  let pend := new.foldl (fun acc o => match o with | .answer a r k => acc ++ [(a, r, k)] | _ => acc) d.pend
  { d with pend := pend, obsSeen := d.s.obs.length }

def setS (d : D) (s : St) : D := absorb { d with s := s }

def getOp (d : D) (a k : Nat) : Option Op := (d.progs.getD a [])[k]?

/-- monitor, spec side: who must be told at this date that resource (isHost, idx) failed, and with which kind.
Computed from the state *before* the failure, from the spec table (not from the `finish` code):
 * link: every live blocked actor registered on a running comm whose route uses the link          -> net
 * host: every live blocked actor elsewhere registered on a running exec placed on the host        -> host
         every live blocked actor elsewhere registered on a running comm whose other endpoint actor lives on the
         host and still takes part in the comm (blocked on it or holding it), or on a host-to-host comm (sendto)
         declaring the host                                                                         -> net -/
def specMust (s : St) (isHost : Bool) (idx : Nat) (date : String) : List Must :=
  (List.range s.nActors).foldl (fun acc a =>
    let x := s.actors a
    if ! x.blocked || x.wannadie || x.ended || (isHost && x.host == idx) || ! s.hostOn x.host then acc else
    x.waiting.foldl (fun acc k =>
      let c := s.acts k
      if c.state != .running || c.action != some .started then acc else
      match c.kind, isHost with
      | .comm, false => if c.links.contains idx then acc ++ [{ actor := a, kind := "net", date := date }] else acc
      | .exec, true => if c.hosts.contains idx then acc ++ [{ actor := a, kind := "host", date := date }] else acc
      | .comm, true =>
        let peerOn := fun (p : Option Nat) => match p with
          | some b => b != a && (s.actors b).host == idx && ! (s.actors b).wannadie && ! (s.actors b).ended &&
                      ((s.actors b).waiting.contains k || (s.actors b).activities.contains k)
          | none => false
        if peerOn c.src || peerOn c.dst || (s.maestro.contains k && c.hosts.contains idx) then
          acc ++ [{ actor := a, kind := "net", date := date }] else acc
      | _, _ => acc) acc) []

/-- handle one queued simcall -/
def handleQ (d : D) (e : QEv) : D :=
  if d.s.crashed then d else
  match e with
  | .ctl on isHost idx date =>
    -- monitor: what the spec table wants reported at this date (from the state before the failure)
    let effective := if isHost then d.s.hostOn idx else d.s.linkOn idx
    -- (an actor that was owed a report by an earlier failure of this date and lives on the host that now fails is
    --  killed instead: "or its actor is dying")
    let d := if on || ! effective then d else
      { d with must := (d.must.filter (fun m => !(isHost && (d.s.actors m.actor).host == idx))) ++ specMust d.s isHost idx date,
               hostOff := if isHost then (idx, date) :: d.hostOff else d.hostOff }
    let s := match on, isHost with
      | false, true => hostOff d.s idx
      | true, true => hostOnEv d.s idx
      | false, false => linkOff d.s idx
      | true, false => linkOnEv d.s idx
    setS d s
  | .op a k stage =>
    if ! alive d.s a then d else
    match getOp d a k with
    | none => fail d (.disagree s!"no-such-op a{a}.{k}")
    | some op =>
      match op.name, op.args, stage with
      | "put", m :: _, 0 =>
        let (s, id) := isend d.s a m false
        setS { d with opAct := ((a, k), id) :: d.opAct } (if s.crashed then s else waitOn s a id)
      | "get", m :: _, 0 =>
        let (s, id) := irecv d.s a m
        setS { d with opAct := ((a, k), id) :: d.opAct } (if s.crashed then s else waitOn s a id)
      | "iput", [m, _, sl], 0 =>
        let (s, id) := isend d.s a m false
        setS { d with opAct := ((a, k), id) :: d.opAct, slots := ((a, sl), id) :: d.slots, imm := d.imm ++ [(a, "ok")] } s
      | "iget", [m, sl], 0 =>
        let (s, id) := irecv d.s a m
        setS { d with opAct := ((a, k), id) :: d.opAct, slots := ((a, sl), id) :: d.slots, imm := d.imm ++ [(a, "ok")] } s
      | "dput", m :: _, 0 =>
        let (s, id) := isend d.s a m true
        setS { d with opAct := ((a, k), id) :: d.opAct, imm := d.imm ++ [(a, "ok")] } s
      | "wait", [sl], 0 =>
        match lookup d.slots (a, sl) with
        | none => { d with imm := d.imm ++ [(a, "noslot")] }
        | some id => setS d (waitOn d.s a id)
      | "test", [sl], 0 =>
        match lookup d.slots (a, sl) with
        | none => { d with imm := d.imm ++ [(a, "noslot")] }
        | some id =>
          let (s, b) := test d.s id
          setS { d with imm := d.imm ++ [(a, if b then "true" else "false")] } s
      | "wany", sls, 0 =>
        let ids := sls.filterMap (fun sl => lookup d.slots (a, sl))
        if ids.isEmpty then { d with imm := d.imm ++ [(a, "noslot")] } else setS d (waitAny d.s a ids)
      | "exec", h :: _, 0 =>
        let (s, id) := if d.ptask then pexecStart d.s a [h] else execStart d.s a h
        setS { d with opAct := ((a, k), id) :: d.opAct } s
      | "pexec", _, 0 =>
        let (s, id) := pexecStart d.s a (opHosts op)
        setS { d with opAct := ((a, k), id) :: d.opAct } s
      | "pexec", _, 1 =>
        match lookup d.opAct (a, k) with
        | none => fail d (.disagree s!"mid-without-start a{a}.{k}")
        | some id => setS d (waitOn d.s a id)
      | "ipexec", _ :: _ :: sl :: _, 0 =>
        let (s, id) := pexecStart d.s a (opHosts op)
        setS { d with opAct := ((a, k), id) :: d.opAct, slots := ((a, sl), id) :: d.slots, imm := d.imm ++ [(a, "ok")] } s
      | "exec", _, 1 =>
        match lookup d.opAct (a, k) with
        | none => fail d (.disagree s!"mid-without-start a{a}.{k}")
        | some id => setS d (waitOn d.s a id)
      | "iexec", [h, _, sl], 0 =>
        let (s, id) := if d.ptask then pexecStart d.s a [h] else execStart d.s a h
        setS { d with opAct := ((a, k), id) :: d.opAct, slots := ((a, sl), id) :: d.slots, imm := d.imm ++ [(a, "ok")] } s
      | "sleep", _, 0 =>
        let (s, id) := sleepStart d.s a
        setS { d with opAct := ((a, k), id) :: d.opAct } (waitOn s a id)
      | "sendto", hf :: ht :: _, 0 =>
        let (s, id) := sendto d.s hf ht
        setS { d with opAct := ((a, k), id) :: d.opAct } s
      | "sendto", _, 1 =>
        match lookup d.opAct (a, k) with
        | none => fail d (.disagree s!"mid-without-start a{a}.{k}")
        | some id => setS d (waitOn d.s a id)
      | _, _, _ => fail d .bad

/-- end of a scheduling round: handle the queued simcalls in order, then `handle_ended_actions` -/
def flush (d : D) : D :=
  let d := d.q.foldl handleQ { d with q := [] }
  if d.s.crashed then d else setS d (handleEndedAll d.s)

def applyFault (d : D) (on isHost : Bool) (idx : Nat) (date : String) : D :=
  handleQ d (.ctl on isHost idx date)

/-- result kinds that the spec allows for an op (monitor, independent of the model's state) -/
def allowedKinds (d : D) (a : Nat) (op : Op) : List String :=
  match op.name with
  | "put" | "get" | "sendto" => ["ok", "net"]
  | "exec" | "pexec" => ["ok", "host"]
  | "sleep" | "iput" | "iget" | "dput" | "iexec" | "ipexec" => ["ok"]
  | "test" => ["true", "false", "noslot"]
  | "wait" =>
    match op.args with
    | [sl] => match lookup d.slots (a, sl) with
      | some id => if (d.s.acts id).kind == .exec then ["ok", "host"] else ["ok", "net"]
      | none => ["noslot"]
    | _ => []
  | "wany" => ["ok", "net", "host", "noslot"]
  | _ => []

def parseRes (t : String) : Option (Bool × Nat) :=   -- h3 / l2
  match (dropS t 1).toNat? with
  | some n => if t.startsWith "h" then some (true, n) else if t.startsWith "l" then some (false, n) else none
  | none => none

def parseActor (t : String) : Option Nat := if t.startsWith "a" then (dropS t 1).toNat? else none

def parseHandle (t : String) : Option (Nat × Nat) :=   -- a<i>.<k>
  match (dropS t 1).splitOn "." with
  | [i, k] => match i.toNat?, k.toNat? with
    | some i, some k => some (i, k)
    | _, _ => none
  | _ => none

/-- fixed defect `host-off-marks-peer-dying-without-exit`: the model says the actor was marked dying
(`unregister_first_simcall`: "host is off => set_wannadie", pre-fix variant `unregisterMarksDying := true` only) but
`ActorImpl::exit` never ran for it (no `Obs.kill`).  With the fixed model this note is never produced: an actor of a host
turned off that does not terminate at that date is a plain monitor failure. -/
def zombieNote (s : St) (a : Nat) : String :=
  if (s.actors a).wannadie && ! (s.actors a).ended && ! s.obs.contains (.kill a) then
    " [zombie: marked dying by unregister_first_simcall while its host was being turned off, ActorImpl::exit never ran]"
  else ""

/-- the clock moved: everything the spec wanted reported at the previous date must have been reported -/
def onDate (d : D) (date : String) : D :=
  if date == d.lastDate then d else
  match d.must with
  | m :: _ => fail { d with lastDate := date } (.monfail s!"a{m.actor} blocked on an activity hit by the failure at {m.date} was not told ({m.kind}) at that date")
  | [] =>
    -- actors of a host turned off must have run their on_exit before the clock moves
    let missing := (List.range d.s.nActors).filter (fun a =>
      d.hostOff.any (fun h => h.1 == (d.s.actors a).host) && ! d.exited.contains a &&
      -- only actors that were alive when the host went off (the model marks them)
      (d.s.actors a).wannadie && ! (d.s.actors a).ended)
    match missing with
    | a :: _ => fail { d with lastDate := date } (.monfail (s!"a{a} lives on a host that was turned off but did not terminate at that date" ++ zombieNote d.s a))
    | [] => { d with lastDate := date, hostOff := [] }

def removeFirst {α : Type} (l : List α) (p : α → Bool) : List α :=
  match l with
  | [] => []
  | x :: xs => if p x then xs else x :: removeFirst xs p

def procLine (d : D) (toks : List String) : D :=
  if d.err.isSome then d else
  -- after the deadlock report the engine kills every actor: nothing left to check
  if d.deadlocked then d else
  match toks with
  | [date, "phase"] => flush (onDate d date)
  | [date, who, "issue", k] =>
    let d := onDate d date
    match parseActor who, k.toNat? with
    | some a, some k => { d with q := d.q ++ [.op a k 0], curOp := (a, k) :: d.curOp }
    | _, _ => fail d .bad
  | [date, who, "mid", k] =>
    let d := onDate d date
    match parseActor who, k.toNat? with
    | some a, some k => { d with q := d.q ++ [.op a k 1] }
    | _, _ => fail d .bad
  | [date, "ctl", "issue", dir, res] =>
    let d := onDate d date
    match parseRes res with
    | some (isHost, idx) =>
      -- the monitor's expectations are computed when the request is handled (see flushCtl below): queue it
      { d with q := d.q ++ [.ctl (dir == "on") isHost idx date] }
    | none => fail d .bad
  | [date, "sig", dir, res] =>
    let d := onDate d date
    match parseRes res with
    | some (isHost, idx) =>
      let on := dir == "on"
      let queued := d.q.any (fun e => match e with
        | .ctl on' h' i' _ => on' == on && h' == isHost && i' == idx
        | _ => false)
      if queued then d else
        -- a state-profile event (fired from EngineImpl::solve): the previous round is over
        applyFault (flush d) on isHost idx date
    | none => fail d .bad
  | [date, "done", h, st] =>
    let d := onDate d date
    match parseHandle h with
    | none => fail d .bad
    | some key =>
      let d := if (lookup d.opAct key).isNone || ! terminal (d.s.acts ((lookup d.opAct key).getD 0)).state then flush d else d
      if d.s.crashed then d else
      match lookup d.opAct key with
      | none => fail d (.disagree s!"done-on-unknown-activity {h}")
      | some id =>
        let d := if terminal (d.s.acts id).state then d else
          if (d.s.acts id).action = some .started then setS d (complete d.s id)
          else d
        -- the scan may have seen X_FAILURE just before a queued wait was answered (which turns it into FAILED)
        let ms := (d.s.acts id).state
        -- the harness sees the kernel state at the next log line, which may be a transient one (CANCELED by a dying
        -- owner before handle_ended_actions turns it into FAILED; X_FAILURE before / FAILED after an answer): what is
        -- compared is "completed normally" against "ended in failure"; the answers' kinds are compared exactly elsewhere
        if stateName ms == st || (ms != .done && terminal ms && st != "DONE") then d
        else fail d (.disagree s!"activity {h} state model={stateName (d.s.acts id).state} impl={st}")
  | [date, who, "ret", k, r] =>
    let d := onDate d date
    match parseActor who, k.toNat? with
    | some a, some k =>
      match getOp d a k with
      | none => fail d .bad
      | some op =>
        let d := { d with curOp := d.curOp.filter (· != (a, k)), returned := (a, k) :: d.returned }
        -- monitor: kind allowed for this op
        let base := if r.startsWith "ok." then "ok" else r
        if ! (allowedKinds d a op).contains base then
          fail d (.monfail s!"a{a} op {k} ({op.name}) returned {r}: not a failure kind of the spec table")
        else
        -- monitor: reported at the failure date with the right kind
        let mine := d.must.filter (fun m => m.actor == a)
        let d := { d with must := d.must.filter (fun m => m.actor != a) }
        if ! mine.isEmpty && ! mine.any (fun m => m.kind == base) then
          fail d (.monfail s!"a{a} op {k} returned {r} but the failure at {date} calls for {(mine.map (·.kind))}")
        else
        -- an op whose request is still queued returned without any simcall: s4u answered from the state it cached
        -- (wait/test on an activity that this actor already saw finish or fail)
        let queued := d.q.any (fun e => match e with | .op a' k' _ => a' == a && k' == k | _ => false)
        if queued then
          let d := { d with q := d.q.filter (fun e => match e with | .op a' k' _ => !(a' == a && k' == k) | _ => true) }
          match op.name, op.args with
          | "wait", [sl] | "test", [sl] =>
            match lookup d.slots (a, sl) with
            | none => if r == "noslot" then d else fail d (.disagree s!"a{a} op {k}: no such slot in the model")
            | some id =>
              let st := (d.s.acts id).state
              let want := if op.name == "test" then "true" else if st == .done then "ok"
                          else if (d.s.acts id).kind == .exec then "host" else "net"
              if terminal st && r == want then d
              else fail d (.disagree s!"a{a} op {k} returned {r} without a simcall; model: activity state {stateName st}, expects {want}")
          | _, _ => if r == "noslot" then d else fail d (.disagree s!"a{a} op {k} ({op.name}) returned without a simcall")
        else
        -- model agreement
        let nonBlocking := ["iput", "iget", "dput", "iexec", "ipexec", "test"].contains op.name || r == "noslot"
        if nonBlocking then
          if d.imm.contains (a, r) then { d with imm := removeFirst d.imm (· == (a, r)) }
          else fail d (.disagree s!"a{a} op {k} returned {r}, model expects {(d.imm.filter (·.1 == a)).map (·.2)}")
        else
          match d.pend.find? (fun p => p.1 == a) with
          | none => fail d (.disagree s!"a{a} op {k} returned {r} but the model has not answered it")
          | some (_, ans, by_) =>
            let d := { d with pend := removeFirst d.pend (fun p => p.1 == a) }
            if ansName ans != base then fail d (.disagree s!"a{a} op {k} returned {r}, model expects {ansName ans}")
            else if r.startsWith "ok." then
              match (dropS r 3).toNat? with
              | some sl =>
                -- several activities of the set may end at the same date: any of them is a legal answer
                if lookup d.slots (a, sl) == some by_ ||
                   (match lookup d.slots (a, sl) with | some id => (d.s.acts id).state == .done | none => false) then d
                else fail d (.disagree s!"a{a} wait_any returned slot {sl}, model says activity {by_}")
              | none => fail d .bad
            else d
    | _, _ => fail d .bad
  | [date, who, "exit", f] =>
    let d := onDate d date
    match parseActor who with
    | none => fail d .bad
    | some a =>
      let d := { d with exited := a :: d.exited }
      if d.deadlocked then d else
      let failed := f == "1"
      -- monitor: failed=true only for actors whose host was turned off (now)
      let hostIsOff := ! d.s.hostOn (d.s.actors a).host || d.hostOff.any (fun h => h.1 == (d.s.actors a).host)
      -- a kill request may still be queued (the victim runs in the next round: then it was flushed by `phase`)
      if failed && ! hostIsOff then fail d (.monfail s!"a{a} terminated with failed=true but its host never failed")
      else
        let mw := (d.s.actors a).wannadie
        -- an actor whose simcall was answered and whose host is turned off later in the SAME scheduling round is killed
        -- before it resumes: it never sees that answer (there is no `ret` line), only its on_exit(failed = true)
        let d := if failed then { d with pend := d.pend.filter (fun p => p.1 != a) } else d
        if mw != failed then fail d (.disagree s!"a{a} on_exit(failed={f}) but the model says wannadie={mw}")
        else if ! failed && (d.progs.getD a []).length != (d.returned.filter (·.1 == a)).length then
          fail d (.disagree s!"a{a} terminated normally before the end of its program")
        else setS d (actorEnd d.s a)
  | date :: "deadlock" :: blocked =>
    let d := flush (onDate d date)
    if d.s.crashed then d else
    let d := { d with deadlocked := true }
    -- monitor no_orphan: nobody may be blocked on an activity that involves a failed resource; the only legitimate
    -- way to be blocked for ever is an unmatched communication (its peer never came)
    let bad := blocked.filterMap (fun b => match parseHandle b with
      | some (a, _) =>
        let x := d.s.actors a
        if x.waiting.all (fun k => (d.s.acts k).state == .waiting) && ! x.waiting.isEmpty then none else some b
      | none => some b)
    match bad with
    | b :: _ => fail d (.monfail (s!"{b} is blocked for ever on an activity that is not an unmatched communication" ++
        (match parseHandle b with | some (a, _) => zombieNote d.s a | none => "")))
    | [] =>
      let modelBlocked := (List.range d.s.nActors).filter (fun a =>
        (d.s.actors a).blocked && ! (d.s.actors a).wannadie && ! (d.s.actors a).ended)
      let implBlocked := blocked.filterMap (fun b => (parseHandle b).map (·.1))
      if modelBlocked.all implBlocked.contains && implBlocked.all modelBlocked.contains then d
      else fail d (.disagree s!"blocked actors: model={modelBlocked} impl={implBlocked}")
  | [date, "end"] =>
    let d := flush (onDate d date)
    if d.s.crashed then d else
    match d.must with
    | m :: _ => fail d (.monfail s!"a{m.actor} was never told about the failure at {m.date}")
    | [] =>
      if ! d.pend.isEmpty then fail d (.disagree s!"model answers never observed: {d.pend.map (fun p => (p.1, ansName p.2.1))}")
      else if ! d.deadlocked && (List.range d.s.nActors).any (fun a => ! d.exited.contains a) then
        fail d (.monfail "the run ended without deadlock report but some actor never terminated")
      else d
  | _ => fail d .bad

/-- Tie at one date between a state-profile link failure and the end of a communication: `EngineImpl::solve` applies
the profile event first (`cancel_actions` marks the action FAILED but leaves it in the action heap) and then
`update_actions_state` finishes the action normally, so the communication completes; `handle_ended_actions` then
finishes the failed activities first and the completed ones after.  The activities concerned are those with a
`done .. DONE` line at this date before the next `phase`. -/
def tieIds (rest : List (List String)) (date : String) (d : D) : List Nat :=
  match rest with
  | [] => []
  | l :: rest' =>
    match l with
    | [_, "phase"] => []
    | [dt, "done", h, "DONE"] =>
      if dt != date then [] else
      let here := match parseHandle h with
        | some key => match lookup d.opAct key with
          | some id => if (d.s.acts id).kind == .comm && (d.s.acts id).action == some .started then [id] else []
          | none => []
        | none => []
      here ++ tieIds rest' date d
    | _ => tieIds rest' date d

def procLines : List (List String) → D → D
  | [], d => d
  | l :: rest, d =>
    match l with
    | [date, "sig", "off", res] =>
      let isProfile := ! d.q.any (fun e => match e with | .ctl false _ _ _ => true | _ => false)
      if isProfile && res.startsWith "l" && d.err.isNone then
        let d := flush (onDate d date)
        let prot := tieIds rest date d
        let saved := prot.map (fun id => (id, (d.s.acts id).links))
        -- the protected comms are not failed by the event ...
        let d := { d with s := prot.foldl (fun s id => s.setAct id (fun x => { x with links := [] })) d.s }
        let d := procLine d l
        -- ... the failed activities are finished first ...
        let d := if d.s.crashed then d else setS d (handleEndedAll d.s)
        -- ... then the completed ones
        let d := saved.foldl (fun d p =>
          setS d (complete (d.s.setAct p.1 (fun x => { x with links := p.2 })) p.1)) d
        procLines rest d
      else procLines rest (procLine d l)
    | _ => procLines rest (procLine d l)

def splitBar (toks : List String) : List (List String) :=
  ((" ".intercalate toks).splitOn " | ").map (fun l => (l.splitOn " ").filter (· ≠ ""))

def judge (q a : List String) : Verdict :=
  match parseCase q with
  | none => .bad
  | some (hosts, progs, routes) =>
    let d0 : D := { s := init hosts (mkRoute routes), progs := progs, ptask := q.contains "M:ptask" }
    let lines := splitBar a
    -- a crash ends the log: `... | CRASH 6 msg`
    let crashed := lines.any (fun l => l.head? == some "CRASH" || l.head? == some "HANG")
    let lines := lines.filter (fun l => l.head? != some "CRASH" && l.head? != some "HANG")
    let d := procLines lines d0
    match d.err with
    | some v => v
    | none =>
      if crashed then
        let d := flush d
        if d.s.crashed then
          .monfail "the implementation aborts (xbt_assert in CommImpl::start: endpoint host is off) instead of reporting the failure; the model predicts this abort"
        else .monfail "the implementation crashes or hangs (no assertion of the modelled functions is involved)"
      else if d.s.crashed then .disagree "model predicts an assertion failure, implementation went on"
      else .ok

end SgVerif.C10

def main : IO Unit := SgVerif.Proto.run SgVerif.C10.judge
