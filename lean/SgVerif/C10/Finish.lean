import SgVerif.C10.Frame
/-
C10 helper lemmas, part 3: what one call of `finish` does to an arbitrary registered, answerable issuer.
-/
set_option linter.unusedSimpArgs false
set_option linter.unusedVariables false
namespace SgVerif.C10

/-- the fields of an activity that only `start` / `cancel` / `finish` of that very activity may change -/
def statOf (x : Activity) : Kind × Option Nat × Option Nat × List Nat × Option ActionSt :=
  (x.kind, x.from_, x.to_, x.hosts, x.action)

/-- the common shape of the per-issuer loop bodies of the three `finish` functions -/
def answerOneG (after : St → Nat → St) (t : St) (x : Nat) : St :=
  let r := answerTarget (unregisterAll t x) x
  if r.2 then after r.1 x else r.1

theorem commAnswerOne_eq (k : Nat) : commAnswerOne k = answerOneG (commAfter k) := rfl
theorem execAnswerOne_eq (k : Nat) : execAnswerOne k = answerOneG (execAfter k) := rfl
theorem sleepAnswerOne_eq (k : Nat) : sleepAnswerOne k = answerOneG (fun t a => deliver t a .ok k) := rfl

/-- what the loops need to know about the `after` part (run for an issuer that is answered) of activity `k0`;
`P` is a property of the state of `k0` under which every answer satisfies `R` -/
structure AfterOK (k0 : Nat) (after : St → Nat → St) (P : AState → Prop) (R : Ans → Prop) : Prop where
  ext : ∀ t x, Ext t (after t x)
  self : ∀ t x, P (t.acts k0).state →
    (after t x).crashed = true ∨ ∃ r, R r ∧ (after t x).obs = t.obs ++ [.answer x r k0]
  core : ∀ t x b, b ≠ x → coreOf (after t x) b = coreOf t b
  simc : ∀ t x j, ((after t x).acts j).simcalls = (t.acts j).simcalls
  stat : ∀ t x j, statOf ((after t x).acts j) = statOf (t.acts j)
  fq : ∀ t x, (after t x).failedQ = t.failedQ
  presP : ∀ t x, P (t.acts k0).state → P ((after t x).acts k0).state
  wd : ∀ t x b, b ≠ x → ((after t x).actors b).wannadie = (t.actors b).wannadie

theorem unregisterAll_core (t : St) (x b : Nat) : coreOf (unregisterAll t x) b = coreOf t b := by
  by_cases hb : b = x
  · subst hb; simp [coreOf, unregisterAll]
  · simp [coreOf, unregisterAll, upd, hb]

theorem unregisterAll_stat (t : St) (x j : Nat) : statOf ((unregisterAll t x).acts j) = statOf (t.acts j) := by
  simp only [unregisterAll]; split <;> rfl

theorem unregisterAll_simc_other (t : St) (x b j : Nat) (hb : b ≠ x) (h : b ∈ (t.acts j).simcalls) :
    b ∈ ((unregisterAll t x).acts j).simcalls := by
  simp only [unregisterAll]; split
  · exact (List.mem_erase_of_ne hb).mpr h
  · exact h

theorem unregisterAll_simc_sub (t : St) (x b j : Nat) (h : b ∈ ((unregisterAll t x).acts j).simcalls) :
    b ∈ (t.acts j).simcalls := by
  simp only [unregisterAll] at h; split at h
  · exact List.mem_of_mem_erase h
  · exact h

theorem unregisterAll_wd (t : St) (x b : Nat) : ((unregisterAll t x).actors b).wannadie = (t.actors b).wannadie := by
  by_cases hb : b = x
  · subst hb; simp [unregisterAll]
  · simp [unregisterAll, upd, hb]

theorem answerTarget_failedQ (t : St) (a : Nat) : (answerTarget t a).1.failedQ = t.failedQ := by
  unfold answerTarget markDying; (repeat' split) <;> simp [St.setActor]

section G
variable {k0 : Nat} {after : St → Nat → St} {P : AState → Prop} {R : Ans → Prop}

theorem g_ext (h : AfterOK k0 after P R) (t : St) (x : Nat) : Ext t (answerOneG after t x) := by
  unfold answerOneG
  simp only []
  split
  · exact ((ext_unregisterAll t x).trans (ext_answerTarget _ x)).trans (h.ext _ x)
  · exact (ext_unregisterAll t x).trans (ext_answerTarget _ x)

theorem g_self (h : AfterOK k0 after P R) (t : St) (x : Nat) (ha : Answerable t x) (hP : P (t.acts k0).state) :
    (answerOneG after t x).crashed = true ∨
      ∃ r, R r ∧ (answerOneG after t x).obs = t.obs ++ [.answer x r k0] := by
  have h1 := unregisterAll_answerable t x x ha
  have h2 := answerTarget_of_answerable _ x h1
  unfold answerOneG
  simp only [h2, if_true]
  exact h.self _ x (by rw [unregisterAll_state]; exact hP)

theorem g_core (h : AfterOK k0 after P R) (t : St) (x b : Nat) (hb : b ≠ x) :
    coreOf (answerOneG after t x) b = coreOf t b := by
  have h0 : coreOf (answerTarget (unregisterAll t x) x).1 b = coreOf t b := by
    rw [answerTarget_core _ x b hb, unregisterAll_core]
  unfold answerOneG
  simp only []
  split
  · rw [h.core _ x b hb]; exact h0
  · exact h0

theorem g_simc_other (h : AfterOK k0 after P R) (t : St) (x b j : Nat) (hb : b ≠ x) (hm : b ∈ (t.acts j).simcalls) :
    b ∈ ((answerOneG after t x).acts j).simcalls := by
  have h0 : b ∈ ((answerTarget (unregisterAll t x) x).1.acts j).simcalls := by
    rw [answerTarget_acts]; exact unregisterAll_simc_other t x b j hb hm
  unfold answerOneG
  simp only []
  split
  · rw [h.simc]; exact h0
  · exact h0

theorem g_simc_sub (h : AfterOK k0 after P R) (t : St) (x b j : Nat)
    (hm : b ∈ ((answerOneG after t x).acts j).simcalls) : b ∈ (t.acts j).simcalls := by
  unfold answerOneG at hm
  simp only [] at hm
  split at hm
  · rw [h.simc, answerTarget_acts] at hm; exact unregisterAll_simc_sub t x b j hm
  · rw [answerTarget_acts] at hm; exact unregisterAll_simc_sub t x b j hm

theorem g_stat (h : AfterOK k0 after P R) (t : St) (x j : Nat) :
    statOf ((answerOneG after t x).acts j) = statOf (t.acts j) := by
  have h0 : statOf ((answerTarget (unregisterAll t x) x).1.acts j) = statOf (t.acts j) := by
    rw [answerTarget_acts, unregisterAll_stat]
  unfold answerOneG
  simp only []
  split
  · rw [h.stat]; exact h0
  · exact h0

theorem g_fq (h : AfterOK k0 after P R) (t : St) (x : Nat) : (answerOneG after t x).failedQ = t.failedQ := by
  have h0 : (answerTarget (unregisterAll t x) x).1.failedQ = t.failedQ := by rw [answerTarget_failedQ]; rfl
  unfold answerOneG
  simp only []
  split
  · rw [h.fq]; exact h0
  · exact h0

theorem g_P (h : AfterOK k0 after P R) (t : St) (x : Nat) (hP : P (t.acts k0).state) :
    P ((answerOneG after t x).acts k0).state := by
  have h0 : P ((answerTarget (unregisterAll t x) x).1.acts k0).state := by
    rw [answerTarget_acts, unregisterAll_state]; exact hP
  unfold answerOneG
  simp only []
  split
  · exact h.presP _ x h0
  · exact h0

theorem g_wd (h : AfterOK k0 after P R) (t : St) (x b : Nat) (hb : b ≠ x) :
    ((answerOneG after t x).actors b).wannadie = (t.actors b).wannadie := by
  have h0 : ((answerTarget (unregisterAll t x) x).1.actors b).wannadie = (t.actors b).wannadie := by
    rw [answerTarget_other _ x b hb, unregisterAll_wd]
  unfold answerOneG
  simp only []
  split
  · rw [h.wd _ x b hb]; exact h0
  · exact h0

/-! the whole loop -/
theorem loop_ext (h : AfterOK k0 after P R) (l : List Nat) : ∀ t, Ext t (l.foldl (answerOneG after) t) := by
  induction l with
  | nil => intro t; exact Ext.refl t
  | cons x xs ih => intro t; exact (g_ext h t x).trans (ih _)

theorem loop_stat (h : AfterOK k0 after P R) (l : List Nat) (j : Nat) :
    ∀ t, statOf ((l.foldl (answerOneG after) t).acts j) = statOf (t.acts j) := by
  induction l with
  | nil => intro t; rfl
  | cons x xs ih => intro t; simp only [List.foldl_cons]; rw [ih, g_stat h]

theorem loop_fq (h : AfterOK k0 after P R) (l : List Nat) : ∀ t, (l.foldl (answerOneG after) t).failedQ = t.failedQ := by
  induction l with
  | nil => intro t; rfl
  | cons x xs ih => intro t; simp only [List.foldl_cons]; rw [ih, g_fq h]

theorem loop_simc_sub (h : AfterOK k0 after P R) (l : List Nat) (b j : Nat) :
    ∀ t, b ∈ ((l.foldl (answerOneG after) t).acts j).simcalls → b ∈ (t.acts j).simcalls := by
  induction l with
  | nil => intro t hm; exact hm
  | cons x xs ih => intro t hm; exact g_simc_sub h t x b j (ih _ hm)

/-- an answerable issuer that is in the list is answered by `k0` (with an answer satisfying `R` when `P` holds) -/
theorem loop_in (h : AfterOK k0 after P R) (a : Nat) (l : List Nat) : ∀ t, a ∈ l → Answerable t a → P (t.acts k0).state →
    (l.foldl (answerOneG after) t).crashed = true ∨
      ∃ r, R r ∧ newIn t (l.foldl (answerOneG after) t) (.answer a r k0) := by
  induction l with
  | nil => intro t hm; cases hm
  | cons x xs ih =>
    intro t hm ha hP
    simp only [List.foldl_cons]
    by_cases hx : a = x
    · subst hx
      rcases g_self h t a ha hP with hc | ⟨r, hr, ho⟩
      · exact Or.inl ((loop_ext h xs _).crashed hc)
      · exact Or.inr ⟨r, hr, newIn_of_ext_right _ (loop_ext h xs _) (newIn_append t _ _ _ ho (by simp))⟩
    · have hin : a ∈ xs := by
        rcases List.mem_cons.mp hm with h' | h'
        · exact absurd h' hx
        · exact h'
      have ha' : Answerable (answerOneG after t x) a := by
        rw [answerable_iff_core, g_core h t x a hx, ← answerable_iff_core]; exact ha
      rcases ih _ hin ha' (g_P h t x hP) with hc | ⟨r, hr, ho⟩
      · exact Or.inl hc
      · exact Or.inr ⟨r, hr, newIn_of_ext_left _ (g_ext h t x) ho⟩

/-- an issuer that is not in the list keeps its registrations and its answerability -/
theorem loop_out (h : AfterOK k0 after P R) (a : Nat) (l : List Nat) : ∀ t, a ∉ l →
    coreOf (l.foldl (answerOneG after) t) a = coreOf t a ∧
    (∀ j, a ∈ (t.acts j).simcalls → a ∈ ((l.foldl (answerOneG after) t).acts j).simcalls) ∧
    ((l.foldl (answerOneG after) t).actors a).wannadie = (t.actors a).wannadie := by
  induction l with
  | nil => intro t _; exact ⟨rfl, fun _ hj => hj, rfl⟩
  | cons x xs ih =>
    intro t hm
    simp only [List.foldl_cons]
    have hx : a ≠ x := fun e => hm (by simp [e])
    have hxs : a ∉ xs := fun e => hm (by simp [e])
    obtain ⟨i1, i2, i3⟩ := ih (answerOneG after t x) hxs
    refine ⟨by rw [i1, g_core h t x a hx], fun j hj => i2 j (g_simc_other h t x a j hx hj), by rw [i3, g_wd h t x a hx]⟩

end G

/-! ### the three `after` functions -/

theorem commAfter_acts (k : Nat) (t : St) (x j : Nat) :
    (commAfter k t x).acts j = t.acts j ∨ ∃ st, (commAfter k t x).acts j = { t.acts j with state := st } := by
  by_cases hj : j = k
  · subst hj
    unfold commAfter
    simp only []
    (repeat' split) <;> simp_all [St.setActor, St.setAct, St.emit, St.crash, upd, deliver, eraseActivity] <;>
      (repeat' split) <;> simp_all [St.setActor, St.setAct, St.emit, St.crash, upd, deliver, eraseActivity]
  · left
    unfold commAfter
    simp only []
    (repeat' split) <;> simp_all [St.setActor, St.setAct, St.emit, St.crash, upd, deliver, eraseActivity] <;>
      (repeat' split) <;> simp_all [St.setActor, St.setAct, St.emit, St.crash, upd, deliver, eraseActivity]

theorem commAfter_simc (k : Nat) (t : St) (x j : Nat) : ((commAfter k t x).acts j).simcalls = (t.acts j).simcalls := by
  rcases commAfter_acts k t x j with h | ⟨st, h⟩ <;> rw [h]

theorem commAfter_stat (k : Nat) (t : St) (x j : Nat) : statOf ((commAfter k t x).acts j) = statOf (t.acts j) := by
  rcases commAfter_acts k t x j with h | ⟨st, h⟩ <;> rw [h] <;> rfl

theorem commAfter_fq (k : Nat) (t : St) (x : Nat) : (commAfter k t x).failedQ = t.failedQ := by
  unfold commAfter
  simp only []
  (repeat' split) <;> simp_all [St.setActor, St.setAct, St.emit, St.crash, upd, deliver, eraseActivity] <;>
    (repeat' split) <;> simp_all [St.setActor, St.setAct, St.emit, St.crash, upd, deliver, eraseActivity]

theorem commAfter_wd (k : Nat) (t : St) (x b : Nat) (hb : b ≠ x) :
    ((commAfter k t x).actors b).wannadie = (t.actors b).wannadie := by
  have := commAfter_core k t x b hb
  simp only [coreOf, Prod.mk.injEq] at this
  exact this.2.2

end SgVerif.C10
