import SgVerif.C10.Hold2
/-
C10 helper lemmas, part 16: the kill loop of `HostImpl::turn_off` reaches the holder of the communication and cancels it.
-/
set_option linter.unusedSimpArgs false
set_option linter.unusedVariables false
namespace SgVerif.C10

theorem hold_setActor {t : St} {b a k : Nat} (c : Nat) (f : Actor → Actor) (hs : Simp a t (t.setActor c f))
    (hf : ∀ x, k ∈ x.activities → k ∈ (f x).activities) (p : HoldS t b a k) : HoldS (t.setActor c f) b a k := by
  refine hold_of_simp_ne hs rfl (fun hm => ?_) p
  by_cases hc : b = c
  · subst hc; simp [St.setActor]; exact hf _ hm
  · simpa [St.setActor, upd, hc] using hm

/-- `ActorImpl::exit` of an actor `c ≠ a`: the communication stays held, or is doomed / the issuer answered; when `c` is the
holder itself, the second loop (`activities_`) cancels the communication -/
theorem hold_actorExit {b a k : Nat} (t : St) (c : Nat) (hc : c ≠ a) (p : HoldS t b a k) :
    Res2 t (actorExit t c) b a k ∧ (c = b → Res t (actorExit t c) a k (.exc .net)) := by
  unfold actorExit
  simp only []
  have s1 : Simp a t (t.setActor c (fun x => { x with wannadie := true })) := simp_setActor_ne a t c _ hc
  have p1 : HoldS (t.setActor c (fun x => { x with wannadie := true })) b a k := hold_setActor c _ s1 (fun _ h => h) p
  generalize hu1 : t.setActor c (fun x => { x with wannadie := true }) = u1 at s1 p1
  have e2 := ext_exitLoop c (u1.actors c).waiting.length u1
  have r2 := hold_exitLoop c (u1.actors c).waiting.length u1 p1
  generalize hu2 : exitLoop c (u1.actors c).waiting.length u1 = u2 at e2 r2
  -- the tail: cancel the activities, clear the lists, record the kill
  have tailS : ∀ v : St, Simp a v ((((v.actors c).activities.foldl cancel v).setActor c
      (fun x => { x with activities := [], waiting := [] })).emit (.kill c)) := fun v =>
    ((simp_foldl a cancel (simp_cancel a) _ v).trans (simp_setActor_ne a _ c _ hc)).trans (simp_emit a _ _)
  have tailR : PendS u2 a k (.exc .net) → Res u2 ((((u2.actors c).activities.foldl cancel u2).setActor c
      (fun x => { x with activities := [], waiting := [] })).emit (.kill c)) a k (.exc .net) := fun q => res_of_simp (tailS u2) q
  have tailH : HoldS u2 b a k →
      Res2 u2 ((((u2.actors c).activities.foldl cancel u2).setActor c
        (fun x => { x with activities := [], waiting := [] })).emit (.kill c)) b a k ∧
      (c = b → Res u2 ((((u2.actors c).activities.foldl cancel u2).setActor c
        (fun x => { x with activities := [], waiting := [] })).emit (.kill c)) a k (.exc .net)) := by
    intro q
    obtain ⟨f1, f2⟩ := hold_cancelFold (b := b) (a := a) (k := k) (u2.actors c).activities u2 q
    have ef := ext_foldl cancel ext_cancel (u2.actors c).activities u2
    have st : ∀ v : St, Simp a v ((v.setActor c (fun x => { x with activities := [], waiting := [] })).emit (.kill c)) :=
      fun v => (simp_setActor_ne a v c _ hc).trans (simp_emit a _ _)
    refine ⟨?_, fun hcb => ?_⟩
    · rcases f1 with f | f
      · exact Or.inl (res_then_simp ef f (st _))
      · by_cases hcb : c = b
        · subst hcb
          exact Or.inl (res_then_simp ef (f2 q.held) (st _))
        · right
          have h1 : HoldS (((u2.actors c).activities.foldl cancel u2).setActor c
              (fun x => { x with activities := [], waiting := [] })) b a k := by
            refine hold_of_simp_ne (simp_setActor_ne a _ c _ hc) rfl (fun hm => ?_) f
            have : b ≠ c := fun e => hcb e.symm
            simpa [St.setActor, upd, this] using hm
          exact hold_of_simp_ne (simp_emit a _ _) rfl id h1
    · subst hcb
      exact res_then_simp ef (f2 q.held) (st _)
  have e3 := (tailS u2).ext
  refine ⟨?_, fun hcb => ?_⟩
  · have r12 : Res2 t u2 b a k := by
      rcases r2 with h | h
      · exact Or.inl (res_rebase s1.ext h)
      · exact Or.inr h
    exact res2_trans (s1.ext.trans e2) e3 r12 tailR (fun q => (tailH q).1)
  · rcases r2 with h | h
    · exact res_trans (s1.ext.trans e2) e3 (res_rebase s1.ext h) tailR
    · exact res_rebase (s1.ext.trans e2) ((tailH h).2 hcb)

/-- what makes `b` a holder that `turn_off` will reach: a live actor of the host, not yet dying
(before the fix of `host-off-marks-peer-dying-without-exit` the structure also needed `Private t h b`) -/
structure HolderOK (t : St) (h b : Nat) : Prop where
  host : (t.actors b).host = h
  ended : (t.actors b).ended = false
  wd : (t.actors b).wannadie = false

theorem hold_killOn {b a k : Nat} (h : Nat) (t : St) (c : Nat) (hoff : t.hostOn h = false) (p : HoldS t b a k)
    (ho : HolderOK t h b) :
    Res2 t (killOn h t c) b a k ∧ (c = b → Res t (killOn h t c) a k (.exc .net)) := by
  by_cases hcb : c = b
  · subst hcb
    have e : killOn h t c = actorExit t c := by
      unfold killOn kill
      simp [ho.host, ho.ended, ho.wd]
    rw [e]
    have hca : c ≠ a := by
      intro e'; subst e'
      have := p.ans.2.1
      rw [ho.host, hoff] at this; cases this
    exact hold_actorExit t c hca p
  · refine ⟨?_, fun e => absurd e hcb⟩
    unfold killOn
    split
    · rename_i hc
      have hca : c ≠ a := by
        intro e'; subst e'
        have := p.ans.2.1
        rw [hc.1, hoff] at this; cases this
      unfold kill
      split
      · exact Or.inr p
      · exact (hold_actorExit t c hca p).1
    · exact Or.inr p

theorem holderOK_killOn (h : Nat) (t : St) (c b : Nat) (hcb : c ≠ b) (ho : HolderOK t h b) : HolderOK (killOn h t c) h b := by
  have m := mono_killOn h t c
  exact ⟨by rw [m.host]; exact ho.host, by rw [m.ended]; exact ho.ended,
    by rw [killOn_wd_frame h t c b hcb]; exact ho.wd⟩

/-- the kill loop reaches the holder -/
theorem hold_killFold {b a k : Nat} (h : Nat) (L : List Nat) : ∀ t, t.hostOn h = false → HoldS t b a k → HolderOK t h b →
    b ∈ L → Res t (L.foldl (killOn h) t) a k (.exc .net) := by
  induction L with
  | nil => intro t _ _ _ hm; cases hm
  | cons c cs ih =>
    intro t hoff p ho hm
    simp only [List.foldl_cons]
    have e1 := ext_killOn h t c
    have hoff1 : (killOn h t c).hostOn h = false := by rw [e1.hostOn]; exact hoff
    have rest : PendS (killOn h t c) a k (.exc .net) → Res (killOn h t c) (cs.foldl (killOn h) (killOn h t c)) a k (.exc .net) :=
      fun q => res_foldl (killOn h) (fun u => u.hostOn h = false) (ext_killOn h)
        (fun u u' e hi => by rw [e.hostOn]; exact hi) (fun u x hi q => res_killOn h u x hi q) cs _ hoff1 q
    have e2 := ext_foldl (killOn h) (ext_killOn h) cs (killOn h t c)
    obtain ⟨r1, r1b⟩ := hold_killOn h t c hoff p ho
    by_cases hcb : c = b
    · exact res_trans e1 e2 (r1b hcb) rest
    · have hin : b ∈ cs := by
        rcases List.mem_cons.mp hm with e | e
        · exact absurd e.symm hcb
        · exact e
      rcases r1 with r | r
      · exact res_trans e1 e2 r rest
      · exact res_rebase e1 (ih _ hoff1 r (holderOK_killOn h t c b hcb ho) hin)

theorem failIf_acts_comm (h : Nat) (t : St) (x k : Nat) (hk : (t.acts k).kind = .comm) :
    (failIf (fun y => y.kind ≠ .comm ∧ h ∈ y.hosts) t x).acts k = t.acts k ∧
    (failIf (fun y => y.kind ≠ .comm ∧ h ∈ y.hosts) t x).actors = t.actors := by
  by_cases hx : k = x
  · subst hx
    unfold failIf
    simp [hk]
  · refine ⟨failIf_other _ t x k hx, ?_⟩
    unfold failIf failAction
    (repeat' split) <;> simp [St.setAct]

theorem cpuPhase_comm (h : Nat) (t : St) (k : Nat) (hk : (t.acts k).kind = .comm) :
    (cpuPhase h t).acts k = t.acts k ∧ (cpuPhase h t).actors = t.actors := by
  unfold cpuPhase
  generalize List.range t.nActs = L
  induction L generalizing t with
  | nil => exact ⟨rfl, rfl⟩
  | cons x xs ih =>
    simp only [List.foldl_cons]
    obtain ⟨a1, a2⟩ := failIf_acts_comm h t x k hk
    obtain ⟨b1, b2⟩ := ih (failIf (fun y => y.kind ≠ .comm ∧ h ∈ y.hosts) t x) (by rw [a1]; exact hk)
    exact ⟨by rw [b1, a1], by rw [b2, a2]⟩

/-- a running communication held by a live actor of the failing host: at the end of `turn_off` every answerable issuer
registered on it is answered or the failure is queued.  `s1` is the state in which the host has just been marked off. -/
theorem res_hostOff_comm (s1 : St) (h k a b : Nat) (hoff : s1.hostOn h = false) (hb : b < s1.nActors)
    (p : HoldS s1 b a k) (ho : HolderOK s1 h b) :
    Ext s1 (maestroPhase h (killPhase h (cpuPhase h s1))) ∧
    Res s1 (maestroPhase h (killPhase h (cpuPhase h s1))) a k (.exc .net) := by
  have sp : Simp a s1 (cpuPhase h s1) := simp_cpuPhase a h s1
  have m1 := mono_cpuPhase h s1
  obtain ⟨c1, c2⟩ := cpuPhase_comm h s1 k p.kind
  have p2 : HoldS (cpuPhase h s1) b a k := hold_of_simp_ne sp c1 (fun hm => by rw [c2]; exact hm) p
  have ho2 : HolderOK (cpuPhase h s1) h b :=
    ⟨by rw [c2]; exact ho.host, by rw [c2]; exact ho.ended, by rw [c2]; exact ho.wd⟩
  have hoff2 : (cpuPhase h s1).hostOn h = false := by rw [sp.ext.hostOn]; exact hoff
  have r3 : Res (cpuPhase h s1) (killPhase h (cpuPhase h s1)) a k (.exc .net) := by
    unfold killPhase
    exact hold_killFold h _ _ hoff2 p2 ho2 (by rw [m1.nActors]; exact List.mem_range.mpr hb)
  have e3 := ext_killPhase h (cpuPhase h s1)
  have sp4 := simp_maestroPhase a h (killPhase h (cpuPhase h s1))
  have r4 := res_then_simp e3 r3 sp4
  exact ⟨sp.ext.trans (e3.trans sp4.ext), res_rebase sp.ext r4⟩

end SgVerif.C10
