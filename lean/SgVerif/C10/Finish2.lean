import SgVerif.C10.Finish
/-
C10 helper lemmas, part 4: the three `finish` functions as "prologue + answer loop"; what one `finish` does to a
registered, answerable issuer of the same or of another activity.
-/
set_option linter.unusedSimpArgs false
set_option linter.unusedVariables false
namespace SgVerif.C10

/-! ### instances of `AfterOK` -/
theorem commOK_any (k : Nat) : AfterOK k (commAfter k) (fun _ => True) (fun _ => True) where
  ext := ext_commAfter k
  self := fun t x _ => by
    rcases commAfter_self k t x with h | ⟨r, h⟩
    · exact Or.inl h
    · exact Or.inr ⟨r, trivial, h⟩
  core := fun t x b hb => commAfter_core k t x b hb
  simc := commAfter_simc k
  stat := commAfter_stat k
  fq := commAfter_fq k
  presP := fun _ _ _ => trivial
  wd := commAfter_wd k

theorem commOK_net (k : Nat) : AfterOK k (commAfter k) NetClass (fun r => r = .exc .net) where
  ext := ext_commAfter k
  self := fun t x hP => by
    rcases commAfter_self_net k t x hP with h | h
    · exact Or.inl h
    · exact Or.inr ⟨_, rfl, h⟩
  core := fun t x b hb => commAfter_core k t x b hb
  simc := commAfter_simc k
  stat := commAfter_stat k
  fq := commAfter_fq k
  presP := fun t x h => commAfter_netclass k t x h
  wd := commAfter_wd k

theorem execAfter_acts (k : Nat) (t : St) (x : Nat) : (execAfter k t x).acts = t.acts := by
  unfold execAfter
  simp only []
  split <;> simp [St.setActor, St.emit, St.crash, deliver]

theorem execAfter_fq (k : Nat) (t : St) (x : Nat) : (execAfter k t x).failedQ = t.failedQ := by
  unfold execAfter
  simp only []
  split <;> simp [St.setActor, St.emit, St.crash, deliver]

theorem execAfter_wd (k : Nat) (t : St) (x b : Nat) (hb : b ≠ x) :
    ((execAfter k t x).actors b).wannadie = (t.actors b).wannadie := by
  have := execAfter_core k t x b hb
  simp only [coreOf, Prod.mk.injEq] at this
  exact this.2.2

theorem execOK_any (k : Nat) : AfterOK k (execAfter k) (fun _ => True) (fun _ => True) where
  ext := ext_execAfter k
  self := fun t x _ => by
    rcases execAfter_self k t x with h | ⟨r, h⟩
    · exact Or.inl h
    · exact Or.inr ⟨r, trivial, h⟩
  core := fun t x b hb => execAfter_core k t x b hb
  simc := fun t x j => by rw [execAfter_acts]
  stat := fun t x j => by rw [execAfter_acts]
  fq := execAfter_fq k
  presP := fun _ _ _ => trivial
  wd := execAfter_wd k

theorem execOK_host (k : Nat) : AfterOK k (execAfter k) (fun st => st = .failed) (fun r => r = .exc .host) where
  ext := ext_execAfter k
  self := fun t x hP => Or.inr ⟨_, rfl, execAfter_self_host k t x hP⟩
  core := fun t x b hb => execAfter_core k t x b hb
  simc := fun t x j => by rw [execAfter_acts]
  stat := fun t x j => by rw [execAfter_acts]
  fq := execAfter_fq k
  presP := fun t x h => by rw [execAfter_acts]; exact h
  wd := execAfter_wd k

theorem sleepOK (k : Nat) : AfterOK k (fun t a => deliver t a .ok k) (fun _ => True) (fun _ => True) where
  ext := fun t x => ext_deliver t x _ k
  self := fun t x _ => Or.inr ⟨.ok, trivial, by simp [deliver, St.emit, St.setActor]⟩
  core := fun t x b hb => coreOf_deliver t x b _ k hb
  simc := fun t x j => by simp [deliver, St.emit, St.setActor]
  stat := fun t x j => by simp [deliver, St.emit, St.setActor]
  fq := fun t x => by simp [deliver, St.emit, St.setActor]
  presP := fun _ _ _ => trivial
  wd := fun t x b hb => by simp [deliver, St.emit, St.setActor, upd, hb]

/-! ### prologues -/
/-- what the prologue of a `finish` on `k` (state update, `clean_action`, mailbox, `simcalls_` moved out) preserves -/
structure PreOK (t p : St) (k : Nat) : Prop where
  ext : Ext t p
  core : ∀ b, coreOf p b = coreOf t b
  simc : ∀ j, j ≠ k → (p.acts j).simcalls = (t.acts j).simcalls
  stat : ∀ j, j ≠ k → statOf (p.acts j) = statOf (t.acts j)
  simk : (p.acts k).simcalls = []

def commPre (s : St) (k : Nat) : St :=
  let s := s.setAct k (fun x => { x with state := commFinalState s k })
  let s := s.emit (.fin k (s.acts k).state)
  let s := cleanAction s k
  let s := mboxRemove s k
  let s := if (s.acts k).detached then { s with maestro := s.maestro.erase k } else s
  s.setAct k (fun x => { x with simcalls := [] })

theorem finishComm_eq (s : St) (k : Nat) :
    finishComm s k = (s.acts k).simcalls.foldl (answerOneG (commAfter k)) (commPre s k) := by
  unfold finishComm commPre
  rw [commAnswerOne_eq]
  simp only []
  congr 1
  cases hm : (s.acts k).mbox <;> simp [St.setAct, St.emit, cleanAction, mboxRemove, upd, hm] <;>
    split <;> simp_all [St.setAct, upd]

theorem commPre_state (s : St) (k : Nat) : ((commPre s k).acts k).state = commFinalState s k := by
  unfold commPre
  cases hm : (s.acts k).mbox <;> simp [St.setAct, St.emit, cleanAction, mboxRemove, upd, hm] <;>
    split <;> simp_all [St.setAct, upd]

theorem commPre_fq (s : St) (k : Nat) : (commPre s k).failedQ = s.failedQ.filter (· ≠ k) := by
  unfold commPre
  cases hm : (s.acts k).mbox <;> simp [St.setAct, St.emit, cleanAction, mboxRemove, upd, hm] <;>
    split <;> simp_all [St.setAct, upd]

theorem commPre_ok (s : St) (k : Nat) : PreOK s (commPre s k) k := by
  refine ⟨⟨?_, ?_, ?_⟩, ?_, ?_, ?_, ?_⟩
  · unfold commPre
    cases hm : (s.acts k).mbox <;> simp [St.setAct, St.emit, cleanAction, mboxRemove, upd, hm] <;>
      split <;> simp_all [St.setAct, upd]
  · unfold commPre
    cases hm : (s.acts k).mbox <;> simp [St.setAct, St.emit, cleanAction, mboxRemove, upd, hm] <;>
      split <;> simp_all [St.setAct, upd]
  · unfold commPre
    cases hm : (s.acts k).mbox <;> simp [St.setAct, St.emit, cleanAction, mboxRemove, upd, hm] <;>
      split <;> simp_all [St.setAct, upd]
  · intro b
    unfold commPre coreOf
    cases hm : (s.acts k).mbox <;> simp [St.setAct, St.emit, cleanAction, mboxRemove, upd, hm] <;>
      split <;> simp_all [St.setAct, upd]
  · intro j hj
    unfold commPre
    cases hm : (s.acts k).mbox <;> simp [St.setAct, St.emit, cleanAction, mboxRemove, upd, hm, hj] <;>
      split <;> simp_all [St.setAct, upd]
  · intro j hj
    unfold commPre statOf
    cases hm : (s.acts k).mbox <;> simp [St.setAct, St.emit, cleanAction, mboxRemove, upd, hm, hj] <;>
      split <;> simp_all [St.setAct, upd]
  · unfold commPre
    cases hm : (s.acts k).mbox <;> simp [St.setAct, St.emit, cleanAction, mboxRemove, upd, hm] <;>
      split <;> simp_all [St.setAct, upd]

def execPre (s : St) (k : Nat) : St :=
  let e := s.acts k
  let s := if e.action ≠ none then
      let st := if e.hosts.any (fun h => ! s.hostOn h) then AState.failed
                else if e.action = some .failed then AState.canceled else AState.done
      cleanAction (s.setAct k (fun x => { x with state := st })) k
    else s
  let s := s.emit (.fin k (s.acts k).state)
  s.setAct k (fun x => { x with simcalls := [] })

theorem finishExec_eq (s : St) (k : Nat) :
    finishExec s k = (s.acts k).simcalls.foldl (answerOneG (execAfter k)) (execPre s k) := by
  unfold finishExec execPre
  rw [execAnswerOne_eq]
  simp only []
  congr 1
  split <;> simp [St.setAct, St.emit, cleanAction, upd]

theorem execPre_state_failed (s : St) (k : Nat)
    (h : ((s.acts k).action ≠ none ∧ (s.acts k).hosts.any (fun h => ! s.hostOn h) = true) ∨
         ((s.acts k).action = none ∧ (s.acts k).state = .failed)) :
    ((execPre s k).acts k).state = .failed := by
  unfold execPre
  rcases h with ⟨h1, h2⟩ | ⟨h1, h2⟩
  · simp [St.setAct, St.emit, cleanAction, upd, h1, h2]
  · simp [St.setAct, St.emit, cleanAction, upd, h1, h2]

theorem execPre_fq (s : St) (k : Nat) (h : (s.acts k).action ≠ none) : (execPre s k).failedQ = s.failedQ.filter (· ≠ k) := by
  unfold execPre
  simp [St.setAct, St.emit, cleanAction, upd, h]

theorem execPre_ok (s : St) (k : Nat) : PreOK s (execPre s k) k := by
  refine ⟨⟨?_, ?_, ?_⟩, ?_, ?_, ?_, ?_⟩
  · unfold execPre; simp only []; split <;> simp [St.setAct, St.emit, cleanAction, upd]
  · unfold execPre; simp only []; split <;> simp [St.setAct, St.emit, cleanAction, upd]
  · unfold execPre; simp only []; split <;> simp [St.setAct, St.emit, cleanAction, upd]
  · intro b; unfold execPre coreOf; simp only []; split <;> simp [St.setAct, St.emit, cleanAction, upd]
  · intro j hj; unfold execPre; simp only []; split <;> simp [St.setAct, St.emit, cleanAction, upd, hj]
  · intro j hj; unfold execPre statOf; simp only []; split <;> simp [St.setAct, St.emit, cleanAction, upd, hj]
  · unfold execPre; simp only []; split <;> simp [St.setAct, St.emit, cleanAction, upd]

def sleepPre (s : St) (k : Nat) (ac : ActionSt) : St :=
  let e := s.acts k
  let st := if ac = .failed then
      (if e.hosts.any (fun h => ! s.hostOn h) then AState.srcHostFailure else AState.canceled)
    else if ac = .finished then AState.done else e.state
  let s := cleanAction (s.setAct k (fun x => { x with state := st })) k
  let s := s.emit (.fin k st)
  s.setAct k (fun x => { x with simcalls := [] })

theorem finishSleep_eq (s : St) (k : Nat) (ac : ActionSt) (h : (s.acts k).action = some ac) :
    finishSleep s k = (s.acts k).simcalls.foldl (answerOneG (fun t a => deliver t a .ok k)) (sleepPre s k ac) := by
  unfold finishSleep sleepPre
  rw [sleepAnswerOne_eq]
  simp only [h]
  congr 1
  simp [St.setAct, St.emit, cleanAction, upd]

theorem finishSleep_none (s : St) (k : Nat) (h : (s.acts k).action = none) : finishSleep s k = s.crash := by
  unfold finishSleep
  simp only [h]

theorem sleepPre_fq (s : St) (k : Nat) (ac : ActionSt) : (sleepPre s k ac).failedQ = s.failedQ.filter (· ≠ k) := by
  unfold sleepPre
  simp [St.setAct, St.emit, cleanAction, upd]

theorem sleepPre_ok (s : St) (k : Nat) (ac : ActionSt) : PreOK s (sleepPre s k ac) k := by
  refine ⟨⟨?_, ?_, ?_⟩, ?_, ?_, ?_, ?_⟩
  · unfold sleepPre; simp [St.setAct, St.emit, cleanAction, upd]
  · unfold sleepPre; simp [St.setAct, St.emit, cleanAction, upd]
  · unfold sleepPre; simp [St.setAct, St.emit, cleanAction, upd]
  · intro b; unfold sleepPre coreOf; simp [St.setAct, St.emit, cleanAction, upd]
  · intro j hj; unfold sleepPre; simp [St.setAct, St.emit, cleanAction, upd, hj]
  · intro j hj; unfold sleepPre statOf; simp [St.setAct, St.emit, cleanAction, upd, hj]
  · unfold sleepPre; simp [St.setAct, St.emit, cleanAction, upd]

end SgVerif.C10
