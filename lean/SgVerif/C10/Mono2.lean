import SgVerif.C10.Mono
/-
C10 helper lemmas, part 10: `Mono` for `finish`, `cancel`, `ActorImpl::exit`, `kill`, the phases of `Host::turn_off`.
-/
set_option linter.unusedSimpArgs false
set_option linter.unusedVariables false
namespace SgVerif.C10

theorem mono_foldl {α : Type} (f : St → α → St) (hf : ∀ t x, Mono t (f t x)) (l : List α) : ∀ t, Mono t (l.foldl f t) := by
  induction l with
  | nil => intro t; exact Mono.refl t
  | cons x xs ih => intro t; exact (hf t x).trans (ih _)

theorem mono_answerOneG (after : St → Nat → St) (hafter : ∀ t x, Mono t (after t x)) (t : St) (x : Nat) :
    Mono t (answerOneG after t x) := by
  unfold answerOneG
  simp only []
  split
  · exact ((mono_unregisterAll t x).trans (mono_answerTarget _ x)).trans (hafter _ x)
  · exact (mono_unregisterAll t x).trans (mono_answerTarget _ x)

theorem mono_of_pre {t p : St} {k : Nat} (h : PreOK t p k) (ha : p.actors = t.actors) (hn : p.nActors = t.nActors) : Mono t p := by
  refine ⟨fun c => by rw [ha], fun c => by rw [ha], fun c hc => by rw [ha]; exact hc, fun c j hj => by rw [ha] at hj; exact hj,
    fun b j hj => ?_, hn⟩
  by_cases hjk : j = k
  · subst hjk; rw [h.simk] at hj; cases hj
  · rw [h.simc j hjk] at hj; exact hj

theorem commPre_actors (s : St) (k : Nat) : (commPre s k).actors = s.actors ∧ (commPre s k).nActors = s.nActors := by
  unfold commPre
  cases hm : (s.acts k).mbox <;> simp [St.setAct, St.emit, cleanAction, mboxRemove, upd, hm] <;>
    split <;> simp_all [St.setAct, upd]

theorem execPre_actors (s : St) (k : Nat) : (execPre s k).actors = s.actors ∧ (execPre s k).nActors = s.nActors := by
  unfold execPre; simp only []; split <;> simp [St.setAct, St.emit, cleanAction, upd]

theorem sleepPre_actors (s : St) (k : Nat) (ac : ActionSt) :
    (sleepPre s k ac).actors = s.actors ∧ (sleepPre s k ac).nActors = s.nActors := by
  unfold sleepPre; simp [St.setAct, St.emit, cleanAction, upd]

theorem mono_finish (t : St) (k : Nat) : Mono t (finish t k) := by
  unfold finish
  split
  · rw [finishComm_eq]
    exact (mono_of_pre (commPre_ok t k) (commPre_actors t k).1 (commPre_actors t k).2).trans
      (mono_foldl _ (mono_answerOneG _ (mono_commAfter k)) _ _)
  · rw [finishExec_eq]
    exact (mono_of_pre (execPre_ok t k) (execPre_actors t k).1 (execPre_actors t k).2).trans
      (mono_foldl _ (mono_answerOneG _ (mono_execAfter k)) _ _)
  · cases hac : (t.acts k).action with
    | none => rw [finishSleep_none t k hac]; exact mono_crash t
    | some ac =>
      rw [finishSleep_eq t k ac hac]
      exact (mono_of_pre (sleepPre_ok t k ac) (sleepPre_actors t k ac).1 (sleepPre_actors t k ac).2).trans
        (mono_foldl _ (mono_answerOneG _ (fun u x => mono_deliver u x .ok k)) _ _)

theorem mono_setAct_state (t : St) (k : Nat) (st : AState) : Mono t (t.setAct k (fun x => { x with state := st })) :=
  mono_setAct t k _ (fun _ _ h => h)

theorem mono_cancel (t : St) (k : Nat) : Mono t (cancel t k) := by
  unfold cancel
  simp only []
  split
  · refine Mono.trans (Mono.trans ?_ (mono_eraseActivity _ _ k)) (mono_eraseActivity _ _ k)
    split
    · split
      · exact (mono_mboxRemove t k).trans (mono_setAct_state _ k _)
      · exact Mono.refl t
    · split
      · split
        · exact mono_crash t
        · exact mono_failAction t k
      · exact Mono.refl t
  · refine Mono.trans (Mono.trans ?_ (mono_setAct_state _ k _)) (mono_eraseActivity _ _ k)
    split
    · exact mono_failAction t k
    · exact Mono.refl t

theorem mono_exitWaiting (b : Nat) (t : St) (k0 : Nat) : Mono t (exitWaiting b t k0) := by
  unfold exitWaiting
  exact (((mono_cancel t k0).trans (mono_setAct_state _ k0 _)).trans (mono_finish _ k0)).trans
    (mono_setActor _ b (fun x => { x with activities := x.activities.erase k0 }) (fun x => ⟨rfl, rfl, id, fun _ h => h⟩))

theorem mono_exitLoop (b : Nat) (n : Nat) : ∀ t, Mono t (exitLoop b n t) := by
  induction n with
  | zero => intro t; exact Mono.refl t
  | succ n ih =>
    intro t
    unfold exitLoop
    split
    · exact Mono.refl t
    · exact ((mono_setActor t b (fun x => { x with waiting := x.waiting.dropLast })
        (fun x => ⟨rfl, rfl, id, fun j h => List.dropLast_subset _ h⟩)).trans (mono_exitWaiting b _ _)).trans (ih _)

theorem mono_actorExit (t : St) (b : Nat) : Mono t (actorExit t b) := by
  unfold actorExit
  exact ((((mono_setActor t b (fun x => { x with wannadie := true }) (fun x => ⟨rfl, rfl, fun _ => rfl, fun _ h => h⟩)).trans
    (mono_exitLoop b _ _)).trans (mono_foldl cancel mono_cancel _ _)).trans
    (mono_setActor _ b (fun x => { x with activities := [], waiting := [] })
      (fun x => ⟨rfl, rfl, id, fun j h => by cases h⟩))).trans (mono_emit _ _)

theorem mono_kill (t : St) (b : Nat) : Mono t (kill t b) := by
  unfold kill; split
  · exact Mono.refl t
  · exact mono_actorExit t b

theorem mono_killOn (h : Nat) (t : St) (b : Nat) : Mono t (killOn h t b) := by
  unfold killOn; split
  · exact mono_kill t b
  · exact Mono.refl t

theorem mono_failIf (cond : Activity → Prop) [DecidablePred cond] (t : St) (x : Nat) : Mono t (failIf cond t x) := by
  unfold failIf; split
  · exact mono_failAction t x
  · exact Mono.refl t

theorem mono_maestroFail (h : Nat) (t : St) (k : Nat) : Mono t (maestroFail h t k) := by
  unfold maestroFail; split
  · exact (mono_cancel t k).trans (mono_setAct_state _ k _)
  · exact Mono.refl t

theorem mono_cpuPhase (h : Nat) (t : St) : Mono t (cpuPhase h t) := mono_foldl _ (mono_failIf _) _ t
theorem mono_killPhase (h : Nat) (t : St) : Mono t (killPhase h t) := mono_foldl _ (mono_killOn h) _ t
theorem mono_maestroPhase (h : Nat) (t : St) : Mono t (maestroPhase h t) := mono_foldl _ (mono_maestroFail h) _ t

theorem mono_handleEnded (n : Nat) : ∀ t, Mono t (handleEnded n t) := by
  induction n with
  | zero => intro t; exact Mono.refl t
  | succ n ih =>
    intro t
    unfold handleEnded
    split
    · exact Mono.refl t
    · rename_i k rest _
      have m0 : Mono t ({ t with failedQ := rest } : St) :=
        ⟨fun _ => rfl, fun _ => rfl, fun _ h => h, fun _ _ h => h, fun _ _ h => h, rfl⟩
      exact (m0.trans (mono_finish _ k)).trans (ih _)

theorem mono_hostOff (s : St) (h : Nat) : Mono s (hostOff s h) := by
  by_cases hon : s.hostOn h = true
  · rw [hostOff_eq s h hon]
    have m0 : Mono s ({ s with hostOn := upd s.hostOn h false } : St) :=
      ⟨fun _ => rfl, fun _ => rfl, fun _ h => h, fun _ _ h => h, fun _ _ h => h, rfl⟩
    exact ((m0.trans (mono_cpuPhase h _)).trans (mono_killPhase h _)).trans (mono_maestroPhase h _)
  · unfold hostOff; simp [hon]; exact Mono.refl s

end SgVerif.C10
