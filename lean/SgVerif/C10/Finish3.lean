import SgVerif.C10.Finish2
/-
C10 helper lemmas, part 5: `FinOK` — everything the run-level proofs need to know about one call of `finish`.
-/
set_option linter.unusedSimpArgs false
set_option linter.unusedVariables false
namespace SgVerif.C10

/-- the effect of `finish` on activity `k0`, seen from any actor and any other activity -/
structure FinOK (t t' : St) (k0 : Nat) : Prop where
  ext : Ext t t'
  stat : ∀ j, j ≠ k0 → statOf (t'.acts j) = statOf (t.acts j)
  sub : ∀ b j, b ∈ (t'.acts j).simcalls → b ∈ (t.acts j).simcalls
  simk : t'.crashed = true ∨ (t'.acts k0).simcalls = []
  fqsub : ∀ j, j ∈ t'.failedQ → j ∈ t.failedQ
  /-- a registered answerable issuer is answered by this very call (or an assertion fires) -/
  hit : ∀ a, Answerable t a → a ∈ (t.acts k0).simcalls → t'.crashed = true ∨ ∃ r, newIn t t' (.answer a r k0)
  /-- nobody else is touched -/
  miss : ∀ a, a ∉ (t.acts k0).simcalls →
    coreOf t' a = coreOf t a ∧ ∀ j, j ≠ k0 → a ∈ (t.acts j).simcalls → a ∈ (t'.acts j).simcalls

section
variable {k0 : Nat} {after : St → Nat → St} {P : AState → Prop} {R : Ans → Prop}

/-- with a property `P` of the final state of `k0` under which every answer satisfies `R` -/
theorem finHit_of (t p : St) (hpre : PreOK t p k0) (hA : AfterOK k0 after P R) :
    ∀ a, Answerable t a → a ∈ (t.acts k0).simcalls → P (p.acts k0).state →
      ((t.acts k0).simcalls.foldl (answerOneG after) p).crashed = true ∨
        ∃ r, R r ∧ newIn t ((t.acts k0).simcalls.foldl (answerOneG after) p) (.answer a r k0) := by
  intro a ha hm hP
  have ha' : Answerable p a := by rw [answerable_iff_core, hpre.core, ← answerable_iff_core]; exact ha
  rcases loop_in hA a _ p hm ha' hP with hc | ⟨r, hr, ho⟩
  · exact Or.inl hc
  · exact Or.inr ⟨r, hr, newIn_of_ext_left _ hpre.ext ho⟩

theorem finOK_of (t p : St) (hpre : PreOK t p k0) (hA : AfterOK k0 after (fun _ => True) (fun _ => True))
    (hfq : ∀ j, j ∈ p.failedQ → j ∈ t.failedQ) :
    FinOK t ((t.acts k0).simcalls.foldl (answerOneG after) p) k0 := by
  have hext : Ext t ((t.acts k0).simcalls.foldl (answerOneG after) p) := hpre.ext.trans (loop_ext hA _ p)
  refine ⟨hext, ?_, ?_, ?_, ?_, ?_, ?_⟩
  · intro j hj; rw [loop_stat hA, hpre.stat j hj]
  · intro b j hm
    have h1 := loop_simc_sub hA _ b j p hm
    by_cases hj : j = k0
    · subst hj; rw [hpre.simk] at h1; cases h1
    · rw [hpre.simc j hj] at h1; exact h1
  · right
    cases hl : ((List.foldl (answerOneG after) p (t.acts k0).simcalls).acts k0).simcalls with
    | nil => rfl
    | cons b bs =>
      have h1 := loop_simc_sub hA _ b k0 p (by rw [hl]; simp)
      rw [hpre.simk] at h1; cases h1
  · intro j hj; rw [loop_fq hA] at hj; exact hfq j hj
  · intro a ha hm
    rcases finHit_of t p hpre hA a ha hm trivial with hc | ⟨r, _, ho⟩
    · exact Or.inl hc
    · exact Or.inr ⟨r, ho⟩
  · intro a hm
    obtain ⟨i1, i2, _⟩ := loop_out hA a _ p hm
    refine ⟨by rw [i1, hpre.core], fun j hj hmem => i2 j (by rw [hpre.simc j hj]; exact hmem)⟩
end

theorem mem_filter_sub (l : List Nat) (k j : Nat) (h : j ∈ l.filter (· ≠ k)) : j ∈ l := (List.mem_filter.mp h).1

theorem finishComm_ok (t : St) (k : Nat) : FinOK t (finishComm t k) k := by
  rw [finishComm_eq]
  exact finOK_of t _ (commPre_ok t k) (commOK_any k) (fun j hj => by rw [commPre_fq] at hj; exact mem_filter_sub _ _ _ hj)

theorem finishExec_ok (t : St) (k : Nat) : FinOK t (finishExec t k) k := by
  rw [finishExec_eq]
  refine finOK_of t _ (execPre_ok t k) (execOK_any k) (fun j hj => ?_)
  by_cases h : (t.acts k).action ≠ none
  · rw [execPre_fq t k h] at hj; exact mem_filter_sub _ _ _ hj
  · have : (execPre t k).failedQ = t.failedQ := by unfold execPre; simp [St.setAct, St.emit, h]
    rw [this] at hj; exact hj

theorem finishSleep_ok (t : St) (k : Nat) : FinOK t (finishSleep t k) k := by
  cases hac : (t.acts k).action with
  | none =>
    rw [finishSleep_none t k hac]
    exact ⟨ext_crash t, fun _ _ => rfl, fun _ _ h => h, Or.inl rfl, fun _ h => h, fun _ _ _ => Or.inl rfl,
      fun _ _ => ⟨rfl, fun _ _ h => h⟩⟩
  | some ac =>
    rw [finishSleep_eq t k ac hac]
    exact finOK_of t _ (sleepPre_ok t k ac) (sleepOK k)
      (fun j hj => by rw [sleepPre_fq] at hj; exact mem_filter_sub _ _ _ hj)

theorem finish_ok (t : St) (k : Nat) : FinOK t (finish t k) k := by
  unfold finish
  split
  · exact finishComm_ok t k
  · exact finishExec_ok t k
  · exact finishSleep_ok t k

/-- `finish` takes the activity out of the failed action set (when it has an action to clean) -/
theorem finish_fq (t : St) (k : Nat) (h : (t.acts k).action ≠ none) : (finish t k).failedQ = t.failedQ.filter (· ≠ k) := by
  unfold finish
  split
  · rw [finishComm_eq, loop_fq (commOK_any k), commPre_fq]
  · rw [finishExec_eq, loop_fq (execOK_any k), execPre_fq t k h]
  · cases hac : (t.acts k).action with
    | none => exact absurd hac h
    | some ac => rw [finishSleep_eq t k ac hac, loop_fq (sleepOK k), sleepPre_fq]

/-- a communication finished in a failure state answers NetworkFailureException to every answerable registered issuer -/
theorem finishComm_hit (t : St) (k : Nat) (hf : NetClass (commFinalState t k)) (a : Nat) (ha : Answerable t a)
    (hm : a ∈ (t.acts k).simcalls) :
    (finishComm t k).crashed = true ∨ newIn t (finishComm t k) (.answer a (.exc .net) k) := by
  rw [finishComm_eq]
  rcases finHit_of t _ (commPre_ok t k) (commOK_net k) a ha hm (by rw [commPre_state]; exact hf) with h | ⟨r, hr, h⟩
  · exact Or.inl h
  · subst hr; exact Or.inr h

/-- an execution finished while one of its hosts is off (or already marked FAILED with no action left) answers
HostFailureException -/
theorem finishExec_hit (t : St) (k : Nat)
    (hf : ((t.acts k).action ≠ none ∧ (t.acts k).hosts.any (fun h => ! t.hostOn h) = true) ∨
          ((t.acts k).action = none ∧ (t.acts k).state = .failed))
    (a : Nat) (ha : Answerable t a) (hm : a ∈ (t.acts k).simcalls) :
    (finishExec t k).crashed = true ∨ newIn t (finishExec t k) (.answer a (.exc .host) k) := by
  rw [finishExec_eq]
  rcases finHit_of t _ (execPre_ok t k) (execOK_host k) a ha hm (execPre_state_failed t k hf) with h | ⟨r, hr, h⟩
  · exact Or.inl h
  · subst hr; exact Or.inr h

end SgVerif.C10
