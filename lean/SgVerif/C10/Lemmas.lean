import SgVerif.C10.Model
/-
C10 helper lemmas: frame properties of the per-issuer loop bodies of the `finish` functions.
-/
set_option linter.unusedSimpArgs false
set_option linter.unusedVariables false
namespace SgVerif.C10

/-- the issuer would be answered by `unregister_first_simcall`: blocked in a simcall, on a host that is on, not dying -/
def Answerable (s : St) (a : Nat) : Prop :=
  (s.actors a).blocked = true ∧ s.hostOn (s.actors a).host = true ∧ (s.actors a).wannadie = false

/-- comm states that `CommImpl::finish` maps to NetworkFailureException -/
def NetClass (st : AState) : Prop :=
  st = .failed ∨ st = .srcHostFailure ∨ st = .dstHostFailure ∨ st = .linkFailure

theorem answerTarget_of_answerable (s : St) (a : Nat) (h : Answerable s a) : answerTarget s a = (s, true) := by
  obtain ⟨h1, h2, h3⟩ := h
  simp [answerTarget, h1, h2, h3]

theorem unregisterAll_answerable (s : St) (a b : Nat) (h : Answerable s b) : Answerable (unregisterAll s a) b := by
  obtain ⟨h1, h2, h3⟩ := h
  by_cases hb : b = a
  · subst hb; simp [Answerable, unregisterAll, h1, h2, h3]
  · simp [Answerable, unregisterAll, upd, hb, h1, h2, h3]

theorem unregisterAll_state (s : St) (a k : Nat) : ((unregisterAll s a).acts k).state = (s.acts k).state := by
  simp only [unregisterAll]; split <;> rfl

theorem unregisterAll_obs (s : St) (a : Nat) : (unregisterAll s a).obs = s.obs := rfl
theorem unregisterAll_crashed (s : St) (a : Nat) : (unregisterAll s a).crashed = s.crashed := rfl

end SgVerif.C10

namespace SgVerif.C10

/-! `answerTarget` only ever sets `wannadie` of the issuer -/
theorem answerTarget_obs (s : St) (a : Nat) : (answerTarget s a).1.obs = s.obs := by
  unfold answerTarget markDying; (repeat' split) <;> simp [St.setActor]
theorem answerTarget_crashed (s : St) (a : Nat) : (answerTarget s a).1.crashed = s.crashed := by
  unfold answerTarget markDying; (repeat' split) <;> simp [St.setActor]
theorem answerTarget_acts (s : St) (a : Nat) : (answerTarget s a).1.acts = s.acts := by
  unfold answerTarget markDying; (repeat' split) <;> simp [St.setActor]
theorem answerTarget_hostOn (s : St) (a : Nat) : (answerTarget s a).1.hostOn = s.hostOn := by
  unfold answerTarget markDying; (repeat' split) <;> simp [St.setActor]
theorem answerTarget_other (s : St) (a b : Nat) (hb : b ≠ a) : (answerTarget s a).1.actors b = s.actors b := by
  unfold answerTarget markDying; (repeat' split) <;> simp [St.setActor, upd, hb]

/-! `commAfter` -/
theorem commAfter_emits (k : Nat) (s : St) (a : Nat) (hk : NetClass (s.acts k).state) :
    (commAfter k s a).crashed = true ∨ Obs.answer a (.exc .net) k ∈ (commAfter k s a).obs := by
  unfold commAfter
  rcases hk with hk | hk | hk | hk <;>
    simp [St.setActor, St.setAct, St.emit, St.crash, upd, deliver, eraseActivity, hk] <;>
    (repeat' split) <;> simp_all [St.setActor, St.setAct, St.emit, St.crash, upd, eraseActivity]

theorem commAfter_obs_mono (k : Nat) (s : St) (a : Nat) (o : Obs) (h : o ∈ s.obs) : o ∈ (commAfter k s a).obs := by
  unfold commAfter
  simp only []
  (repeat' split) <;> simp_all [St.setActor, St.setAct, St.emit, St.crash, upd, deliver, eraseActivity] <;>
    (repeat' split) <;> simp_all [St.setActor, St.setAct, St.emit, St.crash, upd, deliver, eraseActivity]

theorem commAfter_crashed_mono (k : Nat) (s : St) (a : Nat) (h : s.crashed = true) : (commAfter k s a).crashed = true := by
  unfold commAfter
  simp only []
  (repeat' split) <;> simp_all [St.setActor, St.setAct, St.emit, St.crash, upd, deliver, eraseActivity] <;>
    (repeat' split) <;> simp_all [St.setActor, St.setAct, St.emit, St.crash, upd, deliver, eraseActivity]

theorem commAfter_netclass (k : Nat) (s : St) (a : Nat) (h : NetClass (s.acts k).state) :
    NetClass ((commAfter k s a).acts k).state := by
  unfold commAfter NetClass at *
  simp only []
  (repeat' split) <;> simp_all [St.setActor, St.setAct, St.emit, St.crash, upd, deliver, eraseActivity] <;>
    (repeat' split) <;> simp_all [St.setActor, St.setAct, St.emit, St.crash, upd, deliver, eraseActivity]

/-- what `Answerable` looks at -/
def coreOf (s : St) (b : Nat) : Bool × Bool × Bool := ((s.actors b).blocked, s.hostOn (s.actors b).host, (s.actors b).wannadie)

theorem answerable_iff_core (s : St) (b : Nat) : Answerable s b ↔ coreOf s b = (true, true, false) := by
  simp [Answerable, coreOf]

@[simp] theorem coreOf_setActor_erase (s : St) (a b k : Nat) :
    coreOf (s.setActor a (fun x => { x with activities := x.activities.erase k })) b = coreOf s b := by
  by_cases h : b = a
  · subst h; simp [coreOf, St.setActor]
  · simp [coreOf, St.setActor, upd, h]
@[simp] theorem coreOf_setAct (s : St) (k b : Nat) (f : Activity → Activity) : coreOf (s.setAct k f) b = coreOf s b := rfl
@[simp] theorem coreOf_emit (s : St) (o : Obs) (b : Nat) : coreOf (s.emit o) b = coreOf s b := rfl
@[simp] theorem coreOf_crash (s : St) (b : Nat) : coreOf s.crash b = coreOf s b := rfl
@[simp] theorem coreOf_eraseActivity (s : St) (o : Option Nat) (k b : Nat) : coreOf (eraseActivity s o k) b = coreOf s b := by
  cases o <;> simp [eraseActivity]
theorem coreOf_deliver (s : St) (a b : Nat) (r : Ans) (k : Nat) (hb : b ≠ a) : coreOf (deliver s a r k) b = coreOf s b := by
  simp [deliver, coreOf, St.setActor, St.emit, upd, hb]

theorem commAfter_core (k : Nat) (s : St) (a b : Nat) (hb : b ≠ a) : coreOf (commAfter k s a) b = coreOf s b := by
  unfold commAfter
  simp only []
  (repeat' split) <;> simp [coreOf_deliver, hb]

theorem commAfter_answerable (k : Nat) (s : St) (a b : Nat) (hb : b ≠ a) (h : Answerable s b) :
    Answerable (commAfter k s a) b := by
  rw [answerable_iff_core] at *
  rw [commAfter_core k s a b hb]; exact h

theorem answerTarget_core (s : St) (a b : Nat) (hb : b ≠ a) : coreOf (answerTarget s a).1 b = coreOf s b := by
  simp [coreOf, answerTarget_other s a b hb, answerTarget_hostOn]

/-! one iteration of the answer loop of `CommImpl::finish` -/
theorem commAnswerOne_emits (k : Nat) (s : St) (a : Nat) (ha : Answerable s a) (hk : NetClass (s.acts k).state) :
    (commAnswerOne k s a).crashed = true ∨ Obs.answer a (.exc .net) k ∈ (commAnswerOne k s a).obs := by
  have h1 := unregisterAll_answerable s a a ha
  have h2 := answerTarget_of_answerable _ a h1
  unfold commAnswerOne
  simp only [h2, if_true]
  exact commAfter_emits k _ a (by rw [unregisterAll_state]; exact hk)

theorem commAnswerOne_obs_mono (k : Nat) (s : St) (a : Nat) (o : Obs) (h : o ∈ s.obs) : o ∈ (commAnswerOne k s a).obs := by
  have h0 : o ∈ (answerTarget (unregisterAll s a) a).1.obs := by rw [answerTarget_obs, unregisterAll_obs]; exact h
  unfold commAnswerOne
  simp only []
  split
  · exact commAfter_obs_mono k _ a o h0
  · exact h0

theorem commAnswerOne_crashed_mono (k : Nat) (s : St) (a : Nat) (h : s.crashed = true) : (commAnswerOne k s a).crashed = true := by
  have h0 : (answerTarget (unregisterAll s a) a).1.crashed = true := by rw [answerTarget_crashed, unregisterAll_crashed]; exact h
  unfold commAnswerOne
  simp only []
  split
  · exact commAfter_crashed_mono k _ a h0
  · exact h0

theorem commAnswerOne_netclass (k : Nat) (s : St) (a : Nat) (h : NetClass (s.acts k).state) :
    NetClass ((commAnswerOne k s a).acts k).state := by
  have h0 : NetClass ((answerTarget (unregisterAll s a) a).1.acts k).state := by
    rw [answerTarget_acts, unregisterAll_state]; exact h
  unfold commAnswerOne
  simp only []
  split
  · exact commAfter_netclass k _ a h0
  · exact h0

theorem commAnswerOne_answerable (k : Nat) (s : St) (a b : Nat) (hb : b ≠ a) (h : Answerable s b) :
    Answerable (commAnswerOne k s a) b := by
  have h0 : Answerable (answerTarget (unregisterAll s a) a).1 b := by
    rw [answerable_iff_core, answerTarget_core _ a b hb, ← answerable_iff_core]
    exact unregisterAll_answerable s a b h
  unfold commAnswerOne
  simp only []
  split
  · exact commAfter_answerable k _ a b hb h0
  · exact h0

/-- the whole answer loop: every answerable issuer registered on a comm in a failure state gets
NetworkFailureException, unless one of the loop's assertions fires -/
theorem commLoop_answers (k : Nat) (l : List Nat) : ∀ (s : St), NetClass (s.acts k).state →
    ∀ a ∈ l, Answerable s a →
      (l.foldl (commAnswerOne k) s).crashed = true ∨ Obs.answer a (.exc .net) k ∈ (l.foldl (commAnswerOne k) s).obs := by
  have mono : ∀ (l : List Nat) (s : St) (o : Obs), o ∈ s.obs → o ∈ (l.foldl (commAnswerOne k) s).obs := by
    intro l; induction l with
    | nil => intro s o h; exact h
    | cons x xs ih => intro s o h; exact ih _ o (commAnswerOne_obs_mono k s x o h)
  have cmono : ∀ (l : List Nat) (s : St), s.crashed = true → (l.foldl (commAnswerOne k) s).crashed = true := by
    intro l; induction l with
    | nil => intro s h; exact h
    | cons x xs ih => intro s h; exact ih _ (commAnswerOne_crashed_mono k s x h)
  induction l with
  | nil => intro s _ a ha; cases ha
  | cons x xs ih =>
    intro s hk a ha hans
    simp only [List.foldl_cons]
    by_cases hx : a = x
    · subst hx
      rcases commAnswerOne_emits k s a hans hk with h | h
      · exact Or.inl (cmono xs _ h)
      · exact Or.inr (mono xs _ _ h)
    · have hin : a ∈ xs := by
        rcases List.mem_cons.mp ha with h | h
        · exact absurd h hx
        · exact h
      exact ih _ (commAnswerOne_netclass k s x hk) a hin (commAnswerOne_answerable k s x a hx hans)

end SgVerif.C10

namespace SgVerif.C10

/-! the same for `ExecImpl::finish` (state FAILED -> HostFailureException) -/
theorem execAfter_emits (k : Nat) (s : St) (a : Nat) (hk : (s.acts k).state = .failed) :
    Obs.answer a (.exc .host) k ∈ (execAfter k s a).obs := by
  unfold execAfter
  simp [St.setActor, St.setAct, St.emit, St.crash, upd, deliver, hk]

theorem execAfter_obs_mono (k : Nat) (s : St) (a : Nat) (o : Obs) (h : o ∈ s.obs) : o ∈ (execAfter k s a).obs := by
  unfold execAfter
  simp only []
  split <;> simp_all [St.setActor, St.emit, St.crash, deliver]

theorem execAfter_state (k : Nat) (s : St) (a : Nat) : ((execAfter k s a).acts k).state = (s.acts k).state := by
  unfold execAfter
  simp only []
  split <;> simp_all [St.setActor, St.emit, St.crash, deliver]

theorem execAfter_core (k : Nat) (s : St) (a b : Nat) (hb : b ≠ a) : coreOf (execAfter k s a) b = coreOf s b := by
  unfold execAfter
  simp only []
  split <;> simp [coreOf_deliver, hb]

theorem execAnswerOne_emits (k : Nat) (s : St) (a : Nat) (ha : Answerable s a) (hk : (s.acts k).state = .failed) :
    Obs.answer a (.exc .host) k ∈ (execAnswerOne k s a).obs := by
  have h1 := unregisterAll_answerable s a a ha
  have h2 := answerTarget_of_answerable _ a h1
  unfold execAnswerOne
  simp only [h2, if_true]
  exact execAfter_emits k _ a (by rw [unregisterAll_state]; exact hk)

theorem execAnswerOne_obs_mono (k : Nat) (s : St) (a : Nat) (o : Obs) (h : o ∈ s.obs) : o ∈ (execAnswerOne k s a).obs := by
  have h0 : o ∈ (answerTarget (unregisterAll s a) a).1.obs := by rw [answerTarget_obs, unregisterAll_obs]; exact h
  unfold execAnswerOne
  simp only []
  split
  · exact execAfter_obs_mono k _ a o h0
  · exact h0

theorem execAnswerOne_state (k : Nat) (s : St) (a : Nat) : ((execAnswerOne k s a).acts k).state = (s.acts k).state := by
  have h0 : ((answerTarget (unregisterAll s a) a).1.acts k).state = (s.acts k).state := by
    rw [answerTarget_acts, unregisterAll_state]
  unfold execAnswerOne
  simp only []
  split
  · rw [execAfter_state]; exact h0
  · exact h0

theorem execAnswerOne_answerable (k : Nat) (s : St) (a b : Nat) (hb : b ≠ a) (h : Answerable s b) :
    Answerable (execAnswerOne k s a) b := by
  have h0 : Answerable (answerTarget (unregisterAll s a) a).1 b := by
    rw [answerable_iff_core, answerTarget_core _ a b hb, ← answerable_iff_core]
    exact unregisterAll_answerable s a b h
  unfold execAnswerOne
  simp only []
  split
  · rw [answerable_iff_core, execAfter_core k _ a b hb, ← answerable_iff_core]; exact h0
  · exact h0

theorem execLoop_answers (k : Nat) (l : List Nat) : ∀ (s : St), (s.acts k).state = .failed →
    ∀ a ∈ l, Answerable s a → Obs.answer a (.exc .host) k ∈ (l.foldl (execAnswerOne k) s).obs := by
  have mono : ∀ (l : List Nat) (s : St) (o : Obs), o ∈ s.obs → o ∈ (l.foldl (execAnswerOne k) s).obs := by
    intro l; induction l with
    | nil => intro s o h; exact h
    | cons x xs ih => intro s o h; exact ih _ o (execAnswerOne_obs_mono k s x o h)
  induction l with
  | nil => intro s _ a ha; cases ha
  | cons x xs ih =>
    intro s hk a ha hans
    simp only [List.foldl_cons]
    by_cases hx : a = x
    · subst hx
      exact mono xs _ _ (execAnswerOne_emits k s a hans hk)
    · have hin : a ∈ xs := by
        rcases List.mem_cons.mp ha with h | h
        · exact absurd h hx
        · exact h
      exact ih _ (by rw [execAnswerOne_state]; exact hk) a hin (execAnswerOne_answerable k s x a hx hans)

end SgVerif.C10
