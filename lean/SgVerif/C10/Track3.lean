import SgVerif.C10.Track2
/-
C10 helper lemmas, part 8: `Link::turn_off` / `Host::turn_off` followed by `handle_ended_actions`.
-/
set_option linter.unusedSimpArgs false
set_option linter.unusedVariables false
namespace SgVerif.C10

theorem res_rebase {a k : Nat} {r : Ans} {t0 t t' : St} (e : Ext t0 t) (h : Res t t' a k r) : Res t0 t' a k r := by
  rcases h with h | h | ⟨k', r', hk, h⟩ | h
  · exact Or.inl h
  · exact Or.inr (Or.inl (newIn_of_ext_left _ e h))
  · exact Or.inr (Or.inr (Or.inl ⟨k', r', hk, newIn_of_ext_left _ e h⟩))
  · exact Or.inr (Or.inr (Or.inr h))

/-- `Resource::cancel_actions`: a fold of `failAction` over activity ids, filtered by a condition on the activity -/
def failIf (cond : Activity → Prop) [DecidablePred cond] (s : St) (j : Nat) : St :=
  if cond (s.acts j) then failAction s j else s

theorem failIf_other (cond : Activity → Prop) [DecidablePred cond] (t : St) (x k : Nat) (h : k ≠ x) :
    (failIf cond t x).acts k = t.acts k := by
  unfold failIf failAction
  (repeat' split) <;> simp [St.setAct, upd, h]

theorem failIf_fq_mono (cond : Activity → Prop) [DecidablePred cond] (t : St) (x k : Nat) (h : k ∈ t.failedQ) :
    k ∈ (failIf cond t x).failedQ := by
  unfold failIf failAction
  (repeat' split) <;> simp [St.setAct, h]

/-- every activity of the list that satisfies the condition and has a live action ends up FAILED and queued -/
theorem failFold_hits (cond : Activity → Prop) [DecidablePred cond] (k : Nat) (L : List Nat) :
    ∀ t, ((k ∈ L ∧ (t.acts k).action = some .started ∧ cond (t.acts k)) ∨
          ((t.acts k).action = some .failed ∧ k ∈ t.failedQ)) →
      ((L.foldl (failIf cond) t).acts k).action = some .failed ∧ k ∈ (L.foldl (failIf cond) t).failedQ := by
  induction L with
  | nil =>
    intro t h
    rcases h with ⟨h, _⟩ | h
    · cases h
    · exact h
  | cons x xs ih =>
    intro t h
    simp only [List.foldl_cons]
    apply ih
    rcases h with ⟨hin, hst, hc⟩ | ⟨hf, hq⟩
    · by_cases hx : k = x
      · subst hx
        right
        unfold failIf failAction
        simp [hc, hst, St.setAct]
      · left
        refine ⟨?_, ?_, ?_⟩
        · rcases List.mem_cons.mp hin with h' | h'
          · exact absurd h' hx
          · exact h'
        · rw [failIf_other cond t x k hx]; exact hst
        · rw [failIf_other cond t x k hx]; exact hc
    · right
      refine ⟨?_, failIf_fq_mono cond t x k hq⟩
      by_cases hx : k = x
      · subst hx
        unfold failIf failAction
        (repeat' split) <;> simp_all [St.setAct]
      · rw [failIf_other cond t x k hx]; exact hf

theorem simp_failIf (cond : Activity → Prop) [DecidablePred cond] (a : Nat) (t : St) (x : Nat) : Simp a t (failIf cond t x) := by
  unfold failIf; split
  · exact simp_failAction a t x
  · exact Simp.refl a t

/-! ### `Link::turn_off` -/
theorem linkOff_eq (s : St) (l : Nat) (hon : s.linkOn l = true) :
    linkOff s l = (List.range s.nActs).foldl (failIf (fun x => x.kind = .comm ∧ l ∈ x.links))
      { s with linkOn := upd s.linkOn l false } := by
  unfold linkOff
  simp only [hon, not_true_eq_false, if_false]
  rfl

theorem simp_linkOff (a : Nat) (s : St) (l : Nat) : Simp a s (linkOff s l) := by
  by_cases hon : s.linkOn l = true
  · rw [linkOff_eq s l hon]
    have s1 : Simp a s { s with linkOn := upd s.linkOn l false } :=
      ⟨⟨List.prefix_refl _, id, rfl⟩, rfl, fun _ => rfl, fun _ => StatLe.refl _, fun _ h => h⟩
    exact s1.trans (simp_foldl a _ (simp_failIf _ a) _ _)
  · unfold linkOff; simp [hon]; exact Simp.refl a s

theorem pend_linkOff (s : St) (l k a : Nat) (hon : s.linkOn l = true) (hk : k < s.nActs)
    (hc : (s.acts k).kind = .comm) (hl : l ∈ (s.acts k).links) (hst : (s.acts k).action = some .started)
    (ha : Answerable s a) (hm : a ∈ (s.acts k).simcalls) :
    PendS (linkOff s l) a k (.exc .net) := by
  have sp := simp_linkOff a s l
  have hf : ((linkOff s l).acts k).action = some .failed ∧ k ∈ (linkOff s l).failedQ := by
    rw [linkOff_eq s l hon]
    apply failFold_hits
    left
    exact ⟨List.mem_range.mpr hk, hst, hc, hl⟩
  have hkind : ((linkOff s l).acts k).kind = .comm := by rw [(sp.stat k).1]; exact hc
  refine ⟨?_, ?_, Or.inl ⟨hkind, Or.inr (Or.inr hf.1)⟩, hf.2, ?_⟩
  · rw [answerable_iff_core, sp.core, ← answerable_iff_core]; exact ha
  · rw [sp.simc]; exact hm
  · rw [hkind]; rfl

/-! ### `Host::turn_off` -/
def cpuPhase (h : Nat) (s1 : St) : St := (List.range s1.nActs).foldl (failIf (fun x => x.kind ≠ .comm ∧ h ∈ x.hosts)) s1
def killPhase (h : Nat) (s2 : St) : St := (List.range s2.nActors).foldl (killOn h) s2
def maestroPhase (h : Nat) (s3 : St) : St := s3.maestro.foldl (maestroFail h) s3

theorem hostOff_eq (s : St) (h : Nat) (hon : s.hostOn h = true) :
    hostOff s h = maestroPhase h (killPhase h (cpuPhase h { s with hostOn := upd s.hostOn h false })) := by
  unfold hostOff cpuCancelActions
  simp only [hon, not_true_eq_false, if_false]
  rfl

theorem simp_cpuPhase (a h : Nat) (t : St) : Simp a t (cpuPhase h t) := simp_foldl a _ (simp_failIf _ a) _ t
theorem simp_maestroPhase (a h : Nat) (t : St) : Simp a t (maestroPhase h t) := simp_foldl a _ (simp_maestroFail a h) _ t
theorem ext_killPhase (h : Nat) (t : St) : Ext t (killPhase h t) := ext_foldl _ (ext_killOn h) _ _
theorem res_killPhase {a k : Nat} {r : Ans} (h : Nat) (t : St) (hoff : t.hostOn h = false) (p : PendS t a k r) :
    Res t (killPhase h t) a k r :=
  res_foldl (killOn h) (fun t => t.hostOn h = false) (ext_killOn h)
    (fun t t' e hi => by rw [e.hostOn]; exact hi)
    (fun t x hi p => res_killOn h t x hi p) _ t hoff p

/-- from a pending situation at the start of the kill loop to the end of `turn_off` -/
theorem res_afterCpu {a k : Nat} {r : Ans} (h : Nat) (t : St) (hoff : t.hostOn h = false) (p : PendS t a k r) :
    Ext t (maestroPhase h (killPhase h t)) ∧ Res t (maestroPhase h (killPhase h t)) a k r :=
  ⟨(ext_killPhase h t).trans (simp_maestroPhase a h _).ext,
   res_then_simp (ext_killPhase h t) (res_killPhase h t hoff p) (simp_maestroPhase a h _)⟩

/-- an execution running on the host that fails: after `turn_off` every answerable issuer registered on it (an actor
of another host) is answered or the situation is pending for `handle_ended_actions`.  `s1` is the state in which the
host has just been marked off. -/
theorem res_hostOff_exec (s1 : St) (h k a : Nat) (hoff : s1.hostOn h = false) (hk : k < s1.nActs)
    (hc : (s1.acts k).kind = .exec) (hh : h ∈ (s1.acts k).hosts) (hst : (s1.acts k).action = some .started)
    (ha : Answerable s1 a) (hm : a ∈ (s1.acts k).simcalls) :
    Ext s1 (maestroPhase h (killPhase h (cpuPhase h s1))) ∧
    Res s1 (maestroPhase h (killPhase h (cpuPhase h s1))) a k (.exc .host) := by
  have sp : Simp a s1 (cpuPhase h s1) := simp_cpuPhase a h s1
  have hf : ((cpuPhase h s1).acts k).action = some .failed ∧ k ∈ (cpuPhase h s1).failedQ := by
    unfold cpuPhase
    apply failFold_hits
    left
    refine ⟨List.mem_range.mpr hk, hst, ?_, hh⟩
    rw [hc]; simp
  have hkind : ((cpuPhase h s1).acts k).kind = .exec := by rw [(sp.stat k).1]; exact hc
  have hoff2 : (cpuPhase h s1).hostOn h = false := by rw [sp.ext.hostOn]; exact hoff
  have p2 : PendS (cpuPhase h s1) a k (.exc .host) := by
    refine ⟨?_, ?_, Or.inr ⟨hkind, by rw [hf.1]; simp, h, ?_, hoff2⟩, hf.2, ?_⟩
    · rw [answerable_iff_core, sp.core, ← answerable_iff_core]; exact ha
    · rw [sp.simc]; exact hm
    · rw [(sp.stat k).2.2.2.1]; exact hh
    · rw [hkind]; rfl
  obtain ⟨e4, r4⟩ := res_afterCpu h (cpuPhase h s1) hoff2 p2
  exact ⟨sp.ext.trans e4, res_rebase sp.ext r4⟩

end SgVerif.C10
