import SgVerif.C10.Inv
/-
C10 helper lemmas, part 13: `NoLost` through the remaining events (communication/execution/sleep start, waits, tests,
completion, actor end) and hence through every run of the model.
-/
set_option linter.unusedSimpArgs false
set_option linter.unusedVariables false
namespace SgVerif.C10

theorem nl_same (t t' : St) (ha : t'.acts = t.acts) (hq : t'.failedQ = t.failedQ) (h : NoLost t) : NoLost t' := by
  intro k hk; rw [hq]; exact h k (by rw [← ha]; exact hk)

/-- a record of the activity table is overwritten by one whose action is not FAILED -/
theorem nl_upd (t t' : St) (k : Nat) (x : Activity) (ha : t'.acts = upd t.acts k x) (hq : t'.failedQ = t.failedQ)
    (hx : x.action ≠ some .failed) (h : NoLost t) : NoLost t' := by
  intro j hj
  rw [hq]
  by_cases hjk : j = k
  · subst hjk; rw [ha] at hj; simp [upd] at hj; exact absurd hj hx
  · rw [ha] at hj; simp [upd, hjk] at hj; exact h j hj

theorem nl_with_maestro (X : St) (l : List Nat) (h : NoLost X) : NoLost ({ X with maestro := l } : St) := h

theorem nle_setAct (t : St) (k : Nat) (g : Activity → Activity) (h : NoLost t) : NoLostExcept k (t.setAct k g) := by
  intro j hjk hj
  have : (t.acts j).action = some .failed := by simpa [St.setAct, upd, hjk] using hj
  exact h j this

theorem nle_of_other (t t' : St) (k : Nat) (ha : ∀ j, j ≠ k → t'.acts j = t.acts j) (hq : t'.failedQ = t.failedQ)
    (h : NoLost t) : NoLostExcept k t' := by
  intro j hjk hj
  rw [hq]; exact h j (by rw [← ha j hjk]; exact hj)

theorem nl_commStart (t : St) (k : Nat) (h : NoLost t) : NoLost (commStart t k) := by
  unfold commStart
  simp only []
  split
  · exact h
  · split
    · exact nl_crash t h
    · exact nl_crash t h
    · split
      · split
        · exact nl_crash t h
        · exact nl_finishComm _ k (nle_setAct t k _ h)
      · split
        · exact nl_finishComm _ k (nle_of_other t _ k (fun j hj => by simp [St.setAct, upd, hj]) rfl h)
        · rename_i hnf
          intro j hj
          by_cases hjk : j = k
          · subst hjk
            simp [St.setAct, hnf] at hj
          · have : (t.acts j).action = some .failed := by simpa [St.setAct, upd, hjk] using hj
            exact h j this

theorem nl_isend (t : St) (a m : Nat) (d : Bool) (h : NoLost t) : NoLost (isend t a m d).1 := by
  unfold isend
  cases hfm : findMatching t m false with
  | none =>
    simp only []
    refine nl_commStart _ _ ?_
    refine nl_setAct _ _ _ ?_ ?_
    · intro x; rfl
    split
    · refine nl_with_maestro _ _ ?_
      refine nl_setAct _ _ _ ?_ ?_
      · intro x; rfl
      exact nl_upd t _ t.nActs _ rfl rfl (by simp) h
    · refine nl_setActor _ _ _ ?_
      exact nl_upd t _ t.nActs _ rfl rfl (by simp) h
  | some k =>
    simp only []
    refine nl_commStart _ _ ?_
    refine nl_setAct _ _ _ ?_ ?_
    · intro x; rfl
    have h1 : NoLost ((mboxRemove t k).setAct k (fun x => { x with state := .ready })) :=
      nl_setAct _ k _ (fun _ => rfl) (nl_mboxRemove t k h)
    split
    · refine nl_with_maestro _ _ ?_
      refine nl_setAct _ _ _ ?_ ?_
      · intro x; rfl
      exact h1
    · exact nl_setActor _ _ _ h1

theorem nl_irecv (t : St) (a m : Nat) (h : NoLost t) : NoLost (irecv t a m).1 := by
  unfold irecv
  cases hfm : findMatching t m true with
  | none =>
    simp only []
    refine nl_commStart _ _ ?_
    refine nl_setAct _ _ _ ?_ ?_
    · intro x; rfl
    refine nl_setActor _ _ _ ?_
    exact nl_upd t _ t.nActs _ rfl rfl (by simp) h
  | some k =>
    simp only []
    refine nl_commStart _ _ ?_
    refine nl_setAct _ _ _ ?_ ?_
    · intro x; rfl
    refine nl_setActor _ _ _ ?_
    exact nl_setAct _ k _ (fun _ => rfl) (nl_mboxRemove t k h)

theorem nl_sendto (t : St) (hf ht : Nat) (h : NoLost t) : NoLost (sendto t hf ht).1 := by
  unfold sendto
  simp only []
  apply nl_commStart
  exact nl_upd t _ t.nActs _ rfl rfl (by simp) h

theorem nl_execStart (t : St) (a hh : Nat) (h : NoLost t) : NoLost (execStart t a hh).1 := by
  unfold execStart
  simp only []
  apply nl_setActor
  intro j hj
  by_cases hjk : j = t.nActs
  · subst hjk
    by_cases hon : t.hostOn hh = true
    · simp [upd, hon] at hj
    · simp [hon]
  · have : (t.acts j).action = some .failed := by simpa [upd, hjk] using hj
    have := h j this
    split <;> simp [this]

theorem nl_pexecStart (t : St) (a : Nat) (hs : List Nat) (h : NoLost t) : NoLost (pexecStart t a hs).1 := by
  unfold pexecStart
  simp only []
  apply nl_setActor
  intro j hj
  by_cases hjk : j = t.nActs
  · subst hjk
    simp [upd] at hj
  · have : (t.acts j).action = some .failed := by simpa [upd, hjk] using hj
    exact h j this

theorem nl_sleepStart (t : St) (a : Nat) (h : NoLost t) : NoLost (sleepStart t a).1 := by
  unfold sleepStart
  simp only []
  intro j hj
  by_cases hjk : j = t.nActs
  · subst hjk
    by_cases hon : t.hostOn (t.actors a).host = true
    · simp [upd, hon] at hj
    · simp [hon]
  · have : (t.acts j).action = some .failed := by simpa [upd, hjk] using hj
    have := h j this
    split <;> simp [this]

theorem nl_register (t : St) (a k : Nat) (h : NoLost t) : NoLost (register t a k) := by
  unfold register
  exact nl_setActor _ _ _ (nl_setAct t k _ (fun _ => rfl) h)

theorem nl_waitOn (t : St) (a k : Nat) (h : NoLost t) : NoLost (waitOn t a k) := by
  unfold waitOn
  simp only []
  have h1 := nl_register _ a k (nl_setActor t a (fun x => { x with blocked := true, wlist := [k] }) h)
  split
  · exact nl_finish _ k (h1.except k)
  · exact h1

theorem nl_waitAnyLoop (a : Nat) (ks : List Nat) : ∀ t, NoLost t → NoLost (waitAnyLoop a ks t) := by
  induction ks with
  | nil => intro t h; exact h
  | cons k ks ih =>
    intro t h
    unfold waitAnyLoop
    simp only []
    have h1 := nl_register t a k h
    split
    · exact nl_finish _ k (h1.except k)
    · exact ih _ h1

theorem nl_waitAny (t : St) (a : Nat) (ks : List Nat) (h : NoLost t) : NoLost (waitAny t a ks) := by
  unfold waitAny
  exact nl_waitAnyLoop a ks _ (nl_setActor t a _ h)

theorem nl_test (t : St) (k : Nat) (h : NoLost t) : NoLost (test t k).1 := by
  unfold test
  split
  · exact nl_finish t k (h.except k)
  · exact h

theorem nl_complete (t : St) (k : Nat) (h : NoLost t) : NoLost (complete t k) := by
  unfold complete
  split
  · exact nl_finish _ k (nle_of_other t _ k (fun j hj => by simp [St.setAct, upd, hj]) rfl h)
  · exact h

theorem nl_actorEnd (t : St) (a : Nat) (h : NoLost t) : NoLost (actorEnd t a) := by
  unfold actorEnd
  simp only []
  apply nl_setActor
  exact nl_foldl cancel nl_cancel _ _ (nl_emit t _ h)

theorem nl_step (s : St) (e : Ev) (h : NoLost s) : NoLost (step s e) := by
  unfold step
  split
  · exact h
  · cases e with
    | isendWait a m =>
      simp only []
      split
      · exact nl_waitOn _ a _ (nl_isend s a m false h)
      · exact h
    | irecvWait a m =>
      simp only []
      split
      · exact nl_waitOn _ a _ (nl_irecv s a m h)
      · exact h
    | isend a m d =>
      simp only []
      split
      · exact nl_isend s a m d h
      · exact h
    | irecv a m =>
      simp only []
      split
      · exact nl_irecv s a m h
      · exact h
    | sendto a hf ht =>
      simp only []
      split
      · exact nl_sendto s hf ht h
      · exact h
    | execStart a hh =>
      simp only []
      split
      · exact nl_execStart s a hh h
      · exact h
    | pexecStart a hs =>
      simp only []
      split
      · exact nl_pexecStart s a hs h
      · exact h
    | sleep a =>
      simp only []
      split
      · exact nl_waitOn _ a _ (nl_sleepStart s a h)
      · exact h
    | wait a k =>
      simp only []
      split
      · exact nl_waitOn s a k h
      · exact h
    | waitAny a ks =>
      simp only []
      split
      · exact nl_waitAny s a ks h
      · exact h
    | test a k =>
      simp only []
      split
      · exact nl_test s k h
      · exact h
    | hostOff hh => exact nl_hostOff s hh h
    | hostOn hh => exact nl_same s _ rfl rfl h
    | linkOff l => exact nl_linkOff s l h
    | linkOn l => exact nl_same s _ rfl rfl h
    | complete k => exact nl_complete s k h
    | actorEnd a => exact nl_actorEnd s a h
    | handleEnded => exact nl_handleEnded _ s h

theorem nl_run (es : List Ev) : ∀ s, NoLost s → NoLost (run s es) := by
  induction es with
  | nil => intro s h; exact h
  | cons e es ih => intro s h; exact ih _ (nl_step s e h)

theorem nl_init (hosts : List Nat) (route : Nat → Nat → List Nat) : NoLost (init hosts route) := by
  intro k hk
  simp [init] at hk

end SgVerif.C10
