import SgVerif.C10.Hold3
/-
C10 — resource failures are reported to every live participant.  Property theorems (nothing else in this file).
All theorems are over arbitrary states of the transition system of Model.lean (any number of hosts, links, actors,
activities, any history): no bound anywhere.  `Answerable s a` = actor a is blocked in a simcall, on a host that is on,
and not dying (the issuers that `unregister_first_simcall` hands back to `finish`).
-/
set_option linter.unusedSimpArgs false
set_option linter.unusedVariables false
namespace SgVerif.C10

/-! ### failure_reaches_all_waiters -/

/-- **Communications.**  Whenever `CommImpl::finish` runs on a communication whose final state is a failure state
(sender's host off -> SRC_HOST_FAILURE, receiver's host off -> DST_HOST_FAILURE, action failed (link off, or cancelled
by a dying peer) -> LINK_FAILURE, or FAILED set by `ActorImpl::exit` / `HostImpl::turn_off`), EVERY registered simcall
whose issuer is answerable is answered by that same call with NetworkFailureException — sender side, receiver side,
third parties (sendto), wait and wait_any alike — unless one of the function's own assertions fires (`crashed`). -/
theorem failure_reaches_all_waiters_comm (s : St) (k : Nat) (hf : NetClass (commFinalState s k)) :
    ∀ a ∈ (s.acts k).simcalls, Answerable s a →
      (finishComm s k).crashed = true ∨ Obs.answer a (.exc .net) k ∈ (finishComm s k).obs := by
  intro a ha hans
  unfold finishComm
  simp only []
  apply commLoop_answers
  · cases hm : (s.acts k).mbox <;> simp [St.setAct, St.emit, cleanAction, mboxRemove, upd, hm] <;>
      split <;> simp_all [St.setAct, upd]
  · cases hm : (s.acts k).mbox <;> simp [St.setAct, St.emit, cleanAction, mboxRemove, upd, hm] <;>
      split <;> simp_all [St.setAct, upd]
  · obtain ⟨h1, h2, h3⟩ := hans
    cases hm : (s.acts k).mbox <;> simp [Answerable, St.setAct, St.emit, cleanAction, mboxRemove, upd, hm] <;>
      split <;> simp_all [St.setAct, upd]

/-- **Executions.**  When `ExecImpl::finish` runs on an execution whose action is still attached and one of whose
hosts is off, every answerable registered issuer (necessarily an actor of another host: remote exec) is answered with
HostFailureException. -/
theorem failure_reaches_all_waiters_exec (s : St) (k : Nat) (hact : (s.acts k).action ≠ none)
    (hoff : (s.acts k).hosts.any (fun h => ! s.hostOn h) = true) :
    ∀ a ∈ (s.acts k).simcalls, Answerable s a → Obs.answer a (.exc .host) k ∈ (finishExec s k).obs := by
  intro a ha hans
  unfold finishExec
  simp only [hact, ne_eq, not_false_eq_true, if_true, hoff]
  apply execLoop_answers
  · simp [St.setAct, St.emit, cleanAction, upd]
  · simpa [St.setAct, St.emit, cleanAction, upd] using ha
  · obtain ⟨h1, h2, h3⟩ := hans
    simp [Answerable, St.setAct, St.emit, cleanAction, upd, h1, h2, h3]

/-- the state `CommImpl::finish` computes is a failure state as soon as an endpoint host is off or the action failed:
the hypotheses of `failure_reaches_all_waiters_comm` hold in the three rows of the spec table -/
theorem commFinalState_src_off (s : St) (k h : Nat) (h1 : (s.acts k).from_ = some h) (h2 : s.hostOn h = false) :
    commFinalState s k = .srcHostFailure := by
  simp [commFinalState, h1, h2]

theorem commFinalState_dst_off (s : St) (k h h' : Nat) (h0 : (s.acts k).from_ = some h') (h0' : s.hostOn h' = true)
    (h1 : (s.acts k).to_ = some h) (h2 : s.hostOn h = false) : commFinalState s k = .dstHostFailure := by
  simp [commFinalState, h0, h0', h1, h2]

theorem commFinalState_link_failed (s : St) (k : Nat) (h1 : (s.acts k).action = some .failed) :
    NetClass (commFinalState s k) := by
  unfold commFinalState NetClass
  simp only []
  (repeat' split) <;> simp_all

/-- `turn_off` of a link: every running communication whose route uses the link has its action FAILED and queued for
`handle_ended_actions` (which calls `finish`, to which the theorems above apply). -/
theorem linkOff_fails_every_user (s : St) (l k : Nat) (hon : s.linkOn l = true) (hk : k < s.nActs)
    (hc : (s.acts k).kind = .comm) (hl : l ∈ (s.acts k).links) (ha : (s.acts k).action = some .started) :
    ((linkOff s l).acts k).action = some .failed ∧ k ∈ (linkOff s l).failedQ := by
  unfold linkOff
  simp only [hon, not_true_eq_false, if_false]
  -- generalise the fold over 0..nActs-1
  have key : ∀ (L : List Nat) (t : St), (∀ j, (t.acts j).kind = (s.acts j).kind ∧ (t.acts j).links = (s.acts j).links) →
      (k ∈ L → (t.acts k).action = some .started) →
      (k ∉ L → (t.acts k).action = some .failed ∧ k ∈ t.failedQ) →
      ((L.foldl (fun s k => if (s.acts k).kind = .comm ∧ l ∈ (s.acts k).links then failAction s k else s) t).acts k).action
          = some .failed ∧
      k ∈ (L.foldl (fun s k => if (s.acts k).kind = .comm ∧ l ∈ (s.acts k).links then failAction s k else s) t).failedQ := by
    intro L
    induction L with
    | nil => intro t _ _ h2; exact h2 (by simp)
    | cons x xs ih =>
      intro t hfr h1 h2
      simp only [List.foldl_cons]
      by_cases hx : x = k
      · subst hx
        have hst := h1 (by simp)
        have hcond : (t.acts x).kind = .comm ∧ l ∈ (t.acts x).links := by rw [(hfr x).1, (hfr x).2]; exact ⟨hc, hl⟩
        simp only [hcond, and_self, if_true]
        -- after failAction x the action is failed and x is queued; the rest of the fold keeps that
        have hfa : ((failAction t x).acts x).action = some .failed ∧ x ∈ (failAction t x).failedQ := by
          simp [failAction, hst, St.setAct]
        -- continue with a list that may or may not contain x again: use a monotone invariant
        have keep : ∀ (M : List Nat) (u : St), ((u.acts x).action = some .failed ∧ x ∈ u.failedQ) →
            ((M.foldl (fun s k => if (s.acts k).kind = .comm ∧ l ∈ (s.acts k).links then failAction s k else s) u).acts x).action
              = some .failed ∧
            x ∈ (M.foldl (fun s k => if (s.acts k).kind = .comm ∧ l ∈ (s.acts k).links then failAction s k else s) u).failedQ := by
          intro M
          induction M with
          | nil => intro u h; exact h
          | cons y ys ihy =>
            intro u hu
            simp only [List.foldl_cons]
            apply ihy
            split
            · unfold failAction
              split
              · by_cases hyx : x = y
                · subst hyx; simp_all
                · simp [St.setAct, upd, hyx, hu.1, hu.2]
              · exact hu
            · exact hu
        exact keep xs _ hfa
      · apply ih
        · intro j
          split
          · unfold failAction
            split
            · by_cases hj : j = x
              · subst hj; simp [St.setAct, (hfr j).1, (hfr j).2]
              · simp [St.setAct, upd, hj, (hfr j).1, (hfr j).2]
            · exact hfr j
          · exact hfr j
        · intro hin
          have := h1 (by simp [hin])
          split
          · unfold failAction
            split
            · simp [St.setAct, upd, Ne.symm hx, this]
            · exact this
          · exact this
        · intro hnin
          have := h2 (by simp [hnin, Ne.symm hx])
          split
          · unfold failAction
            split
            · simp [St.setAct, upd, Ne.symm hx, this.1, this.2]
            · exact this
          · exact this
  apply key
  · intro j; exact ⟨rfl, rfl⟩
  · intro _; exact ha
  · intro hnin; exact absurd (List.mem_range.mpr hk) hnin

/-- **Host-off analogue of `linkOff_fails_every_user`.**  `Host::turn_off` starts with `CpuImpl::turn_off`
(`cancel_actions`): every execution or sleep placed on the host whose action is live has it FAILED and queued for
`handle_ended_actions` (unless the kill loop that follows already finished it: see `failure_reaches_all_waiters`). -/
theorem hostOff_fails_every_user (s : St) (h k : Nat) (hk : k < s.nActs) (hc : (s.acts k).kind ≠ .comm)
    (hh : h ∈ (s.acts k).hosts) (ha : (s.acts k).action = some .started) :
    ((cpuCancelActions s h).acts k).action = some .failed ∧ k ∈ (cpuCancelActions s h).failedQ := by
  have : cpuCancelActions s h = cpuPhase h s := rfl
  rw [this]
  unfold cpuPhase
  apply failFold_hits
  left
  exact ⟨List.mem_range.mpr hk, ha, hc, hh⟩

/-- **`handle_ended_actions` reports every failed action.**  In ANY state, for every activity `k` of the failed action set
that is hit by a resource failure (`Hit`:
a communication with a failed action or an endpoint host off, an execution with a host off) and every answerable
issuer `a` registered on it: when `handle_ended_actions` returns, `a` has been answered *during that call* — by `k` with
the exception of the spec table (NetworkFailureException / HostFailureException), or, when `a` sits in a wait_any, by
another activity of its set that was finished earlier in the same call — unless an assertion of the kernel fired. -/
theorem handle_ended_reports_every_failed_action (t : St) (k a : Nat) (hin : k ∈ t.failedQ) (hit : Hit t k)
    (ha : Answerable t a) (hm : a ∈ (t.acts k).simcalls) :
    DoneR t (handleEndedAll t) a k (.exc (specExc (t.acts k).kind)) :=
  done_handleEnded _ t ⟨ha, hm, hit, hin, rfl⟩ (Nat.le_max_right _ _)

/-- how a resource failure event hits a running activity -/
inductive HitBy (s : St) (k : Nat) : Ev → Prop
  /-- a link of the route of a communication -/
  | link (l : Nat) : s.linkOn l = true → (s.acts k).kind = .comm → l ∈ (s.acts k).links → HitBy s k (.linkOff l)
  /-- a host on which an execution runs -/
  | hostExec (h : Nat) : s.hostOn h = true → (s.acts k).kind = .exec → h ∈ (s.acts k).hosts → HitBy s k (.hostOff h)

/-- the issuer does not live on the host that is turned off (otherwise it is killed: `killed_on_host_off`) -/
def Survives (s : St) (a : Nat) : Ev → Prop
  | .hostOff h => (s.actors a).host ≠ h
  | _ => True

/-- **failure_reaches_all_waiters (run level).**  Take ANY state `s` (hence every reachable one), a RUNNING
activity `k` (its action is live) that uses a link / a host that is on, and turn that resource off (`e`); let maestro
finish its iteration (`handle_ended_actions`).  Then EVERY simcall registered on `k` whose issuer `a` is answerable
(blocked, alive, on a host that is on) and does not itself live on the failed host has been answered within these two
steps: by `k` with the failure kind of the spec table — NetworkFailureException for a communication,
HostFailureException for an execution — or (wait_any) by another activity of its set that finished in the same
iteration; or an assertion of the kernel fired.  Nothing is assumed on the rest of the state: any number of actors,
activities, other pending failures, wait_any sets, dying actors.
Composition of `linkOff_fails_every_user` / `hostOff_fails_every_user`, the kill loop of `HostImpl::turn_off`
(`ActorImpl::exit` of every actor of the host, which may itself finish `k`), and `handle_ended_reports_every_failed_action`.
The third row of the spec table — a communication whose *peer's* host fails, where the action is failed by the dying peer's
`exit()` — is `failure_reaches_all_waiters_peer_host` below. -/
theorem failure_reaches_all_waiters (s : St) (e : Ev) (k a : Nat) (hk : k < s.nActs)
    (hrun : (s.acts k).action = some .started) (hit : HitBy s k e)
    (ha : Answerable s a) (hs : Survives s a e) (hm : a ∈ (s.acts k).simcalls) :
    DoneR s (run s [e, .handleEnded]) a k (.exc (specExc (s.acts k).kind)) := by
  show DoneR s (step (step s e) .handleEnded) a k _
  by_cases hcr : s.crashed = true
  · left; simp [step, hcr]
  · cases hit with
    | link l hon hc hl =>
      have p := pend_linkOff s l k a hon hk hc hl hrun ha hm
      have e1 : Ext s (linkOff s l) := (simp_linkOff a s l).ext
      have h1 : step s (.linkOff l) = linkOff s l := by simp [step, hcr]
      rw [h1, hc]
      by_cases hc2 : (linkOff s l).crashed = true
      · left; simp [step, hc2]
      · have h2 : step (linkOff s l) .handleEnded = handleEndedAll (linkOff s l) := by simp [step, hc2]
        rw [h2]
        exact done_of_res _ e1 (Or.inr (Or.inr (Or.inr p))) (Nat.le_max_right _ _)
    | hostExec h hon hc hh =>
      have h1 : step s (.hostOff h) = hostOff s h := by simp [step, hcr]
      rw [h1, hc, hostOff_eq s h hon]
      have hah : (s.actors a).host ≠ h := hs
      have ha1 : Answerable ({ s with hostOn := upd s.hostOn h false } : St) a := by
        obtain ⟨x1, x2, x3⟩ := ha
        refine ⟨x1, ?_, x3⟩
        simp [upd, hah, x2]
      obtain ⟨e4, r4⟩ := res_hostOff_exec ({ s with hostOn := upd s.hostOn h false } : St) h k a (by simp [upd]) hk hc hh hrun
        ha1 hm
      -- observations of `s` and of the state with the host marked off coincide
      have conv : ∀ (t' : St) (o : Obs), newIn ({ s with hostOn := upd s.hostOn h false } : St) t' o → newIn s t' o :=
        fun _ _ h => h
      generalize maestroPhase h (killPhase h (cpuPhase h ({ s with hostOn := upd s.hostOn h false } : St))) = t4 at e4 r4
      by_cases hc2 : t4.crashed = true
      · left; simp [step, hc2]
      · have h2 : step t4 .handleEnded = handleEndedAll t4 := by simp [step, hc2]
        rw [h2]
        have := done_of_res (a := a) (k := k) (r := .exc .host) (max (t4.nActs + 1) t4.failedQ.length) e4 r4 (Nat.le_max_right _ _)
        exact this

/-- **failure_reaches_all_waiters, peer's host (run level).**  The third row of the spec table: a RUNNING communication `k`
(live action) held by a live actor `b` of host `h` — it is in `b`'s `activities_`: `b` is its sender or receiver, blocked on
it or not — and `h` is turned off.  For EVERY state: every answerable issuer `a` registered on `k` that lives on another
host (the peer, a third party, a wait_any) has been answered by the end of the maestro iteration (`turn_off` +
`handle_ended_actions`) — by `k` with NetworkFailureException, or by another activity of its wait_any finished in that
iteration — or an assertion fired.  Composition through the kill loop of `HostImpl::turn_off`: the kills of the other actors
of the host leave `k` held or doom it, `b`'s own `exit()` cancels it (first loop: finished on the spot; second loop: FAILED and
queued), `handle_ended_actions` finishes it.
Full strength since the fix of `host-off-marks-peer-dying-without-exit`: before it the statement needed the hypothesis
`Private s h b` (no other actor of `h` waits on an activity on which `b` is registered), because `b` could be marked dying by
the `finish` of a co-hosted actor's synchro (`unregister_first_simcall` called `set_wannadie()`) and then be skipped by
`turn_off`, so that `k` was never cancelled and `a` was told at `k`'s natural completion date at best.
`unregister_first_simcall` no longer marks anybody (`wdEq_finish`, Wd.lean), so the kill loop reaches every live actor of the
host.  (Detached sends — not in anybody's `activities_` — and `Comm::sendto` comms of maestro's list are not the subject of
this statement: see `no_orphan_block`.) -/
theorem failure_reaches_all_waiters_peer_host (s : St) (h k a b : Nat) (hon : s.hostOn h = true)
    (hb : b < s.nActors) (hbh : (s.actors b).host = h) (hbe : (s.actors b).ended = false)
    (hbw : (s.actors b).wannadie = false) (hheld : k ∈ (s.actors b).activities)
    (hk : (s.acts k).kind = .comm) (hrun : (s.acts k).state = .running) (hact : (s.acts k).action = some .started)
    (ha : Answerable s a) (hah : (s.actors a).host ≠ h) (hm : a ∈ (s.acts k).simcalls) :
    DoneR s (run s [.hostOff h, .handleEnded]) a k (.exc .net) := by
  show DoneR s (step (step s (.hostOff h)) .handleEnded) a k _
  by_cases hcr : s.crashed = true
  · left; simp [step, hcr]
  · have h1 : step s (.hostOff h) = hostOff s h := by simp [step, hcr]
    rw [h1, hostOff_eq s h hon]
    have ha1 : Answerable ({ s with hostOn := upd s.hostOn h false } : St) a := by
      obtain ⟨x1, x2, x3⟩ := ha
      refine ⟨x1, ?_, x3⟩
      simp [upd, hah, x2]
    have p1 : HoldS ({ s with hostOn := upd s.hostOn h false } : St) b a k := ⟨ha1, hm, hk, hact, hrun, hheld⟩
    have ho1 : HolderOK ({ s with hostOn := upd s.hostOn h false } : St) h b := ⟨hbh, hbe, hbw⟩
    obtain ⟨e4, r4⟩ := res_hostOff_comm ({ s with hostOn := upd s.hostOn h false } : St) h k a b (by simp [upd]) hb p1 ho1
    generalize maestroPhase h (killPhase h (cpuPhase h ({ s with hostOn := upd s.hostOn h false } : St))) = t4 at e4 r4
    by_cases hc2 : t4.crashed = true
    · left; simp [step, hc2]
    · have h2 : step t4 .handleEnded = handleEndedAll t4 := by simp [step, hc2]
      rw [h2]
      have := done_of_res (a := a) (k := k) (r := .exc .net) (max (t4.nActs + 1) t4.failedQ.length) e4 r4 (Nat.le_max_right _ _)
      exact this

/-- non-vacuity: the textbook case — sender (actor 0, host 0) and receiver (actor 1, host 1) in a rendez-vous, host 0 fails:
the receiver meets the hypotheses with the sender as holder, and is answered NetworkFailureException in that iteration -/
example :
    let s := run (init [0, 1] (fun _ _ => [0])) [.isendWait 0 0, .irecvWait 1 0]
    s.hostOn 0 = true ∧ 0 < s.nActors ∧ (s.actors 0).host = 0 ∧ (s.actors 0).ended = false ∧ (s.actors 0).wannadie = false ∧
    0 ∈ (s.actors 0).activities ∧ (s.acts 0).kind = .comm ∧ (s.acts 0).state = .running ∧
    (s.acts 0).action = some .started ∧ Answerable s 1 ∧ (s.actors 1).host ≠ 0 ∧ 1 ∈ (s.acts 0).simcalls ∧
    newIn s (run s [.hostOff 0, .handleEnded]) (.answer 1 (.exc .net) 0) := by
  refine ⟨by decide, by decide, by decide, by decide, by decide, by decide, by decide, by decide, by decide, ?_, by decide,
    by decide, ?_⟩
  · unfold Answerable; decide
  · unfold newIn; decide

/-! ### killed_on_host_off
Full-strength statement: `s.hostOn h → a < s.nActors → (s.actors a).host = h → ¬ (s.actors a).ended →
((hostOff s h).actors a).wannadie = true`, and the on_exit callbacks of a dying actor get `failed = true`.
Proved here (`_partial`): the two ends of that chain — `ActorImpl::exit` marks the actor and records the kill whatever
the state, and `cleanup_from_self` hands `wannadie()` to the on_exit callbacks.  Missing: that nothing executed between
the two (the `finish`/`cancel` calls made for the other actors of the host) resets the flag — true by inspection (no
function of the model writes `wannadie := false`), not yet a Lean theorem; the monitor checks it on every run
(every actor of a host turned off logs `exit 1` at that date). -/
theorem killed_on_host_off_partial (s : St) (a : Nat) :
    Obs.kill a ∈ (actorExit s a).obs ∧
    (∀ t : St, (t.actors a).wannadie = true → Obs.exit a true ∈ (actorEnd t a).obs) := by
  constructor
  · simp [actorExit, St.emit]
  · intro t ht
    unfold actorEnd
    simp only []
    -- the observation is emitted first; the cancellations that follow only append
    have mono : ∀ (L : List Nat) (u : St) (o : Obs), o ∈ u.obs → o ∈ (L.foldl cancel u).obs := by
      intro L
      induction L with
      | nil => intro u o h; exact h
      | cons x xs ih =>
        intro u o h
        simp only [List.foldl_cons]
        apply ih
        unfold cancel
        simp only []
        (repeat' split) <;>
          simp_all [failAction, St.setAct, St.setActor, St.crash, eraseActivity, mboxRemove] <;>
          (repeat' split) <;> simp_all [St.setAct, St.setActor, St.crash]
    have := mono (t.actors a).activities (t.emit (.exit a (t.actors a).wannadie)) (.exit a true)
      (by simp [St.emit, ht])
    simpa [St.setActor, St.emit] using this

/-- **killed_on_host_off (run level).**  For EVERY state, when a host that is on is turned off, every actor of that host
that has not ended is dying when `Host::turn_off` returns — whatever the `finish` / `cancel` calls made in between for
the other actors of the host, for its peers and for maestro's activities — is still dying after the
`handle_ended_actions` that ends the maestro iteration (`wannadie` is never reset: `Mono.wd`, proved for every kernel
function of the iteration), and its on_exit callbacks will get `failed = true`. -/
theorem killed_on_host_off (s : St) (h a : Nat) (hon : s.hostOn h = true) (ha : a < s.nActors)
    (hh : (s.actors a).host = h) (he : (s.actors a).ended = false) :
    ((hostOff s h).actors a).wannadie = true ∧
    (∀ n, ((handleEnded n (hostOff s h)).actors a).wannadie = true) ∧
    (s.crashed = false → ((run s [.hostOff h, .handleEnded]).actors a).wannadie = true) ∧
    (∀ t : St, (t.actors a).wannadie = true → Obs.exit a true ∈ (actorEnd t a).obs) := by
  have h1 := hostOff_wd s h a hon ha hh he
  refine ⟨h1, fun n => (mono_handleEnded n _).wd a h1, fun hc => ?_, (killed_on_host_off_partial s a).2⟩
  show ((step (step s (.hostOff h)) .handleEnded).actors a).wannadie = true
  have e1 : step s (.hostOff h) = hostOff s h := by simp [step, hc]
  rw [e1]
  by_cases hc2 : (hostOff s h).crashed = true
  · simp [step, hc2]; exact h1
  · have e2 : step (hostOff s h) .handleEnded = handleEndedAll (hostOff s h) := by simp [step, hc2]
    rw [e2]
    exact (mono_handleEnded _ _).wd a h1

/-- **`ActorImpl::exit()` runs for every live actor of the host** (second half of killed_on_host_off, full strength): for
EVERY state, when a host that is on is turned off, every actor of that host that has not ended and is not already dying goes
through `ActorImpl::exit()` inside `Host::turn_off` (its waiting synchros are cancelled and finished, its leftover activities
cancelled, it is put back in the run list to die and run its on_exit callbacks) — whatever the other actors of the host wait
on, in particular when two actors of the host wait on the same communication.
Before the fix of `host-off-marks-peer-dying-without-exit` this was FALSE (witness: `killed_on_host_off_exit_regression`
below, corpus.txt): when an earlier actor of the same host was killed, the `finish()` of its waiting synchro ran
`unregister_first_simcall` on a co-hosted peer, which *marked* the peer dying (`issuer->set_wannadie()`);
`HostImpl::turn_off` then skipped it (`ActorImpl::kill` ignores `wannadie()` actors): the peer was never rescheduled, never
ran its on_exit callbacks, its other activities were never cancelled.  The statement then needed the hypothesis
`Private s h a`; `unregister_first_simcall` now only declines to answer such an issuer (`wdEq_finish`). -/
theorem killed_on_host_off_exit (s : St) (h a : Nat) (hon : s.hostOn h = true) (ha : a < s.nActors)
    (hh : (s.actors a).host = h) (he : (s.actors a).ended = false) (hw : (s.actors a).wannadie = false) :
    newIn s (hostOff s h) (.kill a) :=
  hostOff_kill_new s h a hon ha hh he hw

/-- Regression (witness of the fixed defect `host-off-marks-peer-dying-without-exit`): two actors of host 0 in a rendez-vous
with each other; host 0 is turned off.  Actor 0 is killed first; the `finish` of the comm does not answer actor 1 (its host is
off) and — since the fix — does not mark it either, so `turn_off` kills it in turn: `ActorImpl::exit` runs for BOTH actors.
(With `issuer->set_wannadie()` in `unregister_first_simcall` the model gave `Obs.kill 1 ∉ (hostOff s 0).obs`, and the real
library ended with actor 1 reported in a deadlock, its on_exit callback never called: corpus.txt.) -/
theorem killed_on_host_off_exit_regression :
    let s := run (init [0, 0] (fun _ _ => [])) [.isendWait 0 0, .irecvWait 1 0]
    s.hostOn 0 = true ∧ (s.actors 1).host = 0 ∧ (s.actors 1).ended = false ∧ (s.actors 1).wannadie = false ∧
    ¬ Private s 0 1 ∧
    ((hostOff s 0).actors 1).wannadie = true ∧ Obs.kill 0 ∈ (hostOff s 0).obs ∧ Obs.kill 1 ∈ (hostOff s 0).obs := by
  refine ⟨by decide, by decide, by decide, by decide, ?_, by decide, by decide, by decide⟩
  intro hp
  exact hp 0 0 (by decide) (by decide) (by decide) (by decide)

/-- non-vacuity of `killed_on_host_off` / `killed_on_host_off_exit`: sender on host 0, receiver on host 1 -/
example :
    let s := run (init [0, 1] (fun _ _ => [0])) [.isendWait 0 0, .irecvWait 1 0]
    s.hostOn 0 = true ∧ 0 < s.nActors ∧ (s.actors 0).host = 0 ∧ (s.actors 0).ended = false ∧
    (s.actors 0).wannadie = false := by
  decide

/-- non-vacuity in the case the fix is about: the two actors of the rendez-vous live on the failing host (the second one
is `Private`-less: it is registered on the comm the first one waits on) -/
example :
    let s := run (init [0, 0] (fun _ _ => [])) [.isendWait 0 0, .irecvWait 1 0]
    s.hostOn 0 = true ∧ 1 < s.nActors ∧ (s.actors 1).host = 0 ∧ (s.actors 1).ended = false ∧
    (s.actors 1).wannadie = false ∧ newIn s (hostOff s 0) (.kill 1) := by
  refine ⟨by decide, by decide, by decide, by decide, by decide, ?_⟩
  unfold newIn; decide

/-! ### no_orphan_block
Full-strength statement: in every reachable state with an empty failed-action set, every live blocked actor waits
only on `Live` activities (unmatched, or running with a started action all of whose links are on).
Proved here (`_partial`): the local step — once `finish` ran on an activity, no simcall stays registered on it, so
nobody can be left waiting for an answer from an activity that already ended.  Missing: the global invariant over all
events (that every activity losing its last completion event is handed to `finish`); it is checked by the monitor
(deadlock report: nobody blocked on anything but an unmatched communication).  Known exclusions that the full
statement would need: detached sends whose sender's host failed (reported at the completion date, not at the failure
date) and the abort below. -/
theorem no_orphan_block_partial_comm (s : St) (k : Nat) : ((finishComm s k).acts k).simcalls = [] := by
  unfold finishComm
  simp only []
  have step : ∀ (t : St) (a : Nat), (t.acts k).simcalls = [] → ((commAnswerOne k t a).acts k).simcalls = [] := by
    intro t a h
    have h1 : ((unregisterAll t a).acts k).simcalls = [] := by
      simp only [unregisterAll]; split <;> simp [h]
    have h2 : ((answerTarget (unregisterAll t a) a).1.acts k).simcalls = [] := by rw [answerTarget_acts]; exact h1
    unfold commAnswerOne
    simp only []
    split
    · unfold commAfter
      simp only []
      (repeat' split) <;> simp_all [St.setActor, St.setAct, St.emit, St.crash, upd, deliver, eraseActivity] <;>
        (repeat' split) <;> simp_all [St.setActor, St.setAct, St.emit, St.crash, upd, deliver, eraseActivity]
    · exact h2
  have fold : ∀ (L : List Nat) (t : St), (t.acts k).simcalls = [] → ((L.foldl (commAnswerOne k) t).acts k).simcalls = [] := by
    intro L
    induction L with
    | nil => intro t h; exact h
    | cons x xs ih => intro t h; exact ih _ (step t x h)
  apply fold
  simp [St.setAct]

/-- **no_orphan_block (global invariant, every reachable state).**  For EVERY platform, EVERY sequence of events of the
transition system (communications, executions, sleeps, waits, wait_any, tests, completions, actor ends, hosts and links
going off and on, `handle_ended_actions` — well formed or not, any length), the state `s` reached satisfies:
 * `NoLost s`: every activity whose action is FAILED sits in the failed action set — no failure of an action is ever
   dropped between the moment it happens (`Action::cancel`, `cancel_actions`, an action created on a resource that is off)
   and the `finish` of its activity; hence
 * nobody stays blocked on such an activity: every answerable actor registered on a communication whose action failed (a
   link of its route went off, or a dying peer / maestro cancelled it), or on an execution whose action failed while one
   of its hosts is off, is answered by the very next `handle_ended_actions` with the exception of the spec table (or by
   another activity of its wait_any set finished in that call, or an assertion of the kernel fires).
What the statement does NOT cover, precisely: activities that lose their completion event without their *action* being
failed — (i) a detached send in flight whose sender's host fails (nobody cancels it: the receiver is told at the natural
completion date, see NOTES "late reports"); (ii) a communication cancelled while still unmatched (it has no action: a
third party that waits on somebody else's unmatched comm is not woken by the owner's death); (iii) an execution whose
action was cancelled without any host failure (its waiters are answered too, with CancelException: not a failure kind of
the spec table, so it is outside `Hit`).  (Before the fix of `host-off-marks-peer-dying-without-exit` also: the
activities of an actor marked dying without `exit()`, see `killed_on_host_off_exit_regression`.) -/
theorem no_orphan_block (hosts : List Nat) (route : Nat → Nat → List Nat) (es : List Ev) :
    NoLost (run (init hosts route) es) ∧
    ∀ k a, ((run (init hosts route) es).acts k).action = some .failed → Hit (run (init hosts route) es) k →
      Answerable (run (init hosts route) es) a → a ∈ ((run (init hosts route) es).acts k).simcalls →
      DoneR (run (init hosts route) es) (handleEndedAll (run (init hosts route) es)) a k
        (.exc (specExc ((run (init hosts route) es).acts k).kind)) := by
  have h := nl_run es _ (nl_init hosts route)
  exact ⟨h, fun k a hf hit ha hm => handle_ended_reports_every_failed_action _ k a (h k hf) hit ha hm⟩

/-- non-vacuity of `no_orphan_block`: after the link failure the comm's action is FAILED (and queued), the receiver is
answerable and registered -/
example :
    let s := run (init [0, 1] (fun _ _ => [0])) [.isendWait 0 0, .irecvWait 1 0, .linkOff 0]
    (s.acts 0).action = some .failed ∧ 0 ∈ s.failedQ ∧ Hit s 0 ∧ Answerable s 1 ∧ 1 ∈ (s.acts 0).simcalls := by
  refine ⟨by decide, by decide, Or.inl ⟨by decide, Or.inr (Or.inr (by decide))⟩, ?_, by decide⟩
  unfold Answerable; decide

/-! ### the abort: before fix commit fcd7d0e96a CommImpl::start asserted that both endpoint hosts are on
(with `startAsserts := true` in Model.lean both witnesses below evaluate to `crashed = true`).  They are kept as
regressions: on the repaired code the failure is reported instead.  The general statement
`∀ es, (run (init hosts route) es).crashed = false` is not proved (the model still has crash states for null
endpoints and for the kernel's other assertions). -/

/-- witness (a): a detached send stays queued in its mailbox after the sender's host failed (nobody cancels it:
`CommImpl::cancel` skips detached WAITING comms, and it is not among the dying actor's activities); the next receiver
matches it and `CommImpl::start` used to abort on `xbt_assert(from_->is_on())`. -/
theorem comm_start_on_failed_sender_regression :
    (run (init [0, 1] (fun _ _ => [0])) [.isend 0 0 true, .hostOff 0, .handleEnded, .irecvWait 1 0]).crashed = false := by
  decide

/-- witness (b): `Comm::sendto_async(from, to)` while `from` is off -/
theorem sendto_on_failed_host_regression :
    (run (init [2] (fun _ _ => [0])) [.hostOff 0, .sendto 0 0 1]).crashed = false := by
  decide

/-- the same two scenarios without the failure do not abort -/
example : (run (init [0, 1] (fun _ _ => [0])) [.isend 0 0 true, .handleEnded, .irecvWait 1 0]).crashed = false := by decide
example : (run (init [2] (fun _ _ => [0])) [.sendto 0 0 1]).crashed = false := by decide

/-! ### non-vacuity: concrete states satisfying the hypotheses of the theorems above -/

/-- receiver (actor 1 on host 1) blocked on a running comm whose sender's host (0) is turned off: after
`handle_ended_actions` the receiver has been answered with NetworkFailureException and the sender was killed -/
example :
    let s := run (init [0, 1] (fun _ _ => [0])) [.isendWait 0 0, .irecvWait 1 0, .hostOff 0, .handleEnded]
    Obs.answer 1 (.exc .net) 0 ∈ s.obs ∧ Obs.kill 0 ∈ s.obs ∧ s.crashed = false := by decide

/-- link failure: both sides get NetworkFailureException -/
example :
    let s := run (init [0, 1] (fun _ _ => [0])) [.isendWait 0 0, .irecvWait 1 0, .linkOff 0, .handleEnded]
    Obs.answer 0 (.exc .net) 0 ∈ s.obs ∧ Obs.answer 1 (.exc .net) 0 ∈ s.obs := by decide

/-- remote exec: actor 0 on host 1 executes on host 0, which fails -/
example :
    let s := run (init [1] (fun _ _ => [0])) [.execStart 0 0, .wait 0 0, .hostOff 0, .handleEnded]
    Obs.answer 0 (.exc .host) 0 ∈ s.obs := by decide

/-! ### non-vacuity of the run-level theorems -/

/-- `failure_reaches_all_waiters`, link: the rendez-vous in flight; sender and receiver both meet the hypotheses … -/
example :
    let s := run (init [0, 1] (fun _ _ => [0])) [.isendWait 0 0, .irecvWait 1 0]
    0 < s.nActs ∧ (s.acts 0).action = some .started ∧ (s.acts 0).state = .running ∧ HitBy s 0 (.linkOff 0) ∧
    Answerable s 0 ∧ Answerable s 1 ∧ 0 ∈ (s.acts 0).simcalls ∧ 1 ∈ (s.acts 0).simcalls ∧ Survives s 1 (.linkOff 0) := by
  refine ⟨by decide, by decide, by decide, HitBy.link 0 (by decide) (by decide) (by decide), ?_, ?_, by decide, by decide, trivial⟩
  · unfold Answerable; decide
  · unfold Answerable; decide
/-- … and the conclusion is the first alternative for both: answered by the comm itself, NetworkFailureException -/
example :
    let s := run (init [0, 1] (fun _ _ => [0])) [.isendWait 0 0, .irecvWait 1 0]
    newIn s (run s [.linkOff 0, .handleEnded]) (.answer 0 (.exc .net) 0) ∧
    newIn s (run s [.linkOff 0, .handleEnded]) (.answer 1 (.exc .net) 0) := by
  unfold newIn; decide

/-- `failure_reaches_all_waiters`, host: actor 0 lives on host 1 and waits for its execution on host 0, which fails -/
example :
    let s := run (init [1] (fun _ _ => [0])) [.execStart 0 0, .wait 0 0]
    0 < s.nActs ∧ (s.acts 0).action = some .started ∧ HitBy s 0 (.hostOff 0) ∧ Answerable s 0 ∧
    Survives s 0 (.hostOff 0) ∧ 0 ∈ (s.acts 0).simcalls ∧
    newIn s (run s [.hostOff 0, .handleEnded]) (.answer 0 (.exc .host) 0) := by
  refine ⟨by decide, by decide, HitBy.hostExec 0 (by decide) (by decide) (by decide), ?_, ?_, by decide, ?_⟩
  · unfold Answerable; decide
  · show (_ : Nat) ≠ 0; decide
  · unfold newIn; decide

/-- `failure_reaches_all_waiters`, host, PARALLEL execution (`Exec::set_hosts`, ptask_L07): actor 0 lives on host 0 and waits
for its execution on hosts [1, 2, 3]; the hypotheses hold for the failure of the first, of a middle and of the LAST host of the
list (`HitBy.hostExec`: `h ∈ hosts_`, whatever its rank), and the conclusion is HostFailureException each time — the
"any host off ⇒ FAILED" test of `ExecImpl::finish` looks at the whole list. -/
example :
    let s := run (init [0] (fun _ _ => [0])) [.pexecStart 0 [1, 2, 3], .wait 0 0]
    0 < s.nActs ∧ (s.acts 0).action = some .started ∧ Answerable s 0 ∧ 0 ∈ (s.acts 0).simcalls ∧
    (HitBy s 0 (.hostOff 1) ∧ Survives s 0 (.hostOff 1) ∧ newIn s (run s [.hostOff 1, .handleEnded]) (.answer 0 (.exc .host) 0)) ∧
    (HitBy s 0 (.hostOff 2) ∧ Survives s 0 (.hostOff 2) ∧ newIn s (run s [.hostOff 2, .handleEnded]) (.answer 0 (.exc .host) 0)) ∧
    (HitBy s 0 (.hostOff 3) ∧ Survives s 0 (.hostOff 3) ∧ newIn s (run s [.hostOff 3, .handleEnded]) (.answer 0 (.exc .host) 0)) := by
  refine ⟨by decide, by decide, ?_, by decide, ⟨HitBy.hostExec 1 (by decide) (by decide) (by decide), ?_, ?_⟩,
    ⟨HitBy.hostExec 2 (by decide) (by decide) (by decide), ?_, ?_⟩, ⟨HitBy.hostExec 3 (by decide) (by decide) (by decide), ?_, ?_⟩⟩
  · unfold Answerable; decide
  · show (_ : Nat) ≠ 1; decide
  · unfold newIn; decide
  · show (_ : Nat) ≠ 2; decide
  · unfold newIn; decide
  · show (_ : Nat) ≠ 3; decide
  · unfold newIn; decide

/-- a wait_any over two comms crossing the same link: the issuer is answered by the first one finished, the other
registration is dropped (third alternative of `DoneR` for activity 1) -/
example :
    let s := run (init [0, 1, 1] (fun _ _ => [0])) [.isend 0 0 false, .isend 0 1 false, .irecvWait 1 0, .irecvWait 2 1, .waitAny 0 [0, 1]]
    Answerable s 0 ∧ 0 ∈ (s.acts 1).simcalls ∧ HitBy s 1 (.linkOff 0) ∧
    newIn s (run s [.linkOff 0, .handleEnded]) (.answer 0 (.exc .net) 0) ∧
    ¬ newIn s (run s [.linkOff 0, .handleEnded]) (.answer 0 (.exc .net) 1) := by
  refine ⟨?_, by decide, HitBy.link 0 (by decide) (by decide) (by decide), ?_, ?_⟩
  · unfold Answerable; decide
  · unfold newIn; decide
  · unfold newIn; decide

/-- `handle_ended_reports_every_failed_action` and `hostOff_fails_every_user`: hypotheses met -/
example :
    let t := run (init [0, 1] (fun _ _ => [0])) [.isendWait 0 0, .irecvWait 1 0, .linkOff 0]
    0 ∈ t.failedQ ∧ Hit t 0 ∧ Answerable t 1 ∧ 1 ∈ (t.acts 0).simcalls := by
  refine ⟨by decide, Or.inl ⟨by decide, Or.inr (Or.inr (by decide))⟩, ?_, by decide⟩
  unfold Answerable; decide
example :
    let s := run (init [1] (fun _ _ => [0])) [.execStart 0 0, .wait 0 0]
    0 < s.nActs ∧ (s.acts 0).kind ≠ .comm ∧ 0 ∈ (s.acts 0).hosts ∧ (s.acts 0).action = some .started := by decide

end SgVerif.C10
