import SgVerif.C10.Lemmas
/-
C10 — resource failures are reported to every live participant.  Property theorems (nothing else in this file).
All theorems are over arbitrary states of the transition system of Model.lean (any number of hosts, links, actors,
activities, any history): no bound anywhere.  `Answerable s a` = actor a is blocked in a simcall, on a host that is on,
and not dying (the issuers that `unregister_first_simcall` hands back to `finish`).
-/
set_option linter.unusedSimpArgs false
set_option linter.unusedVariables false
namespace SgVerif.C10

/-! ### failure_reaches_all_waiters -/

/-- **Communications.**  Whenever `CommImpl::finish` runs on a communication whose final state is a failure state
(sender's host off -> SRC_HOST_FAILURE, receiver's host off -> DST_HOST_FAILURE, action failed (link off, or cancelled
by a dying peer) -> LINK_FAILURE, or FAILED set by `ActorImpl::exit` / `HostImpl::turn_off`), EVERY registered simcall
whose issuer is answerable is answered by that same call with NetworkFailureException — sender side, receiver side,
third parties (sendto), wait and wait_any alike — unless one of the function's own assertions fires (`crashed`). -/
theorem failure_reaches_all_waiters_comm (s : St) (k : Nat) (hf : NetClass (commFinalState s k)) :
    ∀ a ∈ (s.acts k).simcalls, Answerable s a →
      (finishComm s k).crashed = true ∨ Obs.answer a (.exc .net) k ∈ (finishComm s k).obs := by
  intro a ha hans
  unfold finishComm
  simp only []
  apply commLoop_answers
  · cases hm : (s.acts k).mbox <;> simp [St.setAct, St.emit, cleanAction, mboxRemove, upd, hm] <;>
      split <;> simp_all [St.setAct, upd]
  · cases hm : (s.acts k).mbox <;> simp [St.setAct, St.emit, cleanAction, mboxRemove, upd, hm] <;>
      split <;> simp_all [St.setAct, upd]
  · obtain ⟨h1, h2, h3⟩ := hans
    cases hm : (s.acts k).mbox <;> simp [Answerable, St.setAct, St.emit, cleanAction, mboxRemove, upd, hm] <;>
      split <;> simp_all [St.setAct, upd]

/-- **Executions.**  When `ExecImpl::finish` runs on an execution whose action is still attached and one of whose
hosts is off, every answerable registered issuer (necessarily an actor of another host: remote exec) is answered with
HostFailureException. -/
theorem failure_reaches_all_waiters_exec (s : St) (k : Nat) (hact : (s.acts k).action ≠ none)
    (hoff : (s.acts k).hosts.any (fun h => ! s.hostOn h) = true) :
    ∀ a ∈ (s.acts k).simcalls, Answerable s a → Obs.answer a (.exc .host) k ∈ (finishExec s k).obs := by
  intro a ha hans
  unfold finishExec
  simp only [hact, ne_eq, not_false_eq_true, if_true, hoff]
  apply execLoop_answers
  · simp [St.setAct, St.emit, cleanAction, upd]
  · simpa [St.setAct, St.emit, cleanAction, upd] using ha
  · obtain ⟨h1, h2, h3⟩ := hans
    simp [Answerable, St.setAct, St.emit, cleanAction, upd, h1, h2, h3]

/-- the state `CommImpl::finish` computes is a failure state as soon as an endpoint host is off or the action failed:
the hypotheses of `failure_reaches_all_waiters_comm` hold in the three rows of the spec table -/
theorem commFinalState_src_off (s : St) (k h : Nat) (h1 : (s.acts k).from_ = some h) (h2 : s.hostOn h = false) :
    commFinalState s k = .srcHostFailure := by
  simp [commFinalState, h1, h2]

theorem commFinalState_dst_off (s : St) (k h h' : Nat) (h0 : (s.acts k).from_ = some h') (h0' : s.hostOn h' = true)
    (h1 : (s.acts k).to_ = some h) (h2 : s.hostOn h = false) : commFinalState s k = .dstHostFailure := by
  simp [commFinalState, h0, h0', h1, h2]

theorem commFinalState_link_failed (s : St) (k : Nat) (h1 : (s.acts k).action = some .failed) :
    NetClass (commFinalState s k) := by
  unfold commFinalState NetClass
  simp only []
  (repeat' split) <;> simp_all

/-- `turn_off` of a link: every running communication whose route uses the link has its action FAILED and queued for
`handle_ended_actions` (which calls `finish`, to which the theorems above apply). -/
theorem linkOff_fails_every_user (s : St) (l k : Nat) (hon : s.linkOn l = true) (hk : k < s.nActs)
    (hc : (s.acts k).kind = .comm) (hl : l ∈ (s.acts k).links) (ha : (s.acts k).action = some .started) :
    ((linkOff s l).acts k).action = some .failed ∧ k ∈ (linkOff s l).failedQ := by
  unfold linkOff
  simp only [hon, not_true_eq_false, if_false]
  -- generalise the fold over 0..nActs-1
  have key : ∀ (L : List Nat) (t : St), (∀ j, (t.acts j).kind = (s.acts j).kind ∧ (t.acts j).links = (s.acts j).links) →
      (k ∈ L → (t.acts k).action = some .started) →
      (k ∉ L → (t.acts k).action = some .failed ∧ k ∈ t.failedQ) →
      ((L.foldl (fun s k => if (s.acts k).kind = .comm ∧ l ∈ (s.acts k).links then failAction s k else s) t).acts k).action
          = some .failed ∧
      k ∈ (L.foldl (fun s k => if (s.acts k).kind = .comm ∧ l ∈ (s.acts k).links then failAction s k else s) t).failedQ := by
    intro L
    induction L with
    | nil => intro t _ _ h2; exact h2 (by simp)
    | cons x xs ih =>
      intro t hfr h1 h2
      simp only [List.foldl_cons]
      by_cases hx : x = k
      · subst hx
        have hst := h1 (by simp)
        have hcond : (t.acts x).kind = .comm ∧ l ∈ (t.acts x).links := by rw [(hfr x).1, (hfr x).2]; exact ⟨hc, hl⟩
        simp only [hcond, and_self, if_true]
        -- after failAction x the action is failed and x is queued; the rest of the fold keeps that
        have hfa : ((failAction t x).acts x).action = some .failed ∧ x ∈ (failAction t x).failedQ := by
          simp [failAction, hst, St.setAct]
        -- continue with a list that may or may not contain x again: use a monotone invariant
        have keep : ∀ (M : List Nat) (u : St), ((u.acts x).action = some .failed ∧ x ∈ u.failedQ) →
            ((M.foldl (fun s k => if (s.acts k).kind = .comm ∧ l ∈ (s.acts k).links then failAction s k else s) u).acts x).action
              = some .failed ∧
            x ∈ (M.foldl (fun s k => if (s.acts k).kind = .comm ∧ l ∈ (s.acts k).links then failAction s k else s) u).failedQ := by
          intro M
          induction M with
          | nil => intro u h; exact h
          | cons y ys ihy =>
            intro u hu
            simp only [List.foldl_cons]
            apply ihy
            split
            · unfold failAction
              split
              · by_cases hyx : x = y
                · subst hyx; simp_all
                · simp [St.setAct, upd, hyx, hu.1, hu.2]
              · exact hu
            · exact hu
        exact keep xs _ hfa
      · apply ih
        · intro j
          split
          · unfold failAction
            split
            · by_cases hj : j = x
              · subst hj; simp [St.setAct, (hfr j).1, (hfr j).2]
              · simp [St.setAct, upd, hj, (hfr j).1, (hfr j).2]
            · exact hfr j
          · exact hfr j
        · intro hin
          have := h1 (by simp [hin])
          split
          · unfold failAction
            split
            · simp [St.setAct, upd, Ne.symm hx, this]
            · exact this
          · exact this
        · intro hnin
          have := h2 (by simp [hnin, Ne.symm hx])
          split
          · unfold failAction
            split
            · simp [St.setAct, upd, Ne.symm hx, this.1, this.2]
            · exact this
          · exact this
  apply key
  · intro j; exact ⟨rfl, rfl⟩
  · intro _; exact ha
  · intro hnin; exact absurd (List.mem_range.mpr hk) hnin

/-! ### killed_on_host_off
Full-strength statement: `s.hostOn h → a < s.nActors → (s.actors a).host = h → ¬ (s.actors a).ended →
((hostOff s h).actors a).wannadie = true`, and the on_exit callbacks of a dying actor get `failed = true`.
Proved here (`_partial`): the two ends of that chain — `ActorImpl::exit` marks the actor and records the kill whatever
the state, and `cleanup_from_self` hands `wannadie()` to the on_exit callbacks.  Missing: that nothing executed between
the two (the `finish`/`cancel` calls made for the other actors of the host) resets the flag — true by inspection (no
function of the model writes `wannadie := false`), not yet a Lean theorem; the monitor checks it on every run
(every actor of a host turned off logs `exit 1` at that date). -/
theorem killed_on_host_off_partial (s : St) (a : Nat) :
    Obs.kill a ∈ (actorExit s a).obs ∧
    (∀ t : St, (t.actors a).wannadie = true → Obs.exit a true ∈ (actorEnd t a).obs) := by
  constructor
  · simp [actorExit, St.emit]
  · intro t ht
    unfold actorEnd
    simp only []
    -- the observation is emitted first; the cancellations that follow only append
    have mono : ∀ (L : List Nat) (u : St) (o : Obs), o ∈ u.obs → o ∈ (L.foldl cancel u).obs := by
      intro L
      induction L with
      | nil => intro u o h; exact h
      | cons x xs ih =>
        intro u o h
        simp only [List.foldl_cons]
        apply ih
        unfold cancel
        simp only []
        (repeat' split) <;>
          simp_all [failAction, St.setAct, St.setActor, St.crash, eraseActivity, mboxRemove] <;>
          (repeat' split) <;> simp_all [St.setAct, St.setActor, St.crash]
    have := mono (t.actors a).activities (t.emit (.exit a (t.actors a).wannadie)) (.exit a true)
      (by simp [St.emit, ht])
    simpa [St.setActor, St.emit] using this

/-! ### no_orphan_block
Full-strength statement: in every reachable state with an empty failed-action set, every live blocked actor waits
only on `Live` activities (unmatched, or running with a started action all of whose links are on).
Proved here (`_partial`): the local step — once `finish` ran on an activity, no simcall stays registered on it, so
nobody can be left waiting for an answer from an activity that already ended.  Missing: the global invariant over all
events (that every activity losing its last completion event is handed to `finish`); it is checked by the monitor
(deadlock report: nobody blocked on anything but an unmatched communication).  Known exclusions that the full
statement would need: detached sends whose sender's host failed (reported at the completion date, not at the failure
date) and the abort below. -/
theorem no_orphan_block_partial_comm (s : St) (k : Nat) : ((finishComm s k).acts k).simcalls = [] := by
  unfold finishComm
  simp only []
  have step : ∀ (t : St) (a : Nat), (t.acts k).simcalls = [] → ((commAnswerOne k t a).acts k).simcalls = [] := by
    intro t a h
    have h1 : ((unregisterAll t a).acts k).simcalls = [] := by
      simp only [unregisterAll]; split <;> simp [h]
    have h2 : ((answerTarget (unregisterAll t a) a).1.acts k).simcalls = [] := by rw [answerTarget_acts]; exact h1
    unfold commAnswerOne
    simp only []
    split
    · unfold commAfter
      simp only []
      (repeat' split) <;> simp_all [St.setActor, St.setAct, St.emit, St.crash, upd, deliver, eraseActivity] <;>
        (repeat' split) <;> simp_all [St.setActor, St.setAct, St.emit, St.crash, upd, deliver, eraseActivity]
    · exact h2
  have fold : ∀ (L : List Nat) (t : St), (t.acts k).simcalls = [] → ((L.foldl (commAnswerOne k) t).acts k).simcalls = [] := by
    intro L
    induction L with
    | nil => intro t h; exact h
    | cons x xs ih => intro t h; exact ih _ (step t x h)
  apply fold
  simp [St.setAct]

/-! ### the abort: before fix commit fcd7d0e96a CommImpl::start asserted that both endpoint hosts are on
(with `startAsserts := true` in Model.lean both witnesses below evaluate to `crashed = true`).  They are kept as
regressions: on the repaired code the failure is reported instead.  The general statement
`∀ es, (run (init hosts route) es).crashed = false` is not proved (the model still has crash states for null
endpoints and for the kernel's other assertions). -/

/-- witness (a): a detached send stays queued in its mailbox after the sender's host failed (nobody cancels it:
`CommImpl::cancel` skips detached WAITING comms, and it is not among the dying actor's activities); the next receiver
matches it and `CommImpl::start` used to abort on `xbt_assert(from_->is_on())`. -/
theorem comm_start_on_failed_sender_regression :
    (run (init [0, 1] (fun _ _ => [0])) [.isend 0 0 true, .hostOff 0, .handleEnded, .irecvWait 1 0]).crashed = false := by
  decide

/-- witness (b): `Comm::sendto_async(from, to)` while `from` is off -/
theorem sendto_on_failed_host_regression :
    (run (init [2] (fun _ _ => [0])) [.hostOff 0, .sendto 0 0 1]).crashed = false := by
  decide

/-- the same two scenarios without the failure do not abort -/
example : (run (init [0, 1] (fun _ _ => [0])) [.isend 0 0 true, .handleEnded, .irecvWait 1 0]).crashed = false := by decide
example : (run (init [2] (fun _ _ => [0])) [.sendto 0 0 1]).crashed = false := by decide

/-! ### non-vacuity: concrete states satisfying the hypotheses of the theorems above -/

/-- receiver (actor 1 on host 1) blocked on a running comm whose sender's host (0) is turned off: after
`handle_ended_actions` the receiver has been answered with NetworkFailureException and the sender was killed -/
example :
    let s := run (init [0, 1] (fun _ _ => [0])) [.isendWait 0 0, .irecvWait 1 0, .hostOff 0, .handleEnded]
    Obs.answer 1 (.exc .net) 0 ∈ s.obs ∧ Obs.kill 0 ∈ s.obs ∧ s.crashed = false := by decide

/-- link failure: both sides get NetworkFailureException -/
example :
    let s := run (init [0, 1] (fun _ _ => [0])) [.isendWait 0 0, .irecvWait 1 0, .linkOff 0, .handleEnded]
    Obs.answer 0 (.exc .net) 0 ∈ s.obs ∧ Obs.answer 1 (.exc .net) 0 ∈ s.obs := by decide

/-- remote exec: actor 0 on host 1 executes on host 0, which fails -/
example :
    let s := run (init [1] (fun _ _ => [0])) [.execStart 0 0, .wait 0 0, .hostOff 0, .handleEnded]
    Obs.answer 0 (.exc .host) 0 ∈ s.obs := by decide

end SgVerif.C10
