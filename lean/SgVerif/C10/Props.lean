import SgVerif.C10.Model
namespace SgVerif.C10
theorem stub : True := trivial
end SgVerif.C10
