/-
C10 — resource failures are reported to every live participant.  Executable model (no Mathlib).

A labelled transition system over the kernel objects involved in failure reporting:
hosts/links (on/off), actors (`ActorImpl`: host, wannadie, simcall pending, `waiting_synchros_`, `activities_`),
activities (`CommImpl`, `ExecImpl`, `SleepImpl`: state, src/dst actor, from/to host, `model_action_` state,
registered simcalls), mailboxes, maestro's `activities_`, the failed-action set of the resource models.
Time is not part of the model: the completion of an action is an event (`complete k`); dates only order the
events of a trace.  Each function quotes the C++ it follows (files under /repo/src/kernel unless said otherwise).
-/
namespace SgVerif.C10

/-- `activity::State` -/
inductive AState where
  | waiting | ready | running | done | failed | srcHostFailure | dstHostFailure | linkFailure | canceled
  deriving DecidableEq, Repr, Inhabited

/-- `resource::Action::State` of `model_action_` (only the values that matter here) -/
inductive ActionSt where
  | started | failed | finished
  deriving DecidableEq, Repr, Inhabited

inductive Kind where
  | comm | exec | sleep
  deriving DecidableEq, Repr, Inhabited

/-- exception kinds an actor can observe -/
inductive Exc where
  | net | host | cancel
  deriving DecidableEq, Repr, Inhabited

inductive Ans where
  | ok | exc (e : Exc)
  deriving DecidableEq, Repr, Inhabited

structure Activity where
  kind : Kind := .comm
  state : AState := .waiting
  src : Option Nat := none          -- src_actor_
  dst : Option Nat := none          -- dst_actor_
  from_ : Option Nat := none        -- from_ (host)
  to_ : Option Nat := none          -- to_   (host)
  hosts : List Nat := []            -- ActivityImpl::hosts_ (exec host; sleep host; sendto: from,to)
  owner : Option Nat := none        -- ActivityImpl::actor_ (execs: the issuer)
  detached : Bool := false
  action : Option ActionSt := none  -- model_action_ (none = nullptr)
  links : List Nat := []            -- links of the action's route
  simcalls : List Nat := []         -- simcalls_ (issuers), front first
  mbox : Option Nat := none         -- mbox_ while queued
  deriving Inhabited

structure Actor where
  host : Nat := 0
  wannadie : Bool := false
  ended : Bool := false             -- cleanup_from_self ran (on_exit called), no longer in the host's actor list
  blocked : Bool := false           -- simcall_.call_ != NONE
  waiting : List Nat := []          -- waiting_synchros_
  wlist : List Nat := []            -- activities of the pending wait/wait_any observer
  activities : List Nat := []       -- activities_
  deriving Inhabited

/-- what the outside can see -/
inductive Obs where
  | answer (a : Nat) (r : Ans) (by_ : Nat)   -- simcall of actor a answered with r by the finish of activity by_
  | kill (a : Nat)                           -- ActorImpl::exit ran for a (it will see on_exit(failed = true))
  | exit (a : Nat) (failed : Bool)           -- on_exit callbacks of a ran with this flag
  | fin (k : Nat) (st : AState)              -- finish() ran on activity k, state after the update
  deriving DecidableEq, Repr, Inhabited

structure St where
  hostOn : Nat → Bool := fun _ => true
  linkOn : Nat → Bool := fun _ => true
  route : Nat → Nat → List Nat := fun _ _ => []
  actors : Nat → Actor := fun _ => {}
  nActors : Nat := 0
  acts : Nat → Activity := fun _ => {}
  nActs : Nat := 0
  mboxq : Nat → List Nat := fun _ => []     -- MailboxImpl::comm_queue_
  maestro : List Nat := []                  -- maestro's activities_ (detached activities)
  failedQ : List Nat := []                  -- activities whose action sits in a model's failed action set
  crashed : Bool := false                   -- an xbt_assert fired (the process aborts)
  obs : List Obs := []

def upd {α : Type} (f : Nat → α) (i : Nat) (v : α) : Nat → α := fun j => if j = i then v else f j

@[simp] theorem upd_same {α : Type} (f : Nat → α) (i : Nat) (v : α) : upd f i v i = v := by simp [upd]
@[simp] theorem upd_other {α : Type} (f : Nat → α) (i j : Nat) (v : α) (h : j ≠ i) : upd f i v j = f j := by
  simp [upd, h]

def St.setAct (s : St) (k : Nat) (f : Activity → Activity) : St := { s with acts := upd s.acts k (f (s.acts k)) }
def St.setActor (s : St) (a : Nat) (f : Actor → Actor) : St := { s with actors := upd s.actors a (f (s.actors a)) }
def St.emit (s : St) (o : Obs) : St := { s with obs := s.obs ++ [o] }
def St.crash (s : St) : St := { s with crashed := true }

/-- remove activity k from the `activities_` of an optional actor -/
def eraseActivity (s : St) (a : Option Nat) (k : Nat) : St :=
  match a with
  | none => s
  | some a => s.setActor a (fun x => { x with activities := x.activities.erase k })

/-- `ActorImpl::activities_` is a `std::set` ordered by the creation rank of the activities (`ActivityIdLess`, commit
b3a6606869; activity ids of the model are creation ranks): insertion keeps the list sorted and without duplicate.
The leftover activities of an ending actor are cancelled in that order (`cleanup_from_kernel`, commit 6040f7fd8e). -/
def insertAct (l : List Nat) (k : Nat) : List Nat := l.filter (fun j => j < k) ++ k :: l.filter (fun j => k < j)

/-- `Action::set_state(FAILED)` on a live action (`Action::cancel`, `Resource::cancel_actions`): the action joins
the failed action set of its model, from which `handle_ended_actions` extracts it. -/
def failAction (s : St) (k : Nat) : St :=
  if (s.acts k).action = some .started then
    { s.setAct k (fun x => { x with action := some .failed }) with failedQ := s.failedQ ++ [k] }
  else s

/-- `ActivityImpl::clean_action`: the action is deleted (and leaves whatever action set it was in) -/
def cleanAction (s : St) (k : Nat) : St :=
  { s.setAct k (fun x => { x with action := none }) with failedQ := s.failedQ.filter (· ≠ k) }

/-- `MailboxImpl::remove` -/
def mboxRemove (s : St) (k : Nat) : St :=
  match (s.acts k).mbox with
  | none => s
  | some m => { s.setAct k (fun x => { x with mbox := none }) with mboxq := upd s.mboxq m ((s.mboxq m).erase k) }

/-- `ActivityImpl::unregister_first_simcall`, first half, for issuer `a` whose simcall was popped from the finishing
activity: `this` leaves a's `waiting_synchros_`; a wait_any observer is unregistered from every activity of its list
(for a plain wait the list is `[this]`). -/
def unregisterAll (s : St) (a : Nat) : St :=
  let w := (s.actors a).wlist
  { s with
    acts := fun j => if j ∈ w then { s.acts j with simcalls := (s.acts j).simcalls.erase a } else s.acts j
    actors := upd s.actors a { s.actors a with waiting := (s.actors a).waiting.filter (fun j => j ∉ w), wlist := [] } }

/-- `false`: `unregister_first_simcall` as it is now: an issuer whose host is off is simply not answered
(`if (issuer->wannadie() || not issuer->get_host()->is_on()) return nullptr;`); `HostImpl::turn_off` kills it in turn.
`true`: the code before the fix of `host-off-marks-peer-dying-without-exit`: such an issuer was *marked* dying
(`issuer->set_wannadie()`) without going through `ActorImpl::exit()`; `HostImpl::turn_off` then skipped it
(`ActorImpl::kill` ignores actors that are already `wannadie()`), so it never ran `exit()` nor its on_exit callbacks.
(The proofs of Wd.lean / Kill.lean hold for `false` only.) -/
def unregisterMarksDying : Bool := false

/-- pre-fix only: `if (not issuer->get_host()->is_on()) issuer->set_wannadie();` (now the identity) -/
def markDying (s : St) (a : Nat) : St :=
  if unregisterMarksDying then s.setActor a (fun x => { x with wannadie := true }) else s

/-- second half of `unregister_first_simcall`: is the issuer answered?
`if (simcall->call_ == NONE) return nullptr;
 if (issuer->wannadie() || not issuer->get_host()->is_on()) return nullptr; return issuer;` -/
def answerTarget (s : St) (a : Nat) : St × Bool :=
  if ¬ (s.actors a).blocked then (s, false)
  else if ¬ s.hostOn (s.actors a).host then (markDying s a, false)
  else if (s.actors a).wannadie then (s, false)
  else (s, true)

/-- `issuer->simcall_answer()` with the given outcome -/
def deliver (s : St) (a : Nat) (r : Ans) (k : Nat) : St :=
  (s.setActor a (fun x => { x with blocked := false })).emit (.answer a r k)

/-- body of the answer loop of `CommImpl::finish` once `unregister_first_simcall` returned the issuer -/
def commAfter (k : Nat) (s : St) (a : Nat) : St :=
  let s := s.setActor a (fun x => { x with activities := x.activities.erase k })   -- issuer->activities_.erase(this)
  let c := s.acts k
  let s := match c.state with
    | .failed => deliver s a (.exc .net) k
    | .srcHostFailure =>                         -- xbt_assert(issuer != src_actor_)
      if c.src = some a then s.crash else deliver (s.setAct k (fun x => { x with state := .failed })) a (.exc .net) k
    | .dstHostFailure =>                         -- xbt_assert(issuer != dst_actor_)
      if c.dst = some a then s.crash else deliver (s.setAct k (fun x => { x with state := .failed })) a (.exc .net) k
    | .linkFailure => deliver (s.setAct k (fun x => { x with state := .failed })) a (.exc .net) k
    | .canceled => deliver s a (.exc .cancel) k
    | .done => deliver s a .ok k
    | _ => s.crash                               -- xbt_assert(get_state() == State::DONE, "Internal error ...")
  if c.detached then
    let s := if c.dst ≠ some a then eraseActivity s c.dst k else s
    if c.src ≠ some a then eraseActivity s c.src k else s
  else s

/-- the per-issuer body of the `while (not simcalls_.empty())` loop of `CommImpl::finish` -/
def commAnswerOne (k : Nat) (s : St) (a : Nat) : St :=
  let r := answerTarget (unregisterAll s a) a
  if r.2 then commAfter k r.1 a else r.1

/-- state update at the head of `CommImpl::finish` -/
def commFinalState (s : St) (k : Nat) : AState :=
  let c := s.acts k
  if (match c.from_ with | some h => ! s.hostOn h | none => false) then .srcHostFailure
  else if (match c.to_ with | some h => ! s.hostOn h | none => false) then .dstHostFailure
  else if c.action = some .failed then .linkFailure
  else if c.state = .running then .done
  else c.state

/-- `CommImpl::finish` -/
def finishComm (s : St) (k : Nat) : St :=
  let s := s.setAct k (fun x => { x with state := commFinalState s k })
  let s := s.emit (.fin k (s.acts k).state)
  let s := cleanAction s k
  let s := mboxRemove s k
  let s := if (s.acts k).detached then { s with maestro := s.maestro.erase k } else s
  let l := (s.acts k).simcalls
  let s := s.setAct k (fun x => { x with simcalls := [] })
  l.foldl (commAnswerOne k) s

def execAfter (k : Nat) (s : St) (a : Nat) : St :=
  let s := s.setActor a (fun x => { x with activities := x.activities.erase k })
  match (s.acts k).state with
  | .failed => deliver s a (.exc .host) k
  | .canceled => deliver s a (.exc .cancel) k
  | .done => deliver s a .ok k
  | _ => s.crash

def execAnswerOne (k : Nat) (s : St) (a : Nat) : St :=
  let r := answerTarget (unregisterAll s a) a
  if r.2 then execAfter k r.1 a else r.1

/-- `ExecImpl::finish` -/
def finishExec (s : St) (k : Nat) : St :=
  let e := s.acts k
  let s := if e.action ≠ none then
      let st := if e.hosts.any (fun h => ! s.hostOn h) then AState.failed
                else if e.action = some .failed then AState.canceled else AState.done
      cleanAction (s.setAct k (fun x => { x with state := st })) k
    else s
  let s := s.emit (.fin k (s.acts k).state)
  let l := (s.acts k).simcalls
  let s := s.setAct k (fun x => { x with simcalls := [] })
  l.foldl (execAnswerOne k) s

def sleepAnswerOne (k : Nat) (s : St) (a : Nat) : St :=
  let r := answerTarget (unregisterAll s a) a
  if r.2 then deliver r.1 a .ok k else r.1

/-- `SleepImpl::finish` (a null `model_action_` would be dereferenced: modelled as a crash) -/
def finishSleep (s : St) (k : Nat) : St :=
  let e := s.acts k
  match e.action with
  | none => s.crash
  | some ac =>
    let st := if ac = .failed then
        (if e.hosts.any (fun h => ! s.hostOn h) then AState.srcHostFailure else AState.canceled)
      else if ac = .finished then AState.done else e.state
    let s := cleanAction (s.setAct k (fun x => { x with state := st })) k
    let s := s.emit (.fin k st)
    let l := (s.acts k).simcalls
    let s := s.setAct k (fun x => { x with simcalls := [] })
    l.foldl (sleepAnswerOne k) s

def finish (s : St) (k : Nat) : St :=
  match (s.acts k).kind with
  | .comm => finishComm s k
  | .exec => finishExec s k
  | .sleep => finishSleep s k

/-- `CommImpl::cancel` / `ActivityImpl::cancel` -/
def cancel (s : St) (k : Nat) : St :=
  let c := s.acts k
  match c.kind with
  | .comm =>
    let s := if c.state = .waiting then
        (if ¬ c.detached then (mboxRemove s k).setAct k (fun x => { x with state := .canceled }) else s)
      else if c.state = .ready ∨ c.state = .running then
        (if c.action = none then s.crash else failAction s k)      -- model_action_->cancel()
      else s
    eraseActivity (eraseActivity s c.src k) c.dst k
  | _ =>
    let s := if c.action ≠ none then failAction s k else s
    eraseActivity (s.setAct k (fun x => { x with state := .canceled })) c.owner k

/-- the first loop of `ActorImpl::exit`: `waiting_synchros_` from the back:
`activity->cancel(); activity->set_state(FAILED); activity->finish(); activities_.erase(activity);` -/
def exitWaiting (a : Nat) (s : St) (k : Nat) : St :=
  let s := cancel s k
  let s := s.setAct k (fun x => { x with state := .failed })
  let s := finish s k
  s.setActor a (fun x => { x with activities := x.activities.erase k })

/-- `while (not waiting_synchros_.empty()) { activity = back(); pop_back(); ... }`: the list is re-read at every
iteration because `finish()` may unregister a wait_any simcall from the other activities of its list. -/
def exitLoop (a : Nat) : Nat → St → St
  | 0, s => s
  | n + 1, s =>
    match (s.actors a).waiting.getLast? with
    | none => s
    | some k =>
      let s := s.setActor a (fun x => { x with waiting := x.waiting.dropLast })
      exitLoop a n (exitWaiting a s k)

/-- `ActorImpl::exit` (the final `throw_exception(ForcefulKillException)` finds `waiting_synchros_` empty) -/
def actorExit (s : St) (a : Nat) : St :=
  let s := s.setActor a (fun x => { x with wannadie := true })
  let s := exitLoop a (s.actors a).waiting.length s
  let s := (s.actors a).activities.foldl cancel s        -- while (not activities_.empty()) begin()->cancel()
  let s := s.setActor a (fun x => { x with activities := [], waiting := [] })
  s.emit (.kill a)

/-- `ActorImpl::kill`: dying actors are ignored -/
def kill (s : St) (a : Nat) : St := if (s.actors a).wannadie then s else actorExit s a

/-- `Resource::cancel_actions` of a cpu: every running exec/sleep placed on host h -/
def cpuCancelActions (s : St) (h : Nat) : St :=
  (List.range s.nActs).foldl (fun s k =>
    if (s.acts k).kind ≠ .comm ∧ h ∈ (s.acts k).hosts then failAction s k else s) s

/-- maestro's activities that declare host h: `activity->cancel(); activity->set_state(FAILED);` -/
def maestroFail (h : Nat) (s : St) (k : Nat) : St :=
  if h ∈ (s.acts k).hosts then (cancel s k).setAct k (fun x => { x with state := .failed }) else s

/-- `s4u::Host::turn_off` = `CpuImpl::turn_off` + `HostImpl::turn_off` -/
def hostOff (s : St) (h : Nat) : St :=
  if ¬ s.hostOn h then s else
  let s := { s with hostOn := upd s.hostOn h false }
  let s := cpuCancelActions s h
  let s := (List.range s.nActors).foldl (fun s a =>
    if (s.actors a).host = h ∧ ¬ (s.actors a).ended then kill s a else s) s
  s.maestro.foldl (maestroFail h) s

def hostOnEv (s : St) (h : Nat) : St := { s with hostOn := upd s.hostOn h true }

/-- `StandardLinkImpl::turn_off`: `cancel_actions()` fails every live action crossing the link -/
def linkOff (s : St) (l : Nat) : St :=
  if ¬ s.linkOn l then s else
  let s := { s with linkOn := upd s.linkOn l false }
  (List.range s.nActs).foldl (fun s k =>
    if (s.acts k).kind = .comm ∧ l ∈ (s.acts k).links then failAction s k else s) s

def linkOnEv (s : St) (l : Nat) : St := { s with linkOn := upd s.linkOn l true }

/-- `false`: `CommImpl::start` as it is in /repo now (fix commit fcd7d0e96a: the comm fails with SRC/DST_HOST_FAILURE);
`true`: the code before the fix (`xbt_assert(from_->is_on()); xbt_assert(to_->is_on());` aborted the simulation). -/
def startAsserts : Bool := false

/-- `CommImpl::start` -/
def commStart (s : St) (k : Nat) : St :=
  let c := s.acts k
  if c.state ≠ .ready then s else
  -- from_ = from_ != nullptr ? from_ : src_actor_->get_host();  (a null actor would be dereferenced: crash)
  let fromO := match c.from_, c.src with | some h, _ => some h | none, some a => some (s.actors a).host | none, none => none
  let toO := match c.to_, c.dst with | some h, _ => some h | none, some a => some (s.actors a).host | none, none => none
  match fromO, toO with
  | none, _ => s.crash
  | _, none => s.crash
  | some fromH, some toH =>
  -- xbt_assert(from_->is_on()); xbt_assert(to_->is_on());
  if ¬ s.hostOn fromH ∨ ¬ s.hostOn toH then
    (if startAsserts then s.crash
     else
       let st : AState := if s.hostOn fromH then .dstHostFailure else .srcHostFailure
       finishComm (s.setAct k (fun x => { x with from_ := some fromH, to_ := some toH, state := st })) k)
  else
  let r := s.route fromH toH
  let failed := r.any (fun l => ! s.linkOn l)
  let s := s.setAct k (fun x => { x with from_ := some fromH, to_ := some toH, links := r, state := .running,
                                          action := some (if failed then .failed else .started) })
  if failed then finishComm (s.setAct k (fun x => { x with state := .linkFailure })) k else s

/-- `MailboxImpl::find_matching_comm` without filters: first queued comm of the other type -/
def findMatching (s : St) (m : Nat) (wantSend : Bool) : Option Nat :=
  (s.mboxq m).find? (fun j => if wantSend then (s.acts j).src.isSome else (s.acts j).dst.isSome)

/-- `CommImpl::isend`; returns the comm's id -/
def isend (s : St) (a : Nat) (m : Nat) (detached : Bool) : St × Nat :=
  let (s, k) := match findMatching s m false with
    | none =>
      let k := s.nActs
      ({ s with nActs := k + 1, acts := upd s.acts k { kind := .comm, state := .waiting, mbox := some m },
                mboxq := upd s.mboxq m (s.mboxq m ++ [k]) }, k)
    | some k => ((mboxRemove s k).setAct k (fun x => { x with state := .ready }), k)
  let s := if detached then { s.setAct k (fun x => { x with detached := true }) with maestro := s.maestro ++ [k] }
           else s.setActor a (fun x => { x with activities := insertAct x.activities k })
  let s := s.setAct k (fun x => { x with src := some a })
  (commStart s k, k)

/-- `CommImpl::irecv` (non-permanent mailboxes) -/
def irecv (s : St) (a : Nat) (m : Nat) : St × Nat :=
  let (s, k) := match findMatching s m true with
    | none =>
      let k := s.nActs
      ({ s with nActs := k + 1, acts := upd s.acts k { kind := .comm, state := .waiting, mbox := some m },
                mboxq := upd s.mboxq m (s.mboxq m ++ [k]) }, k)
    | some k => ((mboxRemove s k).setAct k (fun x => { x with state := .ready }), k)
  let s := s.setActor a (fun x => { x with activities := insertAct x.activities k })
  let s := s.setAct k (fun x => { x with dst := some a })
  (commStart s k, k)

/-- `Comm::sendto_async(from, to)`: a detached host-to-host comm (in maestro's list, hosts_ = {from, to}) -/
def sendto (s : St) (hf ht : Nat) : St × Nat :=
  let k := s.nActs
  let s := { s with nActs := k + 1,
                    acts := upd s.acts k { kind := .comm, state := .ready, from_ := some hf, to_ := some ht,
                                           hosts := [hf, ht], detached := true },
                    maestro := s.maestro ++ [k] }
  (commStart s k, k)

/-- `ExecImpl::start` on host h by actor a (`CpuCas01::execution_start` creates a FAILED action on an off cpu) -/
def execStart (s : St) (a : Nat) (h : Nat) : St × Nat :=
  let k := s.nActs
  let on := s.hostOn h
  let s := { s with nActs := k + 1,
                    acts := upd s.acts k { kind := .exec, state := .running, hosts := [h], owner := some a,
                                           action := some (if on then .started else .failed) },
                    failedQ := if on then s.failedQ else s.failedQ ++ [k] }
  (s.setActor a (fun x => { x with activities := insertAct x.activities k }), k)

/-- `ExecImpl::start` of a parallel execution (`Exec::set_hosts`: `hosts_` = the whole list, in the order given) under the
ptask_L07 host model: `host_model->execute_parallel(get_hosts(), …)` = `new L07Action` (no bytes: the action's variable is
expanded on the cpu constraint of EVERY host of the list, so `cancel_actions` of any of them fails it:
`cpuCancelActions`).  The constructor does not look at `is_on()`: on an off host the action starts like any other and is
failed by the "none of the model has failed" test of `HostL07Model::update_actions_state` at the next date — an event
whose date the model does not predict (`complete`, after which `finishExec` sees the off host: FAILED).  Under that
host model a one-host execution (`CpuL07::execution_start`) is the same action with a one-element list. -/
def pexecStart (s : St) (a : Nat) (hs : List Nat) : St × Nat :=
  let k := s.nActs
  let s := { s with nActs := k + 1,
                    acts := upd s.acts k { kind := .exec, state := .running, hosts := hs, owner := some a,
                                           action := some .started } }
  (s.setActor a (fun x => { x with activities := insertAct x.activities k }), k)

/-- `ActorImpl::sleep` (the issuer's host is on, or the issuer would be dead) -/
def sleepStart (s : St) (a : Nat) : St × Nat :=
  let k := s.nActs
  let h := (s.actors a).host
  let on := s.hostOn h
  ({ s with nActs := k + 1,
            acts := upd s.acts k { kind := .sleep, state := .running, hosts := [h],
                                   action := some (if on then .started else .failed) },
            failedQ := if on then s.failedQ else s.failedQ ++ [k] }, k)

def terminal (st : AState) : Bool := st ≠ .waiting ∧ st ≠ .running

/-- `ActivityImpl::register_simcall` -/
def register (s : St) (a : Nat) (k : Nat) : St :=
  (s.setAct k (fun x => { x with simcalls := x.simcalls ++ [a] })).setActor a
    (fun x => { x with waiting := x.waiting ++ [k] })

/-- `ActivityImpl::wait_for` without timeout -/
def waitOn (s : St) (a : Nat) (k : Nat) : St :=
  let s := s.setActor a (fun x => { x with blocked := true, wlist := [k] })
  let s := register s a k
  if terminal (s.acts k).state then finish s k else s

def waitAnyLoop (a : Nat) : List Nat → St → St
  | [], s => s
  | k :: ks, s =>
    let s := register s a k
    if terminal (s.acts k).state then finish s k else waitAnyLoop a ks s

/-- `ActivityImpl::wait_any_for` without timeout -/
def waitAny (s : St) (a : Nat) (ks : List Nat) : St :=
  waitAnyLoop a ks (s.setActor a (fun x => { x with blocked := true, wlist := ks }))

/-- `ActivityImpl::test`: returns the new state and the result -/
def test (s : St) (k : Nat) : St × Bool :=
  if terminal (s.acts k).state then (finish s k, true) else (s, false)

/-- a simcall issued by a dying actor is dropped (`ActorImpl::simcall_handle`: `if (wannadie()) return;`) -/
def alive (s : St) (a : Nat) : Bool := ! (s.actors a).wannadie

/-- the action of activity k reaches its end (`extract_done_action` + `finish`) -/
def complete (s : St) (k : Nat) : St :=
  if (s.acts k).action = some .started then finish (s.setAct k (fun x => { x with action := some .finished })) k
  else s

/-- the actor's function returned: `cleanup_from_self` (on_exit(failed = wannadie)) in the actor's context, then — since
commit 6040f7fd8e by maestro, in `cleanup_from_kernel()`, called by `run_all_actors()` right after the actors of the
sub-round ran and before any simcall of that sub-round is handled — the cancellation of the leftover `activities_`, in
creation order.  Nothing that touches kernel state can happen between the two (the other actors of the sub-round only
run user code up to their next simcall), so the two halves stay one atomic event of the model. -/
def actorEnd (s : St) (a : Nat) : St :=
  let s := s.emit (.exit a (s.actors a).wannadie)
  let s := (s.actors a).activities.foldl cancel s
  s.setActor a (fun x => { x with ended := true, activities := [], wannadie := true })

/-- `EngineImpl::handle_ended_actions`, failed actions: `while (auto* action = model->extract_failed_action())
activity->finish()`; `extract_failed_action` pops the front of the failed action set before `finish` runs (which then
destroys the action: `clean_action`). -/
def handleEnded : Nat → St → St
  | 0, s => s
  | n + 1, s =>
    match s.failedQ with
    | [] => s
    | k :: rest => handleEnded n (finish { s with failedQ := rest } k)

/-- `handle_ended_actions` run until the failed action set is empty: every `finish` takes its activity out of the set
(`clean_action`), so `failedQ.length` iterations are enough; `nActs + 1` is kept as a lower bound (the bound used
before; the two agree on every state met so far: the set has no duplicate and only holds existing activities). -/
def handleEndedAll (s : St) : St := handleEnded (max (s.nActs + 1) s.failedQ.length) s

/-- the events of the transition system -/
inductive Ev where
  | isendWait (a m : Nat)            -- blocking put: isend + wait_for in one simcall
  | irecvWait (a m : Nat)            -- blocking get
  | isend (a m : Nat) (detached : Bool)
  | irecv (a m : Nat)
  | sendto (a hf ht : Nat)           -- Comm::sendto_async (start only)
  | execStart (a h : Nat)
  | pexecStart (a : Nat) (hs : List Nat)   -- parallel execution on a host list (ptask_L07), start only
  | sleep (a : Nat)                  -- sleep_for: start + wait
  | wait (a k : Nat)
  | waitAny (a : Nat) (ks : List Nat)
  | test (a k : Nat)
  | hostOff (h : Nat) | hostOn (h : Nat) | linkOff (l : Nat) | linkOn (l : Nat)
  | complete (k : Nat)
  | actorEnd (a : Nat)
  | handleEnded
  deriving Repr

def step (s : St) (e : Ev) : St :=
  if s.crashed then s else
  match e with
  | .isendWait a m => if alive s a then let (s, k) := isend s a m false; waitOn s a k else s
  | .irecvWait a m => if alive s a then let (s, k) := irecv s a m; waitOn s a k else s
  | .isend a m d => if alive s a then (isend s a m d).1 else s
  | .irecv a m => if alive s a then (irecv s a m).1 else s
  | .sendto a hf ht => if alive s a then (sendto s hf ht).1 else s
  | .execStart a h => if alive s a then (execStart s a h).1 else s
  | .pexecStart a hs => if alive s a then (pexecStart s a hs).1 else s
  | .sleep a => if alive s a then let (s, k) := sleepStart s a; waitOn s a k else s
  | .wait a k => if alive s a then waitOn s a k else s
  | .waitAny a ks => if alive s a then waitAny s a ks else s
  | .test a k => if alive s a then (test s k).1 else s
  | .hostOff h => hostOff s h
  | .hostOn h => hostOnEv s h
  | .linkOff l => linkOff s l
  | .linkOn l => linkOnEv s l
  | .complete k => complete s k
  | .actorEnd a => actorEnd s a
  | .handleEnded => handleEndedAll s

def run (s : St) (es : List Ev) : St := es.foldl step s

/-- initial state: all resources on, actors placed on their hosts -/
def init (hostsOf : List Nat) (route : Nat → Nat → List Nat) : St :=
  { route := route, nActors := hostsOf.length, actors := fun i => { host := hostsOf.getD i 0 } }

/-! ### the specification side -/

/-- spec table: the exception a surviving waiter of a failed activity must get -/
def specExc : Kind → Exc
  | .comm => .net       -- peer's host failed, or a link of the route failed: NetworkFailureException
  | .exec => .host      -- the host running the execution failed: HostFailureException
  | .sleep => .host     -- (never delivered: only the sleeping actor waits on its sleep, and it dies)

/-- an activity that can still produce a completion event: unmatched (a peer may still arrive), or running with a
live action, or its action is in the failed set waiting for `handle_ended_actions` -/
def Live (s : St) (k : Nat) : Prop :=
  (s.acts k).state = .waiting ∨ ((s.acts k).state = .running ∧ (s.acts k).action = some .started) ∨ k ∈ s.failedQ

end SgVerif.C10
