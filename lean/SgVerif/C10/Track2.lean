import SgVerif.C10.Track
/-
C10 helper lemmas, part 7: the tracked issuer through `finish`, `ActorImpl::exit`, `kill`, the loops of
`HostImpl::turn_off` and `handle_ended_actions`.
-/
set_option linter.unusedSimpArgs false
set_option linter.unusedVariables false
namespace SgVerif.C10

theorem simp_emit (a : Nat) (t : St) (o : Obs) : Simp a t (t.emit o) :=
  ⟨ext_emit t o, rfl, fun _ => rfl, fun _ => StatLe.refl _, fun _ h => h⟩

theorem ext_finish (t : St) (k : Nat) : Ext t (finish t k) := (finish_ok t k).ext
theorem ext_cancel (t : St) (k : Nat) : Ext t (cancel t k) := (simp_cancel 0 t k).ext

/-- `finish` on an activity that is hit answers every answerable registered issuer with the failure kind of the spec table -/
theorem finish_hit (t : St) (k : Nat) (h : Hit t k) (a : Nat) (ha : Answerable t a) (hm : a ∈ (t.acts k).simcalls) :
    (finish t k).crashed = true ∨ newIn t (finish t k) (.answer a (.exc (specExc (t.acts k).kind)) k) := by
  unfold finish
  cases hk : (t.acts k).kind with
  | comm =>
    simp only []
    exact finishComm_hit t k (hit_comm_netclass t k hk h) a ha hm
  | exec =>
    simp only []
    unfold Hit at h
    rcases h with ⟨hk', _⟩ | ⟨_, hn, h', hh, hoff⟩
    · rw [hk] at hk'; cases hk'
    · exact finishExec_hit t k (Or.inl ⟨hn, List.any_eq_true.mpr ⟨h', hh, by simp [hoff]⟩⟩) a ha hm
  | sleep =>
    unfold Hit at h
    rcases h with ⟨hk', _⟩ | ⟨hk', _⟩ <;> (rw [hk] at hk'; cases hk')

theorem finish_fq_cases (t : St) (k0 : Nat) :
    (finish t k0).failedQ = t.failedQ.filter (· ≠ k0) ∨ (finish t k0).failedQ = t.failedQ := by
  by_cases h : (t.acts k0).action ≠ none
  · exact Or.inl (finish_fq t k0 h)
  · have h' : (t.acts k0).action = none := by simpa using h
    unfold finish
    split
    · left; rw [finishComm_eq, loop_fq (commOK_any k0), commPre_fq]
    · right
      rw [finishExec_eq, loop_fq (execOK_any k0)]
      unfold execPre; simp [St.setAct, St.emit, h']
    · right; rw [finishSleep_none t k0 h']; rfl

theorem res_finish {a k : Nat} {r : Ans} (t : St) (k0 : Nat) (p : PendS t a k r) : Res t (finish t k0) a k r := by
  have f := finish_ok t k0
  by_cases hk : k0 = k
  · subst hk
    rcases finish_hit t k0 p.hit a p.ans p.reg with h | h
    · exact Or.inl h
    · rw [p.spec]; exact Or.inr (Or.inl h)
  · by_cases hm : a ∈ (t.acts k0).simcalls
    · rcases f.hit a p.ans hm with h | ⟨r', h⟩
      · exact Or.inl h
      · exact Or.inr (Or.inr (Or.inl ⟨k0, r', hk, h⟩))
    · obtain ⟨m1, m2⟩ := f.miss a hm
      have hst : StatLe (t.acts k) ((finish t k0).acts k) := StatLe.of_eq (f.stat k (Ne.symm hk))
      refine Or.inr (Or.inr (Or.inr ⟨?_, m2 k (Ne.symm hk) p.reg, hit_mono hst f.ext.hostOn p.hit, ?_, ?_⟩))
      · rw [answerable_iff_core, m1, ← answerable_iff_core]; exact p.ans
      · rcases finish_fq_cases t k0 with e | e
        · rw [e]; exact List.mem_filter.mpr ⟨p.inq, by simpa using Ne.symm hk⟩
        · rw [e]; exact p.inq
      · rw [hst.1]; exact p.spec

/-! chaining -/
theorem res_simp_then {a k : Nat} {r : Ans} {t t1 t2 : St} (h1 : Simp a t t1) (e2 : Ext t1 t2)
    (h2 : PendS t1 a k r → Res t1 t2 a k r) (p : PendS t a k r) : Res t t2 a k r :=
  res_trans h1.ext e2 (res_of_simp h1 p) h2

theorem res_then_simp {a k : Nat} {r : Ans} {t t1 t2 : St} (e1 : Ext t t1) (h1 : Res t t1 a k r) (h2 : Simp a t1 t2) :
    Res t t2 a k r :=
  res_trans e1 h2.ext h1 (res_of_simp h2)

/-! `ActorImpl::exit` of actor `b ≠ a` -/
theorem ext_exitWaiting (b : Nat) (t : St) (k0 : Nat) : Ext t (exitWaiting b t k0) := by
  unfold exitWaiting
  exact (((ext_cancel t k0).trans (ext_setAct _ _ _)).trans (ext_finish _ _)).trans (ext_setActor _ _ _)

theorem res_exitWaiting {a k : Nat} {r : Ans} (b : Nat) (t : St) (k0 : Nat) (p : PendS t a k r) :
    Res t (exitWaiting b t k0) a k r := by
  unfold exitWaiting
  simp only []
  have s1 : Simp a t ((cancel t k0).setAct k0 (fun x => { x with state := .failed })) :=
    (simp_cancel a t k0).trans (simp_setAct_state a _ k0 _)
  refine res_then_simp (s1.ext.trans (ext_finish _ _)) ?_
    (simp_setActor_frame a _ b (fun x => { x with activities := x.activities.erase k0 }) (fun x => ⟨rfl, rfl, rfl⟩))
  exact res_simp_then s1 (ext_finish _ _) (res_finish _ k0) p

theorem ext_exitLoop (b : Nat) (n : Nat) : ∀ t, Ext t (exitLoop b n t) := by
  induction n with
  | zero => intro t; exact Ext.refl t
  | succ n ih =>
    intro t
    unfold exitLoop
    split
    · exact Ext.refl t
    · exact ((ext_setActor t b _).trans (ext_exitWaiting b _ _)).trans (ih _)

theorem res_exitLoop {a k : Nat} {r : Ans} (b : Nat) (n : Nat) : ∀ t, PendS t a k r → Res t (exitLoop b n t) a k r := by
  induction n with
  | zero => intro t p; exact Or.inr (Or.inr (Or.inr p))
  | succ n ih =>
    intro t p
    unfold exitLoop
    split
    · exact Or.inr (Or.inr (Or.inr p))
    · rename_i k0 _
      have s1 : Simp a t (t.setActor b (fun x => { x with waiting := x.waiting.dropLast })) :=
        simp_setActor_frame a t b _ (fun x => ⟨rfl, rfl, rfl⟩)
      have r1 : Res t (exitWaiting b (t.setActor b (fun x => { x with waiting := x.waiting.dropLast })) k0) a k r :=
        res_simp_then s1 (ext_exitWaiting b _ k0) (res_exitWaiting b _ k0) p
      exact res_trans (s1.ext.trans (ext_exitWaiting b _ k0)) (ext_exitLoop b n _) r1 (ih _)

theorem ext_foldl {α : Type} (f : St → α → St) (hf : ∀ t x, Ext t (f t x)) (l : List α) : ∀ t, Ext t (l.foldl f t) := by
  induction l with
  | nil => intro t; exact Ext.refl t
  | cons x xs ih => intro t; exact (hf t x).trans (ih _)

theorem ext_actorExit (t : St) (b : Nat) : Ext t (actorExit t b) := by
  unfold actorExit
  exact ((((ext_setActor t b _).trans (ext_exitLoop b _ _)).trans (ext_foldl cancel ext_cancel _ _)).trans
    (ext_setActor _ _ _)).trans (ext_emit _ _)

theorem res_actorExit {a k : Nat} {r : Ans} (t : St) (b : Nat) (hb : b ≠ a) (p : PendS t a k r) :
    Res t (actorExit t b) a k r := by
  unfold actorExit
  simp only []
  have s1 : Simp a t (t.setActor b (fun x => { x with wannadie := true })) := simp_setActor_ne a t b _ hb
  -- the loop over waiting_synchros_
  have r2 := res_simp_then s1 (ext_exitLoop b (((t.setActor b (fun x => { x with wannadie := true })).actors b).waiting.length) _)
    (res_exitLoop b _ _) p
  have e2 := s1.ext.trans (ext_exitLoop b (((t.setActor b (fun x => { x with wannadie := true })).actors b).waiting.length) _)
  -- the rest neither answers nor unregisters
  refine res_then_simp e2 r2 ?_
  exact ((simp_foldl a cancel (simp_cancel a) _ _).trans (simp_setActor_ne a _ b _ hb)).trans (simp_emit a _ _)

theorem ext_kill (t : St) (b : Nat) : Ext t (kill t b) := by
  unfold kill; split
  · exact Ext.refl t
  · exact ext_actorExit t b

theorem res_kill {a k : Nat} {r : Ans} (t : St) (b : Nat) (hb : b ≠ a) (p : PendS t a k r) : Res t (kill t b) a k r := by
  unfold kill; split
  · exact Or.inr (Or.inr (Or.inr p))
  · exact res_actorExit t b hb p

/-- a fold of functions each of which keeps the tracked situation (under a side condition that `Ext` preserves) -/
theorem res_foldl {α : Type} {a k : Nat} {r : Ans} (f : St → α → St) (I : St → Prop)
    (hext : ∀ t x, Ext t (f t x)) (hI : ∀ t t', Ext t t' → I t → I t')
    (hres : ∀ t x, I t → PendS t a k r → Res t (f t x) a k r) (l : List α) :
    ∀ t, I t → PendS t a k r → Res t (l.foldl f t) a k r := by
  induction l with
  | nil => intro t _ p; exact Or.inr (Or.inr (Or.inr p))
  | cons x xs ih =>
    intro t hi p
    simp only [List.foldl_cons]
    exact res_trans (hext t x) (ext_foldl f hext xs _) (hres t x hi p) (ih _ (hI _ _ (hext t x) hi))

/-- the kill loop of `HostImpl::turn_off(h)` while `h` is off: the tracked issuer is answerable, hence not on `h` -/
def killOn (h : Nat) (s : St) (b : Nat) : St := if (s.actors b).host = h ∧ ¬ (s.actors b).ended then kill s b else s

theorem ext_killOn (h : Nat) (t : St) (b : Nat) : Ext t (killOn h t b) := by
  unfold killOn; split
  · exact ext_kill t b
  · exact Ext.refl t

theorem res_killOn {a k : Nat} {r : Ans} (h : Nat) (t : St) (b : Nat) (hoff : t.hostOn h = false) (p : PendS t a k r) :
    Res t (killOn h t b) a k r := by
  unfold killOn; split
  · rename_i hc
    refine res_kill t b ?_ p
    intro e
    subst e
    have := p.ans.2.1
    rw [hc.1, hoff] at this
    cases this
  · exact Or.inr (Or.inr (Or.inr p))

/-! `handle_ended_actions` -/
theorem ext_pop (t : St) (rest : List Nat) : Ext t ({ t with failedQ := rest } : St) := ⟨List.prefix_refl _, id, rfl⟩

theorem ext_handleEnded (n : Nat) : ∀ t, Ext t (handleEnded n t) := by
  induction n with
  | zero => intro t; exact Ext.refl t
  | succ n ih =>
    intro t
    unfold handleEnded
    split
    · exact Ext.refl t
    · exact ((ext_pop t _).trans (ext_finish _ _)).trans (ih _)

/-- the final outcome: answered (by `k` with `r`, or by another activity of its wait_any) or an assertion fired -/
def DoneR (t t' : St) (a k : Nat) (r : Ans) : Prop :=
  t'.crashed = true ∨ newIn t t' (.answer a r k) ∨ (∃ k' r', k' ≠ k ∧ newIn t t' (.answer a r' k'))

theorem filter_ne_length_le (l : List Nat) (k : Nat) : (l.filter (· ≠ k)).length ≤ l.length := List.length_filter_le _ _

theorem done_handleEnded {a k : Nat} {r : Ans} (n : Nat) :
    ∀ t, PendS t a k r → t.failedQ.length ≤ n → DoneR t (handleEnded n t) a k r := by
  induction n with
  | zero =>
    intro t p hl
    have : t.failedQ = [] := List.eq_nil_of_length_eq_zero (by omega)
    have := p.inq
    simp_all
  | succ n ih =>
    intro t p hl
    unfold handleEnded
    cases hq : t.failedQ with
    | nil => have := p.inq; simp_all
    | cons k0 rest =>
      simp only []
      -- `extract_failed_action`: the head leaves the set, then `finish` runs on it
      have hfq : (finish ({ t with failedQ := rest } : St) k0).failedQ.length ≤ n := by
        have hr : rest.length ≤ n := by simp only [hq, List.length_cons] at hl; omega
        rcases finish_fq_cases ({ t with failedQ := rest } : St) k0 with e | e
        · rw [e]
          have := filter_ne_length_le rest k0
          simp only [ne_eq, decide_not] at this ⊢
          omega
        · rw [e]; exact hr
      have e0 : Ext t ({ t with failedQ := rest } : St) := ext_pop t rest
      have hres : Res ({ t with failedQ := rest } : St) (finish ({ t with failedQ := rest } : St) k0) a k r := by
        by_cases hk : k0 = k
        · subst hk
          rcases finish_hit ({ t with failedQ := rest } : St) k0 p.hit a p.ans p.reg with h | h
          · exact Or.inl h
          · rw [p.spec]; exact Or.inr (Or.inl h)
        · have hin : k ∈ rest := by
            have := p.inq
            rw [hq] at this
            rcases List.mem_cons.mp this with e | e
            · exact absurd e.symm hk
            · exact e
          exact res_finish _ k0 ⟨p.ans, p.reg, p.hit, hin, p.spec⟩
      rcases hres with h | h | ⟨k', r', hk, h⟩ | h
      · exact Or.inl ((ext_handleEnded n _).crashed h)
      · exact Or.inr (Or.inl (newIn_of_ext_right _ (ext_handleEnded n _) h))
      · exact Or.inr (Or.inr ⟨k', r', hk, newIn_of_ext_right _ (ext_handleEnded n _) h⟩)
      · rcases ih _ h hfq with h' | h' | ⟨k', r', hk, h'⟩
        · exact Or.inl h'
        · exact Or.inr (Or.inl (newIn_of_ext_left _ (e0.trans (ext_finish _ k0)) h'))
        · exact Or.inr (Or.inr ⟨k', r', hk, newIn_of_ext_left _ (e0.trans (ext_finish _ k0)) h'⟩)

theorem done_of_res {a k : Nat} {r : Ans} {t t1 : St} (n : Nat) (e1 : Ext t t1) (h1 : Res t t1 a k r)
    (hl : t1.failedQ.length ≤ n) : DoneR t (handleEnded n t1) a k r := by
  rcases h1 with h | h | ⟨k', r', hk, h⟩ | h
  · exact Or.inl ((ext_handleEnded n _).crashed h)
  · exact Or.inr (Or.inl (newIn_of_ext_right _ (ext_handleEnded n _) h))
  · exact Or.inr (Or.inr ⟨k', r', hk, newIn_of_ext_right _ (ext_handleEnded n _) h⟩)
  · rcases done_handleEnded n t1 h hl with h' | h' | ⟨k', r', hk, h'⟩
    · exact Or.inl h'
    · exact Or.inr (Or.inl (newIn_of_ext_left _ e1 h'))
    · exact Or.inr (Or.inr ⟨k', r', hk, newIn_of_ext_left _ e1 h'⟩)

end SgVerif.C10
