import SgVerif.C10.Finish3
/-
C10 helper lemmas: `finish` never writes the `wannadie` flag of ANY actor.
`ActivityImpl::unregister_first_simcall` no longer calls `issuer->set_wannadie()` on an issuer whose host is off (it only
declines to answer it), so the only writers of the flag are `ActorImpl::exit` (through `kill`) and the actor's own end.
This is what lets `HostImpl::turn_off` reach every live actor of the host: none of them can have been marked dying by the
`finish` of a co-hosted actor's synchro before its turn comes in the kill loop.
-/
set_option linter.unusedSimpArgs false
set_option linter.unusedVariables false
namespace SgVerif.C10

/-- the `wannadie` flags of two states agree, for every actor -/
def WdEq (t t' : St) : Prop := ∀ b, (t'.actors b).wannadie = (t.actors b).wannadie

theorem WdEq.refl (t : St) : WdEq t t := fun _ => rfl
theorem WdEq.trans {a b c : St} (h1 : WdEq a b) (h2 : WdEq b c) : WdEq a c := fun x => (h2 x).trans (h1 x)

/-- `unregister_first_simcall`, second half: the issuer is answered or not, nobody is marked -/
theorem wdEq_answerTarget (t : St) (a : Nat) : WdEq t (answerTarget t a).1 := by
  intro b
  unfold answerTarget markDying
  (repeat' split) <;> simp_all [unregisterMarksDying]

theorem wdEq_unregisterAll (t : St) (x : Nat) : WdEq t (unregisterAll t x) := fun b => unregisterAll_wd t x b

theorem wdEq_deliver (t : St) (a : Nat) (r : Ans) (k : Nat) : WdEq t (deliver t a r k) := by
  intro b
  by_cases hb : b = a
  · subst hb; simp [deliver, St.emit, St.setActor]
  · simp [deliver, St.emit, St.setActor, upd, hb]

theorem wdEq_crash (t : St) : WdEq t t.crash := fun _ => rfl

theorem wdEq_setActor (t : St) (c : Nat) (f : Actor → Actor) (hf : ∀ x, (f x).wannadie = x.wannadie) :
    WdEq t (t.setActor c f) := by
  intro b
  by_cases hb : b = c
  · subst hb; simp [St.setActor, hf]
  · simp [St.setActor, upd, hb]

theorem wdEq_setAct (t : St) (k : Nat) (f : Activity → Activity) : WdEq t (t.setAct k f) := fun _ => rfl

theorem wdEq_eraseActivity (t : St) (a : Option Nat) (k : Nat) : WdEq t (eraseActivity t a k) := by
  unfold eraseActivity
  split
  · exact WdEq.refl t
  · exact wdEq_setActor t _ _ (fun _ => rfl)

theorem wdEq_detachTail (v : St) (c : Activity) (a k : Nat) :
    WdEq v (if c.detached then
        let s := if c.dst ≠ some a then eraseActivity v c.dst k else v
        if c.src ≠ some a then eraseActivity s c.src k else s
      else v) := by
  simp only []
  (repeat' split) <;>
    first
      | exact WdEq.refl _
      | exact wdEq_eraseActivity _ _ _
      | exact (wdEq_eraseActivity _ _ _).trans (wdEq_eraseActivity _ _ _)

theorem wdEq_commAfter (k : Nat) (t : St) (x : Nat) : WdEq t (commAfter k t x) := by
  have h1 : WdEq t (t.setActor x (fun y => { y with activities := y.activities.erase k })) :=
    wdEq_setActor t x _ (fun _ => rfl)
  unfold commAfter
  simp only []
  refine h1.trans ?_
  generalize t.setActor x (fun y => { y with activities := y.activities.erase k }) = u
  have h2 : WdEq u (match (u.acts k).state with
      | .failed => deliver u x (.exc .net) k
      | .srcHostFailure =>
        if (u.acts k).src = some x then u.crash
        else deliver (u.setAct k (fun y => { y with state := .failed })) x (.exc .net) k
      | .dstHostFailure =>
        if (u.acts k).dst = some x then u.crash
        else deliver (u.setAct k (fun y => { y with state := .failed })) x (.exc .net) k
      | .linkFailure => deliver (u.setAct k (fun y => { y with state := .failed })) x (.exc .net) k
      | .canceled => deliver u x (.exc .cancel) k
      | .done => deliver u x .ok k
      | _ => u.crash) := by
    (repeat' split) <;>
      first
        | exact wdEq_deliver _ _ _ _
        | exact wdEq_crash _
        | exact (wdEq_setAct u k _).trans (wdEq_deliver _ _ _ _)
  exact h2.trans (wdEq_detachTail _ (u.acts k) x k)

theorem wdEq_execAfter (k : Nat) (t : St) (x : Nat) : WdEq t (execAfter k t x) := by
  intro b
  by_cases hb : b = x
  · subst hb
    unfold execAfter
    simp only []
    split <;> simp [St.setActor, St.emit, St.crash, deliver]
  · exact execAfter_wd k t x b hb

theorem wdEq_answerOneG (after : St → Nat → St) (ha : ∀ t x, WdEq t (after t x)) (t : St) (x : Nat) :
    WdEq t (answerOneG after t x) := by
  have h0 : WdEq t (answerTarget (unregisterAll t x) x).1 := (wdEq_unregisterAll t x).trans (wdEq_answerTarget _ x)
  unfold answerOneG
  simp only []
  split
  · exact h0.trans (ha _ x)
  · exact h0

theorem wdEq_loop (after : St → Nat → St) (ha : ∀ t x, WdEq t (after t x)) (l : List Nat) :
    ∀ t, WdEq t (l.foldl (answerOneG after) t) := by
  induction l with
  | nil => intro t; exact WdEq.refl t
  | cons x xs ih => intro t; exact (wdEq_answerOneG after ha t x).trans (ih _)

theorem wdEq_of_pre {t p : St} {k : Nat} (h : PreOK t p k) : WdEq t p := by
  intro b
  have := h.core b
  simp only [coreOf, Prod.mk.injEq] at this
  exact this.2.2

theorem wdEq_finishComm (t : St) (k : Nat) : WdEq t (finishComm t k) := by
  rw [finishComm_eq]
  exact (wdEq_of_pre (commPre_ok t k)).trans (wdEq_loop _ (wdEq_commAfter k) _ _)

theorem wdEq_finishExec (t : St) (k : Nat) : WdEq t (finishExec t k) := by
  rw [finishExec_eq]
  exact (wdEq_of_pre (execPre_ok t k)).trans (wdEq_loop _ (wdEq_execAfter k) _ _)

theorem wdEq_finishSleep (t : St) (k : Nat) : WdEq t (finishSleep t k) := by
  cases hac : (t.acts k).action with
  | none => rw [finishSleep_none t k hac]; exact wdEq_crash t
  | some ac =>
    rw [finishSleep_eq t k ac hac]
    exact (wdEq_of_pre (sleepPre_ok t k ac)).trans (wdEq_loop _ (fun t x => wdEq_deliver t x .ok k) _ _)

/-- **`finish` leaves every actor's `wannadie` flag alone** (no side condition on who is registered on the activity) -/
theorem wdEq_finish (t : St) (k : Nat) : WdEq t (finish t k) := by
  unfold finish
  split
  · exact wdEq_finishComm t k
  · exact wdEq_finishExec t k
  · exact wdEq_finishSleep t k

end SgVerif.C10
