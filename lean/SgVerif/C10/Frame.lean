import SgVerif.C10.Lemmas
/-
C10 helper lemmas, part 2: frame properties of every kernel function of the model, used by the run-level theorems.
`Ext t t'`  : `t'` extends `t` (observations only appended, a crash is never undone, on/off state of hosts untouched).
`statOf`    : the fields of an activity that only `start`/`cancel`/`finish` of that very activity may change.
-/
set_option linter.unusedSimpArgs false
set_option linter.unusedVariables false
namespace SgVerif.C10

/-- `t'` extends `t` -/
structure Ext (t t' : St) : Prop where
  obs : t.obs <+: t'.obs
  crashed : t.crashed = true → t'.crashed = true
  hostOn : t'.hostOn = t.hostOn

theorem Ext.refl (t : St) : Ext t t := ⟨List.prefix_refl _, id, rfl⟩
theorem Ext.trans {a b c : St} (h1 : Ext a b) (h2 : Ext b c) : Ext a c :=
  ⟨h1.obs.trans h2.obs, fun h => h2.crashed (h1.crashed h), by rw [h2.hostOn, h1.hostOn]⟩
theorem Ext.len {t t' : St} (h : Ext t t') : t.obs.length ≤ t'.obs.length := h.obs.length_le

/-- `o` was emitted between `t` and `t'` -/
def newIn (t t' : St) (o : Obs) : Prop := o ∈ t'.obs.drop t.obs.length

theorem mem_drop_mono {α : Type} (l : List α) (n m : Nat) (o : α) (h : n ≤ m) (ho : o ∈ l.drop m) : o ∈ l.drop n := by
  have : l.drop m = (l.drop n).drop (m - n) := by rw [List.drop_drop]; congr 1; omega
  rw [this] at ho
  exact List.mem_of_mem_drop ho

theorem newIn_of_ext_left {t t1 t2 : St} (o : Obs) (h1 : Ext t t1) (h : newIn t1 t2 o) : newIn t t2 o :=
  mem_drop_mono _ _ _ o h1.len h

theorem newIn_of_ext_right {t t1 t2 : St} (o : Obs) (h2 : Ext t1 t2) (h : newIn t t1 o) : newIn t t2 o := by
  obtain ⟨ext, he⟩ := h2.obs
  unfold newIn at *
  rw [← he, List.drop_append_of_le_length]
  · exact List.mem_append_left _ h
  · by_cases hl : t.obs.length ≤ t1.obs.length
    · exact hl
    · exfalso
      rw [List.drop_eq_nil_of_le (by omega)] at h
      cases h

theorem newIn_append (t t' : St) (o : Obs) (l : List Obs) (h : t'.obs = t.obs ++ l) (ho : o ∈ l) : newIn t t' o := by
  unfold newIn; rw [h, List.drop_left]; exact ho

theorem newIn_mem {t t' : St} {o : Obs} (h : newIn t t' o) : o ∈ t'.obs := List.mem_of_mem_drop h

/-! ### `Ext` for every function -/
theorem ext_setAct (t : St) (k : Nat) (f : Activity → Activity) : Ext t (t.setAct k f) := ⟨List.prefix_refl _, id, rfl⟩
theorem ext_setActor (t : St) (a : Nat) (f : Actor → Actor) : Ext t (t.setActor a f) := ⟨List.prefix_refl _, id, rfl⟩
theorem ext_emit (t : St) (o : Obs) : Ext t (t.emit o) := ⟨List.prefix_append _ _, id, rfl⟩
theorem ext_crash (t : St) : Ext t t.crash := ⟨List.prefix_refl _, fun _ => rfl, rfl⟩
theorem ext_eraseActivity (t : St) (o : Option Nat) (k : Nat) : Ext t (eraseActivity t o k) := by
  cases o
  · exact Ext.refl t
  · exact ⟨List.prefix_refl _, id, rfl⟩
theorem ext_failAction (t : St) (k : Nat) : Ext t (failAction t k) := by
  unfold failAction; split
  · exact ⟨List.prefix_refl _, id, rfl⟩
  · exact Ext.refl t
theorem ext_cleanAction (t : St) (k : Nat) : Ext t (cleanAction t k) := ⟨List.prefix_refl _, id, rfl⟩
theorem ext_mboxRemove (t : St) (k : Nat) : Ext t (mboxRemove t k) := by
  unfold mboxRemove; split
  · exact Ext.refl t
  · exact ⟨List.prefix_refl _, id, rfl⟩
theorem ext_unregisterAll (t : St) (a : Nat) : Ext t (unregisterAll t a) := ⟨List.prefix_refl _, id, rfl⟩
theorem ext_markDying (t : St) (a : Nat) : Ext t (markDying t a) := by
  unfold markDying; split
  · exact ext_setActor _ _ _
  · exact Ext.refl t
theorem ext_answerTarget (t : St) (a : Nat) : Ext t (answerTarget t a).1 := by
  unfold answerTarget; (repeat' split)
  · exact Ext.refl t
  · exact ext_markDying t a
  · exact Ext.refl t
  · exact Ext.refl t
theorem ext_deliver (t : St) (a : Nat) (r : Ans) (k : Nat) : Ext t (deliver t a r k) :=
  (ext_setActor t a _).trans (ext_emit _ _)

/-- the issuer-side effect of `CommImpl::finish` for one answered issuer: exactly one answer, or an assertion -/
theorem commAfter_self (k : Nat) (t : St) (a : Nat) :
    (commAfter k t a).crashed = true ∨ ∃ r, (commAfter k t a).obs = t.obs ++ [.answer a r k] := by
  unfold commAfter
  simp only []
  (repeat' split) <;> simp_all [St.setActor, St.setAct, St.emit, St.crash, upd, deliver, eraseActivity] <;>
    (repeat' split) <;> simp_all [St.setActor, St.setAct, St.emit, St.crash, upd, deliver, eraseActivity]

theorem commAfter_self_net (k : Nat) (t : St) (a : Nat) (hk : NetClass (t.acts k).state) :
    (commAfter k t a).crashed = true ∨ (commAfter k t a).obs = t.obs ++ [.answer a (.exc .net) k] := by
  unfold commAfter
  rcases hk with hk | hk | hk | hk <;>
    simp [St.setActor, St.setAct, St.emit, St.crash, upd, deliver, eraseActivity, hk] <;>
    (repeat' split) <;> simp_all [St.setActor, St.setAct, St.emit, St.crash, upd, eraseActivity]

theorem ext_commAfter (k : Nat) (t : St) (a : Nat) : Ext t (commAfter k t a) := by
  refine ⟨?_, commAfter_crashed_mono k t a, ?_⟩
  · unfold commAfter
    simp only []
    (repeat' split) <;> simp_all [St.setActor, St.setAct, St.emit, St.crash, upd, deliver, eraseActivity] <;>
      (repeat' split) <;> simp_all [St.setActor, St.setAct, St.emit, St.crash, upd, deliver, eraseActivity]
  · unfold commAfter
    simp only []
    (repeat' split) <;> simp_all [St.setActor, St.setAct, St.emit, St.crash, upd, deliver, eraseActivity] <;>
      (repeat' split) <;> simp_all [St.setActor, St.setAct, St.emit, St.crash, upd, deliver, eraseActivity]

theorem execAfter_self (k : Nat) (t : St) (a : Nat) :
    (execAfter k t a).crashed = true ∨ ∃ r, (execAfter k t a).obs = t.obs ++ [.answer a r k] := by
  unfold execAfter
  simp only []
  split <;> simp_all [St.setActor, St.emit, St.crash, deliver]

theorem execAfter_self_host (k : Nat) (t : St) (a : Nat) (hk : (t.acts k).state = .failed) :
    (execAfter k t a).obs = t.obs ++ [.answer a (.exc .host) k] := by
  unfold execAfter
  simp [St.setActor, St.setAct, St.emit, St.crash, upd, deliver, hk]

theorem ext_execAfter (k : Nat) (t : St) (a : Nat) : Ext t (execAfter k t a) := by
  unfold execAfter
  simp only []
  split
  · exact (ext_setActor t a _).trans (ext_deliver _ _ _ _)
  · exact (ext_setActor t a _).trans (ext_deliver _ _ _ _)
  · exact (ext_setActor t a _).trans (ext_deliver _ _ _ _)
  · exact (ext_setActor t a _).trans (ext_crash _)

end SgVerif.C10
