import SgVerif.C10.Kill
/-
C10 helper lemmas, part 12: the global invariant `NoLost` — an action marked FAILED always sits in the failed action set
(so that `handle_ended_actions` will call `finish` on its activity) — is preserved by every event of the model.
-/
set_option linter.unusedSimpArgs false
set_option linter.unusedVariables false
namespace SgVerif.C10

/-- no failure report can be lost: every FAILED action is queued for `handle_ended_actions` -/
def NoLost (s : St) : Prop := ∀ k, (s.acts k).action = some .failed → k ∈ s.failedQ
/-- the same for every activity but `k` (which is about to be finished) -/
def NoLostExcept (k : Nat) (s : St) : Prop := ∀ j, j ≠ k → (s.acts j).action = some .failed → j ∈ s.failedQ

theorem NoLost.except {s : St} (h : NoLost s) (k : Nat) : NoLostExcept k s := fun j _ hj => h j hj

/-- same actions, failed set not smaller -/
theorem nl_of_same (t t' : St) (ha : ∀ k, (t'.acts k).action = (t.acts k).action) (hq : ∀ k, k ∈ t.failedQ → k ∈ t'.failedQ)
    (h : NoLost t) : NoLost t' := fun k hk => hq k (h k (by rw [← ha]; exact hk))

theorem nl_setAct (t : St) (k : Nat) (f : Activity → Activity) (hf : ∀ x, (f x).action = x.action) (h : NoLost t) :
    NoLost (t.setAct k f) := by
  refine nl_of_same t (t.setAct k f) (fun j => ?_) (fun _ hj => hj) h
  by_cases hj : j = k
  · subst hj; simp [St.setAct, hf]
  · simp [St.setAct, upd, hj]

theorem nl_setActor (t : St) (a : Nat) (f : Actor → Actor) (h : NoLost t) : NoLost (t.setActor a f) := h
theorem nl_emit (t : St) (o : Obs) (h : NoLost t) : NoLost (t.emit o) := h
theorem nl_crash (t : St) (h : NoLost t) : NoLost t.crash := h
theorem nl_eraseActivity (t : St) (o : Option Nat) (k : Nat) (h : NoLost t) : NoLost (eraseActivity t o k) := by
  cases o with
  | none => exact h
  | some b => exact h

theorem nl_failAction (t : St) (k : Nat) (h : NoLost t) : NoLost (failAction t k) := by
  unfold failAction
  split
  · intro j hj
    by_cases hjk : j = k
    · subst hjk; simp
    · have : (t.acts j).action = some .failed := by simpa [St.setAct, upd, hjk] using hj
      simp [h j this]
  · exact h

theorem nl_mboxRemove (t : St) (k : Nat) (h : NoLost t) : NoLost (mboxRemove t k) := by
  unfold mboxRemove
  split
  · exact h
  · rename_i m _
    refine nl_of_same t ({ t.setAct k (fun x => { x with mbox := none }) with mboxq := upd t.mboxq m ((t.mboxq m).erase k) } : St)
      (fun j => ?_) (fun _ hj => hj) h
    by_cases hj : j = k
    · subst hj; simp [St.setAct]
    · simp [St.setAct, upd, hj]

/-- `clean_action` on `k` repairs the invariant at `k` -/
theorem nl_cleanAction (t : St) (k : Nat) (h : NoLostExcept k t) : NoLost (cleanAction t k) := by
  intro j hj
  by_cases hjk : j = k
  · subst hjk; simp [cleanAction, St.setAct] at hj
  · have : (t.acts j).action = some .failed := by simpa [cleanAction, St.setAct, upd, hjk] using hj
    simp only [cleanAction]
    exact List.mem_filter.mpr ⟨h j hjk this, by simpa using hjk⟩

theorem nl_of_stat (t t' : St) (hs : ∀ j, statOf (t'.acts j) = statOf (t.acts j)) (hq : t'.failedQ = t.failedQ)
    (h : NoLost t) : NoLost t' := by
  refine nl_of_same t t' (fun j => ?_) (fun k hk => by rw [hq]; exact hk) h
  have := hs j
  simp only [statOf, Prod.mk.injEq] at this
  exact this.2.2.2.2

/-! ### finish -/
theorem commPre_action (s : St) (k : Nat) : ((commPre s k).acts k).action = none := by
  unfold commPre
  cases hm : (s.acts k).mbox <;> simp [St.setAct, St.emit, cleanAction, mboxRemove, upd, hm] <;>
    split <;> simp_all [St.setAct, upd]

theorem nl_pre {t p : St} {k : Nat} (hp : PreOK t p k) (hk : (p.acts k).action = none)
    (hq : p.failedQ = t.failedQ.filter (· ≠ k)) (h : NoLostExcept k t) : NoLost p := by
  intro j hj
  by_cases hjk : j = k
  · subst hjk; rw [hk] at hj; cases hj
  · have hs := hp.stat j hjk
    simp only [statOf, Prod.mk.injEq] at hs
    rw [hq]
    exact List.mem_filter.mpr ⟨h j hjk (by rw [← hs.2.2.2.2]; exact hj), by simpa using hjk⟩

theorem nl_finishComm (t : St) (k : Nat) (h : NoLostExcept k t) : NoLost (finishComm t k) := by
  rw [finishComm_eq]
  exact nl_of_stat _ _ (fun j => loop_stat (commOK_any k) _ j _) (loop_fq (commOK_any k) _ _)
    (nl_pre (commPre_ok t k) (commPre_action t k) (commPre_fq t k) h)

theorem nl_finish (t : St) (k : Nat) (h : NoLostExcept k t) : NoLost (finish t k) := by
  unfold finish
  split
  · exact nl_finishComm t k h
  · rw [finishExec_eq]
    refine nl_of_stat _ _ (fun j => loop_stat (execOK_any k) _ j _) (loop_fq (execOK_any k) _ _) ?_
    by_cases hn : (t.acts k).action ≠ none
    · refine nl_pre (execPre_ok t k) ?_ (execPre_fq t k hn) h
      unfold execPre; simp [St.setAct, St.emit, cleanAction, upd, hn]
    · have hn' : (t.acts k).action = none := by simpa using hn
      have hfull : NoLost t := by
        intro j hj
        by_cases hjk : j = k
        · subst hjk; rw [hn'] at hj; cases hj
        · exact h j hjk hj
      have e1 : ∀ j, ((execPre t k).acts j).action = (t.acts j).action := by
        intro j
        unfold execPre
        by_cases hjk : j = k
        · subst hjk; simp [St.setAct, St.emit, hn']
        · simp [St.setAct, St.emit, upd, hjk, hn']
      have e2 : (execPre t k).failedQ = t.failedQ := by unfold execPre; simp [St.setAct, St.emit, hn']
      exact nl_of_same _ _ e1 (fun j hj => by rw [e2]; exact hj) hfull
  · cases hac : (t.acts k).action with
    | none =>
      rw [finishSleep_none t k hac]
      intro j hj
      by_cases hjk : j = k
      · subst hjk; rw [show (t.crash.acts j).action = (t.acts j).action from rfl, hac] at hj; cases hj
      · exact h j hjk hj
    | some ac =>
      rw [finishSleep_eq t k ac hac]
      refine nl_of_stat _ _ (fun j => loop_stat (sleepOK k) _ j _) (loop_fq (sleepOK k) _ _) ?_
      refine nl_pre (sleepPre_ok t k ac) ?_ (sleepPre_fq t k ac) h
      unfold sleepPre; simp [St.setAct, St.emit, cleanAction, upd]

/-! ### cancel, exit, kill, turn_off, handle_ended_actions -/
theorem nl_cancel (t : St) (k : Nat) (h : NoLost t) : NoLost (cancel t k) := by
  unfold cancel
  simp only []
  split
  · apply nl_eraseActivity; apply nl_eraseActivity
    split
    · split
      · exact nl_setAct _ k (fun x => { x with state := .canceled }) (fun _ => rfl) (nl_mboxRemove t k h)
      · exact h
    · split
      · split
        · exact nl_crash t h
        · exact nl_failAction t k h
      · exact h
  · apply nl_eraseActivity
    apply nl_setAct _ k (fun x => { x with state := .canceled }) (fun _ => rfl)
    split
    · exact nl_failAction t k h
    · exact h

theorem nl_foldl {α : Type} (f : St → α → St) (hf : ∀ t x, NoLost t → NoLost (f t x)) (l : List α) :
    ∀ t, NoLost t → NoLost (l.foldl f t) := by
  induction l with
  | nil => intro t h; exact h
  | cons x xs ih => intro t h; exact ih _ (hf t x h)

theorem nl_exitWaiting (b : Nat) (t : St) (k0 : Nat) (h : NoLost t) : NoLost (exitWaiting b t k0) := by
  unfold exitWaiting
  apply nl_setActor
  exact nl_finish _ k0 ((nl_setAct _ k0 (fun x => { x with state := .failed }) (fun _ => rfl) (nl_cancel t k0 h)).except k0)

theorem nl_exitLoop (b : Nat) (n : Nat) : ∀ t, NoLost t → NoLost (exitLoop b n t) := by
  induction n with
  | zero => intro t h; exact h
  | succ n ih =>
    intro t h
    unfold exitLoop
    split
    · exact h
    · exact ih _ (nl_exitWaiting b _ _ (nl_setActor t b _ h))

theorem nl_actorExit (t : St) (b : Nat) (h : NoLost t) : NoLost (actorExit t b) := by
  unfold actorExit
  apply nl_emit; apply nl_setActor
  exact nl_foldl cancel nl_cancel _ _ (nl_exitLoop b _ _ (nl_setActor t b _ h))

theorem nl_kill (t : St) (b : Nat) (h : NoLost t) : NoLost (kill t b) := by
  unfold kill; split
  · exact h
  · exact nl_actorExit t b h

theorem nl_killOn (hh : Nat) (t : St) (b : Nat) (h : NoLost t) : NoLost (killOn hh t b) := by
  unfold killOn; split
  · exact nl_kill t b h
  · exact h

theorem nl_failIf (cond : Activity → Prop) [DecidablePred cond] (t : St) (x : Nat) (h : NoLost t) : NoLost (failIf cond t x) := by
  unfold failIf; split
  · exact nl_failAction t x h
  · exact h

theorem nl_maestroFail (hh : Nat) (t : St) (k : Nat) (h : NoLost t) : NoLost (maestroFail hh t k) := by
  unfold maestroFail; split
  · exact nl_setAct _ k (fun x => { x with state := .failed }) (fun _ => rfl) (nl_cancel t k h)
  · exact h

theorem nl_hostOff (s : St) (hh : Nat) (h : NoLost s) : NoLost (hostOff s hh) := by
  by_cases hon : s.hostOn hh = true
  · rw [hostOff_eq s hh hon]
    unfold maestroPhase killPhase cpuPhase
    apply nl_foldl _ (nl_maestroFail hh)
    apply nl_foldl _ (nl_killOn hh)
    apply nl_foldl _ (nl_failIf _)
    exact h
  · unfold hostOff; simp [hon]; exact h

theorem nl_linkOff (s : St) (l : Nat) (h : NoLost s) : NoLost (linkOff s l) := by
  by_cases hon : s.linkOn l = true
  · rw [linkOff_eq s l hon]
    apply nl_foldl _ (nl_failIf _)
    exact h
  · unfold linkOff; simp [hon]; exact h

theorem nl_handleEnded (n : Nat) : ∀ t, NoLost t → NoLost (handleEnded n t) := by
  induction n with
  | zero => intro t h; exact h
  | succ n ih =>
    intro t h
    unfold handleEnded
    split
    · exact h
    · rename_i k rest hq
      apply ih
      apply nl_finish
      intro j hjk hj
      have := h j hj
      rw [hq] at this
      rcases List.mem_cons.mp this with e | e
      · exact absurd e hjk
      · exact e

end SgVerif.C10
