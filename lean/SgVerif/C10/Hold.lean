import SgVerif.C10.Inv2
/-
C10 helper lemmas, part 14: a communication held by an actor of the host that fails (`k ∈ activities_` of a live actor `b`
of the host): `finish` / `cancel` on OTHER activities leave its state and its membership alone.
-/
set_option linter.unusedSimpArgs false
set_option linter.unusedVariables false
namespace SgVerif.C10

/-- the part of an actor/activity pair that the "holder" argument needs: state of `k`, membership of `k` in `b`'s `activities_` -/
def keepsK (k b : Nat) (t t' : St) : Prop :=
  (t'.acts k).state = (t.acts k).state ∧ (k ∈ (t.actors b).activities → k ∈ (t'.actors b).activities)

theorem keepsK.refl (k b : Nat) (t : St) : keepsK k b t t := ⟨rfl, id⟩
theorem keepsK.trans {k b : Nat} {t t1 t2 : St} (h1 : keepsK k b t t1) (h2 : keepsK k b t1 t2) : keepsK k b t t2 :=
  ⟨by rw [h2.1, h1.1], fun h => h2.2 (h1.2 h)⟩

theorem keepsK_of_eq (k b : Nat) (t t' : St) (ha : t'.acts k = t.acts k) (hb : t'.actors b = t.actors b) : keepsK k b t t' :=
  ⟨by rw [ha], fun h => by rw [hb]; exact h⟩

theorem commAfter_acts_ne (k0 : Nat) (t : St) (x j : Nat) (hj : j ≠ k0) : (commAfter k0 t x).acts j = t.acts j := by
  unfold commAfter
  simp only []
  (repeat' split) <;> simp_all [St.setActor, St.setAct, St.emit, St.crash, upd, deliver, eraseActivity] <;>
    (repeat' split) <;> simp_all [St.setActor, St.setAct, St.emit, St.crash, upd, deliver, eraseActivity]

theorem commAfter_activities_keep (k0 : Nat) (t : St) (x c j : Nat) (hj : j ≠ k0) (hm : j ∈ (t.actors c).activities) :
    j ∈ ((commAfter k0 t x).actors c).activities := by
  have he : ∀ l : List Nat, j ∈ l → j ∈ l.erase k0 := fun l h => (List.mem_erase_of_ne hj).mpr h
  unfold commAfter
  simp only []
  (repeat' split) <;> simp_all [St.setActor, St.setAct, St.emit, St.crash, upd, deliver, eraseActivity] <;>
    (repeat' split) <;> simp_all [St.setActor, St.setAct, St.emit, St.crash, upd, deliver, eraseActivity] <;>
    (repeat' split) <;> simp_all [St.setActor, St.setAct, St.emit, St.crash, upd, deliver, eraseActivity]

theorem keepsK_commAfter (k0 k b : Nat) (hk : k ≠ k0) (t : St) (x : Nat) : keepsK k b t (commAfter k0 t x) :=
  ⟨by rw [commAfter_acts_ne k0 t x k hk], fun h => commAfter_activities_keep k0 t x b k hk h⟩

theorem keepsK_setActor_erase (k b : Nat) (t : St) (c k0 : Nat) (hk : k ≠ k0) :
    keepsK k b t (t.setActor c (fun x => { x with activities := x.activities.erase k0 })) := by
  refine ⟨rfl, fun h => ?_⟩
  by_cases hc : b = c
  · subst hc; simp [St.setActor]; exact (List.mem_erase_of_ne hk).mpr h
  · simpa [St.setActor, upd, hc] using h

theorem keepsK_deliver (k b : Nat) (t : St) (x : Nat) (r : Ans) (k0 : Nat) : keepsK k b t (deliver t x r k0) := by
  refine ⟨rfl, fun h => ?_⟩
  by_cases hc : b = x
  · subst hc; simpa [deliver, St.setActor, St.emit] using h
  · simpa [deliver, St.setActor, St.emit, upd, hc] using h

theorem keepsK_execAfter (k0 k b : Nat) (hk : k ≠ k0) (t : St) (x : Nat) : keepsK k b t (execAfter k0 t x) := by
  unfold execAfter
  simp only []
  have h0 := keepsK_setActor_erase k b t x k0 hk
  split
  · exact h0.trans (keepsK_deliver k b _ x _ k0)
  · exact h0.trans (keepsK_deliver k b _ x _ k0)
  · exact h0.trans (keepsK_deliver k b _ x _ k0)
  · exact h0.trans (keepsK_of_eq k b _ _ rfl rfl)

theorem keepsK_unregisterAll (k b : Nat) (t : St) (x : Nat) : keepsK k b t (unregisterAll t x) := by
  refine ⟨unregisterAll_state t x k, fun h => ?_⟩
  by_cases hc : b = x
  · subst hc; simpa [unregisterAll] using h
  · simpa [unregisterAll, upd, hc] using h

theorem keepsK_answerTarget (k b : Nat) (t : St) (x : Nat) : keepsK k b t (answerTarget t x).1 := by
  refine ⟨by rw [answerTarget_acts], fun h => ?_⟩
  unfold answerTarget markDying
  (repeat' split) <;> (try exact h)
  by_cases hc : b = x
  · subst hc; simpa [St.setActor] using h
  · simpa [St.setActor, upd, hc] using h

theorem keepsK_answerOneG (k b : Nat) (after : St → Nat → St) (ha : ∀ t x, keepsK k b t (after t x)) (t : St) (x : Nat) :
    keepsK k b t (answerOneG after t x) := by
  unfold answerOneG
  simp only []
  split
  · exact ((keepsK_unregisterAll k b t x).trans (keepsK_answerTarget k b _ x)).trans (ha _ x)
  · exact (keepsK_unregisterAll k b t x).trans (keepsK_answerTarget k b _ x)

theorem keepsK_foldl {α : Type} (k b : Nat) (f : St → α → St) (hf : ∀ t x, keepsK k b t (f t x)) (l : List α) :
    ∀ t, keepsK k b t (l.foldl f t) := by
  induction l with
  | nil => intro t; exact keepsK.refl k b t
  | cons x xs ih => intro t; exact (hf t x).trans (ih _)

theorem commPre_acts_ne (s : St) (k0 j : Nat) (hj : j ≠ k0) : (commPre s k0).acts j = s.acts j := by
  unfold commPre
  cases hm : (s.acts k0).mbox <;> simp [St.setAct, St.emit, cleanAction, mboxRemove, upd, hm, hj] <;>
    split <;> simp_all [St.setAct, upd]

theorem execPre_acts_ne (s : St) (k0 j : Nat) (hj : j ≠ k0) : (execPre s k0).acts j = s.acts j := by
  unfold execPre; simp only []; split <;> simp [St.setAct, St.emit, cleanAction, upd, hj]

theorem sleepPre_acts_ne (s : St) (k0 j : Nat) (ac : ActionSt) (hj : j ≠ k0) : (sleepPre s k0 ac).acts j = s.acts j := by
  unfold sleepPre; simp [St.setAct, St.emit, cleanAction, upd, hj]

/-- `finish` on another activity keeps the state of `k` and its membership in `b`'s `activities_` -/
theorem keepsK_finish (k b k0 : Nat) (hk : k ≠ k0) (t : St) : keepsK k b t (finish t k0) := by
  unfold finish
  split
  · rw [finishComm_eq]
    exact (keepsK_of_eq k b t _ (commPre_acts_ne t k0 k hk) (by rw [(commPre_actors t k0).1])).trans
      (keepsK_foldl k b _ (keepsK_answerOneG k b _ (keepsK_commAfter k0 k b hk)) _ _)
  · rw [finishExec_eq]
    exact (keepsK_of_eq k b t _ (execPre_acts_ne t k0 k hk) (by rw [(execPre_actors t k0).1])).trans
      (keepsK_foldl k b _ (keepsK_answerOneG k b _ (keepsK_execAfter k0 k b hk)) _ _)
  · cases hac : (t.acts k0).action with
    | none => rw [finishSleep_none t k0 hac]; exact keepsK_of_eq k b t _ rfl rfl
    | some ac =>
      rw [finishSleep_eq t k0 ac hac]
      exact (keepsK_of_eq k b t _ (sleepPre_acts_ne t k0 k ac hk) (by rw [(sleepPre_actors t k0 ac).1])).trans
        (keepsK_foldl k b _ (keepsK_answerOneG k b _ (fun u x => keepsK_deliver k b u x .ok k0)) _ _)

end SgVerif.C10
