import SgVerif.C10.Finish3
/-
C10 helper lemmas, part 6: tracking one registered, answerable issuer `a` of one activity `k` hit by a resource failure
through every kernel function that runs during the maestro iteration of the failure.
-/
set_option linter.unusedSimpArgs false
set_option linter.unusedVariables false
namespace SgVerif.C10

/-- `y` is `x` up to `Action::cancel` (started -> failed) -/
def StatLe (x y : Activity) : Prop :=
  y.kind = x.kind ∧ y.from_ = x.from_ ∧ y.to_ = x.to_ ∧ y.hosts = x.hosts ∧
  (y.action = x.action ∨ (x.action = some .started ∧ y.action = some .failed))

theorem StatLe.refl (x : Activity) : StatLe x x := ⟨rfl, rfl, rfl, rfl, Or.inl rfl⟩
theorem StatLe.of_eq {x y : Activity} (h : statOf y = statOf x) : StatLe x y := by
  simp only [statOf, Prod.mk.injEq] at h
  exact ⟨h.1, h.2.1, h.2.2.1, h.2.2.2.1, Or.inl h.2.2.2.2⟩
theorem StatLe.trans {x y z : Activity} (h1 : StatLe x y) (h2 : StatLe y z) : StatLe x z := by
  obtain ⟨a1, a2, a3, a4, a5⟩ := h1
  obtain ⟨b1, b2, b3, b4, b5⟩ := h2
  refine ⟨by rw [b1, a1], by rw [b2, a2], by rw [b3, a3], by rw [b4, a4], ?_⟩
  rcases a5 with a5 | ⟨a5, a6⟩ <;> rcases b5 with b5 | ⟨b5, b6⟩
  · left; rw [b5, a5]
  · right; exact ⟨by rw [← a5]; exact b5, b6⟩
  · right; exact ⟨a5, by rw [b5, a6]⟩
  · rw [a6] at b5; cases b5

/-- activity `k` is hit by a resource failure: whenever `finish` runs on it from now on, it ends in the failure state of
the spec table (comm: an endpoint host is off or the action failed; exec: a host is off and the action is still there) -/
def Hit (t : St) (k : Nat) : Prop :=
  ((t.acts k).kind = .comm ∧
    ((∃ h, (t.acts k).from_ = some h ∧ t.hostOn h = false) ∨ (∃ h, (t.acts k).to_ = some h ∧ t.hostOn h = false) ∨
     (t.acts k).action = some .failed)) ∨
  ((t.acts k).kind = .exec ∧ (t.acts k).action ≠ none ∧ ∃ h, h ∈ (t.acts k).hosts ∧ t.hostOn h = false)

theorem hit_mono {t t' : St} {k : Nat} (hs : StatLe (t.acts k) (t'.acts k)) (hh : t'.hostOn = t.hostOn) (h : Hit t k) :
    Hit t' k := by
  obtain ⟨a1, a2, a3, a4, a5⟩ := hs
  unfold Hit at *
  rw [a1, a2, a3, a4, hh]
  rcases h with ⟨hk, h⟩ | ⟨hk, hn, h⟩
  · left
    refine ⟨hk, ?_⟩
    rcases h with h | h | h
    · exact Or.inl h
    · exact Or.inr (Or.inl h)
    · right; right
      rcases a5 with a5 | ⟨a5, a6⟩
      · rw [a5]; exact h
      · exact a6
  · right
    refine ⟨hk, ?_, h⟩
    rcases a5 with a5 | ⟨a5, a6⟩
    · rw [a5]; exact hn
    · rw [a6]; simp

theorem hit_comm_netclass (t : St) (k : Nat) (hk : (t.acts k).kind = .comm) (h : Hit t k) : NetClass (commFinalState t k) := by
  unfold Hit at h
  rcases h with ⟨_, h⟩ | ⟨hk', _⟩
  · unfold commFinalState NetClass
    simp only []
    rcases h with ⟨h', h1, h2⟩ | ⟨h', h1, h2⟩ | h
    · simp [h1, h2]
    · (repeat' split) <;> simp_all
    · (repeat' split) <;> simp_all
  · rw [hk] at hk'; cases hk'

/-- the pending situation: `a` is answerable, registered on `k`, `k` is hit, sits in the failed action set, `r` is the
answer of the spec table for `k` -/
structure PendS (t : St) (a k : Nat) (r : Ans) : Prop where
  ans : Answerable t a
  reg : a ∈ (t.acts k).simcalls
  hit : Hit t k
  inq : k ∈ t.failedQ
  spec : r = .exc (specExc (t.acts k).kind)

/-- outcome of a function run from `t` to `t'`: `a` answered by `k` with `r`, or answered by another activity of its
wait_any, or an assertion fired, or the situation is still pending -/
def Res (t t' : St) (a k : Nat) (r : Ans) : Prop :=
  t'.crashed = true ∨ newIn t t' (.answer a r k) ∨ (∃ k' r', k' ≠ k ∧ newIn t t' (.answer a r' k')) ∨ PendS t' a k r

theorem res_trans {t t1 t2 : St} {a k : Nat} {r : Ans} (e1 : Ext t t1) (e2 : Ext t1 t2) (h1 : Res t t1 a k r)
    (h2 : PendS t1 a k r → Res t1 t2 a k r) : Res t t2 a k r := by
  rcases h1 with h | h | ⟨k', r', hk, h⟩ | h
  · exact Or.inl (e2.crashed h)
  · exact Or.inr (Or.inl (newIn_of_ext_right _ e2 h))
  · exact Or.inr (Or.inr (Or.inl ⟨k', r', hk, newIn_of_ext_right _ e2 h⟩))
  · rcases h2 h with h | h | ⟨k', r', hk, h⟩ | h
    · exact Or.inl h
    · exact Or.inr (Or.inl (newIn_of_ext_left _ e1 h))
    · exact Or.inr (Or.inr (Or.inl ⟨k', r', hk, newIn_of_ext_left _ e1 h⟩))
    · exact Or.inr (Or.inr (Or.inr h))

/-- functions that neither answer nor unregister anybody -/
structure Simp (a : Nat) (t t' : St) : Prop where
  ext : Ext t t'
  core : coreOf t' a = coreOf t a
  simc : ∀ j, (t'.acts j).simcalls = (t.acts j).simcalls
  stat : ∀ j, StatLe (t.acts j) (t'.acts j)
  fq : ∀ j, j ∈ t.failedQ → j ∈ t'.failedQ

theorem Simp.refl (a : Nat) (t : St) : Simp a t t := ⟨Ext.refl t, rfl, fun _ => rfl, fun _ => StatLe.refl _, fun _ h => h⟩
theorem Simp.trans {a : Nat} {t t1 t2 : St} (h1 : Simp a t t1) (h2 : Simp a t1 t2) : Simp a t t2 :=
  ⟨h1.ext.trans h2.ext, by rw [h2.core, h1.core], fun j => by rw [h2.simc, h1.simc],
   fun j => (h1.stat j).trans (h2.stat j), fun j h => h2.fq j (h1.fq j h)⟩

theorem pend_of_simp {a k : Nat} {r : Ans} {t t' : St} (h : Simp a t t') (p : PendS t a k r) : PendS t' a k r where
  ans := by rw [answerable_iff_core, h.core, ← answerable_iff_core]; exact p.ans
  reg := by rw [h.simc]; exact p.reg
  hit := hit_mono (h.stat k) h.ext.hostOn p.hit
  inq := h.fq k p.inq
  spec := by rw [(h.stat k).1]; exact p.spec

theorem res_of_simp {a k : Nat} {r : Ans} {t t' : St} (h : Simp a t t') (p : PendS t a k r) : Res t t' a k r :=
  Or.inr (Or.inr (Or.inr (pend_of_simp h p)))

/-! ### the simple functions -/
theorem simp_setAct_state (a : Nat) (t : St) (k : Nat) (st : AState) :
    Simp a t (t.setAct k (fun x => { x with state := st })) := by
  refine ⟨ext_setAct _ _ _, rfl, fun j => ?_, fun j => ?_, fun _ h => h⟩
  · by_cases hj : j = k
    · subst hj; simp [St.setAct]
    · simp [St.setAct, upd, hj]
  · by_cases hj : j = k
    · subst hj; simp [St.setAct, StatLe]
    · simp [St.setAct, upd, hj, StatLe]

theorem simp_setActor_ne (a : Nat) (t : St) (b : Nat) (f : Actor → Actor) (hb : b ≠ a) : Simp a t (t.setActor b f) := by
  refine ⟨ext_setActor _ _ _, ?_, fun _ => rfl, fun _ => StatLe.refl _, fun _ h => h⟩
  simp [coreOf, St.setActor, upd, Ne.symm hb]

/-- updates of an actor record that leave `blocked`, `host`, `wannadie` alone -/
theorem simp_setActor_frame (a : Nat) (t : St) (b : Nat) (f : Actor → Actor)
    (hf : ∀ x, (f x).blocked = x.blocked ∧ (f x).host = x.host ∧ (f x).wannadie = x.wannadie) : Simp a t (t.setActor b f) := by
  refine ⟨ext_setActor _ _ _, ?_, fun _ => rfl, fun _ => StatLe.refl _, fun _ h => h⟩
  by_cases hb : a = b
  · subst hb
    obtain ⟨h1, h2, h3⟩ := hf (t.actors a)
    simp [coreOf, St.setActor, h1, h2, h3]
  · simp [coreOf, St.setActor, upd, hb]

theorem simp_eraseActivity (a : Nat) (t : St) (o : Option Nat) (k : Nat) : Simp a t (eraseActivity t o k) := by
  cases o with
  | none => exact Simp.refl a t
  | some b => exact simp_setActor_frame a t b (fun x => { x with activities := x.activities.erase k }) (fun x => ⟨rfl, rfl, rfl⟩)

theorem simp_crash (a : Nat) (t : St) : Simp a t t.crash :=
  ⟨ext_crash t, rfl, fun _ => rfl, fun _ => StatLe.refl _, fun _ h => h⟩

theorem simp_failAction (a : Nat) (t : St) (k : Nat) : Simp a t (failAction t k) := by
  unfold failAction
  split
  · rename_i hst
    refine ⟨⟨List.prefix_refl _, id, rfl⟩, rfl, fun j => ?_, fun j => ?_, fun j h => ?_⟩
    · by_cases hj : j = k
      · subst hj; simp [St.setAct]
      · simp [St.setAct, upd, hj]
    · by_cases hj : j = k
      · subst hj; simp [St.setAct, StatLe, hst]
      · simp [St.setAct, upd, hj, StatLe]
    · simp [h]
  · exact Simp.refl a t

theorem simp_mboxRemove (a : Nat) (t : St) (k : Nat) : Simp a t (mboxRemove t k) := by
  unfold mboxRemove
  split
  · exact Simp.refl a t
  · refine ⟨⟨List.prefix_refl _, id, rfl⟩, rfl, fun j => ?_, fun j => ?_, fun _ h => h⟩
    · by_cases hj : j = k
      · subst hj; simp [St.setAct]
      · simp [St.setAct, upd, hj]
    · by_cases hj : j = k
      · subst hj; simp [St.setAct, StatLe]
      · simp [St.setAct, upd, hj, StatLe]

/-- `cancel` neither answers nor unregisters anybody -/
theorem simp_cancel (a : Nat) (t : St) (k : Nat) : Simp a t (cancel t k) := by
  unfold cancel
  simp only []
  split
  · -- comm
    refine Simp.trans (Simp.trans ?_ (simp_eraseActivity a _ _ k)) (simp_eraseActivity a _ _ k)
    split
    · split
      · exact (simp_mboxRemove a t k).trans (simp_setAct_state a _ k _)
      · exact Simp.refl a t
    · split
      · split
        · exact simp_crash a t
        · exact simp_failAction a t k
      · exact Simp.refl a t
  · -- exec / sleep
    refine Simp.trans (Simp.trans ?_ (simp_setAct_state a _ k _)) (simp_eraseActivity a _ _ k)
    split
    · exact simp_failAction a t k
    · exact Simp.refl a t

theorem simp_foldl {α : Type} (a : Nat) (f : St → α → St) (hf : ∀ t x, Simp a t (f t x)) (l : List α) :
    ∀ t, Simp a t (l.foldl f t) := by
  induction l with
  | nil => intro t; exact Simp.refl a t
  | cons x xs ih => intro t; exact (hf t x).trans (ih _)

theorem simp_cpuCancelActions (a : Nat) (t : St) (h : Nat) : Simp a t (cpuCancelActions t h) := by
  unfold cpuCancelActions
  apply simp_foldl
  intro t x
  split
  · exact simp_failAction a t x
  · exact Simp.refl a t

theorem simp_maestroFail (a h : Nat) (t : St) (k : Nat) : Simp a t (maestroFail h t k) := by
  unfold maestroFail
  split
  · exact (simp_cancel a t k).trans (simp_setAct_state a _ k _)
  · exact Simp.refl a t

end SgVerif.C10
