import SgVerif.C10.Mono2
/-
C10 helper lemmas, part 11: `killed_on_host_off` — `wannadie` is never reset, by any event; `Host::turn_off` marks every
live actor of the host; `ActorImpl::exit` runs for it unless `unregister_first_simcall` marked it first.
-/
set_option linter.unusedSimpArgs false
set_option linter.unusedVariables false
namespace SgVerif.C10

/-- after `ActorImpl::exit` the actor is dying -/
theorem actorExit_wd (t : St) (a : Nat) : ((actorExit t a).actors a).wannadie = true := by
  unfold actorExit
  simp only []
  apply (mono_emit _ _).wd
  apply (mono_setActor _ a (fun x => { x with activities := [], waiting := [] }) (fun x => ⟨rfl, rfl, id, fun j h => by cases h⟩)).wd
  apply (mono_foldl cancel mono_cancel _ _).wd
  apply (mono_exitLoop a _ _).wd
  simp [St.setActor]

theorem killOn_wd (h : Nat) (t : St) (a : Nat) (hh : (t.actors a).host = h) (he : (t.actors a).ended = false) :
    ((killOn h t a).actors a).wannadie = true := by
  unfold killOn kill
  simp only [hh, he, Bool.false_eq_true, not_false_eq_true, and_self, if_true]
  split
  · rename_i hw; exact hw
  · exact actorExit_wd t a

/-- the kill loop of `HostImpl::turn_off` marks every actor of the host that has not ended -/
theorem killFold_wd (h a : Nat) (L : List Nat) : ∀ t, a ∈ L → (t.actors a).host = h → (t.actors a).ended = false →
    ((L.foldl (killOn h) t).actors a).wannadie = true := by
  induction L with
  | nil => intro t hm; cases hm
  | cons c cs ih =>
    intro t hm hh he
    simp only [List.foldl_cons]
    by_cases hc : a = c
    · subst hc
      exact (mono_foldl _ (mono_killOn h) cs _).wd a (killOn_wd h t a hh he)
    · have hin : a ∈ cs := by
        rcases List.mem_cons.mp hm with h' | h'
        · exact absurd h' hc
        · exact h'
      have m := mono_killOn h t c
      exact ih _ hin (by rw [m.host]; exact hh) (by rw [m.ended]; exact he)

theorem hostOff_wd (s : St) (h a : Nat) (hon : s.hostOn h = true) (ha : a < s.nActors) (hh : (s.actors a).host = h)
    (he : (s.actors a).ended = false) : ((hostOff s h).actors a).wannadie = true := by
  rw [hostOff_eq s h hon]
  have m1 : Mono ({ s with hostOn := upd s.hostOn h false } : St) (cpuPhase h { s with hostOn := upd s.hostOn h false }) :=
    mono_cpuPhase h _
  apply (mono_maestroPhase h _).wd
  unfold killPhase
  apply killFold_wd
  · rw [m1.nActors]; exact List.mem_range.mpr ha
  · rw [m1.host]; exact hh
  · rw [m1.ended]; exact he

/-! ### `ActorImpl::exit` really runs (`Obs.kill`) unless the actor was marked by `unregister_first_simcall` first -/

/-- no actor of host `h` other than `a` waits on an activity on which `a` is registered -/
def Private (t : St) (h a : Nat) : Prop :=
  ∀ c j, c ≠ a → (t.actors c).host = h → j ∈ (t.actors c).waiting → a ∉ (t.acts j).simcalls

theorem private_mono {t t' : St} {h a : Nat} (m : Mono t t') (p : Private t h a) : Private t' h a := by
  intro c j hc hh hj hs
  exact p c j hc (by rw [← m.host]; exact hh) (m.wsub c j hj) (m.ssub a j hs)

/-- `finish` on an activity on which `a` is not registered leaves `a`'s `wannadie` alone -/
theorem finish_wd_frame (t : St) (k a : Nat) (hm : a ∉ (t.acts k).simcalls) :
    ((finish t k).actors a).wannadie = (t.actors a).wannadie := by
  have := ((finish_ok t k).miss a hm).1
  simp only [coreOf, Prod.mk.injEq] at this
  exact this.2.2

theorem simp_wd {a : Nat} {t t' : St} (h : Simp a t t') : (t'.actors a).wannadie = (t.actors a).wannadie := by
  have := h.core
  simp only [coreOf, Prod.mk.injEq] at this
  exact this.2.2

theorem exitWaiting_wd_frame (b : Nat) (t : St) (k0 a : Nat) (hm : a ∉ (t.acts k0).simcalls) :
    ((exitWaiting b t k0).actors a).wannadie = (t.actors a).wannadie := by
  unfold exitWaiting
  simp only []
  have s1 : Simp a t ((cancel t k0).setAct k0 (fun x => { x with state := .failed })) :=
    (simp_cancel a t k0).trans (simp_setAct_state a _ k0 _)
  have hm' : a ∉ (((cancel t k0).setAct k0 (fun x => { x with state := .failed })).acts k0).simcalls := by
    rw [s1.simc]; exact hm
  have s3 := simp_setActor_frame a (finish ((cancel t k0).setAct k0 (fun x => { x with state := .failed })) k0) b
    (fun x => { x with activities := x.activities.erase k0 }) (fun x => ⟨rfl, rfl, rfl⟩)
  rw [simp_wd s3, finish_wd_frame _ k0 a hm', simp_wd s1]

theorem exitLoop_wd_frame (b a : Nat) (hb : b ≠ a) (n : Nat) : ∀ t,
    (∀ j, j ∈ (t.actors b).waiting → a ∉ (t.acts j).simcalls) →
    ((exitLoop b n t).actors a).wannadie = (t.actors a).wannadie := by
  induction n with
  | zero => intro t _; rfl
  | succ n ih =>
    intro t hp
    unfold exitLoop
    split
    · rfl
    · rename_i k0 hk0
      have hk0m : k0 ∈ (t.actors b).waiting := List.mem_of_getLast? hk0
      have s1 : Simp a t (t.setActor b (fun x => { x with waiting := x.waiting.dropLast })) :=
        simp_setActor_frame a t b _ (fun x => ⟨rfl, rfl, rfl⟩)
      have m1 : Mono t (t.setActor b (fun x => { x with waiting := x.waiting.dropLast })) :=
        mono_setActor t b _ (fun x => ⟨rfl, rfl, id, fun j h => List.dropLast_subset _ h⟩)
      have m2 := mono_exitWaiting b (t.setActor b (fun x => { x with waiting := x.waiting.dropLast })) k0
      rw [ih _ (fun j hj hs => hp j (m1.wsub b j (m2.wsub b j hj)) (m1.ssub a j (m2.ssub a j hs))),
        exitWaiting_wd_frame b _ k0 a (by rw [s1.simc]; exact hp k0 hk0m), simp_wd s1]

theorem actorExit_wd_frame (t : St) (b a : Nat) (hb : b ≠ a)
    (hp : ∀ j, j ∈ (t.actors b).waiting → a ∉ (t.acts j).simcalls) :
    ((actorExit t b).actors a).wannadie = (t.actors a).wannadie := by
  unfold actorExit
  simp only []
  have s1 : Simp a t (t.setActor b (fun x => { x with wannadie := true })) := simp_setActor_ne a t b _ hb
  have hw : ((t.setActor b (fun x => { x with wannadie := true })).actors b).waiting = (t.actors b).waiting := by
    simp [St.setActor]
  have e2 := exitLoop_wd_frame b a hb ((t.setActor b (fun x => { x with wannadie := true })).actors b).waiting.length
    (t.setActor b (fun x => { x with wannadie := true })) (fun j hj => by rw [s1.simc]; exact hp j (by rw [← hw]; exact hj))
  rw [simp_wd (simp_emit a _ (.kill b)), simp_wd (simp_setActor_ne a _ b _ hb),
    simp_wd (simp_foldl a cancel (simp_cancel a) _ _), e2, simp_wd s1]

theorem killOn_wd_frame (h : Nat) (t : St) (c a : Nat) (hc : c ≠ a) (p : Private t h a) :
    ((killOn h t c).actors a).wannadie = (t.actors a).wannadie := by
  unfold killOn kill
  split
  · rename_i hcond
    split
    · rfl
    · exact actorExit_wd_frame t c a hc (fun j hj => p c j hc hcond.1 hj)
  · rfl

theorem newIn_emit_of_ext (t u : St) (o : Obs) (e : Ext t u) : newIn t (u.emit o) o := by
  unfold newIn
  show o ∈ List.drop t.obs.length (u.obs ++ [o])
  rw [List.drop_append_of_le_length e.len]
  simp

theorem actorExit_kill_new (t : St) (a : Nat) : newIn t (actorExit t a) (.kill a) := by
  unfold actorExit
  simp only []
  apply newIn_emit_of_ext
  exact (((ext_setActor t a _).trans (ext_exitLoop a _ _)).trans (ext_foldl cancel ext_cancel _ _)).trans (ext_setActor _ _ _)

/-- the kill loop: `ActorImpl::exit` runs for `a` (live, on `h`, `Private`) -/
theorem killFold_kill_new (h a : Nat) (L : List Nat) : ∀ t, a ∈ L → (t.actors a).host = h → (t.actors a).ended = false →
    (t.actors a).wannadie = false → Private t h a → newIn t (L.foldl (killOn h) t) (.kill a) := by
  induction L with
  | nil => intro t hm; cases hm
  | cons c cs ih =>
    intro t hm hh he hw hp
    simp only [List.foldl_cons]
    by_cases hc : a = c
    · subst hc
      have : killOn h t a = actorExit t a := by
        unfold killOn kill
        simp [hh, he, hw]
      rw [this]
      exact newIn_of_ext_right _ (ext_foldl _ (ext_killOn h) cs _) (actorExit_kill_new t a)
    · have hin : a ∈ cs := by
        rcases List.mem_cons.mp hm with h' | h'
        · exact absurd h' hc
        · exact h'
      have m := mono_killOn h t c
      have := ih (killOn h t c) hin (by rw [m.host]; exact hh) (by rw [m.ended]; exact he)
        (by rw [killOn_wd_frame h t c a (Ne.symm hc) hp]; exact hw) (private_mono m hp)
      exact newIn_of_ext_left _ (ext_killOn h t c) this

theorem simp_private {a h : Nat} {t t' : St} (hs : ∀ b, Simp b t t') (hm : Mono t t') (p : Private t h a) : Private t' h a :=
  private_mono hm p

theorem hostOff_kill_new (s : St) (h a : Nat) (hon : s.hostOn h = true) (ha : a < s.nActors) (hh : (s.actors a).host = h)
    (he : (s.actors a).ended = false) (hw : (s.actors a).wannadie = false) (hp : Private s h a) :
    newIn s (hostOff s h) (.kill a) := by
  rw [hostOff_eq s h hon]
  have m0 : Mono s ({ s with hostOn := upd s.hostOn h false } : St) :=
    ⟨fun _ => rfl, fun _ => rfl, fun _ h => h, fun _ _ h => h, fun _ _ h => h, rfl⟩
  have m1 : Mono ({ s with hostOn := upd s.hostOn h false } : St) (cpuPhase h { s with hostOn := upd s.hostOn h false }) :=
    mono_cpuPhase h _
  have sp1 : Simp a ({ s with hostOn := upd s.hostOn h false } : St) (cpuPhase h { s with hostOn := upd s.hostOn h false }) :=
    simp_cpuPhase a h _
  have k3 : newIn (cpuPhase h { s with hostOn := upd s.hostOn h false })
      (killPhase h (cpuPhase h { s with hostOn := upd s.hostOn h false })) (.kill a) := by
    unfold killPhase
    apply killFold_kill_new
    · rw [m1.nActors]; exact List.mem_range.mpr ha
    · rw [m1.host]; exact hh
    · rw [m1.ended]; exact he
    · rw [simp_wd sp1]; exact hw
    · exact private_mono (m0.trans m1) hp
  have k4 := newIn_of_ext_right _ (simp_maestroPhase a h _).ext k3
  have k5 := newIn_of_ext_left _ sp1.ext k4
  exact k5

end SgVerif.C10
