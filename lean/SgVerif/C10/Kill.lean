import SgVerif.C10.Mono2
import SgVerif.C10.Wd
/-
C10 helper lemmas, part 11: `killed_on_host_off` — `wannadie` is never reset, by any event; `Host::turn_off` marks every
live actor of the host; `ActorImpl::exit` runs for it (`unregister_first_simcall` no longer marks anybody: Wd.lean).
-/
set_option linter.unusedSimpArgs false
set_option linter.unusedVariables false
namespace SgVerif.C10

/-- after `ActorImpl::exit` the actor is dying -/
theorem actorExit_wd (t : St) (a : Nat) : ((actorExit t a).actors a).wannadie = true := by
  unfold actorExit
  simp only []
  apply (mono_emit _ _).wd
  apply (mono_setActor _ a (fun x => { x with activities := [], waiting := [] }) (fun x => ⟨rfl, rfl, id, fun j h => by cases h⟩)).wd
  apply (mono_foldl cancel mono_cancel _ _).wd
  apply (mono_exitLoop a _ _).wd
  simp [St.setActor]

theorem killOn_wd (h : Nat) (t : St) (a : Nat) (hh : (t.actors a).host = h) (he : (t.actors a).ended = false) :
    ((killOn h t a).actors a).wannadie = true := by
  unfold killOn kill
  simp only [hh, he, Bool.false_eq_true, not_false_eq_true, and_self, if_true]
  split
  · rename_i hw; exact hw
  · exact actorExit_wd t a

/-- the kill loop of `HostImpl::turn_off` marks every actor of the host that has not ended -/
theorem killFold_wd (h a : Nat) (L : List Nat) : ∀ t, a ∈ L → (t.actors a).host = h → (t.actors a).ended = false →
    ((L.foldl (killOn h) t).actors a).wannadie = true := by
  induction L with
  | nil => intro t hm; cases hm
  | cons c cs ih =>
    intro t hm hh he
    simp only [List.foldl_cons]
    by_cases hc : a = c
    · subst hc
      exact (mono_foldl _ (mono_killOn h) cs _).wd a (killOn_wd h t a hh he)
    · have hin : a ∈ cs := by
        rcases List.mem_cons.mp hm with h' | h'
        · exact absurd h' hc
        · exact h'
      have m := mono_killOn h t c
      exact ih _ hin (by rw [m.host]; exact hh) (by rw [m.ended]; exact he)

theorem hostOff_wd (s : St) (h a : Nat) (hon : s.hostOn h = true) (ha : a < s.nActors) (hh : (s.actors a).host = h)
    (he : (s.actors a).ended = false) : ((hostOff s h).actors a).wannadie = true := by
  rw [hostOff_eq s h hon]
  have m1 : Mono ({ s with hostOn := upd s.hostOn h false } : St) (cpuPhase h { s with hostOn := upd s.hostOn h false }) :=
    mono_cpuPhase h _
  apply (mono_maestroPhase h _).wd
  unfold killPhase
  apply killFold_wd
  · rw [m1.nActors]; exact List.mem_range.mpr ha
  · rw [m1.host]; exact hh
  · rw [m1.ended]; exact he

/-! ### `ActorImpl::exit` really runs (`Obs.kill`) for every live actor of the host
`unregister_first_simcall` does not mark anybody dying any more (`wdEq_finish`), so the `exit()` of one actor of the host
leaves the `wannadie` flag of the other ones alone, whatever they wait on together. -/

/-- No actor of host `h` other than `a` waits on an activity on which `a` is registered.  This was the hypothesis that
`host-off-marks-peer-dying-without-exit` made necessary before the fix (kept for the regression statements only). -/
def Private (t : St) (h a : Nat) : Prop :=
  ∀ c j, c ≠ a → (t.actors c).host = h → j ∈ (t.actors c).waiting → a ∉ (t.acts j).simcalls

/-- `finish` leaves everybody's `wannadie` alone -/
theorem finish_wd_frame (t : St) (k a : Nat) : ((finish t k).actors a).wannadie = (t.actors a).wannadie :=
  wdEq_finish t k a

theorem simp_wd {a : Nat} {t t' : St} (h : Simp a t t') : (t'.actors a).wannadie = (t.actors a).wannadie := by
  have := h.core
  simp only [coreOf, Prod.mk.injEq] at this
  exact this.2.2

theorem exitWaiting_wd_frame (b : Nat) (t : St) (k0 a : Nat) :
    ((exitWaiting b t k0).actors a).wannadie = (t.actors a).wannadie := by
  unfold exitWaiting
  simp only []
  have s1 : Simp a t ((cancel t k0).setAct k0 (fun x => { x with state := .failed })) :=
    (simp_cancel a t k0).trans (simp_setAct_state a _ k0 _)
  have s3 := simp_setActor_frame a (finish ((cancel t k0).setAct k0 (fun x => { x with state := .failed })) k0) b
    (fun x => { x with activities := x.activities.erase k0 }) (fun x => ⟨rfl, rfl, rfl⟩)
  rw [simp_wd s3, finish_wd_frame _ k0 a, simp_wd s1]

theorem exitLoop_wd_frame (b a : Nat) (n : Nat) : ∀ t,
    ((exitLoop b n t).actors a).wannadie = (t.actors a).wannadie := by
  induction n with
  | zero => intro t; rfl
  | succ n ih =>
    intro t
    unfold exitLoop
    split
    · rfl
    · rename_i k0 hk0
      have s1 : Simp a t (t.setActor b (fun x => { x with waiting := x.waiting.dropLast })) :=
        simp_setActor_frame a t b _ (fun x => ⟨rfl, rfl, rfl⟩)
      rw [ih _, exitWaiting_wd_frame b _ k0 a, simp_wd s1]

theorem actorExit_wd_frame (t : St) (b a : Nat) (hb : b ≠ a) :
    ((actorExit t b).actors a).wannadie = (t.actors a).wannadie := by
  unfold actorExit
  simp only []
  have s1 : Simp a t (t.setActor b (fun x => { x with wannadie := true })) := simp_setActor_ne a t b _ hb
  have e2 := exitLoop_wd_frame b a ((t.setActor b (fun x => { x with wannadie := true })).actors b).waiting.length
    (t.setActor b (fun x => { x with wannadie := true }))
  rw [simp_wd (simp_emit a _ (.kill b)), simp_wd (simp_setActor_ne a _ b _ hb),
    simp_wd (simp_foldl a cancel (simp_cancel a) _ _), e2, simp_wd s1]

theorem killOn_wd_frame (h : Nat) (t : St) (c a : Nat) (hc : c ≠ a) :
    ((killOn h t c).actors a).wannadie = (t.actors a).wannadie := by
  unfold killOn kill
  split
  · split
    · rfl
    · exact actorExit_wd_frame t c a hc
  · rfl

theorem newIn_emit_of_ext (t u : St) (o : Obs) (e : Ext t u) : newIn t (u.emit o) o := by
  unfold newIn
  show o ∈ List.drop t.obs.length (u.obs ++ [o])
  rw [List.drop_append_of_le_length e.len]
  simp

theorem actorExit_kill_new (t : St) (a : Nat) : newIn t (actorExit t a) (.kill a) := by
  unfold actorExit
  simp only []
  apply newIn_emit_of_ext
  exact (((ext_setActor t a _).trans (ext_exitLoop a _ _)).trans (ext_foldl cancel ext_cancel _ _)).trans (ext_setActor _ _ _)

/-- the kill loop: `ActorImpl::exit` runs for `a` (live, on `h`) -/
theorem killFold_kill_new (h a : Nat) (L : List Nat) : ∀ t, a ∈ L → (t.actors a).host = h → (t.actors a).ended = false →
    (t.actors a).wannadie = false → newIn t (L.foldl (killOn h) t) (.kill a) := by
  induction L with
  | nil => intro t hm; cases hm
  | cons c cs ih =>
    intro t hm hh he hw
    simp only [List.foldl_cons]
    by_cases hc : a = c
    · subst hc
      have : killOn h t a = actorExit t a := by
        unfold killOn kill
        simp [hh, he, hw]
      rw [this]
      exact newIn_of_ext_right _ (ext_foldl _ (ext_killOn h) cs _) (actorExit_kill_new t a)
    · have hin : a ∈ cs := by
        rcases List.mem_cons.mp hm with h' | h'
        · exact absurd h' hc
        · exact h'
      have m := mono_killOn h t c
      have := ih (killOn h t c) hin (by rw [m.host]; exact hh) (by rw [m.ended]; exact he)
        (by rw [killOn_wd_frame h t c a (Ne.symm hc)]; exact hw)
      exact newIn_of_ext_left _ (ext_killOn h t c) this

theorem hostOff_kill_new (s : St) (h a : Nat) (hon : s.hostOn h = true) (ha : a < s.nActors) (hh : (s.actors a).host = h)
    (he : (s.actors a).ended = false) (hw : (s.actors a).wannadie = false) :
    newIn s (hostOff s h) (.kill a) := by
  rw [hostOff_eq s h hon]
  have m0 : Mono s ({ s with hostOn := upd s.hostOn h false } : St) :=
    ⟨fun _ => rfl, fun _ => rfl, fun _ h => h, fun _ _ h => h, fun _ _ h => h, rfl⟩
  have m1 : Mono ({ s with hostOn := upd s.hostOn h false } : St) (cpuPhase h { s with hostOn := upd s.hostOn h false }) :=
    mono_cpuPhase h _
  have sp1 : Simp a ({ s with hostOn := upd s.hostOn h false } : St) (cpuPhase h { s with hostOn := upd s.hostOn h false }) :=
    simp_cpuPhase a h _
  have k3 : newIn (cpuPhase h { s with hostOn := upd s.hostOn h false })
      (killPhase h (cpuPhase h { s with hostOn := upd s.hostOn h false })) (.kill a) := by
    unfold killPhase
    apply killFold_kill_new
    · rw [m1.nActors]; exact List.mem_range.mpr ha
    · rw [m1.host]; exact hh
    · rw [m1.ended]; exact he
    · rw [simp_wd sp1]; exact hw
  have k4 := newIn_of_ext_right _ (simp_maestroPhase a h _).ext k3
  have k5 := newIn_of_ext_left _ sp1.ext k4
  exact k5

end SgVerif.C10
