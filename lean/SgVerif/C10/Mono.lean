import SgVerif.C10.Track3
/-
C10 helper lemmas, part 9: what the kernel functions run by `turn_off` / `handle_ended_actions` never do:
move an actor, un-end it, reset `wannadie`, add a registration (`waiting_synchros_`, `simcalls_`).
-/
set_option linter.unusedSimpArgs false
set_option linter.unusedVariables false
namespace SgVerif.C10

structure Mono (t t' : St) : Prop where
  host : ∀ c, (t'.actors c).host = (t.actors c).host
  ended : ∀ c, (t'.actors c).ended = (t.actors c).ended
  wd : ∀ c, (t.actors c).wannadie = true → (t'.actors c).wannadie = true
  wsub : ∀ c j, j ∈ (t'.actors c).waiting → j ∈ (t.actors c).waiting
  ssub : ∀ b j, b ∈ (t'.acts j).simcalls → b ∈ (t.acts j).simcalls
  nActors : t'.nActors = t.nActors

theorem Mono.refl (t : St) : Mono t t := ⟨fun _ => rfl, fun _ => rfl, fun _ h => h, fun _ _ h => h, fun _ _ h => h, rfl⟩
theorem Mono.trans {a b c : St} (h1 : Mono a b) (h2 : Mono b c) : Mono a c :=
  ⟨fun x => by rw [h2.host, h1.host], fun x => by rw [h2.ended, h1.ended], fun x h => h2.wd x (h1.wd x h),
   fun x j h => h1.wsub x j (h2.wsub x j h), fun x j h => h1.ssub x j (h2.ssub x j h), by rw [h2.nActors, h1.nActors]⟩

/-- an update of one activity that does not add a registered simcall -/
theorem mono_setAct (t : St) (k : Nat) (f : Activity → Activity) (hf : ∀ x b, b ∈ (f x).simcalls → b ∈ x.simcalls) :
    Mono t (t.setAct k f) := by
  refine ⟨fun _ => rfl, fun _ => rfl, fun _ h => h, fun _ _ h => h, fun b j h => ?_, rfl⟩
  by_cases hj : j = k
  · subst hj; simp [St.setAct] at h; exact hf _ _ h
  · simpa [St.setAct, upd, hj] using h

/-- an update of one actor record that keeps `host`, `ended`, a set `wannadie`, and adds nothing to `waiting` -/
theorem mono_setActor (t : St) (a : Nat) (f : Actor → Actor)
    (hf : ∀ x, (f x).host = x.host ∧ (f x).ended = x.ended ∧ (x.wannadie = true → (f x).wannadie = true) ∧
               ∀ j, j ∈ (f x).waiting → j ∈ x.waiting) : Mono t (t.setActor a f) := by
  refine ⟨fun c => ?_, fun c => ?_, fun c h => ?_, fun c j h => ?_, fun _ _ h => h, rfl⟩
  all_goals by_cases hc : c = a
  · subst hc; simp [St.setActor, (hf _).1]
  · simp [St.setActor, upd, hc]
  · subst hc; simp [St.setActor, (hf _).2.1]
  · simp [St.setActor, upd, hc]
  · subst hc; simp [St.setActor]; exact (hf _).2.2.1 h
  · simpa [St.setActor, upd, hc] using h
  · subst hc; simp [St.setActor] at h; exact (hf _).2.2.2 j h
  · simpa [St.setActor, upd, hc] using h

theorem mono_emit (t : St) (o : Obs) : Mono t (t.emit o) := ⟨fun _ => rfl, fun _ => rfl, fun _ h => h, fun _ _ h => h, fun _ _ h => h, rfl⟩
theorem mono_crash (t : St) : Mono t t.crash := ⟨fun _ => rfl, fun _ => rfl, fun _ h => h, fun _ _ h => h, fun _ _ h => h, rfl⟩

theorem mono_eraseActivity (t : St) (o : Option Nat) (k : Nat) : Mono t (eraseActivity t o k) := by
  cases o with
  | none => exact Mono.refl t
  | some b => exact mono_setActor t b (fun x => { x with activities := x.activities.erase k }) (fun x => ⟨rfl, rfl, id, fun _ h => h⟩)

theorem mono_failAction (t : St) (k : Nat) : Mono t (failAction t k) := by
  unfold failAction; split
  · have := mono_setAct t k (fun x => { x with action := some .failed }) (fun _ _ h => h)
    exact ⟨this.host, this.ended, this.wd, this.wsub, this.ssub, rfl⟩
  · exact Mono.refl t

theorem mono_cleanAction (t : St) (k : Nat) : Mono t (cleanAction t k) := by
  have := mono_setAct t k (fun x => { x with action := none }) (fun _ _ h => h)
  exact ⟨this.host, this.ended, this.wd, this.wsub, this.ssub, rfl⟩

theorem mono_mboxRemove (t : St) (k : Nat) : Mono t (mboxRemove t k) := by
  unfold mboxRemove; split
  · exact Mono.refl t
  · have := mono_setAct t k (fun x => { x with mbox := none }) (fun _ _ h => h)
    exact ⟨this.host, this.ended, this.wd, this.wsub, this.ssub, rfl⟩

theorem mono_unregisterAll (t : St) (a : Nat) : Mono t (unregisterAll t a) := by
  refine ⟨fun c => ?_, fun c => ?_, fun c h => ?_, fun c j h => ?_, fun b j h => unregisterAll_simc_sub t a b j h, rfl⟩
  all_goals by_cases hc : c = a
  · subst hc; simp [unregisterAll]
  · simp [unregisterAll, upd, hc]
  · subst hc; simp [unregisterAll]
  · simp [unregisterAll, upd, hc]
  · subst hc; simpa [unregisterAll] using h
  · simpa [unregisterAll, upd, hc] using h
  · subst hc; simp [unregisterAll] at h; exact h.1
  · simpa [unregisterAll, upd, hc] using h

theorem mono_markDying (t : St) (a : Nat) : Mono t (markDying t a) := by
  unfold markDying; split
  · exact mono_setActor t a _ (fun x => ⟨rfl, rfl, fun _ => rfl, fun _ h => h⟩)
  · exact Mono.refl t

theorem mono_answerTarget (t : St) (a : Nat) : Mono t (answerTarget t a).1 := by
  unfold answerTarget; (repeat' split)
  · exact Mono.refl t
  · exact mono_markDying t a
  · exact Mono.refl t
  · exact Mono.refl t

theorem mono_deliver (t : St) (a : Nat) (r : Ans) (k : Nat) : Mono t (deliver t a r k) :=
  (mono_setActor t a (fun x => { x with blocked := false }) (fun x => ⟨rfl, rfl, id, fun _ h => h⟩)).trans (mono_emit _ _)

theorem mono_execAfter (k : Nat) (t : St) (a : Nat) : Mono t (execAfter k t a) := by
  unfold execAfter
  simp only []
  have h0 := mono_setActor t a (fun x => { x with activities := x.activities.erase k }) (fun x => ⟨rfl, rfl, id, fun _ h => h⟩)
  split
  · exact h0.trans (mono_deliver _ _ _ _)
  · exact h0.trans (mono_deliver _ _ _ _)
  · exact h0.trans (mono_deliver _ _ _ _)
  · exact h0.trans (mono_crash _)

theorem commAfter_actor_frame (k : Nat) (t : St) (a c : Nat) :
    ((commAfter k t a).actors c).host = (t.actors c).host ∧ ((commAfter k t a).actors c).ended = (t.actors c).ended ∧
    ((commAfter k t a).actors c).wannadie = (t.actors c).wannadie ∧
    ((commAfter k t a).actors c).waiting = (t.actors c).waiting := by
  unfold commAfter
  simp only []
  (repeat' split) <;> simp_all [St.setActor, St.setAct, St.emit, St.crash, upd, deliver, eraseActivity] <;>
    (repeat' split) <;> simp_all [St.setActor, St.setAct, St.emit, St.crash, upd, deliver, eraseActivity] <;>
    (repeat' split) <;> simp_all [St.setActor, St.setAct, St.emit, St.crash, upd, deliver, eraseActivity]

theorem commAfter_nActors (k : Nat) (t : St) (a : Nat) : (commAfter k t a).nActors = t.nActors := by
  unfold commAfter
  simp only []
  (repeat' split) <;> simp_all [St.setActor, St.setAct, St.emit, St.crash, upd, deliver, eraseActivity] <;>
    (repeat' split) <;> simp_all [St.setActor, St.setAct, St.emit, St.crash, upd, deliver, eraseActivity]

theorem mono_commAfter (k : Nat) (t : St) (a : Nat) : Mono t (commAfter k t a) := by
  refine ⟨fun c => (commAfter_actor_frame k t a c).1, fun c => (commAfter_actor_frame k t a c).2.1,
    fun c h => by rw [(commAfter_actor_frame k t a c).2.2.1]; exact h,
    fun c j h => by rw [(commAfter_actor_frame k t a c).2.2.2] at h; exact h,
    fun b j h => by rw [commAfter_simc] at h; exact h, commAfter_nActors k t a⟩

end SgVerif.C10
