import SgVerif.C31.Lemmas
/-
C31 — Predefined reduction operators compute MPI results.  Property theorems (nothing else in this file).

The operator table (`allRows`: 376 (operator, MPI datatype, C element type, per-element statements) rows) is generated
from smpi_op.cpp on every run.  Facts about the *table* are finite and proved by `decide` (labelled "finite table");
everything about *values* is ∀ widths, ∀ values, ∀ array lengths (Lemmas.lean) and lifted over the table through the
decidable classification `Row.wellFormed` / `Row.typed`.
-/
set_option linter.unusedSimpArgs false
set_option maxRecDepth 100000
namespace SgVerif.C31

/-- the spec kind of the row's datatype and the C type of the row agree whenever MPI defines the operator there -/
def Row.typed (r : Row) : Bool :=
  match opKind r.op, ctyOf r.cty with
  | some k, some t => !specDefined k (mpiKind r.dt) || tyMatches (mpiKind r.dt) t
  | _, _ => false

/-- (finite table) every generated row has a known operator, a known C type, and its statements are exactly the
    expected expansion of its `*_OP` macro for that type shape -/
theorem table_rows_canonical : allRows.all Row.wellFormed = true := by decide

/-- (finite table) ... and the C type represents the MPI datatype the way MPI defines it, wherever MPI defines the op -/
theorem table_rows_typed : allRows.all Row.typed = true := by decide

theorem row_facts (r : Row) (hr : r ∈ allRows) (k : OpK) (t : CTy) (hk : opKind r.op = some k)
    (ht : ctyOf r.cty = some t) :
    r.body = canonBody k t ∧ (specDefined k (mpiKind r.dt) = true → tyMatches (mpiKind r.dt) t = true) := by
  have h1 := List.all_eq_true.mp table_rows_canonical r hr
  have h2 := List.all_eq_true.mp table_rows_typed r hr
  simp only [Row.wellFormed, hk, ht, beq_iff_eq] at h1
  simp only [Row.typed, hk, ht, Bool.or_eq_true, Bool.not_eq_true'] at h2
  refine ⟨h1, fun hd => ?_⟩
  rcases h2 with h | h
  · rw [hd] at h; cases h
  · exact h

/-- no predefined datatype is a "(re, im) struct" complex any more (the Fortran complex types are C complex types
    since props/C31/fix_series/02): the exclusion of `canon_eq_spec` is void for every datatype name -/
theorem mpiKind_ne_fcomplex (dt : String) : mpiKind dt ≠ .fcomplex := by
  unfold mpiKind
  split <;> simp

/-- FULL STRENGTH: ∀ row of the table on which MPI defines the operator, ∀ arrays: the loop computes the element-wise
    MPI result.  ∀ rows, ∀ element widths, ∀ values, ∀ array lengths.  (Before the fix this was
    `op_elementwise_spec_partial`, excluding MPI_PROD on MPI_COMPLEX8/16/32: see `op_elementwise_spec_prefix_regression`.) -/
theorem op_elementwise_spec (r : Row) (hr : r ∈ allRows) (k : OpK) (t : CTy)
    (hk : opKind r.op = some k) (ht : ctyOf r.cty = some t)
    (hdef : specDefined k (mpiKind r.dt) = true)
    (a b : List Val) (ha : ∀ v ∈ a, v.hasTy t = true) (hb : ∀ v ∈ b, v.hasTy t = true) (hl : a.length = b.length) :
    applyLoop t r.body a b = Spec.arrays k (mpiKind r.dt) t a b ∧ (Spec.arrays k (mpiKind r.dt) t a b).isSome = true := by
  obtain ⟨hb', hm⟩ := row_facts r hr k t hk ht
  have hx : ¬ (k = .prod ∧ mpiKind r.dt = .fcomplex) := fun h => mpiKind_ne_fcomplex r.dt h.2
  rw [hb']
  exact applyLoop_eq_spec k (mpiKind r.dt) t _ (fun x y hx' hy' => canon_eq_spec k _ t hdef (hm hdef) hx x y hx' hy') a b ha hb hl

/-- the element-wise definition: result i is `a[i] ∘ b[i]`, same length -/
theorem op_elementwise_spec_pointwise (k : OpK) (mk : MKind) (t : CTy) (a b r : List Val)
    (h : Spec.arrays k mk t a b = some r) :
    r.length = a.length ∧ ∀ i (h1 : i < a.length) (h2 : i < b.length) (h3 : i < r.length),
      Spec.elem k mk t a[i] b[i] = some r[i] := arrays_getElem k mk t a b r h

/-- REGRESSION (the code before props/C31/fix_series/02): MPI_PROD on MPI_COMPLEX8 was the row
    `("MPI_COMPLEX8", "float_float", PROD_OP_COMPLEX)` of the pair loop, and (1+i)·(1+i) gave 1+i instead of 2i.  That row is
    no longer in the table; the row that replaced it (`float _Complex`, `PROD_OP`) is reachable and gives 2i. -/
theorem op_elementwise_spec_prefix_regression :
    let old : Row := ⟨"MPI_PROD", "MPI_COMPLEX8", "float_float", canonBody .prod (.pair (.flt .f32) (.flt .f32))⟩
    let t : CTy := .pair (.flt .f32) (.flt .f32)
    let z : Val := .pair (.flt 1) (.flt 1)
    ctyOf old.cty = some t ∧
    applyLoop t old.body [z] [z] = some [.pair (.flt 1) (.flt 1)] ∧
    Spec.arrays .prod .fcomplex t [z] [z] = some [.pair (.flt 0) (.flt 2)] ∧
    old ∉ allRows ∧
    (let new : Row := ⟨"MPI_PROD", "MPI_COMPLEX8", "float _Complex", canonBody .prod (.cplx .f32)⟩
     new ∈ allRows ∧ new.reachable = true ∧ mpiKind new.dt = .complex ∧
     applyLoop (.cplx .f32) new.body [.cplx 1 1] [.cplx 1 1] = some [.cplx 0 2]) := by
  decide

/-- MINLOC / MAXLOC rows: every such row of the table, on every well-typed pair of (value, index) pairs, computes
    MPI's definition `Spec.locOp` (which is total on them) -/
theorem minloc_maxloc_spec (r : Row) (hr : r ∈ allRows) (isMax : Bool)
    (hop : opKind r.op = some (if isMax then .maxloc else .minloc)) (t : CTy) (ht : ctyOf r.cty = some t)
    (hdef : mpiKind r.dt = .locpair)
    (a b : Val) (ha : a.hasTy t = true) (hb : b.hasTy t = true) :
    execBody t a b r.body = Spec.elem (if isMax then .maxloc else .minloc) .locpair t a b ∧
    (Spec.elem (if isMax then .maxloc else .minloc) .locpair t a b).isSome = true := by
  obtain ⟨hb', hm⟩ := row_facts r hr _ t hop ht
  rw [hb']
  have hd : specDefined (if isMax then OpK.maxloc else OpK.minloc) (mpiKind r.dt) = true := by
    rw [hdef]; cases isMax <;> rfl
  have := canon_eq_spec _ _ t hd (hm hd) (by cases isMax <;> simp) a b ha hb
  rw [hdef] at this
  exact this

/-- ties go to the lowest index; otherwise the pair holding the min (MINLOC) / max (MAXLOC) value wins.
    ∀ widths, ∀ signedness, ∀ values (integer value and index; same statement holds for float members by `Spec.locOp`) -/
theorem minloc_maxloc_lowest_index (isMax sgv sgi : Bool) (wv wi : Nat) (u v : BitVec wv) (i j : BitVec wi) :
    let res := Spec.locOp isMax sgv sgi (.int wv u) (.int wi i) (.int wv v) (.int wi j)
    (ival sgv u = ival sgv v → res = some (.pair (.int wv u) (.int wi (if ival sgi i < ival sgi j then i else j)))) ∧
    (ival sgv u < ival sgv v → res = some (if isMax then .pair (.int wv v) (.int wi j) else .pair (.int wv u) (.int wi i))) ∧
    (ival sgv v < ival sgv u → res = some (if isMax then .pair (.int wv u) (.int wi i) else .pair (.int wv v) (.int wi j))) := by
  refine ⟨fun h => ?_, fun h => ?_, fun h => ?_⟩
  · have h1 : ¬ ival sgv u < ival sgv v := by omega
    have h2 : ¬ ival sgv v < ival sgv u := by omega
    by_cases h3 : ival sgi i < ival sgi j <;> simp [Spec.locOp, Spec.sLt, h1, h2, h3]
  · cases isMax <;> simp [Spec.locOp, Spec.sLt, h]
  · have h1 : ¬ ival sgv u < ival sgv v := by omega
    cases isMax <;> simp [Spec.locOp, Spec.sLt, h, h1]

/-- SUM / PROD are exact whenever the exact result is representable in the element type -/
theorem sum_prod_exact_when_representable (sg : Bool) (w : Nat) (x y : BitVec w) :
    (∀ z : BitVec w, ival sg z = ival sg x + ival sg y → Spec.intOp .sum sg x y = some z) ∧
    (∀ z : BitVec w, ival sg z = ival sg x * ival sg y → Spec.intOp .prod sg x y = some z) := by
  constructor <;> intro z hz <;> simp [Spec.intOp, ← hz, ofInt_ival]

/-- commutativity of the ten integer operators: ∀ width, signedness, values -/
theorem op_comm (k : OpK) (sg : Bool) (w : Nat) (x y : BitVec w) : Spec.intOp k sg x y = Spec.intOp k sg y x := by
  cases k <;> simp only [Spec.intOp]
  case max =>
    by_cases h1 : ival sg x < ival sg y <;> by_cases h2 : ival sg y < ival sg x <;> simp [h1, h2]
    · omega
    · exact ival_inj sg x y (by omega)
  case min =>
    by_cases h1 : ival sg x < ival sg y <;> by_cases h2 : ival sg y < ival sg x <;> simp [h1, h2]
    · omega
    · exact (ival_inj sg x y (by omega)).symm
  case sum => rw [Int.add_comm]
  case prod => rw [Int.mul_comm]
  case land => simp [and_comm]
  case lor => simp [or_comm]
  case lxor => by_cases hx : x = 0#w <;> by_cases hy : y = 0#w <;> simp [hx, hy]
  case band => rw [BitVec.and_comm]
  case bor => rw [BitVec.or_comm]
  case bxor => rw [BitVec.xor_comm]

/-- associativity of the ten integer operators (SUM/PROD with wrap-around): ∀ width, signedness, values -/
theorem op_assoc (k : OpK) (sg : Bool) (w : Nat) (x y z : BitVec w) :
    (Spec.intOp k sg x y).bind (fun r => Spec.intOp k sg r z) = (Spec.intOp k sg y z).bind (fun r => Spec.intOp k sg x r) := by
  by_cases hw : w = 0
  · subst hw
    have e : ∀ p q : BitVec 0, p = q := fun p q => by rw [BitVec.of_length_zero (x := p), BitVec.of_length_zero (x := q)]
    cases k <;> simp only [Spec.intOp, Option.bind_some, Option.bind_none] <;> exact congrArg some (e _ _)
  have one := ofNat_one_ne_zero hw
  cases k <;> simp only [Spec.intOp, Option.bind_some, Option.bind_none]
  case max =>
    by_cases h1 : ival sg x < ival sg y <;> by_cases h2 : ival sg y < ival sg z <;>
      by_cases h3 : ival sg x < ival sg z <;> simp [h1, h2, h3] <;> omega
  case min =>
    by_cases h1 : ival sg x < ival sg y <;> by_cases h2 : ival sg y < ival sg z <;>
      by_cases h3 : ival sg x < ival sg z <;> simp [h1, h2, h3] <;> omega
  case sum =>
    have e2 : BitVec.ofInt w (ival sg x + ival sg (BitVec.ofInt w (ival sg y + ival sg z))) =
        BitVec.ofInt w (ival sg x + (ival sg y + ival sg z)) := by
      rw [Int.add_comm, ofInt_ival_add, Int.add_comm]
    rw [ofInt_ival_add, e2, Int.add_assoc]
  case prod =>
    have e2 : BitVec.ofInt w (ival sg x * ival sg (BitVec.ofInt w (ival sg y * ival sg z))) =
        BitVec.ofInt w (ival sg x * (ival sg y * ival sg z)) := by
      rw [Int.mul_comm, ofInt_ival_mul, Int.mul_comm]
    rw [ofInt_ival_mul, e2, Int.mul_assoc]
  case land => by_cases hx : x = 0#w <;> by_cases hy : y = 0#w <;> by_cases hz : z = 0#w <;> simp [hx, hy, hz, one]
  case lor => by_cases hx : x = 0#w <;> by_cases hy : y = 0#w <;> by_cases hz : z = 0#w <;> simp [hx, hy, hz, one]
  case lxor => by_cases hx : x = 0#w <;> by_cases hy : y = 0#w <;> by_cases hz : z = 0#w <;> simp [hx, hy, hz, one]
  case band => rw [BitVec.and_assoc]
  case bor => rw [BitVec.or_assoc]
  case bxor => rw [BitVec.xor_assoc]

/-- "supported" = CHECK_OP lets the pair through and the operator function has an entry for the datatype -/
def supported (o : OpDecl) (d : DtDecl) : Bool :=
  checkOp o d && match lookupFunc o.func with
    | some (.loops es) => (findEntry es d.name).isSome
    | some _ => true
    | none => false

/-- an unsupported (operator, datatype) pair never yields a computed result: `MPI_Reduce_local` returns MPI_ERR_OP
    leaving the buffer untouched (CHECK_OP: MPI_REPLACE / MPI_NO_OP outside RMA, or datatype family not allowed), or the
    operator function aborts the simulation (`xbt_die("Failed to apply ...")`); with `count = 0` nothing is applied.
    ∀ operator / datatype names, ∀ buffers. -/
theorem unsupported_rejected (op dt : String) (o : OpDecl) (d : DtDecl) (ho : lookupOp op = some o)
    (hd : lookupDt dt = some d) (hdn : d.name = dt) (hns : supported o d = false) (a b : List Val) (out : Outcome)
    (h : reduceLocal op dt a b = some out) :
    out = .errOp ∨ out = .errType ∨ out = .die ∨ (a.length = 0 ∧ out = .ok b) := by
  unfold reduceLocal at h
  simp only [ho, hd] at h
  split at h
  · injection h with h; simp [← h]
  split at h
  · injection h with h; simp [← h]
  split at h
  · rename_i hl; injection h with h; simp at hl; simp [← h, hl]
  rename_i hc _
  simp only [Bool.not_eq_true', Bool.not_eq_false] at hc
  have hc' : checkOp o d = true := by simpa using hc
  unfold supported at hns
  simp only [hc', Bool.true_and] at hns
  split at h
  · rename_i f hf
    rw [hf] at hns
    cases f with
    | loops es =>
      simp only [Option.isSome_eq_false_iff, Option.isNone_iff_eq_none] at hns
      rw [hdn] at hns
      simp [applyFunc, hns] at h
      simp [← h]
    | memcpy => simp at hns
    | nothing => simp at hns
  · cases h

/-- (finite table) MPI_REPLACE and MPI_NO_OP are rejected by `MPI_Reduce_local` for every datatype -/
theorem replace_noop_rejected : Gen.datatypes.all (fun d => Gen.ops.all (fun o =>
    !(o.name == "MPI_REPLACE" || o.name == "MPI_NO_OP") || !checkOp o d)) = true := by decide

/-- the size in bytes of a C type name (LP64), `none` for an unknown name -/
def sizeOfC (s : String) : Option Nat := (ctyOf s).map CTy.size

/-- (finite table) `table_types_have_matching_width`, internal consistency: the C element type used by every row of
    every operator function has the size of the C type the MPI datatype was declared with (CREATE_MPI_DATATYPE) -/
theorem table_types_have_matching_width : allRows.all (fun r =>
    match lookupDt r.dt with
    | some d => (sizeOfC r.cty).isSome && sizeOfC r.cty == sizeOfC d.ctype
    | none => false) = true := by decide

/-- FULL STRENGTH (finite table): every predefined datatype whose size MPI fixes has that size.  (Before
    props/C31/fix_series/01 and 03 this was `table_types_have_mpi_width_partial`, excluding MPI_INTEGER1 and MPI_COMPLEX32.) -/
theorem table_types_have_mpi_width : Gen.datatypes.all (fun d =>
    match mpiFixedSize d.name with
    | some n => sizeOfC d.ctype == some n
    | none => true) = true := by decide

/-- REGRESSION (the declarations before the fixes): MPI_INTEGER1 was declared and reduced as `int` (4 bytes, MPI: 1) and
    MPI_COMPLEX32 as `double_double` (16 bytes, MPI: 32); the current declarations have the MPI sizes. -/
theorem table_types_have_mpi_width_prefix_regression :
    sizeOfC "int" = some 4 ∧ mpiFixedSize "MPI_INTEGER1" = some 1 ∧
    sizeOfC "double_double" = some 16 ∧ mpiFixedSize "MPI_COMPLEX32" = some 32 ∧
    (lookupDt "MPI_INTEGER1").bind (fun d => sizeOfC d.ctype) = some 1 ∧
    (lookupDt "MPI_COMPLEX32").bind (fun d => sizeOfC d.ctype) = some 32 := by
  decide

/-! non-vacuity -/

/-- the table has rows of every operator kind on which MPI defines the operator, well typed -/
example : (allRows.filter (fun r => match opKind r.op with
    | some k => specDefined k (mpiKind r.dt) && r.reachable
    | none => false)).length = 312 := by decide

/-- a concrete instance of `op_elementwise_spec`: MPI_MAX on MPI_SHORT, signed comparison -/
example : applyLoop (.int 16 true) (canonBody .max (.int 16 true))
    [.int 16 0xFFFF#16, .int 16 5#16] [.int 16 1#16, .int 16 7#16] = some [.int 16 1#16, .int 16 7#16] := by decide

/-- `unsupported_rejected` is not vacuous: MPI_MAXLOC on MPI_INT is unsupported and rejected with MPI_ERR_OP;
    MPI_LAND on MPI_CXX_BOOL passes CHECK_OP but has no entry: the simulation dies -/
example : reduceLocal "MPI_MAXLOC" "MPI_INT" [.int 32 1#32] [.int 32 2#32] = some .errOp ∧
    reduceLocal "MPI_LAND" "MPI_CXX_BOOL" [.bool true] [.bool true] = some .die := by decide

end SgVerif.C31
