import SgVerif.C31.Gen
/-
C31 — executable model of the predefined reduction operators of SMPI (src/smpi/mpi/smpi_op.cpp).

  * the table (operator function -> list of (MPI datatype handle, C element type, per-element statements)) is
    GENERATED (Gen.lean) from the macro-expanded source; nothing of it is hand-written here;
  * this file gives the C++ semantics of those statements (`execBody`: an interpreter of the little AST of
    Ast.lean on typed values), the loop of `APPLY_FUNC`, `Op::apply`, `CHECK_OP` and `PMPI_Reduce_local`;
  * `Spec.*` is the MPI standard's definition of the operators (MPI-4.0 §6.9.2, §6.9.4), keyed by what the *MPI
    datatype* is — not by the C type SMPI chose for it.
Integer elements are `BitVec w`; signedness comes from the static C type.  Floating values are an abstract ordered
ring of exactly representable values (`Int`): no rounding model.  Data model: LP64 x86-64 Linux (sizeof table
checked against the library by the `size` queries of the correspondence).
-/
namespace SgVerif.C31

/-! ## C types (LP64) -/

inductive FK where
  | f32 | f64 | f80
  deriving DecidableEq, Repr, Inhabited

inductive CTy where
  | int (w : Nat) (signed : Bool)
  | bool
  | flt (k : FK)
  | cplx (k : FK)
  | pair (v i : CTy)
  deriving DecidableEq, Repr, Inhabited

def scalarTy : String → Option CTy
  | "char" => some (.int 8 true)           -- x86: plain char is signed
  | "signed char" => some (.int 8 true)
  | "int8_t" => some (.int 8 true)
  | "unsigned char" => some (.int 8 false)
  | "uint8_t" => some (.int 8 false)
  | "short" => some (.int 16 true)
  | "int16_t" => some (.int 16 true)
  | "unsigned short" => some (.int 16 false)
  | "uint16_t" => some (.int 16 false)
  | "int" => some (.int 32 true)
  | "int32_t" => some (.int 32 true)
  | "wchar_t" => some (.int 32 true)
  | "unsigned int" => some (.int 32 false)
  | "uint32_t" => some (.int 32 false)
  | "long" => some (.int 64 true)
  | "long long" => some (.int 64 true)
  | "int64_t" => some (.int 64 true)
  | "MPI_Aint" => some (.int 64 true)      -- ptrdiff_t
  | "MPI_Offset" => some (.int 64 true)    -- long long
  | "unsigned long" => some (.int 64 false)
  | "unsigned long long" => some (.int 64 false)
  | "uint64_t" => some (.int 64 false)
  | "void*" => some (.int 64 false)
  | "bool" => some .bool
  | "float" => some (.flt .f32)
  | "double" => some (.flt .f64)
  | "long double" => some (.flt .f80)
  | "float _Complex" => some (.cplx .f32)
  | "double _Complex" => some (.cplx .f64)
  | "long double _Complex" => some (.cplx .f80)
  | "std::complex<float>" => some (.cplx .f32)
  | "std::complex<double>" => some (.cplx .f64)
  | "std::complex<long double>" => some (.cplx .f80)
  | _ => none

/-- C type name -> type; the `struct {T value; U index;}` types come from the generated `pairStructs` -/
def ctyOf (s : String) : Option CTy :=
  match scalarTy s with
  | some t => some t
  | none =>
    match Gen.pairStructs.find? (fun p => p.1 == s) with
    | some (_, v, i) =>
      match scalarTy v, scalarTy i with
      | some v, some i => some (.pair v i)
      | _, _ => none
    | none => none

def FK.size : FK → Nat
  | .f32 => 4 | .f64 => 8 | .f80 => 16

def roundUp (n a : Nat) : Nat := (n + a - 1) / a * a

def CTy.align : CTy → Nat
  | .int w _ => w / 8
  | .bool => 1
  | .flt k => k.size
  | .cplx k => k.size
  | .pair v i => max v.align i.align

def CTy.size : CTy → Nat
  | .int w _ => w / 8
  | .bool => 1
  | .flt k => k.size
  | .cplx k => 2 * k.size
  | .pair v i => roundUp (roundUp v.size i.align + i.size) (max v.align i.align)

/-- byte offset of `.index` in a pair struct -/
def CTy.indexOff : CTy → Nat
  | .pair v i => roundUp v.size i.align
  | _ => 0

/-! ## values -/

inductive Val where
  | int (w : Nat) (v : BitVec w)
  | bool (b : Bool)
  | flt (q : Int)
  | cplx (re im : Int)
  | pair (v i : Val)
  deriving DecidableEq, Repr, Inhabited

def Val.hasTy : Val → CTy → Bool
  | .int w _, .int w' _ => w == w'
  | .bool _, .bool => true
  | .flt _, .flt _ => true
  | .cplx _ _, .cplx _ => true
  | .pair v i, .pair tv ti => v.hasTy tv && i.hasTy ti
  | _, _ => false

/-- the mathematical value of an integer object of a signed / unsigned C type -/
def ival (signed : Bool) {w : Nat} (v : BitVec w) : Int := if signed then v.toInt else (v.toNat : Int)

/-- contextual conversion to bool (`if (x)`, `x && y`, `bool(x)`) -/
def truthy : Val → Option Bool
  | .int _ v => some (v.toNat != 0)
  | .bool b => some b
  | .flt q => some (q != 0)
  | _ => none

/-- conversion of `v` to type `t`: `static_cast<T>(bool)` gives 0/1; otherwise the identity on a value of type t -/
def convert (t : CTy) (v : Val) : Option Val :=
  match t, v with
  | .int w _, .bool b => some (.int w (BitVec.ofNat w b.toNat))
  | .flt _, .bool b => some (.flt (b.toNat : Int))
  | t, v => if v.hasTy t then some v else none

/-- `l < r` after the usual arithmetic conversions (both operands have the same type here, so integer promotion
    preserves both values and the comparison is the one of the mathematical values) -/
def cmpLt (tl : CTy) (vl : Val) (tr : CTy) (vr : Val) : Option Bool :=
  if tl ≠ tr then none else
  match tl, vl, vr with
  | .int _ sg, .int _ x, .int _ y => some (decide (ival sg x < ival sg y))
  | .bool, .bool x, .bool y => some (!x && y)
  | .flt _, .flt x, .flt y => some (decide (x < y))
  | _, _, _ => none

def cmpEq (tl : CTy) (vl : Val) (tr : CTy) (vr : Val) : Option Bool :=
  if tl ≠ tr then none else
  match tl, vl, vr with
  | .int _ sg, .int _ x, .int _ y => some (decide (ival sg x = ival sg y))
  | .bool, .bool x, .bool y => some (x == y)
  | .flt _, .flt x, .flt y => some (decide (x = y))
  | _, _, _ => none

def evalEx (t : CTy) (a b : Val) : Ex → Option (CTy × Val)
  | .a => some (t, a)
  | .b => some (t, b)
  | .value e =>
    match evalEx t a b e with
    | some (.pair tv _, .pair v _) => some (tv, v)
    | _ => none
  | .index e =>
    match evalEx t a b e with
    | some (.pair _ ti, .pair _ i) => some (ti, i)
    | _ => none
  | .lt l r =>
    match evalEx t a b l, evalEx t a b r with
    | some (tl, vl), some (tr, vr) => (cmpLt tl vl tr vr).map (fun c => (CTy.bool, Val.bool c))
    | _, _ => none
  | .eq l r =>
    match evalEx t a b l, evalEx t a b r with
    | some (tl, vl), some (tr, vr) => (cmpEq tl vl tr vr).map (fun c => (CTy.bool, Val.bool c))
    | _, _ => none
  | .ne l r =>
    match evalEx t a b l, evalEx t a b r with
    | some (tl, vl), some (tr, vr) => (cmpEq tl vl tr vr).map (fun c => (CTy.bool, Val.bool (!c)))
    | _, _ => none
  | .land l r =>
    match evalEx t a b l, evalEx t a b r with
    | some (_, vl), some (_, vr) =>
      match truthy vl, truthy vr with
      | some x, some y => some (CTy.bool, Val.bool (x && y))
      | _, _ => none
    | _, _ => none
  | .lor l r =>
    match evalEx t a b l, evalEx t a b r with
    | some (_, vl), some (_, vr) =>
      match truthy vl, truthy vr with
      | some x, some y => some (CTy.bool, Val.bool (x || y))
      | _, _ => none
    | _, _ => none
  | .cond c x y =>
    match evalEx t a b c with
    | some (_, vc) =>
      match truthy vc with
      | some true => evalEx t a b x
      | some false => evalEx t a b y
      | none => none
    | none => none
  | .toBool e =>
    match evalEx t a b e with
    | some (_, v) => (truthy v).map (fun c => (CTy.bool, Val.bool c))
    | none => none
  | .castB e =>
    match evalEx t a b e with
    | some (_, v) => (convert t v).map (fun v' => (t, v'))
    | none => none

/-- read an lvalue (only `y[i]`, `y[i].value`, `y[i].index` are assigned to) -/
def getL (t : CTy) (b : Val) : Ex → Option (CTy × Val)
  | .b => some (t, b)
  | .value .b => match t, b with
    | .pair tv _, .pair v _ => some (tv, v)
    | _, _ => none
  | .index .b => match t, b with
    | .pair _ ti, .pair _ i => some (ti, i)
    | _, _ => none
  | _ => none

def setL (b : Val) (lhs : Ex) (nv : Val) : Option Val :=
  match lhs, b with
  | .b, _ => some nv
  | .value .b, .pair _ i => some (.pair nv i)
  | .index .b, .pair v _ => some (.pair v nv)
  | _, _ => none

/-- `l op= r` on objects of the same type.  Integers: operands are promoted (to int / long), the operation is done
    on the promoted values, the result is truncated to the width of `l` on the store.  Because 2^w divides 2^32 the
    stored result is the w-bit wrap of the exact result; (signed overflow of int/long is UB in C and is modelled
    as wrap-around: the generators avoid it). -/
def arith (op : AOp) (tl : CTy) (vl : Val) (tr : CTy) (vr : Val) : Option Val :=
  if tl ≠ tr then none else
  match tl, vl, vr with
  | .int w sg, .int _ x, .int _ y =>
    match op with
    | .add => some (.int w (BitVec.ofInt w (ival sg x + ival sg y)))
    | .mul => some (.int w (BitVec.ofInt w (ival sg x * ival sg y)))
    | .band => some (.int w (BitVec.ofNat w (x.toNat &&& y.toNat)))
    | .bor => some (.int w (BitVec.ofNat w (x.toNat ||| y.toNat)))
    | .bxor => some (.int w (BitVec.ofNat w (x.toNat ^^^ y.toNat)))
    | .set => none
  | .bool, .bool x, .bool y =>       -- bool promoted to int, result converted back to bool (≠ 0)
    match op with
    | .add => some (.bool (x || y))
    | .mul => some (.bool (x && y))
    | .band => some (.bool (x && y))
    | .bor => some (.bool (x || y))
    | .bxor => some (.bool (x != y))
    | .set => none
  | .flt _, .flt x, .flt y =>
    match op with
    | .add => some (.flt (x + y))
    | .mul => some (.flt (x * y))
    | _ => none                       -- `&=` on a floating type does not compile
  | .cplx _, .cplx xr xi, .cplx yr yi =>
    match op with
    | .add => some (.cplx (xr + yr) (xi + yi))
    | .mul => some (.cplx (xr * yr - xi * yi) (xr * yi + xi * yr))
    | _ => none
  | _, _, _ => none

def execSt (t : CTy) (a b : Val) (s : St) : Option Val :=
  match getL t b s.lhs, evalEx t a b s.rhs with
  | some (tl, vl), some (tr, vr) =>
    let nv := match s.op with
      | .set => if tl = tr then convert tl vr else none
      | op => arith op tl vl tr vr
    match nv with
    | some nv => setL b s.lhs nv
    | none => none
  | _, _ => none

/-- the statements of one loop iteration: `func(x[i], y[i])`; returns the new `y[i]` -/
def execBody (t : CTy) (a : Val) : Val → List St → Option Val
  | b, [] => some b
  | b, s :: ss =>
    match execSt t a b s with
    | some b' => execBody t a b' ss
    | none => none

/-- `APPLY_FUNC`: `for(i = 0; i < *length; i++) func(x[i], y[i]);` — the two arrays have `*length` elements -/
def applyLoop (t : CTy) (body : List St) : List Val → List Val → Option (List Val)
  | [], [] => some []
  | x :: xs, y :: ys =>
    match execBody t x y body, applyLoop t body xs ys with
    | some y', some r => some (y' :: r)
    | _, _ => none
  | _, _ => none

/-! ## operator functions, `Op::apply`, `CHECK_OP`, `PMPI_Reduce_local` -/

inductive Outcome where
  | ok (out : List Val)      -- MPI_SUCCESS, contents of inoutbuf
  | errOp                    -- MPI_ERR_OP returned by CHECK_OP, inoutbuf untouched
  | errType                  -- MPI_ERR_TYPE (MPI_DATATYPE_NULL)
  | die                      -- xbt_die("Failed to apply ...")
  deriving DecidableEq, Repr, Inhabited

def lookupFunc (f : String) : Option FuncBody := (Gen.funcs.find? (fun p => p.1 == f)).map (·.2)
def lookupOp (o : String) : Option OpDecl := Gen.ops.find? (fun p => p.name == o)
def lookupDt (d : String) : Option DtDecl := Gen.datatypes.find? (fun p => p.name == d)

def findEntry (es : List (String × String × List St)) (dt : String) : Option (String × String × List St) :=
  es.find? (fun e => e.1 == dt)

/-- the operator function on `*length > 0` elements; `dt` is the base of the `duplicated_datatype()` chain -/
def applyFunc (f : FuncBody) (dt : String) (a b : List Val) : Option Outcome :=
  match f with
  | .loops es =>
    match findEntry es dt with
    | none => some .die
    | some (_, cty, body) =>
      match ctyOf cty with
      | none => none
      | some t => (applyLoop t body a b).map .ok
  | .memcpy => some (.ok a)
  | .nothing => some (.ok b)

def flagValue (f : String) : Nat := ((Gen.flagValues.find? (fun p => p.1 == f)).map (·.2)).getD 0
def flagsOr (fs : List String) : Nat := fs.foldl (fun acc f => acc ||| flagValue f) 0
/-- `DT_FLAG_BASIC | flag` -/
def DtDecl.flagBits (d : DtDecl) : Nat := flagsOr Gen.basicFlags ||| flagsOr d.flags
def OpDecl.allowed (o : OpDecl) : Nat := flagsOr o.flags

/-- `CHECK_OP(5, op, datatype)` : true = passes -/
def checkOp (o : OpDecl) (d : DtDecl) : Bool :=
  !(o.name == "MPI_REPLACE" || o.name == "MPI_NO_OP") &&
  !(o.allowed != 0 && (o.allowed &&& d.flagBits) == 0)

/-- `PMPI_Reduce_local(inbuf, inoutbuf, count, datatype, op)` for a predefined operator and a predefined datatype
    (or a dup of one), `count = a.length = b.length`.  `none` = the model cannot answer (unknown name). -/
def reduceLocal (op dt : String) (a b : List Val) : Option Outcome :=
  match lookupOp op, lookupDt dt with
  | some o, some d =>
    if d.ctype == "" then some .errType          -- CHECK_TYPE (MPI_DATATYPE_NULL; MPI_UB/MPI_LB are not exercised)
    else if !checkOp o d then some .errOp
    else if a.length == 0 then some (.ok b)      -- Op::apply: `*len > 0`
    else
      match lookupFunc o.func with
      | some f => applyFunc f dt a b
      | none => none
  | _, _ => none

/-! ## the MPI standard's definition (spec) -/

inductive OpK where
  | max | min | sum | prod | land | lor | lxor | band | bor | bxor | minloc | maxloc
  deriving DecidableEq, Repr, Inhabited

def opKind : String → Option OpK
  | "MPI_MAX" => some .max | "MPI_MIN" => some .min | "MPI_SUM" => some .sum | "MPI_PROD" => some .prod
  | "MPI_LAND" => some .land | "MPI_LOR" => some .lor | "MPI_LXOR" => some .lxor
  | "MPI_BAND" => some .band | "MPI_BOR" => some .bor | "MPI_BXOR" => some .bxor
  | "MPI_MINLOC" => some .minloc | "MPI_MAXLOC" => some .maxloc
  | _ => none

/-- what the MPI standard says a predefined datatype is, for reductions -/
inductive MKind where
  | integer (signed : Bool)    -- C integer, Fortran integer, multi-language (MPI_AINT, MPI_OFFSET, MPI_COUNT), MPI_BYTE
  | fp
  | logical
  | complex                    -- C complex types: the element is one complex number
  | fcomplex                   -- one complex number stored as a (re, im) struct: how SMPI represented the Fortran
                               -- COMPLEX*n types before they became C complex types (no datatype has this kind any
                               -- more, see `mpiKind_ne_fcomplex`; kept for the regression theorem of Props.lean)
  | locpair                    -- (value, index) pairs for MINLOC / MAXLOC
  | other
  deriving DecidableEq, Repr, Inhabited

def mpiKind : String → MKind
  | "MPI_CHAR" => .integer true | "MPI_SHORT" => .integer true | "MPI_INT" => .integer true
  | "MPI_LONG" => .integer true | "MPI_LONG_LONG" => .integer true | "MPI_SIGNED_CHAR" => .integer true
  | "MPI_UNSIGNED_CHAR" => .integer false | "MPI_UNSIGNED_SHORT" => .integer false | "MPI_UNSIGNED" => .integer false
  | "MPI_UNSIGNED_LONG" => .integer false | "MPI_UNSIGNED_LONG_LONG" => .integer false
  | "MPI_WCHAR" => .integer true
  | "MPI_INT8_T" => .integer true | "MPI_INT16_T" => .integer true | "MPI_INT32_T" => .integer true
  | "MPI_INT64_T" => .integer true
  | "MPI_UINT8_T" => .integer false | "MPI_UINT16_T" => .integer false | "MPI_UINT32_T" => .integer false
  | "MPI_UINT64_T" => .integer false
  | "MPI_AINT" => .integer true | "MPI_OFFSET" => .integer true | "MPI_COUNT" => .integer true
  | "MPI_INTEGER1" => .integer true | "MPI_INTEGER2" => .integer true | "MPI_INTEGER4" => .integer true
  | "MPI_INTEGER8" => .integer true
  | "MPI_BYTE" => .integer true
  | "MPI_FLOAT" => .fp | "MPI_DOUBLE" => .fp | "MPI_LONG_DOUBLE" => .fp
  | "MPI_REAL" => .fp | "MPI_REAL4" => .fp | "MPI_REAL8" => .fp | "MPI_REAL16" => .fp
  | "MPI_C_BOOL" => .logical | "MPI_CXX_BOOL" => .logical
  | "MPI_C_FLOAT_COMPLEX" => .complex | "MPI_C_DOUBLE_COMPLEX" => .complex | "MPI_C_LONG_DOUBLE_COMPLEX" => .complex
  | "MPI_COMPLEX8" => .complex | "MPI_COMPLEX16" => .complex | "MPI_COMPLEX32" => .complex
  | "MPI_FLOAT_INT" => .locpair | "MPI_LONG_INT" => .locpair | "MPI_DOUBLE_INT" => .locpair
  | "MPI_SHORT_INT" => .locpair | "MPI_2INT" => .locpair | "MPI_2FLOAT" => .locpair | "MPI_2DOUBLE" => .locpair
  | "MPI_2LONG" => .locpair | "MPI_LONG_DOUBLE_INT" => .locpair
  | _ => .other

/-- sizes the MPI standard fixes (MPI-4.0 Table 3.x: `MPI_INTEGER1` is 1 byte, ..., `MPI_COMPLEX32` is 32 bytes) -/
def mpiFixedSize : String → Option Nat
  | "MPI_INT8_T" => some 1 | "MPI_INT16_T" => some 2 | "MPI_INT32_T" => some 4 | "MPI_INT64_T" => some 8
  | "MPI_UINT8_T" => some 1 | "MPI_UINT16_T" => some 2 | "MPI_UINT32_T" => some 4 | "MPI_UINT64_T" => some 8
  | "MPI_BYTE" => some 1
  | "MPI_INTEGER1" => some 1 | "MPI_INTEGER2" => some 2 | "MPI_INTEGER4" => some 4 | "MPI_INTEGER8" => some 8
  | "MPI_INTEGER16" => some 16
  | "MPI_REAL4" => some 4 | "MPI_REAL8" => some 8 | "MPI_REAL16" => some 16
  | "MPI_COMPLEX8" => some 8 | "MPI_COMPLEX16" => some 16 | "MPI_COMPLEX32" => some 32
  | _ => none

namespace Spec

/-- integer operators on `BitVec w` (MPI: "C integer, Fortran integer, Byte"): MAX/MIN of the mathematical values,
    SUM/PROD the exact result when representable (wrap-around otherwise — MPI leaves overflow undefined, C defines
    it for unsigned types), logical ops with C truth values, bitwise ops bit by bit.  `x` = invec, `y` = inoutvec. -/
def intOp (k : OpK) (sg : Bool) {w : Nat} (x y : BitVec w) : Option (BitVec w) :=
  match k with
  | .max => some (if ival sg x < ival sg y then y else x)
  | .min => some (if ival sg x < ival sg y then x else y)
  | .sum => some (BitVec.ofInt w (ival sg x + ival sg y))
  | .prod => some (BitVec.ofInt w (ival sg x * ival sg y))
  | .land => some (BitVec.ofNat w (if x ≠ 0 ∧ y ≠ 0 then 1 else 0))
  | .lor => some (BitVec.ofNat w (if x ≠ 0 ∨ y ≠ 0 then 1 else 0))
  | .lxor => some (BitVec.ofNat w (if (x ≠ 0) ≠ (y ≠ 0) then 1 else 0))
  | .band => some (x &&& y)
  | .bor => some (x ||| y)
  | .bxor => some (x ^^^ y)
  | .minloc => none
  | .maxloc => none

/-- floating point (exactly representable values only) -/
def fltOp (k : OpK) (x y : Int) : Option Int :=
  match k with
  | .max => some (if x < y then y else x)
  | .min => some (if x < y then x else y)
  | .sum => some (x + y)
  | .prod => some (x * y)
  | _ => none      -- MPI does not define logical / bitwise operators on floating point types

def boolOp (k : OpK) (x y : Bool) : Option Bool :=
  match k with
  | .land => some (x && y)
  | .lor => some (x || y)
  | .lxor => some (x != y)
  | _ => none      -- MPI: Logical types admit LAND, LOR, LXOR only

/-- complex numbers: SUM and PROD are the complex sum and the complex product -/
def cplxOp (k : OpK) (xr xi yr yi : Int) : Option (Int × Int) :=
  match k with
  | .sum => some (xr + yr, xi + yi)
  | .prod => some (xr * yr - xi * yi, xr * yi + xi * yr)
  | _ => none

/-- order on the scalar values that occur in (value, index) pairs -/
def sLt (sgv : Bool) : Val → Val → Option Bool
  | .int _ x, .int _ y => some (decide (ival sgv x < ival sgv y))
  | .flt x, .flt y => some (decide (x < y))
  | _, _ => none

/-- MPI-4.0 §6.9.4: MAXLOC (u,i)∘(v,j) = (w,k), w = max(u,v), k = i if u>v, min(i,j) if u=v, j if u<v; MINLOC dual.
    Signedness of value / index come from the pair's C type. -/
def locOp (isMax : Bool) (sgv sgi : Bool) (u i v j : Val) : Option Val :=
  match sLt sgv u v, sLt sgv v u, sLt sgi i j with
  | some uv, some vu, some ij =>
    if uv then (if isMax then some (.pair v j) else some (.pair u i))
    else if vu then (if isMax then some (.pair u i) else some (.pair v j))
    else some (.pair u (if ij then i else j))
  | _, _, _ => none

def sgOf : CTy → Bool
  | .int _ sg => sg
  | _ => true

/-- the MPI result of `a ∘ b` for one element; `t` is only used for the signedness of pair members.
    `none` = MPI does not define this operator on this kind of datatype (or ill-typed values). -/
def elem (k : OpK) (mk : MKind) (t : CTy) (a b : Val) : Option Val :=
  match mk, a, b with
  | .integer sg, .int w x, .int w' y =>
    if h : w' = w then (intOp k sg x (h ▸ y)).map (Val.int w) else none
  | .fp, .flt x, .flt y => (fltOp k x y).map Val.flt
  | .logical, .bool x, .bool y => (boolOp k x y).map Val.bool
  | .complex, .cplx xr xi, .cplx yr yi => (cplxOp k xr xi yr yi).map (fun p => Val.cplx p.1 p.2)
  | .fcomplex, .pair (.flt xr) (.flt xi), .pair (.flt yr) (.flt yi) =>
    (cplxOp k xr xi yr yi).map (fun p => Val.pair (.flt p.1) (.flt p.2))
  | .locpair, .pair u i, .pair v j =>
    match t, k with
    | .pair tv ti, .minloc => locOp false (sgOf tv) (sgOf ti) u i v j
    | .pair tv ti, .maxloc => locOp true (sgOf tv) (sgOf ti) u i v j
    | _, _ => none
  | _, _, _ => none

/-- element-wise definition on arrays -/
def arrays (k : OpK) (mk : MKind) (t : CTy) : List Val → List Val → Option (List Val)
  | [], [] => some []
  | x :: xs, y :: ys =>
    match elem k mk t x y, arrays k mk t xs ys with
    | some r, some rs => some (r :: rs)
    | _, _ => none
  | _, _ => none

end Spec

/-! ## classification of generated entries (used to lift the ∀-values lemmas over the finite table) -/

/-- the statements each `*_OP` macro is expected to expand to, per operator kind and element type shape -/
def canonBody (k : OpK) (t : CTy) : List St :=
  let isPair := match t with | .pair _ _ => true | _ => false
  match k with
  | .max => [⟨.set, .b, .cond (.lt .a .b) .b .a⟩]
  | .min => [⟨.set, .b, .cond (.lt .a .b) .a .b⟩]
  | .sum => if isPair then [⟨.add, .value .b, .value .a⟩, ⟨.add, .index .b, .index .a⟩] else [⟨.add, .b, .a⟩]
  | .prod => if isPair then [⟨.mul, .value .b, .value .a⟩, ⟨.mul, .index .b, .index .a⟩] else [⟨.mul, .b, .a⟩]
  | .land => [⟨.set, .b, .castB (.land .a .b)⟩]
  | .lor => [⟨.set, .b, .castB (.lor .a .b)⟩]
  | .lxor => [⟨.set, .b, .castB (.ne (.toBool .a) (.toBool .b))⟩]
  | .band => [⟨.band, .b, .a⟩]
  | .bor => [⟨.bor, .b, .a⟩]
  | .bxor => [⟨.bxor, .b, .a⟩]
  | .minloc => [⟨.set, .b, .cond (.lt (.value .a) (.value .b)) .a
                  (.cond (.eq (.value .a) (.value .b)) (.cond (.lt (.index .a) (.index .b)) .a .b) .b)⟩]
  | .maxloc => [⟨.set, .b, .cond (.lt (.value .a) (.value .b)) .b
                  (.cond (.eq (.value .a) (.value .b)) (.cond (.lt (.index .a) (.index .b)) .a .b) .a)⟩]

/-- does the C type chosen by the code represent the MPI kind of the datatype the way the spec expects? -/
def tyMatches : MKind → CTy → Bool
  | .integer sg, .int _ sg' => sg == sg'
  | .fp, .flt _ => true
  | .logical, .bool => true
  | .complex, .cplx _ => true
  | .fcomplex, .pair (.flt _) (.flt _) => true
  | .locpair, .pair (.int _ _) (.int _ _) => true
  | .locpair, .pair (.flt _) (.int _ _) => true
  | .locpair, .pair (.flt _) (.flt _) => true
  | _, _ => false

/-- MPI defines operator `k` on datatypes of kind `mk` (MPI-4.0 §6.9.2) -/
def specDefined (k : OpK) (mk : MKind) : Bool :=
  match mk, k with
  | .integer _, .minloc => false | .integer _, .maxloc => false | .integer _, _ => true
  | .fp, .max => true | .fp, .min => true | .fp, .sum => true | .fp, .prod => true
  | .logical, .land => true | .logical, .lor => true | .logical, .lxor => true
  | .complex, .sum => true | .complex, .prod => true
  | .fcomplex, .sum => true | .fcomplex, .prod => true
  | .locpair, .minloc => true | .locpair, .maxloc => true
  | _, _ => false

/-- one (operator, function-table entry) pair of the generated tables -/
structure Row where
  op : String
  dt : String
  cty : String
  body : List St
  deriving DecidableEq, Repr

def rowsOfOp (o : OpDecl) : List Row :=
  match lookupFunc o.func with
  | some (.loops es) => es.map (fun e => ⟨o.name, e.1, e.2.1, e.2.2⟩)
  | _ => []

/-- every (op, datatype, C type, body) of the generated tables -/
def allRows : List Row := Gen.ops.flatMap rowsOfOp

/-- CHECK_OP lets (op, dt) through -/
def Row.reachable (r : Row) : Bool :=
  match lookupOp r.op, lookupDt r.dt with
  | some o, some d => checkOp o d
  | _, _ => false

/-- the decidable facts about a row that the ∀-values theorems need -/
def Row.wellFormed (r : Row) : Bool :=
  match opKind r.op, ctyOf r.cty with
  | some k, some t => r.body == canonBody k t
  | _, _ => false

end SgVerif.C31
