/-
C31 — abstract syntax of what the translator (props/C31/gen_optable.py) extracts from
src/smpi/mpi/smpi_op.cpp: the per-element statement of every `APPLY_OP_LOOP(dtype, type, op)` entry after
macro expansion, e.g. `(y[i]) = (x[i]) < (y[i]) ? (y[i]) : (x[i]);`  (x = invec `a`, y = inoutvec `b`).
Core-only (imported by the generated table, the model and the compiled driver).
-/
namespace SgVerif.C31

/-- C++ expressions occurring in the expanded `*_OP` macros -/
inductive Ex where
  | a                          -- `x[i]`  element of invec
  | b                          -- `y[i]`  element of inoutvec
  | value (e : Ex)             -- `(e).value`
  | index (e : Ex)             -- `(e).index`
  | lt (l r : Ex)              -- `l < r`
  | eq (l r : Ex)              -- `l == r`
  | ne (l r : Ex)              -- `l != r`
  | land (l r : Ex)            -- `l && r`
  | lor (l r : Ex)             -- `l || r`
  | cond (c t e : Ex)          -- `c ? t : e`
  | toBool (e : Ex)            -- `bool(e)`
  | castB (e : Ex)             -- `static_cast<std::remove_reference_t<decltype(y[i])>>(e)`
  deriving DecidableEq, Repr, Inhabited

/-- assignment operators -/
inductive AOp where
  | set | add | mul | band | bor | bxor
  deriving DecidableEq, Repr, Inhabited

/-- one statement `lhs op= rhs;` -/
structure St where
  op : AOp
  lhs : Ex
  rhs : Ex
  deriving DecidableEq, Repr, Inhabited

/-- body of an operator function -/
inductive FuncBody where
  /-- `APPLY_BEGIN_OP_LOOP` (follow duplicated_datatype), then the if/else chain of
      (MPI datatype handle, C element type, per-element statements), then `xbt_die` -/
  | loops (entries : List (String × String × List St))
  /-- `memcpy(b, a, *length * (*datatype)->size());` -/
  | memcpy
  /-- empty body -/
  | nothing
  deriving DecidableEq, Repr, Inhabited

/-- `CREATE_MPI_OP(name, func, types)` -/
structure OpDecl where
  name : String            -- "MPI_MAX"
  func : String            -- "max_func"
  flags : List String      -- allowed datatype families (`DT_FLAG_*`), [] when 0
  deriving DecidableEq, Repr, Inhabited

/-- `CREATE_MPI_DATATYPE(name, id, type, flag)`: size = sizeof(type), flags = DT_FLAG_BASIC | flag -/
structure DtDecl where
  name : String            -- "MPI_INT"
  ctype : String           -- "int"
  flags : List String      -- the `flag` argument (DT_FLAG_BASIC is implied)
  deriving DecidableEq, Repr, Inhabited

end SgVerif.C31
