import SgVerif.C31.Model
/-
C31 — helper lemmas: the C++ semantics (`execBody`) of each expected macro expansion (`canonBody`) equals the MPI
definition (`Spec.*`) for every value of every width; lifting to arrays; algebra of the integer operators.
-/
set_option linter.unusedSimpArgs false
namespace SgVerif.C31

theorem hasTy_int {v : Val} {w : Nat} {sg : Bool} (h : v.hasTy (.int w sg) = true) :
    ∃ x : BitVec w, v = .int w x := by
  cases v <;> simp [Val.hasTy] at h
  subst h; exact ⟨_, rfl⟩

theorem hasTy_flt {v : Val} {k : FK} (h : v.hasTy (.flt k) = true) : ∃ q : Int, v = .flt q := by
  cases v <;> simp [Val.hasTy] at h
  exact ⟨_, rfl⟩

theorem hasTy_bool {v : Val} (h : v.hasTy .bool = true) : ∃ q : Bool, v = .bool q := by
  cases v <;> simp [Val.hasTy] at h
  exact ⟨_, rfl⟩

theorem hasTy_cplx {v : Val} {k : FK} (h : v.hasTy (.cplx k) = true) : ∃ r i : Int, v = .cplx r i := by
  cases v <;> simp [Val.hasTy] at h
  exact ⟨_, _, rfl⟩

theorem hasTy_pair {v : Val} {tv ti : CTy} (h : v.hasTy (.pair tv ti) = true) :
    ∃ x i : Val, v = .pair x i ∧ x.hasTy tv = true ∧ i.hasTy ti = true := by
  cases v <;> simp [Val.hasTy] at h
  exact ⟨_, _, rfl, h.1, h.2⟩

theorem toNat_bne_zero {w : Nat} (x : BitVec w) : (x.toNat != 0) = decide (x ≠ 0#w) := by
  by_cases h : x = 0#w
  · subst h; simp
  · have : x.toNat ≠ 0 := fun h' => h (BitVec.eq_of_toNat_eq (by simpa using h'))
    simp [h, this]

theorem ofNat_and {w : Nat} (x y : BitVec w) : BitVec.ofNat w (x.toNat &&& y.toNat) = x &&& y := by
  apply BitVec.eq_of_toNat_eq
  simp only [BitVec.toNat_ofNat, BitVec.toNat_and]
  exact Nat.mod_eq_of_lt (Nat.and_lt_two_pow _ y.isLt)

theorem ofNat_or {w : Nat} (x y : BitVec w) : BitVec.ofNat w (x.toNat ||| y.toNat) = x ||| y := by
  apply BitVec.eq_of_toNat_eq
  simp only [BitVec.toNat_ofNat, BitVec.toNat_or]
  exact Nat.mod_eq_of_lt (Nat.or_lt_two_pow x.isLt y.isLt)

theorem ofNat_xor {w : Nat} (x y : BitVec w) : BitVec.ofNat w (x.toNat ^^^ y.toNat) = x ^^^ y := by
  apply BitVec.eq_of_toNat_eq
  simp only [BitVec.toNat_ofNat, BitVec.toNat_xor]
  exact Nat.mod_eq_of_lt (Nat.xor_lt_two_pow x.isLt y.isLt)

theorem ofInt_ival {w : Nat} (sg : Bool) (x : BitVec w) : BitVec.ofInt w (ival sg x) = x := by
  cases sg <;> simp [ival]

theorem ival_inj {w : Nat} (sg : Bool) (x y : BitVec w) (h : ival sg x = ival sg y) : x = y := by
  rw [← ofInt_ival sg x, ← ofInt_ival sg y, h]

def notLoc (k : OpK) : Prop := k ≠ .minloc ∧ k ≠ .maxloc

/-- integers, every width, both signednesses, the ten arithmetic / logical / bitwise operators -/
theorem int_exec (k : OpK) (w : Nat) (sg : Bool) (x y : BitVec w) (hk : notLoc k) :
    execBody (.int w sg) (.int w x) (.int w y) (canonBody k (.int w sg)) = (Spec.intOp k sg x y).map (Val.int w) := by
  unfold notLoc at hk
  cases k <;> simp [canonBody, execBody, execSt, getL, evalEx, cmpLt, cmpEq, convert, Val.hasTy, setL, arith, truthy,
    Spec.intOp, toNat_bne_zero, ofNat_and, ofNat_or, ofNat_xor] at hk ⊢
  case max => by_cases h : ival sg x < ival sg y <;> simp [h, Val.hasTy]
  case min => by_cases h : ival sg x < ival sg y <;> simp [h, Val.hasTy]
  case sum => rw [Int.add_comm]
  case prod => rw [Int.mul_comm]
  case land => by_cases hx : x = 0#w <;> by_cases hy : y = 0#w <;> simp [hx, hy]
  case lor => by_cases hx : x = 0#w <;> by_cases hy : y = 0#w <;> simp [hx, hy]
  case lxor => by_cases hx : x = 0#w <;> by_cases hy : y = 0#w <;> simp [hx, hy]
  case band => exact BitVec.and_comm _ _
  case bor => exact BitVec.or_comm _ _
  case bxor => exact BitVec.xor_comm _ _

/-- floating types (exact values): MAX MIN SUM PROD -/
theorem flt_exec (k : OpK) (fk : FK) (x y : Int) (hk : k = .max ∨ k = .min ∨ k = .sum ∨ k = .prod) :
    execBody (.flt fk) (.flt x) (.flt y) (canonBody k (.flt fk)) = (Spec.fltOp k x y).map Val.flt := by
  rcases hk with h | h | h | h <;> subst h <;>
    simp [canonBody, execBody, execSt, getL, evalEx, cmpLt, convert, Val.hasTy, setL, arith, truthy, Spec.fltOp]
  · by_cases h : x < y <;> simp [h, Val.hasTy]
  · by_cases h : x < y <;> simp [h, Val.hasTy]
  · rw [Int.add_comm]
  · rw [Int.mul_comm]

theorem bool_exec (k : OpK) (x y : Bool) (hk : k = .land ∨ k = .lor ∨ k = .lxor) :
    execBody .bool (.bool x) (.bool y) (canonBody k .bool) = (Spec.boolOp k x y).map Val.bool := by
  rcases hk with h | h | h <;> subst h <;> cases x <;> cases y <;>
    simp [canonBody, execBody, execSt, getL, evalEx, cmpEq, convert, Val.hasTy, setL, arith, truthy, Spec.boolOp]

theorem cplx_exec (k : OpK) (fk : FK) (xr xi yr yi : Int) (hk : k = .sum ∨ k = .prod) :
    execBody (.cplx fk) (.cplx xr xi) (.cplx yr yi) (canonBody k (.cplx fk)) =
      (Spec.cplxOp k xr xi yr yi).map (fun p => Val.cplx p.1 p.2) := by
  rcases hk with h | h <;> subst h <;>
    simp [canonBody, execBody, execSt, getL, evalEx, setL, arith, Spec.cplxOp]
  · exact ⟨Int.add_comm _ _, Int.add_comm _ _⟩
  · constructor
    · rw [Int.mul_comm yr xr, Int.mul_comm yi xi]
    · rw [Int.mul_comm yr xi, Int.mul_comm yi xr, Int.add_comm]

/-- Fortran complex types are (re, im) structs in SMPI: SUM is applied member-wise, which is the complex sum -/
theorem fcomplex_sum_exec (fk fk' : FK) (xr xi yr yi : Int) :
    execBody (.pair (.flt fk) (.flt fk')) (.pair (.flt xr) (.flt xi)) (.pair (.flt yr) (.flt yi))
        (canonBody .sum (.pair (.flt fk) (.flt fk'))) =
      (Spec.cplxOp .sum xr xi yr yi).map (fun p => Val.pair (.flt p.1) (.flt p.2)) := by
  simp [canonBody, execBody, execSt, getL, evalEx, setL, arith, Spec.cplxOp]
  exact ⟨Int.add_comm _ _, Int.add_comm _ _⟩

/-- ... and PROD member-wise, which is NOT the complex product -/
theorem fcomplex_prod_exec (fk fk' : FK) (xr xi yr yi : Int) :
    execBody (.pair (.flt fk) (.flt fk')) (.pair (.flt xr) (.flt xi)) (.pair (.flt yr) (.flt yi))
        (canonBody .prod (.pair (.flt fk) (.flt fk'))) = some (.pair (.flt (yr * xr)) (.flt (yi * xi))) := by
  simp [canonBody, execBody, execSt, getL, evalEx, setL, arith]

/-- scalar types that occur as members of (value, index) pairs -/
def isOrdScalar : CTy → Bool
  | .int _ _ => true
  | .flt _ => true
  | _ => false

theorem loc_exec (isMax : Bool) (tv ti : CTy) (htv : isOrdScalar tv = true) (hti : isOrdScalar ti = true)
    (u i v j : Val) (hu : u.hasTy tv = true) (hi : i.hasTy ti = true) (hv : v.hasTy tv = true) (hj : j.hasTy ti = true) :
    execBody (.pair tv ti) (.pair u i) (.pair v j) (canonBody (if isMax then .maxloc else .minloc) (.pair tv ti)) =
      Spec.locOp isMax (Spec.sgOf tv) (Spec.sgOf ti) u i v j
    ∧ (Spec.locOp isMax (Spec.sgOf tv) (Spec.sgOf ti) u i v j).isSome = true := by
  cases tv <;> simp [isOrdScalar] at htv <;> cases ti <;> simp [isOrdScalar] at hti
  · -- int / int
    obtain ⟨x, rfl⟩ := hasTy_int hu; obtain ⟨y, rfl⟩ := hasTy_int hv
    obtain ⟨p, rfl⟩ := hasTy_int hi; obtain ⟨q, rfl⟩ := hasTy_int hj
    rename_i w sg w' sg'
    have inj := ival_inj sg x y
    cases isMax <;> simp [canonBody, execBody, execSt, getL, evalEx, cmpLt, cmpEq, convert, Val.hasTy, setL, truthy,
      Spec.locOp, Spec.sLt, Spec.sgOf] <;>
      by_cases h1 : ival sg x < ival sg y <;> by_cases h2 : ival sg y < ival sg x <;>
      by_cases h3 : ival sg' p < ival sg' q <;> by_cases h4 : ival sg x = ival sg y <;>
      simp [h1, h2, h3, h4, Val.hasTy] <;> first | omega | (have := inj h4; simp_all)
  · -- int / flt
    obtain ⟨x, rfl⟩ := hasTy_int hu; obtain ⟨y, rfl⟩ := hasTy_int hv
    obtain ⟨p, rfl⟩ := hasTy_flt hi; obtain ⟨q, rfl⟩ := hasTy_flt hj
    rename_i w sg fk
    have inj := ival_inj sg x y
    cases isMax <;> simp [canonBody, execBody, execSt, getL, evalEx, cmpLt, cmpEq, convert, Val.hasTy, setL, truthy,
      Spec.locOp, Spec.sLt, Spec.sgOf] <;>
      by_cases h1 : ival sg x < ival sg y <;> by_cases h2 : ival sg y < ival sg x <;>
      by_cases h3 : p < q <;> by_cases h4 : ival sg x = ival sg y <;>
      simp [h1, h2, h3, h4, Val.hasTy] <;> first | omega | (have := inj h4; simp_all)
  · -- flt / int
    obtain ⟨x, rfl⟩ := hasTy_flt hu; obtain ⟨y, rfl⟩ := hasTy_flt hv
    obtain ⟨p, rfl⟩ := hasTy_int hi; obtain ⟨q, rfl⟩ := hasTy_int hj
    rename_i fk w' sg'
    cases isMax <;> simp [canonBody, execBody, execSt, getL, evalEx, cmpLt, cmpEq, convert, Val.hasTy, setL, truthy,
      Spec.locOp, Spec.sLt, Spec.sgOf] <;>
      by_cases h1 : x < y <;> by_cases h2 : y < x <;>
      by_cases h3 : ival sg' p < ival sg' q <;> by_cases h4 : x = y <;>
      simp [h1, h2, h3, h4, Val.hasTy] <;> first | omega | simp_all
  · -- flt / flt
    obtain ⟨x, rfl⟩ := hasTy_flt hu; obtain ⟨y, rfl⟩ := hasTy_flt hv
    obtain ⟨p, rfl⟩ := hasTy_flt hi; obtain ⟨q, rfl⟩ := hasTy_flt hj
    cases isMax <;> simp [canonBody, execBody, execSt, getL, evalEx, cmpLt, cmpEq, convert, Val.hasTy, setL, truthy,
      Spec.locOp, Spec.sLt, Spec.sgOf] <;>
      by_cases h1 : x < y <;> by_cases h2 : y < x <;>
      by_cases h3 : p < q <;> by_cases h4 : x = y <;>
      simp [h1, h2, h3, h4, Val.hasTy] <;> first | omega | simp_all

/-- the expected expansion, on well-typed values, computes the MPI definition whenever MPI defines the operator on that
    kind of datatype — except PROD on the Fortran complex types -/
theorem canon_eq_spec (k : OpK) (mk : MKind) (t : CTy) (hd : specDefined k mk = true) (hm : tyMatches mk t = true)
    (hx : ¬ (k = .prod ∧ mk = .fcomplex)) (a b : Val) (ha : a.hasTy t = true) (hb : b.hasTy t = true) :
    execBody t a b (canonBody k t) = Spec.elem k mk t a b ∧ (Spec.elem k mk t a b).isSome = true := by
  cases mk
  case integer sg =>
    cases t <;> simp [tyMatches] at hm
    subst hm
    obtain ⟨x, rfl⟩ := hasTy_int ha; obtain ⟨y, rfl⟩ := hasTy_int hb
    have hk : notLoc k := by constructor <;> (intro h; subst h; simp [specDefined] at hd)
    rw [int_exec k _ _ x y hk]
    simp [Spec.elem]
    cases k <;> simp [Spec.intOp] <;> simp [notLoc] at hk
  case fp =>
    cases t <;> simp [tyMatches] at hm
    obtain ⟨x, rfl⟩ := hasTy_flt ha; obtain ⟨y, rfl⟩ := hasTy_flt hb
    have hk : k = .max ∨ k = .min ∨ k = .sum ∨ k = .prod := by cases k <;> simp [specDefined] at hd ⊢
    rw [flt_exec k _ x y hk]
    simp [Spec.elem]
    rcases hk with h | h | h | h <;> subst h <;> simp [Spec.fltOp]
  case logical =>
    cases t <;> simp [tyMatches] at hm
    obtain ⟨x, rfl⟩ := hasTy_bool ha; obtain ⟨y, rfl⟩ := hasTy_bool hb
    have hk : k = .land ∨ k = .lor ∨ k = .lxor := by cases k <;> simp [specDefined] at hd ⊢
    rw [bool_exec k x y hk]
    simp [Spec.elem]
    rcases hk with h | h | h <;> subst h <;> simp [Spec.boolOp]
  case complex =>
    cases t <;> simp [tyMatches] at hm
    obtain ⟨xr, xi, rfl⟩ := hasTy_cplx ha; obtain ⟨yr, yi, rfl⟩ := hasTy_cplx hb
    have hk : k = .sum ∨ k = .prod := by cases k <;> simp [specDefined] at hd ⊢
    rw [cplx_exec k _ xr xi yr yi hk]
    simp [Spec.elem]
    rcases hk with h | h <;> subst h <;> simp [Spec.cplxOp]
  case fcomplex =>
    have hk : k = .sum := by cases k <;> simp [specDefined] at hd hx ⊢
    subst hk
    cases t <;> try (simp [tyMatches] at hm; done)
    rename_i tv ti
    cases tv <;> try (simp [tyMatches] at hm; done)
    cases ti <;> try (simp [tyMatches] at hm; done)
    obtain ⟨u, i, rfl, hu, hi⟩ := hasTy_pair ha; obtain ⟨v, j, rfl, hv, hj⟩ := hasTy_pair hb
    obtain ⟨xr, rfl⟩ := hasTy_flt hu; obtain ⟨xi, rfl⟩ := hasTy_flt hi
    obtain ⟨yr, rfl⟩ := hasTy_flt hv; obtain ⟨yi, rfl⟩ := hasTy_flt hj
    rw [fcomplex_sum_exec]
    simp [Spec.elem, Spec.cplxOp]
  case locpair =>
    have hk : k = .minloc ∨ k = .maxloc := by cases k <;> simp [specDefined] at hd ⊢
    cases t <;> try (simp [tyMatches] at hm; done)
    rename_i tv ti
    have hs : isOrdScalar tv = true ∧ isOrdScalar ti = true := by
      cases tv <;> cases ti <;> simp [tyMatches, isOrdScalar] at hm ⊢
    obtain ⟨u, i, rfl, hu, hi⟩ := hasTy_pair ha; obtain ⟨v, j, rfl, hv, hj⟩ := hasTy_pair hb
    rcases hk with h | h <;> subst h
    · have := loc_exec false tv ti hs.1 hs.2 u i v j hu hi hv hj
      simpa [Spec.elem] using this
    · have := loc_exec true tv ti hs.1 hs.2 u i v j hu hi hv hj
      simpa [Spec.elem] using this
  case other => simp [specDefined] at hd


/-! ### arrays -/

theorem applyLoop_eq_spec (k : OpK) (mk : MKind) (t : CTy) (body : List St)
    (h : ∀ a b : Val, a.hasTy t = true → b.hasTy t = true →
      execBody t a b body = Spec.elem k mk t a b ∧ (Spec.elem k mk t a b).isSome = true) :
    ∀ (a b : List Val), (∀ v ∈ a, v.hasTy t = true) → (∀ v ∈ b, v.hasTy t = true) → a.length = b.length →
      applyLoop t body a b = Spec.arrays k mk t a b ∧ (Spec.arrays k mk t a b).isSome = true
  | [], [], _, _, _ => by simp [applyLoop, Spec.arrays]
  | x :: xs, y :: ys, ha, hb, hl => by
    have h1 := h x y (ha x (by simp)) (hb y (by simp))
    have ih := applyLoop_eq_spec k mk t body h xs ys (fun v hv => ha v (by simp [hv])) (fun v hv => hb v (by simp [hv]))
      (by simpa using hl)
    simp only [applyLoop, Spec.arrays, h1.1, ih.1]
    obtain ⟨r, hr⟩ := Option.isSome_iff_exists.mp h1.2
    obtain ⟨rs, hrs⟩ := Option.isSome_iff_exists.mp ih.2
    simp [hr, hrs]
  | [], _ :: _, _, _, hl => by simp at hl
  | _ :: _, [], _, _, hl => by simp at hl

/-- the result array has the length of the inputs and element i depends on elements i only -/
theorem arrays_getElem (k : OpK) (mk : MKind) (t : CTy) :
    ∀ (a b r : List Val), Spec.arrays k mk t a b = some r →
      r.length = a.length ∧ ∀ i (h1 : i < a.length) (h2 : i < b.length) (h3 : i < r.length),
        Spec.elem k mk t a[i] b[i] = some r[i]
  | [], [], r, h => by simp [Spec.arrays] at h; subst h; simp
  | x :: xs, y :: ys, r, h => by
    simp only [Spec.arrays] at h
    split at h
    · rename_i e rs he hrs
      injection h with h; subst h
      have ih := arrays_getElem k mk t xs ys rs hrs
      refine ⟨by simp [ih.1], ?_⟩
      intro i h1 h2 h3
      cases i with
      | zero => simpa using he
      | succ i => simpa using ih.2 i (by simpa using h1) (by simpa using h2) (by simpa using h3)
    · cases h
  | [], _ :: _, r, h => by simp [Spec.arrays] at h
  | _ :: _, [], r, h => by simp [Spec.arrays] at h

/-! ### algebra of the integer operators (inputs to the collectives' reduction-order arguments) -/

theorem ofInt_ival_add {w : Nat} (sg : Bool) (n m : Int) :
    BitVec.ofInt w (ival sg (BitVec.ofInt w n) + m) = BitVec.ofInt w (n + m) := by
  rw [BitVec.ofInt_add, ofInt_ival, ← BitVec.ofInt_add]

theorem ofInt_ival_mul {w : Nat} (sg : Bool) (n m : Int) :
    BitVec.ofInt w (ival sg (BitVec.ofInt w n) * m) = BitVec.ofInt w (n * m) := by
  rw [BitVec.ofInt_mul, ofInt_ival, ← BitVec.ofInt_mul]

theorem ofNat_one_ne_zero {w : Nat} (hw : w ≠ 0) : BitVec.ofNat w 1 ≠ 0#w := by
  intro h
  have := congrArg BitVec.toNat h
  simp at this
  exact hw this

end SgVerif.C31
