import SgVerif.C31.Model
import SgVerif.Common.Proto
/-
C31 driver.  Lines produced by props/C31/harness.cpp (real SMPI under smpirun):
  size <DT>                                         => <n>
  rl <OP> <DT> <ndup> <count> <hexA|-> <hexB|->     => ok <hex|-> | errop | errtype | die | guard | err<n>
  ar <OP> <DT> <np> <count> <hex rank0> ...         => ok <hex rank0> ... | errop | ...
Model answer: `reduceLocal` (generated table + C++ semantics).  Monitor: the MPI definition `Spec.arrays` keyed by the
MPI kind of the datatype, the sizes MPI fixes, and "an unsupported pair is rejected".
-/
open SgVerif.Proto
namespace SgVerif.C31

def hexDigit (c : Char) : Option Nat :=
  if '0' ≤ c ∧ c ≤ '9' then some (c.toNat - '0'.toNat)
  else if 'a' ≤ c ∧ c ≤ 'f' then some (c.toNat - 'a'.toNat + 10)
  else none

def hexBytes : List Char → Option (List Nat)
  | [] => some []
  | [_] => none
  | h :: l :: rest =>
    match hexDigit h, hexDigit l, hexBytes rest with
    | some a, some b, some r => some ((a * 16 + b) :: r)
    | _, _, _ => none

def parseHex (s : String) : Option (List Nat) := if s == "-" then some [] else hexBytes s.toList

/-- little-endian -/
def leNat : List Nat → Nat
  | [] => 0
  | b :: r => b + 256 * leNat r

/-- IEEE-like decode of an integral value: `ebits` exponent bits, `mbits` stored mantissa bits; `explicit` = x87
    extended format (integer bit stored).  `none` for non-integral values, infinities, NaN. -/
def decodeFloat (ebits mbits : Nat) (explicit : Bool) (bits : Nat) : Option Int :=
  let m := bits % 2 ^ mbits
  let e := (bits / 2 ^ mbits) % 2 ^ ebits
  let s := (bits / 2 ^ (mbits + ebits)) % 2
  let bias := 2 ^ (ebits - 1) - 1
  if e == 2 ^ ebits - 1 then none
  else if e == 0 then (if m == 0 then some 0 else none)
  else
    let frac := if explicit then mbits - 1 else mbits
    let mant := if explicit then m else 2 ^ mbits + m
    -- value = mant * 2^(e - bias - frac)
    let v : Option Nat :=
      if e ≥ bias + frac then some (mant * 2 ^ (e - bias - frac))
      else
        let sh := bias + frac - e
        if mant % 2 ^ sh == 0 then some (mant / 2 ^ sh) else none
    v.map (fun n => if s == 1 then -(n : Int) else (n : Int))

def decodeFK (k : FK) (bs : List Nat) : Option Int :=
  match k with
  | .f32 => decodeFloat 8 23 false (leNat (bs.take 4))
  | .f64 => decodeFloat 11 52 false (leNat (bs.take 8))
  | .f80 => decodeFloat 15 64 true (leNat (bs.take 10))

def decodeVal (t : CTy) (bs : List Nat) : Option Val :=
  match t with
  | .int w _ => some (.int w (BitVec.ofNat w (leNat (bs.take (w / 8)))))
  | .bool => match bs with
    | 0 :: _ => some (.bool false)
    | 1 :: _ => some (.bool true)
    | _ => none
  | .flt k => (decodeFK k bs).map Val.flt
  | .cplx k =>
    match decodeFK k bs, decodeFK k (bs.drop k.size) with
    | some r, some i => some (.cplx r i)
    | _, _ => none
  | .pair v i =>
    match decodeVal v bs, decodeVal i (bs.drop (CTy.pair v i).indexOff) with
    | some x, some y => some (.pair x y)
    | _, _ => none

def decodeArr (t : CTy) (count : Nat) (bs : List Nat) : Option (List Val) :=
  if bs.length ≠ count * t.size then none else
  (List.range count).mapM (fun i => decodeVal t (bs.drop (i * t.size)))

def showVal : Val → String
  | .int _ v => s!"{v.toNat}"
  | .bool b => if b then "T" else "F"
  | .flt q => s!"{q}f"
  | .cplx r i => s!"({r}+{i}i)"
  | .pair v i => s!"<{showVal v},{showVal i}>"

def showOutcome : Outcome → String
  | .ok out => "ok[" ++ " ".intercalate (out.map showVal) ++ "]"
  | .errOp => "errop"
  | .errType => "errtype"
  | .die => "die"

def declTy (dt : String) : Option CTy := (lookupDt dt).bind (fun d => ctyOf d.ctype)

/-- decode the implementation's answer -/
def implOutcome (t : CTy) (count : Nat) (a : List String) : Option Outcome :=
  match a with
  | ["ok", h] => (parseHex h).bind (fun bs => (decodeArr t count bs).map Outcome.ok)
  | ["errop"] => some .errOp
  | ["errtype"] => some .errType
  | ["die"] => some .die
  | _ => none

/-- the MPI result for (op, dt) if MPI defines it -/
def specResult (op dt : String) (t : CTy) (a b : List Val) : Option (List Val) :=
  match opKind op with
  | some k => if specDefined k (mpiKind dt) then Spec.arrays k (mpiKind dt) t a b else none
  | none => none

def isSupported (op dt : String) : Bool :=
  match lookupOp op, lookupDt dt with
  | some o, some d =>
    checkOp o d && d.ctype != "" && match lookupFunc o.func with
      | some (.loops es) => (findEntry es dt).isSome
      | some _ => true
      | none => false
  | _, _ => false

def judgeRL (op dt : String) (count : Nat) (ha hb : String) (ans : List String) : Verdict :=
  match declTy dt with
  | none =>
    -- MPI_DATATYPE_NULL & co: nothing to decode
    match reduceLocal op dt [] [], ans with
    | some .errType, ["errtype"] => .ok
    | some m, _ => .disagree (showOutcome m)
    | none, _ => .bad
  | some t =>
    match (parseHex ha).bind (decodeArr t count), (parseHex hb).bind (decodeArr t count) with
    | some a, some b =>
      match implOutcome t count ans with
      | some impl =>
        -- model answer; `none` (e.g. a C type the model does not know) is a disagreement, the monitor is still evaluated
        let agree : Verdict := match reduceLocal op dt a b with
          | some model => if impl = model then .ok else .disagree (showOutcome model)
          | none => .disagree "model-cannot-answer"
        -- monitor 1: MPI's element-wise definition
        match specResult op dt t a b, impl with
        | some want, .ok got =>
          if count > 0 ∧ isSupported op dt ∧ got ≠ want then
            .monfail s!"{op} on {dt}: MPI result {showOutcome (.ok want)} but MPI_Reduce_local gave {showOutcome impl}"
          else agree
        | _, _ =>
          -- monitor 2: unsupported pairs are rejected (or nothing is applied)
          match impl with
          | .ok got =>
            if !isSupported op dt ∧ got ≠ b then
              .monfail s!"{op} on {dt} is not supported but MPI_Reduce_local modified the buffer: {showOutcome impl}"
            else agree
          | _ => agree
      | none => .bad
    | _, _ => .bad

/-- `inout = in ∘ inout` folded over the ranks: v0 ∘ (v1 ∘ (... ∘ v(n-1))) -/
def foldRanks (f : List Val → List Val → Option (List Val)) : List (List Val) → Option (List Val)
  | [] => none
  | [v] => some v
  | v :: rest => (foldRanks f rest).bind (fun acc => f v acc)

def modelApply (op dt : String) (a b : List Val) : Option (List Val) :=
  match lookupOp op with
  | some o =>
    match lookupFunc o.func with
    | some fb => match applyFunc fb dt a b with
      | some (.ok r) => some r
      | _ => none
    | none => none
  | none => none

def judgeAR (op dt : String) (np count : Nat) (hs : List String) (ans : List String) : Verdict :=
  match declTy dt, lookupOp op, lookupDt dt with
  | some t, some o, some d =>
    if !checkOp o d then (if ans = ["errop"] then .ok else .disagree "errop") else
    match hs.mapM (fun h => (parseHex h).bind (decodeArr t count)) with
    | none => .bad
    | some vs =>
      match ans with
      | "ok" :: outs =>
        match outs.mapM (fun h => (parseHex h).bind (decodeArr t count)) with
        | none => .bad
        | some got =>
          if got.length ≠ np then .disagree "one result per rank" else
          let model := if count == 0 then some [] else foldRanks (modelApply op dt) vs
          let want := if count == 0 then some [] else foldRanks (specResult op dt t) vs
          match want with
          | some w =>
            if got.any (· ≠ w) then
              .monfail s!"{op} on {dt}, {np} ranks: MPI result {showOutcome (.ok w)} but MPI_Allreduce gave {got.map (fun g => showOutcome (.ok g))}"
            else if model = some w then .ok else .disagree (match model with | some m => showOutcome (.ok m) | none => "none")
          | none =>
            match model with
            | some m => if got.all (· == m) then .ok else .disagree (showOutcome (.ok m))
            | none => .disagree "none"
      | _ => .disagree "ok"
  | _, _, _ => .bad

def judge (q a : List String) : Verdict :=
  match q with
  | ["size", dt] =>
    match lookupDt dt, a with
    | some d, [n] =>
      let model := if d.ctype == "" then some 0 else (ctyOf d.ctype).map CTy.size
      match mpiFixedSize dt, n.toNat? with
      | some want, some got =>
        if got ≠ want then .monfail s!"MPI_Type_size({dt}) = {got}, MPI fixes {want}"
        else if model = some got then .ok else .disagree s!"{model}"
      | none, some got => if model = some got then .ok else .disagree s!"{model}"
      | _, none => .bad
    | _, _ => .bad
  | ["rl", op, dt, _ndup, count, ha, hb] =>
    match count.toNat? with
    | some c => judgeRL op dt c ha hb a
    | none => .bad
  | "ar" :: op :: dt :: np :: count :: hs =>
    match np.toNat?, count.toNat? with
    | some n, some c => if hs.length = n then judgeAR op dt n c hs a else .bad
    | _, _ => .bad
  | _ => .bad

end SgVerif.C31

def main : IO Unit := SgVerif.Proto.run SgVerif.C31.judge
