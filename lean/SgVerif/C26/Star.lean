/-
C26 — StarZone (src/kernel/routing/StarZone.cpp), as written.  Links are their names.
-/
namespace SgVerif.C26

/-- `StarZone::StarRoute` -/
structure StarRoute where
  linksUp : List String := []
  linksDown : List String := []
  loopback : List String := []
  upSet : Bool := false
  downSet : Bool := false
  deriving Repr, DecidableEq

/-- a link of an `add_route` call: a shared link, or a split-duplex link with the direction given by the user -/
inductive LinkInRoute where
  | shared (name : String)
  | split (name : String) (dirUp : Bool)
  deriving Repr, DecidableEq

/-- `NetZoneImpl::get_link_list_impl(link_list, backroute)`: a split-duplex link contributes its `_UP` or `_DOWN` half:
UP&¬backroute → up, UP&backroute → down, DOWN&¬backroute → down, DOWN&backroute → up -/
def linkListImpl (ls : List LinkInRoute) (backroute : Bool) : List String :=
  ls.map fun
    | .shared n => n
    | .split n dirUp => if dirUp != backroute then n ++ "_UP" else n ++ "_DOWN"

/-- the three shapes `check_add_route_param` lets through -/
inductive StarAdd where
  | up (src : Nat) (links : List LinkInRoute) (symmetrical : Bool)   -- add_route(src, nullptr, ...)
  | down (dst : Nat) (links : List LinkInRoute)                      -- add_route(nullptr, dst, ..., false)
  | loop (node : Nat) (links : List LinkInRoute)                     -- add_route(node, node, ...)
  deriving Repr

abbrev StarTable := List (Nat × StarRoute)       -- `routes_` (unordered_map id -> StarRoute)

def StarTable.get (tb : StarTable) (id : Nat) : StarRoute := ((tb.find? (·.1 == id)).map (·.2)).getD {}
def StarTable.set (tb : StarTable) (id : Nat) (r : StarRoute) : StarTable := (id, r) :: tb.filter (·.1 != id)
def StarTable.has (tb : StarTable) (id : Nat) : Bool := tb.any (·.1 == id)

/-- `StarZone::add_route`:
```
  if (src == dst) routes_[src->id()].loopback = get_link_list_impl(link_list, false);
  else { if (src) { route.links_up = get_link_list_impl(link_list, false); route.links_up_set = true;
                    if (symmetrical) { links_down = get_link_list_impl(link_list, true);
                                       route.links_down.assign(links_down.rbegin(), links_down.rend()); route.links_down_set = true; } }
         if (dst) { route.links_down = get_link_list_impl(link_list, false); route.links_down_set = true; } }
``` -/
def starAdd (tb : StarTable) : StarAdd → StarTable
  | .loop n ls => tb.set n { tb.get n with loopback := linkListImpl ls false }
  | .up s ls sym =>
    let r := { tb.get s with linksUp := linkListImpl ls false, upSet := true }
    tb.set s (if sym then { r with linksDown := (linkListImpl ls true).reverse, downSet := true } else r)
  | .down d ls => tb.set d { tb.get d with linksDown := linkListImpl ls false, downSet := true }

/-- `StarZone::do_seal`: nodes without any entry get empty up/down lists marked as set -/
def starSeal (tb : StarTable) (n : Nat) : StarTable :=
  (List.range n).foldl (fun tb id => if tb.has id then tb else tb.set id { upSet := true, downSet := true }) tb

/-- `StarZone::add_links_to_route`: `acc` is `route->link_list_`; `added_links` holds exactly the links pushed so far
```
  for (auto* link : links) { if (not added_links.insert(link).second) continue;  add_link_latency(route->link_list_, link, latency); }
``` -/
def addLinks : List String → List String → List String
  | [], acc => acc
  | l :: ls, acc => if l ∈ acc then addLinks ls acc else addLinks ls (acc ++ [l])

/-- `StarZone::get_local_route`; `none` = the `xbt_assert` on missing up / down links fires -/
def starRoute (tb : StarTable) (src dst : Nat) : Option (List String) :=
  let s := tb.get src
  let d := tb.get dst
  if src = dst ∧ s.loopback ≠ [] then some (addLinks s.loopback [])
  else if ¬ s.upSet then none
  else if ¬ d.downSet then none
  else some (addLinks d.linksDown (addLinks s.linksUp []))

end SgVerif.C26
