import SgVerif.C26.Model
import SgVerif.C26.FatTreeSpec
import SgVerif.C26.DragonflySpec
import SgVerif.Common.Proto
open SgVerif.Proto
/-
C26 driver.  One line per (zone, source):  `<zone description> <src> => <route to 0> | <route to 1> | ... |`
For every destination: model route (link names) compared exactly with the implementation's, and the property's own
predicates (monitors) evaluated on the implementation's link names WITHOUT using the model:
  torus   : walk the named links from src: each connects the current node to a neighbour differing by one step in one
            dimension; dimensions never decrease; per dimension min(f, d-f) hops; ends at dst; limiters / loopback as configured
  star    : no duplicate; exactly the links of up(src) and down(dst); up links before the down links, in order
  fat tree: k UP links then k DOWN links forming a chain src .. top .. dst, k = level of the nearest common ancestor
  dragonfly: local, (green? black? blue)?, green?, black?, local; every link leaves from the router the walk is on
-/
namespace SgVerif.C26

def parseList (s : String) : Option (List Nat) := (s.splitOn ",").mapM String.toNat?
def parseBool (s : String) : Option Bool := if s = "1" then some true else if s = "0" then some false else none

def splitRoutes (a : List String) : List (List String) :=
  let (acc, cur) := a.foldl (fun (st : List (List String) × List String) tok =>
    if tok = "|" then (st.2.reverse :: st.1, []) else (st.1, tok :: st.2)) ([], [])
  let _ := cur
  acc.reverse

def natAfter (pre : String) (s : String) : Option Nat :=
  if s.startsWith pre then ((s.drop pre.length).toString.takeWhile Char.isDigit).toString.toNat? else none

def isLim (s : String) : Bool := s.startsWith "lim"
def isLb (s : String) : Bool := s.startsWith "lb"
/-- `lim<id>@...` / `lb<id>@...` -/
def limId (s : String) : Option Nat := natAfter "lim" s
def lbId (s : String) : Option Nat := natAfter "lb" s

def firstBad (rs : List (Nat × Option String)) : Option (Nat × String) :=
  rs.findSome? (fun (d, r) => r.map (fun m => (d, m)))

/-! ### torus monitor -/
def tcoords (dims : List Nat) (id : Nat) : List Nat :=
  (dims.foldl (fun (st : Nat × List Nat) d => (st.1 / d, (st.1 % d) :: st.2)) (id, [])).2.reverse

/-- parse `z_link_from_A_to_B[_UP|_DOWN]` -/
def parseCable (s : String) : Option (Nat × Nat × Option Bool) :=
  match s.splitOn "_" with
  | ["z", "link", "from", a, "to", b] => do some ((← a.toNat?), (← b.toNat?), none)
  | ["z", "link", "from", a, "to", b, "UP"] => do some ((← a.toNat?), (← b.toNat?), some true)
  | ["z", "link", "from", a, "to", b, "DOWN"] => do some ((← a.toNat?), (← b.toNat?), some false)
  | _ => none

/-- which dimension differs and by which step (true = +1 mod d); none if not a neighbour move -/
def neighbourMove (dims : List Nat) (a b : Nat) : Option (Nat × Bool × Bool) :=
  let ca := tcoords dims a
  let cb := tcoords dims b
  let diffs := (List.range dims.length).filter (fun j => ca.getD j 0 != cb.getD j 0)
  match diffs with
  | [j] =>
    let d := dims.getD j 1
    let x := ca.getD j 0
    let y := cb.getD j 0
    let plus := (x + 1) % d == y
    let minus := (y + 1) % d == x
    if plus || minus then some (j, plus, minus) else none
  | _ => none

def torusMonitor (dims : List Nat) (lb lim split : Bool) (src dst : Nat) (route : List String) : Option String :=
  let n := dims.foldl (· * ·) 1
  if src == dst && lb then
    if route.length == 1 && (route.head?.bind lbId) == some src then none else some "loopback-expected"
  else if route.any isLb then some "unexpected-loopback"
  else if !lim && route.any isLim then some "unexpected-limiter"
  else
    -- walk
    let rec go (fuel : Nat) (cur : Nat) (toks : List String) (moves : List (Nat × Bool × Bool)) : Except String (List (Nat × Bool × Bool)) :=
      match fuel with
      | 0 => .error "too-long"
      | fuel + 1 =>
        let toks' := if lim then
            match toks with
            | t :: r => if limId t == some cur then some r else none
            | [] => none
          else some toks
        match toks' with
        | none => .error s!"limiter-of-{cur}-expected"
        | some [] => if cur == dst then .ok moves.reverse else .error s!"ends-at-{cur}"
        | some (t :: r) =>
          match parseCable t with
          | none => .error s!"not-a-torus-link-{t}"
          | some (a, b, dir) =>
            let nxt := match dir with
              | some true => if a == cur then some b else none
              | some false => if b == cur then some a else none
              | none => if a == cur then some b else if b == cur then some a else none
            match nxt with
            | none => .error s!"link-{t}-does-not-leave-{cur}"
            | some nx =>
              if nx ≥ n then .error "node-out-of-range" else
              match neighbourMove dims cur nx with
              | none => .error s!"link-{t}-is-not-one-step-in-one-dimension"
              | some mv => go fuel nx r (mv :: moves)
    match go (route.length + 2) src route [] with
    | .error e => some e
    | .ok moves =>
      let js := moves.map (·.1)
      let sorted := (js.zip (js.drop 1)).all (fun (a, b) => a ≤ b)
      if !sorted then some "dimension-order" else
      let cs := tcoords dims src
      let ct := tcoords dims dst
      let bad := (List.range dims.length).filter (fun j =>
        let d := dims.getD j 1
        let f := (ct.getD j 0 + d - cs.getD j 0) % d
        let cnt := (moves.filter (·.1 == j)).length
        let mj := moves.filter (·.1 == j)
        let allPlus := mj.all (·.2.1)
        let allMinus := mj.all (·.2.2)
        !(cnt == min f (d - f) && (allPlus || allMinus)))
      if bad.isEmpty then none else some s!"shorter-way-dims-{bad}"

def judgeTorus (dimsS lbS limS sp srcS : String) (a : List String) : Verdict :=
  match parseList dimsS, parseBool lbS, parseBool limS, srcS.toNat? with
  | some dims, some lb, some lim, some src =>
    let split := sp == "S"
    let t : Torus := { dims := dims, lb := lb, lim := lim }
    let routes := splitRoutes a
    if routes.length != t.tot then .disagree s!"{t.tot}-routes-expected" else
    let mon := firstBad ((List.range t.tot).zip routes |>.map (fun (d, r) => (d, torusMonitor dims lb lim split src d r)))
    match mon with
    | some (d, m) => .monfail s!"dst={d} {m}"
    | none =>
      let se := t.seal
      let bad := (List.range t.tot).zip routes |>.filter (fun (d, r) =>
        match t.routeWith se src d with
        | some l => l.map (TLink.name dims split) != r
        | none => true)
      match bad with
      | [] => .ok
      | (d, _) :: _ => .disagree s!"dst={d}:{(t.route src d).map (·.map (TLink.name dims split))}"
  | _, _, _, _ => .bad

/-! ### star -/
def parseStarLinks (s : String) : Option (List LinkInRoute) :=
  if s == "e" then some [] else
  (s.splitOn ",").mapM (fun tok =>
    match tok.toList with
    | [c] => if c.isLower then some (.shared tok) else some (.split tok true)
    | [c, '!'] => if c.isUpper then some (.split (String.singleton c) false) else none
    | _ => none)

def parseStarSpec (i : Nat) (s : String) : Option (List StarAdd) :=
  match s.splitOn ":" with
  | [up, down, loop, sym] => do
    let a ← if up == "-" then some [] else (parseStarLinks up).map (fun l => [StarAdd.up i l (sym == "1")])
    let b ← if down == "-" then some [] else (parseStarLinks down).map (fun l => [StarAdd.down i l])
    let c ← if loop == "-" then some [] else (parseStarLinks loop).map (fun l => [StarAdd.loop i l])
    some (a ++ b ++ c)
  | _ => none

def dedupS (l : List String) : List String := l.foldl (fun acc x => if acc.contains x then acc else acc ++ [x]) []

/-- spec predicate on the implementation's list: no duplicates; it is `up` (first occurrences) followed by the links of
`down` not in `up` (first occurrences) -/
def starMonitor (up down : List String) (route : List String) : Option String :=
  if dedupS route != route then some "duplicate-link"
  else if route.any (fun l => !(up.contains l || down.contains l)) then some "foreign-link"
  else if (up ++ down).any (fun l => !route.contains l) then some "missing-link"
  else
    let u := dedupS up
    if route.take u.length != u then some "up-links-first"
    else if route.drop u.length != (dedupS down).filter (fun l => !up.contains l) then some "down-links-order"
    else none

def judgeStar (nS : String) (rest : List String) (a : List String) : Verdict :=
  match nS.toNat? with
  | none => .bad
  | some n =>
    if rest.length != n + 1 then .bad else
    match (List.range n).zip (rest.take n) |>.mapM (fun (i, s) => parseStarSpec i s), (rest.getD n "").toNat? with
    | some adds, some src =>
      let tb := starSeal (adds.flatten.foldl starAdd []) n
      let routes := splitRoutes a
      if routes.length != n then .disagree s!"{n}-routes-expected" else
      let s := tb.get src
      let mon := firstBad ((List.range n).zip routes |>.map (fun (d, r) =>
        let dd := tb.get d
        (d, if src == d && s.loopback != [] then (if r == dedupS s.loopback then none else some "loopback-expected")
            else starMonitor s.linksUp dd.linksDown r)))
      match mon with
      | some (d, m) => .monfail s!"dst={d} {m}"
      | none =>
        let bad := (List.range n).zip routes |>.filter (fun (d, r) => starRoute tb src d != some r)
        match bad with
        | [] => .ok
        | (d, _) :: _ => .disagree s!"dst={d}:{starRoute tb src d}"
    | _, _ => .bad

/-! ### fat tree -/
def parseFt (s : String) : Option (Int × Int × Nat × Option Bool) :=
  match s.splitOn "_" with
  | ["link", "from", c, p, u] => do some ((← c.toInt?), (← p.toInt?), (← u.toNat?), none)
  | ["link", "from", c, p, u, "UP"] => do some ((← c.toInt?), (← p.toInt?), (← u.toNat?), some true)
  | ["link", "from", c, p, u, "DOWN"] => do some ((← c.toInt?), (← p.toInt?), (← u.toNat?), some false)
  | _ => none

/-- limiter ids reach the callback as unsigned long: map back to the `int` node id -/
def limIdInt (s : String) : Option Int :=
  (limId s).map (fun n => if n ≥ 9223372036854775808 then (n : Int) - 18446744073709551616 else (n : Int))

/-- level of the nearest common ancestor of leaves a, b: 1 + the highest index where their labels (mixed radix `down`,
index 0 fastest) differ -/
def ncaLevelOfIds (down : List Nat) (a b : Nat) : Nat :=
  let la := tcoords down a
  let lbb := tcoords down b
  ((List.range down.length).filter (fun i => la.getD i 0 != lbb.getD i 0)).foldl (fun m i => max m (i + 1)) 0

def ftMonitor (f : FatTree) (src dst : Nat) (route : List String) : Option String :=
  if src == dst && f.lb then
    if route.length == 1 && (route.head?.bind lbId) == some src then none else some "loopback-expected"
  else if route.any isLb then some "unexpected-loopback"
  else if !f.lim && route.any isLim then some "unexpected-limiter"
  else
    let cables := route.filter (fun s => !isLim s)
    match cables.mapM parseFt with
    | none => some "not-a-fat-tree-link"
    | some cs =>
      let k := ncaLevelOfIds f.down src dst
      -- with src = dst and no loopback the code goes up one level and back
      let k := if src == dst then 1 else k
      let ups := cs.take k
      let downs := cs.drop k
      if cs.length != 2 * k then some s!"length-{cs.length}-expected-{2 * k}"
      else if f.split && !(ups.all (fun c => c.2.2.2 == some true) && downs.all (fun c => c.2.2.2 == some false)) then some "up-then-down"
      else
        -- chain: src -> parents ... ; then down to dst
        let upOk := (ups.foldl (fun (st : Option Int) c => match st with
          | some cur => if c.1 == cur then some c.2.1 else none
          | none => none) (some (src : Int)))
        match upOk with
        | none => some "up-chain-broken"
        | some top =>
          let dnOk := (downs.foldl (fun (st : Option Int) c => match st with
            | some cur => if c.2.1 == cur then some c.1 else none
            | none => none) (some top))
          if dnOk != some (dst : Int) then some "down-chain-broken"
          else if f.lim then
            let lims := (route.filter isLim).map limIdInt
            let expected := ups.map (fun c => some c.1) ++ downs.map (fun c => some c.2.1) ++ [some (dst : Int)]
            if lims == expected then none else some "limiters"
          else none

def judgeFt (q : List String) (a : List String) : Verdict :=
  match q with
  | [lv, dn, up, ct, lbS, limS, sp, _pre, posS, uidS, srcS] =>
    match lv.toNat?, parseList dn, parseList up, parseList ct, parseBool lbS, parseBool limS, posS.toNat?, uidS.toNat?, srcS.toNat? with
    | some lv, some dn, some up, some ct, some lb, some lim, some posOff, some uidOff, some src =>
      let f : FatTree := { levels := lv, down := dn, up := up, count := ct, lb := lb, lim := lim, split := sp == "S",
                           posOff := posOff, uidOff := uidOff }
      let tb := f.build
      let n := f.nLeaves
      let routes := splitRoutes a
      if routes.length != n then .disagree s!"{n}-routes-expected" else
      -- hypothesis of the `fattree_*` theorems (proved for `f.build`: `fattree_build_wf`), re-evaluated on the construction of
      -- every zone (once per zone: first source): a runtime cross-check, cheap
      if src == 0 && f.paramsOk && !(tb.wfCheck f) then .monfail "fat-tree-construction-not-well-formed (FTables.wfCheck)" else
      let mon := firstBad ((List.range n).zip routes |>.map (fun (d, r) => (d, ftMonitor f src d r)))
      match mon with
      | some (d, m) => .monfail s!"dst={d} {m}"
      | none =>
        let bad := (List.range n).zip routes |>.filter (fun (d, r) =>
          (f.route tb src d).map (·.map (FTLink.name f)) != some r)
        match bad with
        | [] => .ok
        | (d, _) :: _ => .disagree s!"dst={d}:{(f.route tb src d).map (·.map (FTLink.name f))}"
    | _, _, _, _, _, _, _, _, _ => .bad
  | _ => .bad

/-! ### dragonfly -/
inductive DTok where
  | loc (r n : Nat) (dir : Option Bool)
  | green (c j k : Nat) (dir : Option Bool)
  | black (g j k l : Nat) (dir : Option Bool)
  | blue (i j ri rj : Nat) (dir : Option Bool)

def dirOf (l : List String) : Option (Option Bool) :=
  match l with
  | [] => some none
  | ["UP"] => some (some true)
  | ["DOWN"] => some (some false)
  | _ => none

def parseDf (s : String) : Option DTok :=
  match s.splitOn "_" with
  | "local" :: "link" :: "from" :: "router" :: r :: "to" :: "node" :: n :: _u :: rest =>
    do some (.loc (← r.toNat?) (← n.toNat?) (← dirOf rest))
  | "green" :: "link" :: "in" :: "chassis" :: c :: "between" :: "routers" :: j :: "and" :: k :: _u :: rest =>
    do some (.green (← c.toNat?) (← j.toNat?) (← k.toNat?) (← dirOf rest))
  | "black" :: "link" :: "in" :: "group" :: g :: "between" :: "chassis" :: j :: "and" :: k :: "blade" :: l :: _u :: rest =>
    do some (.black (← g.toNat?) (← j.toNat?) (← k.toNat?) (← l.toNat?) (← dirOf rest))
  | "blue" :: "link" :: "between" :: "group" :: i :: "and" :: j :: "routers" :: ri :: "and" :: rj :: _u :: rest =>
    do some (.blue (← i.toNat?) (← j.toNat?) (← ri.toNat?) (← rj.toNat?) (← dirOf rest))
  | _ => none

def dirOk (dir : Option Bool) (want : Bool) : Bool := dir == none || dir == some want

/-- the documented hierarchy, checked on the implementation's names: node -> its router, then router-to-router links each
leaving from the router the walk is on (green: same chassis, black: same group & blade, blue: chassis-0 routers of two
groups), at most one blue hop, order (green? black? blue)? green? black?, then router -> node -/
def dfMonitor (d : Dragonfly) (src dst : Nat) (route : List String) : Option String :=
  if src == dst && d.lb then
    if route.length == 1 && (route.head?.bind lbId) == some src then none else some "loopback-expected"
  else if route.any isLb then some "unexpected-loopback"
  else if !d.lim && route.any isLim then some "unexpected-limiter"
  else
    let (my, mn) := d.coords src
    let (tg, tn) := d.coords dst
    let toks := route.filter (fun s => !isLim s)
    match toks.mapM parseDf with
    | none => some "not-a-dragonfly-link"
    | some ts =>
      match ts with
      | .loc r n dir :: rest =>
        if !(r == d.ridx my && n == mn && dirOk dir true) then some "first-link-is-not-the-source-local-link" else
        let inter := rest.dropLast
        match rest.getLast? with
        | some (.loc r2 n2 dir2) =>
          let step (st : Except String (RCoord × List Nat)) (t : DTok) : Except String (RCoord × List Nat) :=
            match st with
            | .error e => .error e
            | .ok (pos, kinds) =>
              match t with
              | .loc _ _ _ => .error "local-link-in-the-middle"
              | .green c j k dir =>
                if c != pos.c then .error s!"green-link-of-chassis-{c}-taken-from-chassis-{pos.c}"
                else if pos.b == j && dirOk dir true then .ok ({ pos with b := k }, 1 :: kinds)
                else if pos.b == k && dirOk dir false then .ok ({ pos with b := j }, 1 :: kinds)
                else .error s!"green-link-{j}-{k}-does-not-leave-blade-{pos.b}"
              | .black g j k l dir =>
                if g != pos.g || l != pos.b then .error s!"black-link-of-group-{g}-blade-{l}-taken-from-group-{pos.g}-blade-{pos.b}"
                else if pos.c == j && dirOk dir true then .ok ({ pos with c := k }, 2 :: kinds)
                else if pos.c == k && dirOk dir false then .ok ({ pos with c := j }, 2 :: kinds)
                else .error s!"black-link-{j}-{k}-does-not-leave-chassis-{pos.c}"
              | .blue _ _ ri rj dir =>
                if d.ridx pos == ri && dirOk dir true then .ok (d.rcoord rj, 3 :: kinds)
                else if d.ridx pos == rj && dirOk dir false then .ok (d.rcoord ri, 3 :: kinds)
                else .error s!"blue-link-{ri}-{rj}-does-not-leave-router-{d.ridx pos}"
          match inter.foldl step (.ok (my, [])) with
          | .error e => some e
          | .ok (pos, kinds) =>
            let kinds := kinds.reverse
            if !(r2 == d.ridx pos && pos == tg && n2 == tn && dirOk dir2 false) then
              some s!"last-link-from-router-{r2}-but-walk-is-on-router-{d.ridx pos}-target-{d.ridx tg}"
            else
              let blues := (kinds.filter (· == 3)).length
              let okOrder := [[], [1], [2], [1, 2], [3], [1, 3], [2, 3], [1, 2, 3],
                              [3, 1], [3, 2], [3, 1, 2], [1, 3, 1], [1, 3, 2], [1, 3, 1, 2], [2, 3, 1], [2, 3, 2], [2, 3, 1, 2],
                              [1, 2, 3, 1], [1, 2, 3, 2], [1, 2, 3, 1, 2]].contains kinds
              if blues > 1 then some "more-than-one-blue-hop"
              else if (blues == 1) != (my.g != tg.g) then some "blue-hop-iff-groups-differ"
              else if !okOrder then some s!"hop-order-{kinds}"
              else if my.g == tg.g && kinds != ((if my.b != tg.b then [1] else []) ++ (if my.c != tg.c then [2] else [])) then
                some s!"same-group-not-minimal-{kinds}"
              else
                -- limiters of the two leaves
                if d.lim && !((route.head?.bind limId) == some src && (route.getLast?.bind limId) == some dst) then some "leaf-limiters"
                else none
        | _ => some "last-link-is-not-a-local-link"
      | _ => some "first-link-is-not-a-local-link"

def judgeDf (q : List String) (a : List String) : Verdict :=
  match q with
  | [gS, cS, rS, nS, lbS, limS, sp, uidS, srcS] =>
    match parseList gS, parseList cS, parseList rS, nS.toNat?, parseBool lbS, parseBool limS, uidS.toNat?, srcS.toNat? with
    | some (g :: _), some (c :: _), some (r :: _), some n, some lb, some lim, some uidOff, some src =>
      let d : Dragonfly := ⟨g, c, r, n, lb, lim, sp == "S", uidOff⟩
      let routes := splitRoutes a
      if routes.length != d.tot then .disagree s!"{d.tot}-routes-expected" else
      -- `dragonfly_wiring` (proved for all shapes with G <= B) re-evaluated on the tables of every zone (once per zone: first
      -- source): a runtime cross-check of `peer` against `genLinks`, cheap
      if src == 0 && decide (d.G ≤ d.B) && !d.wiringOk then .monfail "dragonfly-tables-not-wired-as-peer (Dragonfly.wiringOk)" else
      let mon := firstBad ((List.range d.tot).zip routes |>.map (fun (t, rt) => (t, dfMonitor d src t rt)))
      let bad := (List.range d.tot).zip routes |>.filter (fun (t, rt) =>
          (d.route src t).map (·.map (DLink.name d)) != some rt)
      match mon, bad with
      | some (t, m), [] => .monfail s!"dst={t} {m} (model agrees with the implementation)"
      | some (t, m), _ => .monfail s!"dst={t} {m}"
      | none, [] => .ok
      | none, (t, _) :: _ => .disagree s!"dst={t}:{(d.route src t).map (·.map (DLink.name d))}"
    | _, _, _, _, _, _, _, _ => .bad
  | _ => .bad

def judge (q a : List String) : Verdict :=
  match q with
  | ["T", dims, lb, lim, sp, src] => judgeTorus dims lb lim sp src a
  | "S" :: n :: rest => judgeStar n rest a
  | "F" :: rest => judgeFt rest a
  | "D" :: rest => judgeDf rest a
  | _ => .bad

end SgVerif.C26

def main : IO Unit := SgVerif.Proto.run SgVerif.C26.judge
