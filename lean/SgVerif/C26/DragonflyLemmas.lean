import SgVerif.C26.DragonflySpec
/-!
C26 — dragonfly: lemmas for `dragonfly_connected` & co (Props.lean): the div/mod round trip between router numbers and
coordinates, `steps = specSteps`, and `peer` on router numbers written in coordinates.
-/
namespace SgVerif.C26

/-- coordinates within the shape -/
def RCoord.InRange (d : Dragonfly) (r : RCoord) : Prop := r.g < d.G ∧ r.c < d.C ∧ r.b < d.B

theorem cb_lt (c b C B : Nat) (hc : c < C) (hb : b < B) : c * B + b < C * B := by
  have h1 : (c + 1) * B ≤ C * B := Nat.mul_le_mul_right B hc
  rw [Nat.add_mul, Nat.one_mul] at h1
  omega

/-- the div/mod facts about `r = g*(C*B) + c*B + b` with `c < C`, `b < B` -/
theorem ridx_facts (g c b C B : Nat) (hc : c < C) (hb : b < B) :
    (g * (C * B) + c * B + b) % B = b ∧ (g * (C * B) + c * B + b) / B = g * C + c ∧
    (g * (C * B) + c * B + b) / (C * B) = g ∧ (g * (C * B) + c * B + b) % (C * B) = c * B + b ∧
    (g * C + c) % C = c ∧ (g * C + c) / C = g := by
  have hB : 0 < B := by omega
  have hC : 0 < C := by omega
  have hCB : 0 < C * B := Nat.mul_pos hC hB
  have e : g * (C * B) + c * B + b = b + (g * C + c) * B := by
    rw [Nat.add_mul, Nat.mul_assoc]; omega
  have e2 : g * (C * B) + c * B + b = (c * B + b) + g * (C * B) := by omega
  have hcb := cb_lt c b C B hc hb
  refine ⟨?_, ?_, ?_, ?_, ?_, ?_⟩
  · rw [e, Nat.add_mul_mod_self_right, Nat.mod_eq_of_lt hb]
  · rw [e, Nat.add_mul_div_right _ _ hB, Nat.div_eq_of_lt hb, Nat.zero_add]
  · rw [e2, Nat.add_mul_div_right _ _ hCB, Nat.div_eq_of_lt hcb, Nat.zero_add]
  · rw [e2, Nat.add_mul_mod_self_right, Nat.mod_eq_of_lt hcb]
  · rw [Nat.add_comm, Nat.add_mul_mod_self_right, Nat.mod_eq_of_lt hc]
  · rw [Nat.add_comm, Nat.add_mul_div_right _ _ hC, Nat.div_eq_of_lt hc, Nat.zero_add]

theorem rcoord_ridx (d : Dragonfly) (g c b : Nat) (hc : c < d.C) (hb : b < d.B) :
    d.rcoord (d.ridx ⟨g, c, b⟩) = ⟨g, c, b⟩ := by
  obtain ⟨h1, h2, h3, _, h5, _⟩ := ridx_facts g c b d.C d.B hc hb
  unfold Dragonfly.rcoord Dragonfly.ridx
  simp only [h1, h2, h3, h5]

theorem ridx_inj (d : Dragonfly) (a b : RCoord) (ha : a.InRange d) (hb : b.InRange d) (h : d.ridx a = d.ridx b) : a = b := by
  have h1 := rcoord_ridx d a.g a.c a.b ha.2.1 ha.2.2
  have h2 := rcoord_ridx d b.g b.c b.b hb.2.1 hb.2.2
  have : (⟨a.g, a.c, a.b⟩ : RCoord) = a := rfl
  rw [this] at h1
  have : (⟨b.g, b.c, b.b⟩ : RCoord) = b := rfl
  rw [this] at h2
  rw [← h1, ← h2, h]

theorem ridx_lt (d : Dragonfly) (r : RCoord) (h : r.InRange d) : d.ridx r < d.nRouters := by
  unfold Dragonfly.ridx Dragonfly.nRouters
  have h1 := cb_lt r.c r.b d.C d.B h.2.1 h.2.2
  have h2 : (r.g + 1) * (d.C * d.B) ≤ d.G * (d.C * d.B) := Nat.mul_le_mul_right _ h.1
  rw [Nat.add_mul, Nat.one_mul] at h2
  rw [Nat.mul_assoc]
  omega

/-! ### `peer` on router numbers written in coordinates -/

theorem peer_green (d : Dragonfly) (g c b k : Nat) (hc : c < d.C) (hb : b < d.B) (hk : k < d.B) (hne : k ≠ b) :
    d.peer (d.ridx ⟨g, c, b⟩) (.green k) = some (d.ridx ⟨g, c, k⟩) := by
  obtain ⟨h1, h2, _, _, _, _⟩ := ridx_facts g c b d.C d.B hc hb
  unfold Dragonfly.peer Dragonfly.ridx
  simp only [h1, h2, hk, hne, ne_eq, not_false_eq_true, and_self, if_true, Nat.add_mul, Nat.mul_assoc]

theorem peer_black (d : Dragonfly) (g c b k : Nat) (hc : c < d.C) (hb : b < d.B) (hk : k < d.C) (hne : k ≠ c) :
    d.peer (d.ridx ⟨g, c, b⟩) (.black k) = some (d.ridx ⟨g, k, b⟩) := by
  obtain ⟨h1, h2, h3, _, h5, _⟩ := ridx_facts g c b d.C d.B hc hb
  unfold Dragonfly.peer Dragonfly.ridx
  simp only [h1, h2, h3, h5, hk, hne, ne_eq, not_false_eq_true, and_self, if_true]

theorem peer_blue (d : Dragonfly) (g b : Nat) (hC : 0 < d.C) (hb : b < d.B) (hbG : b < d.G) (hne : b ≠ g) :
    d.peer (d.ridx ⟨g, 0, b⟩) .blue = some (d.ridx ⟨b, 0, g⟩) := by
  obtain ⟨_, _, h3, h4, _, _⟩ := ridx_facts g 0 b d.C d.B hC hb
  simp only [Nat.zero_mul, Nat.add_zero, Nat.zero_add] at h3 h4
  unfold Dragonfly.peer Dragonfly.ridx
  simp only [Nat.zero_mul, Nat.add_zero, h3, h4, hbG, hne, ne_eq, not_false_eq_true, and_self, if_true]

/-! ### the control flow of `get_local_route` equals the documented structure -/

theorem steps_eq_spec (d : Dragonfly) (my tg : RCoord) (hmy : my.InRange d) (htg : tg.InRange d) (hGB : d.G ≤ d.B) :
    d.steps my tg = d.specSteps my tg := by
  obtain ⟨mg, mc, mb⟩ := my
  obtain ⟨tgg, tc, tb⟩ := tg
  obtain ⟨hmg, hmc, hmb⟩ := hmy
  obtain ⟨htgg, htc, htb⟩ := htg
  simp only at hmg hmc hmb htgg htc htb
  have hC : 0 < d.C := by omega
  have e1 := rcoord_ridx d mg mc mb hmc hmb
  have e2 := rcoord_ridx d tgg tc tb htc htb
  have e3 := rcoord_ridx d mg mc tgg hmc (by omega)
  have e4 := rcoord_ridx d mg 0 tgg hC (by omega)
  have e5 := rcoord_ridx d tgg 0 mg hC (by omega)
  have e6 := rcoord_ridx d tgg 0 tb hC htb
  have e7 := rcoord_ridx d mg mc tb hmc htb
  have e8 := rcoord_ridx d tgg mc tb hmc htb
  by_cases hsame : (⟨mg, mc, mb⟩ : RCoord) = ⟨tgg, tc, tb⟩
  · unfold Dragonfly.steps Dragonfly.specSteps
    simp [hsame]
  · have hne : d.ridx ⟨tgg, tc, tb⟩ ≠ d.ridx ⟨mg, mc, mb⟩ := by
      intro h
      exact hsame (ridx_inj d _ _ ⟨hmg, hmc, hmb⟩ ⟨htgg, htc, htb⟩ h.symm)
    have r4 : mg * (d.C * d.B) + tgg = d.ridx ⟨mg, 0, tgg⟩ := by simp [Dragonfly.ridx]
    have r5 : tgg * (d.C * d.B) + mg = d.ridx ⟨tgg, 0, mg⟩ := by simp [Dragonfly.ridx]
    have r3 : mg * (d.C * d.B) + mc * d.B + tgg = d.ridx ⟨mg, mc, tgg⟩ := rfl
    unfold Dragonfly.steps Dragonfly.specSteps
    simp only [hne, hsame, if_false, e1, e2, dfGreenKeepsChassis, if_true]
    by_cases hg : tgg = mg
    · subst hg
      simp only [ne_eq, not_true_eq_false, if_false]
      by_cases hb : tb = mb
      · subst hb
        by_cases hc : tc = mc
        · subst hc; exact absurd rfl hsame
        · simp [hc, e1]
      · have r7 : tgg * (d.C * d.B) + mc * d.B + tb = d.ridx ⟨tgg, mc, tb⟩ := rfl
        by_cases hc : tc = mc
        · simp [hb, hc, e1, r7, e8]
        · simp [hb, hc, e1, r7, e8]
    · simp only [ne_eq, hg, not_false_eq_true, if_true]
      have u1 := e1; have u3 := e3; have u4 := e4; have u5 := e5; have u6 := e6
      simp only [Dragonfly.ridx, Nat.zero_mul, Nat.add_zero] at u1 u3 u4 u5 u6
      by_cases hc : mc = 0
      · subst hc
        simp only [Nat.zero_mul, Nat.add_zero] at u1 u3
        by_cases hb : mb = tgg
        · subst hb
          by_cases hb2 : tb = mg <;> by_cases hc2 : tc = 0 <;> simp [u1, u4, u5, u6, hb2, hc2, Dragonfly.ridx]
        · by_cases hb2 : tb = mg <;> by_cases hc2 : tc = 0 <;> simp [u1, u3, u4, u5, u6, hb, hb2, hc2, Dragonfly.ridx]
      · by_cases hb : mb = tgg
        · subst hb
          by_cases hb2 : tb = mg <;> by_cases hc2 : tc = 0 <;> simp [u1, u4, u5, u6, hc, hb2, hc2, Dragonfly.ridx]
        · by_cases hb2 : tb = mg <;> by_cases hc2 : tc = 0 <;>
            simp [u1, u3, u4, u5, u6, hb, hc, hb2, hc2, Dragonfly.ridx]

/-! ### connectivity -/

/-- the hops chain from router `a` to router `b`: each hop is taken from the link array of the router the walk is on (a valid
index of `routers_`), and the link in that slot leads to the router the next hop is taken from (`peer`: the wiring of
`generate_links`) -/
def DConnected (d : Dragonfly) : Nat → List DStep → Nat → Prop
  | a, [], b => a = b
  | a, s :: ss, b => s.owner = a ∧ a < d.nRouters ∧ ∃ q, d.peer a s.slot = some q ∧ DConnected d q ss b

theorem DConnected_append (d : Dragonfly) : ∀ (l1 : List DStep) (a b c : Nat) (l2 : List DStep),
    DConnected d a l1 b → DConnected d b l2 c → DConnected d a (l1 ++ l2) c := by
  intro l1
  induction l1 with
  | nil => intro a b c l2 h1 h2; simp only [DConnected] at h1; subst h1; simpa using h2
  | cons s ss ih =>
    intro a b c l2 h1 h2
    simp only [DConnected] at h1
    obtain ⟨h3, hlt, q, h4, h5⟩ := h1
    simp only [List.cons_append, DConnected]
    exact ⟨h3, hlt, q, h4, ih _ _ _ _ h5 h2⟩

theorem DConnected_single (d : Dragonfly) (s : DStep) (a b : Nat) (h1 : s.owner = a) (hlt : a < d.nRouters)
    (h2 : d.peer a s.slot = some b) : DConnected d a [s] b := by
  simp only [DConnected]
  exact ⟨h1, hlt, b, h2, rfl⟩

theorem DConnected_opt (d : Dragonfly) (p : Prop) [Decidable p] (s : DStep) (a b : Nat)
    (h1 : p → s.owner = a ∧ a < d.nRouters ∧ d.peer a s.slot = some b) (h2 : ¬p → a = b) :
    DConnected d a (if p then [s] else []) b := by
  by_cases hp : p
  · rw [if_pos hp]; exact DConnected_single d s a b (h1 hp).1 (h1 hp).2.1 (h1 hp).2.2
  · rw [if_neg hp]; exact h2 hp

theorem specSteps_connected (d : Dragonfly) (my tg : RCoord) (hmy : my.InRange d) (htg : tg.InRange d) (hGB : d.G ≤ d.B) :
    DConnected d (d.ridx my) (d.specSteps my tg) (d.ridx tg) := by
  obtain ⟨mg, mc, mb⟩ := my
  obtain ⟨tgg, tc, tb⟩ := tg
  obtain ⟨hmg, hmc, hmb⟩ := hmy
  obtain ⟨htgg, htc, htb⟩ := htg
  simp only at hmg hmc hmb htgg htc htb
  have hC : 0 < d.C := by omega
  unfold Dragonfly.specSteps
  by_cases hsame : (⟨mg, mc, mb⟩ : RCoord) = ⟨tgg, tc, tb⟩
  · rw [if_pos hsame, hsame]; rfl
  · rw [if_neg hsame]
    by_cases hg : tgg = mg
    · subst hg
      rw [if_neg (by simp)]
      refine DConnected_append d _ _ (d.ridx ⟨tgg, mc, tb⟩) _ _ ?_ ?_
      · apply DConnected_opt
        · intro h; exact ⟨rfl, ridx_lt d _ ⟨hmg, hmc, hmb⟩, peer_green d tgg mc mb tb hmc hmb htb h⟩
        · intro h
          have : tb = mb := Decidable.of_not_not h
          rw [this]
      · apply DConnected_opt
        · intro h; exact ⟨rfl, ridx_lt d _ ⟨hmg, hmc, htb⟩, peer_black d tgg mc tb tc hmc htb htc h⟩
        · intro h
          have : tc = mc := Decidable.of_not_not h
          rw [this]
    · rw [if_pos hg]
      refine DConnected_append d _ _ (d.ridx ⟨tgg, 0, tb⟩) _ _
        (DConnected_append d _ _ (d.ridx ⟨tgg, 0, mg⟩) _ _
          (DConnected_append d _ _ (d.ridx ⟨mg, 0, tgg⟩) _ _
            (DConnected_append d _ _ (d.ridx ⟨mg, mc, tgg⟩) _ _ ?_ ?_) ?_) ?_) ?_
      · apply DConnected_opt
        · intro h; exact ⟨rfl, ridx_lt d _ ⟨hmg, hmc, hmb⟩, peer_green d mg mc mb tgg hmc hmb (by omega) (fun e => h e.symm)⟩
        · intro h
          have : mb = tgg := Decidable.of_not_not h
          rw [this]
      · apply DConnected_opt
        · intro h; exact ⟨rfl, ridx_lt d _ ⟨hmg, hmc, (by simp only; omega)⟩, peer_black d mg mc tgg 0 hmc (by omega) hC (fun e => h e.symm)⟩
        · intro h
          have : mc = 0 := Decidable.of_not_not h
          rw [this]
      · exact DConnected_single d _ _ _ rfl (ridx_lt d _ ⟨hmg, hC, (by simp only; omega)⟩) (peer_blue d mg tgg hC (by omega) htgg hg)
      · apply DConnected_opt
        · intro h; exact ⟨rfl, ridx_lt d _ ⟨htgg, hC, (by simp only; omega)⟩, peer_green d tgg 0 mg tb hC (by omega) htb h⟩
        · intro h
          have : tb = mg := Decidable.of_not_not h
          rw [this]
      · apply DConnected_opt
        · intro h; exact ⟨rfl, ridx_lt d _ ⟨htgg, hC, htb⟩, peer_black d tgg 0 tb tc hC htb htc h⟩
        · intro h
          have : tc = 0 := Decidable.of_not_not h
          rw [this]

/-! ### coordinates of a leaf are within the shape -/

theorem coords_inRange (d : Dragonfly) (id : Nat) (h : id < d.tot) : (d.coords id).1.InRange d := by
  unfold Dragonfly.tot at h
  unfold Dragonfly.coords RCoord.InRange
  simp only
  have hN : 0 < d.N := by
    rcases Nat.eq_zero_or_pos d.N with h0 | h0
    · rw [h0, Nat.mul_zero] at h; omega
    · exact h0
  have hB : 0 < d.B := by
    rcases Nat.eq_zero_or_pos d.B with h0 | h0
    · rw [h0, Nat.mul_zero, Nat.zero_mul] at h; omega
    · exact h0
  have hC : 0 < d.C := by
    rcases Nat.eq_zero_or_pos d.C with h0 | h0
    · rw [h0, Nat.mul_zero, Nat.zero_mul, Nat.zero_mul] at h; omega
    · exact h0
  have hBN : 0 < d.B * d.N := Nat.mul_pos hB hN
  have hCBN : 0 < d.C * d.B * d.N := Nat.mul_pos (Nat.mul_pos hC hB) hN
  refine ⟨?_, ?_, ?_⟩
  · apply Nat.div_lt_of_lt_mul
    have e : d.G * d.C * d.B * d.N = d.C * d.B * d.N * d.G := by
      rw [Nat.mul_assoc d.G, Nat.mul_assoc d.G, Nat.mul_comm d.G, Nat.mul_assoc d.C]
    omega
  · apply Nat.div_lt_of_lt_mul
    have h1 := Nat.mod_lt id hCBN
    have e : d.C * d.B * d.N = d.B * d.N * d.C := by
      rw [Nat.mul_assoc d.C, Nat.mul_comm d.C]
    omega
  · apply Nat.div_lt_of_lt_mul
    have h1 := Nat.mod_lt (id % (d.C * d.B * d.N)) hBN
    have e : d.B * d.N = d.N * d.B := Nat.mul_comm _ _
    omega

/-! ### the tie between `peer` and the link tables -/

theorem wiringOk_spec (d : Dragonfly) (h : d.wiringOk = true) (r : Nat) (hr : r < d.nRouters) (s : DSlot) (q : Nat)
    (hq : d.peer r s = some q) :
    ∃ l, d.linkAt d.genLinks.2 r s = some l ∧ d.linkAt d.genLinks.2 q (d.backSlot r s) = some l.flip := by
  unfold Dragonfly.wiringOk at h
  simp only [List.all_eq_true, List.mem_range] at h
  have hs : s ∈ (List.range d.B).map DSlot.green ++ (List.range d.C).map DSlot.black ++ [DSlot.blue] := by
    cases s with
    | node i => simp [Dragonfly.peer] at hq
    | green k =>
      simp only [Dragonfly.peer] at hq
      split at hq
      · rename_i hk; simp [hk.1]
      · cases hq
    | black k =>
      simp only [Dragonfly.peer] at hq
      split at hq
      · rename_i hk; simp [hk.1]
      · cases hq
    | blue => simp
  have h1 := h r hr s hs
  rw [hq] at h1
  simp only at h1
  split at h1
  · rename_i l1 l2 e1 e2
    simp only [beq_iff_eq] at h1
    exact ⟨l1, e1, by rw [e2, h1]⟩
  · cases h1

/-- the same chain read on the link tables: the slot of the current router and the back slot of the next router hold
the two halves (`flip`) of one link -/
def DLinked (d : Dragonfly) : Nat → List DStep → Nat → Prop
  | a, [], b => a = b
  | a, s :: ss, b => s.owner = a ∧ ∃ q l, d.linkAt d.genLinks.2 a s.slot = some l ∧
      d.linkAt d.genLinks.2 q (d.backSlot a s.slot) = some l.flip ∧ DLinked d q ss b

theorem DConnected_linked (d : Dragonfly) (h : d.wiringOk = true) : ∀ (ss : List DStep) (a b : Nat),
    DConnected d a ss b → DLinked d a ss b := by
  intro ss
  induction ss with
  | nil => intro a b h1; exact h1
  | cons s ss ih =>
    intro a b h1
    simp only [DConnected] at h1
    obtain ⟨h2, hlt, q, h3, h4⟩ := h1
    obtain ⟨l, e1, e2⟩ := wiringOk_spec d h a hlt s.slot q h3
    simp only [DLinked]
    exact ⟨h2, q, l, e1, e2, ih _ _ h4⟩

end SgVerif.C26
