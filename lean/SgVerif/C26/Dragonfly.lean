import SgVerif.C26.Cluster
/-
C26 — DragonflyZone (src/kernel/routing/DragonflyZone.cpp), as written.
Two layers:
  * `dfSteps`   : the control flow of get_local_route on router coordinates (which router's which link array slot is
                  pushed, which router the code *believes* it is on afterwards) — no tables; theorems are about this;
  * `Dragonfly.route` : the same control flow with the link tables built by `generate_links` (names, unique ids,
                  nullptr / out-of-bounds slots), compared with the implementation link name by link name.
-/
namespace SgVerif.C26

structure Dragonfly where
  G : Nat
  C : Nat
  B : Nat
  N : Nat
  lb : Bool
  lim : Bool
  split : Bool
  uidOff : Nat := 0    -- value of the function-local `static int uniqueId` of generate_links when this zone is sealed
  deriving Repr

structure RCoord where
  g : Nat
  c : Nat
  b : Nat
  deriving Repr, DecidableEq

inductive DSlot where
  | node (i : Nat)       -- my_nodes_[i]
  | green (k : Nat)      -- green_links_[k]
  | black (k : Nat)      -- black_links_[k]
  | blue                 -- blue_link_
  deriving Repr, DecidableEq

inductive DLink where
  | loopback (id : Nat)
  | limiter (id : Nat)
  | rlimiter (id : Nat) (r : RCoord)             -- limiter of a router: callback id, coordinates (g,c,b,UINT_MAX)
  | localL (router node uid : Nat) (up : Bool)
  | green (chassis j k uid : Nat) (up : Bool)
  | black (g j k l uid : Nat) (up : Bool)
  | blue (i j ri rj uid : Nat) (up : Bool)
  deriving Repr, DecidableEq

def Dragonfly.nRouters (d : Dragonfly) : Nat := d.G * d.C * d.B
def Dragonfly.tot (d : Dragonfly) : Nat := d.G * d.C * d.B * d.N
def Dragonfly.ridx (d : Dragonfly) (r : RCoord) : Nat := r.g * (d.C * d.B) + r.c * d.B + r.b
/-- `routers_.emplace_back(i, j, k, ...)` in the triple loop: the coordinates stored in router number `r` -/
def Dragonfly.rcoord (d : Dragonfly) (r : Nat) : RCoord := ⟨r / (d.C * d.B), (r / d.B) % d.C, r % d.B⟩
/-- `num_links_per_link_`: 2 when split-duplex -/
def Dragonfly.lpl (d : Dragonfly) : Nat := if d.split then 2 else 1

structure DAssign where
  router : Nat
  slot : DSlot
  link : DLink
  deriving Repr

def forRange {σ : Type} (lo hi : Nat) (f : Nat → σ → σ) (s : σ) : σ :=
  (List.range (hi - lo)).foldl (fun s i => f (lo + i) s) s

/-- `DragonflyZone::generate_links`: all assignments `routers_[r].<slot> = link`, NEWEST FIRST (so that `find?` returns
the value a slot holds at the end), with the running `uniqueId`. -/
def Dragonfly.genLinks (d : Dragonfly) : Nat × List DAssign :=
  let R := d.nRouters
  -- Links from routers to their local nodes
  let s := forRange 0 R (fun i s =>
    forRange 0 d.N (fun n (s : Nat × List DAssign) =>
      let (uid, as) := s
      let up := DLink.localL i n uid true
      let dn := DLink.localL i n uid false
      -- my_nodes_[j] = linkup; if SPLITDUPLEX my_nodes_[j+1] = linkdown   (j = n * num_links_per_link_)
      let as := ⟨i, .node (n * d.lpl), up⟩ :: as
      let as := if d.split then ⟨i, .node (n * d.lpl + 1), dn⟩ :: as else as
      (uid + 1, as)) s) (d.uidOff, [])
  -- Green links: for i < G*C, j < B, k in j+1..B-1
  let s := forRange 0 (d.G * d.C) (fun i s =>
    forRange 0 d.B (fun j s =>
      forRange (j + 1) d.B (fun k (s : Nat × List DAssign) =>
        let (uid, as) := s
        (uid + 1, ⟨i * d.B + k, .green j, .green (i % d.C) j k uid false⟩ ::
                  ⟨i * d.B + j, .green k, .green (i % d.C) j k uid true⟩ :: as)) s) s) s
  -- Black links: for i < G, j < C, k in j+1..C-1, l < B
  let s := forRange 0 d.G (fun i s =>
    forRange 0 d.C (fun j s =>
      forRange (j + 1) d.C (fun k s =>
        forRange 0 d.B (fun l (s : Nat × List DAssign) =>
          let (uid, as) := s
          (uid + 1, ⟨i * d.B * d.C + k * d.B + l, .black j, .black i j k l uid false⟩ ::
                    ⟨i * d.B * d.C + j * d.B + l, .black k, .black i j k l uid true⟩ :: as)) s) s) s) s
  -- Blue links: for i < G, j in i+1..G-1: routernumi = i*B*C + j, routernumj = j*B*C + i
  forRange 0 d.G (fun i s =>
    forRange (i + 1) d.G (fun j (s : Nat × List DAssign) =>
      let (uid, as) := s
      let ri := i * d.B * d.C + j
      let rj := j * d.B * d.C + i
      (uid + 1, ⟨rj, .blue, .blue i j ri rj uid false⟩ :: ⟨ri, .blue, .blue i j ri rj uid true⟩ :: as)) s) s

/-- vector sizes after `generate_links` (`resize`): an index beyond them is an out-of-bounds read in the C++ -/
def Dragonfly.slotInBounds (d : Dragonfly) : DSlot → Bool
  | .node i => i < d.lpl * d.N
  | .green k => k < d.B
  | .black k => k < d.C
  | .blue => true

/-- the link a router slot holds; `none` = router index or slot out of bounds (undefined behaviour in the C++), or a
slot never assigned (nullptr, dereferenced by add_link_latency) -/
def Dragonfly.linkAt (d : Dragonfly) (as : List DAssign) (r : Nat) (s : DSlot) : Option DLink :=
  if r < d.nRouters ∧ d.slotInBounds s then
    (as.find? (fun a => a.router == r && a.slot == s)).map (·.link)
  else none

/-- `generate_routers`: the limiter of router number `r` (created in index order, `id--` before each callback) -/
def Dragonfly.routerLimiter (d : Dragonfly) (r : Nat) : Option DLink :=
  if d.lim then some (.rlimiter (2 * d.tot - 1 - r) (d.rcoord r)) else none

/-- `rankId_to_coords` -/
def Dragonfly.coords (d : Dragonfly) (id : Nat) : RCoord × Nat :=
  let g := id / (d.C * d.B * d.N)
  let r1 := id % (d.C * d.B * d.N)
  let c := r1 / (d.B * d.N)
  let r2 := r1 % (d.B * d.N)
  (⟨g, c, r2 / d.N⟩, r2 % d.N)

/-- one inter-router push of get_local_route: the router whose array is read, the slot, and the router the code
continues from (`currentRouter = &routers_[...]`) -/
structure DStep where
  owner : Nat          -- index of `currentRouter` when the link is pushed
  slot : DSlot
  limBefore : Bool     -- `if (currentRouter->limiter_) push` happens before (true) or after (false, blue hop) the link
  next : Nat           -- index assigned to `currentRouter` afterwards (for the last black hop: unchanged in the code)
  deriving Repr, DecidableEq

/-- SWITCH for the proposed fix (props/C26/proposed_fix.diff): `false` = the code as it is now (after the green hop towards
the target blade `currentRouter = &routers_[group * (C*B) + blade]`, i.e. chassis 0); `true` = fixed code (keeps
`currentRouter->chassis_`).  When the fix is applied to /repo set this to `true`; `dragonfly_same_group_counterexample`
then has to be replaced by the connectivity theorem. -/
abbrev dfGreenKeepsChassis : Bool := true

/-- the `if (targetRouter != myRouter) { ... }` block, on router numbers, verbatim:
```
    if (targetRouter->group_ != currentRouter->group_) {
      if (currentRouter->blade_ != targetCoords.group) {   green_links_[targetCoords.group];
        currentRouter = &routers_[myCoords.group * (C * B) + myCoords.chassis * B + targetCoords.group]; }
      if (currentRouter->chassis_ != 0) {                   black_links_[0];
        currentRouter = &routers_[myCoords.group * (C * B) + targetCoords.group]; }
      blue_link_;   currentRouter = &routers_[targetCoords.group * (C * B) + myCoords.group]; }
    if (targetRouter->blade_ != currentRouter->blade_) {    green_links_[targetCoords.blade];
      currentRouter = &routers_[targetCoords.group * (C * B) + targetCoords.blade]; }
    if (targetRouter->chassis_ != currentRouter->chassis_)  black_links_[targetCoords.chassis];
```
`currentRouter->blade_` etc. are read from the router record, i.e. `rcoord` of the index. -/
def Dragonfly.steps (d : Dragonfly) (my tg : RCoord) : List DStep :=
  let CB := d.C * d.B
  let myR := d.ridx my
  let tgR := d.ridx tg
  if tgR = myR then [] else
  let cur := myR
  let (s1, cur) :=
    if (d.rcoord tgR).g ≠ (d.rcoord cur).g then
      let (a, cur) := if (d.rcoord cur).b ≠ tg.g then
          let nx := my.g * CB + my.c * d.B + tg.g
          ([(⟨cur, .green tg.g, true, nx⟩ : DStep)], nx)
        else ([], cur)
      let (b, cur) := if (d.rcoord cur).c ≠ 0 then
          let nx := my.g * CB + tg.g
          ([(⟨cur, .black 0, true, nx⟩ : DStep)], nx)
        else ([], cur)
      let nx := tg.g * CB + my.g
      (a ++ b ++ [(⟨cur, .blue, false, nx⟩ : DStep)], nx)
    else ([], cur)
  let (s2, cur) :=
    if (d.rcoord tgR).b ≠ (d.rcoord cur).b then
      let nx := if dfGreenKeepsChassis then tg.g * CB + (d.rcoord cur).c * d.B + tg.b else tg.g * CB + tg.b
      ([(⟨cur, .green tg.b, true, nx⟩ : DStep)], nx)
    else ([], cur)
  let s3 :=
    if (d.rcoord tgR).c ≠ (d.rcoord cur).c then [(⟨cur, .black tg.c, true, cur⟩ : DStep)] else []
  s1 ++ s2 ++ s3

def optList {α : Type} : List (Option α) → Option (List α)
  | [] => some []
  | none :: _ => none
  | some a :: r => (optList r).map (a :: ·)

/-- leaves of the dragonfly: `fill_leaf_from_cb(i)` for every i (num_links_per_node_ starts at its default 1) -/
def Dragonfly.leafEntries (d : Dragonfly) : ClState × Entries DLink :=
  (List.range d.tot).foldl (fun (acc : ClState × Entries DLink) i =>
      let (s', e) := fillLeaf d.lb d.lim DLink.loopback DLink.limiter acc.1 i
      (s', acc.2 ++ e)) ({ numLinks := 1, hasLb := false, hasLim := false }, [])

/-- `DragonflyZone::get_local_route` for two leaves; `none` = out-of-bounds / nullptr / `.at` failure (crash or UB) -/
def Dragonfly.route (d : Dragonfly) (src dst : Nat) : Option (List DLink) :=
  let (st, es) := d.leafEntries
  let (_, as) := d.genLinks
  if src = dst ∧ st.hasLb then (es.uplinkFrom (st.nodePos src)).map ([·])
  else
    let (my, mn) := d.coords src
    let (tg, tn) := d.coords dst
    let myR := d.ridx my
    let tgR := d.ridx tg
    let lim (r : Nat) : List (Option DLink) := match d.routerLimiter r with
      | some l => [some l]
      | none => []
    let pre := (if st.hasLim then [es.uplinkFrom (st.nodePosLb src)] else []) ++ [d.linkAt as myR (.node (mn * d.lpl))]
    let mid := (d.steps my tg).flatMap (fun s =>
      if s.limBefore then lim s.owner ++ [d.linkAt as s.owner s.slot] else [d.linkAt as s.owner s.slot] ++ lim s.owner)
    let post := lim tgR ++ [d.linkAt as tgR (.node (tn * d.lpl + d.lpl - 1))]
      ++ (if st.hasLim then [es.downlinkTo (st.nodePosLb dst)] else [])
    optList (pre ++ mid ++ post)

def DLink.name (d : Dragonfly) : DLink → String
  | .loopback id => lbName [d.G, d.C, d.B, d.N] id
  | .limiter id => limName [d.G, d.C, d.B, d.N] id
  | .rlimiter id r => s!"lim{id}@{r.g}.{r.c}.{r.b}.R"
  | .localL r n u up => s!"local_link_from_router_{r}_to_node_{n}_{u}" ++ sfx up
  | .green c j k u up => s!"green_link_in_chassis_{c}_between_routers_{j}_and_{k}_{u}" ++ sfx up
  | .black g j k l u up => s!"black_link_in_group_{g}_between_chassis_{j}_and_{k}_blade_{l}_{u}" ++ sfx up
  | .blue i j ri rj u up => s!"blue_link_between_group_{i}_and_{j}_routers_{ri}_and_{rj}_{u}" ++ sfx up
where sfx (up : Bool) : String := if d.split then (if up then "_UP" else "_DOWN") else ""

end SgVerif.C26
