import SgVerif.C26.FatTreeLemmas
/-!
C26 — fat tree: the modelled CONSTRUCTION (`FatTree.build`: `generate_switches`, `generate_labels`,
`build_upper_levels` / `connect_node_to_parents` / `are_related` / `add_internal_link`) yields tables that are well
formed in the sense of `FTables.WF`, for ALL well-formed parameters (`build_wf`).

Plan:
* generic lemmas on `foldl` (invariant; reachability of a step), on `flatMap` over `range` (indexing by block);
* mixed-radix counting: `incLabel`/`levelLabels` enumerate `digitsOf radices 0, 1, 2, ...`;
* `NodesOk`: the node table read by position (level `l` occupies `levelStart l ..`, label of the `j`-th = digits of `j`);
* the three nested folds of `build` only cons genuine tree edges (`Inv`) and cons one for every related pair (`reach`);
* `find?` returns the first entry with the key: it exists (reach) and is genuine (invariant).
-/
namespace SgVerif.C26
namespace FTBuild

/-! ### generic: folds -/

theorem foldl_inv {σ α : Type} (step : σ → α → σ) (P : σ → Prop) (xs : List α)
    (h : ∀ st x, x ∈ xs → P st → P (step st x)) : ∀ st, P st → P (xs.foldl step st) := by
  induction xs with
  | nil => intro st h0; exact h0
  | cons x xs ih =>
    intro st h0
    rw [List.foldl_cons]
    exact ih (fun st y hy hp => h st y (List.mem_cons_of_mem _ hy) hp) _
      (h st x (List.mem_cons.mpr (Or.inl rfl)) h0)

theorem foldl_reach {σ α : Type} (step : σ → α → σ) (Q : σ → Prop) (xs : List α) (x : α) (hx : x ∈ xs)
    (hQ : ∀ st, Q (step st x)) (hpres : ∀ st y, Q st → Q (step st y)) : ∀ st, Q (xs.foldl step st) := by
  induction xs with
  | nil => cases hx
  | cons y ys ih =>
    intro st
    rw [List.foldl_cons]
    rcases List.mem_cons.mp hx with e | e
    · rw [← e]
      exact foldl_inv step Q ys (fun st z _ h => hpres st z h) _ (hQ st)
    · exact ih e _

/-! ### generic: arithmetic -/

theorem divmod_of_eq {a m q r : Nat} (h : a = r + m * q) (hr : r < m) : a / m = q ∧ a % m = r := by
  subst h
  constructor
  · rw [Nat.add_mul_div_left _ _ (by omega : 0 < m), Nat.div_eq_of_lt hr, Nat.zero_add]
  · rw [Nat.add_mul_mod_self_left, Nat.mod_eq_of_lt hr]

/-- product of the radices -/
def prodL : List Nat → Nat
  | [] => 1
  | m :: ms => m * prodL ms

theorem prod'_eq : ∀ l : List Nat, FatTree.nLeaves.prod' l = prodL l
  | [] => rfl
  | m :: ms => by simp only [FatTree.nLeaves.prod', prodL, prod'_eq ms]

theorem foldl_mul (xs : List Nat) : ∀ a, xs.foldl (· * ·) a = a * prodL xs := by
  induction xs with
  | nil => intro a; simp [prodL]
  | cons x xs ih => intro a; rw [List.foldl_cons, ih, prodL, Nat.mul_assoc]

/-! ### mixed-radix digits (digit 0 fastest) and the label counter -/

def digitsOf : List Nat → Nat → List Nat
  | [], _ => []
  | m :: ms, k => k % m :: digitsOf ms (k / m)

theorem digitsOf_length : ∀ (M : List Nat) (k : Nat), (digitsOf M k).length = M.length
  | [], _ => rfl
  | m :: ms, k => by simp only [digitsOf, List.length_cons, digitsOf_length ms]

theorem digitsOf_zero : ∀ (M : List Nat), digitsOf M 0 = List.replicate M.length 0
  | [] => rfl
  | m :: ms => by
    simp only [digitsOf, Nat.zero_mod, Nat.zero_div, digitsOf_zero ms, List.length_cons, List.replicate_succ]

theorem incLabel_digitsOf : ∀ (M : List Nat), (∀ m ∈ M, 0 < m) → ∀ k, incLabel (digitsOf M k) M = digitsOf M (k + 1)
  | [], _, _ => rfl
  | m :: ms, hpos, k => by
    have hm : 0 < m := hpos m (List.mem_cons.mpr (Or.inl rfl))
    have hms : ∀ x ∈ ms, 0 < x := fun x hx => hpos x (List.mem_cons_of_mem _ hx)
    have hdm := Nat.div_add_mod k m
    have hlt := Nat.mod_lt k hm
    simp only [digitsOf, incLabel]
    by_cases hc : k % m + 1 ≥ m
    · rw [if_pos hc, incLabel_digitsOf ms hms]
      have h1 : k + 1 = 0 + m * (k / m + 1) := by rw [Nat.mul_add, Nat.mul_one]; omega
      obtain ⟨h2, h3⟩ := divmod_of_eq h1 hm
      rw [h2, h3]
    · rw [if_neg hc]
      have h1 : k + 1 = (k % m + 1) + m * (k / m) := by omega
      obtain ⟨h2, h3⟩ := divmod_of_eq h1 (by omega)
      rw [h2, h3]

theorem levelLabels_length (M : List Nat) : ∀ (n : Nat) (cur : List Nat), (levelLabels M n cur).length = n
  | 0, _ => rfl
  | n + 1, cur => by simp only [levelLabels, List.length_cons, levelLabels_length M n]

theorem levelLabels_get (M : List Nat) (hpos : ∀ m ∈ M, 0 < m) : ∀ (n k j : Nat), j < n →
    (levelLabels M n (digitsOf M k))[j]? = some (digitsOf M (k + j))
  | 0, _, _, h => by omega
  | n + 1, k, 0, _ => by simp only [levelLabels, List.getElem?_cons_zero, Nat.add_zero]
  | n + 1, k, j + 1, h => by
    simp only [levelLabels, List.getElem?_cons_succ]
    rw [incLabel_digitsOf M hpos, levelLabels_get M hpos n (k + 1) j (by omega)]
    congr 2; omega

theorem digitsOf_lt : ∀ (M : List Nat), (∀ m ∈ M, 0 < m) → ∀ k i, i < M.length → (digitsOf M k).getD i 0 < M.getD i 0
  | [], _, _, _, h => by simp at h
  | m :: ms, hpos, k, 0, _ => by
    simp only [digitsOf, List.getD_cons_zero]
    exact Nat.mod_lt _ (hpos m (List.mem_cons.mpr (Or.inl rfl)))
  | m :: ms, hpos, k, i + 1, h => by
    simp only [digitsOf, List.getD_cons_succ]
    exact digitsOf_lt ms (fun x hx => hpos x (List.mem_cons_of_mem _ hx)) _ i (by simpa using h)

theorem digitsOf_inj : ∀ (M : List Nat), (∀ m ∈ M, 0 < m) → ∀ k k', k < prodL M → k' < prodL M →
    (∀ i, i < M.length → (digitsOf M k).getD i 0 = (digitsOf M k').getD i 0) → k = k'
  | [], _, k, k', h1, h2, _ => by simp only [prodL] at h1 h2; omega
  | m :: ms, hpos, k, k', h1, h2, h => by
    have hm : 0 < m := hpos m (List.mem_cons.mpr (Or.inl rfl))
    have h0 := h 0 (by simp)
    simp only [digitsOf, List.getD_cons_zero] at h0
    simp only [prodL] at h1 h2
    have hq : k / m = k' / m := by
      apply digitsOf_inj ms (fun x hx => hpos x (List.mem_cons_of_mem _ hx))
      · exact Nat.div_lt_of_lt_mul h1
      · exact Nat.div_lt_of_lt_mul h2
      · intro i hi
        have := h (i + 1) (by simpa using hi)
        simpa only [digitsOf, List.getD_cons_succ] using this
    have e1 := Nat.div_add_mod k m
    have e2 := Nat.div_add_mod k' m
    rw [hq] at e1
    omega

theorem digitsOf_surj : ∀ (M : List Nat) (d : Nat → Nat), (∀ i, i < M.length → d i < M.getD i 0) →
    ∃ k, k < prodL M ∧ ∀ i, i < M.length → (digitsOf M k).getD i 0 = d i
  | [], _, _ => ⟨0, by simp [prodL], fun i h => by simp at h⟩
  | m :: ms, d, h => by
    have h0 : d 0 < m := by simpa using h 0 (by simp)
    obtain ⟨k', hk', hd'⟩ := digitsOf_surj ms (fun i => d (i + 1)) (fun i hi => by
      have := h (i + 1) (by simpa using hi)
      simpa only [List.getD_cons_succ] using this)
    obtain ⟨h2, h3⟩ := divmod_of_eq (rfl : d 0 + m * k' = d 0 + m * k') h0
    refine ⟨d 0 + m * k', ?_, ?_⟩
    · simp only [prodL]
      have : m * (k' + 1) ≤ m * prodL ms := Nat.mul_le_mul_left m hk'
      rw [Nat.mul_add, Nat.mul_one] at this
      omega
    · intro i hi
      cases i with
      | zero => simp only [digitsOf, List.getD_cons_zero, h3]
      | succ i =>
        simp only [digitsOf, List.getD_cons_succ, h2]
        exact hd' i (by simpa using hi)

/-! ### generic: `flatMap` over `range`, read by block -/

def sumTo (len : Nat → Nat) : Nat → Nat
  | 0 => 0
  | n + 1 => sumTo len n + len n

theorem sumTo_le (len : Nat → Nat) : ∀ n l, l < n → sumTo len l + len l ≤ sumTo len n := by
  intro n
  induction n with
  | zero => intro l h; omega
  | succ n ih =>
    intro l h
    simp only [sumTo]
    by_cases e : l = n
    · subst e; omega
    · have := ih l (by omega); omega

theorem sumTo_mono (len : Nat → Nat) (l n : Nat) (h : l ≤ n) : sumTo len l ≤ sumTo len n := by
  by_cases e : l = n
  · subst e; omega
  · have := sumTo_le len n l (by omega); omega

theorem sumTo_decomp (len : Nat → Nat) : ∀ n c, c < sumTo len n → ∃ l j, l < n ∧ j < len l ∧ c = sumTo len l + j := by
  intro n
  induction n with
  | zero => intro c h; simp only [sumTo] at h; omega
  | succ n ih =>
    intro c h
    simp only [sumTo] at h
    by_cases hc : c < sumTo len n
    · obtain ⟨l, j, h1, h2, h3⟩ := ih c hc
      exact ⟨l, j, by omega, h2, h3⟩
    · exact ⟨n, c - sumTo len n, by omega, by omega, by omega⟩

theorem flatMap_range_length {α : Type} (F : Nat → List α) (len : Nat → Nat) (hlen : ∀ i, (F i).length = len i) :
    ∀ n, ((List.range n).flatMap F).length = sumTo len n := by
  intro n
  induction n with
  | zero => rfl
  | succ n ih =>
    rw [List.range_succ, List.flatMap_append, List.length_append, ih]
    simp only [List.flatMap_cons, List.flatMap_nil, List.append_nil, hlen, sumTo]

theorem flatMap_range_get {α : Type} (F : Nat → List α) (len : Nat → Nat) (hlen : ∀ i, (F i).length = len i) :
    ∀ n l j, l < n → j < len l → ((List.range n).flatMap F)[sumTo len l + j]? = (F l)[j]? := by
  intro n
  induction n with
  | zero => intro l j h; omega
  | succ n ih =>
    intro l j hl hj
    rw [List.range_succ, List.flatMap_append]
    have hL := flatMap_range_length F len hlen n
    by_cases e : l = n
    · subst e
      rw [List.getElem?_append_right (by omega), hL]
      simp only [List.flatMap_cons, List.flatMap_nil, List.append_nil]
      congr 1; omega
    · have := sumTo_le len n l (by omega)
      rw [List.getElem?_append_left (by omega)]
      exact ih l j (by omega) hj

theorem zipmap_get {α β γ : Type} (g : α × β → γ) : ∀ (as : List α) (bs : List β) (c : Nat),
    ((as.zip bs).map g)[c]? = match as[c]?, bs[c]? with
      | some a, some b => some (g (a, b))
      | _, _ => none
  | [], _, _ => by simp
  | _ :: _, [], _ => by
    simp only [List.zip_nil_right, List.map_nil, List.getElem?_nil]
    split
    · rename_i h1 h2; cases h2
    · rfl
  | a :: as, b :: bs, 0 => by simp
  | a :: as, b :: bs, c + 1 => by
    simp only [List.zip_cons_cons, List.map_cons, List.getElem?_cons_succ]
    exact zipmap_get g as bs c

theorem map_eq_replicate {α β : Type} (g : α → β) (c : β) (hg : ∀ x, g x = c) :
    ∀ xs : List α, xs.map g = List.replicate xs.length c
  | [] => rfl
  | x :: xs => by simp only [List.map_cons, List.length_cons, List.replicate_succ, hg, map_eq_replicate g c hg xs]

theorem map_zip_snd' {α β γ δ : Type} (g : α × β → δ) (k : δ → γ) (h : β → γ) (hk : ∀ a b, k (g (a, b)) = h b) :
    ∀ (as : List α) (bs : List β), bs.length ≤ as.length → ((as.zip bs).map g).map k = bs.map h
  | _, [], _ => by simp
  | [], b :: bs, hl => by simp at hl
  | a :: as, b :: bs, hl => by
    simp only [List.zip_cons_cons, List.map_cons, hk]
    rw [map_zip_snd' g k h hk as bs (by simpa using hl)]

theorem map_getD_range (xs : List Nat) : (List.range xs.length).map (fun j => xs.getD j 0) = xs := by
  apply List.ext_getElem
  · simp
  · intro i h1 h2
    simp [List.getD_eq_getElem?_getD, h2]

/-! ### the node table (`add_processing_node`, `generate_switches`, `generate_labels`) -/

/-- `nodes_by_level_[i]` -/
def bl (f : FatTree) (i : Nat) : Nat := f.nodesByLevel.getD i 0

/-- index in `nodes_` of the first node of level `l` (the `levelStart` of `FatTree.build`) -/
def levelStart (f : FatTree) (l : Nat) : Nat :=
  ((List.range l).map (fun i => f.nodesByLevel.getD i 0)).foldl (· + ·) 0

theorem levelStart_eq (f : FatTree) : ∀ l, levelStart f l = sumTo (bl f) l := by
  intro l
  induction l with
  | zero => rfl
  | succ l ih =>
    have : levelStart f (l + 1) = levelStart f l + bl f l := by
      simp only [levelStart, bl, List.range_succ, List.map_append, List.foldl_append, List.map_cons, List.map_nil,
        List.foldl_cons, List.foldl_nil]
    rw [this, ih, sumTo]

def allOf (f : FatTree) : List (Int × Nat × Nat) :=
  let n := f.nLeaves
  let leaves := (List.range n).map (fun (i : Nat) => (Int.ofNat i, 0, f.posOff + i))
  let sw := ((List.range f.levels).flatMap (fun i => (List.range (f.nodesByLevel.getD (i + 1) 0)).map (fun j => (i + 1, j))))
  let sw := (List.range sw.length).zip sw |>.map (fun (o, (lvl, j)) => (Int.ofNat (2 * n) - 1 - Int.ofNat o, lvl, j))
  leaves ++ sw

def labBlock (f : FatTree) (i : Nat) : List (List Nat) :=
  levelLabels (f.maxLabel i) (f.nodesByLevel.getD i 0) (List.replicate f.levels 0)

def labelsOf (f : FatTree) : List (List Nat) := (List.range (f.levels + 1)).flatMap (labBlock f)

def mkNode (x : (Int × Nat × Nat) × List Nat) : FNode := ⟨x.1.1, x.1.2.1, x.1.2.2, x.2⟩

theorem mkNodes_eq (f : FatTree) : f.mkNodes = ((allOf f).zip (labelsOf f)).map mkNode := rfl

theorem sw_levels (f : FatTree) :
    ((List.range f.levels).flatMap (fun i => (List.range (f.nodesByLevel.getD (i + 1) 0)).map (fun j => (i + 1, j)))).map (·.1)
      = (List.range f.levels).flatMap (fun i => List.replicate (bl f (i + 1)) (i + 1)) := by
  rw [List.map_flatMap]
  congr 1
  funext i
  rw [List.map_map]
  have := map_eq_replicate ((fun x : Nat × Nat => x.fst) ∘ fun j => (i + 1, j)) (i + 1) (fun _ => rfl)
    (List.range (f.nodesByLevel.getD (i + 1) 0))
  rw [this, List.length_range]
  rfl

theorem allOf_levels (f : FatTree) :
    (allOf f).map (fun x => x.2.1) = (List.range (f.levels + 1)).flatMap (fun l => List.replicate (bl f l) l) := by
  unfold allOf
  simp only [List.map_append]
  rw [map_zip_snd' (k := fun x : Int × Nat × Nat => x.2.1) (h := fun b : Nat × Nat => b.1), sw_levels, List.map_map]
  · have := map_eq_replicate ((fun x : Int × Nat × Nat => x.2.1) ∘ fun (i : Nat) => (Int.ofNat i, 0, f.posOff + i)) 0
      (fun _ => rfl) (List.range f.nLeaves)
    rw [this, List.length_range, List.range_succ_eq_map, List.flatMap_cons, List.flatMap_map]
    rfl
  · intro a b; rfl
  · simp

theorem maxLabel_length (f : FatTree) (l : Nat) : (f.maxLabel l).length = f.levels := by
  simp [FatTree.maxLabel]

theorem maxLabel_getD (f : FatTree) (l i : Nat) (hi : i < f.levels) :
    (f.maxLabel l).getD i 0 = if i + 1 > l then f.down.getD i 0 else f.up.getD i 0 := by
  rw [FatTree.maxLabel, List.getD_eq_getElem?_getD, List.getElem?_map, List.getElem?_range hi]
  rfl

theorem maxLabel_pos (f : FatTree) (hf : f.WF) (l : Nat) : ∀ m ∈ f.maxLabel l, 0 < m := by
  unfold FatTree.maxLabel
  simp only [List.mem_map, List.mem_range]
  rintro m ⟨j, hj, rfl⟩
  split
  · exact (hf.2 j hj).1
  · exact (hf.2 j hj).2.1

/-- `nodes_by_level_[l]` is the product of the radices of level `l` (level 0: `down` has exactly `levels` entries) -/
theorem bl_eq (f : FatTree) (hdown : f.down.length = f.levels) : ∀ l, l ≤ f.levels → bl f l = prodL (f.maxLabel l) := by
  intro l hl
  cases l with
  | zero =>
    have h0 : f.maxLabel 0 = f.down := by
      unfold FatTree.maxLabel
      simp only [gt_iff_lt, Nat.zero_lt_succ, if_true]
      rw [← hdown]; exact map_getD_range f.down
    rw [h0, ← prod'_eq]; rfl
  | succ i =>
    have hi : i < f.levels := by omega
    unfold bl FatTree.nodesByLevel
    rw [List.getD_cons_succ, List.getD_eq_getElem?_getD, List.getElem?_map, List.getElem?_range hi]
    simp only [Option.map_some, Option.getD_some]
    rw [foldl_mul, Nat.one_mul]
    congr 1
    unfold FatTree.maxLabel
    apply List.map_congr_left
    intro j _
    split <;> split <;> first | rfl | omega

/-- the node table read by position -/
structure NodesOk (f : FatTree) (nodes : List FNode) : Prop where
  get : ∀ l, l ≤ f.levels → ∀ j, j < bl f l →
    ∃ n, nodes[levelStart f l + j]? = some n ∧ n.level = l ∧ n.label = digitsOf (f.maxLabel l) j
  inv : ∀ c n, nodes[c]? = some n → n.level ≤ f.levels ∧
    ∃ j, j < bl f n.level ∧ c = levelStart f n.level + j ∧ n.label = digitsOf (f.maxLabel n.level) j

theorem all_labels_get (f : FatTree) (hf : f.WF) (l : Nat) (hl : l ≤ f.levels) (j : Nat) (hj : j < bl f l) :
    (∃ a, (allOf f)[sumTo (bl f) l + j]? = some a ∧ a.2.1 = l) ∧
    (labelsOf f)[sumTo (bl f) l + j]? = some (digitsOf (f.maxLabel l) j) := by
  constructor
  · have h1 : ((allOf f).map (fun x => x.2.1))[sumTo (bl f) l + j]? = some l := by
      rw [allOf_levels, flatMap_range_get (fun l => List.replicate (bl f l) l) (bl f) (fun i => by simp)
        (f.levels + 1) l j (by omega) hj, List.getElem?_replicate, if_pos hj]
    rw [List.getElem?_map] at h1
    cases h : (allOf f)[sumTo (bl f) l + j]? with
    | none => rw [h] at h1; cases h1
    | some a =>
      rw [h] at h1
      simp only [Option.map_some, Option.some.injEq] at h1
      exact ⟨a, rfl, h1⟩
  · unfold labelsOf
    rw [flatMap_range_get (labBlock f) (bl f) (fun i => levelLabels_length _ _ _) (f.levels + 1) l j (by omega) hj]
    unfold labBlock
    have := levelLabels_get (f.maxLabel l) (maxLabel_pos f hf l) (bl f l) 0 j hj
    rw [digitsOf_zero, maxLabel_length, Nat.zero_add] at this
    exact this

theorem mkNodes_ok (f : FatTree) (hf : f.WF) : NodesOk f f.mkNodes := by
  constructor
  · intro l hl j hj
    obtain ⟨⟨a, ha, hal⟩, hb⟩ := all_labels_get f hf l hl j hj
    rw [mkNodes_eq, zipmap_get, levelStart_eq, ha, hb]
    exact ⟨_, rfl, hal, rfl⟩
  · intro c n h
    rw [mkNodes_eq, zipmap_get] at h
    split at h
    · rename_i a b ha hb
      have hc : c < (labelsOf f).length := getElem?_lt_length hb
      unfold labelsOf at hc
      rw [flatMap_range_length (labBlock f) (bl f) (fun i => levelLabels_length _ _ _)] at hc
      obtain ⟨l, j, hl, hj, hcj⟩ := sumTo_decomp (bl f) _ c hc
      obtain ⟨⟨a', ha', hal⟩, hb'⟩ := all_labels_get f hf l (by omega) j hj
      rw [← hcj] at ha' hb'
      rw [ha] at ha'; rw [hb] at hb'
      cases ha'; cases hb'
      cases h
      have hlev : (mkNode (a, digitsOf (f.maxLabel l) j)).level = l := hal
      rw [hlev]
      exact ⟨by omega, j, hj, by rw [levelStart_eq]; exact hcj, rfl⟩
    · cases h

/-! ### the folds of `build_upper_levels` / `connect_node_to_parents` / `add_internal_link` -/

abbrev Entry := Nat × Nat × FLink
abbrev St := Nat × List Entry × List Entry

/-- one `add_internal_link` (innermost loop, over the `num_port_lower_level_[level]` cables of one parent/child pair) -/
def stepJ (f : FatTree) (ci pi : Nat) (child parent : FNode) (st : St) (j : Nat) : St :=
  (st.1 + 1,
   (pi, child.label.getD child.level 0 + j * f.down.getD child.level 0, (⟨ci, pi, st.1⟩ : FLink)) :: st.2.1,
   (ci, parent.label.getD child.level 0 + j * f.up.getD child.level 0, (⟨ci, pi, st.1⟩ : FLink)) :: st.2.2)

/-- one candidate parent of `connect_node_to_parents` -/
def stepP (f : FatTree) (nodes : List FNode) (ci : Nat) (child : FNode) (st : St) (pi : Nat) : St :=
  match nodes[pi]? with
  | none => st
  | some parent =>
    if areRelated f.levels parent child then
      (List.range (f.count.getD child.level 0)).foldl (stepJ f ci pi child parent) st
    else st

/-- one `connect_node_to_parents(node)` -/
def stepC (f : FatTree) (nodes : List FNode) (st : St) (ci : Nat) : St :=
  match nodes[ci]? with
  | none => st
  | some child =>
    ((List.range (f.nodesByLevel.getD (child.level + 1) 0)).map (fun i => levelStart f (child.level + 1) + i)).foldl
      (stepP f nodes ci child) st

def buildSt (f : FatTree) (nodes : List FNode) : St :=
  (List.range (levelStart f f.levels)).foldl (stepC f nodes) (f.uidOff, [], [])

theorem build_eq (f : FatTree) :
    f.build = ⟨f.mkNodes, (buildSt f f.mkNodes).2.1, (buildSt f f.mkNodes).2.2⟩ := rfl

/-- a stored `children[port]` entry is a genuine tree edge -/
def GoodC (f : FatTree) (nodes : List FNode) (e : Entry) : Prop :=
  ∃ child parent j, nodes[e.2.2.child]? = some child ∧ nodes[e.2.2.parent]? = some parent ∧
    areRelated f.levels parent child = true ∧ e.1 = e.2.2.parent ∧
    e.2.1 = child.label.getD child.level 0 + j * f.down.getD child.level 0

/-- a stored `parents[port]` entry is a genuine tree edge -/
def GoodP (f : FatTree) (nodes : List FNode) (e : Entry) : Prop :=
  ∃ child parent j, nodes[e.2.2.child]? = some child ∧ nodes[e.2.2.parent]? = some parent ∧
    areRelated f.levels parent child = true ∧ e.1 = e.2.2.child ∧
    e.2.1 = parent.label.getD child.level 0 + j * f.up.getD child.level 0

def Inv (f : FatTree) (nodes : List FNode) (st : St) : Prop :=
  (∀ e ∈ st.2.1, GoodC f nodes e) ∧ (∀ e ∈ st.2.2, GoodP f nodes e)

theorem stepJ_inv (f : FatTree) (nodes : List FNode) {ci pi : Nat} {child parent : FNode}
    (hc : nodes[ci]? = some child) (hp : nodes[pi]? = some parent) (hr : areRelated f.levels parent child = true)
    (st : St) (j : Nat) (h : Inv f nodes st) : Inv f nodes (stepJ f ci pi child parent st j) := by
  constructor
  · intro e he
    simp only [stepJ, List.mem_cons] at he
    rcases he with rfl | he
    · exact ⟨child, parent, j, hc, hp, hr, rfl, rfl⟩
    · exact h.1 e he
  · intro e he
    simp only [stepJ, List.mem_cons] at he
    rcases he with rfl | he
    · exact ⟨child, parent, j, hc, hp, hr, rfl, rfl⟩
    · exact h.2 e he

theorem stepP_inv (f : FatTree) (nodes : List FNode) {ci : Nat} {child : FNode} (hc : nodes[ci]? = some child)
    (st : St) (pi : Nat) (h : Inv f nodes st) : Inv f nodes (stepP f nodes ci child st pi) := by
  unfold stepP
  split
  · exact h
  · rename_i parent hp
    split
    · rename_i hr
      exact foldl_inv _ (Inv f nodes) _ (fun st j _ hst => stepJ_inv f nodes hc hp hr st j hst) st h
    · exact h

theorem stepC_inv (f : FatTree) (nodes : List FNode) (st : St) (ci : Nat) (h : Inv f nodes st) :
    Inv f nodes (stepC f nodes st ci) := by
  unfold stepC
  split
  · exact h
  · rename_i child hc
    exact foldl_inv _ (Inv f nodes) _ (fun st pi _ hst => stepP_inv f nodes hc st pi hst) st h

/-- **every stored port entry is a genuine tree edge** (any parameters, any node table) -/
theorem buildSt_inv (f : FatTree) (nodes : List FNode) : Inv f nodes (buildSt f nodes) := by
  unfold buildSt
  refine foldl_inv _ (Inv f nodes) _ (fun st ci _ hst => stepC_inv f nodes st ci hst) _ ⟨?_, ?_⟩
  · intro e he; simp at he
  · intro e he; simp at he

/-- the folds only cons -/
def Mono (st st' : St) : Prop := (∀ e ∈ st.2.1, e ∈ st'.2.1) ∧ (∀ e ∈ st.2.2, e ∈ st'.2.2)

theorem Mono.refl (st : St) : Mono st st := ⟨fun _ h => h, fun _ h => h⟩
theorem Mono.trans {a b c : St} (h1 : Mono a b) (h2 : Mono b c) : Mono a c :=
  ⟨fun e h => h2.1 e (h1.1 e h), fun e h => h2.2 e (h1.2 e h)⟩

theorem foldl_mono {α : Type} (step : St → α → St) (hs : ∀ st x, Mono st (step st x)) (xs : List α) (st : St) :
    Mono st (xs.foldl step st) :=
  foldl_inv step (Mono st) xs (fun st' x _ h => Mono.trans h (hs st' x)) st (Mono.refl st)

theorem stepJ_mono (f : FatTree) (ci pi : Nat) (child parent : FNode) (st : St) (j : Nat) :
    Mono st (stepJ f ci pi child parent st j) :=
  ⟨fun _ he => List.mem_cons_of_mem _ he, fun _ he => List.mem_cons_of_mem _ he⟩

theorem stepP_mono (f : FatTree) (nodes : List FNode) (ci : Nat) (child : FNode) (st : St) (pi : Nat) :
    Mono st (stepP f nodes ci child st pi) := by
  unfold stepP
  split
  · exact Mono.refl st
  · split
    · exact foldl_mono _ (stepJ_mono f ci pi child _) _ st
    · exact Mono.refl st

theorem stepC_mono (f : FatTree) (nodes : List FNode) (st : St) (ci : Nat) : Mono st (stepC f nodes st ci) := by
  unfold stepC
  split
  · exact Mono.refl st
  · exact foldl_mono _ (stepP_mono f nodes ci _) _ st

/-- the tables hold a cable `ci -> pi` at `children[pc]` of `pi` and at `parents[pp]` of `ci` -/
def Has (ci pi pc pp : Nat) (st : St) : Prop :=
  (∃ uid, (pi, pc, (⟨ci, pi, uid⟩ : FLink)) ∈ st.2.1) ∧ (∃ uid, (ci, pp, (⟨ci, pi, uid⟩ : FLink)) ∈ st.2.2)

theorem Has.mono {ci pi pc pp : Nat} {st st' : St} (h : Has ci pi pc pp st) (hm : Mono st st') : Has ci pi pc pp st' :=
  ⟨h.1.elim fun u hu => ⟨u, hm.1 _ hu⟩, h.2.elim fun u hu => ⟨u, hm.2 _ hu⟩⟩

/-- **every related pair gets its cables**: for a node `ci` below the top level, a related node among those scanned
(`levelStart (level+1) + i`, `i < nodes_by_level[level+1]`) and `j < num_port_lower_level[level]` -/
theorem buildSt_reach (f : FatTree) (nodes : List FNode) (ci : Nat) (child : FNode)
    (hci : ci < levelStart f f.levels) (hc : nodes[ci]? = some child) (i : Nat) (hi : i < bl f (child.level + 1))
    (parent : FNode) (hp : nodes[levelStart f (child.level + 1) + i]? = some parent)
    (hr : areRelated f.levels parent child = true) (j : Nat) (hj : j < f.count.getD child.level 0) :
    Has ci (levelStart f (child.level + 1) + i) (child.label.getD child.level 0 + j * f.down.getD child.level 0)
      (parent.label.getD child.level 0 + j * f.up.getD child.level 0) (buildSt f nodes) := by
  unfold buildSt
  refine foldl_reach (stepC f nodes) (Has ci _ _ _) _ ci (List.mem_range.mpr hci) ?_ ?_ _
  · intro st
    simp only [stepC, hc]
    refine foldl_reach (stepP f nodes ci child) (Has ci _ _ _) _ (levelStart f (child.level + 1) + i)
      (List.mem_map.mpr ⟨i, List.mem_range.mpr hi, rfl⟩) ?_ ?_ _
    · intro st
      simp only [stepP, hp, hr, if_true]
      refine foldl_reach (stepJ f ci _ child parent) (Has ci _ _ _) _ j (List.mem_range.mpr hj) ?_ ?_ _
      · intro st
        exact ⟨⟨st.1, List.mem_cons.mpr (Or.inl rfl)⟩, ⟨st.1, List.mem_cons.mpr (Or.inl rfl)⟩⟩
      · intro st y h
        exact h.mono (stepJ_mono f ci _ child parent st y)
    · intro st y h
      exact h.mono (stepP_mono f nodes ci child st y)
  · intro st y h
    exact h.mono (stepC_mono f nodes st y)

/-! ### `find?`, `are_related`, existence of the neighbour with a given digit -/

theorem find_key (es : List Entry) (a b : Nat) (hex : ∃ e, e ∈ es ∧ e.1 = a ∧ e.2.1 = b) :
    ∃ e, e ∈ es ∧ e.1 = a ∧ e.2.1 = b ∧ (es.find? (fun e => e.1 == a && e.2.1 == b)).map (·.2.2) = some e.2.2 := by
  cases h : es.find? (fun e => e.1 == a && e.2.1 == b) with
  | none =>
    obtain ⟨e, he, h1, h2⟩ := hex
    have := List.find?_eq_none.mp h e he
    simp [h1, h2] at this
  | some e =>
    have hp := List.find?_some h
    simp only [Bool.and_eq_true, beq_iff_eq] at hp
    exact ⟨e, List.mem_of_find?_eq_some h, hp.1, hp.2, rfl⟩

theorem areRelated_spec {L : Nat} {p c : FNode} (h : areRelated L p c = true) :
    p.level = c.level + 1 ∧ ∀ i, i < L → i ≠ c.level → p.label.getD i 0 = c.label.getD i 0 := by
  unfold areRelated at h
  simp only [Bool.and_eq_true, beq_iff_eq, List.all_eq_true, List.mem_range, Bool.or_eq_true] at h
  refine ⟨h.1, fun i hi hne => ?_⟩
  rcases h.2 i hi with e | e
  · exact e
  · omega

theorem areRelated_intro {L : Nat} {p c : FNode} (h1 : p.level = c.level + 1)
    (h2 : ∀ i, i < L → i ≠ c.level → p.label.getD i 0 = c.label.getD i 0) : areRelated L p c = true := by
  unfold areRelated
  simp only [Bool.and_eq_true, beq_iff_eq, List.all_eq_true, List.mem_range, Bool.or_eq_true]
  refine ⟨h1, fun i hi => ?_⟩
  by_cases e : i = c.level
  · right; omega
  · left; exact h2 i hi e

/-- every digit of a node's label is below the radix of its level -/
theorem node_digit_lt (f : FatTree) (hf : f.WF) (nodes : List FNode) (hN : NodesOk f nodes) (c : Nat) (n : FNode)
    (hc : nodes[c]? = some n) (i : Nat) (hi : i < f.levels) : n.label.getD i 0 < (f.maxLabel n.level).getD i 0 := by
  obtain ⟨_, j, _, _, hlab⟩ := hN.inv c n hc
  rw [hlab]
  exact digitsOf_lt _ (maxLabel_pos f hf _) j i (by rw [maxLabel_length]; exact hi)

/-- all mixed-radix combinations occur at every level: the node of level `l'` labelled like `lab` except digit `p := v` -/
theorem node_with_digit (f : FatTree) (nodes : List FNode) (hN : NodesOk f nodes)
    (hbl : ∀ l, l ≤ f.levels → bl f l = prodL (f.maxLabel l)) (l' : Nat) (hl' : l' ≤ f.levels) (lab : List Nat) (p v : Nat)
    (hv : p < f.levels → v < (f.maxLabel l').getD p 0)
    (hlab : ∀ i, i < f.levels → i ≠ p → lab.getD i 0 < (f.maxLabel l').getD i 0) :
    ∃ k n, k < bl f l' ∧ nodes[levelStart f l' + k]? = some n ∧ n.level = l' ∧
      ∀ i, i < f.levels → n.label.getD i 0 = if i = p then v else lab.getD i 0 := by
  obtain ⟨k, hk, hd⟩ := digitsOf_surj (f.maxLabel l') (fun i => if i = p then v else lab.getD i 0) (by
    intro i hi
    rw [maxLabel_length] at hi
    by_cases e : i = p
    · rw [if_pos e, e]; exact hv (e ▸ hi)
    · rw [if_neg e]; exact hlab i hi e)
  rw [← hbl l' hl'] at hk
  obtain ⟨n, hn, hnl, hnlab⟩ := hN.get l' hl' k hk
  refine ⟨k, n, hk, hn, hnl, ?_⟩
  intro i hi
  rw [hnlab]
  exact hd i (by rw [maxLabel_length]; exact hi)

theorem index_lt_top (f : FatTree) (l k : Nat) (hl : l < f.levels) (hk : k < bl f l) :
    levelStart f l + k < levelStart f f.levels := by
  rw [levelStart_eq, levelStart_eq]
  have := sumTo_le (bl f) f.levels l hl
  omega

/-! ### the port tables of the construction -/

/-- `parents[port]` of every node below the top level, for every port -/
theorem build_up (f : FatTree) (hf : f.WF) (nodes : List FNode) (hN : NodesOk f nodes)
    (hbl : ∀ l, l ≤ f.levels → bl f l = prodL (f.maxLabel l))
    (c : Nat) (cn : FNode) (hc : nodes[c]? = some cn) (hlev : cn.level < f.levels) (port : Nat)
    (hport : port < f.up.getD cn.level 0 * f.count.getD cn.level 0) :
    ∃ (l : FLink) (pn : FNode),
      ((buildSt f nodes).2.2.find? (fun e => e.1 == c && e.2.1 == port)).map (·.2.2) = some l ∧ l.child = c ∧
      nodes[l.parent]? = some pn ∧ pn.level = cn.level + 1 ∧
      LabelSet f.levels pn.label cn.label cn.level (port % f.up.getD cn.level 0) := by
  have hw : 0 < f.up.getD cn.level 0 := (hf.2 _ hlev).2.1
  have hjj : port / f.up.getD cn.level 0 < f.count.getD cn.level 0 := Nat.div_lt_of_lt_mul hport
  have hwl : ∀ l', l' = cn.level + 1 → (f.maxLabel l').getD cn.level 0 = f.up.getD cn.level 0 := by
    intro l' e
    rw [maxLabel_getD _ _ _ hlev, if_neg (by omega)]
  -- the related parent with digit `port % w`
  obtain ⟨k, pn, hk, hpn, hpl, hplab⟩ := node_with_digit f nodes hN hbl (cn.level + 1) (by omega) cn.label cn.level
    (port % f.up.getD cn.level 0) (fun _ => by rw [hwl _ rfl]; exact Nat.mod_lt _ hw) (by
      intro i hi hne
      have := node_digit_lt f hf nodes hN c cn hc i hi
      rw [maxLabel_getD _ _ _ hi] at this ⊢
      split at this <;> split <;> first | exact this | omega)
  have hr : areRelated f.levels pn cn = true :=
    areRelated_intro hpl (fun i hi hne => by rw [hplab i hi, if_neg hne])
  obtain ⟨_, j0, hj0, hcj0, _⟩ := hN.inv c cn hc
  have hci : c < levelStart f f.levels := by rw [hcj0]; exact index_lt_top f _ _ hlev hj0
  obtain ⟨_, uid, hmem⟩ := buildSt_reach f nodes c cn hci hc k hk pn hpn hr _ hjj
  have hport' : pn.label.getD cn.level 0 + port / f.up.getD cn.level 0 * f.up.getD cn.level 0 = port := by
    rw [hplab _ hlev, if_pos rfl, Nat.mul_comm]; exact Nat.mod_add_div _ _
  rw [hport'] at hmem
  -- the first entry with the key is a genuine edge
  obtain ⟨e, he, h1, h2, hfind⟩ := find_key _ c port ⟨_, hmem, rfl, rfl⟩
  obtain ⟨child, parent, j, hch, hpa, hrel, h4, h5⟩ := (buildSt_inv f nodes).2 e he
  rw [← h4, h1, hc] at hch
  cases hch
  obtain ⟨r1, r2⟩ := areRelated_spec hrel
  refine ⟨e.2.2, parent, hfind, by rw [← h4, h1], hpa, r1, ?_⟩
  intro i hi
  by_cases e' : i = cn.level
  · rw [if_pos e', e']
    have hlt := node_digit_lt f hf nodes hN _ parent hpa cn.level hlev
    rw [hwl _ r1] at hlt
    rw [← h2, h5, Nat.add_mul_mod_self_right, Nat.mod_eq_of_lt hlt]
  · rw [if_neg e']; exact r2 i hi e'

/-- `children[port]` of every switch, for every port -/
theorem build_down (f : FatTree) (hf : f.WF) (nodes : List FNode) (hN : NodesOk f nodes)
    (hbl : ∀ l, l ≤ f.levels → bl f l = prodL (f.maxLabel l))
    (c : Nat) (cn : FNode) (hc : nodes[c]? = some cn) (hlev : cn.level ≠ 0) (port : Nat)
    (hport : port < f.down.getD (cn.level - 1) 0 * f.count.getD (cn.level - 1) 0) :
    ∃ (l : FLink) (ch : FNode),
      ((buildSt f nodes).2.1.find? (fun e => e.1 == c && e.2.1 == port)).map (·.2.2) = some l ∧ l.parent = c ∧
      nodes[l.child]? = some ch ∧ ch.level + 1 = cn.level ∧
      LabelSet f.levels ch.label cn.label (cn.level - 1) (port % f.down.getD (cn.level - 1) 0) := by
  obtain ⟨hcL, j0, hj0, hcj0, _⟩ := hN.inv c cn hc
  have hlm : cn.level - 1 < f.levels := by omega
  have hm : 0 < f.down.getD (cn.level - 1) 0 := (hf.2 _ hlm).1
  have hjj : port / f.down.getD (cn.level - 1) 0 < f.count.getD (cn.level - 1) 0 := Nat.div_lt_of_lt_mul hport
  have hml : ∀ l', l' = cn.level - 1 → (f.maxLabel l').getD (cn.level - 1) 0 = f.down.getD (cn.level - 1) 0 := by
    intro l' e
    rw [maxLabel_getD _ _ _ hlm, if_pos (by omega)]
  -- the related child with digit `port % m`
  obtain ⟨k, ch, hk, hch, hchl, hchlab⟩ := node_with_digit f nodes hN hbl (cn.level - 1) (by omega) cn.label (cn.level - 1)
    (port % f.down.getD (cn.level - 1) 0) (fun _ => by rw [hml _ rfl]; exact Nat.mod_lt _ hm) (by
      intro i hi hne
      have := node_digit_lt f hf nodes hN c cn hc i hi
      rw [maxLabel_getD _ _ _ hi] at this ⊢
      split at this <;> split <;> first | exact this | omega)
  have e1 : ch.level + 1 = cn.level := by omega
  have hr : areRelated f.levels cn ch = true :=
    areRelated_intro e1.symm (fun i hi hne => by rw [hchlab i hi, if_neg (by omega)])
  have hci : levelStart f (cn.level - 1) + k < levelStart f f.levels := index_lt_top f _ _ hlm hk
  have hcn' : nodes[levelStart f (ch.level + 1) + j0]? = some cn := by rw [e1, ← hcj0]; exact hc
  obtain ⟨⟨uid, hmem⟩, _⟩ := buildSt_reach f nodes _ ch hci hch j0 (by rw [e1]; exact hj0) cn hcn' hr
    (port / f.down.getD (cn.level - 1) 0) (by rw [hchl]; exact hjj)
  have hport' : ch.label.getD ch.level 0 + port / f.down.getD (cn.level - 1) 0 * f.down.getD ch.level 0 = port := by
    rw [hchl, hchlab _ hlm, if_pos rfl, Nat.mul_comm]; exact Nat.mod_add_div _ _
  rw [hport', e1, ← hcj0] at hmem
  -- the first entry with the key is a genuine edge
  obtain ⟨e, he, h1, h2, hfind⟩ := find_key _ c port ⟨_, hmem, rfl, rfl⟩
  obtain ⟨child, parent, j, hch', hpa, hrel, h4, h5⟩ := (buildSt_inv f nodes).1 e he
  rw [← h4, h1, hc] at hpa
  cases hpa
  obtain ⟨r1, r2⟩ := areRelated_spec hrel
  have r3 : child.level = cn.level - 1 := by omega
  refine ⟨e.2.2, child, hfind, by rw [← h4, h1], hch', r1.symm, ?_⟩
  intro i hi
  by_cases e' : i = cn.level - 1
  · rw [if_pos e', e']
    have hlt := node_digit_lt f hf nodes hN _ child hch' (cn.level - 1) hlm
    rw [hml _ r3] at hlt
    rw [← h2, h5, r3, Nat.add_mul_mod_self_right, Nat.mod_eq_of_lt hlt]
  · rw [if_neg e']; exact (r2 i hi (by omega)).symm

/-! ### the theorem -/

/-- **the modelled construction is well formed, for all well-formed parameters.**
Only hypothesis besides `f.WF`: `num_children_per_node_` has exactly `levels` entries (the parser guarantees it;
`nLeaves` multiplies the WHOLE list while the labels only use the first `levels` radices). -/
theorem build_wf_of_down (f : FatTree) (hf : f.WF) (hdown : f.down.length = f.levels) : FTables.WF f f.build := by
  have hN := mkNodes_ok f hf
  have hbl := bl_eq f hdown
  rw [build_eq]
  refine ⟨?_, ?_, ?_, ?_, ?_⟩
  · intro c cn hc
    exact (hN.inv c cn hc).1
  · intro c cn hc hlev port hport
    exact build_up f hf _ hN hbl c cn hc hlev port hport
  · intro c cn hc hlev port hport
    exact build_down f hf _ hN hbl c cn hc hlev port hport
  · intro c cn hc h0 j hj
    have := node_digit_lt f hf _ hN c cn hc j hj
    rw [h0, maxLabel_getD _ _ _ hj, if_pos (by omega)] at this
    exact this
  · intro c cn c2 cn2 hc hc2 h0 h02 hag
    obtain ⟨_, j, hj, hcj, hlab⟩ := hN.inv c cn hc
    obtain ⟨_, j2, hj2, hcj2, hlab2⟩ := hN.inv c2 cn2 hc2
    rw [h0] at hj hcj hlab
    rw [h02] at hj2 hcj2 hlab2
    rw [hbl 0 (Nat.zero_le _)] at hj hj2
    have : j2 = j := by
      apply digitsOf_inj (f.maxLabel 0) (maxLabel_pos f hf 0) j2 j hj2 hj
      intro i hi
      rw [maxLabel_length] at hi
      rw [← hlab, ← hlab2]
      exact (hag i (Nat.zero_le _) hi).symm
    rw [hcj, hcj2, this]

end FTBuild

open FTBuild

/-- the statement with the three list lengths (only the first one is used) -/
theorem build_wf (f : FatTree) (hf : f.WF)
    (hlen : f.down.length = f.levels ∧ f.up.length = f.levels ∧ f.count.length = f.levels) :
    FTables.WF f f.build :=
  FTBuild.build_wf_of_down f hf hlen.1

/-- non-vacuity: a 2-level fat tree (4 leaves, 2 + 2 switches, doubled top cables) meets the hypotheses -/
example : FTables.WF ⟨2, [2, 2], [1, 2], [1, 2], false, true, true, 0, 0⟩
    (FatTree.build ⟨2, [2, 2], [1, 2], [1, 2], false, true, true, 0, 0⟩) :=
  build_wf _ (paramsOk_sound _ (by decide)) (by decide)

example : FTables.WF ⟨3, [2, 3, 2], [2, 1, 3], [1, 2, 1], true, false, false, 5, 7⟩
    (FatTree.build ⟨3, [2, 3, 2], [2, 1, 3], [1, 2, 1], true, false, false, 5, 7⟩) :=
  build_wf _ (paramsOk_sound _ (by decide)) (by decide)

/-- the length hypothesis is needed: with a second (ignored by the labels) entry in `num_children_per_node_` the model creates
4 leaves for radices `[2]`, two leaves get the same label and `leaf_inj` fails -/
example : (⟨1, [2, 2], [1], [1], false, false, false, 0, 0⟩ : FatTree).WF ∧
    ¬ FTables.WF ⟨1, [2, 2], [1], [1], false, false, false, 0, 0⟩
      (FatTree.build ⟨1, [2, 2], [1], [1], false, false, false, 0, 0⟩) := by
  refine ⟨paramsOk_sound _ (by decide), fun h => ?_⟩
  have := h.leaf_inj 0 ⟨0, 0, 0, [0]⟩ 2 ⟨2, 0, 2, [0]⟩ (by decide) (by decide) rfl rfl (fun _ _ _ => rfl)
  omega

end SgVerif.C26
