import SgVerif.C26.Model
import SgVerif.C26.TorusLemmas
/-! C26 — lemmas for the star and dragonfly theorems -/
namespace SgVerif.C26

theorem addLinks_nodup : ∀ (ls acc : List String), acc.Nodup → (addLinks ls acc).Nodup := by
  intro ls
  induction ls with
  | nil => intro acc h; exact h
  | cons l ls ih =>
    intro acc h
    simp only [addLinks]
    split
    · exact ih acc h
    · rename_i hn
      apply ih
      rw [List.nodup_append]
      refine ⟨h, by simp, ?_⟩
      intro a ha b hb
      simp only [List.mem_singleton] at hb
      subst hb
      intro e; subst e; exact hn ha

theorem addLinks_mem : ∀ (ls acc : List String) (x : String), x ∈ addLinks ls acc ↔ x ∈ acc ∨ x ∈ ls := by
  intro ls
  induction ls with
  | nil => intro acc x; simp [addLinks]
  | cons l ls ih =>
    intro acc x
    simp only [addLinks]
    split
    · rename_i hm
      rw [ih]
      constructor
      · rintro (h | h)
        · exact Or.inl h
        · exact Or.inr (List.mem_cons_of_mem _ h)
      · rintro (h | h)
        · exact Or.inl h
        · rcases List.mem_cons.mp h with h | h
          · subst h; exact Or.inl hm
          · exact Or.inr h
    · rw [ih]
      simp only [List.mem_append, List.mem_cons, List.not_mem_nil, or_false]
      constructor
      · rintro ((h | h) | h)
        · exact Or.inl h
        · exact Or.inr (Or.inl h)
        · exact Or.inr (Or.inr h)
      · rintro (h | h | h)
        · exact Or.inl (Or.inl h)
        · exact Or.inl (Or.inr h)
        · exact Or.inr h

/-- `addLinks` only appends, and what it appends is a subsequence of the given links -/
theorem addLinks_prefix : ∀ (ls acc : List String), ∃ r, addLinks ls acc = acc ++ r ∧ r.Sublist ls := by
  intro ls
  induction ls with
  | nil => intro acc; exact ⟨[], by simp [addLinks], List.Sublist.refl _⟩
  | cons l ls ih =>
    intro acc
    simp only [addLinks]
    split
    · obtain ⟨r, h1, h2⟩ := ih acc
      exact ⟨r, h1, h2.cons _⟩
    · obtain ⟨r, h1, h2⟩ := ih (acc ++ [l])
      exact ⟨l :: r, by rw [h1]; simp, h2.cons_cons _⟩

def DSlot.kind : DSlot → Nat
  | .node _ => 0
  | .green _ => 1
  | .black _ => 2
  | .blue => 3

end SgVerif.C26
