import SgVerif.C26.Cluster
/-
C26 — TorusZone (src/kernel/routing/TorusZone.cpp), as written.  Node ids are the netpoint ids, which are 0..n-1 in
creation order for every zone built through the API / the XML loader (hosts are the first netpoints of the zone).
-/
namespace SgVerif.C26

inductive TLink where
  | loopback (id : Nat)                 -- link returned by the loopback callback for leaf `id`
  | limiter (id : Nat)                  -- link returned by the limiter callback for leaf `id`
  | cable (a b : Nat) (up : Bool)       -- `<zone>_link_from_<a>_to_<b>`: the UP (`true`) or DOWN half
  deriving DecidableEq, Repr

structure Torus where
  dims : List Nat
  lb : Bool        -- a loopback callback is set
  lim : Bool       -- a limiter callback is set
  deriving Repr

def prod : List Nat → Nat
  | [] => 1
  | d :: ds => d * prod ds

/-- `set_tot_elements(std::accumulate(dimensions.begin(), dimensions.end(), 1, std::multiplies<>()))` -/
def Torus.tot (t : Torus) : Nat := prod t.dims

/-- `TorusZone::create_torus_links(id, rank, position)`:
```
  for (j = 0; j < dimensions_.size(); j++) {
    current_dimension = dimensions_[j];
    neighbor_rank_id = ((rank / dim_product) % current_dimension == current_dimension - 1)
                           ? rank - (current_dimension - 1) * dim_product : rank + dim_product;
    link_id = get_name() + "_link_from_" + std::to_string(id) + "_to_" + std::to_string(neighbor_rank_id);
    ... add_private_link_at(position + j, {linkup, linkdown});
    dim_product *= current_dimension; }
``` -/
def torusLinks (id rank position : Nat) : Nat → Nat → List Nat → Entries TLink
  | _, _, [] => []
  | j, P, d :: ds =>
    let nb := if (rank / P) % d = d - 1 then rank - (d - 1) * P else rank + P
    (position + j, (TLink.cable id nb true, TLink.cable id nb false)) :: torusLinks id rank position (j + 1) (P * d) ds

/-- `TorusZone::do_seal`: `for i < tot: fill_leaf_from_cb(i); create_torus_links(id, i, node_pos_with_loopback_limiter(id))` -/
def Torus.sealFrom (t : Torus) : List Nat → ClState → ClState × Entries TLink
  | [], s => (s, [])
  | i :: is, s =>
    let (s', e) := fillLeaf t.lb t.lim TLink.loopback TLink.limiter s i
    let e2 := torusLinks i i (s'.nodePosLbLim i) 0 1 t.dims
    let (s'', rest) := t.sealFrom is s'
    (s'', e ++ e2 ++ rest)

/-- state after `set_topology` (`set_num_links_per_node(dimensions_.size())`) then `do_seal` -/
def Torus.seal (t : Torus) : ClState × Entries TLink :=
  t.sealFrom (List.range t.tot) { numLinks := t.dims.length, hasLb := false, hasLim := false }

/-- the first loop of `get_local_route`: `coords[i] = (id / dim_size_product) % cur_dim_size; dim_size_product *= cur_dim_size` -/
def coordsFrom (id : Nat) : Nat → List Nat → List Nat
  | _, [] => []
  | P, d :: ds => (id / P) % d :: coordsFrom id (P * d) ds

/-- the direction test, verbatim:
```
 (targetCoords[j] > myCoords[j] && targetCoords[j] <= myCoords[j] + cur_dim / 2)      // on the right, without wrap-around
 || (myCoords[j] > cur_dim / 2 && (myCoords[j] + cur_dim / 2) % cur_dim >= targetCoords[j])   // or with the wrap-around
``` -/
def goRight (m t d : Nat) : Bool :=
  (decide (t > m) && decide (t ≤ m + d / 2)) || (decide (m > d / 2) && decide ((m + d / 2) % d ≥ t))

/-- one iteration of the `while`: which dimension, which direction, which next node -/
structure Hop where
  cur : Nat
  next : Nat
  dim : Nat
  up : Bool        -- `use_lnk_up`: the link is the UP half stored at `cur`; otherwise the DOWN half stored at `next`
  deriving DecidableEq, Repr

/-- the inner `for (j = 0; j < dsize; j++)` with its `break`, over `(cur_dim, myCoords[j], targetCoords[j])`:
```
   if ((current_node / dim_product) % cur_dim != (dst->id() / dim_product) % cur_dim) {
     if (<goRight>) { next_node = ((current_node / dim_product) % cur_dim == cur_dim - 1)
                                     ? current_node + dim_product - dim_product * cur_dim : current_node + dim_product;
                      linkOffset = node_pos_with_loopback_limiter(current_node) + j; use_lnk_up = true; }
     else           { next_node = ((current_node / dim_product) % cur_dim == 0)
                                     ? current_node - dim_product + dim_product * cur_dim : current_node - dim_product;
                      linkOffset = node_pos_with_loopback_limiter(next_node) + j; use_lnk_up = false; }
     break; }
   dim_product *= cur_dim;
```
(`current_node - dim_product + dim_product * cur_dim` is computed modulo 2^64 in C++; its exact value
`current_node + dim_product * cur_dim - dim_product` is never negative, so we write it in that order over `Nat`.) -/
def scan (cur dst : Nat) : Nat → Nat → List (Nat × Nat × Nat) → Option Hop
  | _, _, [] => none
  | j, P, (d, m, t) :: rest =>
    if (cur / P) % d ≠ (dst / P) % d then
      if goRight m t d then
        some { cur := cur, dim := j, up := true,
               next := if (cur / P) % d = d - 1 then cur + P - P * d else cur + P }
      else
        some { cur := cur, dim := j, up := false,
               next := if (cur / P) % d = 0 then cur + P * d - P else cur - P }
    else scan cur dst (j + 1) (P * d) rest

def zip3 : List Nat → List Nat → List Nat → List (Nat × Nat × Nat)
  | d :: ds, m :: ms, t :: ts => (d, m, t) :: zip3 ds ms ts
  | _, _, _ => []

/-- `while (current_node != dst->id()) { <scan>; ...; current_node = next_node; }`.
`fuel` bounds the number of iterations (`none` = not finished: theorem `torus_terminates` shows it never happens).
When no dimension differs although `current_node != dst` (impossible for ids < tot) the C++ would reuse the previous
`linkOffset` and jump to node 0: modelled as the error `none`. -/
def hopsLoop (dst : Nat) (tri : List (Nat × Nat × Nat)) : Nat → Nat → Option (List Hop)
  | fuel, cur =>
    if cur = dst then some []
    else match fuel with
      | 0 => none
      | fuel + 1 =>
        match scan cur dst 0 1 tri with
        | none => none
        | some h => (hopsLoop dst tri fuel h.next).map (h :: ·)

def Torus.hops (t : Torus) (src dst : Nat) : Option (List Hop) :=
  hopsLoop dst (zip3 t.dims (coordsFrom src 1 t.dims) (coordsFrom dst 1 t.dims)) t.tot src

def optCons {α : Type} (a : Option α) (l : Option (List α)) : Option (List α) :=
  match a, l with
  | some a, some l => some (a :: l)
  | _, _ => none

/-- the link pushes of one iteration:
```
    if (has_limiter()) route->link_list_.push_back(get_uplink_from(node_pos_with_loopback(current_node)));
    lnk = use_lnk_up ? get_uplink_from(linkOffset) : get_downlink_to(linkOffset);   add_link_latency(..., lnk, lat);
``` -/
def hopLinks (st : ClState) (es : Entries TLink) (h : Hop) : Option (List TLink) :=
  let l := if h.up then es.uplinkFrom (st.nodePosLbLim h.cur + h.dim) else es.downlinkTo (st.nodePosLbLim h.next + h.dim)
  if st.hasLim then optCons (es.uplinkFrom (st.nodePosLb h.cur)) (optCons l (some [])) else optCons l (some [])

def renderHops (st : ClState) (es : Entries TLink) (dst : Nat) : List Hop → Option (List TLink)
  | [] => if st.hasLim then optCons (es.downlinkTo (st.nodePosLb dst)) (some []) else some []
  | h :: hs =>
    match hopLinks st es h, renderHops st es dst hs with
    | some a, some b => some (a ++ b)
    | _, _ => none

/-- `TorusZone::get_local_route(src, dst)` for two leaves: `none` = the C++ throws (`.at`) or does not terminate -/
def Torus.routeWith (t : Torus) (se : ClState × Entries TLink) (src dst : Nat) : Option (List TLink) :=
  let (st, es) := se
  if src = dst ∧ st.hasLb then
    -- `if (src->id() == dst->id() && has_loopback()) { uplink = get_uplink_from(node_pos(src->id())); ...; return; }`
    (es.uplinkFrom (st.nodePos src)).map ([·])
  else
    match t.hops src dst with
    | none => none
    | some hs => renderHops st es dst hs

def Torus.route (t : Torus) (src dst : Nat) : Option (List TLink) := t.routeWith t.seal src dst

/-- link names as printed by Link::get_name(): zone name `z`; split-duplex adds `_UP` / `_DOWN` -/
def TLink.name (dims : List Nat) (split : Bool) : TLink → String
  | .loopback id => lbName dims id
  | .limiter id => limName dims id
  | .cable a b up => s!"z_link_from_{a}_to_{b}" ++ (if split then (if up then "_UP" else "_DOWN") else "")

end SgVerif.C26
