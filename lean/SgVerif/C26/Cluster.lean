/-
C26 — shared part: `ClusterBase` (src/kernel/routing/ClusterZone.cpp, include/simgrid/kernel/routing/ClusterZone.hpp).

`private_links_` is an unordered_map position -> (link_up, link_down) filled with `try_emplace` (first writer wins) and read
with `.at()` (throws when the position is absent).  We model it as the *sequence of try_emplace calls* (`Entries`) and a
lookup returning the first entry with that key (`Entries.at`), `none` standing for the `std::out_of_range`.
No Mathlib: compiled into the driver.
-/
namespace SgVerif.C26

/-- the mutable part of ClusterBase touched while the leaves are filled:
`num_links_per_node_`, `has_loopback_`, `has_limiter_` -/
structure ClState where
  numLinks : Nat
  hasLb : Bool
  hasLim : Bool
  deriving Repr, DecidableEq

/-- `void ClusterBase::set_loopback() { if (not has_loopback_) { num_links_per_node_++; has_loopback_ = true; } }` -/
def ClState.setLoopback (s : ClState) : ClState :=
  if s.hasLb then s else { s with numLinks := s.numLinks + 1, hasLb := true }

/-- `void ClusterBase::set_limiter()` (same shape) -/
def ClState.setLimiter (s : ClState) : ClState :=
  if s.hasLim then s else { s with numLinks := s.numLinks + 1, hasLim := true }

/-- `node_pos(id) = id * num_links_per_node_` -/
def ClState.nodePos (s : ClState) (id : Nat) : Nat := id * s.numLinks
/-- `node_pos_with_loopback(id) = node_pos(id) + (has_loopback_ ? 1 : 0)` -/
def ClState.nodePosLb (s : ClState) (id : Nat) : Nat := s.nodePos id + (if s.hasLb then 1 else 0)
/-- `node_pos_with_loopback_limiter(id) = node_pos_with_loopback(id) + (has_limiter_ ? 1 : 0)` -/
def ClState.nodePosLbLim (s : ClState) (id : Nat) : Nat := s.nodePosLb id + (if s.hasLim then 1 else 0)

/-- sequence of `add_private_link_at(position, {up, down})` calls, in program order -/
abbrev Entries (α : Type) := List (Nat × (α × α))

/-- `private_links_.at(position)` after the calls: `try_emplace` keeps the FIRST pair stored at a position -/
def Entries.at {α : Type} (es : Entries α) (pos : Nat) : Option (α × α) :=
  match es.find? (fun e => e.1 == pos) with
  | some e => some e.2
  | none => none

/-- `get_uplink_from(position) = private_links_.at(position).first` -/
def Entries.uplinkFrom {α : Type} (es : Entries α) (pos : Nat) : Option α := (es.at pos).map (·.1)
/-- `get_downlink_to(position) = private_links_.at(position).second` -/
def Entries.downlinkTo {α : Type} (es : Entries α) (pos : Nat) : Option α := (es.at pos).map (·.2)

/-- The loopback / limiter part of `ClusterBase::fill_leaf_from_cb(position)` for a leaf whose netpoint has id `id`:
```
  if (loopback_cb_) { ...; set_loopback(); add_private_link_at(node_pos(netpoint->id()), {loopback, loopback}); }
  if (limiter_cb_)  { ...; set_limiter();  add_private_link_at(node_pos_with_loopback(netpoint->id()), {limiter, limiter}); }
```
Note that `num_links_per_node_` is incremented *while* the first leaf is filled: its loopback is stored with the count
before `set_limiter()`.  (Harmless when that leaf has id 0, which is the case for every zone built by the API/XML.) -/
def fillLeaf {α : Type} (lbCb limCb : Bool) (mkLb mkLim : Nat → α) (s : ClState) (id : Nat) : ClState × Entries α :=
  let (s1, e1) := if lbCb then
      let s' := s.setLoopback
      (s', [(s'.nodePos id, (mkLb id, mkLb id))])
    else (s, [])
  let (s2, e2) := if limCb then
      let s' := s1.setLimiter
      (s', [(s'.nodePosLb id, (mkLim id, mkLim id))])
    else (s1, [])
  (s2, e1 ++ e2)

/-- the `index_to_dims` lambda of `fill_leaf_from_cb` (coordinates handed to the user callbacks), on reversed lists:
```
    for (auto i = static_cast<int>(dims_.size() - 1); i >= 0; --i) {
      if (index == 0) break;
      unsigned long value = index % dims_[i];  dims_array[i] = value;  index = (index / dims_[i]); }
``` -/
def indexToDimsRev : List Nat → Nat → List Nat
  | [], _ => []
  | d :: ds, index =>
    if index = 0 then List.replicate (ds.length + 1) 0
    else (index % d) :: indexToDimsRev ds (index / d)

def indexToDims (dims : List Nat) (index : Nat) : List Nat := (indexToDimsRev dims.reverse index).reverse

/-- how the harness' callbacks name things: `<prefix><id>@c0.c1...` (4294967295 printed as `R`, the router marker) -/
def coordStr (cs : List Nat) : String :=
  ".".intercalate (cs.map (fun c => if c = 4294967295 then "R" else toString c))

def lbName (dims : List Nat) (id : Nat) : String := s!"lb{id}@{coordStr (indexToDims dims id)}"
def limName (dims : List Nat) (id : Nat) : String := s!"lim{id}@{coordStr (indexToDims dims id)}"

end SgVerif.C26
