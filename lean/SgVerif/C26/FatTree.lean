import SgVerif.C26.Cluster
/-
C26 — FatTreeZone (src/kernel/routing/FatTreeZone.cpp), as written: construction (`add_processing_node`,
`generate_switches`, `generate_labels`, `connect_node_to_parents`/`are_related`/`add_internal_link`) and
`get_local_route` (up while not `is_in_sub_tree`, parent chosen by the d-mod-k rule; then down).
Nodes are referred to by their index in `nodes_` (leaves first, then the switches level by level).
-/
namespace SgVerif.C26

structure FatTree where
  levels : Nat
  down : List Nat       -- num_children_per_node_
  up : List Nat         -- num_parents_per_node_
  count : List Nat      -- num_port_lower_level_
  lb : Bool
  lim : Bool
  split : Bool
  posOff : Nat          -- value of the function-local `static int position` of add_processing_node when this zone is sealed
  uidOff : Nat          -- value of the `static int uniqueId` of add_internal_link when this zone is sealed
  deriving Repr

structure FNode where
  id : Int             -- `int id`: leaves 0..n-1; switches count down from 2n-1 and go NEGATIVE when there are more than 2n of them
  level : Nat
  position : Nat
  label : List Nat
  deriving Repr, DecidableEq

/-- a FatTreeLink: child / parent are indexes in `nodes_`; `uid` numbers the link (names) -/
structure FLink where
  child : Nat
  parent : Nat
  uid : Nat
  deriving Repr, DecidableEq

structure FTables where
  nodes : List FNode
  childPorts : List (Nat × Nat × FLink)     -- `nodes_[p]->children[port] = link`, newest first
  parentPorts : List (Nat × Nat × FLink)    -- `nodes_[c]->parents[port] = link`, newest first
  deriving Repr

def FatTree.nLeaves (f : FatTree) : Nat := prod' f.down
where prod' : List Nat → Nat
  | [] => 1
  | d :: ds => d * prod' ds

def nth (l : List Nat) (i : Nat) : Option Nat := l[i]?

/-- `nodes_by_level_` as computed by generate_switches:
level 0: product of num_children; level i+1: `prod_{j<=i} num_parents[j] * prod_{j>i} num_children[j]` -/
def FatTree.nodesByLevel (f : FatTree) : List Nat :=
  f.nLeaves :: (List.range f.levels).map (fun i =>
    ((List.range f.levels).map (fun j => if j ≤ i then f.up.getD j 0 else f.down.getD j 0)).foldl (· * ·) 1)

/-- the label counter of generate_labels: `++currentLabel[pos]; if (>= maxLabel[pos]) { = 0; ++pos } else stop` -/
def incLabel : List Nat → List Nat → List Nat
  | c :: cs, m :: ms => if c + 1 ≥ m then 0 :: incLabel cs ms else (c + 1) :: cs
  | cs, _ => cs

/-- the labels of the `n` nodes of one level: start at 0...0 and count with `maxLabel` -/
def levelLabels (maxLabel : List Nat) : Nat → List Nat → List (List Nat)
  | 0, _ => []
  | n + 1, cur => cur :: levelLabels maxLabel n (incLabel cur maxLabel)

/-- `maxLabel[j] = j + 1 > i ? num_children_per_node_[j] : num_parents_per_node_[j]` for level i -/
def FatTree.maxLabel (f : FatTree) (i : Nat) : List Nat :=
  (List.range f.levels).map (fun j => if j + 1 > i then f.down.getD j 0 else f.up.getD j 0)

/-- all nodes: leaves (id i, level 0, position = static counter), then switches (`k--` from 2*n; level i+1, position j) -/
def FatTree.mkNodes (f : FatTree) : List FNode :=
  let n := f.nLeaves
  let byLevel := f.nodesByLevel
  let leaves := (List.range n).map (fun (i : Nat) => (Int.ofNat i, 0, f.posOff + i))
  -- switches in creation order with their ids
  let sw := ((List.range f.levels).flatMap (fun i => (List.range (byLevel.getD (i + 1) 0)).map (fun j => (i + 1, j))))
  let sw := (List.range sw.length).zip sw |>.map (fun (o, (lvl, j)) => (Int.ofNat (2 * n) - 1 - Int.ofNat o, lvl, j))
  let all := leaves ++ sw
  -- labels level by level, in `nodes_` order
  let labels := (List.range (f.levels + 1)).flatMap (fun i =>
    levelLabels (f.maxLabel i) (byLevel.getD i 0) (List.replicate f.levels 0))
  (all.zip labels).map (fun ((id, lvl, pos), lab) => ⟨id, lvl, pos, lab⟩)

/-- `are_related(parent, child)`: levels differ by one and labels agree except at index `parent->level - 1` -/
def areRelated (levels : Nat) (parent child : FNode) : Bool :=
  parent.level == child.level + 1 &&
    (List.range levels).all (fun i => parent.label.getD i 0 == child.label.getD i 0 || i + 1 == parent.level)

/-- `build_upper_levels`: for every node of levels 0..levels-1 in `nodes_` order, `connect_node_to_parents`:
scan the nodes of the next level in order; for each related one, `num_port_lower_level_[level]` links
`add_internal_link(parent, node->label[level] + j * num_children[level], node, parent->label[level] + j * num_parents[level])` -/
def FatTree.build (f : FatTree) : FTables :=
  let nodes := f.mkNodes
  let byLevel := f.nodesByLevel
  let levelStart (l : Nat) : Nat := ((List.range l).map (fun i => byLevel.getD i 0)).foldl (· + ·) 0
  let lower := (List.range (levelStart f.levels))
  let init : Nat × List (Nat × Nat × FLink) × List (Nat × Nat × FLink) := (f.uidOff, [], [])
  let (_, cp, pp) := lower.foldl (fun st ci =>
    match nodes[ci]? with
    | none => st
    | some child =>
      let lvl := child.level
      let ps := (List.range (byLevel.getD (lvl + 1) 0)).map (fun i => levelStart (lvl + 1) + i)
      ps.foldl (fun st pi =>
        match nodes[pi]? with
        | none => st
        | some parent =>
          if areRelated f.levels parent child then
            (List.range (f.count.getD lvl 0)).foldl (fun (st : Nat × List (Nat × Nat × FLink) × List (Nat × Nat × FLink)) j =>
              let (uid, cp, pp) := st
              let l : FLink := ⟨ci, pi, uid⟩
              let parentPort := child.label.getD lvl 0 + j * f.down.getD lvl 0
              let childPort := parent.label.getD lvl 0 + j * f.up.getD lvl 0
              (uid + 1, (pi, parentPort, l) :: cp, (ci, childPort, l) :: pp)) st
          else st) st) init
  { nodes := nodes, childPorts := cp, parentPorts := pp }

inductive FTLink where
  | loopback (id : Int)
  | limiter (id : Int) (level position : Nat)   -- callback id and coordinates (level, position)
  | cable (childId parentId : Int) (uid : Nat) (up : Bool)
  deriving Repr, DecidableEq

def FTables.childAt (t : FTables) (node port : Nat) : Option FLink :=
  (t.childPorts.find? (fun e => e.1 == node && e.2.1 == port)).map (·.2.2)
def FTables.parentAt (t : FTables) (node port : Nat) : Option FLink :=
  (t.parentPorts.find? (fun e => e.1 == node && e.2.1 == port)).map (·.2.2)

/-- `children.size()`: resized to `num_children[level-1] * num_port_lower_level[level-1]` for switches, empty for leaves -/
def FatTree.childrenSize (f : FatTree) (n : FNode) : Nat :=
  if n.level = 0 then 0 else f.down.getD (n.level - 1) 0 * f.count.getD (n.level - 1) 0

/-- `is_in_sub_tree(root, node)` -/
def isInSubTree (levels : Nat) (root node : FNode) : Bool :=
  if root.level ≤ node.level then false
  else (List.range node.level).all (fun i => root.label.getD i 0 == node.label.getD i 0) &&
       (List.range (levels - root.level)).all (fun k => root.label.getD (root.level + k) 0 == node.label.getD (root.level + k) 0)

/-- the node's `limiter_link_`: leaves get the limiter callback's link in fill_leaf_from_cb, switches in generate_switches
(`get_limiter(i, j, k)` with coordinates `{i + 1, j}`) -/
def FatTree.limiterOf (f : FatTree) (n : FNode) : List FTLink :=
  if f.lim then [.limiter n.id n.level (if n.level = 0 then n.id.toNat else n.position)] else []

def FatTree.cable (t : FTables) (l : FLink) (up : Bool) : Option FTLink :=
  match t.nodes[l.child]?, t.nodes[l.parent]? with
  | some c, some p => some (.cable c.id p.id l.uid up)
  | _, _ => none

/-- the `// up part` loop -/
def FatTree.upLoop (f : FatTree) (t : FTables) (dst : FNode) : Nat → Nat → List FTLink → Option (Nat × List FTLink)
  | fuel, cur, acc =>
    match t.nodes[cur]? with
    | none => none
    | some cn =>
      if isInSubTree f.levels cn dst then some (cur, acc)
      else match fuel with
        | 0 => none
        | fuel + 1 =>
          -- d = destination->position; for (i < level) d /= num_parents[i]; d = d % (num_parents[level] * num_port_lower_level[level])
          let d := (List.range cn.level).foldl (fun d i => d / f.up.getD i 0) dst.position
          let k := f.up.getD cn.level 0 * f.count.getD cn.level 0
          let d := d % k
          match t.parentAt cur d with
          | none => none
          | some l =>
            match FatTree.cable t l true with
            | none => none
            | some c => f.upLoop t dst fuel l.parent (acc ++ f.limiterOf cn ++ [c])

/-- the inner `for` of the `// Down part`, which does NOT break after a match: it goes on with the same `i` on the node it
moved to (`currentNode->children.size()` and `currentNode->level` are re-read) -/
def FatTree.downFor (f : FatTree) (t : FTables) (dst : FNode) : Nat → Nat → Nat → List FTLink → Option (Nat × List FTLink)
  | 0, _, _, _ => none
  | fuel + 1, cur, i, acc =>
    match t.nodes[cur]? with
    | none => none
    | some cn =>
      if i < f.childrenSize cn then
        if i % f.down.getD (cn.level - 1) 0 == dst.label.getD (cn.level - 1) 0 then
          match t.childAt cur i with
          | none => none
          | some l =>
            match FatTree.cable t l false with
            | none => none
            | some c => f.downFor t dst fuel l.child (i + 1) (acc ++ [c] ++ f.limiterOf cn)
        else f.downFor t dst fuel cur (i + 1) acc
      else some (cur, acc)

/-- bound on the number of iterations of one run of the inner `for`: `i` only grows and the loop stops as soon as
`i >= currentNode->children.size()`, whatever node it is on by then; every `children.size()` is one of the terms -/
def FatTree.sizeSum (f : FatTree) : Nat → Nat
  | 0 => 0
  | n + 1 => f.sizeSum n + f.down.getD n 0 * f.count.getD n 0

/-- `while (currentNode != destination) { d = source->position % num_port_lower_level[level - 1]; for (i = d * num_children[level - 1]; ...) }` -/
def FatTree.downLoop (f : FatTree) (t : FTables) (srcPos : Nat) (dst : FNode) (dstIdx : Nat) :
    Nat → Nat → List FTLink → Option (List FTLink)
  | fuel, cur, acc =>
    if cur = dstIdx then some acc
    else match fuel with
      | 0 => none
      | fuel + 1 =>
        match t.nodes[cur]? with
        | none => none
        | some cn =>
          if cn.level = 0 then none   -- `level - 1` underflows: cannot happen below an ancestor of the destination
          else
            let d := srcPos % f.count.getD (cn.level - 1) 0
            match f.downFor t dst (f.sizeSum f.levels + 2) cur (d * f.down.getD (cn.level - 1) 0) acc with
            | none => none
            | some (cur', acc') => f.downLoop t srcPos dst dstIdx fuel cur' acc'

/-- `FatTreeZone::get_local_route` between leaves `src`, `dst` (netpoint ids = leaf indexes) -/
def FatTree.route (f : FatTree) (t : FTables) (src dst : Nat) : Option (List FTLink) :=
  match t.nodes[src]?, t.nodes[dst]? with
  | some s, some d =>
    if s.level ≠ 0 ∨ d.level ≠ 0 then none
    else if s.id = d.id ∧ f.lb then some [.loopback s.id]
    else
      match f.upLoop t d (f.levels + 1) src [] with
      | none => none
      | some (top, acc) =>
        match f.downLoop t s.position d dst (f.levels + 1) top acc with
        | none => none
        | some acc => some (acc ++ f.limiterOf d)
  | _, _ => none

def FTLink.name (f : FatTree) : FTLink → String
  | .loopback id => lbName [f.levels + 1, f.nLeaves] id.toNat
  -- the switch id reaches the callback as `unsigned long`: negative ids wrap modulo 2^64
  | .limiter id lvl pos => s!"lim{if id < 0 then id + 18446744073709551616 else id}@{lvl}.{pos}"
  | .cable c p u up => s!"link_from_{c}_{p}_{u}" ++ (if f.split then (if up then "_UP" else "_DOWN") else "")

end SgVerif.C26
