import SgVerif.C26.Torus
/-
Helper lemmas for the torus theorems: the `while`/`for` of get_local_route is a mixed-radix walk.
`scanR`/`hopsR` are the same loops expressed on quotients (dimension 0 first, then recursively on `id / d`);
`specR` is the closed description: for each dimension in turn a ring walk, lifted to node ids.
-/
namespace SgVerif.C26

def liftHop (r d : Nat) (h : Hop) : Hop := { cur := r + d * h.cur, next := r + d * h.next, dim := h.dim + 1, up := h.up }
def shiftHop (lo P j : Nat) (h : Hop) : Hop := { cur := lo + P * h.cur, next := lo + P * h.next, dim := j + h.dim, up := h.up }

def scanR (cq dq : Nat) : List (Nat × Nat × Nat) → Option Hop
  | [] => none
  | (d, m, t) :: rest =>
    if cq % d ≠ dq % d then
      if goRight m t d then some ⟨cq, if cq % d = d - 1 then cq + 1 - d else cq + 1, 0, true⟩
      else some ⟨cq, if cq % d = 0 then cq + d - 1 else cq - 1, 0, false⟩
    else (scanR (cq / d) (dq / d) rest).map (liftHop (cq % d) d)

theorem shift_lift (cur P d j : Nat) (h : Hop) :
    shiftHop (cur % P) P j (liftHop ((cur / P) % d) d h) = shiftHop (cur % (P * d)) (P * d) (j + 1) h := by
  simp only [shiftHop, liftHop, Nat.mod_mul, Nat.mul_add, Nat.mul_assoc, Nat.add_assoc]
  congr 1
  omega

theorem scan_eq (cur dst : Nat) (tri : List (Nat × Nat × Nat)) (hd : ∀ x ∈ tri, 0 < x.1) :
    ∀ j P, 0 < P → scan cur dst j P tri = (scanR (cur / P) (dst / P) tri).map (shiftHop (cur % P) P j) := by
  induction tri with
  | nil => intro j P _; simp [scan, scanR]
  | cons x rest ih =>
    obtain ⟨d, m, t⟩ := x
    intro j P hP
    have hd0 : 0 < d := hd (d, m, t) (by simp)
    have hcur := Nat.mod_add_div cur P
    simp only [scan, scanR]
    split
    · split
      · simp only [Option.map_some, shiftHop, Nat.add_zero]
        congr 1
        split
        · rename_i h1
          have : d - 1 ≤ cur / P := by rw [← h1]; exact Nat.mod_le _ _
          have h2 : P * (cur / P + 1 - d) = P * (cur / P) + P - P * d := by
            rw [Nat.mul_sub, Nat.mul_add, Nat.mul_one]
          have h3 : P * d ≤ P * (cur / P) + P := by
            have := Nat.mul_le_mul_left P (show d ≤ cur / P + 1 by omega)
            rw [Nat.mul_add, Nat.mul_one] at this; exact this
          simp only [Hop.mk.injEq, and_true]
          constructor <;> omega
        · simp only [Hop.mk.injEq, and_true, Nat.mul_add, Nat.mul_one]
          constructor <;> omega
      · simp only [Option.map_some, shiftHop, Nat.add_zero]
        congr 1
        split
        · have h2 : P * (cur / P + d - 1) = P * (cur / P) + P * d - P := by
            rw [Nat.mul_sub, Nat.mul_add, Nat.mul_one]
          have h3 : P ≤ P * d := Nat.le_mul_of_pos_right P hd0
          simp only [Hop.mk.injEq, and_true]
          constructor <;> omega
        · rename_i h0
          have h1 : 1 ≤ cur / P := by
            rcases Nat.eq_zero_or_pos (cur / P) with h | h
            · rw [h] at h0; simp at h0
            · exact h
          have h2 : P * (cur / P - 1) = P * (cur / P) - P := by rw [Nat.mul_sub, Nat.mul_one]
          have h3 : P ≤ P * (cur / P) := Nat.le_mul_of_pos_right P h1
          simp only [Hop.mk.injEq, and_true]
          constructor <;> omega
    · rw [ih (fun x hx => hd x (by simp [hx])) (j + 1) (P * d) (Nat.mul_pos hP hd0)]
      rw [Nat.div_div_eq_div_mul, Nat.div_div_eq_div_mul, Option.map_map]
      congr 1
      funext h
      exact (shift_lift cur P d j h).symm


/-- the `while` loop with the relative scan -/
def hopsR (dq : Nat) (tri : List (Nat × Nat × Nat)) : Nat → Nat → Option (List Hop)
  | fuel, cq =>
    if cq = dq then some []
    else match fuel with
      | 0 => none
      | fuel + 1 =>
        match scanR cq dq tri with
        | none => none
        | some h => (hopsR dq tri fuel h.next).map (h :: ·)

theorem hopsR_done (dq : Nat) (tri : List (Nat × Nat × Nat)) (fuel : Nat) : hopsR dq tri fuel dq = some [] := by
  rw [hopsR.eq_def]; simp
theorem hopsR_zero (dq : Nat) (tri : List (Nat × Nat × Nat)) (cq : Nat) (h : cq ≠ dq) : hopsR dq tri 0 cq = none := by
  rw [hopsR]; simp [h]
theorem hopsR_succ (dq : Nat) (tri : List (Nat × Nat × Nat)) (n cq : Nat) (h : cq ≠ dq) :
    hopsR dq tri (n + 1) cq = match scanR cq dq tri with
      | none => none
      | some hh => (hopsR dq tri n hh.next).map (hh :: ·) := by
  rw [hopsR.eq_def]; simp only [h, if_false]
theorem hopsLoop_done (dq : Nat) (tri : List (Nat × Nat × Nat)) (fuel : Nat) : hopsLoop dq tri fuel dq = some [] := by
  rw [hopsLoop.eq_def]; simp
theorem hopsLoop_zero (dq : Nat) (tri : List (Nat × Nat × Nat)) (cq : Nat) (h : cq ≠ dq) : hopsLoop dq tri 0 cq = none := by
  rw [hopsLoop]; simp [h]
theorem hopsLoop_succ (dq : Nat) (tri : List (Nat × Nat × Nat)) (n cq : Nat) (h : cq ≠ dq) :
    hopsLoop dq tri (n + 1) cq = match scan cq dq 0 1 tri with
      | none => none
      | some hh => (hopsLoop dq tri n hh.next).map (hh :: ·) := by
  rw [hopsLoop.eq_def]; simp only [h, if_false]
  cases scan cq dq 0 1 tri <;> rfl

theorem shiftHop_id (h : Hop) : shiftHop 0 1 0 h = h := by
  cases h; simp [shiftHop]

theorem hopsLoop_eq_hopsR (dst : Nat) (tri : List (Nat × Nat × Nat)) (hd : ∀ x ∈ tri, 0 < x.1) :
    ∀ fuel cur, hopsLoop dst tri fuel cur = hopsR dst tri fuel cur := by
  have hs : ∀ cur, scan cur dst 0 1 tri = scanR cur dst tri := by
    intro cur
    rw [scan_eq cur dst tri hd 0 1 (by omega)]
    simp only [Nat.div_one, Nat.mod_one]
    have : shiftHop 0 1 0 = id := funext shiftHop_id
    rw [this]; simp
  intro fuel
  induction fuel with
  | zero =>
    intro cur
    by_cases hc : cur = dst
    · subst hc; rw [hopsLoop_done, hopsR_done]
    · rw [hopsLoop_zero _ _ _ hc, hopsR_zero _ _ _ hc]
  | succ n ih =>
    intro cur
    by_cases hc : cur = dst
    · subst hc; rw [hopsLoop_done, hopsR_done]
    · rw [hopsLoop_succ _ _ _ _ hc, hopsR_succ _ _ _ _ hc, hs]
      cases scanR cur dst tri with
      | none => rfl
      | some hh => simp only [ih]

theorem add_mul_mod_lt (r d x : Nat) (h : r < d) : (r + d * x) % d = r := by
  rw [Nat.add_mul_mod_self_left]; exact Nat.mod_eq_of_lt h
theorem add_mul_div_lt (r d x : Nat) (h : r < d) : (r + d * x) / d = x := by
  rw [Nat.add_mul_div_left _ _ (by omega : 0 < d), Nat.div_eq_of_lt h]; omega

/-- once dimension 0 agrees, the loop is the loop of the remaining dimensions, lifted -/
theorem hopsR_lift (d m t : Nat) (rest : List (Nat × Nat × Nat)) (dq : Nat) (hd : 0 < d) :
    ∀ fuel cq, cq % d = dq % d →
      hopsR dq ((d, m, t) :: rest) fuel cq
        = (hopsR (dq / d) rest fuel (cq / d)).map (List.map (liftHop (cq % d) d)) := by
  intro fuel
  induction fuel with
  | zero =>
    intro cq h
    have h1 := Nat.mod_add_div cq d
    have h2 := Nat.mod_add_div dq d
    by_cases hc : cq = dq
    · subst hc; simp [hopsR_done]
    · have : cq / d ≠ dq / d := by intro e; apply hc; rw [← h1, ← h2, h, e]
      rw [hopsR_zero _ _ _ hc, hopsR_zero _ _ _ this]; rfl
  | succ n ih =>
    intro cq h
    have h1 := Nat.mod_add_div cq d
    have h2 := Nat.mod_add_div dq d
    have hr : cq % d < d := Nat.mod_lt _ hd
    by_cases hc : cq = dq
    · subst hc; simp [hopsR_done]
    · have hne : cq / d ≠ dq / d := by intro e; apply hc; rw [← h1, ← h2, h, e]
      rw [hopsR_succ _ _ _ _ hc, hopsR_succ _ _ _ _ hne]
      simp only [scanR, h, ne_eq, not_true_eq_false, if_false]
      cases hsc : scanR (cq / d) (dq / d) rest with
      | none => simp
      | some hh =>
        simp only [Option.map_some, liftHop]
        rw [ih (dq % d + d * hh.next) (by rw [add_mul_mod_lt _ _ _ (h ▸ hr)])]
        rw [add_mul_div_lt _ _ _ (h ▸ hr), add_mul_mod_lt _ _ _ (h ▸ hr)]
        cases hopsR (dq / d) rest n hh.next <;> simp [liftHop]

def stepX (d : Nat) (right : Bool) (x : Nat) : Nat :=
  if right then (if x = d - 1 then 0 else x + 1) else (if x = 0 then d - 1 else x - 1)

/-- `k` hops along dimension 0 from digit `x`, the other digits being those of `hi` -/
def ringWalk (d : Nat) (right : Bool) (hi : Nat) : Nat → Nat → List Hop
  | 0, _ => []
  | k + 1, x => ⟨x + d * hi, stepX d right x + d * hi, 0, right⟩ :: ringWalk d right hi k (stepX d right x)

/-- number of +1 steps (mod d) from x to t -/
def distR (d x t : Nat) : Nat := if x ≤ t then t - x else t + d - x
/-- number of -1 steps (mod d) from x to t -/
def distL (d x t : Nat) : Nat := if t ≤ x then x - t else x + d - t
def dist (d : Nat) (right : Bool) (x t : Nat) : Nat := if right then distR d x t else distL d x t

theorem stepX_lt (d : Nat) (right : Bool) (x : Nat) (hd : 0 < d) (hx : x < d) : stepX d right x < d := by
  unfold stepX; cases right <;> simp <;> split <;> omega

theorem dist_step (d : Nat) (right : Bool) (x t k : Nat) (hx : x < d) (ht : t < d)
    (h : dist d right x t = k + 1) : x ≠ t ∧ dist d right (stepX d right x) t = k := by
  unfold dist distR distL stepX at *
  cases right <;> simp at * <;> (repeat' split at h) <;> (repeat' split) <;> omega

theorem dist_zero (d : Nat) (right : Bool) (x t : Nat) (hx : x < d) (ht : t < d)
    (h : dist d right x t = 0) : x = t := by
  unfold dist distR distL at *
  cases right <;> simp at * <;> (repeat' split at h) <;> omega

theorem hopsR_walk (d m t : Nat) (rest : List (Nat × Nat × Nat)) (dq hi : Nat) (hd : 0 < d)
    (ht : t = dq % d) (fuel : Nat) :
    ∀ k x, x < d → dist d (goRight m t d) x t = k →
      hopsR dq ((d, m, t) :: rest) (k + fuel) (x + d * hi)
        = (hopsR dq ((d, m, t) :: rest) fuel (t + d * hi)).map (ringWalk d (goRight m t d) hi k x ++ ·) := by
  have htd : t < d := by rw [ht]; exact Nat.mod_lt _ hd
  intro k
  induction k with
  | zero =>
    intro x hx hk
    have := dist_zero d _ x t hx htd hk
    subst this
    simp [ringWalk]
  | succ k ih =>
    intro x hx hk
    obtain ⟨hne, hk'⟩ := dist_step d _ x t k hx htd hk
    have hmod : (x + d * hi) % d = x := add_mul_mod_lt _ _ _ hx
    have hcq : x + d * hi ≠ dq := by
      intro e; apply hne; rw [ht, ← e, hmod]
    have hx' := stepX_lt d (goRight m t d) x hd hx
    rw [show k + 1 + fuel = (k + fuel) + 1 by omega, hopsR_succ _ _ _ _ hcq]
    simp only [scanR, hmod, ← ht, ne_eq, hne, not_false_eq_true, if_true]
    cases hgr : goRight m t d
    · have hn : (if x = 0 then x + d * hi + d - 1 else x + d * hi - 1) = stepX d false x + d * hi := by
        unfold stepX; simp; split <;> omega
      simp only [Bool.false_eq_true, if_false, hn]
      rw [hgr] at ih hx'
      rw [ih _ hx' (by rw [← hgr]; exact hk')]
      generalize hopsR dq ((d, m, t) :: rest) fuel (t + d * hi) = r
      cases r <;> simp [ringWalk]
    · have hn : (if x = d - 1 then x + d * hi + 1 - d else x + d * hi + 1) = stepX d true x + d * hi := by
        unfold stepX; simp; split <;> omega
      simp only [if_true, hn]
      rw [hgr] at ih hx'
      rw [ih _ hx' (by rw [← hgr]; exact hk')]
      generalize hopsR dq ((d, m, t) :: rest) fuel (t + d * hi) = r
      cases r <;> simp [ringWalk]

/-- closed description of the hops: dimension by dimension -/
def specR : List (Nat × Nat × Nat) → Nat → List Hop
  | [], _ => []
  | (d, m, t) :: rest, cq =>
    ringWalk d (goRight m t d) (cq / d) (dist d (goRight m t d) (cq % d) t) (cq % d)
      ++ (specR rest (cq / d)).map (liftHop t d)

def needed : List (Nat × Nat × Nat) → Nat → Nat
  | [], _ => 0
  | (d, m, t) :: rest, cq => dist d (goRight m t d) (cq % d) t + needed rest (cq / d)

/-- the triples carry positive sizes and the destination's coordinates -/
def TriOk : Nat → List (Nat × Nat × Nat) → Prop
  | _, [] => True
  | dq, (d, _, t) :: rest => 0 < d ∧ t = dq % d ∧ TriOk (dq / d) rest

/-- the triples carry the source's coordinates -/
def SrcOk : Nat → List (Nat × Nat × Nat) → Prop
  | _, [] => True
  | cq, (d, m, _) :: rest => m = cq % d ∧ SrcOk (cq / d) rest

def prodTri : List (Nat × Nat × Nat) → Nat
  | [] => 1
  | (d, _, _) :: rest => d * prodTri rest

theorem hopsR_spec : ∀ (tri : List (Nat × Nat × Nat)) (cq dq fuel : Nat), TriOk dq tri →
    cq < prodTri tri → dq < prodTri tri → needed tri cq ≤ fuel →
    hopsR dq tri fuel cq = some (specR tri cq) := by
  intro tri
  induction tri with
  | nil =>
    intro cq dq fuel _ h1 h2 _
    simp only [prodTri] at h1 h2
    have : cq = dq := by omega
    subst this; rw [hopsR_done]; simp [specR]
  | cons x rest ih =>
    obtain ⟨d, m, t⟩ := x
    intro cq dq fuel hok h1 h2 hf
    obtain ⟨hd, ht, hrest⟩ := hok
    simp only [prodTri] at h1 h2
    simp only [needed] at hf
    have hx : cq % d < d := Nat.mod_lt _ hd
    have htd : t < d := by rw [ht]; exact Nat.mod_lt _ hd
    have hcq : cq = cq % d + d * (cq / d) := (Nat.mod_add_div cq d).symm
    obtain ⟨fuel', hfuel⟩ : ∃ f', fuel = dist d (goRight m t d) (cq % d) t + f' :=
      ⟨fuel - dist d (goRight m t d) (cq % d) t, by omega⟩
    conv => lhs; rw [hcq, hfuel]
    rw [hopsR_walk d m t rest dq (cq / d) hd ht fuel' _ _ hx rfl]
    rw [hopsR_lift d m t rest dq hd fuel' _ (by rw [add_mul_mod_lt _ _ _ htd]; exact ht)]
    rw [add_mul_div_lt _ _ _ htd, add_mul_mod_lt _ _ _ htd]
    rw [ih (cq / d) (dq / d) fuel' hrest (Nat.div_lt_of_lt_mul h1) (Nat.div_lt_of_lt_mul h2) (by omega)]
    simp [specR]


/-! ### properties of the closed description -/

def digits : List Nat → Nat → List Nat
  | [], _ => []
  | d :: ds, c => c % d :: digits ds (c / d)

theorem coordsFrom_eq_digits (id : Nat) : ∀ (ds : List Nat) (P : Nat), coordsFrom id P ds = digits ds (id / P) := by
  intro ds
  induction ds with
  | nil => intro P; rfl
  | cons d ds ih => intro P; simp only [coordsFrom, digits, ih, Nat.div_div_eq_div_mul]

/-- one hop along dimension `j` on a coordinate vector -/
def moveAt : List Nat → List Nat → Nat → Bool → List Nat
  | d :: _, x :: xs, 0, up => stepX d up x :: xs
  | _ :: ds, x :: xs, j + 1, up => x :: moveAt ds xs j up
  | _, xs, _, _ => xs

def triDims (tri : List (Nat × Nat × Nat)) : List Nat := tri.map (·.1)

theorem mem_ringWalk (d : Nat) (right : Bool) (hi : Nat) (hd : 0 < d) : ∀ k x, x < d → ∀ h ∈ ringWalk d right hi k x,
    ∃ x', x' < d ∧ h = ⟨x' + d * hi, stepX d right x' + d * hi, 0, right⟩ := by
  intro k
  induction k with
  | zero => intro x _ h hm; simp [ringWalk] at hm
  | succ k ih =>
    intro x hx h hm
    simp only [ringWalk, List.mem_cons] at hm
    rcases hm with hm | hm
    · exact ⟨x, hx, hm⟩
    · exact ih _ (stepX_lt d right x hd hx) h hm

/-- **every hop changes exactly one coordinate, by one step (mod d) in the hop's direction** -/
theorem specR_moves : ∀ (tri : List (Nat × Nat × Nat)) (cq dq : Nat), TriOk dq tri →
    ∀ h ∈ specR tri cq, digits (triDims tri) h.next = moveAt (triDims tri) (digits (triDims tri) h.cur) h.dim h.up := by
  intro tri
  induction tri with
  | nil => intro cq dq _ h hm; simp [specR] at hm
  | cons x rest ih =>
    obtain ⟨d, m, t⟩ := x
    intro cq dq hok h hm
    obtain ⟨hd, ht, hrest⟩ := hok
    have htd : t < d := by rw [ht]; exact Nat.mod_lt _ hd
    simp only [specR, List.mem_append, List.mem_map] at hm
    rcases hm with hm | ⟨h', hm', rfl⟩
    · obtain ⟨x', hx', rfl⟩ := mem_ringWalk d _ _ hd _ _ (Nat.mod_lt _ hd) h hm
      have := stepX_lt d (goRight m t d) x' hd hx'
      simp only [triDims, List.map_cons, digits, moveAt, add_mul_mod_lt _ _ _ hx', add_mul_div_lt _ _ _ hx',
        add_mul_mod_lt _ _ _ this, add_mul_div_lt _ _ _ this]
    · have := ih (cq / d) (dq / d) hrest h' hm'
      simp only [triDims] at this
      simp only [triDims, List.map_cons, digits, liftHop, moveAt, add_mul_mod_lt _ _ _ htd, add_mul_div_lt _ _ _ htd, this]

theorem ringWalk_dims (d : Nat) (right : Bool) (hi : Nat) : ∀ k x, ∀ h ∈ ringWalk d right hi k x, h.dim = 0 ∧ h.up = right := by
  intro k
  induction k with
  | zero => intro x h hm; simp [ringWalk] at hm
  | succ k ih =>
    intro x h hm
    simp only [ringWalk, List.mem_cons] at hm
    rcases hm with hm | hm
    · subst hm; simp
    · exact ih _ h hm

theorem ringWalk_length (d : Nat) (right : Bool) (hi : Nat) : ∀ k x, (ringWalk d right hi k x).length = k := by
  intro k; induction k with
  | zero => intro x; rfl
  | succ k ih => intro x; simp [ringWalk, ih]

/-- **dimension order**: the hops' dimensions never decrease -/
theorem specR_sorted : ∀ (tri : List (Nat × Nat × Nat)) (cq : Nat),
    ((specR tri cq).map (·.dim)).Pairwise (· ≤ ·) := by
  intro tri
  induction tri with
  | nil => intro cq; simp [specR]
  | cons x rest ih =>
    obtain ⟨d, m, t⟩ := x
    intro cq
    simp only [specR, List.map_append, List.map_map, List.pairwise_append]
    refine ⟨?_, ?_, ?_⟩
    · rw [List.pairwise_map]
      apply List.Pairwise.imp_of_mem (R := fun _ _ => True)
      · intro a b ha hb _
        rw [(ringWalk_dims _ _ _ _ _ a ha).1, (ringWalk_dims _ _ _ _ _ b hb).1]; exact Nat.le_refl 0
      · exact List.pairwise_of_forall (by intros; trivial)
    · have := ih (cq / d)
      rw [List.pairwise_map] at this ⊢
      exact this.imp (by intro a b hab; simp only [Function.comp, liftHop]; omega)
    · intro a ha b _
      simp only [List.mem_map] at ha
      obtain ⟨h, hm, rfl⟩ := ha
      rw [(ringWalk_dims _ _ _ _ _ h hm).1]; exact Nat.zero_le _

def distList (tri : List (Nat × Nat × Nat)) : List Nat := tri.map (fun x => dist x.1 (goRight x.2.1 x.2.2 x.1) x.2.1 x.2.2)

/-- number of hops along dimension `j` -/
theorem specR_count : ∀ (tri : List (Nat × Nat × Nat)) (cq : Nat), SrcOk cq tri → ∀ j,
    ((specR tri cq).filter (fun h => h.dim == j)).length = (distList tri).getD j 0 := by
  intro tri
  induction tri with
  | nil => intro cq _ j; simp [specR, distList]
  | cons x rest ih =>
    obtain ⟨d, m, t⟩ := x
    intro cq hs j
    obtain ⟨hm, hrest⟩ := hs
    simp only [specR, List.filter_append, List.length_append, distList, List.map_cons]
    cases j with
    | zero =>
      have h1 : (ringWalk d (goRight m t d) (cq / d) (dist d (goRight m t d) (cq % d) t) (cq % d)).filter (fun h => h.dim == 0)
          = ringWalk d (goRight m t d) (cq / d) (dist d (goRight m t d) (cq % d) t) (cq % d) := by
        apply List.filter_eq_self.mpr
        intro a ha; simp [(ringWalk_dims _ _ _ _ _ a ha).1]
      have h2 : ((specR rest (cq / d)).map (liftHop t d)).filter (fun h => h.dim == 0) = [] := by
        apply List.filter_eq_nil_iff.mpr
        intro a ha; simp only [List.mem_map] at ha; obtain ⟨h, _, rfl⟩ := ha; simp [liftHop]
      rw [h1, h2, ringWalk_length, hm]; simp
    | succ j =>
      have h1 : (ringWalk d (goRight m t d) (cq / d) (dist d (goRight m t d) (cq % d) t) (cq % d)).filter (fun h => h.dim == j + 1) = [] := by
        apply List.filter_eq_nil_iff.mpr
        intro a ha; simp [(ringWalk_dims _ _ _ _ _ a ha).1]
      have h2 : (((specR rest (cq / d)).map (liftHop t d)).filter (fun h => h.dim == j + 1)).length
          = ((specR rest (cq / d)).filter (fun h => h.dim == j)).length := by
        rw [List.filter_map, List.length_map]
        congr 1
        apply List.filter_congr
        intro a _
        simp [liftHop]
      rw [h1, h2, ih (cq / d) hrest j]; simp [distList]

theorem specR_length : ∀ (tri : List (Nat × Nat × Nat)) (cq : Nat), SrcOk cq tri →
    (specR tri cq).length = (distList tri).sum := by
  intro tri
  induction tri with
  | nil => intro cq _; simp [specR, distList]
  | cons x rest ih =>
    obtain ⟨d, m, t⟩ := x
    intro cq hs
    obtain ⟨hm, hrest⟩ := hs
    simp only [specR, List.length_append, List.length_map, ringWalk_length, distList, List.map_cons, List.sum_cons]
    rw [ih (cq / d) hrest, hm]; rfl

/-- the direction of every hop is the one `goRight` chose for its dimension from the SOURCE and target coordinates -/
theorem specR_dir : ∀ (tri : List (Nat × Nat × Nat)) (cq : Nat), ∀ h ∈ specR tri cq,
    ∃ x, tri[h.dim]? = some x ∧ h.up = goRight x.2.1 x.2.2 x.1 := by
  intro tri
  induction tri with
  | nil => intro cq h hm; simp [specR] at hm
  | cons x rest ih =>
    obtain ⟨d, m, t⟩ := x
    intro cq h hm
    simp only [specR, List.mem_append, List.mem_map] at hm
    rcases hm with hm | ⟨h', hm', rfl⟩
    · obtain ⟨h1, h2⟩ := ringWalk_dims _ _ _ _ _ h hm
      exact ⟨(d, m, t), by simp [h1], h2⟩
    · obtain ⟨x, hx1, hx2⟩ := ih (cq / d) h' hm'
      exact ⟨x, by simp [liftHop, hx1], hx2⟩

/-- consecutive hops: `a → ... → b` -/
def Chain : Nat → List Hop → Nat → Prop
  | a, [], b => a = b
  | a, h :: hs, b => h.cur = a ∧ Chain h.next hs b

theorem chain_append : ∀ (l1 l2 : List Hop) (a b c : Nat), Chain a l1 b → Chain b l2 c → Chain a (l1 ++ l2) c := by
  intro l1
  induction l1 with
  | nil => intro l2 a b c h1 h2; simp only [Chain] at h1; subst h1; exact h2
  | cons h hs ih => intro l2 a b c h1 h2; exact ⟨h1.1, ih l2 _ _ _ h1.2 h2⟩

theorem chain_lift (r d : Nat) : ∀ (l : List Hop) (a b : Nat), Chain a l b → Chain (r + d * a) (l.map (liftHop r d)) (r + d * b) := by
  intro l
  induction l with
  | nil => intro a b h; simp only [Chain] at h; subst h; rfl
  | cons h hs ih =>
    intro a b hc
    obtain ⟨h1, h2⟩ := hc
    exact ⟨by simp [liftHop, h1], ih _ _ h2⟩

theorem chain_ringWalk (d : Nat) (right : Bool) (hi t : Nat) (ht : t < d) : ∀ k x, x < d → dist d right x t = k →
    Chain (x + d * hi) (ringWalk d right hi k x) (t + d * hi) := by
  intro k
  induction k with
  | zero => intro x hx hk; have := dist_zero d right x t hx ht hk; subst this; rfl
  | succ k ih =>
    intro x hx hk
    obtain ⟨_, hk'⟩ := dist_step d right x t k hx ht hk
    exact ⟨rfl, ih _ (stepX_lt d right x (by omega) hx) hk'⟩

/-- **reaches the destination**: the hops form a chain from the source to the destination -/
theorem specR_chain : ∀ (tri : List (Nat × Nat × Nat)) (cq dq : Nat), TriOk dq tri →
    cq < prodTri tri → dq < prodTri tri → Chain cq (specR tri cq) dq := by
  intro tri
  induction tri with
  | nil => intro cq dq _ h1 h2; simp only [prodTri] at h1 h2; simp only [specR, Chain]; omega
  | cons x rest ih =>
    obtain ⟨d, m, t⟩ := x
    intro cq dq hok h1 h2
    obtain ⟨hd, ht, hrest⟩ := hok
    simp only [prodTri] at h1 h2
    have htd : t < d := by rw [ht]; exact Nat.mod_lt _ hd
    have hcq : cq = cq % d + d * (cq / d) := (Nat.mod_add_div cq d).symm
    have hdq : dq = t + d * (dq / d) := by rw [ht]; exact (Nat.mod_add_div dq d).symm
    simp only [specR]
    apply chain_append _ _ cq (t + d * (cq / d)) dq
    · have := chain_ringWalk d (goRight m t d) (cq / d) t htd _ _ (Nat.mod_lt cq hd) rfl
      rw [← hcq] at this; exact this
    · conv => rhs; rw [hdq]
      exact chain_lift t d _ _ _ (ih (cq / d) (dq / d) hrest (Nat.div_lt_of_lt_mul h1) (Nat.div_lt_of_lt_mul h2))

/-! ### the direction rule -/

theorem goRight_iff (d m t : Nat) (hm : m < d) (ht : t < d) (hne : m ≠ t) :
    goRight m t d = true ↔ (distR d m t ≤ d / 2 ∧ ¬ (t = 0 ∧ 2 * m = d)) := by
  unfold goRight distR
  by_cases h : m > d / 2
  · have h1 : (m + d / 2) % d = m + d / 2 - d := by
      rw [Nat.mod_eq_sub_mod (by omega), Nat.mod_eq_of_lt (by omega)]
    simp only [h1, Bool.or_eq_true, Bool.and_eq_true, decide_eq_true_eq]
    split <;> omega
  · simp only [Bool.or_eq_true, Bool.and_eq_true, decide_eq_true_eq]
    split <;> omega

/-- **shorter way**: the number of hops chosen for a dimension is `min(f, d - f)`, `f` the forward distance -/
theorem dist_goRight_min (d m t : Nat) (hm : m < d) (ht : t < d) :
    dist d (goRight m t d) m t = min (distR d m t) (d - distR d m t) := by
  by_cases hne : m = t
  · subst hne; unfold dist distR distL; simp
  · have h := goRight_iff d m t hm ht hne
    unfold dist
    cases hg : goRight m t d
    · rw [hg] at h
      simp only [Bool.false_eq_true, if_false, false_iff] at h ⊢
      unfold distR distL at *
      (repeat' split) <;> (repeat' split at h) <;> omega
    · rw [hg] at h
      simp only [true_iff, if_true] at h ⊢
      unfold distR at *
      (repeat' split) <;> (repeat' split at h) <;> omega

def minList (tri : List (Nat × Nat × Nat)) : List Nat :=
  tri.map (fun x => min (distR x.1 x.2.1 x.2.2) (x.1 - distR x.1 x.2.1 x.2.2))

theorem distList_eq_minList : ∀ (tri : List (Nat × Nat × Nat)) (cq dq : Nat), TriOk dq tri → SrcOk cq tri →
    distList tri = minList tri := by
  intro tri
  induction tri with
  | nil => intros; rfl
  | cons x rest ih =>
    obtain ⟨d, m, t⟩ := x
    intro cq dq hok hs
    obtain ⟨hd, ht, hrest⟩ := hok
    obtain ⟨hm, hsrest⟩ := hs
    simp only [distList, minList, List.map_cons] at *
    rw [ih (cq / d) (dq / d) hrest hsrest]
    rw [dist_goRight_min d m t (by rw [hm]; exact Nat.mod_lt _ hd) (by rw [ht]; exact Nat.mod_lt _ hd)]

/-! ### from `Torus.hops` to the closed description -/

theorem tri_props (src dst : Nat) : ∀ (ds : List Nat) (P : Nat), (∀ d ∈ ds, 0 < d) →
    let tri := zip3 ds (coordsFrom src P ds) (coordsFrom dst P ds)
    TriOk (dst / P) tri ∧ SrcOk (src / P) tri ∧ prodTri tri = prod ds ∧ (∀ x ∈ tri, 0 < x.1) ∧ triDims tri = ds := by
  intro ds
  induction ds with
  | nil => intro P _; simp [zip3, TriOk, SrcOk, prodTri, prod, triDims]
  | cons d ds ih =>
    intro P hpos
    have hd : 0 < d := hpos d (by simp)
    obtain ⟨h1, h2, h3, h4, h5⟩ := ih (P * d) (fun x hx => hpos x (by simp [hx]))
    simp only [coordsFrom, zip3, TriOk, SrcOk, prodTri, prod, Nat.div_div_eq_div_mul, triDims, List.map_cons] at *
    refine ⟨⟨hd, trivial, h1⟩, ⟨trivial, h2⟩, by rw [h3], ?_, by rw [h5]⟩
    intro x hx
    simp only [List.mem_cons] at hx
    rcases hx with hx | hx
    · subst hx; exact hd
    · exact h4 x hx

theorem needed_lt_prod : ∀ (tri : List (Nat × Nat × Nat)) (cq dq : Nat), TriOk dq tri → needed tri cq + 1 ≤ prodTri tri := by
  intro tri
  induction tri with
  | nil => intro cq dq _; simp [needed, prodTri]
  | cons x rest ih =>
    obtain ⟨d, m, t⟩ := x
    intro cq dq hok
    obtain ⟨hd, ht, hrest⟩ := hok
    have htd : t < d := by rw [ht]; exact Nat.mod_lt _ hd
    have hx : cq % d < d := Nat.mod_lt _ hd
    have h1 := ih (cq / d) (dq / d) hrest
    have h2 : dist d (goRight m t d) (cq % d) t ≤ d - 1 := by
      unfold dist distR distL; (repeat' split) <;> omega
    simp only [needed, prodTri]
    have h3 : (d - 1) * 1 ≤ (d - 1) * prodTri rest := Nat.mul_le_mul_left _ (by omega)
    have h4 : d * prodTri rest = (d - 1) * prodTri rest + prodTri rest := by
      conv => lhs; rw [show d = (d - 1) + 1 by omega, Nat.add_mul, Nat.one_mul]
    omega

end SgVerif.C26
