import SgVerif.C26.FatTreeSpec
/-!
C26 — fat tree: lemmas for `fattree_*` (Props.lean).

The routing loops of `FatTreeZone::get_local_route` (`upLoop`, `downFor` — the inner `for` WITHOUT break —, `downLoop`)
are analysed over any table that is well formed in the sense of `FTables.WF` (Prop form of the executable
`FTables.wfCheck`): for every fat-tree parameters (levels, fan-outs, multiplicities, static offsets), no bound.
-/
namespace SgVerif.C26

/-- well-formed parameters (Prop form of `FatTree.paramsOk`) -/
def FatTree.WF (f : FatTree) : Prop :=
  0 < f.levels ∧ ∀ i, i < f.levels → 0 < f.down.getD i 0 ∧ 0 < f.up.getD i 0 ∧ 0 < f.count.getD i 0

/-- label `pn` = label `cn` with digit `pos` replaced by `v` -/
def LabelSet (levels : Nat) (pn cn : List Nat) (pos v : Nat) : Prop :=
  ∀ j, j < levels → pn.getD j 0 = if j = pos then v else cn.getD j 0

/-- labels agree on the digits `lo <= j < levels` -/
def AgreeFrom (levels : Nat) (a b : List Nat) (lo : Nat) : Prop :=
  ∀ j, lo ≤ j → j < levels → a.getD j 0 = b.getD j 0

/-- Prop form of `FTables.wfCheck` -/
structure FTables.WF (f : FatTree) (t : FTables) : Prop where
  level_le : ∀ (c : Nat) (cn : FNode), t.nodes[c]? = some cn → cn.level ≤ f.levels
  up : ∀ (c : Nat) (cn : FNode), t.nodes[c]? = some cn → cn.level < f.levels →
    ∀ port, port < f.up.getD cn.level 0 * f.count.getD cn.level 0 →
      ∃ (l : FLink) (pn : FNode), t.parentAt c port = some l ∧ l.child = c ∧ t.nodes[l.parent]? = some pn ∧ pn.level = cn.level + 1 ∧
        LabelSet f.levels pn.label cn.label cn.level (port % f.up.getD cn.level 0)
  down : ∀ (c : Nat) (cn : FNode), t.nodes[c]? = some cn → cn.level ≠ 0 →
    ∀ port, port < f.down.getD (cn.level - 1) 0 * f.count.getD (cn.level - 1) 0 →
      ∃ (l : FLink) (ch : FNode), t.childAt c port = some l ∧ l.parent = c ∧ t.nodes[l.child]? = some ch ∧ ch.level + 1 = cn.level ∧
        LabelSet f.levels ch.label cn.label (cn.level - 1) (port % f.down.getD (cn.level - 1) 0)
  leaf_lt : ∀ (c : Nat) (cn : FNode), t.nodes[c]? = some cn → cn.level = 0 → ∀ j, j < f.levels → cn.label.getD j 0 < f.down.getD j 0
  leaf_inj : ∀ (c : Nat) (cn : FNode) (c2 : Nat) (cn2 : FNode), t.nodes[c]? = some cn → t.nodes[c2]? = some cn2 → cn.level = 0 → cn2.level = 0 →
    AgreeFrom f.levels cn.label cn2.label 0 → c2 = c

theorem paramsOk_sound (f : FatTree) (h : f.paramsOk = true) : f.WF := by
  unfold FatTree.paramsOk at h
  simp only [Bool.and_eq_true, decide_eq_true_eq, List.all_eq_true, List.mem_range] at h
  exact ⟨h.1, fun i hi => ⟨(h.2 i hi).1.1, (h.2 i hi).1.2, (h.2 i hi).2⟩⟩

theorem labelSet_sound {L : Nat} {pn cn : List Nat} {pos v : Nat} (h : labelSet L pn cn pos v = true) :
    LabelSet L pn cn pos v := by
  unfold labelSet at h
  simp only [List.all_eq_true, List.mem_range, beq_iff_eq] at h
  exact h

theorem agreeFrom_sound {L : Nat} {a b : List Nat} {lo : Nat} (h : agreeFrom L a b lo = true) : AgreeFrom L a b lo := by
  unfold agreeFrom at h
  simp only [List.all_eq_true, List.mem_range, Bool.or_eq_true, decide_eq_true_eq, beq_iff_eq] at h
  intro j hlo hj
  rcases h j hj with h | h
  · omega
  · exact h

theorem agreeFrom_complete {L : Nat} {a b : List Nat} {lo : Nat} (h : AgreeFrom L a b lo) : agreeFrom L a b lo = true := by
  unfold agreeFrom
  simp only [List.all_eq_true, List.mem_range, Bool.or_eq_true, decide_eq_true_eq, beq_iff_eq]
  intro j hj
  by_cases hlo : j < lo
  · exact Or.inl hlo
  · exact Or.inr (h j (by omega) hj)

theorem getElem?_lt_length {α : Type} {l : List α} {i : Nat} {a : α} (h : l[i]? = some a) : i < l.length := by
  rcases Nat.lt_or_ge i l.length with h' | h'
  · exact h'
  · rw [List.getElem?_eq_none h'] at h; cases h

/-- per-node body of `wfCheck`, extracted -/
theorem wfCheck_node (f : FatTree) (t : FTables) (h : t.wfCheck f = true) (c : Nat) (cn : FNode)
    (hc : t.nodes[c]? = some cn) :
    cn.level ≤ f.levels ∧
    (f.levels ≤ cn.level ∨ ∀ port, port < f.up.getD cn.level 0 * f.count.getD cn.level 0 → t.upPortOk f c cn port = true) ∧
    (cn.level = 0 ∨ ∀ port, port < f.down.getD (cn.level - 1) 0 * f.count.getD (cn.level - 1) 0 →
      t.downPortOk f c cn port = true) ∧
    (cn.level ≠ 0 ∨ ((∀ j, j < f.levels → cn.label.getD j 0 < f.down.getD j 0) ∧
      ∀ c2, c2 < t.nodes.length → t.leafPairOk f c cn c2 = true)) := by
  unfold FTables.wfCheck at h
  rw [List.all_eq_true] at h
  have h1 := h c (List.mem_range.mpr (getElem?_lt_length hc))
  simp only [hc] at h1
  unfold FTables.nodeOk at h1
  simpa only [Bool.and_eq_true, Bool.or_eq_true, decide_eq_true_eq, List.all_eq_true, List.mem_range, and_assoc] using h1

/-- **the executable check implies the Prop-level well-formedness** -/
theorem FTables.wfCheck_sound (f : FatTree) (t : FTables) (h : t.wfCheck f = true) : t.WF f := by
  refine ⟨?_, ?_, ?_, ?_, ?_⟩
  · intro c cn hc
    exact (wfCheck_node f t h c cn hc).1
  · intro c cn hc hlev port hport
    rcases (wfCheck_node f t h c cn hc).2.1 with h1 | h1
    · omega
    · have h2 := h1 port hport
      unfold FTables.upPortOk at h2
      split at h2
      · cases h2
      · rename_i l hl
        simp only [Bool.and_eq_true, beq_iff_eq] at h2
        obtain ⟨hch, h3⟩ := h2
        split at h3
        · cases h3
        · rename_i pn hpn
          simp only [Bool.and_eq_true, beq_iff_eq] at h3
          exact ⟨l, pn, hl, hch, hpn, h3.1, labelSet_sound h3.2⟩
  · intro c cn hc hlev port hport
    rcases (wfCheck_node f t h c cn hc).2.2.1 with h1 | h1
    · omega
    · have h2 := h1 port hport
      unfold FTables.downPortOk at h2
      split at h2
      · cases h2
      · rename_i l hl
        simp only [Bool.and_eq_true, beq_iff_eq] at h2
        obtain ⟨hch, h3⟩ := h2
        split at h3
        · cases h3
        · rename_i ch hchn
          simp only [Bool.and_eq_true, beq_iff_eq] at h3
          exact ⟨l, ch, hl, hch, hchn, h3.1, labelSet_sound h3.2⟩
  · intro c cn hc hlev
    rcases (wfCheck_node f t h c cn hc).2.2.2 with h1 | h1
    · omega
    · exact h1.1
  · intro c cn c2 cn2 hc hc2 hlev hlev2 hag
    rcases (wfCheck_node f t h c cn hc).2.2.2 with h1 | h1
    · omega
    · have h2 := h1.2 c2 (getElem?_lt_length hc2)
      unfold FTables.leafPairOk at h2
      simp only [hc2, Bool.or_eq_true, decide_eq_true_eq, Bool.not_eq_true', beq_iff_eq] at h2
      rcases h2 with (h2 | h2) | h2
      · omega
      · rw [agreeFrom_complete hag] at h2; cases h2
      · exact h2

/-! ### `is_in_sub_tree` for a leaf -/

theorem isInSubTree_leaf (L : Nat) (root node : FNode) (h0 : node.level = 0) :
    isInSubTree L root node = true ↔ 0 < root.level ∧ AgreeFrom L root.label node.label root.level := by
  unfold isInSubTree AgreeFrom
  rw [h0]
  by_cases hr : root.level = 0
  · simp [hr]
  · have hr' : ¬ root.level ≤ 0 := by omega
    simp only [hr', if_false, List.range_zero, List.all_nil, Bool.true_and, List.all_eq_true, List.mem_range, beq_iff_eq]
    constructor
    · intro h
      refine ⟨by omega, ?_⟩
      intro j hj hjL
      have h1 := h (j - root.level) (by omega)
      rwa [show root.level + (j - root.level) = j by omega] at h1
    · rintro ⟨_, h⟩ k hk
      exact h _ (by omega) (by omega)

/-! ### paths in the tree -/

/-- `ls` are tree edges stored in the `parents` arrays, each leaving (upwards) from the node the previous one arrived at -/
def UpPath (t : FTables) : Nat → List FLink → Nat → Prop
  | a, [], b => a = b
  | a, l :: ls, b => l.child = a ∧ (∃ port, t.parentAt a port = some l) ∧ UpPath t l.parent ls b

/-- `ls` are tree edges stored in the `children` arrays, each leaving (downwards) from the node the previous one arrived at -/
def DownPath (t : FTables) : Nat → List FLink → Nat → Prop
  | a, [], b => a = b
  | a, l :: ls, b => l.parent = a ∧ (∃ port, t.childAt a port = some l) ∧ DownPath t l.child ls b

theorem DownPath_append (t : FTables) : ∀ (l1 : List FLink) (a b c : Nat) (l2 : List FLink),
    DownPath t a l1 b → DownPath t b l2 c → DownPath t a (l1 ++ l2) c := by
  intro l1
  induction l1 with
  | nil => intro a b c l2 h1 h2; simp only [DownPath] at h1; subst h1; simpa using h2
  | cons l ls ih =>
    intro a b c l2 h1 h2
    simp only [DownPath] at h1
    simp only [List.cons_append, DownPath]
    exact ⟨h1.1, h1.2.1, ih _ _ _ _ h1.2.2 h2⟩

theorem renderDown_append (f : FatTree) (t : FTables) : ∀ (l1 l2 : List FLink) (r1 r2 : List FTLink),
    f.renderDown t l1 = some r1 → f.renderDown t l2 = some r2 → f.renderDown t (l1 ++ l2) = some (r1 ++ r2) := by
  intro l1
  induction l1 with
  | nil => intro l2 r1 r2 h1 h2; simp only [FatTree.renderDown, Option.some.injEq] at h1; subst h1; simpa using h2
  | cons l ls ih =>
    intro l2 r1 r2 h1 h2
    simp only [FatTree.renderDown] at h1
    split at h1
    · rename_i pn c r hpn hc hr
      simp only [Option.some.injEq] at h1
      subst h1
      simp only [List.cons_append, FatTree.renderDown, hpn, hc, ih l2 r r2 hr h2, List.append_assoc]
    · cases h1

/-! ### the up loop -/

theorem upLoop_spec (f : FatTree) (t : FTables) (hf : f.WF) (hwf : t.WF f) (s d : FNode) (hd0 : d.level = 0) (k : Nat)
    (hkL : k ≤ f.levels) (hagree : AgreeFrom f.levels s.label d.label k)
    (hdiff : 1 < k → s.label.getD (k - 1) 0 ≠ d.label.getD (k - 1) 0) :
    ∀ (n fuel cur : Nat) (cn : FNode) (acc : List FTLink),
      t.nodes[cur]? = some cn → AgreeFrom f.levels cn.label s.label cn.level → cn.level + n = k → 1 ≤ k → n ≤ fuel →
      ∃ ups ru top tn, f.renderUp t ups = some ru ∧ f.upLoop t d fuel cur acc = some (top, acc ++ ru) ∧ ups.length = n ∧
        UpPath t cur ups top ∧ t.nodes[top]? = some tn ∧ tn.level = k ∧ AgreeFrom f.levels tn.label d.label k := by
  intro n
  induction n with
  | zero =>
    intro fuel cur cn acc hc hag hlev hk1 _
    have hin : isInSubTree f.levels cn d = true := by
      rw [isInSubTree_leaf _ _ _ hd0]
      refine ⟨by omega, ?_⟩
      intro j hj hjL
      rw [hag j hj hjL]; exact hagree j (by omega) hjL
    refine ⟨[], [], cur, cn, rfl, ?_, rfl, rfl, hc, by omega, ?_⟩
    · unfold FatTree.upLoop
      simp only [hc, hin, if_true, List.append_nil]
    · intro j hj hjL; rw [hag j (by omega) hjL]; exact hagree j hj hjL
  | succ n ih =>
    intro fuel cur cn acc hc hag hlev hk1 hfuel
    have hnot : isInSubTree f.levels cn d = false := by
      rw [Bool.eq_false_iff]
      intro h
      rw [isInSubTree_leaf _ _ _ hd0] at h
      obtain ⟨hpos, ha⟩ := h
      have h1 := ha (k - 1) (by omega) (by omega)
      rw [hag (k - 1) (by omega) (by omega)] at h1
      exact hdiff (by omega) h1
    cases fuel with
    | zero => omega
    | succ fuel =>
      have hlt : cn.level < f.levels := by omega
      have hkk : 0 < f.up.getD cn.level 0 * f.count.getD cn.level 0 :=
        Nat.mul_pos (hf.2 _ hlt).2.1 (hf.2 _ hlt).2.2
      obtain ⟨l, pn, hpa, hlc, hpn, hplev, hplab⟩ := hwf.up cur cn hc hlt
        ((List.range cn.level).foldl (fun d i => d / f.up.getD i 0) d.position %
          (f.up.getD cn.level 0 * f.count.getD cn.level 0)) (Nat.mod_lt _ hkk)
      have hcable : FatTree.cable t l true = some (.cable cn.id pn.id l.uid true) := by
        unfold FatTree.cable
        rw [hlc, hc, hpn]
      have hag' : AgreeFrom f.levels pn.label s.label pn.level := by
        intro j hj hjL
        rw [hplab j hjL, if_neg (by omega)]
        exact hag j (by omega) hjL
      obtain ⟨ups, ru, top, tn, h1, h2, h3, h4, h5, h6, h7⟩ :=
        ih fuel l.parent pn (acc ++ f.limiterOf cn ++ [.cable cn.id pn.id l.uid true]) hpn hag' (by omega) hk1 (by omega)
      refine ⟨l :: ups, f.limiterOf cn ++ [.cable cn.id pn.id l.uid true] ++ ru, top, tn, ?_, ?_, by simp [h3], ?_, h5, h6, h7⟩
      · simp only [FatTree.renderUp, hlc, hc, hcable, h1]
      · unfold FatTree.upLoop
        simp only [hc, hnot, hpa, hcable, Bool.false_eq_true, if_false]
        rw [h2]; simp only [List.append_assoc]
      · exact ⟨hlc, ⟨_, hpa⟩, h4⟩

/-! ### the inner `for` of the down part -/

theorem childrenSize_pos {f : FatTree} {cn : FNode} {i : Nat} (hi : i < f.childrenSize cn) :
    cn.level ≠ 0 ∧ i < f.down.getD (cn.level - 1) 0 * f.count.getD (cn.level - 1) 0 := by
  unfold FatTree.childrenSize at hi
  split at hi
  · omega
  · rename_i h; exact ⟨h, hi⟩

theorem downFor_stop (f : FatTree) (t : FTables) (d : FNode) (fuel cur i : Nat) (acc : List FTLink) (cn : FNode)
    (hc : t.nodes[cur]? = some cn) (hi : ¬ i < f.childrenSize cn) :
    f.downFor t d (fuel + 1) cur i acc = some (cur, acc) := by
  unfold FatTree.downFor
  simp only [hc, hi, if_false]

theorem downFor_nomatch (f : FatTree) (t : FTables) (d : FNode) (fuel cur i : Nat) (acc : List FTLink) (cn : FNode)
    (hc : t.nodes[cur]? = some cn) (hi : i < f.childrenSize cn)
    (hm : i % f.down.getD (cn.level - 1) 0 ≠ d.label.getD (cn.level - 1) 0) :
    f.downFor t d (fuel + 1) cur i acc = f.downFor t d fuel cur (i + 1) acc := by
  rw [FatTree.downFor]
  have hm' : (i % f.down.getD (cn.level - 1) 0 == d.label.getD (cn.level - 1) 0) = false := by
    rw [beq_eq_false_iff_ne]; exact hm
  simp only [hc, hi, if_true, hm', Bool.false_eq_true, if_false]

theorem downFor_match (f : FatTree) (t : FTables) (hwf : t.WF f) (d : FNode) (fuel cur i : Nat) (acc : List FTLink)
    (cn : FNode) (hc : t.nodes[cur]? = some cn) (hi : i < f.childrenSize cn)
    (hag : AgreeFrom f.levels cn.label d.label cn.level)
    (hm : i % f.down.getD (cn.level - 1) 0 = d.label.getD (cn.level - 1) 0) :
    ∃ l ch, t.childAt cur i = some l ∧ l.parent = cur ∧ t.nodes[l.child]? = some ch ∧ ch.level + 1 = cn.level ∧
      AgreeFrom f.levels ch.label d.label ch.level ∧
      FatTree.cable t l false = some (.cable ch.id cn.id l.uid false) ∧
      f.downFor t d (fuel + 1) cur i acc =
        f.downFor t d fuel l.child (i + 1) (acc ++ [.cable ch.id cn.id l.uid false] ++ f.limiterOf cn) := by
  obtain ⟨hne, hi'⟩ := childrenSize_pos hi
  obtain ⟨l, ch, hca, hlp, hch, hlev, hlab⟩ := hwf.down cur cn hc hne i hi'
  have hcable : FatTree.cable t l false = some (.cable ch.id cn.id l.uid false) := by
    unfold FatTree.cable
    rw [hlp, hc, hch]
  refine ⟨l, ch, hca, hlp, hch, hlev, ?_, hcable, ?_⟩
  · intro j hj hjL
    rw [hlab j hjL]
    by_cases hjj : j = cn.level - 1
    · rw [if_pos hjj, hjj]; exact hm
    · rw [if_neg hjj]; exact hag j (by omega) hjL
  · rw [FatTree.downFor]
    have hm' : (i % f.down.getD (cn.level - 1) 0 == d.label.getD (cn.level - 1) 0) = true := by
      rw [beq_iff_eq]; exact hm
    simp only [hc, hi, if_true, hm', hca, hcable]

/-- the `for` from any `i`: it ends (fuel: `i` only grows, every `children.size()` is at most `S`) on a node reached by
going down along tree edges towards the destination -/
theorem downFor_spec (f : FatTree) (t : FTables) (hwf : t.WF f) (d : FNode) (S : Nat)
    (hS : ∀ i, i < f.levels → f.down.getD i 0 * f.count.getD i 0 ≤ S) :
    ∀ (fuel cur i : Nat) (cn : FNode) (acc : List FTLink),
      t.nodes[cur]? = some cn → AgreeFrom f.levels cn.label d.label cn.level → 1 ≤ fuel → S + 2 ≤ fuel + i →
      ∃ downs rd cur' cn', f.renderDown t downs = some rd ∧ f.downFor t d fuel cur i acc = some (cur', acc ++ rd) ∧
        DownPath t cur downs cur' ∧ t.nodes[cur']? = some cn' ∧ cn'.level + downs.length = cn.level ∧
        AgreeFrom f.levels cn'.label d.label cn'.level := by
  intro fuel
  induction fuel with
  | zero => intro cur i cn acc _ _ h; omega
  | succ fuel ih =>
    intro cur i cn acc hc hag _ hfuel
    by_cases hi : i < f.childrenSize cn
    · obtain ⟨hne, hi'⟩ := childrenSize_pos hi
      have hle := hS (cn.level - 1) (by have := hwf.level_le cur cn hc; omega)
      by_cases hm : i % f.down.getD (cn.level - 1) 0 = d.label.getD (cn.level - 1) 0
      · obtain ⟨l, ch, hca, hlp, hch, hlev, hag', hcable, heq⟩ := downFor_match f t hwf d fuel cur i acc cn hc hi hag hm
        obtain ⟨downs, rd, cur', cn', h1, h2, h3, h4, h5, h6⟩ :=
          ih l.child (i + 1) ch (acc ++ [.cable ch.id cn.id l.uid false] ++ f.limiterOf cn) hch hag' (by omega) (by omega)
        refine ⟨l :: downs, [.cable ch.id cn.id l.uid false] ++ f.limiterOf cn ++ rd, cur', cn', ?_, ?_, ?_, h4, ?_, h6⟩
        · simp only [FatTree.renderDown, hlp, hc, hcable, h1]
        · rw [heq, h2]; simp only [List.append_assoc]
        · exact ⟨hlp, ⟨_, hca⟩, h3⟩
        · simp only [List.length_cons]; omega
      · rw [downFor_nomatch f t d fuel cur i acc cn hc hi hm]
        exact ih cur (i + 1) cn acc hc hag (by omega) (by omega)
    · refine ⟨[], [], cur, cn, rfl, ?_, rfl, hc, rfl, hag⟩
      rw [downFor_stop f t d fuel cur i acc cn hc hi, List.append_nil]

theorem idx_lt (base x m p : Nat) (hb : base < p) (hx : x < m) : base * m + x < m * p := by
  have h1 : (base + 1) * m ≤ p * m := Nat.mul_le_mul_right m hb
  rw [Nat.add_mul, Nat.one_mul, Nat.mul_comm p m] at h1
  omega

theorem idx_mod (base x m : Nat) (hx : x < m) : (base * m + x) % m = x := by
  rw [Nat.add_comm, Nat.add_mul_mod_self_right, Nat.mod_eq_of_lt hx]

/-- started at the first port of a cable group (`i = d * num_children`, here `+ x` with `x` not beyond the destination's
digit) the `for` goes down at least one level -/
theorem downFor_progress (f : FatTree) (t : FTables) (hwf : t.WF f) (d : FNode) (S : Nat)
    (hS : ∀ i, i < f.levels → f.down.getD i 0 * f.count.getD i 0 ≤ S)
    (cur : Nat) (cn : FNode) (hc : t.nodes[cur]? = some cn) (hne : cn.level ≠ 0)
    (hag : AgreeFrom f.levels cn.label d.label cn.level) (base : Nat) (hb : base < f.count.getD (cn.level - 1) 0)
    (hdl : d.label.getD (cn.level - 1) 0 < f.down.getD (cn.level - 1) 0) :
    ∀ (g x fuel : Nat) (acc : List FTLink), d.label.getD (cn.level - 1) 0 - x = g → x ≤ d.label.getD (cn.level - 1) 0 →
      S + 2 ≤ fuel + (base * f.down.getD (cn.level - 1) 0 + x) →
      ∃ downs rd cur' cn', f.renderDown t downs = some rd ∧
        f.downFor t d fuel cur (base * f.down.getD (cn.level - 1) 0 + x) acc = some (cur', acc ++ rd) ∧
        DownPath t cur downs cur' ∧ t.nodes[cur']? = some cn' ∧ cn'.level + downs.length = cn.level ∧
        AgreeFrom f.levels cn'.label d.label cn'.level ∧ 1 ≤ downs.length := by
  have hle := hS (cn.level - 1) (by have := hwf.level_le cur cn hc; omega)
  intro g
  induction g with
  | zero =>
    intro x fuel acc hg hx hfuel
    have hxe : x = d.label.getD (cn.level - 1) 0 := by omega
    have hlt := idx_lt base x _ _ hb (by omega : x < f.down.getD (cn.level - 1) 0)
    have hi : base * f.down.getD (cn.level - 1) 0 + x < f.childrenSize cn := by
      unfold FatTree.childrenSize; rw [if_neg hne]; exact hlt
    have hm : (base * f.down.getD (cn.level - 1) 0 + x) % f.down.getD (cn.level - 1) 0 = d.label.getD (cn.level - 1) 0 := by
      rw [idx_mod _ _ _ (by omega)]; exact hxe
    cases fuel with
    | zero => omega
    | succ fuel =>
      obtain ⟨l, ch, hca, hlp, hch, hlev, hag', hcable, heq⟩ := downFor_match f t hwf d fuel cur _ acc cn hc hi hag hm
      obtain ⟨downs, rd, cur', cn', h1, h2, h3, h4, h5, h6⟩ :=
        downFor_spec f t hwf d S hS fuel l.child (base * f.down.getD (cn.level - 1) 0 + x + 1) ch
          (acc ++ [.cable ch.id cn.id l.uid false] ++ f.limiterOf cn) hch hag' (by omega) (by omega)
      refine ⟨l :: downs, [.cable ch.id cn.id l.uid false] ++ f.limiterOf cn ++ rd, cur', cn', ?_, ?_, ?_, h4, ?_, h6, ?_⟩
      · simp only [FatTree.renderDown, hlp, hc, hcable, h1]
      · rw [heq, h2]; simp only [List.append_assoc]
      · exact ⟨hlp, ⟨_, hca⟩, h3⟩
      · simp only [List.length_cons]; omega
      · simp only [List.length_cons]; omega
  | succ g ih =>
    intro x fuel acc hg hx hfuel
    have hlt := idx_lt base x _ _ hb (by omega : x < f.down.getD (cn.level - 1) 0)
    have hi : base * f.down.getD (cn.level - 1) 0 + x < f.childrenSize cn := by
      unfold FatTree.childrenSize; rw [if_neg hne]; exact hlt
    have hm : (base * f.down.getD (cn.level - 1) 0 + x) % f.down.getD (cn.level - 1) 0 ≠ d.label.getD (cn.level - 1) 0 := by
      rw [idx_mod _ _ _ (by omega)]; omega
    cases fuel with
    | zero => omega
    | succ fuel =>
      rw [downFor_nomatch f t d fuel cur _ acc cn hc hi hm, Nat.add_assoc]
      exact ih (x + 1) fuel acc (by omega) (by omega) (by omega)

/-! ### the `while (currentNode != destination)` loop -/

theorem sizeSum_ge (f : FatTree) : ∀ n i, i < n → f.down.getD i 0 * f.count.getD i 0 ≤ f.sizeSum n := by
  intro n
  induction n with
  | zero => intro i h; omega
  | succ n ih =>
    intro i hi
    simp only [FatTree.sizeSum]
    by_cases h : i = n
    · subst h; omega
    · have := ih i (by omega); omega

theorem downLoop_spec (f : FatTree) (t : FTables) (hf : f.WF) (hwf : t.WF f) (srcPos : Nat) (d : FNode) (dst : Nat)
    (hd : t.nodes[dst]? = some d) (hd0 : d.level = 0) :
    ∀ (fuel cur : Nat) (cn : FNode) (acc : List FTLink),
      t.nodes[cur]? = some cn → AgreeFrom f.levels cn.label d.label cn.level → cn.level ≤ fuel →
      ∃ downs rd, f.renderDown t downs = some rd ∧ f.downLoop t srcPos d dst fuel cur acc = some (acc ++ rd) ∧
        downs.length = cn.level ∧ DownPath t cur downs dst := by
  have leaf : ∀ (cur : Nat) (cn : FNode), t.nodes[cur]? = some cn → AgreeFrom f.levels cn.label d.label cn.level →
      cn.level = 0 → cur = dst := by
    intro cur cn hc hag h0
    apply hwf.leaf_inj dst d cur cn hd hc hd0 h0
    intro j hj hjL
    exact (hag j (by omega) hjL).symm
  intro fuel
  induction fuel with
  | zero =>
    intro cur cn acc hc hag hfuel
    have h0 : cn.level = 0 := by omega
    have hcur := leaf cur cn hc hag h0
    refine ⟨[], [], rfl, ?_, by simp [h0], hcur⟩
    unfold FatTree.downLoop
    simp only [hcur, if_true, List.append_nil]
  | succ fuel ih =>
    intro cur cn acc hc hag hfuel
    by_cases h0 : cn.level = 0
    · have hcur := leaf cur cn hc hag h0
      refine ⟨[], [], rfl, ?_, by simp [h0], hcur⟩
      unfold FatTree.downLoop
      simp only [hcur, if_true, List.append_nil]
    · have hne : cur ≠ dst := by
        intro e; rw [e, hd] at hc; cases hc; exact h0 hd0
      have hlevL := hwf.level_le cur cn hc
      have hp := hf.2 (cn.level - 1) (by omega)
      have hb : srcPos % f.count.getD (cn.level - 1) 0 < f.count.getD (cn.level - 1) 0 := Nat.mod_lt _ hp.2.2
      have hdl := hwf.leaf_lt dst d hd hd0 (cn.level - 1) (by omega)
      obtain ⟨downs, rd, cur', cn', h1, h2, h3, h4, h5, h6, h7⟩ :=
        downFor_progress f t hwf d (f.sizeSum f.levels) (sizeSum_ge f f.levels) cur cn hc h0 hag
          (srcPos % f.count.getD (cn.level - 1) 0) hb hdl (d.label.getD (cn.level - 1) 0) 0 (f.sizeSum f.levels + 2) acc
          (by omega) (by omega) (by omega)
      simp only [Nat.add_zero] at h2
      obtain ⟨downs2, rd2, g1, g2, g3, g4⟩ := ih cur' cn' (acc ++ rd) h4 h6 (by omega)
      refine ⟨downs ++ downs2, rd ++ rd2, renderDown_append f t _ _ _ _ h1 g1, ?_, ?_, DownPath_append t _ _ _ _ _ h3 g4⟩
      · rw [FatTree.downLoop]
        simp only [hne, if_false, hc, h0, h2, g2, List.append_assoc]
      · simp only [List.length_append]; omega

/-! ### level of the nearest common ancestor -/

theorem ncaLevel_spec (a b : List Nat) : ∀ n,
    1 ≤ ncaLevel a b n ∧ ncaLevel a b n ≤ max n 1 ∧
    (∀ j, ncaLevel a b n ≤ j → j < n → a.getD j 0 = b.getD j 0) ∧
    (1 < ncaLevel a b n → a.getD (ncaLevel a b n - 1) 0 ≠ b.getD (ncaLevel a b n - 1) 0) := by
  intro n
  induction n with
  | zero => simp [ncaLevel]
  | succ n ih =>
    simp only [ncaLevel]
    split
    · rename_i h
      refine ⟨by omega, by omega, ?_, ?_⟩
      · intro j h1 h2; omega
      · intro _; simpa using h
    · rename_i h
      obtain ⟨h1, h2, h3, h4⟩ := ih
      refine ⟨h1, by omega, ?_, h4⟩
      intro j hj hjn
      by_cases hjn' : j = n
      · subst hjn'; simpa using h
      · exact h3 j hj (by omega)

/-! ### shape of the rendered link lists -/

theorem limiterOf_noCable (f : FatTree) (n : FNode) : (f.limiterOf n).filter FTLink.isCable = [] := by
  unfold FatTree.limiterOf
  split <;> simp [FTLink.isCable]

theorem limiterOf_length (f : FatTree) (n : FNode) : (f.limiterOf n).length = if f.lim then 1 else 0 := by
  unfold FatTree.limiterOf
  split <;> simp

theorem cable_shape (t : FTables) (l : FLink) (up : Bool) (c : FTLink) (h : FatTree.cable t l up = some c) :
    c.isCable = true ∧ c.isUpCable = up ∧ c.isDownCable = !up := by
  unfold FatTree.cable at h
  split at h
  · cases h; simp [FTLink.isCable, FTLink.isUpCable, FTLink.isDownCable]
  · cases h

theorem renderUp_shape (f : FatTree) (t : FTables) : ∀ (ups : List FLink) (ru : List FTLink), f.renderUp t ups = some ru →
    (ru.filter FTLink.isCable).length = ups.length ∧ (∀ x ∈ ru, x.isCable = true → x.isUpCable = true) ∧
    ru.length = ups.length * (if f.lim then 2 else 1) := by
  intro ups
  induction ups with
  | nil => intro ru h; simp only [FatTree.renderUp, Option.some.injEq] at h; subst h; simp
  | cons l ls ih =>
    intro ru h
    simp only [FatTree.renderUp] at h
    split at h
    · rename_i cn c r hcn hc hr
      simp only [Option.some.injEq] at h
      subst h
      obtain ⟨i1, i2, i3⟩ := ih r hr
      obtain ⟨c1, c2, _⟩ := cable_shape t l true c hc
      refine ⟨?_, ?_, ?_⟩
      · simp only [List.filter_append, limiterOf_noCable, List.nil_append, List.length_append, i1, List.length_cons]
        simp [c1]; omega
      · intro x hx hxc
        simp only [List.mem_append, List.mem_singleton] at hx
        rcases hx with (hx | hx) | hx
        · have := limiterOf_noCable f cn
          have hx' : x ∈ (f.limiterOf cn).filter FTLink.isCable := List.mem_filter.mpr ⟨hx, hxc⟩
          rw [this] at hx'; cases hx'
        · subst hx; exact c2
        · exact i2 x hx hxc
      · simp only [List.length_append, limiterOf_length, i3, List.length_cons, List.length_nil]
        split <;> simp [Nat.add_mul] <;> omega
    · cases h

theorem renderDown_shape (f : FatTree) (t : FTables) : ∀ (downs : List FLink) (rd : List FTLink),
    f.renderDown t downs = some rd →
    (rd.filter FTLink.isCable).length = downs.length ∧ (∀ x ∈ rd, x.isCable = true → x.isDownCable = true) ∧
    rd.length = downs.length * (if f.lim then 2 else 1) := by
  intro downs
  induction downs with
  | nil => intro rd h; simp only [FatTree.renderDown, Option.some.injEq] at h; subst h; simp
  | cons l ls ih =>
    intro rd h
    simp only [FatTree.renderDown] at h
    split at h
    · rename_i pn c r hpn hc hr
      simp only [Option.some.injEq] at h
      subst h
      obtain ⟨i1, i2, i3⟩ := ih r hr
      obtain ⟨c1, _, c3⟩ := cable_shape t l false c hc
      refine ⟨?_, ?_, ?_⟩
      · simp only [List.filter_append, limiterOf_noCable, List.append_nil, List.length_append, i1, List.length_cons]
        simp [c1]; omega
      · intro x hx hxc
        simp only [List.mem_append, List.mem_singleton] at hx
        rcases hx with (hx | hx) | hx
        · subst hx; simpa using c3
        · have := limiterOf_noCable f pn
          have hx' : x ∈ (f.limiterOf pn).filter FTLink.isCable := List.mem_filter.mpr ⟨hx, hxc⟩
          rw [this] at hx'; cases hx'
        · exact i2 x hx hxc
      · simp only [List.length_append, limiterOf_length, i3, List.length_cons, List.length_nil]
        split <;> simp [Nat.add_mul] <;> omega
    · cases h

/-- every node on an up path is one level above the previous one; stated for the end point -/
theorem UpPath_child (t : FTables) : ∀ (ls : List FLink) (a b : Nat), UpPath t a ls b →
    ∀ l ∈ ls, ∃ port, t.parentAt l.child port = some l := by
  intro ls
  induction ls with
  | nil => intro a b _ l hl; cases hl
  | cons x xs ih =>
    intro a b h l hl
    simp only [UpPath] at h
    rcases List.mem_cons.mp hl with e | e
    · subst e; obtain ⟨h1, ⟨p, hp⟩, _⟩ := h; exact ⟨p, by rw [h1]; exact hp⟩
    · exact ih _ _ h.2.2 l e

end SgVerif.C26
