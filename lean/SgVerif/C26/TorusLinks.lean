import SgVerif.C26.TorusLemmas
/-
C26 — torus: the `private_links_` position arithmetic.

`Torus.seal` is the sequence of `try_emplace` calls made by `TorusZone::do_seal` (for every leaf: the loopback / limiter
entries of `fill_leaf_from_cb`, then the `create_torus_links` entries at `node_pos_with_loopback_limiter(id) + j`), with
`num_links_per_node_` growing while the FIRST leaf is filled.  `Torus.routeWith` reads that table back with
`get_uplink_from` / `get_downlink_to`.  This file proves which link every lookup returns:

* `seal_eq`          — the state after sealing is `finalState` and the entries are, leaf after leaf, `leafEntries`
                       (written with the FINAL link count; leaf 0 is stored with intermediate counts, at `0 * count = 0`);
* `lookup_*`         — the entry of leaf `i`, slot `k` sits at `i * numLinks + k`, `k < numLinks`: blocks of different
                       leaves are disjoint, so the first match of `find?` is the entry of leaf `i`;
* `scan_up_link` / `scan_down_link` — the neighbour formula of `create_torus_links` agrees with the `next_node` formulas
                       of `get_local_route` (UP: the link declared by `cur` goes to `next`; DOWN: the link declared by
                       `next` goes to `cur`);
* `render_sealed`    — `renderHops` on the sealed table = the closed form `linksOfHops`.
-/
namespace SgVerif.C26

/-! ### lookups in a sequence of `try_emplace` calls -/

theorem Entries.at_cons {α : Type} (k : Nat) (v : α × α) (es : Entries α) (pos : Nat) :
    Entries.at ((k, v) :: es) pos = if k = pos then some v else Entries.at es pos := by
  unfold Entries.at
  by_cases h : k = pos <;> simp [h]

/-- entries stored at other positions before are skipped -/
theorem Entries.at_append_skip {α : Type} (pre rest : Entries α) (pos : Nat) (h : ∀ e ∈ pre, e.1 ≠ pos) :
    Entries.at (pre ++ rest) pos = Entries.at rest pos := by
  induction pre with
  | nil => rfl
  | cons e pre ih =>
    obtain ⟨k, v⟩ := e
    have hk : k ≠ pos := h (k, v) (by simp)
    rw [List.cons_append, Entries.at_cons, if_neg hk]
    exact ih (fun e he => h e (by simp [he]))

/-- `try_emplace`: a later call at the same position does not change what is found -/
theorem Entries.at_append_found {α : Type} (pre rest : Entries α) (pos : Nat) (v : α × α)
    (h : Entries.at pre pos = some v) : Entries.at (pre ++ rest) pos = some v := by
  induction pre with
  | nil => simp [Entries.at] at h
  | cons e pre ih =>
    obtain ⟨k, w⟩ := e
    rw [List.cons_append, Entries.at_cons]
    rw [Entries.at_cons] at h
    split
    · rename_i hk; rw [if_pos hk] at h; exact h
    · rename_i hk; rw [if_neg hk] at h; exact ih h

/-! ### what `do_seal` stores -/

/-- `num_links_per_node_`, `has_loopback_`, `has_limiter_` once at least one leaf has been filled -/
def finalState (t : Torus) : ClState :=
  { numLinks := t.dims.length + (if t.lb then 1 else 0) + (if t.lim then 1 else 0), hasLb := t.lb, hasLim := t.lim }

/-- the `try_emplace` calls made for leaf `i`, with the positions computed from the FINAL link count -/
def leafEntries (t : Torus) (i : Nat) : Entries TLink :=
  (if t.lb then [((finalState t).nodePos i, (TLink.loopback i, TLink.loopback i))] else []) ++
  (if t.lim then [((finalState t).nodePosLb i, (TLink.limiter i, TLink.limiter i))] else []) ++
  torusLinks i i ((finalState t).nodePosLbLim i) 0 1 t.dims

def sealedEntries (t : Torus) : Entries TLink := (List.range t.tot).flatMap (leafEntries t)

/-- a leaf filled when the count is already final: `set_loopback` / `set_limiter` do nothing -/
theorem fillLeaf_final (t : Torus) (i : Nat) :
    fillLeaf t.lb t.lim TLink.loopback TLink.limiter (finalState t) i =
      (finalState t,
       (if t.lb then [((finalState t).nodePos i, (TLink.loopback i, TLink.loopback i))] else []) ++
       (if t.lim then [((finalState t).nodePosLb i, (TLink.limiter i, TLink.limiter i))] else [])) := by
  obtain ⟨dims, lb, lim⟩ := t
  cases lb <;> cases lim <;> simp [fillLeaf, finalState, ClState.setLoopback, ClState.setLimiter]

/-- the FIRST leaf, filled from the state left by `set_topology`: the loopback is stored with the count before
`set_limiter()`, but at `node_pos(0) = 0 * count = 0` whatever the count -/
theorem fillLeaf_first (t : Torus) :
    fillLeaf t.lb t.lim TLink.loopback TLink.limiter { numLinks := t.dims.length, hasLb := false, hasLim := false } 0 =
      (finalState t,
       (if t.lb then [((finalState t).nodePos 0, (TLink.loopback 0, TLink.loopback 0))] else []) ++
       (if t.lim then [((finalState t).nodePosLb 0, (TLink.limiter 0, TLink.limiter 0))] else [])) := by
  obtain ⟨dims, lb, lim⟩ := t
  cases lb <;> cases lim <;>
    simp [fillLeaf, finalState, ClState.setLoopback, ClState.setLimiter, ClState.nodePos, ClState.nodePosLb]

theorem sealFrom_final (t : Torus) : ∀ is : List Nat,
    t.sealFrom is (finalState t) = (finalState t, is.flatMap (leafEntries t)) := by
  intro is
  induction is with
  | nil => rfl
  | cons i is ih =>
    simp only [Torus.sealFrom, fillLeaf_final, ih, List.flatMap_cons, leafEntries]

/-- **the table after `do_seal`** (at least one leaf, the first one having id 0) -/
theorem sealFrom_first (t : Torus) (is : List Nat) :
    t.sealFrom (0 :: is) { numLinks := t.dims.length, hasLb := false, hasLim := false }
      = (finalState t, (0 :: is).flatMap (leafEntries t)) := by
  simp only [Torus.sealFrom, fillLeaf_first, sealFrom_final, List.flatMap_cons, leafEntries]

theorem seal_eq (t : Torus) (h : 0 < t.tot) : t.seal = (finalState t, sealedEntries t) := by
  unfold Torus.seal sealedEntries
  obtain ⟨k, hk⟩ : ∃ k, t.tot = k + 1 := ⟨t.tot - 1, by omega⟩
  rw [hk, List.range_succ_eq_map]
  exact sealFrom_first t _

theorem prod_pos : ∀ ds : List Nat, (∀ d ∈ ds, 0 < d) → 0 < prod ds := by
  intro ds
  induction ds with
  | nil => intro _; simp [prod]
  | cons d ds ih =>
    intro h
    simp only [prod]
    exact Nat.mul_pos (h d (by simp)) (ih (fun x hx => h x (by simp [hx])))

/-! ### positions: leaf `i` owns `[i * numLinks, i * numLinks + numLinks)` -/

theorem torusLinks_keys (id rank pos : Nat) : ∀ (ds : List Nat) (j P : Nat), ∀ e ∈ torusLinks id rank pos j P ds,
    pos + j ≤ e.1 ∧ e.1 < pos + j + ds.length := by
  intro ds
  induction ds with
  | nil => intro j P e he; simp [torusLinks] at he
  | cons d ds ih =>
    intro j P e he
    simp only [torusLinks, List.mem_cons] at he
    rcases he with rfl | he
    · simp
    · have := ih (j + 1) (P * d) e he
      simp only [List.length_cons]; omega

theorem nodePos_final (t : Torus) (i : Nat) : (finalState t).nodePos i = i * (finalState t).numLinks := rfl
theorem nodePosLb_final (t : Torus) (i : Nat) :
    (finalState t).nodePosLb i = i * (finalState t).numLinks + (if t.lb then 1 else 0) := rfl
theorem nodePosLbLim_final (t : Torus) (i : Nat) :
    (finalState t).nodePosLbLim i = i * (finalState t).numLinks + (if t.lb then 1 else 0) + (if t.lim then 1 else 0) := rfl
theorem numLinks_final (t : Torus) :
    (finalState t).numLinks = t.dims.length + (if t.lb then 1 else 0) + (if t.lim then 1 else 0) := rfl

theorem leafEntries_keys (t : Torus) (i : Nat) : ∀ e ∈ leafEntries t i,
    i * (finalState t).numLinks ≤ e.1 ∧ e.1 < i * (finalState t).numLinks + (finalState t).numLinks := by
  intro e he
  have hN := numLinks_final t
  simp only [leafEntries, List.mem_append] at he
  rcases he with (he | he) | he
  · split at he
    · rename_i hlb
      simp only [List.mem_singleton] at he; subst he
      simp only [nodePos_final, hlb, if_true] at hN ⊢
      omega
    · simp at he
  · split at he
    · rename_i hlim
      simp only [List.mem_singleton] at he; subst he
      simp only [nodePosLb_final, hlim, if_true] at hN ⊢
      cases hlb : t.lb <;> simp only [hlb, if_true, Bool.false_eq_true, if_false] at hN ⊢ <;> omega
    · simp at he
  · have := torusLinks_keys _ _ _ _ _ _ e he
    rw [nodePosLbLim_final] at this
    cases hlb : t.lb <;> cases hlim : t.lim <;>
      simp only [hlb, hlim, if_true, Bool.false_eq_true, if_false] at hN this ⊢ <;> omega

/-- blocks of different leaves are disjoint -/
theorem block_disjoint (a i N x y : Nat) (hne : a ≠ i) (hx : a * N ≤ x ∧ x < a * N + N) (hy : i * N ≤ y ∧ y < i * N + N) :
    x ≠ y := by
  rcases Nat.lt_or_gt_of_ne hne with h | h
  · have := Nat.mul_le_mul_right N (show a + 1 ≤ i from h)
    rw [Nat.add_mul, Nat.one_mul] at this; omega
  · have := Nat.mul_le_mul_right N (show i + 1 ≤ a from h)
    rw [Nat.add_mul, Nat.one_mul] at this; omega

/-- a position of leaf `i`'s block is answered by leaf `i`'s own entries (first match = no earlier leaf stored there) -/
theorem at_flatMap_block (t : Torus) (i pos : Nat) (v : TLink × TLink)
    (hpos : i * (finalState t).numLinks ≤ pos ∧ pos < i * (finalState t).numLinks + (finalState t).numLinks)
    (hv : Entries.at (leafEntries t i) pos = some v) :
    ∀ is : List Nat, i ∈ is → Entries.at (is.flatMap (leafEntries t)) pos = some v := by
  intro is
  induction is with
  | nil => intro h; simp at h
  | cons a is ih =>
    intro hmem
    rw [List.flatMap_cons]
    by_cases ha : a = i
    · subst ha; exact Entries.at_append_found _ _ _ _ hv
    · rw [Entries.at_append_skip]
      · apply ih
        rcases List.mem_cons.mp hmem with h | h
        · exact absurd h.symm ha
        · exact h
      · intro e he
        exact block_disjoint a i _ _ _ ha (leafEntries_keys t a e he) hpos

theorem at_sealed (t : Torus) (i pos : Nat) (v : TLink × TLink) (hi : i < t.tot)
    (hpos : i * (finalState t).numLinks ≤ pos ∧ pos < i * (finalState t).numLinks + (finalState t).numLinks)
    (hv : Entries.at (leafEntries t i) pos = some v) : Entries.at (sealedEntries t) pos = some v :=
  at_flatMap_block t i pos v hpos hv _ (List.mem_range.mpr hi)

/-- `get_uplink_from(node_pos(i))` = loopback of leaf `i` -/
theorem lookup_loopback (t : Torus) (i : Nat) (hi : i < t.tot) (hlb : t.lb = true) :
    Entries.at (sealedEntries t) ((finalState t).nodePos i) = some (TLink.loopback i, TLink.loopback i) := by
  apply at_sealed t i _ _ hi
  · have hN := numLinks_final t
    simp only [nodePos_final, hlb, if_true] at hN ⊢
    omega
  · simp [leafEntries, hlb, Entries.at_cons]

/-- `private_links_.at(node_pos_with_loopback(i))` = limiter of leaf `i` -/
theorem lookup_limiter (t : Torus) (i : Nat) (hi : i < t.tot) (hlim : t.lim = true) :
    Entries.at (sealedEntries t) ((finalState t).nodePosLb i) = some (TLink.limiter i, TLink.limiter i) := by
  apply at_sealed t i _ _ hi
  · have hN := numLinks_final t
    simp only [nodePosLb_final, hlim, if_true] at hN ⊢
    cases hlb : t.lb <;> simp only [hlb, if_true, Bool.false_eq_true, if_false] at hN ⊢ <;> omega
  · cases hlb : t.lb <;>
      simp [leafEntries, hlim, hlb, Entries.at_cons, nodePosLb_final, nodePos_final]

/-- `private_links_.at(node_pos_with_loopback_limiter(i) + j)` = `j`-th entry of `create_torus_links` for leaf `i` -/
theorem lookup_cable (t : Torus) (i j : Nat) (v : TLink × TLink) (hi : i < t.tot) (hj : j < t.dims.length)
    (hv : Entries.at (torusLinks i i ((finalState t).nodePosLbLim i) 0 1 t.dims) ((finalState t).nodePosLbLim i + j) = some v) :
    Entries.at (sealedEntries t) ((finalState t).nodePosLbLim i + j) = some v := by
  apply at_sealed t i _ _ hi
  · have hN := numLinks_final t
    rw [nodePosLbLim_final]
    cases hlb : t.lb <;> cases hlim : t.lim <;>
      simp only [hlb, hlim, if_true, Bool.false_eq_true, if_false] at hN ⊢ <;> omega
  · unfold leafEntries
    rw [Entries.at_append_skip]
    · exact hv
    · intro e he
      simp only [List.mem_append] at he
      rw [nodePosLbLim_final]
      rcases he with he | he
      · split at he
        · simp only [List.mem_singleton] at he; subst he
          rename_i hlb
          simp only [nodePos_final, hlb, if_true]; omega
        · simp at he
      · split at he
        · simp only [List.mem_singleton] at he; subst he
          rename_i hlim
          simp only [nodePosLb_final, hlim, if_true]; omega
        · simp at he

/-! ### the neighbour formula of `create_torus_links` vs the `next_node` formulas of `get_local_route` -/

/-- `rank - (d - 1) * P` (create_torus_links) = `cur + P - P * d` (get_local_route), also when both truncate -/
theorem nb_up (cur P d : Nat) (hd : 0 < d) : cur - (d - 1) * P = cur + P - P * d := by
  have h1 : (d - 1) * P = P * d - P := by rw [Nat.sub_mul, Nat.one_mul, Nat.mul_comm]
  have h2 : P ≤ P * d := Nat.le_mul_of_pos_right P hd
  omega

/-- going left from `cur` along a dimension (radix `P`, size `d`) reaches a node whose declared neighbour is `cur` -/
theorem nb_down (cur P d : Nat) (hP : 0 < P) (hd : 0 < d) :
    let next := if (cur / P) % d = 0 then cur + P * d - P else cur - P
    (if (next / P) % d = d - 1 then next - (d - 1) * P else next + P) = cur := by
  intro next
  by_cases h0 : (cur / P) % d = 0
  · have hn : next = cur + P * (d - 1) := by
      have h2 : P ≤ P * d := Nat.le_mul_of_pos_right P hd
      have h1 : P * (d - 1) = P * d - P := by rw [Nat.mul_sub, Nat.mul_one]
      simp only [next, h0, if_true]; omega
    have hq : (next / P) % d = d - 1 := by
      rw [hn, Nat.add_mul_div_left _ _ hP, Nat.add_mod, h0, Nat.zero_add, Nat.mod_mod,
        Nat.mod_eq_of_lt (by omega : d - 1 < d)]
    rw [if_pos hq, hn, Nat.mul_comm (d - 1) P]; omega
  · have hq1 : 1 ≤ cur / P := by
      rcases Nat.eq_zero_or_pos (cur / P) with h | h
      · rw [h] at h0; simp at h0
      · exact h
    have hge : P ≤ cur := by
      have := Nat.mul_le_mul_left P hq1
      have := Nat.mul_div_le cur P
      omega
    have hn : next = cur - P := by simp only [next, h0, if_false]
    have hdiv : (cur - P) / P = cur / P - 1 := by
      have e := Nat.add_div_right (cur - P) hP
      rw [Nat.sub_add_cancel hge] at e
      omega
    have hq : ¬ ((next / P) % d = d - 1) := by
      rw [hn, hdiv]
      intro e
      apply h0
      have h3 := Nat.mod_add_div (cur / P - 1) d
      rw [e] at h3
      have h4 : cur / P = d * ((cur / P - 1) / d + 1) := by rw [Nat.mul_add, Nat.mul_one]; omega
      rw [h4, Nat.mul_mod_right]
    rw [if_neg hq, hn]; omega

theorem scan_facts (cur dst : Nat) : ∀ (tri : List (Nat × Nat × Nat)) (j P : Nat) (h : Hop),
    scan cur dst j P tri = some h → h.cur = cur ∧ j ≤ h.dim ∧ h.dim < j + tri.length := by
  intro tri
  induction tri with
  | nil => intro j P h hs; simp [scan] at hs
  | cons x rest ih =>
    obtain ⟨d, m, t⟩ := x
    intro j P h hs
    simp only [scan] at hs
    split at hs
    · split at hs <;> (injection hs with hs; subst hs; simp)
    · have := ih (j + 1) (P * d) h hs
      simp only [List.length_cons]; omega

/-- a hop to the RIGHT uses `get_uplink_from(node_pos_with_loopback_limiter(cur) + j)`: the UP half of the link that
`cur` declared towards its neighbour in dimension `j`, which is `next` -/
theorem scan_up_link (cur dst pos : Nat) : ∀ (tri : List (Nat × Nat × Nat)) (j P : Nat) (h : Hop),
    (∀ x ∈ tri, 0 < x.1) → scan cur dst j P tri = some h → h.up = true →
    Entries.at (torusLinks cur cur pos j P (triDims tri)) (pos + h.dim)
      = some (TLink.cable cur h.next true, TLink.cable cur h.next false) := by
  intro tri
  induction tri with
  | nil => intro j P h _ hs; simp [scan] at hs
  | cons x rest ih =>
    obtain ⟨d, m, t⟩ := x
    intro j P h hpos hs hup
    have hd : 0 < d := hpos (d, m, t) (by simp)
    simp only [triDims, List.map_cons, torusLinks, Entries.at_cons]
    simp only [scan] at hs
    split at hs
    · split at hs
      · injection hs with hs; subst hs
        simp only [if_true]
        split
        · rw [nb_up cur P d hd]
        · rfl
      · injection hs with hs; subst hs; simp at hup
    · have hf := scan_facts cur dst rest (j + 1) (P * d) h hs
      rw [if_neg (by omega)]
      exact ih (j + 1) (P * d) h (fun x hx => hpos x (by simp [hx])) hs hup

/-- a hop to the LEFT uses `get_downlink_to(node_pos_with_loopback_limiter(next) + j)`: the DOWN half of the link that
`next` declared towards its neighbour in dimension `j`, which is `cur` -/
theorem scan_down_link (cur dst pos : Nat) : ∀ (tri : List (Nat × Nat × Nat)) (j P : Nat) (h : Hop),
    (∀ x ∈ tri, 0 < x.1) → 0 < P → scan cur dst j P tri = some h → h.up = false →
    Entries.at (torusLinks h.next h.next pos j P (triDims tri)) (pos + h.dim)
      = some (TLink.cable h.next cur true, TLink.cable h.next cur false) := by
  intro tri
  induction tri with
  | nil => intro j P h _ _ hs; simp [scan] at hs
  | cons x rest ih =>
    obtain ⟨d, m, t⟩ := x
    intro j P h hpos hP hs hup
    have hd : 0 < d := hpos (d, m, t) (by simp)
    simp only [triDims, List.map_cons, torusLinks, Entries.at_cons]
    simp only [scan] at hs
    split at hs
    · split at hs
      · injection hs with hs; subst hs; simp at hup
      · injection hs with hs; subst hs
        simp only [if_true]
        have := nb_down cur P d hP hd
        simp only at this
        rw [this]
    · have hf := scan_facts cur dst rest (j + 1) (P * d) h hs
      rw [if_neg (by omega)]
      exact ih (j + 1) (P * d) h (fun x hx => hpos x (by simp [hx])) (Nat.mul_pos hP hd) hs hup

/-- every hop produced by the `while` loop is the result of the `for` scan at its current node -/
theorem hopsLoop_mem_scan (dst : Nat) (tri : List (Nat × Nat × Nat)) : ∀ (fuel cur : Nat) (hs : List Hop),
    hopsLoop dst tri fuel cur = some hs → ∀ h ∈ hs, scan h.cur dst 0 1 tri = some h := by
  intro fuel
  induction fuel with
  | zero =>
    intro cur hs hl h hm
    by_cases hc : cur = dst
    · subst hc; rw [hopsLoop_done] at hl; injection hl with hl; subst hl; simp at hm
    · rw [hopsLoop_zero _ _ _ hc] at hl; cases hl
  | succ n ih =>
    intro cur hs hl h hm
    by_cases hc : cur = dst
    · subst hc; rw [hopsLoop_done] at hl; injection hl with hl; subst hl; simp at hm
    · rw [hopsLoop_succ _ _ _ _ hc] at hl
      cases hsc : scan cur dst 0 1 tri with
      | none => rw [hsc] at hl; cases hl
      | some hh =>
        rw [hsc] at hl
        simp only at hl
        cases hrec : hopsLoop dst tri n hh.next with
        | none => rw [hrec] at hl; cases hl
        | some tl =>
          rw [hrec] at hl
          simp only [Option.map_some] at hl
          injection hl with hl; subst hl
          rcases List.mem_cons.mp hm with rfl | hm
          · rw [(scan_facts cur dst tri 0 1 h hsc).1]; exact hsc
          · exact ih _ _ hrec h hm

/-- all nodes visited by the closed walk are nodes of the torus -/
theorem specR_bound : ∀ (tri : List (Nat × Nat × Nat)) (cq dq : Nat), TriOk dq tri → cq < prodTri tri →
    ∀ h ∈ specR tri cq, h.cur < prodTri tri ∧ h.next < prodTri tri := by
  intro tri
  induction tri with
  | nil => intro cq dq _ _ h hm; simp [specR] at hm
  | cons x rest ih =>
    obtain ⟨d, m, t⟩ := x
    intro cq dq hok hc h hm
    obtain ⟨hd, ht, hrest⟩ := hok
    simp only [prodTri] at hc ⊢
    have htd : t < d := by rw [ht]; exact Nat.mod_lt _ hd
    have hhi : cq / d < prodTri rest := Nat.div_lt_of_lt_mul hc
    have key : ∀ r y, r < d → y < prodTri rest → r + d * y < d * prodTri rest := by
      intro r y hr hy
      have := Nat.mul_le_mul_left d (show y + 1 ≤ prodTri rest from hy)
      rw [Nat.mul_add, Nat.mul_one] at this; omega
    simp only [specR, List.mem_append, List.mem_map] at hm
    rcases hm with hm | ⟨h', hm', rfl⟩
    · obtain ⟨x', hx', rfl⟩ := mem_ringWalk d _ _ hd _ _ (Nat.mod_lt _ hd) h hm
      exact ⟨key _ _ hx' hhi, key _ _ (stepX_lt d _ x' hd hx') hhi⟩
    · obtain ⟨h1, h2⟩ := ih (cq / d) (dq / d) hrest hhi h' hm'
      exact ⟨key _ _ htd h1, key _ _ htd h2⟩

/-! ### the links of a route, in closed form -/

/-- the torus link taken by a hop: going right, the UP half of the link declared by the current node towards the next
one (`<zone>_link_from_<cur>_to_<next>`); going left, the DOWN half of the link declared by the NEXT node towards the
current one (`<zone>_link_from_<next>_to_<cur>`) -/
def hopCable (h : Hop) : TLink := if h.up then TLink.cable h.cur h.next true else TLink.cable h.next h.cur false

/-- what one iteration of the `while` pushes: the limiter of the current node (if limiters are configured), then the cable -/
def hopSegment (lim : Bool) (h : Hop) : List TLink := (if lim then [TLink.limiter h.cur] else []) ++ [hopCable h]

/-- the whole link list of a route with hops `hs`: the segments, then the limiter of the destination -/
def linksOfHops (lim : Bool) (dst : Nat) (hs : List Hop) : List TLink :=
  hs.flatMap (hopSegment lim) ++ (if lim then [TLink.limiter dst] else [])

theorem linksOfHops_cons (lim : Bool) (dst : Nat) (h : Hop) (hs : List Hop) :
    linksOfHops lim dst (h :: hs) = hopSegment lim h ++ linksOfHops lim dst hs := by
  simp [linksOfHops, List.flatMap_cons, List.append_assoc]

theorem uplink_of_at {α : Type} (es : Entries α) (pos : Nat) (v : α × α) (h : Entries.at es pos = some v) :
    Entries.uplinkFrom es pos = some v.1 := by simp [Entries.uplinkFrom, h]
theorem downlink_of_at {α : Type} (es : Entries α) (pos : Nat) (v : α × α) (h : Entries.at es pos = some v) :
    Entries.downlinkTo es pos = some v.2 := by simp [Entries.downlinkTo, h]

/-- the pushes of one `while` iteration, read from the sealed table -/
theorem hopLinks_sealed (t : Torus) (dst : Nat) (tri : List (Nat × Nat × Nat)) (hpos : ∀ x ∈ tri, 0 < x.1)
    (hdims : triDims tri = t.dims) (h : Hop) (hc : h.cur < t.tot) (hn : h.next < t.tot)
    (hscan : scan h.cur dst 0 1 tri = some h) :
    hopLinks (finalState t) (sealedEntries t) h = some (hopSegment t.lim h) := by
  have hj : h.dim < t.dims.length := by
    have := (scan_facts _ _ _ _ _ _ hscan).2.2
    rw [← hdims, triDims, List.length_map]; omega
  have hl : (if h.up then Entries.uplinkFrom (sealedEntries t) ((finalState t).nodePosLbLim h.cur + h.dim)
      else Entries.downlinkTo (sealedEntries t) ((finalState t).nodePosLbLim h.next + h.dim)) = some (hopCable h) := by
    cases hup : h.up
    · have h1 := scan_down_link h.cur dst ((finalState t).nodePosLbLim h.next) tri 0 1 h hpos (by omega) hscan hup
      rw [hdims] at h1
      have h2 := lookup_cable t h.next h.dim _ hn hj h1
      simp only [Bool.false_eq_true, if_false, hopCable, hup]
      exact downlink_of_at _ _ _ h2
    · have h1 := scan_up_link h.cur dst ((finalState t).nodePosLbLim h.cur) tri 0 1 h hpos hscan hup
      rw [hdims] at h1
      have h2 := lookup_cable t h.cur h.dim _ hc hj h1
      simp only [if_true, hopCable, hup]
      exact uplink_of_at _ _ _ h2
  unfold hopLinks
  simp only [hl]
  have hfl : (finalState t).hasLim = t.lim := rfl
  rw [hfl]
  cases hlim : t.lim
  · simp [optCons, hopSegment]
  · have := uplink_of_at _ _ _ (lookup_limiter t h.cur hc hlim)
    simp [this, optCons, hopSegment]

/-- **`renderHops` on the sealed table is the closed form** -/
theorem render_sealed (t : Torus) (dst : Nat) (tri : List (Nat × Nat × Nat)) (hpos : ∀ x ∈ tri, 0 < x.1)
    (hdims : triDims tri = t.dims) (hd : dst < t.tot) : ∀ hs : List Hop,
    (∀ h ∈ hs, h.cur < t.tot ∧ h.next < t.tot ∧ scan h.cur dst 0 1 tri = some h) →
    renderHops (finalState t) (sealedEntries t) dst hs = some (linksOfHops t.lim dst hs) := by
  intro hs
  induction hs with
  | nil =>
    intro _
    have hfl : (finalState t).hasLim = t.lim := rfl
    simp only [renderHops, hfl]
    cases hlim : t.lim
    · simp [linksOfHops]
    · have := downlink_of_at _ _ _ (lookup_limiter t dst hd hlim)
      simp [this, optCons, linksOfHops]
  | cons h hs ih =>
    intro hall
    obtain ⟨h1, h2, h3⟩ := hall h (by simp)
    rw [renderHops, hopLinks_sealed t dst tri hpos hdims h h1 h2 h3, ih (fun x hx => hall x (by simp [hx])),
      linksOfHops_cons]

/-- the `while` loop computes the closed walk (same as `torus_hops_spec`, on the unfolded definitions) -/
theorem hops_eq_specR (t : Torus) (hwf : ∀ d ∈ t.dims, 0 < d) (src dst : Nat) (hs : src < t.tot) (hd : dst < t.tot) :
    t.hops src dst = some (specR (zip3 t.dims (coordsFrom src 1 t.dims) (coordsFrom dst 1 t.dims)) src) := by
  have := tri_props src dst t.dims 1 hwf
  simp only [Nat.div_one] at this
  obtain ⟨h1, _, h3, h4, _⟩ := this
  unfold Torus.hops
  rw [hopsLoop_eq_hopsR dst _ h4]
  apply hopsR_spec _ _ _ _ h1 (by rw [h3]; exact hs) (by rw [h3]; exact hd)
  have := needed_lt_prod _ src dst h1
  rw [h3] at this; unfold Torus.tot at *; omega

/-- **the links of `get_local_route`**, for every shape, every loopback/limiter configuration and every pair that is not
answered by the loopback shortcut -/
theorem route_links (t : Torus) (hwf : ∀ d ∈ t.dims, 0 < d) (src dst : Nat) (hs : src < t.tot) (hd : dst < t.tot)
    (hnl : ¬ (src = dst ∧ t.lb = true)) :
    t.route src dst
      = some (linksOfHops t.lim dst (specR (zip3 t.dims (coordsFrom src 1 t.dims) (coordsFrom dst 1 t.dims)) src)) := by
  have htot : 0 < t.tot := prod_pos _ hwf
  have hh := hops_eq_specR t hwf src dst hs hd
  have htri := tri_props src dst t.dims 1 hwf
  simp only [Nat.div_one] at htri
  obtain ⟨h1, _, h3, h4, h5⟩ := htri
  unfold Torus.route
  rw [seal_eq t htot]
  simp only [Torus.routeWith]
  have hfl : (finalState t).hasLb = t.lb := rfl
  rw [hfl, if_neg hnl, hh]
  simp only
  apply render_sealed t dst _ h4 h5 hd
  intro h hm
  have hb := specR_bound _ src dst h1 (by rw [h3]; exact hs) h hm
  rw [h3] at hb
  refine ⟨hb.1, hb.2, ?_⟩
  unfold Torus.hops at hh
  exact hopsLoop_mem_scan dst _ _ _ _ hh h hm

/-- **loopback shortcut**: `src = dst` with a loopback callback is answered by the loopback link of `src` alone -/
theorem route_loopback (t : Torus) (hwf : ∀ d ∈ t.dims, 0 < d) (src : Nat) (hs : src < t.tot) (hlb : t.lb = true) :
    t.route src src = some [TLink.loopback src] := by
  have htot : 0 < t.tot := prod_pos _ hwf
  unfold Torus.route
  rw [seal_eq t htot]
  simp only [Torus.routeWith]
  have hfl : (finalState t).hasLb = t.lb := rfl
  rw [hfl, if_pos ⟨trivial, hlb⟩, uplink_of_at _ _ _ (lookup_loopback t src hs hlb)]
  rfl

theorem dist_self (d : Nat) (r : Bool) (x : Nat) : dist d r x x = 0 := by
  unfold dist distR distL; cases r <;> simp

/-- no hop from a node to itself -/
theorem specR_self : ∀ (tri : List (Nat × Nat × Nat)) (cq : Nat), TriOk cq tri → specR tri cq = [] := by
  intro tri
  induction tri with
  | nil => intro cq _; rfl
  | cons x rest ih =>
    obtain ⟨d, m, t⟩ := x
    intro cq hok
    obtain ⟨_, ht, hrest⟩ := hok
    simp only [specR, ← ht, dist_self, ringWalk, ih (cq / d) hrest, List.map_nil, List.append_nil]

/-! ### reading a link list as a walk -/

/-- traversing link `l` from node `a`: the node reached, `none` when `l` is not a link that leaves `a` (the UP half of a
link declared by `a`, the DOWN half of a link declared towards `a`, or `a`'s own limiter, which stays on `a`) -/
def linkStep (a : Nat) : TLink → Option Nat
  | .cable x y true => if x = a then some y else none
  | .cable x y false => if y = a then some x else none
  | .limiter i => if i = a then some a else none
  | .loopback _ => none

def linkWalk : Nat → List TLink → Option Nat
  | a, [] => some a
  | a, l :: ls => (linkStep a l).bind (fun a' => linkWalk a' ls)

theorem linkWalk_append : ∀ (l1 l2 : List TLink) (a : Nat),
    linkWalk a (l1 ++ l2) = (linkWalk a l1).bind (fun b => linkWalk b l2) := by
  intro l1
  induction l1 with
  | nil => intro l2 a; rfl
  | cons l ls ih =>
    intro l2 a
    simp only [List.cons_append, linkWalk]
    cases linkStep a l with
    | none => rfl
    | some a' => simp [ih]

theorem linkStep_hopCable (h : Hop) : linkStep h.cur (hopCable h) = some h.next := by
  unfold hopCable; cases h.up <;> simp [linkStep]

theorem linkStep_limiter (a : Nat) : linkStep a (TLink.limiter a) = some a := by simp [linkStep]

theorem linkWalk_segment (lim : Bool) (h : Hop) : linkWalk h.cur (hopSegment lim h) = some h.next := by
  cases lim <;> simp [hopSegment, linkWalk, linkStep_limiter, linkStep_hopCable]

/-- a chain of hops renders to a link list that walks from the source to the destination, every link leaving the node
the walk is on, every limiter being that node's -/
theorem linkWalk_hops (lim : Bool) : ∀ (hs : List Hop) (a b : Nat), Chain a hs b →
    linkWalk a (linksOfHops lim b hs) = some b := by
  intro hs
  induction hs with
  | nil =>
    intro a b hc
    simp only [Chain] at hc; subst hc
    cases lim <;> simp [linksOfHops, linkWalk, linkStep]
  | cons h hs ih =>
    intro a b hc
    obtain ⟨h1, h2⟩ := hc
    rw [linksOfHops_cons, linkWalk_append, ← h1, linkWalk_segment]
    exact ih _ _ h2

def TLink.isCable : TLink → Bool
  | .cable _ _ _ => true
  | _ => false
def TLink.isLimiter : TLink → Bool
  | .limiter _ => true
  | _ => false
def TLink.isLoopback : TLink → Bool
  | .loopback _ => true
  | _ => false

theorem isCable_limiter (i : Nat) : (TLink.limiter i).isCable = false := rfl
theorem isLimiter_limiter (i : Nat) : (TLink.limiter i).isLimiter = true := rfl
theorem isLoopback_limiter (i : Nat) : (TLink.limiter i).isLoopback = false := rfl

theorem hopCable_isCable (h : Hop) : (hopCable h).isCable = true := by
  unfold hopCable; cases h.up <;> rfl
theorem hopCable_isLimiter (h : Hop) : (hopCable h).isLimiter = false := by
  unfold hopCable; cases h.up <;> rfl
theorem hopCable_isLoopback (h : Hop) : (hopCable h).isLoopback = false := by
  unfold hopCable; cases h.up <;> rfl

/-- the cable links of a route, in order, are the links of its hops -/
theorem linksOfHops_cables (lim : Bool) (dst : Nat) : ∀ hs : List Hop,
    (linksOfHops lim dst hs).filter TLink.isCable = hs.map hopCable := by
  intro hs
  induction hs with
  | nil => cases lim <;> simp [linksOfHops, isCable_limiter]
  | cons h hs ih =>
    rw [linksOfHops_cons, List.filter_append, ih]
    cases lim <;> simp [hopSegment, hopCable_isCable, isCable_limiter]

/-- the limiters of a route, in order: the current node's before every hop, the destination's at the end -/
theorem linksOfHops_limiters (lim : Bool) (dst : Nat) : ∀ hs : List Hop,
    (linksOfHops lim dst hs).filter TLink.isLimiter
      = if lim then hs.map (fun h => TLink.limiter h.cur) ++ [TLink.limiter dst] else [] := by
  intro hs
  induction hs with
  | nil => cases lim <;> simp [linksOfHops, isLimiter_limiter]
  | cons h hs ih =>
    rw [linksOfHops_cons, List.filter_append, ih]
    cases lim <;> simp [hopSegment, List.filter_cons, hopCable_isLimiter, isLimiter_limiter]

theorem linksOfHops_no_loopback (lim : Bool) (dst : Nat) : ∀ hs : List Hop,
    (linksOfHops lim dst hs).filter TLink.isLoopback = [] := by
  intro hs
  induction hs with
  | nil => cases lim <;> simp [linksOfHops, isLoopback_limiter]
  | cons h hs ih =>
    rw [linksOfHops_cons, List.filter_append, ih]
    cases lim <;> simp [hopSegment, hopCable_isLoopback, isLoopback_limiter]

theorem linksOfHops_length (lim : Bool) (dst : Nat) : ∀ hs : List Hop,
    (linksOfHops lim dst hs).length = if lim then 2 * hs.length + 1 else hs.length := by
  intro hs
  induction hs with
  | nil => cases lim <;> simp [linksOfHops]
  | cons h hs ih =>
    rw [linksOfHops_cons, List.length_append, ih]
    cases lim <;> simp [hopSegment] <;> omega

/-! ### which links are declared: the neighbour of a node along a dimension -/

/-- `neighbor_rank_id` computed by `create_torus_links(id, rank, ..)` at iteration `k` of its loop (started with
`dim_product = P` on the dimensions `ds`); `none` when there is no such dimension -/
def nbrAt (rank : Nat) : Nat → List Nat → Nat → Option Nat
  | _, [], _ => none
  | P, d :: _, 0 => some (if (rank / P) % d = d - 1 then rank - (d - 1) * P else rank + P)
  | P, d :: ds, k + 1 => nbrAt rank (P * d) ds k

/-- the node at the other end of the link `<zone>_link_from_<rank>_to_..` that `rank` declares for dimension `j` -/
def Torus.neighbour (t : Torus) (rank j : Nat) : Option Nat := nbrAt rank 1 t.dims j

/-- the `k`-th entry stored by `create_torus_links` is the pair of halves of the link towards the `k`-th neighbour -/
theorem torusLinks_at (id rank pos : Nat) : ∀ (ds : List Nat) (j P k : Nat),
    Entries.at (torusLinks id rank pos j P ds) (pos + j + k)
      = (nbrAt rank P ds k).map (fun nb => (TLink.cable id nb true, TLink.cable id nb false)) := by
  intro ds
  induction ds with
  | nil => intro j P k; simp [torusLinks, Entries.at, nbrAt]
  | cons d ds ih =>
    intro j P k
    cases k with
    | zero => simp [torusLinks, Entries.at_cons, nbrAt]
    | succ k =>
      simp only [torusLinks, Entries.at_cons, nbrAt]
      rw [if_neg (by omega), ← ih (j + 1) (P * d) k]
      congr 1; omega

theorem nbr_of_at (t : Torus) (i j a b : Nat) (l : TLink)
    (h : Entries.at (torusLinks i i ((finalState t).nodePosLbLim i) 0 1 t.dims) ((finalState t).nodePosLbLim i + j)
      = some (TLink.cable a b true, l)) : t.neighbour i j = some b := by
  have := torusLinks_at i i ((finalState t).nodePosLbLim i) t.dims 0 1 j
  rw [Nat.add_zero, h] at this
  unfold Torus.neighbour
  cases hn : nbrAt i 1 t.dims j with
  | none => rw [hn] at this; cases this
  | some nb =>
    rw [hn] at this
    simp only [Option.map_some, Option.some.injEq, Prod.mk.injEq, TLink.cable.injEq] at this
    rw [this.1.2.1]

/-- **every hop uses a declared link**: going right, `next` is the neighbour of `cur` along the hop's dimension; going
left, `cur` is the neighbour of `next` -/
theorem hop_declared (t : Torus) (dst : Nat) (tri : List (Nat × Nat × Nat)) (hpos : ∀ x ∈ tri, 0 < x.1)
    (hdims : triDims tri = t.dims) (h : Hop) (hscan : scan h.cur dst 0 1 tri = some h) :
    h.dim < t.dims.length ∧
    (if h.up then t.neighbour h.cur h.dim = some h.next else t.neighbour h.next h.dim = some h.cur) := by
  have hj : h.dim < t.dims.length := by
    have := (scan_facts _ _ _ _ _ _ hscan).2.2
    rw [← hdims, triDims, List.length_map]; omega
  refine ⟨hj, ?_⟩
  cases hup : h.up
  · have h1 := scan_down_link h.cur dst ((finalState t).nodePosLbLim h.next) tri 0 1 h hpos (by omega) hscan hup
    rw [hdims] at h1
    simpa using nbr_of_at t _ _ _ _ _ h1
  · have h1 := scan_up_link h.cur dst ((finalState t).nodePosLbLim h.cur) tri 0 1 h hpos hscan hup
    rw [hdims] at h1
    simpa using nbr_of_at t _ _ _ _ _ h1

/-- **the `private_links_` table after `do_seal`**, position by position -/
theorem sealed_table (t : Torus) (i : Nat) (hi : i < t.tot) :
    (t.lb = true → Entries.at (sealedEntries t) ((finalState t).nodePos i) = some (TLink.loopback i, TLink.loopback i)) ∧
    (t.lim = true → Entries.at (sealedEntries t) ((finalState t).nodePosLb i) = some (TLink.limiter i, TLink.limiter i)) ∧
    (∀ j, j < t.dims.length → Entries.at (sealedEntries t) ((finalState t).nodePosLbLim i + j)
        = (t.neighbour i j).map (fun nb => (TLink.cable i nb true, TLink.cable i nb false))) := by
  refine ⟨lookup_loopback t i hi, lookup_limiter t i hi, ?_⟩
  intro j hj
  have h := torusLinks_at i i ((finalState t).nodePosLbLim i) t.dims 0 1 j
  rw [Nat.add_zero] at h
  unfold Torus.neighbour
  cases hn : nbrAt i 1 t.dims j with
  | none =>
    -- impossible: j < dims.length; but the statement holds anyway only if the lookup fails, so show a neighbour exists
    exfalso
    have : ∀ (ds : List Nat) (P k : Nat), k < ds.length → nbrAt i P ds k ≠ none := by
      intro ds
      induction ds with
      | nil => intro P k hk; simp at hk
      | cons d ds ih =>
        intro P k hk
        cases k with
        | zero => simp [nbrAt]
        | succ k => simp only [nbrAt]; exact ih _ _ (by simpa using hk)
    exact this _ _ _ hj hn
  | some nb =>
    rw [hn] at h
    exact lookup_cable t i j _ hi hj h

end SgVerif.C26
