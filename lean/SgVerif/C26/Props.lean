import SgVerif.C26.Lemmas
import SgVerif.C26.FatTreeLemmas
import SgVerif.C26.DragonflyLemmas
/-
C26 — Structured topologies follow their routing algorithms.  Property theorems (nothing else in this file).
Every theorem is for ALL shapes (any number of dimensions, any sizes >= 1) and all node pairs: no enumeration.
-/
namespace SgVerif.C26

/-! ## Torus (TorusZone::get_local_route) -/

/-- well-formed shape: every dimension has size >= 1 (what `add_netzone_torus` accepts) -/
def Torus.WF (t : Torus) : Prop := ∀ d ∈ t.dims, 0 < d

/-- `(cur_dim, myCoords[j], targetCoords[j])` for every dimension, as computed by the first loop of get_local_route -/
def Torus.tri (t : Torus) (src dst : Nat) : List (Nat × Nat × Nat) :=
  zip3 t.dims (coordsFrom src 1 t.dims) (coordsFrom dst 1 t.dims)

/-- per dimension: `min(f, d - f)` where `f = (target - my) mod d` is the distance going "right" (+1 steps) -/
def Torus.minDist (t : Torus) (src dst : Nat) : List Nat :=
  (t.tri src dst).map (fun x => min (distR x.1 x.2.1 x.2.2) (x.1 - distR x.1 x.2.1 x.2.2))

/-- the closed description of the route: dimension 0 first (a ring walk of `dist` steps in the direction chosen by the
code's test on the source/target coordinates), then dimension 1, ... -/
def Torus.specHops (t : Torus) (src dst : Nat) : List Hop := specR (t.tri src dst) src

theorem torus_tri_facts (t : Torus) (hwf : t.WF) (src dst : Nat) :
    TriOk dst (t.tri src dst) ∧ SrcOk src (t.tri src dst) ∧ prodTri (t.tri src dst) = t.tot ∧
    (∀ x ∈ t.tri src dst, 0 < x.1) ∧ triDims (t.tri src dst) = t.dims := by
  have := tri_props src dst t.dims 1 hwf
  simp only [Nat.div_one] at this
  exact this

/-- **the `while` loop terminates and computes exactly the dimension-ordered walk**, for every shape and node pair -/
theorem torus_hops_spec (t : Torus) (hwf : t.WF) (src dst : Nat) (hs : src < t.tot) (hd : dst < t.tot) :
    t.hops src dst = some (t.specHops src dst) := by
  obtain ⟨h1, _, h3, h4, _⟩ := torus_tri_facts t hwf src dst
  unfold Torus.hops Torus.specHops
  change hopsLoop dst (t.tri src dst) t.tot src = _
  rw [hopsLoop_eq_hopsR dst _ h4]
  apply hopsR_spec _ _ _ _ h1 (by rw [h3]; exact hs) (by rw [h3]; exact hd)
  have := needed_lt_prod _ src dst h1
  rw [h3] at this; omega

/-- **dimension order**: the dimensions of the successive hops never decrease: the route finishes one dimension
before it starts the next, lowest dimension first -/
theorem torus_dimension_order (t : Torus) (hwf : t.WF) (src dst : Nat) (hs : src < t.tot) (hd : dst < t.tot) :
    ∃ hs, t.hops src dst = some hs ∧ (hs.map (·.dim)).Pairwise (· ≤ ·) :=
  ⟨_, torus_hops_spec t hwf src dst hs hd, specR_sorted _ _⟩

/-- **each hop changes exactly one coordinate** (its dimension's) by one step modulo the dimension size, in the hop's
direction; all other coordinates are untouched (`moveAt`). -/
theorem torus_hop_moves_one_coordinate (t : Torus) (hwf : t.WF) (src dst : Nat) (hs : src < t.tot) (hd : dst < t.tot) :
    ∃ hs, t.hops src dst = some hs ∧
      ∀ h ∈ hs, coordsFrom h.next 1 t.dims = moveAt t.dims (coordsFrom h.cur 1 t.dims) h.dim h.up := by
  obtain ⟨h1, _, _, _, h5⟩ := torus_tri_facts t hwf src dst
  refine ⟨_, torus_hops_spec t hwf src dst hs hd, ?_⟩
  intro h hm
  have := specR_moves _ src dst h1 h hm
  rw [h5] at this
  simpa only [coordsFrom_eq_digits, Nat.div_one] using this

/-- **shorter way round**: along dimension `j` the route makes exactly `min(f_j, d_j - f_j)` hops, all in the same
direction, the one chosen by the code's test on the SOURCE and target coordinates -/
theorem torus_shorter_way (t : Torus) (hwf : t.WF) (src dst : Nat) (hs : src < t.tot) (hd : dst < t.tot) :
    ∃ hs, t.hops src dst = some hs ∧
      (∀ j, (hs.filter (fun h => h.dim == j)).length = (t.minDist src dst).getD j 0) ∧
      (∀ h ∈ hs, ∃ x, (t.tri src dst)[h.dim]? = some x ∧ h.up = goRight x.2.1 x.2.2 x.1) := by
  obtain ⟨h1, h2, _, _, _⟩ := torus_tri_facts t hwf src dst
  refine ⟨_, torus_hops_spec t hwf src dst hs hd, ?_, specR_dir _ _⟩
  intro j
  rw [Torus.specHops, specR_count _ _ h2 j, distList_eq_minList _ _ _ h1 h2]
  rfl

/-- **which way at a tie** (and in general): for coordinates `m ≠ t` in a ring of size `d` the code goes right (+1 steps,
UP links) iff the forward distance `f` is at most `d/2`, EXCEPT when `d` is even, `m = d/2` and `t = 0` (then `f = d/2`
exactly and it goes left).  So at `f = d/2` the route goes right unless the source coordinate is `d/2` and the target 0;
both ways have the same length there. -/
theorem torus_direction_rule (d m t : Nat) (hm : m < d) (ht : t < d) (hne : m ≠ t) :
    goRight m t d = true ↔ (distR d m t ≤ d / 2 ∧ ¬ (t = 0 ∧ 2 * m = d)) :=
  goRight_iff d m t hm ht hne

/-- **length**: the number of hops (= number of torus links in the route) is `Σ_j min(f_j, d_j - f_j)` -/
theorem torus_length (t : Torus) (hwf : t.WF) (src dst : Nat) (hs : src < t.tot) (hd : dst < t.tot) :
    ∃ hs, t.hops src dst = some hs ∧ hs.length = (t.minDist src dst).sum := by
  obtain ⟨h1, h2, _, _, _⟩ := torus_tri_facts t hwf src dst
  refine ⟨_, torus_hops_spec t hwf src dst hs hd, ?_⟩
  rw [Torus.specHops, specR_length _ _ h2, distList_eq_minList _ _ _ h1 h2]
  rfl

/-- **reaches the destination**: the hops form a chain `src = h0.cur, h0.next = h1.cur, ..., last.next = dst` -/
theorem torus_reaches_dst (t : Torus) (hwf : t.WF) (src dst : Nat) (hs : src < t.tot) (hd : dst < t.tot) :
    ∃ hs, t.hops src dst = some hs ∧ Chain src hs dst := by
  obtain ⟨h1, _, h3, _, _⟩ := torus_tri_facts t hwf src dst
  exact ⟨_, torus_hops_spec t hwf src dst hs hd, specR_chain _ src dst h1 (by rw [h3]; exact hs) (by rw [h3]; exact hd)⟩

/-- non-vacuity: 4x4 torus, 5 -> 15 (coordinates (1,1) -> (3,3)): ties in both dimensions, 4 hops -/
example : ({ dims := [4, 4], lb := false, lim := false } : Torus).hops 5 15
    = some [⟨5, 6, 0, true⟩, ⟨6, 7, 0, true⟩, ⟨7, 11, 1, true⟩, ⟨11, 15, 1, true⟩] := by decide
/-- the tie exception: ring of 4, 2 -> 0 goes LEFT (m = d/2, t = 0) while 3 -> 1 goes right through the wrap-around -/
example : ({ dims := [4], lb := false, lim := false } : Torus).hops 2 0 = some [⟨2, 1, 0, false⟩, ⟨1, 0, 0, false⟩] := by decide
example : ({ dims := [4], lb := false, lim := false } : Torus).hops 3 1 = some [⟨3, 0, 0, true⟩, ⟨0, 1, 0, true⟩] := by decide


/-! ## Star (StarZone::get_local_route) -/

/-- **up links of the source, then down links of the destination, without repetition**: for every table and every pair
that is not answered by the loopback, the route `r` has no duplicate, contains exactly the links of `links_up(src)` and
`links_down(dst)`, and splits as `u ++ d` with `u` = the up links in order (each once, all of them) followed by `d` =
down links in order (those not already present) -/
theorem star_up_then_down_nodup (tb : StarTable) (src dst : Nat) (r : List String)
    (hlb : ¬ (src = dst ∧ (tb.get src).loopback ≠ [])) (h : starRoute tb src dst = some r) :
    r.Nodup ∧ (∀ x, x ∈ r ↔ x ∈ (tb.get src).linksUp ∨ x ∈ (tb.get dst).linksDown) ∧
    ∃ u d, r = u ++ d ∧ u.Sublist (tb.get src).linksUp ∧ (∀ x ∈ (tb.get src).linksUp, x ∈ u) ∧
      d.Sublist (tb.get dst).linksDown := by
  unfold starRoute at h
  simp only [hlb, if_false] at h
  split at h
  · cases h
  · split at h
    · cases h
    · injection h with h
      subst h
      refine ⟨addLinks_nodup _ _ (addLinks_nodup _ _ List.nodup_nil), ?_, ?_⟩
      · intro x; rw [addLinks_mem, addLinks_mem]; simp
      · obtain ⟨u, hu1, hu2⟩ := addLinks_prefix (tb.get src).linksUp []
        obtain ⟨d, hd1, hd2⟩ := addLinks_prefix (tb.get dst).linksDown (addLinks (tb.get src).linksUp [])
        refine ⟨u, d, ?_, hu2, ?_, hd2⟩
        · rw [hd1, hu1]; simp
        · intro x hx
          have := (addLinks_mem (tb.get src).linksUp [] x).mpr (Or.inr hx)
          rw [hu1] at this; simpa using this

/-- **loopback**: a pair `src = dst` with a configured (non-empty) loopback is answered by the loopback links only -/
theorem star_loopback (tb : StarTable) (src : Nat) (h : (tb.get src).loopback ≠ []) :
    starRoute tb src src = some (addLinks (tb.get src).loopback []) := by
  unfold starRoute; simp [h]

example : starRoute (starSeal ([StarAdd.up 0 [.shared "a", .shared "b"] false, StarAdd.down 1 [.shared "b", .shared "c"]].foldl starAdd []) 2) 0 1
    = some ["a", "b", "c"] := by decide

/-! ## Dragonfly (DragonflyZone::get_local_route): theorems on the control flow over router numbers -/

/-- **at most one blue (inter-group) hop**, for every shape and every pair of router coordinates -/
theorem dragonfly_at_most_one_blue (d : Dragonfly) (my tg : RCoord) :
    ((d.steps my tg).filter (fun s => s.slot.kind == 3)).length ≤ 1 := by
  unfold Dragonfly.steps
  simp only []
  (repeat' split) <;> simp [DSlot.kind]

/-- **hop order**: the inter-router hops are `(green? black? blue)? green? black?` (1 = green, 2 = black, 3 = blue), and a
blue hop is always the end of the first part -/
theorem dragonfly_hop_order (d : Dragonfly) (my tg : RCoord) :
    (d.steps my tg).map (fun s => s.slot.kind) ∈
      [[], [1], [2], [1, 2], [3], [1, 3], [2, 3], [1, 2, 3], [3, 1], [3, 2], [3, 1, 2], [1, 3, 1], [1, 3, 2], [1, 3, 1, 2],
       [2, 3, 1], [2, 3, 2], [2, 3, 1, 2], [1, 2, 3, 1], [1, 2, 3, 2], [1, 2, 3, 1, 2]] := by
  unfold Dragonfly.steps
  simp only []
  (repeat' split) <;> simp [DSlot.kind]

/-- regression for the fixed defect (repo commit 20a422990d): within a group, after the green hop the route stays in
the chassis it is in.  Before the fix the code continued from the router of chassis 0
(`currentRouter = &routers_[group * (C*B) + blade]`) and this route was the single green hop `[⟨2, .green 1, true, 1⟩]`,
which is disconnected: the green link of chassis 1 ends on router 3 = (0,1,1), not on router 1 = (0,0,1).
1 group x 2 chassis x 2 routers: router (0,1,0) -> router (0,0,1) is now a green hop followed by a black hop. -/
theorem dragonfly_same_group_regression :
    (⟨1, 2, 2, 1, false, false, true, 0⟩ : Dragonfly).steps ⟨0, 1, 0⟩ ⟨0, 0, 1⟩ =
      [⟨2, .green 1, true, 3⟩, ⟨3, .black 0, true, 3⟩] := by decide

/-- **the documented hop structure**, exactly: for every shape with `groups <= routers per chassis` (what
`add_netzone_dragonfly` accepts) and every pair of router coordinates within the shape, the control flow of
get_local_route yields `specSteps`: towards another group `[green to the blade numbered like the target group]?
[black to chassis 0]? blue [green to the target blade]? [black to the target chassis]?`, inside a group
`[green to the target blade]? [black to the target chassis]?`, each hop present iff the coordinate it fixes differs -/
theorem dragonfly_hop_structure (d : Dragonfly) (my tg : RCoord) (hmy : my.InRange d) (htg : tg.InRange d)
    (hGB : d.G ≤ d.B) : d.steps my tg = d.specSteps my tg :=
  steps_eq_spec d my tg hmy htg hGB

/-- **connectivity** (repaired code): every hop is read from the link arrays of the router the walk is on (a valid index
of `routers_`), the link in that slot leads — by the wiring of generate_links, `Dragonfly.peer` — to the router the next
hop is read from, and the last one leads to the target router; the first hop leaves from the source router -/
theorem dragonfly_connected (d : Dragonfly) (my tg : RCoord) (hmy : my.InRange d) (htg : tg.InRange d) (hGB : d.G ≤ d.B) :
    DConnected d (d.ridx my) (d.steps my tg) (d.ridx tg) := by
  rw [steps_eq_spec d my tg hmy htg hGB]
  exact specSteps_connected d my tg hmy htg hGB

/-- the same for the routers of two leaves `src`, `dst < G*C*B*N` (the coordinates `rankId_to_coords` computes are within
the shape): this is the list of hops `Dragonfly.route` renders between the source's and the target's local links -/
theorem dragonfly_route_connected (d : Dragonfly) (hGB : d.G ≤ d.B) (src dst : Nat) (hs : src < d.tot) (hd : dst < d.tot) :
    (d.coords src).1.InRange d ∧ (d.coords dst).1.InRange d ∧
    DConnected d (d.ridx (d.coords src).1) (d.steps (d.coords src).1 (d.coords dst).1) (d.ridx (d.coords dst).1) :=
  ⟨coords_inRange d src hs, coords_inRange d dst hd,
   dragonfly_connected d _ _ (coords_inRange d src hs) (coords_inRange d dst hd) hGB⟩

/-- on the link tables: when the tables built by `genLinks` are wired as `peer` says (`wiringOk`: executable, evaluated
by the driver on every dragonfly of the correspondence and by `decide` below — NOT proved for all shapes), every hop's
slot holds a link whose other half sits in the back slot of the router the next hop leaves from -/
theorem dragonfly_hops_are_links (d : Dragonfly) (hw : d.wiringOk = true) (my tg : RCoord) (hmy : my.InRange d)
    (htg : tg.InRange d) (hGB : d.G ≤ d.B) : DLinked d (d.ridx my) (d.steps my tg) (d.ridx tg) :=
  DConnected_linked d hw _ _ _ (dragonfly_connected d my tg hmy htg hGB)

/-- non-vacuity: 2 groups x 2 chassis x 2 routers: the tables are wired as `peer` says, and router (0,1,0) -> (1,1,1) takes
all five hops green, black, blue, green, black -/
example : (⟨2, 2, 2, 1, false, false, true, 0⟩ : Dragonfly).wiringOk = true := by decide
example : ((⟨2, 2, 2, 1, false, false, true, 0⟩ : Dragonfly).steps ⟨0, 1, 0⟩ ⟨1, 1, 1⟩).map (fun s => (s.owner, s.slot)) =
    [(2, .green 1), (3, .black 0), (1, .blue), (4, .green 1), (5, .black 1)] := by decide
example : (⟨1, 1, 1⟩ : RCoord).InRange ⟨2, 2, 2, 1, false, false, true, 0⟩ := by unfold RCoord.InRange; decide

/-! ## Fat tree (FatTreeZone::get_local_route)

For ALL well-formed parameters `f.WF` (levels >= 1; every down / up fan-out and link multiplicity >= 1; any static offsets)
and every table `t` that is well formed in the sense of `FTables.WF f t` (= the executable `FTables.wfCheck f t`,
`FTables.wfCheck_sound`): ports lead to links, links to nodes one level up / down whose label differs from the current
node's in the digit of that level only, leaf labels are in range and distinct.  That `f.build` (the model of
add_processing_node / generate_switches / generate_labels / connect_node_to_parents) satisfies `wfCheck` is NOT proved
for all parameters: it is evaluated by the driver on every fat tree of the correspondence (MONFAIL otherwise), and by
`decide` in the examples below.  The routing loops themselves (up `while`, down `while` with its inner `for` that does
not `break`) are covered for every such table: no bound on levels, fan-outs, multiplicities. -/

/-- **up to the nearest common ancestor, then down**: for two leaves `src`, `dst` (not answered by the loopback) the route is
`ru ++ rd ++ limiter(dst)` where `ru` renders `k` tree edges going UP from `src` (each taken from the `parents` array of
the node the previous one arrived at) and `rd` renders `k` tree edges going DOWN to `dst` (each from the `children`
array of the node reached), `k = ncaLevel` = 1 + the highest label digit where the two leaves differ (`ncaLevel_is_nca`).
`renderUp`/`renderDown` put the limiter of the node a hop leaves before an up link / after a down link. -/
theorem fattree_up_to_nca_then_down (f : FatTree) (t : FTables) (hf : f.WF) (hwf : t.WF f) (src dst : Nat) (s d : FNode)
    (hs : t.nodes[src]? = some s) (hd : t.nodes[dst]? = some d) (hs0 : s.level = 0) (hd0 : d.level = 0)
    (hlb : ¬ (s.id = d.id ∧ f.lb = true)) :
    ∃ ups downs ru rd top,
      ups.length = ncaLevel s.label d.label f.levels ∧ downs.length = ncaLevel s.label d.label f.levels ∧
      UpPath t src ups top ∧ DownPath t top downs dst ∧
      f.renderUp t ups = some ru ∧ f.renderDown t downs = some rd ∧
      f.route t src dst = some (ru ++ rd ++ f.limiterOf d) := by
  obtain ⟨k1, k2, k3, k4⟩ := ncaLevel_spec s.label d.label f.levels
  have hL : 0 < f.levels := hf.1
  obtain ⟨ups, ru, top, tn, u1, u2, u3, u4, u5, u6, u7⟩ :=
    upLoop_spec f t hf hwf s d hd0 (ncaLevel s.label d.label f.levels) (by omega)
      (fun j hj hjL => k3 j hj hjL) k4 (ncaLevel s.label d.label f.levels) (f.levels + 1) src s [] hs
      (fun _ _ _ => rfl) (by omega) k1 (by omega)
  obtain ⟨downs, rd, d1, d2, d3, d4⟩ :=
    downLoop_spec f t hf hwf s.position d dst hd hd0 (f.levels + 1) top tn ([] ++ ru) u5 (by rw [u6]; exact u7) (by omega)
  refine ⟨ups, downs, ru, rd, top, u3, by omega, u4, d4, u1, d1, ?_⟩
  simp only [List.nil_append] at u2 d2
  unfold FatTree.route
  simp only [hs, hd, hs0, hd0, ne_eq, not_true_eq_false, or_self, if_false, hlb, u2, d2]

/-- **reaches the destination**: the tree edges of the route chain from `src` up to a node `top` and from `top` down to
`dst` (each edge is stored in the port array of the node it leaves) -/
theorem fattree_reaches_dst (f : FatTree) (t : FTables) (hf : f.WF) (hwf : t.WF f) (src dst : Nat) (s d : FNode)
    (hs : t.nodes[src]? = some s) (hd : t.nodes[dst]? = some d) (hs0 : s.level = 0) (hd0 : d.level = 0)
    (hlb : ¬ (s.id = d.id ∧ f.lb = true)) :
    ∃ r ups downs top, f.route t src dst = some r ∧ UpPath t src ups top ∧ DownPath t top downs dst ∧
      ∃ ru rd, f.renderUp t ups = some ru ∧ f.renderDown t downs = some rd ∧ r = ru ++ rd ++ f.limiterOf d := by
  obtain ⟨ups, downs, ru, rd, top, _, _, h3, h4, h5, h6, h7⟩ :=
    fattree_up_to_nca_then_down f t hf hwf src dst s d hs hd hs0 hd0 hlb
  exact ⟨_, ups, downs, top, h7, h3, h4, ru, rd, h5, h6, rfl⟩

/-- **k UP links then k DOWN links, length 2k**: the route is `ru ++ rd ++ limiter(dst)`; `ru` holds exactly `k` cables, all
UP halves, `rd` exactly `k` cables, all DOWN halves (`k = ncaLevel`); without limiters the route has exactly `2k` links,
with limiters `4k + 1` (one limiter per hop, for the node the hop leaves, plus the destination's) -/
theorem fattree_link_count (f : FatTree) (t : FTables) (hf : f.WF) (hwf : t.WF f) (src dst : Nat) (s d : FNode)
    (hs : t.nodes[src]? = some s) (hd : t.nodes[dst]? = some d) (hs0 : s.level = 0) (hd0 : d.level = 0)
    (hlb : ¬ (s.id = d.id ∧ f.lb = true)) :
    ∃ ru rd, f.route t src dst = some (ru ++ rd ++ f.limiterOf d) ∧
      (ru.filter FTLink.isCable).length = ncaLevel s.label d.label f.levels ∧
      (∀ x ∈ ru, x.isCable = true → x.isUpCable = true) ∧
      (rd.filter FTLink.isCable).length = ncaLevel s.label d.label f.levels ∧
      (∀ x ∈ rd, x.isCable = true → x.isDownCable = true) ∧
      (ru ++ rd ++ f.limiterOf d).length =
        if f.lim then 4 * ncaLevel s.label d.label f.levels + 1 else 2 * ncaLevel s.label d.label f.levels := by
  obtain ⟨ups, downs, ru, rd, top, h1, h2, _, _, h5, h6, h7⟩ :=
    fattree_up_to_nca_then_down f t hf hwf src dst s d hs hd hs0 hd0 hlb
  obtain ⟨a1, a2, a3⟩ := renderUp_shape f t ups ru h5
  obtain ⟨b1, b2, b3⟩ := renderDown_shape f t downs rd h6
  refine ⟨ru, rd, h7, by omega, a2, by omega, b2, ?_⟩
  simp only [List.length_append, a3, b3, limiterOf_length, h1, h2]
  split <;> omega

/-- **`ncaLevel` is the level of the nearest common ancestor**: `k = ncaLevel a b levels` is at least 1, at most `levels`,
the labels agree on all digits `>= k` (so the ancestors of level `k` coincide: an ancestor of level `l` of a leaf keeps
the leaf's digits `>= l`) and, when `k > 1`, they differ at digit `k - 1` (so no level below `k` has a common ancestor) -/
theorem ncaLevel_is_nca (a b : List Nat) (levels : Nat) (h : 0 < levels) :
    1 ≤ ncaLevel a b levels ∧ ncaLevel a b levels ≤ levels ∧
    (∀ j, ncaLevel a b levels ≤ j → j < levels → a.getD j 0 = b.getD j 0) ∧
    (1 < ncaLevel a b levels → a.getD (ncaLevel a b levels - 1) 0 ≠ b.getD (ncaLevel a b levels - 1) 0) := by
  obtain ⟨k1, k2, k3, k4⟩ := ncaLevel_spec a b levels
  exact ⟨k1, by omega, k3, k4⟩

/-- **loopback**: `src = dst` with a loopback configured is answered by the loopback link alone -/
theorem fattree_loopback (f : FatTree) (t : FTables) (src : Nat) (s : FNode) (hs : t.nodes[src]? = some s)
    (hs0 : s.level = 0) (hlb : f.lb = true) : f.route t src src = some [.loopback s.id] := by
  unfold FatTree.route
  simp [hs, hs0, hlb]

/-- non-vacuity: 2 levels, 2x2 leaves, 1 then 2 parents, 1 then 2 parallel cables, limiters: the construction is well formed
(so the theorems apply to `f.build`), and a route across the top level: 2 UP cables, 2 DOWN cables, 5 limiters -/
example : (⟨2, [2, 2], [1, 2], [1, 2], false, true, true, 0, 0⟩ : FatTree).WF := paramsOk_sound _ (by decide)
example : FTables.WF ⟨2, [2, 2], [1, 2], [1, 2], false, true, true, 0, 0⟩
    (FatTree.build ⟨2, [2, 2], [1, 2], [1, 2], false, true, true, 0, 0⟩) := FTables.wfCheck_sound _ _ (by decide)
example : (FatTree.route ⟨2, [2, 2], [1, 2], [1, 2], false, true, true, 0, 0⟩
    (FatTree.build ⟨2, [2, 2], [1, 2], [1, 2], false, true, true, 0, 0⟩) 0 3).map (·.length) = some 9 := by decide
example : ncaLevel [0, 0] [1, 1] 2 = 2 := by decide
example : (FatTree.route ⟨2, [2, 2], [1, 2], [1, 2], true, true, true, 0, 0⟩
    (FatTree.build ⟨2, [2, 2], [1, 2], [1, 2], true, true, true, 0, 0⟩) 1 1) = some [.loopback 1] := by decide

end SgVerif.C26
