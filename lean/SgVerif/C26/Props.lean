import SgVerif.C26.Lemmas
import SgVerif.C26.FatTreeLemmas
import SgVerif.C26.DragonflyLemmas
import SgVerif.C26.DragonflyWiring
import SgVerif.C26.FatTreeBuild
import SgVerif.C26.TorusLinks
/-
C26 — Structured topologies follow their routing algorithms.  Property theorems (nothing else in this file).
Every theorem is for ALL shapes (any number of dimensions, any sizes >= 1) and all node pairs: no enumeration.
-/
namespace SgVerif.C26

/-! ## Torus (TorusZone::get_local_route) -/

/-- well-formed shape: every dimension has size >= 1 (what `add_netzone_torus` accepts) -/
def Torus.WF (t : Torus) : Prop := ∀ d ∈ t.dims, 0 < d

/-- `(cur_dim, myCoords[j], targetCoords[j])` for every dimension, as computed by the first loop of get_local_route -/
def Torus.tri (t : Torus) (src dst : Nat) : List (Nat × Nat × Nat) :=
  zip3 t.dims (coordsFrom src 1 t.dims) (coordsFrom dst 1 t.dims)

/-- per dimension: `min(f, d - f)` where `f = (target - my) mod d` is the distance going "right" (+1 steps) -/
def Torus.minDist (t : Torus) (src dst : Nat) : List Nat :=
  (t.tri src dst).map (fun x => min (distR x.1 x.2.1 x.2.2) (x.1 - distR x.1 x.2.1 x.2.2))

/-- the closed description of the route: dimension 0 first (a ring walk of `dist` steps in the direction chosen by the
code's test on the source/target coordinates), then dimension 1, ... -/
def Torus.specHops (t : Torus) (src dst : Nat) : List Hop := specR (t.tri src dst) src

theorem torus_tri_facts (t : Torus) (hwf : t.WF) (src dst : Nat) :
    TriOk dst (t.tri src dst) ∧ SrcOk src (t.tri src dst) ∧ prodTri (t.tri src dst) = t.tot ∧
    (∀ x ∈ t.tri src dst, 0 < x.1) ∧ triDims (t.tri src dst) = t.dims := by
  have := tri_props src dst t.dims 1 hwf
  simp only [Nat.div_one] at this
  exact this

/-- **the `while` loop terminates and computes exactly the dimension-ordered walk**, for every shape and node pair -/
theorem torus_hops_spec (t : Torus) (hwf : t.WF) (src dst : Nat) (hs : src < t.tot) (hd : dst < t.tot) :
    t.hops src dst = some (t.specHops src dst) := by
  obtain ⟨h1, _, h3, h4, _⟩ := torus_tri_facts t hwf src dst
  unfold Torus.hops Torus.specHops
  change hopsLoop dst (t.tri src dst) t.tot src = _
  rw [hopsLoop_eq_hopsR dst _ h4]
  apply hopsR_spec _ _ _ _ h1 (by rw [h3]; exact hs) (by rw [h3]; exact hd)
  have := needed_lt_prod _ src dst h1
  rw [h3] at this; omega

/-- **dimension order**: the dimensions of the successive hops never decrease: the route finishes one dimension
before it starts the next, lowest dimension first -/
theorem torus_dimension_order (t : Torus) (hwf : t.WF) (src dst : Nat) (hs : src < t.tot) (hd : dst < t.tot) :
    ∃ hs, t.hops src dst = some hs ∧ (hs.map (·.dim)).Pairwise (· ≤ ·) :=
  ⟨_, torus_hops_spec t hwf src dst hs hd, specR_sorted _ _⟩

/-- **each hop changes exactly one coordinate** (its dimension's) by one step modulo the dimension size, in the hop's
direction; all other coordinates are untouched (`moveAt`). -/
theorem torus_hop_moves_one_coordinate (t : Torus) (hwf : t.WF) (src dst : Nat) (hs : src < t.tot) (hd : dst < t.tot) :
    ∃ hs, t.hops src dst = some hs ∧
      ∀ h ∈ hs, coordsFrom h.next 1 t.dims = moveAt t.dims (coordsFrom h.cur 1 t.dims) h.dim h.up := by
  obtain ⟨h1, _, _, _, h5⟩ := torus_tri_facts t hwf src dst
  refine ⟨_, torus_hops_spec t hwf src dst hs hd, ?_⟩
  intro h hm
  have := specR_moves _ src dst h1 h hm
  rw [h5] at this
  simpa only [coordsFrom_eq_digits, Nat.div_one] using this

/-- **shorter way round**: along dimension `j` the route makes exactly `min(f_j, d_j - f_j)` hops, all in the same
direction, the one chosen by the code's test on the SOURCE and target coordinates -/
theorem torus_shorter_way (t : Torus) (hwf : t.WF) (src dst : Nat) (hs : src < t.tot) (hd : dst < t.tot) :
    ∃ hs, t.hops src dst = some hs ∧
      (∀ j, (hs.filter (fun h => h.dim == j)).length = (t.minDist src dst).getD j 0) ∧
      (∀ h ∈ hs, ∃ x, (t.tri src dst)[h.dim]? = some x ∧ h.up = goRight x.2.1 x.2.2 x.1) := by
  obtain ⟨h1, h2, _, _, _⟩ := torus_tri_facts t hwf src dst
  refine ⟨_, torus_hops_spec t hwf src dst hs hd, ?_, specR_dir _ _⟩
  intro j
  rw [Torus.specHops, specR_count _ _ h2 j, distList_eq_minList _ _ _ h1 h2]
  rfl

/-- **which way at a tie** (and in general): for coordinates `m ≠ t` in a ring of size `d` the code goes right (+1 steps,
UP links) iff the forward distance `f` is at most `d/2`, EXCEPT when `d` is even, `m = d/2` and `t = 0` (then `f = d/2`
exactly and it goes left).  So at `f = d/2` the route goes right unless the source coordinate is `d/2` and the target 0;
both ways have the same length there. -/
theorem torus_direction_rule (d m t : Nat) (hm : m < d) (ht : t < d) (hne : m ≠ t) :
    goRight m t d = true ↔ (distR d m t ≤ d / 2 ∧ ¬ (t = 0 ∧ 2 * m = d)) :=
  goRight_iff d m t hm ht hne

/-- **length**: the number of hops (= number of torus links in the route) is `Σ_j min(f_j, d_j - f_j)` -/
theorem torus_length (t : Torus) (hwf : t.WF) (src dst : Nat) (hs : src < t.tot) (hd : dst < t.tot) :
    ∃ hs, t.hops src dst = some hs ∧ hs.length = (t.minDist src dst).sum := by
  obtain ⟨h1, h2, _, _, _⟩ := torus_tri_facts t hwf src dst
  refine ⟨_, torus_hops_spec t hwf src dst hs hd, ?_⟩
  rw [Torus.specHops, specR_length _ _ h2, distList_eq_minList _ _ _ h1 h2]
  rfl

/-- **reaches the destination**: the hops form a chain `src = h0.cur, h0.next = h1.cur, ..., last.next = dst` -/
theorem torus_reaches_dst (t : Torus) (hwf : t.WF) (src dst : Nat) (hs : src < t.tot) (hd : dst < t.tot) :
    ∃ hs, t.hops src dst = some hs ∧ Chain src hs dst := by
  obtain ⟨h1, _, h3, _, _⟩ := torus_tri_facts t hwf src dst
  exact ⟨_, torus_hops_spec t hwf src dst hs hd, specR_chain _ src dst h1 (by rw [h3]; exact hs) (by rw [h3]; exact hd)⟩

/-- non-vacuity: 4x4 torus, 5 -> 15 (coordinates (1,1) -> (3,3)): ties in both dimensions, 4 hops -/
example : ({ dims := [4, 4], lb := false, lim := false } : Torus).hops 5 15
    = some [⟨5, 6, 0, true⟩, ⟨6, 7, 0, true⟩, ⟨7, 11, 1, true⟩, ⟨11, 15, 1, true⟩] := by decide
/-- the tie exception: ring of 4, 2 -> 0 goes LEFT (m = d/2, t = 0) while 3 -> 1 goes right through the wrap-around -/
example : ({ dims := [4], lb := false, lim := false } : Torus).hops 2 0 = some [⟨2, 1, 0, false⟩, ⟨1, 0, 0, false⟩] := by decide
example : ({ dims := [4], lb := false, lim := false } : Torus).hops 3 1 = some [⟨3, 0, 0, true⟩, ⟨0, 1, 0, true⟩] := by decide


/-! ### Torus: the LINKS returned by `get_local_route` (the `private_links_` position arithmetic)

`Torus.route = routeWith t t.seal`: the table is the sequence of `try_emplace` calls of `do_seal` (`fill_leaf_from_cb`'s
loopback / limiter entries, `create_torus_links` entries at `node_pos_with_loopback_limiter(id) + j`, with
`num_links_per_node_` growing while the first leaf is filled), read back by `get_uplink_from` / `get_downlink_to` at the
positions `get_local_route` computes.  All theorems: every well-formed shape (incl. dimensions of size 1, any number of
dimensions), every loopback/limiter configuration, every pair of nodes. -/

/-- closed form of the link list: for every hop of the dimension-ordered walk, the limiter of the current node (when
limiters are configured) then the cable — `hopCable`: going right the UP half of `<zone>_link_from_<cur>_to_<next>`, going
left the DOWN half of `<zone>_link_from_<next>_to_<cur>` — and at the end the limiter of the destination -/
def Torus.specLinks (t : Torus) (src dst : Nat) : List TLink := linksOfHops t.lim dst (t.specHops src dst)

/-- **the links of the route**: sealing then routing never throws (`.at`) and yields exactly the closed form, for every
pair that is not answered by the loopback shortcut -/
theorem torus_route_links (t : Torus) (hwf : t.WF) (src dst : Nat) (hs : src < t.tot) (hd : dst < t.tot)
    (hnl : ¬ (src = dst ∧ t.lb = true)) : t.route src dst = some (t.specLinks src dst) :=
  route_links t hwf src dst hs hd hnl

/-- **loopback**: with a loopback callback, `src -> src` is the loopback link of `src` and nothing else (no limiter) -/
theorem torus_loopback (t : Torus) (hwf : t.WF) (src : Nat) (hs : src < t.tot) (hlb : t.lb = true) :
    t.route src src = some [TLink.loopback src] :=
  route_loopback t hwf src hs hlb

/-- without loopback callback, `src -> src` has no cable: only the (receiver) limiter of `src` when limiters are configured -/
theorem torus_self_without_loopback (t : Torus) (hwf : t.WF) (src : Nat) (hs : src < t.tot) (hlb : t.lb = false) :
    t.route src src = some (if t.lim then [TLink.limiter src] else []) := by
  rw [torus_route_links t hwf src src hs hs (by simp [hlb])]
  have : t.specHops src src = [] := specR_self _ _ (torus_tri_facts t hwf src src).1
  simp [Torus.specLinks, this, linksOfHops]

/-- **every link leaves the current node**: reading the route from `src`, each cable is the UP half of a link declared by
the node the walk is on, or the DOWN half of a link declared towards it, each limiter is the limiter of the node the walk
is on, and the walk ends on `dst` (`linkWalk` returns `none` as soon as a link does not fit) -/
theorem torus_links_leave_current_node (t : Torus) (hwf : t.WF) (src dst : Nat) (hs : src < t.tot) (hd : dst < t.tot)
    (hnl : ¬ (src = dst ∧ t.lb = true)) :
    ∃ r, t.route src dst = some r ∧ linkWalk src r = some dst := by
  obtain ⟨h1, _, h3, _, _⟩ := torus_tri_facts t hwf src dst
  refine ⟨_, torus_route_links t hwf src dst hs hd hnl, ?_⟩
  exact linkWalk_hops t.lim _ src dst (specR_chain _ src dst h1 (by rw [h3]; exact hs) (by rw [h3]; exact hd))

/-- **the cables are the links between consecutive nodes of the chain `src .. dst`, in order**: the cable links of the
route are, hop by hop, `hopCable` of the hops computed by the `while` loop, which chain from `src` to `dst` -/
theorem torus_links_chain (t : Torus) (hwf : t.WF) (src dst : Nat) (hs : src < t.tot) (hd : dst < t.tot)
    (hnl : ¬ (src = dst ∧ t.lb = true)) :
    ∃ hops r, t.hops src dst = some hops ∧ t.route src dst = some r ∧ Chain src hops dst ∧
      r.filter TLink.isCable = hops.map hopCable := by
  obtain ⟨h1, _, h3, _, _⟩ := torus_tri_facts t hwf src dst
  exact ⟨_, _, torus_hops_spec t hwf src dst hs hd, torus_route_links t hwf src dst hs hd hnl,
    specR_chain _ src dst h1 (by rw [h3]; exact hs) (by rw [h3]; exact hd), linksOfHops_cables _ _ _⟩

/-- **length**: the route has `Σ_j min(f_j, d_j - f_j)` cable links; with limiters one limiter before each cable and one
at the end, without limiters nothing else -/
theorem torus_links_length (t : Torus) (hwf : t.WF) (src dst : Nat) (hs : src < t.tot) (hd : dst < t.tot)
    (hnl : ¬ (src = dst ∧ t.lb = true)) :
    ∃ r, t.route src dst = some r ∧ (r.filter TLink.isCable).length = (t.minDist src dst).sum ∧
      r.length = if t.lim then 2 * (t.minDist src dst).sum + 1 else (t.minDist src dst).sum := by
  obtain ⟨h1, h2, _, _, _⟩ := torus_tri_facts t hwf src dst
  have hlen : (t.specHops src dst).length = (t.minDist src dst).sum := by
    rw [Torus.specHops, specR_length _ _ h2, distList_eq_minList _ _ _ h1 h2]; rfl
  refine ⟨_, torus_route_links t hwf src dst hs hd hnl, ?_, ?_⟩
  · rw [Torus.specLinks, linksOfHops_cables, List.length_map, hlen]
  · rw [Torus.specLinks, linksOfHops_length, hlen]

/-- **limiter placement**: without limiter callback the route is the cables only; with one, it is
`limiter(cur), cable` for every hop and `limiter(dst)` at the end — so the limiters of the route are, in order, those of
the nodes `src = n0, n1, ..., dst` of the chain (the destination's appears once) -/
theorem torus_limiter_placement (t : Torus) (hwf : t.WF) (src dst : Nat) (hs : src < t.tot) (hd : dst < t.tot)
    (hnl : ¬ (src = dst ∧ t.lb = true)) :
    ∃ hops r, t.hops src dst = some hops ∧ t.route src dst = some r ∧
      (t.lim = false → r = hops.map hopCable) ∧
      (t.lim = true → r = hops.flatMap (fun h => [TLink.limiter h.cur, hopCable h]) ++ [TLink.limiter dst]) ∧
      r.filter TLink.isLimiter = (if t.lim then hops.map (fun h => TLink.limiter h.cur) ++ [TLink.limiter dst] else []) := by
  refine ⟨_, _, torus_hops_spec t hwf src dst hs hd, torus_route_links t hwf src dst hs hd hnl, ?_, ?_,
    linksOfHops_limiters _ _ _⟩
  · intro hl
    have : hopSegment false = fun h => [hopCable h] := by funext h; simp [hopSegment]
    simp [Torus.specLinks, linksOfHops, hl, this, List.map_eq_flatMap]
  · intro hl
    have : hopSegment true = fun h => [TLink.limiter h.cur, hopCable h] := by funext h; simp [hopSegment]
    simp [Torus.specLinks, linksOfHops, hl, this]

/-- **loopback placement**: for EVERY pair, a loopback link occurs in the route iff `src = dst` and a loopback callback
is set, and then it is the loopback of `src` (and by `torus_loopback` the whole route) -/
theorem torus_loopback_placement (t : Torus) (hwf : t.WF) (src dst : Nat) (hs : src < t.tot) (hd : dst < t.tot) :
    ∃ r, t.route src dst = some r ∧ ∀ id, TLink.loopback id ∈ r ↔ (src = dst ∧ t.lb = true ∧ id = src) := by
  by_cases hl : src = dst ∧ t.lb = true
  · obtain ⟨rfl, hlb⟩ := hl
    refine ⟨_, torus_loopback t hwf src hs hlb, ?_⟩
    intro id; simp [hlb]
  · refine ⟨_, torus_route_links t hwf src dst hs hd hl, ?_⟩
    intro id
    constructor
    · intro hm
      have : TLink.loopback id ∈ (t.specLinks src dst).filter TLink.isLoopback :=
        List.mem_filter.mpr ⟨hm, rfl⟩
      rw [Torus.specLinks, linksOfHops_no_loopback] at this
      simp at this
    · intro h; exact absurd ⟨h.1, h.2.1⟩ hl

/-- **the `private_links_` table built by `do_seal`**: the counters end as `dims.size() + (loopback?1:0) + (limiter?1:0)`
(although they grow while the first leaf is filled), and for every leaf `i` the position `node_pos(i)` holds its loopback,
`node_pos_with_loopback(i)` its limiter, `node_pos_with_loopback_limiter(i) + j` the two halves of the link it declares
towards its neighbour along dimension `j` (`Torus.neighbour` = the `neighbor_rank_id` formula) — no entry of another leaf
shadows them (`try_emplace` keeps the first writer; blocks of different leaves are disjoint) -/
theorem torus_private_links_table (t : Torus) (hwf : t.WF) (i : Nat) (hi : i < t.tot) :
    t.seal.1 = { numLinks := t.dims.length + (if t.lb then 1 else 0) + (if t.lim then 1 else 0), hasLb := t.lb, hasLim := t.lim } ∧
    (t.lb = true → Entries.at t.seal.2 (t.seal.1.nodePos i) = some (TLink.loopback i, TLink.loopback i)) ∧
    (t.lim = true → Entries.at t.seal.2 (t.seal.1.nodePosLb i) = some (TLink.limiter i, TLink.limiter i)) ∧
    (∀ j, j < t.dims.length → Entries.at t.seal.2 (t.seal.1.nodePosLbLim i + j)
        = (t.neighbour i j).map (fun nb => (TLink.cable i nb true, TLink.cable i nb false))) := by
  rw [seal_eq t (prod_pos _ hwf)]
  exact ⟨rfl, sealed_table t i hi⟩

/-- **every cable of the route is a declared link between consecutive nodes**: for each hop of the route (whose cables are
`hops.map hopCable` by `torus_links_chain`), going right `next` is the neighbour that `cur` declared a link to in the hop's
dimension, going left `cur` is the neighbour that `next` declared a link to -/
theorem torus_links_declared (t : Torus) (hwf : t.WF) (src dst : Nat) (hs : src < t.tot) (hd : dst < t.tot) :
    ∃ hops, t.hops src dst = some hops ∧ ∀ h ∈ hops, h.dim < t.dims.length ∧
      (if h.up then t.neighbour h.cur h.dim = some h.next else t.neighbour h.next h.dim = some h.cur) := by
  obtain ⟨_, _, _, h4, h5⟩ := torus_tri_facts t hwf src dst
  have hh := torus_hops_spec t hwf src dst hs hd
  refine ⟨_, hh, ?_⟩
  intro h hm
  apply hop_declared t dst (t.tri src dst) h4 h5 h
  unfold Torus.hops at hh
  exact hopsLoop_mem_scan dst _ _ _ _ hh h hm

/-- non-vacuity: 4x4 torus with loopback and limiter callbacks, 5 -> 15 (ties in both dimensions: 4 UP cables, each
preceded by the limiter of the node it leaves, then the limiter of 15) -/
example : ({ dims := [4, 4], lb := true, lim := true } : Torus).route 5 15
    = some [.limiter 5, .cable 5 6 true, .limiter 6, .cable 6 7 true, .limiter 7, .cable 7 11 true,
            .limiter 11, .cable 11 15 true, .limiter 15] := by decide
/-- going left: [3,2] torus, 5 -> 0 is (2,1) -> (0,0): dimension 0 goes right through the wrap-around (UP half of the link
declared by 5 towards 3), dimension 1 (size 2, coordinate 1 -> 0) goes LEFT: the DOWN half of the link declared by the NEXT
node 0 towards 3 -/
example : ({ dims := [3, 2], lb := true, lim := true } : Torus).route 5 0
    = some [.limiter 5, .cable 5 3 true, .limiter 3, .cable 0 3 false, .limiter 0] := by decide
example : ({ dims := [3, 2], lb := true, lim := true } : Torus).specLinks 5 0
    = [.limiter 5, .cable 5 3 true, .limiter 3, .cable 0 3 false, .limiter 0] := by decide
example : ({ dims := [4], lb := false, lim := false } : Torus).route 2 0
    = some [.cable 1 2 false, .cable 0 1 false] := by decide
/-- loopback shortcut, and the same pair without loopback callback -/
example : ({ dims := [3, 2], lb := true, lim := true } : Torus).route 4 4 = some [.loopback 4] := by decide
example : ({ dims := [3, 2], lb := false, lim := true } : Torus).route 4 4 = some [.limiter 4] := by decide
example : ({ dims := [3, 2], lb := false, lim := false } : Torus).route 4 4 = some [] := by decide
/-- the hypotheses of the theorems are met by these instances -/
example : ({ dims := [3, 2], lb := true, lim := true } : Torus).WF ∧
    (5 : Nat) < ({ dims := [3, 2], lb := true, lim := true } : Torus).tot ∧
    ¬ ((5 : Nat) = 0 ∧ ({ dims := [3, 2], lb := true, lim := true } : Torus).lb = true) := by
  refine ⟨by intro d hd; simp at hd; omega, by decide, by decide⟩
example : linkWalk 5 [.limiter 5, .cable 5 3 true, .limiter 3, .cable 0 3 false, .limiter 0] = some 0 := by decide
/-- a link that does not leave the current node is refused by `linkWalk` -/
example : linkWalk 2 [.cable 0 2 true] = none := by decide
/-- the table of the [3,2] torus with both callbacks: 4 positions per node; node 2 owns 8..11 -/
example : (({ dims := [3, 2], lb := true, lim := true } : Torus).seal.1.numLinks = 4) ∧
    Entries.at ({ dims := [3, 2], lb := true, lim := true } : Torus).seal.2 8 = some (.loopback 2, .loopback 2) ∧
    Entries.at ({ dims := [3, 2], lb := true, lim := true } : Torus).seal.2 9 = some (.limiter 2, .limiter 2) ∧
    Entries.at ({ dims := [3, 2], lb := true, lim := true } : Torus).seal.2 10 = some (.cable 2 0 true, .cable 2 0 false) ∧
    Entries.at ({ dims := [3, 2], lb := true, lim := true } : Torus).seal.2 11 = some (.cable 2 5 true, .cable 2 5 false) := by
  decide
example : ({ dims := [3, 2], lb := true, lim := true } : Torus).neighbour 2 0 = some 0 ∧
    ({ dims := [3, 2], lb := true, lim := true } : Torus).neighbour 0 1 = some 3 := by decide
/-- a one-node torus with a dimension of size 1 -/
example : ({ dims := [1], lb := true, lim := true } : Torus).route 0 0 = some [.loopback 0] := by decide

/-! ## Star (StarZone::get_local_route) -/

/-- **up links of the source, then down links of the destination, without repetition**: for every table and every pair
that is not answered by the loopback, the route `r` has no duplicate, contains exactly the links of `links_up(src)` and
`links_down(dst)`, and splits as `u ++ d` with `u` = the up links in order (each once, all of them) followed by `d` =
down links in order (those not already present) -/
theorem star_up_then_down_nodup (tb : StarTable) (src dst : Nat) (r : List String)
    (hlb : ¬ (src = dst ∧ (tb.get src).loopback ≠ [])) (h : starRoute tb src dst = some r) :
    r.Nodup ∧ (∀ x, x ∈ r ↔ x ∈ (tb.get src).linksUp ∨ x ∈ (tb.get dst).linksDown) ∧
    ∃ u d, r = u ++ d ∧ u.Sublist (tb.get src).linksUp ∧ (∀ x ∈ (tb.get src).linksUp, x ∈ u) ∧
      d.Sublist (tb.get dst).linksDown := by
  unfold starRoute at h
  simp only [hlb, if_false] at h
  split at h
  · cases h
  · split at h
    · cases h
    · injection h with h
      subst h
      refine ⟨addLinks_nodup _ _ (addLinks_nodup _ _ List.nodup_nil), ?_, ?_⟩
      · intro x; rw [addLinks_mem, addLinks_mem]; simp
      · obtain ⟨u, hu1, hu2⟩ := addLinks_prefix (tb.get src).linksUp []
        obtain ⟨d, hd1, hd2⟩ := addLinks_prefix (tb.get dst).linksDown (addLinks (tb.get src).linksUp [])
        refine ⟨u, d, ?_, hu2, ?_, hd2⟩
        · rw [hd1, hu1]; simp
        · intro x hx
          have := (addLinks_mem (tb.get src).linksUp [] x).mpr (Or.inr hx)
          rw [hu1] at this; simpa using this

/-- **loopback**: a pair `src = dst` with a configured (non-empty) loopback is answered by the loopback links only -/
theorem star_loopback (tb : StarTable) (src : Nat) (h : (tb.get src).loopback ≠ []) :
    starRoute tb src src = some (addLinks (tb.get src).loopback []) := by
  unfold starRoute; simp [h]

example : starRoute (starSeal ([StarAdd.up 0 [.shared "a", .shared "b"] false, StarAdd.down 1 [.shared "b", .shared "c"]].foldl starAdd []) 2) 0 1
    = some ["a", "b", "c"] := by decide

/-! ## Dragonfly (DragonflyZone::get_local_route): theorems on the control flow over router numbers -/

/-- **at most one blue (inter-group) hop**, for every shape and every pair of router coordinates -/
theorem dragonfly_at_most_one_blue (d : Dragonfly) (my tg : RCoord) :
    ((d.steps my tg).filter (fun s => s.slot.kind == 3)).length ≤ 1 := by
  unfold Dragonfly.steps
  simp only []
  (repeat' split) <;> simp [DSlot.kind]

/-- **hop order**: the inter-router hops are `(green? black? blue)? green? black?` (1 = green, 2 = black, 3 = blue), and a
blue hop is always the end of the first part -/
theorem dragonfly_hop_order (d : Dragonfly) (my tg : RCoord) :
    (d.steps my tg).map (fun s => s.slot.kind) ∈
      [[], [1], [2], [1, 2], [3], [1, 3], [2, 3], [1, 2, 3], [3, 1], [3, 2], [3, 1, 2], [1, 3, 1], [1, 3, 2], [1, 3, 1, 2],
       [2, 3, 1], [2, 3, 2], [2, 3, 1, 2], [1, 2, 3, 1], [1, 2, 3, 2], [1, 2, 3, 1, 2]] := by
  unfold Dragonfly.steps
  simp only []
  (repeat' split) <;> simp [DSlot.kind]

/-- regression for the fixed defect (repo commit 20a422990d): within a group, after the green hop the route stays in
the chassis it is in.  Before the fix the code continued from the router of chassis 0
(`currentRouter = &routers_[group * (C*B) + blade]`) and this route was the single green hop `[⟨2, .green 1, true, 1⟩]`,
which is disconnected: the green link of chassis 1 ends on router 3 = (0,1,1), not on router 1 = (0,0,1).
1 group x 2 chassis x 2 routers: router (0,1,0) -> router (0,0,1) is now a green hop followed by a black hop. -/
theorem dragonfly_same_group_regression :
    (⟨1, 2, 2, 1, false, false, true, 0⟩ : Dragonfly).steps ⟨0, 1, 0⟩ ⟨0, 0, 1⟩ =
      [⟨2, .green 1, true, 3⟩, ⟨3, .black 0, true, 3⟩] := by decide

/-- **the documented hop structure**, exactly: for every shape with `groups <= routers per chassis` (what
`add_netzone_dragonfly` accepts) and every pair of router coordinates within the shape, the control flow of
get_local_route yields `specSteps`: towards another group `[green to the blade numbered like the target group]?
[black to chassis 0]? blue [green to the target blade]? [black to the target chassis]?`, inside a group
`[green to the target blade]? [black to the target chassis]?`, each hop present iff the coordinate it fixes differs -/
theorem dragonfly_hop_structure (d : Dragonfly) (my tg : RCoord) (hmy : my.InRange d) (htg : tg.InRange d)
    (hGB : d.G ≤ d.B) : d.steps my tg = d.specSteps my tg :=
  steps_eq_spec d my tg hmy htg hGB

/-- **connectivity** (repaired code): every hop is read from the link arrays of the router the walk is on (a valid index
of `routers_`), the link in that slot leads — by the wiring of generate_links, `Dragonfly.peer` — to the router the next
hop is read from, and the last one leads to the target router; the first hop leaves from the source router -/
theorem dragonfly_connected (d : Dragonfly) (my tg : RCoord) (hmy : my.InRange d) (htg : tg.InRange d) (hGB : d.G ≤ d.B) :
    DConnected d (d.ridx my) (d.steps my tg) (d.ridx tg) := by
  rw [steps_eq_spec d my tg hmy htg hGB]
  exact specSteps_connected d my tg hmy htg hGB

/-- the same for the routers of two leaves `src`, `dst < G*C*B*N` (the coordinates `rankId_to_coords` computes are within
the shape): this is the list of hops `Dragonfly.route` renders between the source's and the target's local links -/
theorem dragonfly_route_connected (d : Dragonfly) (hGB : d.G ≤ d.B) (src dst : Nat) (hs : src < d.tot) (hd : dst < d.tot) :
    (d.coords src).1.InRange d ∧ (d.coords dst).1.InRange d ∧
    DConnected d (d.ridx (d.coords src).1) (d.steps (d.coords src).1 (d.coords dst).1) (d.ridx (d.coords dst).1) :=
  ⟨coords_inRange d src hs, coords_inRange d dst hd,
   dragonfly_connected d _ _ (coords_inRange d src hs) (coords_inRange d dst hd) hGB⟩

/-- **the link tables are wired as `peer` says**, for every shape with `groups <= routers per chassis` (any G, C, B, N, flags,
static unique-id offset): for every router `r` and inter-router slot `s` with `peer r s = some q`, the tables built by
`genLinks` (the four nested loops of generate_links, last assignment wins) hold in slot `s` of `r` and in the back slot
of `q` the two halves — same name and unique id, opposite direction — of one link.  (Green and black need no shape
hypothesis; `G <= C*B` is what blue needs: `genLinks_wiring_CB`.) -/
theorem dragonfly_wiring (d : Dragonfly) (hGB : d.G ≤ d.B) (r : Nat) (hr : r < d.nRouters) (s : DSlot) (q : Nat)
    (hq : d.peer r s = some q) :
    ∃ l, d.linkAt d.genLinks.2 r s = some l ∧ d.linkAt d.genLinks.2 q (d.backSlot r s) = some l.flip :=
  genLinks_wiring d hGB r hr s q hq

/-- **connectivity on the link TABLES**: every hop's slot holds a link (no nullptr, no out-of-bounds read) whose other
half sits in the back slot of the router the next hop leaves from; the chain starts on the source router and ends on the
target router.  (Promoted: the hypothesis `d.wiringOk = true` of the first version is now the theorem `dragonfly_wiring`.) -/
theorem dragonfly_hops_are_links (d : Dragonfly) (my tg : RCoord) (hmy : my.InRange d)
    (htg : tg.InRange d) (hGB : d.G ≤ d.B) : DLinked d (d.ridx my) (d.steps my tg) (d.ridx tg) := by
  have hC : 0 < d.C := by have := hmy.2.1; omega
  have hle : d.G ≤ d.C * d.B := Nat.le_trans hGB (Nat.le_mul_of_pos_left d.B hC)
  exact DConnected_linked_of_le d hle _ _ _ (dragonfly_connected d my tg hmy htg hGB)

/-- non-vacuity: 2 groups x 2 chassis x 2 routers: the tables are wired as `peer` says, and router (0,1,0) -> (1,1,1) takes
all five hops green, black, blue, green, black -/
example : (⟨2, 2, 2, 1, false, false, true, 0⟩ : Dragonfly).wiringOk = true := by decide
example : (⟨3, 2, 3, 2, true, true, false, 7⟩ : Dragonfly).wiringOk = true := wiringOk_of_le _ (by decide)
example : ((⟨2, 2, 2, 1, false, false, true, 0⟩ : Dragonfly).steps ⟨0, 1, 0⟩ ⟨1, 1, 1⟩).map (fun s => (s.owner, s.slot)) =
    [(2, .green 1), (3, .black 0), (1, .blue), (4, .green 1), (5, .black 1)] := by decide
example : (⟨1, 1, 1⟩ : RCoord).InRange ⟨2, 2, 2, 1, false, false, true, 0⟩ := by unfold RCoord.InRange; decide

/-! ## Fat tree (FatTreeZone::get_local_route)

For ALL well-formed parameters `f.WF` (levels >= 1; every down / up fan-out and link multiplicity >= 1; any static offsets)
and every table `t` that is well formed in the sense of `FTables.WF f t` (= the executable `FTables.wfCheck f t`,
`FTables.wfCheck_sound`): ports lead to links, links to nodes one level up / down whose label differs from the current
node's in the digit of that level only, leaf labels are in range and distinct.  `fattree_build_wf`: the modelled
construction `f.build` (add_processing_node / generate_switches / generate_labels / connect_node_to_parents) IS well
formed for all well-formed parameters, so `fattree_build_route` states everything about the construction itself.
The routing loops (up `while`, down `while` with its inner `for` that does not `break`) are covered for every such
table: no bound on levels, fan-outs, multiplicities. -/

/-- **up to the nearest common ancestor, then down**: for two leaves `src`, `dst` (not answered by the loopback) the route is
`ru ++ rd ++ limiter(dst)` where `ru` renders `k` tree edges going UP from `src` (each taken from the `parents` array of
the node the previous one arrived at) and `rd` renders `k` tree edges going DOWN to `dst` (each from the `children`
array of the node reached), `k = ncaLevel` = 1 + the highest label digit where the two leaves differ (`ncaLevel_is_nca`).
`renderUp`/`renderDown` put the limiter of the node a hop leaves before an up link / after a down link. -/
theorem fattree_up_to_nca_then_down (f : FatTree) (t : FTables) (hf : f.WF) (hwf : t.WF f) (src dst : Nat) (s d : FNode)
    (hs : t.nodes[src]? = some s) (hd : t.nodes[dst]? = some d) (hs0 : s.level = 0) (hd0 : d.level = 0)
    (hlb : ¬ (s.id = d.id ∧ f.lb = true)) :
    ∃ ups downs ru rd top,
      ups.length = ncaLevel s.label d.label f.levels ∧ downs.length = ncaLevel s.label d.label f.levels ∧
      UpPath t src ups top ∧ DownPath t top downs dst ∧
      f.renderUp t ups = some ru ∧ f.renderDown t downs = some rd ∧
      f.route t src dst = some (ru ++ rd ++ f.limiterOf d) := by
  obtain ⟨k1, k2, k3, k4⟩ := ncaLevel_spec s.label d.label f.levels
  have hL : 0 < f.levels := hf.1
  obtain ⟨ups, ru, top, tn, u1, u2, u3, u4, u5, u6, u7⟩ :=
    upLoop_spec f t hf hwf s d hd0 (ncaLevel s.label d.label f.levels) (by omega)
      (fun j hj hjL => k3 j hj hjL) k4 (ncaLevel s.label d.label f.levels) (f.levels + 1) src s [] hs
      (fun _ _ _ => rfl) (by omega) k1 (by omega)
  obtain ⟨downs, rd, d1, d2, d3, d4⟩ :=
    downLoop_spec f t hf hwf s.position d dst hd hd0 (f.levels + 1) top tn ([] ++ ru) u5 (by rw [u6]; exact u7) (by omega)
  refine ⟨ups, downs, ru, rd, top, u3, by omega, u4, d4, u1, d1, ?_⟩
  simp only [List.nil_append] at u2 d2
  unfold FatTree.route
  simp only [hs, hd, hs0, hd0, ne_eq, not_true_eq_false, or_self, if_false, hlb, u2, d2]

/-- **reaches the destination**: the tree edges of the route chain from `src` up to a node `top` and from `top` down to
`dst` (each edge is stored in the port array of the node it leaves) -/
theorem fattree_reaches_dst (f : FatTree) (t : FTables) (hf : f.WF) (hwf : t.WF f) (src dst : Nat) (s d : FNode)
    (hs : t.nodes[src]? = some s) (hd : t.nodes[dst]? = some d) (hs0 : s.level = 0) (hd0 : d.level = 0)
    (hlb : ¬ (s.id = d.id ∧ f.lb = true)) :
    ∃ r ups downs top, f.route t src dst = some r ∧ UpPath t src ups top ∧ DownPath t top downs dst ∧
      ∃ ru rd, f.renderUp t ups = some ru ∧ f.renderDown t downs = some rd ∧ r = ru ++ rd ++ f.limiterOf d := by
  obtain ⟨ups, downs, ru, rd, top, _, _, h3, h4, h5, h6, h7⟩ :=
    fattree_up_to_nca_then_down f t hf hwf src dst s d hs hd hs0 hd0 hlb
  exact ⟨_, ups, downs, top, h7, h3, h4, ru, rd, h5, h6, rfl⟩

/-- **k UP links then k DOWN links, length 2k**: the route is `ru ++ rd ++ limiter(dst)`; `ru` holds exactly `k` cables, all
UP halves, `rd` exactly `k` cables, all DOWN halves (`k = ncaLevel`); without limiters the route has exactly `2k` links,
with limiters `4k + 1` (one limiter per hop, for the node the hop leaves, plus the destination's) -/
theorem fattree_link_count (f : FatTree) (t : FTables) (hf : f.WF) (hwf : t.WF f) (src dst : Nat) (s d : FNode)
    (hs : t.nodes[src]? = some s) (hd : t.nodes[dst]? = some d) (hs0 : s.level = 0) (hd0 : d.level = 0)
    (hlb : ¬ (s.id = d.id ∧ f.lb = true)) :
    ∃ ru rd, f.route t src dst = some (ru ++ rd ++ f.limiterOf d) ∧
      (ru.filter FTLink.isCable).length = ncaLevel s.label d.label f.levels ∧
      (∀ x ∈ ru, x.isCable = true → x.isUpCable = true) ∧
      (rd.filter FTLink.isCable).length = ncaLevel s.label d.label f.levels ∧
      (∀ x ∈ rd, x.isCable = true → x.isDownCable = true) ∧
      (ru ++ rd ++ f.limiterOf d).length =
        if f.lim then 4 * ncaLevel s.label d.label f.levels + 1 else 2 * ncaLevel s.label d.label f.levels := by
  obtain ⟨ups, downs, ru, rd, top, h1, h2, _, _, h5, h6, h7⟩ :=
    fattree_up_to_nca_then_down f t hf hwf src dst s d hs hd hs0 hd0 hlb
  obtain ⟨a1, a2, a3⟩ := renderUp_shape f t ups ru h5
  obtain ⟨b1, b2, b3⟩ := renderDown_shape f t downs rd h6
  refine ⟨ru, rd, h7, by omega, a2, by omega, b2, ?_⟩
  simp only [List.length_append, a3, b3, limiterOf_length, h1, h2]
  split <;> omega

/-- **`ncaLevel` is the level of the nearest common ancestor**: `k = ncaLevel a b levels` is at least 1, at most `levels`,
the labels agree on all digits `>= k` (so the ancestors of level `k` coincide: an ancestor of level `l` of a leaf keeps
the leaf's digits `>= l`) and, when `k > 1`, they differ at digit `k - 1` (so no level below `k` has a common ancestor) -/
theorem ncaLevel_is_nca (a b : List Nat) (levels : Nat) (h : 0 < levels) :
    1 ≤ ncaLevel a b levels ∧ ncaLevel a b levels ≤ levels ∧
    (∀ j, ncaLevel a b levels ≤ j → j < levels → a.getD j 0 = b.getD j 0) ∧
    (1 < ncaLevel a b levels → a.getD (ncaLevel a b levels - 1) 0 ≠ b.getD (ncaLevel a b levels - 1) 0) := by
  obtain ⟨k1, k2, k3, k4⟩ := ncaLevel_spec a b levels
  exact ⟨k1, by omega, k3, k4⟩

/-- **loopback**: `src = dst` with a loopback configured is answered by the loopback link alone -/
theorem fattree_loopback (f : FatTree) (t : FTables) (src : Nat) (s : FNode) (hs : t.nodes[src]? = some s)
    (hs0 : s.level = 0) (hlb : f.lb = true) : f.route t src src = some [.loopback s.id] := by
  unfold FatTree.route
  simp [hs, hs0, hlb]

/-- **the modelled construction is well formed**, for ALL well-formed parameters (only extra hypothesis:
`num_children_per_node_` has exactly `levels` entries, which the parser guarantees — needed: `nLeaves` multiplies the whole
list while labels use the first `levels` radices; `FTBuild` has a counterexample without it): node table = levels and
mixed-radix labels by position (`generate_labels`' counter), every stored port entry is a genuine tree edge
(`are_related`), every port below the array size is filled. -/
theorem fattree_build_wf (f : FatTree) (hf : f.WF) (hdown : f.down.length = f.levels) : FTables.WF f f.build :=
  FTBuild.build_wf_of_down f hf hdown

/-- **the whole statement on the construction**: for all well-formed parameters and all leaves `src, dst < nLeaves` of
`f.build`, both are level-0 nodes and (unless answered by the loopback) the route is `k` tree edges up from `src`, `k`
tree edges down to `dst`, `k = ncaLevel`, rendered with the limiters of the nodes the hops leave and the destination's -/
theorem fattree_build_route (f : FatTree) (hf : f.WF) (hdown : f.down.length = f.levels) (src dst : Nat)
    (hs : src < f.nLeaves) (hd : dst < f.nLeaves) :
    ∃ s d, f.build.nodes[src]? = some s ∧ f.build.nodes[dst]? = some d ∧ s.level = 0 ∧ d.level = 0 ∧
      (¬ (s.id = d.id ∧ f.lb = true) →
        ∃ ups downs ru rd top,
          ups.length = ncaLevel s.label d.label f.levels ∧ downs.length = ncaLevel s.label d.label f.levels ∧
          UpPath f.build src ups top ∧ DownPath f.build top downs dst ∧
          f.renderUp f.build ups = some ru ∧ f.renderDown f.build downs = some rd ∧
          f.route f.build src dst = some (ru ++ rd ++ f.limiterOf d)) := by
  have hN := FTBuild.mkNodes_ok f hf
  have hb : FTBuild.bl f 0 = f.nLeaves := by simp [FTBuild.bl, FatTree.nodesByLevel]
  have h0 : FTBuild.levelStart f 0 = 0 := by simp [FTBuild.levelStart]
  obtain ⟨s, hs1, hs2, _⟩ := hN.get 0 (Nat.zero_le _) src (by rw [hb]; exact hs)
  obtain ⟨d, hd1, hd2, _⟩ := hN.get 0 (Nat.zero_le _) dst (by rw [hb]; exact hd)
  rw [h0, Nat.zero_add] at hs1 hd1
  have hs1' : f.build.nodes[src]? = some s := by rw [FTBuild.build_eq]; exact hs1
  have hd1' : f.build.nodes[dst]? = some d := by rw [FTBuild.build_eq]; exact hd1
  refine ⟨s, d, hs1', hd1', hs2, hd2, ?_⟩
  intro hlb
  exact fattree_up_to_nca_then_down f f.build hf (fattree_build_wf f hf hdown) src dst s d hs1' hd1' hs2 hd2 hlb

/-- non-vacuity: 2 levels, 2x2 leaves, 1 then 2 parents, 1 then 2 parallel cables, limiters: the construction is well formed
(so the theorems apply to `f.build`), and a route across the top level: 2 UP cables, 2 DOWN cables, 5 limiters -/
example : (⟨2, [2, 2], [1, 2], [1, 2], false, true, true, 0, 0⟩ : FatTree).WF := paramsOk_sound _ (by decide)
example : FTables.WF ⟨2, [2, 2], [1, 2], [1, 2], false, true, true, 0, 0⟩
    (FatTree.build ⟨2, [2, 2], [1, 2], [1, 2], false, true, true, 0, 0⟩) := FTables.wfCheck_sound _ _ (by decide)
example : (FatTree.route ⟨2, [2, 2], [1, 2], [1, 2], false, true, true, 0, 0⟩
    (FatTree.build ⟨2, [2, 2], [1, 2], [1, 2], false, true, true, 0, 0⟩) 0 3).map (·.length) = some 9 := by decide
example : ncaLevel [0, 0] [1, 1] 2 = 2 := by decide
example : (FatTree.route ⟨2, [2, 2], [1, 2], [1, 2], true, true, true, 0, 0⟩
    (FatTree.build ⟨2, [2, 2], [1, 2], [1, 2], true, true, true, 0, 0⟩) 1 1) = some [.loopback 1] := by decide

end SgVerif.C26
