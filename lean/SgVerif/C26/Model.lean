import SgVerif.C26.Torus
import SgVerif.C26.Star
import SgVerif.C26.FatTree
import SgVerif.C26.Dragonfly
/-! C26 — the executable model: one file per topology (Cluster, Torus, Star, FatTree, Dragonfly). -/
