import SgVerif.C26.DragonflyLemmas
/-!
C26 — dragonfly: the wiring built by `generate_links` (model: `Dragonfly.genLinks`) proved for ALL shapes.

`genLinks_wiring`: for every router `r < G*C*B` and every slot with a `peer` `q`, the slot of `r` and the back slot of `q`
hold the two halves (same arguments and unique id, opposite direction) of one link — the statement of `wiringOk_spec`
without evaluating `wiringOk`.

Method: every loop nest of `genLinks` is a left fold, over the list of its index tuples, of a step "cons the entries of
this iteration (numbered with the running unique id), increment the id".  So an entry is in the final list iff it is an
entry of some `(index tuple, id)` of the *tagged* index list; the index lists have no duplicates, hence the id of an
index tuple is unique; the key `(router, slot)` of an inter-router entry determines its index tuple.
-/
namespace SgVerif.C26

/-! ### loops as folds over index lists -/

theorem forRange_eq_foldl {σ : Type} (lo hi : Nat) (f : Nat → σ → σ) (s : σ) :
    forRange lo hi f s = (List.range' lo (hi - lo)).foldl (fun s i => f i s) s := by
  unfold forRange
  rw [List.range'_eq_map_range, List.foldl_map]

/-- the index pairs of a nested loop, in iteration order -/
def nest {α β : Type} (xs : List α) (L : α → List β) : List (α × β) := xs.flatMap (fun i => (L i).map (Prod.mk i))

theorem foldl_nest {α β σ : Type} (xs : List α) (L : α → List β) (g : α → β → σ → σ) (s : σ) :
    xs.foldl (fun s i => (L i).foldl (fun s j => g i j s) s) s = (nest xs L).foldl (fun s p => g p.1 p.2 s) s := by
  unfold nest
  rw [List.foldl_flatMap]
  congr 1
  funext s i
  rw [List.foldl_map]

theorem mem_nest {α β : Type} (xs : List α) (L : α → List β) (i : α) (j : β) :
    (i, j) ∈ nest xs L ↔ i ∈ xs ∧ j ∈ L i := by
  unfold nest
  simp only [List.mem_flatMap, List.mem_map, Prod.mk.injEq]
  constructor
  · rintro ⟨a, ha, b, hb, rfl, rfl⟩; exact ⟨ha, hb⟩
  · rintro ⟨h1, h2⟩; exact ⟨i, h1, j, h2, rfl, rfl⟩

theorem nodup_nest {α β : Type} (xs : List α) (L : α → List β) (hx : xs.Nodup) (hL : ∀ i, (L i).Nodup) :
    (nest xs L).Nodup := by
  induction xs with
  | nil => simp [nest]
  | cons x xs ih =>
    rw [List.nodup_cons] at hx
    have e : nest (x :: xs) L = (L x).map (Prod.mk x) ++ nest xs L := by simp [nest]
    rw [e, List.nodup_append]
    refine ⟨?_, ih hx.2, ?_⟩
    · rw [List.Nodup, List.pairwise_map]
      exact (hL x).imp (fun h e => h (Prod.mk.inj e).2)
    · intro a ha b hb hab
      subst hab
      obtain ⟨j, _, rfl⟩ := List.mem_map.1 ha
      exact hx.1 ((mem_nest xs L x j).1 hb).1

/-! ### the running unique id: tagging the index list -/

/-- the iterations with the value of `uniqueId` at their start -/
def tag {ι : Type} : List ι → Nat → List (ι × Nat)
  | [], _ => []
  | x :: xs, u => (x, u) :: tag xs (u + 1)

theorem mem_tag_fst {ι : Type} (xs : List ι) (u0 : Nat) (x : ι) (u : Nat) (h : (x, u) ∈ tag xs u0) : x ∈ xs ∧ u0 ≤ u := by
  induction xs generalizing u0 with
  | nil => simp [tag] at h
  | cons y ys ih =>
    simp only [tag, List.mem_cons, Prod.mk.injEq] at h
    rcases h with ⟨rfl, rfl⟩ | h
    · exact ⟨List.mem_cons_self, Nat.le_refl _⟩
    · have := ih _ h
      exact ⟨List.mem_cons_of_mem _ this.1, by omega⟩

theorem tag_total {ι : Type} (xs : List ι) (u0 : Nat) (x : ι) (h : x ∈ xs) : ∃ u, (x, u) ∈ tag xs u0 := by
  induction xs generalizing u0 with
  | nil => cases h
  | cons y ys ih =>
    rcases List.mem_cons.1 h with rfl | h
    · exact ⟨u0, by simp [tag]⟩
    · obtain ⟨u, hu⟩ := ih (u0 + 1) h
      exact ⟨u, by simp [tag, hu]⟩

theorem tag_functional {ι : Type} (xs : List ι) (hn : xs.Nodup) (u0 : Nat) (x : ι) (u u' : Nat)
    (h : (x, u) ∈ tag xs u0) (h' : (x, u') ∈ tag xs u0) : u = u' := by
  induction xs generalizing u0 with
  | nil => simp [tag] at h
  | cons y ys ih =>
    rw [List.nodup_cons] at hn
    simp only [tag, List.mem_cons, Prod.mk.injEq] at h h'
    rcases h with ⟨rfl, rfl⟩ | h
    · rcases h' with ⟨_, rfl⟩ | h'
      · rfl
      · exact absurd (mem_tag_fst _ _ _ _ h').1 hn.1
    · rcases h' with ⟨rfl, rfl⟩ | h'
      · exact absurd (mem_tag_fst _ _ _ _ h).1 hn.1
      · exact ih hn.2 _ h h'

/-- one loop body: cons the entries of iteration `x` (numbered with the current unique id), increment the id -/
def stepW {ι : Type} (emit : ι → Nat → List DAssign) (x : ι) (s : Nat × List DAssign) : Nat × List DAssign :=
  (s.1 + 1, emit x s.1 ++ s.2)

def runW {ι : Type} (emit : ι → Nat → List DAssign) (xs : List ι) (s : Nat × List DAssign) : Nat × List DAssign :=
  xs.foldl (fun s x => stepW emit x s) s

theorem mem_runW {ι : Type} (emit : ι → Nat → List DAssign) (xs : List ι) (s : Nat × List DAssign) (a : DAssign) :
    a ∈ (runW emit xs s).2 ↔ a ∈ s.2 ∨ ∃ x u, (x, u) ∈ tag xs s.1 ∧ a ∈ emit x u := by
  induction xs generalizing s with
  | nil => simp [runW, tag]
  | cons y ys ih =>
    have e : runW emit (y :: ys) s = runW emit ys (stepW emit y s) := rfl
    rw [e, ih]
    simp only [stepW, List.mem_append, tag, List.mem_cons, Prod.mk.injEq]
    constructor
    · rintro ((h | h) | ⟨x, u, h1, h2⟩)
      · exact Or.inr ⟨y, s.1, Or.inl ⟨rfl, rfl⟩, h⟩
      · exact Or.inl h
      · exact Or.inr ⟨x, u, Or.inr h1, h2⟩
    · rintro (h | ⟨x, u, ⟨rfl, rfl⟩ | h1, h2⟩)
      · exact Or.inl (Or.inr h)
      · exact Or.inl (Or.inl h2)
      · exact Or.inr ⟨x, u, h1, h2⟩

/-! ### the four phases of `genLinks` -/

def emitG (d : Dragonfly) (x : Nat × Nat × Nat) (uid : Nat) : List DAssign :=
  [⟨x.1 * d.B + x.2.2, .green x.2.1, .green (x.1 % d.C) x.2.1 x.2.2 uid false⟩,
   ⟨x.1 * d.B + x.2.1, .green x.2.2, .green (x.1 % d.C) x.2.1 x.2.2 uid true⟩]

def emitK (d : Dragonfly) (x : Nat × Nat × Nat × Nat) (uid : Nat) : List DAssign :=
  [⟨x.1 * d.B * d.C + x.2.2.1 * d.B + x.2.2.2, .black x.2.1, .black x.1 x.2.1 x.2.2.1 x.2.2.2 uid false⟩,
   ⟨x.1 * d.B * d.C + x.2.1 * d.B + x.2.2.2, .black x.2.2.1, .black x.1 x.2.1 x.2.2.1 x.2.2.2 uid true⟩]

def emitB (d : Dragonfly) (x : Nat × Nat) (uid : Nat) : List DAssign :=
  [⟨x.2 * d.B * d.C + x.1, .blue, .blue x.1 x.2 (x.1 * d.B * d.C + x.2) (x.2 * d.B * d.C + x.1) uid false⟩,
   ⟨x.1 * d.B * d.C + x.2, .blue, .blue x.1 x.2 (x.1 * d.B * d.C + x.2) (x.2 * d.B * d.C + x.1) uid true⟩]

def greenIdx (d : Dragonfly) : List (Nat × Nat × Nat) :=
  nest (List.range' 0 (d.G * d.C - 0)) (fun _ => nest (List.range' 0 (d.B - 0)) (fun j => List.range' (j + 1) (d.B - (j + 1))))

def blackIdx (d : Dragonfly) : List (Nat × Nat × Nat × Nat) :=
  nest (List.range' 0 (d.G - 0)) (fun _ => nest (List.range' 0 (d.C - 0)) (fun j =>
    nest (List.range' (j + 1) (d.C - (j + 1))) (fun _ => List.range' 0 (d.B - 0))))

def blueIdx (d : Dragonfly) : List (Nat × Nat) :=
  nest (List.range' 0 (d.G - 0)) (fun i => List.range' (i + 1) (d.G - (i + 1)))

/-- the local-link phase -/
def localPhase (d : Dragonfly) : Nat × List DAssign :=
  forRange 0 d.nRouters (fun i s =>
    forRange 0 d.N (fun n (s : Nat × List DAssign) =>
      let (uid, as) := s
      let up := DLink.localL i n uid true
      let dn := DLink.localL i n uid false
      let as := ⟨i, .node (n * d.lpl), up⟩ :: as
      let as := if d.split then ⟨i, .node (n * d.lpl + 1), dn⟩ :: as else as
      (uid + 1, as)) s) (d.uidOff, [])

theorem greenPhase (d : Dragonfly) (s : Nat × List DAssign) :
    forRange 0 (d.G * d.C) (fun i s =>
      forRange 0 d.B (fun j s =>
        forRange (j + 1) d.B (fun k (s : Nat × List DAssign) =>
          let (uid, as) := s
          (uid + 1, ⟨i * d.B + k, .green j, .green (i % d.C) j k uid false⟩ ::
                    ⟨i * d.B + j, .green k, .green (i % d.C) j k uid true⟩ :: as)) s) s) s
    = runW (emitG d) (greenIdx d) s := by
  simp only [forRange_eq_foldl]
  simp only [foldl_nest]
  rfl

theorem blackPhase (d : Dragonfly) (s : Nat × List DAssign) :
    forRange 0 d.G (fun i s =>
      forRange 0 d.C (fun j s =>
        forRange (j + 1) d.C (fun k s =>
          forRange 0 d.B (fun l (s : Nat × List DAssign) =>
            let (uid, as) := s
            (uid + 1, ⟨i * d.B * d.C + k * d.B + l, .black j, .black i j k l uid false⟩ ::
                      ⟨i * d.B * d.C + j * d.B + l, .black k, .black i j k l uid true⟩ :: as)) s) s) s) s
    = runW (emitK d) (blackIdx d) s := by
  simp only [forRange_eq_foldl]
  simp only [foldl_nest]
  rfl

theorem bluePhase (d : Dragonfly) (s : Nat × List DAssign) :
    forRange 0 d.G (fun i s =>
      forRange (i + 1) d.G (fun j (s : Nat × List DAssign) =>
        let (uid, as) := s
        let ri := i * d.B * d.C + j
        let rj := j * d.B * d.C + i
        (uid + 1, ⟨rj, .blue, .blue i j ri rj uid false⟩ :: ⟨ri, .blue, .blue i j ri rj uid true⟩ :: as)) s) s
    = runW (emitB d) (blueIdx d) s := by
  simp only [forRange_eq_foldl]
  simp only [foldl_nest]
  rfl

theorem genLinks_eq (d : Dragonfly) :
    d.genLinks = runW (emitB d) (blueIdx d) (runW (emitK d) (blackIdx d) (runW (emitG d) (greenIdx d) (localPhase d))) := by
  rw [← greenPhase, ← blackPhase, ← bluePhase]
  rfl

/-- the assignment list after the green phase / after the black phase -/
def stG (d : Dragonfly) : Nat × List DAssign := runW (emitG d) (greenIdx d) (localPhase d)
def stK (d : Dragonfly) : Nat × List DAssign := runW (emitK d) (blackIdx d) (stG d)

theorem genLinks_eq' (d : Dragonfly) : d.genLinks = runW (emitB d) (blueIdx d) (stK d) := genLinks_eq d

/-! ### the index lists -/

theorem mem_greenIdx (d : Dragonfly) (i j k : Nat) : (i, j, k) ∈ greenIdx d ↔ i < d.G * d.C ∧ j < k ∧ k < d.B := by
  simp only [greenIdx, mem_nest, List.mem_range'_1]
  omega

theorem mem_blackIdx (d : Dragonfly) (i j k l : Nat) :
    (i, j, k, l) ∈ blackIdx d ↔ i < d.G ∧ j < k ∧ k < d.C ∧ l < d.B := by
  simp only [blackIdx, mem_nest, List.mem_range'_1]
  omega

theorem mem_blueIdx (d : Dragonfly) (i j : Nat) : (i, j) ∈ blueIdx d ↔ i < j ∧ j < d.G := by
  simp only [blueIdx, mem_nest, List.mem_range'_1]
  omega

theorem nodup_greenIdx (d : Dragonfly) : (greenIdx d).Nodup :=
  nodup_nest _ _ (List.nodup_range' 1) (fun _ => nodup_nest _ _ (List.nodup_range' 1) (fun _ => List.nodup_range' 1))

theorem nodup_blackIdx (d : Dragonfly) : (blackIdx d).Nodup :=
  nodup_nest _ _ (List.nodup_range' 1) (fun _ => nodup_nest _ _ (List.nodup_range' 1)
    (fun _ => nodup_nest _ _ (List.nodup_range' 1) (fun _ => List.nodup_range' 1)))

theorem nodup_blueIdx (d : Dragonfly) : (blueIdx d).Nodup :=
  nodup_nest _ _ (List.nodup_range' 1) (fun _ => List.nodup_range' 1)

/-! ### the local phase only writes `.node` slots -/

theorem forRange_inv {σ : Type} (P : σ → Prop) (lo hi : Nat) (f : Nat → σ → σ) (s : σ) (h0 : P s)
    (hs : ∀ i s, P s → P (f i s)) : P (forRange lo hi f s) := by
  unfold forRange
  generalize List.range (hi - lo) = xs
  induction xs generalizing s with
  | nil => exact h0
  | cons x xs ih => exact ih _ (hs _ _ h0)

theorem localPhase_node (d : Dragonfly) : ∀ a ∈ (localPhase d).2, ∃ i, a.slot = .node i := by
  unfold localPhase
  apply forRange_inv (fun s : Nat × List DAssign => ∀ a ∈ s.2, ∃ i, a.slot = .node i)
  · intro a h; cases h
  · intro i s hs
    apply forRange_inv (fun s : Nat × List DAssign => ∀ a ∈ s.2, ∃ i, a.slot = .node i) _ _ _ _ hs
    intro n s hs
    obtain ⟨uid, as⟩ := s
    dsimp only
    intro a ha
    split at ha
    · rcases List.mem_cons.1 ha with rfl | ha
      · exact ⟨_, rfl⟩
      · rcases List.mem_cons.1 ha with rfl | ha
        · exact ⟨_, rfl⟩
        · exact hs a ha
    · rcases List.mem_cons.1 ha with rfl | ha
      · exact ⟨_, rfl⟩
      · exact hs a ha

/-- where an entry of the final list comes from -/
theorem mem_genLinks (d : Dragonfly) (a : DAssign) (h : a ∈ d.genLinks.2) :
    (∃ i, a.slot = .node i) ∨ (∃ x u, (x, u) ∈ tag (greenIdx d) (localPhase d).1 ∧ a ∈ emitG d x u) ∨
    (∃ x u, (x, u) ∈ tag (blackIdx d) (stG d).1 ∧ a ∈ emitK d x u) ∨
    (∃ x u, (x, u) ∈ tag (blueIdx d) (stK d).1 ∧ a ∈ emitB d x u) := by
  rw [genLinks_eq'] at h
  rcases (mem_runW _ _ _ _).1 h with h | h
  · rcases (mem_runW _ _ _ _).1 h with h | h
    · rcases (mem_runW _ _ _ _).1 h with h | h
      · exact Or.inl (localPhase_node d a h)
      · exact Or.inr (Or.inl h)
    · exact Or.inr (Or.inr (Or.inl h))
  · exact Or.inr (Or.inr (Or.inr h))

theorem mem_of_green (d : Dragonfly) (a : DAssign) (x : Nat × Nat × Nat) (u : Nat)
    (hx : (x, u) ∈ tag (greenIdx d) (localPhase d).1) (ha : a ∈ emitG d x u) : a ∈ d.genLinks.2 := by
  rw [genLinks_eq']
  exact (mem_runW _ _ _ _).2 (Or.inl ((mem_runW _ _ _ _).2 (Or.inl ((mem_runW _ _ _ _).2 (Or.inr ⟨x, u, hx, ha⟩)))))

theorem mem_of_black (d : Dragonfly) (a : DAssign) (x : Nat × Nat × Nat × Nat) (u : Nat)
    (hx : (x, u) ∈ tag (blackIdx d) (stG d).1) (ha : a ∈ emitK d x u) : a ∈ d.genLinks.2 := by
  rw [genLinks_eq']
  exact (mem_runW _ _ _ _).2 (Or.inl ((mem_runW _ _ _ _).2 (Or.inr ⟨x, u, hx, ha⟩)))

theorem mem_of_blue (d : Dragonfly) (a : DAssign) (x : Nat × Nat) (u : Nat)
    (hx : (x, u) ∈ tag (blueIdx d) (stK d).1) (ha : a ∈ emitB d x u) : a ∈ d.genLinks.2 := by
  rw [genLinks_eq']
  exact (mem_runW _ _ _ _).2 (Or.inr ⟨x, u, hx, ha⟩)

theorem emitG_slot (d : Dragonfly) (x : Nat × Nat × Nat) (u : Nat) (a : DAssign) (h : a ∈ emitG d x u) :
    ∃ k, a.slot = .green k := by
  simp only [emitG, List.mem_cons, List.not_mem_nil, or_false] at h
  rcases h with rfl | rfl <;> exact ⟨_, rfl⟩

theorem emitK_slot (d : Dragonfly) (x : Nat × Nat × Nat × Nat) (u : Nat) (a : DAssign) (h : a ∈ emitK d x u) :
    ∃ k, a.slot = .black k := by
  simp only [emitK, List.mem_cons, List.not_mem_nil, or_false] at h
  rcases h with rfl | rfl <;> exact ⟨_, rfl⟩

theorem emitB_slot (d : Dragonfly) (x : Nat × Nat) (u : Nat) (a : DAssign) (h : a ∈ emitB d x u) :
    a.slot = .blue := by
  simp only [emitB, List.mem_cons, List.not_mem_nil, or_false] at h
  rcases h with rfl | rfl <;> rfl

/-! ### arithmetic -/

theorem divmod_unique (M a b a' b' : Nat) (hb : b < M) (hb' : b' < M) (h : a * M + b = a' * M + b') :
    a = a' ∧ b = b' := by
  have hM : 0 < M := by omega
  have e1 : (a * M + b) / M = a := by
    rw [Nat.add_comm, Nat.add_mul_div_right _ _ hM, Nat.div_eq_of_lt hb, Nat.zero_add]
  have e2 : (a' * M + b') / M = a' := by
    rw [Nat.add_comm, Nat.add_mul_div_right _ _ hM, Nat.div_eq_of_lt hb', Nat.zero_add]
  have e : a = a' := by rw [← e1, ← e2, h]
  subst e
  exact ⟨rfl, by omega⟩

/-- the association used by the loops (`i * B * C`) versus the one of `peer` / `ridx` (`i * (C * B)`) -/
theorem mulBC (i B C : Nat) : i * B * C = i * (C * B) := by
  rw [Nat.mul_assoc, Nat.mul_comm B C]

theorem black_unique (B C i j l i' j' l' : Nat) (hj : j < C) (hl : l < B) (hj' : j' < C) (hl' : l' < B)
    (h : i * (C * B) + j * B + l = i' * (C * B) + j' * B + l') : i = i' ∧ j = j' ∧ l = l' := by
  have h1 := cb_lt j l C B hj hl
  have h2 := cb_lt j' l' C B hj' hl'
  obtain ⟨e1, e2⟩ := divmod_unique (C * B) i (j * B + l) i' (j' * B + l') h1 h2 (by omega)
  obtain ⟨e3, e4⟩ := divmod_unique B j l j' l' hl hl' e2
  exact ⟨e1, e3, e4⟩

/-- a router number below `G*C*B` in coordinates -/
theorem router_decomp (d : Dragonfly) (r : Nat) (hr : r < d.nRouters) :
    0 < d.B ∧ 0 < d.C ∧ r / (d.C * d.B) < d.G ∧ (r / d.B) % d.C < d.C ∧ r % d.B < d.B ∧ r / d.B < d.G * d.C ∧
    r % (d.C * d.B) < d.C * d.B ∧
    r / d.B * d.B + r % d.B = r ∧ r / (d.C * d.B) * (d.C * d.B) + r % (d.C * d.B) = r ∧
    r / (d.C * d.B) * (d.C * d.B) + (r / d.B) % d.C * d.B + r % d.B = r := by
  unfold Dragonfly.nRouters at hr
  have hB : 0 < d.B := by
    rcases Nat.eq_zero_or_pos d.B with h0 | h0
    · rw [h0, Nat.mul_zero] at hr; omega
    · exact h0
  have hC : 0 < d.C := by
    rcases Nat.eq_zero_or_pos d.C with h0 | h0
    · rw [h0, Nat.mul_zero, Nat.zero_mul] at hr; omega
    · exact h0
  have hCB : 0 < d.C * d.B := Nat.mul_pos hC hB
  have e1 : d.G * d.C * d.B = d.C * d.B * d.G := by rw [Nat.mul_assoc, Nat.mul_comm]
  have e2 : d.G * d.C * d.B = d.B * (d.G * d.C) := Nat.mul_comm _ _
  have e3 : r / (d.C * d.B) = r / d.B / d.C := by rw [Nat.mul_comm, Nat.div_div_eq_div_mul]
  have e4 := Nat.div_add_mod' (r / d.B) d.C
  have e5 := Nat.div_add_mod' r d.B
  have e6 : r / d.B / d.C * (d.C * d.B) = r / d.B / d.C * d.C * d.B := by rw [Nat.mul_assoc]
  have e7 : (r / d.B / d.C * d.C + r / d.B % d.C) * d.B = r / d.B / d.C * d.C * d.B + r / d.B % d.C * d.B :=
    Nat.add_mul _ _ _
  refine ⟨hB, hC, Nat.div_lt_of_lt_mul (by omega), Nat.mod_lt _ hC, Nat.mod_lt _ hB, Nat.div_lt_of_lt_mul (by omega),
    Nat.mod_lt _ hCB, e5, Nat.div_add_mod' r (d.C * d.B), ?_⟩
  rw [e3, e6, ← e7, e4, e5]

/-! ### G2: the key (router, inter-router slot) determines the link -/

theorem green_functional (d : Dragonfly) (u0 : Nat) (x x' : Nat × Nat × Nat) (u u' : Nat)
    (hx : (x, u) ∈ tag (greenIdx d) u0) (hx' : (x', u') ∈ tag (greenIdx d) u0) (e1 e2 : DAssign)
    (h1 : e1 ∈ emitG d x u) (h2 : e2 ∈ emitG d x' u') (hr : e1.router = e2.router) (hs : e1.slot = e2.slot) :
    e1.link = e2.link := by
  obtain ⟨i, j, k⟩ := x
  obtain ⟨i', j', k'⟩ := x'
  have m1 := (mem_greenIdx d i j k).1 (mem_tag_fst _ _ _ _ hx).1
  have m2 := (mem_greenIdx d i' j' k').1 (mem_tag_fst _ _ _ _ hx').1
  simp only [emitG, List.mem_cons, List.not_mem_nil, or_false] at h1 h2
  rcases h1 with rfl | rfl <;> rcases h2 with rfl | rfl <;> simp only [DSlot.green.injEq] at hr hs
  · obtain ⟨a1, a2⟩ := divmod_unique d.B i k i' k' (by omega) (by omega) hr
    subst a1 a2 hs
    have := tag_functional _ (nodup_greenIdx d) _ _ _ _ hx hx'
    subst this
    rfl
  · obtain ⟨a1, a2⟩ := divmod_unique d.B i k i' j' (by omega) (by omega) hr
    omega
  · obtain ⟨a1, a2⟩ := divmod_unique d.B i j i' k' (by omega) (by omega) hr
    omega
  · obtain ⟨a1, a2⟩ := divmod_unique d.B i j i' j' (by omega) (by omega) hr
    subst a1 a2 hs
    have := tag_functional _ (nodup_greenIdx d) _ _ _ _ hx hx'
    subst this
    rfl

theorem black_functional (d : Dragonfly) (u0 : Nat) (x x' : Nat × Nat × Nat × Nat) (u u' : Nat)
    (hx : (x, u) ∈ tag (blackIdx d) u0) (hx' : (x', u') ∈ tag (blackIdx d) u0) (e1 e2 : DAssign)
    (h1 : e1 ∈ emitK d x u) (h2 : e2 ∈ emitK d x' u') (hr : e1.router = e2.router) (hs : e1.slot = e2.slot) :
    e1.link = e2.link := by
  obtain ⟨i, j, k, l⟩ := x
  obtain ⟨i', j', k', l'⟩ := x'
  have m1 := (mem_blackIdx d i j k l).1 (mem_tag_fst _ _ _ _ hx).1
  have m2 := (mem_blackIdx d i' j' k' l').1 (mem_tag_fst _ _ _ _ hx').1
  simp only [emitK, List.mem_cons, List.not_mem_nil, or_false] at h1 h2
  rcases h1 with rfl | rfl <;> rcases h2 with rfl | rfl <;> simp only [DSlot.black.injEq, mulBC] at hr hs
  · obtain ⟨a1, a2, a3⟩ := black_unique d.B d.C i k l i' k' l' (by omega) (by omega) (by omega) (by omega) hr
    subst a1 a2 a3 hs
    have := tag_functional _ (nodup_blackIdx d) _ _ _ _ hx hx'
    subst this
    rfl
  · obtain ⟨a1, a2, a3⟩ := black_unique d.B d.C i k l i' j' l' (by omega) (by omega) (by omega) (by omega) hr
    omega
  · obtain ⟨a1, a2, a3⟩ := black_unique d.B d.C i j l i' k' l' (by omega) (by omega) (by omega) (by omega) hr
    omega
  · obtain ⟨a1, a2, a3⟩ := black_unique d.B d.C i j l i' j' l' (by omega) (by omega) (by omega) (by omega) hr
    subst a1 a2 a3 hs
    have := tag_functional _ (nodup_blackIdx d) _ _ _ _ hx hx'
    subst this
    rfl

theorem blue_functional (d : Dragonfly) (hGB : d.G ≤ d.C * d.B) (u0 : Nat) (x x' : Nat × Nat) (u u' : Nat)
    (hx : (x, u) ∈ tag (blueIdx d) u0) (hx' : (x', u') ∈ tag (blueIdx d) u0) (e1 e2 : DAssign)
    (h1 : e1 ∈ emitB d x u) (h2 : e2 ∈ emitB d x' u') (hr : e1.router = e2.router) :
    e1.link = e2.link := by
  obtain ⟨i, j⟩ := x
  obtain ⟨i', j'⟩ := x'
  have m1 := (mem_blueIdx d i j).1 (mem_tag_fst _ _ _ _ hx).1
  have m2 := (mem_blueIdx d i' j').1 (mem_tag_fst _ _ _ _ hx').1
  simp only [emitB, List.mem_cons, List.not_mem_nil, or_false] at h1 h2
  rcases h1 with rfl | rfl <;> rcases h2 with rfl | rfl <;> simp only [mulBC] at hr
  · obtain ⟨a1, a2⟩ := divmod_unique (d.C * d.B) j i j' i' (by omega) (by omega) hr
    subst a1 a2
    have := tag_functional _ (nodup_blueIdx d) _ _ _ _ hx hx'
    subst this
    rfl
  · obtain ⟨a1, a2⟩ := divmod_unique (d.C * d.B) j i i' j' (by omega) (by omega) hr
    omega
  · obtain ⟨a1, a2⟩ := divmod_unique (d.C * d.B) i j j' i' (by omega) (by omega) hr
    omega
  · obtain ⟨a1, a2⟩ := divmod_unique (d.C * d.B) i j i' j' (by omega) (by omega) hr
    subst a1 a2
    have := tag_functional _ (nodup_blueIdx d) _ _ _ _ hx hx'
    subst this
    rfl

/-- **G2**: in the final list two entries with the same router and the same inter-router slot carry the same link -/
theorem genLinks_key_functional (d : Dragonfly) (hGB : d.G ≤ d.C * d.B) (e1 e2 : DAssign)
    (h1 : e1 ∈ d.genLinks.2) (h2 : e2 ∈ d.genLinks.2) (hr : e1.router = e2.router) (hs : e1.slot = e2.slot)
    (hn : ∀ i, e1.slot ≠ .node i) : e1.link = e2.link := by
  rcases mem_genLinks d e1 h1 with ⟨i, h⟩ | ⟨x, u, hx, ha⟩ | ⟨x, u, hx, ha⟩ | ⟨x, u, hx, ha⟩
  · exact absurd h (hn i)
  · obtain ⟨k, hk⟩ := emitG_slot d x u e1 ha
    rcases mem_genLinks d e2 h2 with ⟨i, h⟩ | ⟨x', u', hx', ha'⟩ | ⟨x', u', hx', ha'⟩ | ⟨x', u', hx', ha'⟩
    · rw [← hs, hk] at h; cases h
    · exact green_functional d _ x x' u u' hx hx' e1 e2 ha ha' hr hs
    · obtain ⟨k', hk'⟩ := emitK_slot d x' u' e2 ha'
      rw [hk, hk'] at hs; cases hs
    · have hk' := emitB_slot d x' u' e2 ha'
      rw [hk, hk'] at hs; cases hs
  · obtain ⟨k, hk⟩ := emitK_slot d x u e1 ha
    rcases mem_genLinks d e2 h2 with ⟨i, h⟩ | ⟨x', u', hx', ha'⟩ | ⟨x', u', hx', ha'⟩ | ⟨x', u', hx', ha'⟩
    · rw [← hs, hk] at h; cases h
    · obtain ⟨k', hk'⟩ := emitG_slot d x' u' e2 ha'
      rw [hk, hk'] at hs; cases hs
    · exact black_functional d _ x x' u u' hx hx' e1 e2 ha ha' hr hs
    · have hk' := emitB_slot d x' u' e2 ha'
      rw [hk, hk'] at hs; cases hs
  · have hk := emitB_slot d x u e1 ha
    rcases mem_genLinks d e2 h2 with ⟨i, h⟩ | ⟨x', u', hx', ha'⟩ | ⟨x', u', hx', ha'⟩ | ⟨x', u', hx', ha'⟩
    · rw [← hs, hk] at h; cases h
    · obtain ⟨k', hk'⟩ := emitG_slot d x' u' e2 ha'
      rw [hk, hk'] at hs; cases hs
    · obtain ⟨k', hk'⟩ := emitK_slot d x' u' e2 ha'
      rw [hk, hk'] at hs; cases hs
    · exact blue_functional d hGB _ x x' u u' hx hx' e1 e2 ha ha' hr

/-! ### G1 + G3: both halves of the link of a slot with a peer are in the list -/

theorem green_pair (d : Dragonfly) (r : Nat) (hr : r < d.nRouters) (k : Nat) (hk : k < d.B) (hne : k ≠ r % d.B) :
    ∃ l, (⟨r, .green k, l⟩ : DAssign) ∈ d.genLinks.2 ∧
      (⟨r / d.B * d.B + k, .green (r % d.B), l.flip⟩ : DAssign) ∈ d.genLinks.2 := by
  obtain ⟨_, _, _, _, hb, hi, _, e, _, _⟩ := router_decomp d r hr
  rcases Nat.lt_or_gt_of_ne hne with h | h
  · obtain ⟨u, hu⟩ := tag_total (greenIdx d) (localPhase d).1 (r / d.B, k, r % d.B)
      ((mem_greenIdx d _ _ _).2 ⟨hi, h, hb⟩)
    refine ⟨.green (r / d.B % d.C) k (r % d.B) u false, mem_of_green d _ _ u hu ?_, mem_of_green d _ _ u hu ?_⟩
    · simp only [emitG, e, List.mem_cons, true_or]
    · simp only [emitG, DLink.flip, Bool.not_false, List.mem_cons, or_true, true_or]
  · obtain ⟨u, hu⟩ := tag_total (greenIdx d) (localPhase d).1 (r / d.B, r % d.B, k)
      ((mem_greenIdx d _ _ _).2 ⟨hi, h, hk⟩)
    refine ⟨.green (r / d.B % d.C) (r % d.B) k u true, mem_of_green d _ _ u hu ?_, mem_of_green d _ _ u hu ?_⟩
    · simp only [emitG, e, List.mem_cons, or_true, true_or]
    · simp only [emitG, DLink.flip, Bool.not_true, List.mem_cons, true_or]

theorem black_pair (d : Dragonfly) (r : Nat) (hr : r < d.nRouters) (k : Nat) (hk : k < d.C)
    (hne : k ≠ (r / d.B) % d.C) :
    ∃ l, (⟨r, .black k, l⟩ : DAssign) ∈ d.genLinks.2 ∧
      (⟨r / (d.C * d.B) * (d.C * d.B) + k * d.B + r % d.B, .black ((r / d.B) % d.C), l.flip⟩ : DAssign) ∈ d.genLinks.2 := by
  obtain ⟨_, _, hg, hc, hb, _, _, _, _, e⟩ := router_decomp d r hr
  rcases Nat.lt_or_gt_of_ne hne with h | h
  · obtain ⟨u, hu⟩ := tag_total (blackIdx d) (stG d).1 (r / (d.C * d.B), k, (r / d.B) % d.C, r % d.B)
      ((mem_blackIdx d _ _ _ _).2 ⟨hg, h, hc, hb⟩)
    refine ⟨.black (r / (d.C * d.B)) k ((r / d.B) % d.C) (r % d.B) u false,
      mem_of_black d _ _ u hu ?_, mem_of_black d _ _ u hu ?_⟩
    · simp only [emitK, mulBC, e, List.mem_cons, true_or]
    · simp only [emitK, mulBC, DLink.flip, Bool.not_false, List.mem_cons, or_true, true_or]
  · obtain ⟨u, hu⟩ := tag_total (blackIdx d) (stG d).1 (r / (d.C * d.B), (r / d.B) % d.C, k, r % d.B)
      ((mem_blackIdx d _ _ _ _).2 ⟨hg, h, hk, hb⟩)
    refine ⟨.black (r / (d.C * d.B)) ((r / d.B) % d.C) k (r % d.B) u true,
      mem_of_black d _ _ u hu ?_, mem_of_black d _ _ u hu ?_⟩
    · simp only [emitK, mulBC, e, List.mem_cons, or_true, true_or]
    · simp only [emitK, mulBC, DLink.flip, Bool.not_true, List.mem_cons, true_or]

theorem blue_pair (d : Dragonfly) (r : Nat) (hr : r < d.nRouters) (ho : r % (d.C * d.B) < d.G)
    (hne : r % (d.C * d.B) ≠ r / (d.C * d.B)) :
    ∃ l, (⟨r, .blue, l⟩ : DAssign) ∈ d.genLinks.2 ∧
      (⟨r % (d.C * d.B) * (d.C * d.B) + r / (d.C * d.B), .blue, l.flip⟩ : DAssign) ∈ d.genLinks.2 := by
  obtain ⟨_, _, hg, _, _, _, _, _, e, _⟩ := router_decomp d r hr
  rcases Nat.lt_or_gt_of_ne hne with h | h
  · obtain ⟨u, hu⟩ := tag_total (blueIdx d) (stK d).1 (r % (d.C * d.B), r / (d.C * d.B))
      ((mem_blueIdx d _ _).2 ⟨h, hg⟩)
    refine ⟨.blue (r % (d.C * d.B)) (r / (d.C * d.B)) (r % (d.C * d.B) * (d.C * d.B) + r / (d.C * d.B)) r u false,
      mem_of_blue d _ _ u hu ?_, mem_of_blue d _ _ u hu ?_⟩
    · simp only [emitB, mulBC, e, List.mem_cons, true_or]
    · simp only [emitB, mulBC, e, DLink.flip, Bool.not_false, List.mem_cons, or_true, true_or]
  · obtain ⟨u, hu⟩ := tag_total (blueIdx d) (stK d).1 (r / (d.C * d.B), r % (d.C * d.B))
      ((mem_blueIdx d _ _).2 ⟨h, ho⟩)
    refine ⟨.blue (r / (d.C * d.B)) (r % (d.C * d.B)) r (r % (d.C * d.B) * (d.C * d.B) + r / (d.C * d.B)) u true,
      mem_of_blue d _ _ u hu ?_, mem_of_blue d _ _ u hu ?_⟩
    · simp only [emitB, mulBC, e, List.mem_cons, or_true, true_or]
    · simp only [emitB, mulBC, e, DLink.flip, Bool.not_true, List.mem_cons, true_or]

/-- **G1 + G3**: for every router and slot with a peer, the list holds an entry for the slot and the entry with the flipped
link for the back slot of the peer (no hypothesis on the shape) -/
theorem genLinks_pair (d : Dragonfly) (r : Nat) (hr : r < d.nRouters) (s : DSlot) (q : Nat) (hq : d.peer r s = some q) :
    ∃ l, (⟨r, s, l⟩ : DAssign) ∈ d.genLinks.2 ∧ (⟨q, d.backSlot r s, l.flip⟩ : DAssign) ∈ d.genLinks.2 := by
  cases s with
  | node i => simp [Dragonfly.peer] at hq
  | green k =>
    simp only [Dragonfly.peer] at hq
    split at hq
    · rename_i h
      cases hq
      exact green_pair d r hr k h.1 h.2
    · cases hq
  | black k =>
    simp only [Dragonfly.peer] at hq
    split at hq
    · rename_i h
      cases hq
      exact black_pair d r hr k h.1 h.2
    · cases hq
  | blue =>
    simp only [Dragonfly.peer] at hq
    split at hq
    · rename_i h
      cases hq
      exact blue_pair d r hr h.1 h.2
    · cases hq

/-! ### bounds -/

theorem peer_lt (d : Dragonfly) (hGB : d.G ≤ d.C * d.B) (r : Nat) (hr : r < d.nRouters) (s : DSlot) (q : Nat)
    (hq : d.peer r s = some q) : q < d.nRouters ∧ d.slotInBounds s = true ∧ d.slotInBounds (d.backSlot r s) = true := by
  obtain ⟨hB, hC, hg, hc, hb, hi, ho, _, _, _⟩ := router_decomp d r hr
  have hn : d.nRouters = d.G * (d.C * d.B) := by unfold Dragonfly.nRouters; rw [Nat.mul_assoc]
  cases s with
  | node i => simp [Dragonfly.peer] at hq
  | green k =>
    simp only [Dragonfly.peer] at hq
    split at hq
    · rename_i h
      cases hq
      refine ⟨?_, by simp [Dragonfly.slotInBounds, h.1], by simp [Dragonfly.slotInBounds, Dragonfly.backSlot, hb]⟩
      have h1 : (r / d.B + 1) * d.B ≤ d.G * d.C * d.B := Nat.mul_le_mul_right _ hi
      rw [Nat.add_mul, Nat.one_mul] at h1
      unfold Dragonfly.nRouters
      omega
    · cases hq
  | black k =>
    simp only [Dragonfly.peer] at hq
    split at hq
    · rename_i h
      cases hq
      refine ⟨?_, by simp [Dragonfly.slotInBounds, h.1], by simp [Dragonfly.slotInBounds, Dragonfly.backSlot, hc]⟩
      exact ridx_lt d ⟨r / (d.C * d.B), k, r % d.B⟩ ⟨hg, h.1, hb⟩
    · cases hq
  | blue =>
    simp only [Dragonfly.peer] at hq
    split at hq
    · rename_i h
      cases hq
      refine ⟨?_, rfl, rfl⟩
      have h1 : (r % (d.C * d.B) + 1) * (d.C * d.B) ≤ d.G * (d.C * d.B) := Nat.mul_le_mul_right _ h.1
      rw [Nat.add_mul, Nat.one_mul] at h1
      rw [hn]
      omega
    · cases hq

/-! ### the theorem -/

theorem find_key (as : List DAssign) (r : Nat) (s : DSlot) (l : DLink) (hmem : (⟨r, s, l⟩ : DAssign) ∈ as)
    (hfun : ∀ e ∈ as, e.router = r → e.slot = s → e.link = l) :
    (as.find? (fun a => a.router == r && a.slot == s)).map (·.link) = some l := by
  cases h : as.find? (fun a => a.router == r && a.slot == s) with
  | none =>
    rw [List.find?_eq_none] at h
    exact absurd (by simp) (h _ hmem)
  | some e =>
    have h1 := List.find?_some h
    have h2 := List.mem_of_find?_eq_some h
    simp only [Bool.and_eq_true, beq_iff_eq] at h1
    simp only [Option.map_some, hfun e h2 h1.1 h1.2]

theorem peer_slot_ne_node (d : Dragonfly) (r : Nat) (s : DSlot) (q : Nat) (hq : d.peer r s = some q) :
    (∀ i, s ≠ .node i) ∧ (∀ i, d.backSlot r s ≠ .node i) := by
  cases s with
  | node i => simp [Dragonfly.peer] at hq
  | green k => exact ⟨fun i h => (by cases h), fun i h => (by cases h)⟩
  | black k => exact ⟨fun i h => (by cases h), fun i h => (by cases h)⟩
  | blue => exact ⟨fun i h => (by cases h), fun i h => (by cases h)⟩

/-- **the wiring of `generate_links`, for all shapes** with `G ≤ C*B` (a blue link of group `i` is held by router number
`j < G` of the group: it has to be a router of that group): the slot of router `r` and the back slot of its peer hold
the two halves of one link. -/
theorem genLinks_wiring_CB (d : Dragonfly) (hGB : d.G ≤ d.C * d.B) (r : Nat) (hr : r < d.nRouters) (s : DSlot) (q : Nat)
    (hq : d.peer r s = some q) :
    ∃ l, d.linkAt d.genLinks.2 r s = some l ∧ d.linkAt d.genLinks.2 q (d.backSlot r s) = some l.flip := by
  obtain ⟨l, m1, m2⟩ := genLinks_pair d r hr s q hq
  obtain ⟨hqlt, b1, b2⟩ := peer_lt d hGB r hr s q hq
  obtain ⟨n1, n2⟩ := peer_slot_ne_node d r s q hq
  refine ⟨l, ?_, ?_⟩
  · unfold Dragonfly.linkAt
    rw [if_pos ⟨hr, b1⟩]
    apply find_key _ _ _ _ m1
    intro e he h1 h2
    exact (genLinks_key_functional d hGB _ e m1 he h1.symm h2.symm n1).symm
  · unfold Dragonfly.linkAt
    rw [if_pos ⟨hqlt, b2⟩]
    apply find_key _ _ _ _ m2
    intro e he h1 h2
    exact (genLinks_key_functional d hGB _ e m2 he h1.symm h2.symm n2).symm

/-- `wiringOk_spec` without its hypothesis `d.wiringOk = true` -/
theorem genLinks_wiring (d : Dragonfly) (hGB : d.G ≤ d.B) (r : Nat) (hr : r < d.nRouters) (s : DSlot) (q : Nat)
    (hq : d.peer r s = some q) :
    ∃ l, d.linkAt d.genLinks.2 r s = some l ∧ d.linkAt d.genLinks.2 q (d.backSlot r s) = some l.flip := by
  have hC := (router_decomp d r hr).2.1
  have : d.B ≤ d.C * d.B := Nat.le_mul_of_pos_left _ hC
  exact genLinks_wiring_CB d (by omega) r hr s q hq

/-- the executable check `wiringOk` holds for every shape with `G ≤ C*B` -/
theorem wiringOk_of_le (d : Dragonfly) (hGB : d.G ≤ d.C * d.B) : d.wiringOk = true := by
  unfold Dragonfly.wiringOk
  simp only [List.all_eq_true, List.mem_range]
  intro r hr s _
  cases hq : d.peer r s with
  | none => rfl
  | some q =>
    obtain ⟨l, e1, e2⟩ := genLinks_wiring_CB d hGB r hr s q hq
    simp only [e1, e2, beq_self_eq_true]

/-- non-vacuity: a 2x2x2 dragonfly, router 2 = (1,0,0), its green link to blade 1 (router 3) -/
example : ∃ l, (⟨2, 2, 2, 1, false, false, true, 0⟩ : Dragonfly).linkAt (⟨2, 2, 2, 1, false, false, true, 0⟩ : Dragonfly).genLinks.2 2 (.green 1) = some l ∧
    (⟨2, 2, 2, 1, false, false, true, 0⟩ : Dragonfly).linkAt (⟨2, 2, 2, 1, false, false, true, 0⟩ : Dragonfly).genLinks.2 3
      ((⟨2, 2, 2, 1, false, false, true, 0⟩ : Dragonfly).backSlot 2 (.green 1)) = some l.flip :=
  genLinks_wiring ⟨2, 2, 2, 1, false, false, true, 0⟩ (by decide) 2 (by decide) (.green 1) 3 (by decide)

/-- non-vacuity: the blue link of router 1 = (0,0,1) to router 4 = (1,0,0); here `G = 2 ≤ C*B = 4` -/
example := genLinks_wiring_CB ⟨2, 2, 2, 1, false, false, false, 7⟩ (by decide) 1 (by decide) .blue 4 (by decide)

/-- non-vacuity: a black link -/
example := genLinks_wiring ⟨2, 3, 2, 2, true, true, true, 0⟩ (by decide) 5 (by decide) (.black 0) 1 (by decide)

/-- `DConnected_linked` with its hypothesis `wiringOk` proved: a chain of hops connected by `peer` is a chain of links
of the tables built by `genLinks` -/
theorem DConnected_linked_of_le (d : Dragonfly) (hGB : d.G ≤ d.C * d.B) (ss : List DStep) (a b : Nat)
    (h : DConnected d a ss b) : DLinked d a ss b :=
  DConnected_linked d (wiringOk_of_le d hGB) ss a b h

example : (⟨3, 2, 2, 1, false, false, true, 5⟩ : Dragonfly).wiringOk = true := wiringOk_of_le _ (by decide)

end SgVerif.C26
