import SgVerif.C26.FatTree
/-
C26 — fat tree: the SPECIFICATION side of the theorems `fattree_*` (core only: the driver evaluates `wfCheck`).

* `FatTree.paramsOk`   : well-formed parameters (at least one level, every fan-out / multiplicity >= 1);
* `FTables.wfCheck`    : executable well-formedness of the tables produced by the construction: what the routing relies
                         on (ports -> links -> nodes whose labels differ from the current node's in one digit);
* `renderUp/renderDown`: the links pushed for a list of tree edges (limiter of the node the hop LEAVES, on both ways);
* `ncaLevel`           : level of the nearest common ancestor of two leaves, from their labels.
-/
namespace SgVerif.C26

/-- `add_netzone_fatTree`'s requirements that matter for routing: `levels >= 1`, every `num_children_per_node_[i]`,
`num_parents_per_node_[i]`, `num_port_lower_level_[i]` (i < levels) is at least 1 -/
def FatTree.paramsOk (f : FatTree) : Bool :=
  decide (0 < f.levels) &&
    (List.range f.levels).all (fun i => decide (0 < f.down.getD i 0) && decide (0 < f.up.getD i 0) && decide (0 < f.count.getD i 0))

/-- labels `a` and `b` agree on the digits `lo <= j < levels` -/
def agreeFrom (levels : Nat) (a b : List Nat) (lo : Nat) : Bool :=
  (List.range levels).all (fun j => decide (j < lo) || a.getD j 0 == b.getD j 0)

/-- `pn`'s label is `cn`'s with digit `at` replaced by `v` (digits < levels) -/
def labelSet (levels : Nat) (pn cn : List Nat) (pos v : Nat) : Bool :=
  (List.range levels).all (fun j => pn.getD j 0 == if j = pos then v else cn.getD j 0)

/-- what `get_local_route` relies on, checked on a table (every node, every port):
* levels are at most `levels`;
* `parents[port]` of a node of level `l < levels`, for every `port < num_parents[l] * num_port_lower_level[l]`, is a link
  whose child is this node and whose parent is a node of level `l + 1` labelled like this node except digit `l`, which is
  `port % num_parents[l]`;
* `children[port]` of a node of level `l >= 1`, for every `port < children.size()`, is a link whose parent is this node and
  whose child is a node of level `l - 1` labelled like this node except digit `l - 1`, which is `port % num_children[l-1]`;
* leaf labels: digit `j` is `< num_children[j]`, and two leaves with the same label are the same node. -/
def FTables.upPortOk (f : FatTree) (t : FTables) (c : Nat) (cn : FNode) (port : Nat) : Bool :=
  match t.parentAt c port with
  | none => false
  | some l =>
    l.child == c &&
    match t.nodes[l.parent]? with
    | none => false
    | some pn => pn.level == cn.level + 1 &&
        labelSet f.levels pn.label cn.label cn.level (port % f.up.getD cn.level 0)

def FTables.downPortOk (f : FatTree) (t : FTables) (c : Nat) (cn : FNode) (port : Nat) : Bool :=
  match t.childAt c port with
  | none => false
  | some l =>
    l.parent == c &&
    match t.nodes[l.child]? with
    | none => false
    | some ch => ch.level + 1 == cn.level &&
        labelSet f.levels ch.label cn.label (cn.level - 1) (port % f.down.getD (cn.level - 1) 0)

def FTables.leafPairOk (f : FatTree) (t : FTables) (c : Nat) (cn : FNode) (c2 : Nat) : Bool :=
  match t.nodes[c2]? with
  | none => false
  | some cn2 => decide (cn2.level ≠ 0) || !(agreeFrom f.levels cn.label cn2.label 0) || c2 == c

def FTables.nodeOk (f : FatTree) (t : FTables) (c : Nat) (cn : FNode) : Bool :=
  decide (cn.level ≤ f.levels) &&
  (decide (f.levels ≤ cn.level) ||
    (List.range (f.up.getD cn.level 0 * f.count.getD cn.level 0)).all (fun port => t.upPortOk f c cn port)) &&
  (decide (cn.level = 0) ||
    (List.range (f.down.getD (cn.level - 1) 0 * f.count.getD (cn.level - 1) 0)).all (fun port => t.downPortOk f c cn port)) &&
  (decide (cn.level ≠ 0) ||
    ((List.range f.levels).all (fun j => decide (cn.label.getD j 0 < f.down.getD j 0)) &&
     (List.range t.nodes.length).all (fun c2 => t.leafPairOk f c cn c2)))

def FTables.wfCheck (f : FatTree) (t : FTables) : Bool :=
  (List.range t.nodes.length).all (fun c =>
    match t.nodes[c]? with
    | none => false
    | some cn => t.nodeOk f c cn)

/-- links pushed while going up along the tree edges `ls`: `if (currentNode->limiter_link_) push(limiter); push(up_link_)` -/
def FatTree.renderUp (f : FatTree) (t : FTables) : List FLink → Option (List FTLink)
  | [] => some []
  | l :: ls =>
    match t.nodes[l.child]?, FatTree.cable t l true, f.renderUp t ls with
    | some cn, some c, some r => some (f.limiterOf cn ++ [c] ++ r)
    | _, _, _ => none

/-- links pushed while going down along `ls`: `push(down_link_); if (currentNode->limiter_link_) push(limiter)` where
`currentNode` is still the upper end -/
def FatTree.renderDown (f : FatTree) (t : FTables) : List FLink → Option (List FTLink)
  | [] => some []
  | l :: ls =>
    match t.nodes[l.parent]?, FatTree.cable t l false, f.renderDown t ls with
    | some pn, some c, some r => some ([c] ++ f.limiterOf pn ++ r)
    | _, _, _ => none

/-- `ncaLevel a b levels`: 1 + the highest digit `< levels` where the labels differ; 1 when they do not differ (a leaf
is not its own ancestor: `is_in_sub_tree` is false for `root->level <= node->level`, so `src -> src` without loopback
goes up one level and back) -/
def ncaLevel (a b : List Nat) : Nat → Nat
  | 0 => 1
  | n + 1 => if a.getD n 0 ≠ b.getD n 0 then n + 1 else ncaLevel a b n

def FTLink.isCable : FTLink → Bool
  | .cable _ _ _ _ => true
  | _ => false

/-- an UP half (`up_link_`) -/
def FTLink.isUpCable : FTLink → Bool
  | .cable _ _ _ up => up
  | _ => false

/-- a DOWN half (`down_link_`) -/
def FTLink.isDownCable : FTLink → Bool
  | .cable _ _ _ up => !up
  | _ => false

end SgVerif.C26
