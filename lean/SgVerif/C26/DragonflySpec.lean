import SgVerif.C26.Dragonfly
/-
C26 — dragonfly: the SPECIFICATION side of the connectivity theorems (core only: the driver evaluates `wiringOk`).

* `Dragonfly.peer`      : the router at the other end of the link stored in a slot, as wired by `generate_links`
                          (green: same chassis, blade `k`; black: same group and blade, chassis `k`; blue: router number
                          `j` of group `i` <-> router number `i` of group `j`);
* `Dragonfly.wiringOk`  : executable tie between `peer` and the tables built by `genLinks`: for every router and slot,
                          the slot and the peer's back slot hold the two halves of the same link;
* `Dragonfly.specSteps` : the documented hop structure, in coordinates.
-/
namespace SgVerif.C26

/-- the other end of the link in slot `s` of router number `r`, from the loops of `generate_links`:
```
 green: for i < G*C, j < B, k in j+1..B-1:  routers_[i*B + j].green_links_[k] = up;  routers_[i*B + k].green_links_[j] = down
 black: for i < G, j < C, k in j+1..C-1, l < B:  routers_[i*B*C + j*B + l].black_links_[k] = up;  routers_[i*B*C + k*B + l].black_links_[j] = down
 blue : for i < G, j in i+1..G-1:  routers_[i*B*C + j].blue_link_ = up;  routers_[j*B*C + i].blue_link_ = down
```
`none`: the slot is out of bounds or never assigned (nullptr). -/
def Dragonfly.peer (d : Dragonfly) (r : Nat) : DSlot → Option Nat
  | .green k => if k < d.B ∧ k ≠ r % d.B then some (r / d.B * d.B + k) else none
  | .black k => if k < d.C ∧ k ≠ (r / d.B) % d.C then some (r / (d.C * d.B) * (d.C * d.B) + k * d.B + r % d.B) else none
  | .blue => if r % (d.C * d.B) < d.G ∧ r % (d.C * d.B) ≠ r / (d.C * d.B) then
      some (r % (d.C * d.B) * (d.C * d.B) + r / (d.C * d.B)) else none
  | .node _ => none

/-- the slot of the peer that holds the other half of the same link -/
def Dragonfly.backSlot (d : Dragonfly) (r : Nat) : DSlot → DSlot
  | .green _ => .green (r % d.B)
  | .black _ => .black ((r / d.B) % d.C)
  | .blue => .blue
  | .node i => .node i

/-- the other half of the same link (same name and unique id, other direction) -/
def DLink.flip : DLink → DLink
  | .localL r n u up => .localL r n u (!up)
  | .green c j k u up => .green c j k u (!up)
  | .black g j k l u up => .black g j k l u (!up)
  | .blue i j ri rj u up => .blue i j ri rj u (!up)
  | l => l

/-- for every router `r < G*C*B` and every inter-router slot with a peer `q`: slot `s` of `r` and the back slot of `q` hold
the two halves of one link (as built by `genLinks`, last assignment wins) -/
def Dragonfly.wiringOk (d : Dragonfly) : Bool :=
  let as := d.genLinks.2
  (List.range d.nRouters).all (fun r =>
    (((List.range d.B).map DSlot.green) ++ ((List.range d.C).map DSlot.black) ++ [DSlot.blue]).all (fun s =>
      match d.peer r s with
      | none => true
      | some q =>
        match d.linkAt as r s, d.linkAt as q (d.backSlot r s) with
        | some l1, some l2 => l2 == l1.flip
        | _, _ => false))

/-- **the documented route between two routers**, in coordinates (group, chassis, blade):
other group: [green to the blade numbered like the target group]? [black to chassis 0]? blue [green to the target
blade]? [black to the target chassis]?; same group: [green to the target blade]? [black to the target chassis]?.
`next` of the last black hop is the router it leaves (the code does not update `currentRouter` there). -/
def Dragonfly.specSteps (d : Dragonfly) (my tg : RCoord) : List DStep :=
  if my = tg then [] else
  if tg.g ≠ my.g then
    (if my.b ≠ tg.g then [(⟨d.ridx my, .green tg.g, true, d.ridx ⟨my.g, my.c, tg.g⟩⟩ : DStep)] else []) ++
    (if my.c ≠ 0 then [(⟨d.ridx ⟨my.g, my.c, tg.g⟩, .black 0, true, d.ridx ⟨my.g, 0, tg.g⟩⟩ : DStep)] else []) ++
    [(⟨d.ridx ⟨my.g, 0, tg.g⟩, .blue, false, d.ridx ⟨tg.g, 0, my.g⟩⟩ : DStep)] ++
    (if tg.b ≠ my.g then [(⟨d.ridx ⟨tg.g, 0, my.g⟩, .green tg.b, true, d.ridx ⟨tg.g, 0, tg.b⟩⟩ : DStep)] else []) ++
    (if tg.c ≠ 0 then [(⟨d.ridx ⟨tg.g, 0, tg.b⟩, .black tg.c, true, d.ridx ⟨tg.g, 0, tg.b⟩⟩ : DStep)] else [])
  else
    (if tg.b ≠ my.b then [(⟨d.ridx my, .green tg.b, true, d.ridx ⟨my.g, my.c, tg.b⟩⟩ : DStep)] else []) ++
    (if tg.c ≠ my.c then [(⟨d.ridx ⟨my.g, my.c, tg.b⟩, .black tg.c, true, d.ridx ⟨my.g, my.c, tg.b⟩⟩ : DStep)] else [])

end SgVerif.C26
