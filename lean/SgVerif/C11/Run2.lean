import SgVerif.C11.Run
/-
C11 run-level infrastructure, part 2: the building blocks of `step` satisfy `SRel`.
-/
set_option linter.unusedSimpArgs false
set_option linter.unusedVariables false
namespace SgVerif.C11

theorem astep_upd {t : Rat} {slf tgt : Nat → Prop} (f : Nat → Actor) (b : Nat) (y : Actor)
    (h : AStep t (slf b) (tgt b) (f b) y) : ∀ j, AStep t (slf j) (tgt j) (f j) (upd f b y j) := by
  intro j
  by_cases hj : j = b
  · subst hj; simpa [upd] using h
  · simp only [upd, hj, if_false]; exact AStep.refl _ _ _ _

/-! ### reap, daemonRule, settleL -/
def reapStep (s : Sys) (i : Nat) : Sys :=
  let x := s.acts i
  match x.life with
  | .dying d =>
    if !x.ghost && !x.started && d == x.born then
      let r := runHidden s.acts d x.onExit.reverse
      { s with acts := upd r.1 i { (r.1 i) with ghost := true, onExit := r.2.reverse } }
    else s
  | _ => s

theorem reap_eq (s : Sys) : s.reap = s.ids.foldl reapStep s := rfl

theorem reapStep_core (s : Sys) (i : Nat) :
    (reapStep s i).k = s.k ∧ (reapStep s i).clock = s.clock ∧ ∀ j, core ((reapStep s i).acts j) = core (s.acts j) := by
  unfold reapStep
  simp only []
  split
  · split
    · refine ⟨rfl, rfl, fun j => ?_⟩
      by_cases hj : j = i
      · subst hj
        simp only [upd, if_true]
        have := runHidden_core s.acts ‹Rat› (s.acts j).onExit.reverse j
        simp only [core, Prod.mk.injEq] at this ⊢
        exact this
      · simp only [upd, hj, if_false]
        exact runHidden_core _ _ _ j
    · exact ⟨rfl, rfl, fun _ => rfl⟩
  · exact ⟨rfl, rfl, fun _ => rfl⟩

theorem reapFold_core (l : List Nat) : ∀ s : Sys,
    (l.foldl reapStep s).k = s.k ∧ (l.foldl reapStep s).clock = s.clock ∧ ∀ j, core ((l.foldl reapStep s).acts j) = core (s.acts j) := by
  induction l with
  | nil => intro s; exact ⟨rfl, rfl, fun _ => rfl⟩
  | cons x xs ih =>
    intro s
    simp only [List.foldl_cons]
    obtain ⟨a1, a2, a3⟩ := ih (reapStep s x)
    obtain ⟨b1, b2, b3⟩ := reapStep_core s x
    exact ⟨by rw [a1, b1], by rw [a2, b2], fun j => by rw [a3, b3]⟩

theorem reap_core (s : Sys) : s.reap.k = s.k ∧ s.reap.clock = s.clock ∧ ∀ j, core (s.reap.acts j) = core (s.acts j) := by
  rw [reap_eq]; exact reapFold_core _ s

theorem daemonRule_rel (s : Sys) (slf tgt : Nat → Prop) :
    s.daemonRule.clock = s.clock ∧ SRel s.clock slf tgt s s.daemonRule := by
  unfold Sys.daemonRule
  simp only []
  split
  · refine ⟨rfl, rfl, fun j => ?_⟩
    simp only []
    split
    · exact AStep.die _ _ _ _ _
    · exact AStep.refl _ _ _ _
  · exact ⟨rfl, SRel.refl _ _ _ _⟩

theorem settleL_rel (s s' : Sys) (slf tgt : Nat → Prop) (h : s' ∈ s.settleL) :
    s'.clock = s.clock ∧ SRel s.clock slf tgt s s' := by
  obtain ⟨r1, r2, r3⟩ := reap_core s
  have hr : SRel s.clock slf tgt s s.reap := SRel.of_core r1 r3
  unfold Sys.settleL at h
  simp only [] at h
  split at h
  · simp only [List.mem_cons, List.mem_nil_iff, or_false] at h
    rcases h with h | h
    · subst h
      obtain ⟨d1, d2⟩ := daemonRule_rel s.reap slf tgt
      obtain ⟨q1, q2, q3⟩ := reap_core s.reap.daemonRule
      refine ⟨by rw [q2, d1, r2], hr.trans ((by rw [r2] at d2; exact d2 : SRel s.clock slf tgt s.reap s.reap.daemonRule).trans
        (SRel.of_core q1 q3))⟩
    · subst h; exact ⟨r2, hr⟩
  · simp only [List.mem_cons, List.mem_nil_iff, or_false] at h
    subst h; exact ⟨r2, hr⟩

/-! ### runCallback -/
theorem runCallback_rel (s s' : Sys) (a g : Nat) (t : Rat) (x0 : Actor) (h : runCallback s a g t x0 = some s') :
    s'.clock = t ∧ s'.k = s.k ∧ (∀ j, j ≠ a → core (s'.acts j) = core (s.acts j)) ∧
    (core (s'.acts a) = core x0 ∨ core (s'.acts a) = core { x0 with life := .dead }) := by
  unfold runCallback at h
  simp only at h
  split at h
  · rename_i g' rest hr1
    split at h
    · cases h
    · cases h
      refine ⟨rfl, rfl, fun j hj => ?_, ?_⟩
      · simp only [upd, hj, if_false]
        rw [runHidden_core]
        simp only [upd, hj, if_false]
        rw [runHidden_core]
        simp only [upd, hj, if_false]
      · simp only [upd, if_true]
        have c2 := runHidden_core (upd (runHidden (upd s.acts a x0) t x0.onExit.reverse).1 a
          { (runHidden (upd s.acts a x0) t x0.onExit.reverse).1 a with
            onExit := rest.reverse, ran := ((runHidden (upd s.acts a x0) t x0.onExit.reverse).1 a).ran ++ [g] }) t rest a
        have c1 := runHidden_core (upd s.acts a x0) t x0.onExit.reverse a
        simp only [upd, if_true, core, Prod.mk.injEq] at c1 c2 ⊢
        split
        · right
          refine ⟨by rw [c2.1, c1.1], rfl, by rw [c2.2.2.1, c1.2.2.1], by rw [c2.2.2.2.1, c1.2.2.2.1],
            by rw [c2.2.2.2.2.1, c1.2.2.2.2.1], by rw [c2.2.2.2.2.2.1, c1.2.2.2.2.2.1], by rw [c2.2.2.2.2.2.2.1, c1.2.2.2.2.2.2.1],
            by rw [c2.2.2.2.2.2.2.2.1, c1.2.2.2.2.2.2.2.1], by rw [c2.2.2.2.2.2.2.2.2, c1.2.2.2.2.2.2.2.2]⟩
        · left
          refine ⟨by rw [c2.1, c1.1], by rw [c2.2.1, c1.2.1], by rw [c2.2.2.1, c1.2.2.1], by rw [c2.2.2.2.1, c1.2.2.2.1],
            by rw [c2.2.2.2.2.1, c1.2.2.2.2.1], by rw [c2.2.2.2.2.2.1, c1.2.2.2.2.2.1], by rw [c2.2.2.2.2.2.2.1, c1.2.2.2.2.2.2.1],
            by rw [c2.2.2.2.2.2.2.2.1, c1.2.2.2.2.2.2.2.1], by rw [c2.2.2.2.2.2.2.2.2, c1.2.2.2.2.2.2.2.2]⟩
  · cases h

/-- `x0` (dying) after its callback: the same, or dead -/
theorem astep_callback (t : Rat) (slf tgt : Prop) (x0 y : Actor) (hd : ∃ d, x0.life = .dying d)
    (h : core y = core x0 ∨ core y = core { x0 with life := .dead }) : AStep t slf tgt x0 y := by
  rcases h with h | h
  · exact AStep.of_core h
  · obtain ⟨d, hd⟩ := hd
    simp only [core, Prod.mk.injEq] at h
    obtain ⟨h1, h2, h3, h4, h5, h6, h7, h8, h9⟩ := h
    refine ⟨h1, ?_, ?_, ?_, fun _ => h2, fun _ _ => Or.inr h2, fun _ => Or.inl h3, ?_, ?_, ?_, by rw [h8]; exact id, fun _ => h9⟩
    · rw [h2]; intro e; cases e
    · rw [h2]; intro e; cases e
    · intro d'; rw [h2]; intro e; cases e
    · intro e; rw [hd] at e; cases e
    · intro e; rw [hd] at e; cases e
    · intro e; rw [hd] at e; cases e

end SgVerif.C11
