import SgVerif.C11.Run4
/-
C11 run-level infrastructure, part 5: `joined` and `exitCb` lines; `step_rel`.
-/
set_option linter.unusedSimpArgs false
set_option linter.unusedVariables false
namespace SgVerif.C11

theorem step_rel_joined (s s' : Sys) (a i : Nat) (t : Rat) (h : s' ∈ step s (.joined a i t)) :
    s.timeOk t = true ∧ s'.clock = t ∧ SRel t (fun j => j = a) (fun _ => False) s s' := by
  have hto := step_joined_timeOk s a i t (by intro e; rw [e] at h; cases h)
  refine ⟨hto, ?_⟩
  unfold step at h
  simp only [] at h
  split at h
  · cases h
  · split at h
    · cases h
    · have r1 : SRel t (fun j => j = a) (fun _ => False) s
          ({ s with clock := t, acts := upd s.acts a { (s.acts a) with inJoin := none } } : Sys) :=
        ⟨rfl, astep_upd _ a _ (AStep.mk' rfl rfl rfl (Or.inl rfl) (fun hs => Or.inl ⟨hs, rfl⟩) (Or.inr rfl) id)⟩
      exact settle_compose r1 rfl h

/-- from the record `x0` handed to `runCallback` (dying) to the result -/
theorem callback_rel {t : Rat} {slf tgt : Nat → Prop} (s0 m : Sys) (a g : Nat) (x0 : Actor) (hd : ∃ d, x0.life = .dying d)
    (h : runCallback s0 a g t x0 = some m) (hx : AStep t (slf a) (tgt a) (s0.acts a) x0) :
    m.clock = t ∧ SRel t slf tgt s0 m := by
  obtain ⟨c, k, o, sf⟩ := runCallback_rel s0 m a g t x0 h
  refine ⟨c, k, fun j => ?_⟩
  by_cases hj : j = a
  · subst hj
    exact hx.trans (astep_callback t _ _ x0 _ hd sf)
  · exact AStep.of_core (o j hj)

theorem die_dying (x : Actor) (t : Rat) (bm : Bool) (hl : x.life = .live) : ∃ d, (x.die t bm).life = .dying d := by
  unfold Actor.die; rw [hl]; exact ⟨t, rfl⟩

theorem callback_gone (s0 m : Sys) (a g : Nat) (t : Rat) (x0 : Actor) (hd : ∃ d, x0.life = .dying d)
    (h : runCallback s0 a g t x0 = some m) : (m.acts a).life.gone = true := by
  obtain ⟨_, _, _, sf⟩ := runCallback_rel s0 m a g t x0 h
  obtain ⟨d, hd⟩ := hd
  rcases sf with sf | sf <;> simp only [core, Prod.mk.injEq] at sf
  · rw [sf.2.1, hd]; rfl
  · rw [sf.2.1]; rfl

theorem gone_of_rel {t : Rat} {slf tgt : Prop} {x y : Actor} (h : AStep t slf tgt x y) (hx : x.life.gone = true) : y.life.gone = true := by
  cases hl : x.life with
  | absent => rw [hl] at hx; cases hx
  | live => rw [hl] at hx; cases hx
  | dying d => rcases h.l_gone d hl with h' | h' <;> (rw [h']; rfl)
  | dead => rw [h.l_dead hl]; rfl

theorem settle_gone {m s' : Sys} (a : Nat) (h : s' ∈ m.settleL) (hx : (m.acts a).life.gone = true) : (s'.acts a).life.gone = true :=
  gone_of_rel ((settleL_rel m s' (fun _ => False) (fun _ => False) h).2.act a) hx

theorem step_rel_exitCb (s s' : Sys) (a g : Nat) (t : Rat) (h : s' ∈ step s (.exitCb a g t)) :
    s.timeOk t = true ∧ (s'.clock = t ∧ SRel t (fun j => j = a) (fun _ => False) s s') ∧ (s'.acts a).life.gone = true := by
  have hto := step_exitCb_timeOk s a g t (by intro e; rw [e] at h; cases h)
  refine ⟨hto, ?_⟩
  unfold step at h
  simp only [] at h
  split at h
  · cases h
  · rename_i hg
    simp only [Decidable.not_not] at hg
    split at h
    · -- dying
      rename_i d hd
      split at h
      · split at h
        · have r1 : SRel t (fun j => j = a) (fun _ => False) s
              ({ s with clock := t, acts := upd s.acts a { (s.acts a) with life := .dead, ghost := false, started := true,
                                                                                onExit := [], ran := [0] } } : Sys) :=
            ⟨rfl, astep_upd _ a _ (astep_callback t _ _ _ _ ⟨d, hd⟩ (Or.inr rfl))⟩
          exact ⟨settle_compose r1 rfl h, settle_gone a h (by simp [upd, Life.gone])⟩
        · cases h
      · split at h
        · obtain ⟨m, hm, hs⟩ := mem_flatMap_settle h
          obtain ⟨c, r⟩ := callback_rel (slf := fun j => j = a) (tgt := fun _ => False) s m a g (s.acts a) ⟨d, hd⟩ hm (AStep.refl _ _ _ _)
          exact ⟨settle_compose r c hs, settle_gone a hs (callback_gone s m a g t _ ⟨d, hd⟩ hm)⟩
        · cases h
    · -- live: kill timer, own end, deadlock
      rename_i hl
      rcases List.mem_append.mp h with h | h
      · rcases List.mem_append.mp h with h | h
        · split at h
          · obtain ⟨m, hm, hs⟩ := mem_flatMap_settle h
            obtain ⟨c, r⟩ := callback_rel (slf := fun j => j = a) (tgt := fun _ => False) s m a g _ (die_dying _ t false hl) hm
              (AStep.die _ _ _ _ _)
            exact ⟨settle_compose r c hs, settle_gone a hs (callback_gone s m a g t _ (die_dying _ t false hl) hm)⟩
          · cases h
        · split at h
          · obtain ⟨m, hm, hs⟩ := mem_flatMap_settle h
            have hl' : ((s.assignHandle a).acts a).life = .live := by
              have := assignHandle_core s a a
              simp only [core, Prod.mk.injEq] at this
              rw [this.2.1]; exact hl
            obtain ⟨c, r⟩ := callback_rel (slf := fun j => j = a) (tgt := fun _ => False) (s.assignHandle a) m a g _
              (die_dying _ t false hl') hm (AStep.die _ _ _ _ _)
            exact ⟨settle_compose ((srel_assign s a t _ _).trans r) c hs,
              settle_gone a hs (callback_gone _ m a g t _ (die_dying _ t false hl') hm)⟩
          · cases h
      · split at h
        · split at h
          · cases h
          · obtain ⟨m, hm, hs⟩ := mem_flatMap_settle h
            have r1 : SRel t (fun j => j = a) (fun _ => False) s
                ({ s with clock := t, acts := fun i => if i < s.k then (s.acts i).die t true else s.acts i } : Sys) := by
              refine ⟨rfl, fun j => ?_⟩
              simp only []
              split
              · exact AStep.die _ _ _ _ _
              · exact AStep.refl _ _ _ _
            have hdy : ∃ d, ((if a < s.k then (s.acts a).die t true else s.acts a)).life = .dying d := by
              rw [if_pos hg.1]; exact die_dying _ t true hl
            obtain ⟨c, r⟩ := callback_rel (slf := fun j => j = a) (tgt := fun _ => False) _ m a g _ hdy hm (AStep.refl _ _ _ _)
            exact ⟨settle_compose (r1.trans r) c hs, settle_gone a hs (callback_gone _ m a g t _ hdy hm)⟩
        · cases h
    · cases h

/-- the subject of a line -/
def SelfOf (l : Label) (j : Nat) : Prop := l.subject = some j

/-- **one step, in terms of `SRel`**: an accepted line other than `finish` carries a date allowed by `timeOk`, sets the
clock to it, and changes every actor record according to `AStep` -/
theorem step_rel (s s' : Sys) (l : Label) (h : s' ∈ step s l) :
    (∃ t, l = .finish t ∧ s' = s ∧ t = s.clock) ∨
    (s.timeOk l.date = true ∧ s'.clock = l.date ∧ SRel l.date (SelfOf l) (TgtOf s l) s s') := by
  cases l with
  | op a i t sk =>
    right
    obtain ⟨h1, h2, h3⟩ := step_rel_op s s' a i t sk h
    exact ⟨h1, h2, h3.weaken (fun j hj => by simp [SelfOf, Label.subject, hj]) (fun _ h => h)⟩
  | joined a i t =>
    right
    obtain ⟨h1, h2, h3⟩ := step_rel_joined s s' a i t h
    exact ⟨h1, h2, h3.weaken (fun j hj => by simp [SelfOf, Label.subject, hj]) (fun _ h => h.elim)⟩
  | exitCb a g t =>
    right
    obtain ⟨h1, ⟨h2, h3⟩, _⟩ := step_rel_exitCb s s' a g t h
    exact ⟨h1, h2, h3.weaken (fun j hj => by simp [SelfOf, Label.subject, hj]) (fun _ h => h.elim)⟩
  | finish t =>
    left
    unfold step at h
    simp only [] at h
    split at h
    · rename_i hc
      simp only [List.mem_cons, List.mem_nil_iff, or_false] at h
      exact ⟨t, rfl, h, hc.1⟩
    · cases h

end SgVerif.C11
